/- C17 helper lemmas: subscriber hooks (`runHooksFrom`), one timer (`processTimer`), one block
(`processTimers`). -/
import OsmoVerif.Spec.Epochs
namespace OsmoVerif.Epochs

/-! ### applyIfNoError -/

theorem applyIfNoError_eq_none (st : Store) (r : HookRun) : applyIfNoError st r = none ↔ r.outcome = .oog := by
  unfold applyIfNoError
  cases r.outcome <;> simp

theorem applyIfNoError_eq_some (st st' : Store) (r : HookRun) (h : applyIfNoError st r = some st') :
    st' = contain r st ∧ r.outcome ≠ .oog := by
  unfold applyIfNoError at h
  unfold contain
  cases hr : r.outcome <;> rw [hr] at h <;> simp_all

/-! ### runHooksFrom -/

theorem containFrom_length (f : Nat → HookRun) : ∀ (l : List Store) (i : Nat), (containFrom f i l).length = l.length
  | [], _ => rfl
  | _ :: r, i => by simp [containFrom, containFrom_length f r (i + 1)]

theorem containFrom_getElem? (f : Nat → HookRun) : ∀ (l : List Store) (i j : Nat),
    (containFrom f i l)[j]? = (l[j]?).map (contain (f (i + j)))
  | [], _, _ => by simp [containFrom]
  | st :: r, i, 0 => by simp [containFrom]
  | st :: r, i, j + 1 => by
    simp only [containFrom, List.getElem?_cons_succ]
    rw [containFrom_getElem? f r (i + 1) j]
    congr 3; omega

/-- if BeginBlocker's hook loop did not panic: every subscriber was invoked exactly once, in
registration order, and each store is its contained update. -/
theorem runHooksFrom_ok (f : Nat → HookRun) : ∀ (l : List Store) (i : Nat),
    (runHooksFrom f i l).panicked = false →
      (runHooksFrom f i l).subs = containFrom f i l ∧ (runHooksFrom f i l).invoked = List.range' i l.length
  | [], _, _ => by simp [runHooksFrom, containFrom]
  | st :: r, i, h => by
    unfold runHooksFrom at h ⊢
    cases ha : applyIfNoError st (f i) with
    | none => rw [ha] at h; simp at h
    | some st' =>
      rw [ha] at h
      simp only at h ⊢
      have ih := runHooksFrom_ok f r (i + 1) h
      have hc := applyIfNoError_eq_some _ _ _ ha
      simp [containFrom, ih.1, ih.2, hc.1, List.range'_succ]

/-- the loop panics iff one of the invoked hooks ran out of gas -/
theorem runHooksFrom_panicked_iff (f : Nat → HookRun) : ∀ (l : List Store) (i : Nat),
    (runHooksFrom f i l).panicked = true ↔ ∃ j ∈ (runHooksFrom f i l).invoked, (f j).outcome = .oog
  | [], _ => by simp [runHooksFrom]
  | st :: r, i => by
    unfold runHooksFrom
    cases ha : applyIfNoError st (f i) with
    | none => simp [(applyIfNoError_eq_none _ _).1 ha]
    | some st' =>
      have hc := (applyIfNoError_eq_some _ _ _ ha).2
      simp only [List.mem_cons, exists_eq_or_imp]
      rw [runHooksFrom_panicked_iff f r (i + 1)]
      simp [hc]

/-- nothing runs after an out-of-gas hook: an invoked hook that is not the last one is not out of gas -/
theorem runHooksFrom_oog_last (f : Nat → HookRun) : ∀ (l : List Store) (i : Nat) (pre post : List Nat) (j : Nat),
    (runHooksFrom f i l).invoked = pre ++ j :: post → (f j).outcome = .oog → post = []
  | [], _, pre, post, j => by simp [runHooksFrom]
  | st :: r, i, pre, post, j => by
    unfold runHooksFrom
    cases ha : applyIfNoError st (f i) with
    | none =>
      intro h _
      simp only at h
      cases pre with
      | nil => simp at h; exact h.2
      | cons a p => simp at h
    | some st' =>
      have hc := (applyIfNoError_eq_some _ _ _ ha).2
      intro h hj
      simp only at h
      cases pre with
      | nil =>
        simp at h
        rw [h.1] at hc; exact absurd hj hc
      | cons a p =>
        simp at h
        exact runHooksFrom_oog_last f r (i + 1) p post j h.2 hj

theorem runHooksFrom_noOog (f : Nat → HookRun) (hf : ∀ j, (f j).outcome ≠ .oog) (l : List Store) (i : Nat) :
    (runHooksFrom f i l).panicked = false := by
  cases h : (runHooksFrom f i l).panicked with
  | false => rfl
  | true =>
    obtain ⟨j, _, hj⟩ := (runHooksFrom_panicked_iff f l i).1 h
    exact absurd hj (hf j)

/-- the invocations are always an initial segment of the registration order -/
theorem runHooksFrom_invoked_prefix (f : Nat → HookRun) : ∀ (l : List Store) (i : Nat),
    ∃ m, m ≤ l.length ∧ (runHooksFrom f i l).invoked = List.range' i m
  | [], _ => ⟨0, by simp [runHooksFrom]⟩
  | st :: r, i => by
    unfold runHooksFrom
    cases ha : applyIfNoError st (f i) with
    | none => exact ⟨1, by simp, by simp [List.range'_succ]⟩
    | some st' =>
      obtain ⟨m, hm, he⟩ := runHooksFrom_invoked_prefix f r (i + 1)
      exact ⟨m + 1, by simp; omega, by simp [he, List.range'_succ]⟩

end OsmoVerif.Epochs
