/-
C04 (stableswap invariant), part 11: exact-in on a pool whose scaling factors are all 1 — the invariant NEVER
decreases (FULL conditional variant).  All scaled reserves are whole numbers, the kernel before and after the swap
is an integer, the only roundings left inside the solver are worth less than one unit of the kernel, and whenever the
solver's amount is not a whole number the integer truncation of the payout gives the pool strictly more than those
roundings can take.
-/
import OsmoVerif.Proofs.GammSSUnit

set_option linter.unusedSimpArgs false

namespace OsmoVerif.GammMath.SS
open OsmoVerif.Num OsmoVerif.MathM OsmoVerif.Gen OsmoVerif.Spec

theorem xq_unit {c : SSAsset} (h : c.sf = 1) : xq c = (c.amount : ℚ) := by
  unfold xq; rw [h]; simp

/-- `w` on whole-number reserves is exact. -/
theorem sumSquares_unit_go {os : List SSAsset} {rem : List Int}
    (h : List.Forall₂ (fun c r => r = (c.amount * P36).tdiv c.sf) os rem) (hsf : ∀ c ∈ os, c.sf = 1) :
    ∀ (A w : Int), rem.foldlM (fun acc r => (BigDec.mul r r).bind (BigDec.add acc)) (A * P36) = some w →
      ∃ B : Int, w = B * P36 ∧ (B : ℚ) = A + sumSq (os.map xq) := by
  induction h with
  | nil =>
    intro A w hw
    simp only [List.foldlM_nil, pure] at hw
    injection hw with hw
    exact ⟨A, hw.symm, by simp [sumSq]⟩
  | @cons c r os rem hcr _ ih =>
    intro A w hw
    have h1 := hsf c (by simp)
    rw [h1, Int.tdiv_one] at hcr
    subst hcr
    rw [List.foldlM_cons] at hw
    cases hm : BigDec.mul (c.amount * P36) (c.amount * P36) with
    | none => simp [hm] at hw
    | some r2 =>
      cases ha : BigDec.add (A * P36) r2 with
      | none => simp [hm, ha] at hw
      | some acc' =>
        simp only [hm, ha, Option.bind_eq_bind, Option.bind_some, bind] at hw
        have e2 : r2 = c.amount ^ 2 * P36 := BigDec_mul_exact hm (by ring)
        have ea : acc' = (A + c.amount ^ 2) * P36 := by rw [BigDec_add_spec ha, e2]; ring
        rw [ea] at hw
        obtain ⟨B, hB, hBq⟩ := ih (fun z hz => hsf z (by simp [hz])) _ _ hw
        refine ⟨B, hB, ?_⟩
        rw [hBq, List.map_cons, sumSq_cons, xq_unit h1]
        push_cast; ring

theorem sumSquares_unit {os : List SSAsset} {rem : List Int} {w : Int}
    (h : List.Forall₂ (fun c r => r = (c.amount * P36).tdiv c.sf) os rem) (hsf : ∀ c ∈ os, c.sf = 1)
    (hw : sumSquares rem = some w) : ∃ B : Int, w = B * P36 ∧ (B : ℚ) = sumSq (os.map xq) := by
  unfold sumSquares at hw
  have : (0 : Int) = 0 * P36 := by simp
  rw [this] at hw
  obtain ⟨B, h1, h2⟩ := sumSquares_unit_go h hsf 0 w hw
  exact ⟨B, h1, by rw [h2]; simp⟩

/-- the amount entering the curve on a whole-number token-in is exact: `amt·(1 − spread)` with 18 decimals. -/
theorem ammIn_unit {spread amt ammIn : Int}
    (h : ((oneMinus spread).bind fun om => BigDec.mul (amt * P36) om) = some ammIn) :
    ammIn = amt * (P18 - spread) * Pdiff := by
  unfold oneMinus at h
  cases ho : Dec.sub P18 spread with
  | none => simp [ho] at h
  | some om =>
    simp only [ho, Option.map_some, Option.bind_some] at h
    rw [← Dec_sub_spec ho]
    exact BigDec_mul_exact h (by ring)

/-- the arithmetic heart: the exact kernel after the swap exceeds the one before minus one. -/
theorem unit_final {K0 X Y W Xo t Yf Y' : ℚ}
    (hK0 : K0 = X * Y * (X ^ 2 + Y ^ 2 + W)) (hX : 2 ≤ X) (hY : 0 < Y) (hW : 0 ≤ W)
    (ht1 : 1 ≤ t) (ht : t ≤ Xo) (hXoX : Xo < X) (hYf : 0 < Yf) (hYf2 : Yf < 2 * Y) (hYfY' : Yf ≤ Y')
    (hY' : Y' ≤ 10 ^ 34)
    (hgen : K0 < kq (X - Xo) Yf W + Yf * (eps * (1 + eps + 1 / 2 * |Xo|)))
    (hwhole : Xo = t → K0 < kq (X - Xo) Yf W + Yf * (eps * (1 / 2 + eps)))
    (hfrac : Xo ≠ t → t + eps ≤ Xo) :
    K0 < kq (X - t) Y' W + 1 := by
  have he := eps_pos
  have he36 : eps = 1 / 10 ^ 36 := rfl
  have hYe : Yf * eps ≤ 1 / 100 := by
    have : Yf ≤ 10 ^ 34 := le_trans hYfY' hY'
    rw [he36]
    have : Yf * (1 / 10 ^ 36) ≤ 10 ^ 34 * (1 / 10 ^ 36) := mul_le_mul_of_nonneg_right this (by positivity)
    norm_num at this ⊢
    linarith
  have he1 : eps ≤ 1 / 2 := by rw [he36]; norm_num
  have hXt : 0 < X - t := by linarith
  have hXf : 0 < X - Xo := by linarith
  by_cases hc : Xo = t
  · -- the solver's amount is a whole number: only the rounded quotient of targetK is left
    have h1 := hwhole hc
    rw [hc] at h1
    have h2 : kq (X - t) Yf W ≤ kq (X - t) Y' W := kq_mono_y hXt.le hYf.le hW hYfY'
    have : Yf * (eps * (1 / 2 + eps)) ≤ 1 / 100 := by
      have : Yf * (eps * (1 / 2 + eps)) = Yf * eps * (1 / 2 + eps) := by ring
      rw [this]
      have : Yf * eps * (1 / 2 + eps) ≤ 1 / 100 * 1 := mul_le_mul hYe (by linarith) (by positivity) (by norm_num)
      linarith
    linarith
  · -- otherwise the truncated payout leaves at least one raw unit of the out-asset in the pool
    have hd := hfrac hc
    have hXo0 : 0 < Xo := by linarith
    rw [abs_of_pos hXo0] at hgen
    have hgain := kq_gain_x (w := W) hXf.le hYf.le (show (0 : ℚ) ≤ Xo - t by linarith)
    have e : X - Xo + (Xo - t) = X - t := by ring
    rw [e] at hgain
    have h2 : kq (X - t) Yf W ≤ kq (X - t) Y' W := kq_mono_y hXt.le hYf.le hW hYfY'
    by_cases hS : Xo / 2 ≤ 3 * (X - Xo) ^ 2 + Yf ^ 2 + W
    · -- the gain covers the roundings
      have g1 : eps * (Yf * (Xo / 2)) ≤ (Xo - t) * Yf * (3 * (X - Xo) ^ 2 + Yf ^ 2 + W) := by
        have : eps * (Yf * (Xo / 2)) ≤ (Xo - t) * (Yf * (3 * (X - Xo) ^ 2 + Yf ^ 2 + W)) :=
          mul_le_mul (by linarith) (mul_le_mul_of_nonneg_left hS hYf.le) (by positivity) (by linarith)
        linarith
      have g2 : Yf * (eps * (1 + eps)) ≤ 1 / 50 := by
        have : Yf * (eps * (1 + eps)) = Yf * eps * (1 + eps) := by ring
        rw [this]
        have : Yf * eps * (1 + eps) ≤ 1 / 100 * 2 := mul_le_mul hYe (by linarith) (by positivity) (by norm_num)
        linarith
      have e2 : Yf * (eps * (1 + eps + 1 / 2 * Xo)) = Yf * (eps * (1 + eps)) + eps * (Yf * (Xo / 2)) := by ring
      linarith
    · -- impossible: the kernel at the solver's point would be far below the kernel before the swap
      exfalso
      have hS' : 3 * (X - Xo) ^ 2 + Yf ^ 2 + W < Xo / 2 := lt_of_not_ge hS
      have A : (X - Xo) ^ 2 + Yf ^ 2 + W ≤ Xo / 2 := by nlinarith [sq_nonneg (X - Xo)]
      have t1a : kq (X - Xo) Yf W ≤ (X - Xo) * Yf * (Xo / 2) := by
        unfold kq; exact mul_le_mul_of_nonneg_left A (by positivity)
      have t1b : (X - Xo) * Yf * (Xo / 2) ≤ X * Yf * (X / 2) :=
        mul_le_mul (mul_le_mul_of_nonneg_right (by linarith) hYf.le) (by linarith) (by linarith) (by positivity)
      have t2a : X * Y * X ^ 2 ≤ K0 := by
        rw [hK0]; exact mul_le_mul_of_nonneg_left (by nlinarith [sq_nonneg Y]) (by positivity)
      have t2b : X * (Yf / 2) * X ^ 2 ≤ X * Y * X ^ 2 :=
        mul_le_mul_of_nonneg_right (mul_le_mul_of_nonneg_left (by linarith) (by linarith)) (by positivity)
      have t3 : Yf * (eps * (1 + eps + 1 / 2 * Xo)) ≤ Yf * (eps * (1 + eps + 1 / 2 * X)) :=
        mul_le_mul_of_nonneg_left (mul_le_mul_of_nonneg_left (by linarith) he.le) hYf.le
      have f1 : 2 * X ^ 2 ≤ X ^ 3 := by nlinarith [mul_nonneg (sq_nonneg X) (show (0 : ℚ) ≤ X - 2 by linarith)]
      have f2 : 2 * X ≤ X ^ 2 := by nlinarith
      have f3 : eps * (1 + eps + 1 / 2 * X) ≤ 1 / 2 * (3 / 2 + 1 / 2 * X) :=
        mul_le_mul he1 (by linarith) (by positivity) (by norm_num)
      have f : 0 ≤ Yf * (X ^ 3 / 2 - X ^ 2 / 2 - eps * (1 + eps + 1 / 2 * X)) :=
        mul_nonneg hYf.le (by linarith)
      linarith

/-- both invariants through the swapped pair (shared by the exact-in and exact-out proofs). -/
theorem swap_invariant_decomp {p p' : SSPool} {dIn dOut : String} {a b : Int} {aIn aOut : SSAsset}
    (hnd : NodupDenoms p.assets) (hne : dIn ≠ dOut) (hIn : findSS p.assets dIn = some aIn)
    (hOut : findSS p.assets dOut = some aOut) (hp' : p'.assets = p.assets.map (swapOutAsset dIn dOut a b)) :
    ssInvariant p = kq (xq aIn) (xq aOut) (sumSq ((othersOf p dIn dOut).map xq))
        * ((othersOf p dIn dOut).map xq).prod ∧
    ssInvariant p' = kq (xq { aIn with amount := aIn.amount + a }) (xq { aOut with amount := aOut.amount - b })
        (sumSq ((othersOf p dIn dOut).map xq)) * ((othersOf p dIn dOut).map xq).prod := by
  have dIn_eq := (findSS_some hIn).2
  have dOut_eq := (findSS_some hOut).2
  refine ⟨ssInvariant_two hnd hne hIn hOut, ?_⟩
  unfold ssInvariant
  rw [hp']
  have pm := ((perm_two hnd hne hIn hOut).map (swapOutAsset dIn dOut a b)).map xq
  rw [ssK_perm pm]
  simp only [List.map_cons]
  have := othersOf_map_swapOut p dIn dOut a b
  unfold othersOf at this
  rw [this, swapOutAsset_in dIn_eq hne, swapOutAsset_out dOut_eq hne]
  exact ssK_cons_cons _ _ _

/-- the other assets have non-negative exact reserves once `validatePoolLiquidity` passed on the pool with the
token-in added. -/
theorem others_nonneg {p : SSPool} {dIn dOut : String} {a : Int}
    (hv : validLiquidity (p.assets.map fun c => { c with amount := c.amount + amountOf [(dIn, a)] c.denom }) = .ok ())
    (sfO : ∀ c ∈ othersOf p dIn dOut, 0 < c.sf) : ∀ z ∈ (othersOf p dIn dOut).map xq, 0 ≤ z := by
  intro z hz
  obtain ⟨c, hc, rfl⟩ := List.mem_map.mp hz
  have hsf := sfO c hc
  have hmem := List.mem_filter.mp hc
  have hd := hmem.2
  simp only [decide_eq_true_eq] at hd
  have := validLiquidity_spec hv _ (List.mem_map.mpr ⟨c, hmem.1, rfl⟩)
  simp only at this
  rw [amountOf_single, if_neg (fun e => hd.1 e.symm), Int.add_zero] at this
  have hle := le_of_one_le_tdiv hsf this.2.1
  unfold xq
  have : (0 : ℚ) < c.sf := by exact_mod_cast hsf
  have : (0 : ℚ) ≤ c.amount := by exact_mod_cast (show (0 : Int) ≤ c.amount by omega)
  positivity

/-- FULL (conditional on every scaling factor being 1): an exact-in swap never decreases the exact invariant. -/
theorem ssSwapOut_unit_full {p p' : SSPool} {dIn dOut : String} {amt spread out : Int}
    (hnd : NodupDenoms p.assets) (hsf : ∀ a ∈ p.assets, a.sf = 1) (hamt : 0 ≤ amt) (hs : 0 ≤ spread)
    (h : ssSwapOut p [(dIn, amt)] dOut spread = .ok (out, p')) : ssInvariant p ≤ ssInvariant p' := by
  obtain ⟨hc, hv, hp', _, hpos⟩ := ssSwapOut_spec h
  obtain ⟨aIn, aOut, y0, x0, rem, w, tin, ammIn, xOut, dd, hIn, hOut, hne, sfIn, sfOut, sfO, hy0, hx0, hrem, hw,
    htin, hamm, hsol, hdd, hout⟩ := ssCalcOut_spec hc
  obtain ⟨mIn, dIn_eq⟩ := findSS_some hIn
  obtain ⟨mOut, dOut_eq⟩ := findSS_some hOut
  have s1 := hsf aIn mIn
  have s2 := hsf aOut mOut
  rw [s1, Int.tdiv_one] at hy0 htin
  rw [s2, Int.tdiv_one] at hx0
  rw [s2, Int.mul_one] at hdd
  subst hy0 hx0 htin
  have hammv := ammIn_unit hamm
  obtain ⟨B, hB, hBq⟩ := sumSquares_unit hrem
    (fun c hc => hsf c (List.mem_filter.mp hc).1) hw
  subst hB
  have hyfF : aIn.amount * P36 + ammIn = (aIn.amount * P18 + amt * (P18 - spread)) * Pdiff := by
    rw [hammv, ← P18_mul_Pdiff]; ring
  obtain ⟨hgen, hwhole⟩ := solver_unit hyfF hsol
  obtain ⟨hxf, hyf, hx0p, hy0p, hwp, -⟩ := solver_post_exact_partial hsol
  obtain ⟨run, hsr, -, -, habs, -⟩ := Props.C04.stableswap_solver_post hsol
  obtain ⟨-, -, -, hyin, -, -⟩ := solverSetup_spec hsr
  obtain ⟨o1, o2, o3⟩ := outTrunc_spec hout
  -- integer facts
  have hXpos : 0 < aOut.amount := by
    by_contra hc
    have : aOut.amount * P36 ≤ 0 := Int.mul_nonpos_of_nonpos_of_nonneg (by omega) (Int.le_of_lt P36_pos)
    omega
  have hYpos : 0 < aIn.amount := by
    by_contra hc
    have : aIn.amount * P36 ≤ 0 := Int.mul_nonpos_of_nonpos_of_nonneg (by omega) (Int.le_of_lt P36_pos)
    omega
  have hddpos : 0 < dd := by
    have : 0 < out * P18 := Int.mul_pos o1 P18_pos
    omega
  have hxo : 0 < xOut := pos_of_tdiv_pos Pdiff_pos (hdd ▸ hddpos)
  obtain ⟨f1, f2, _⟩ := tdiv_floor Pdiff_pos (Int.le_of_lt hxo)
  rw [← hdd] at f1 f2
  have lo : out * P36 ≤ xOut := by
    have : out * P18 * Pdiff ≤ dd * Pdiff := Int.mul_le_mul_of_nonneg_right o2 (Int.le_of_lt Pdiff_pos)
    rw [Int.mul_assoc, P18_mul_Pdiff] at this
    omega
  have hX2 : 2 ≤ aOut.amount := by
    have := hpos aOut mOut
    rw [amountOf_single, amountOf_single, if_neg (by rw [dOut_eq]; exact hne), if_pos dOut_eq.symm] at this
    omega
  have hY'le : aIn.amount + amt ≤ 10 ^ 34 := by
    have := validLiquidity_spec hv _ (List.mem_map.mpr ⟨aIn, mIn, rfl⟩)
    simp only at this
    rw [amountOf_single, if_pos dIn_eq.symm, s1, Int.tdiv_one] at this
    exact this.2.2
  have htin0 : 0 ≤ amt * P36 := Int.mul_nonneg hamt (Int.le_of_lt P36_pos)
  have hamle := ammIn_le hs htin0 hamm
  -- the rational facts
  have hW0 : (0 : ℚ) ≤ (B : ℚ) := by rw [hBq]; exact sumSq_nonneg _
  have eF : rq ((aIn.amount * P18 + amt * (P18 - spread)) * Pdiff) = rq (aIn.amount * P36 + ammIn) := by
    rw [hyfF]
  have q_yf_pos : 0 < rq (aIn.amount * P36 + ammIn) := rq_pos.mpr hyf
  have q_yf_lt : rq (aIn.amount * P36 + ammIn) < 2 * (aIn.amount : ℚ) := by
    have : aIn.amount * P36 + ammIn < (2 * aIn.amount) * P36 := by
      have : ammIn < aIn.amount * P36 := by omega
      rw [Int.mul_assoc, Int.two_mul]; omega
    have := rq_lt_rq.mpr this
    rwa [rq_P36_mul, Int.cast_mul] at this
  have q_yf_le : rq (aIn.amount * P36 + ammIn) ≤ ((aIn.amount + amt : Int) : ℚ) := by
    have : aIn.amount * P36 + ammIn ≤ (aIn.amount + amt) * P36 := by rw [Int.add_mul]; omega
    have := rq_le_rq.mpr this
    rwa [rq_P36_mul] at this
  have q_out_le : (out : ℚ) ≤ rq xOut := by
    have := rq_le_rq.mpr lo
    rwa [rq_P36_mul] at this
  have q_xo_lt : rq xOut < (aOut.amount : ℚ) := by
    have := rq_lt_rq.mpr (show xOut < aOut.amount * P36 by omega)
    rwa [rq_P36_mul] at this
  have q_whole : rq xOut = (out : ℚ) → P36 ∣ xOut := by
    intro he
    have : rq xOut = rq (out * P36) := by rw [rq_P36_mul]; exact he
    have e : xOut = out * P36 := le_antisymm (rq_le_rq.mp this.le) (rq_le_rq.mp this.ge)
    exact ⟨out, by rw [e]; ring⟩
  have q_frac : rq xOut ≠ (out : ℚ) → (out : ℚ) + eps ≤ rq xOut := by
    intro hne'
    have : xOut ≠ out * P36 := by
      intro e; apply hne'; rw [e, rq_P36_mul]
    have : out * P36 + 1 ≤ xOut := by omega
    have := rq_le_rq.mpr this
    rw [rq_add, rq_P36_mul] at this
    have e1 : rq 1 = eps := by unfold rq eps; norm_num
    rwa [e1] at this
  rw [eF] at hgen hwhole
  have fin := unit_final (K0 := ((aOut.amount * aIn.amount * (aOut.amount ^ 2 + aIn.amount ^ 2 + B) : Int) : ℚ))
    (X := (aOut.amount : ℚ)) (Y := (aIn.amount : ℚ)) (W := (B : ℚ)) (Xo := rq xOut) (t := (out : ℚ))
    (Yf := rq (aIn.amount * P36 + ammIn)) (Y' := ((aIn.amount + amt : Int) : ℚ))
    (by push_cast; ring) (by exact_mod_cast hX2) (by exact_mod_cast hYpos) hW0 (by exact_mod_cast o1)
    q_out_le q_xo_lt q_yf_pos q_yf_lt q_yf_le (by exact_mod_cast hY'le) hgen
    (fun he => hwhole (q_whole he)) q_frac
  -- integrality
  have eK' : kq ((aOut.amount : ℚ) - out) ((aIn.amount + amt : Int) : ℚ) (B : ℚ)
      = (((aOut.amount - out) * (aIn.amount + amt) * ((aOut.amount - out) ^ 2 + (aIn.amount + amt) ^ 2 + B) : Int) : ℚ) := by
    unfold kq; push_cast; ring
  rw [eK'] at fin
  have hint : aOut.amount * aIn.amount * (aOut.amount ^ 2 + aIn.amount ^ 2 + B)
      ≤ (aOut.amount - out) * (aIn.amount + amt) * ((aOut.amount - out) ^ 2 + (aIn.amount + amt) ^ 2 + B) := by
    have : aOut.amount * aIn.amount * (aOut.amount ^ 2 + aIn.amount ^ 2 + B)
        < (aOut.amount - out) * (aIn.amount + amt) * ((aOut.amount - out) ^ 2 + (aIn.amount + amt) ^ 2 + B) + 1 := by
      exact_mod_cast fin
    omega
  have hq : kq (aOut.amount : ℚ) (aIn.amount : ℚ) (B : ℚ)
      ≤ kq ((aOut.amount : ℚ) - out) ((aIn.amount + amt : Int) : ℚ) (B : ℚ) := by
    rw [eK']
    have e0' : kq (aOut.amount : ℚ) (aIn.amount : ℚ) (B : ℚ)
        = ((aOut.amount * aIn.amount * (aOut.amount ^ 2 + aIn.amount ^ 2 + B) : Int) : ℚ) := by
      unfold kq; push_cast; ring
    rw [e0']
    exact_mod_cast hint
  -- back to the pool
  obtain ⟨e0, e1⟩ := swap_invariant_decomp hnd hne hIn hOut (hp' : p'.assets = p.assets.map (swapOutAsset dIn dOut amt out))
  have hP := prod_nonneg_of_forall (others_nonneg hv sfO)
  have hBq' : (B : ℚ) = sumSq ((othersOf p dIn dOut).map xq) := hBq
  rw [e0, e1, kq_symm (xq aIn), kq_symm (xq { aIn with amount := aIn.amount + amt }), ← hBq']
  have x1 : xq aOut = (aOut.amount : ℚ) := xq_unit s2
  have x2 : xq aIn = (aIn.amount : ℚ) := xq_unit s1
  have x3 : xq { aOut with amount := aOut.amount - out } = (aOut.amount : ℚ) - out := by
    rw [xq_unit (show ({ aOut with amount := aOut.amount - out } : SSAsset).sf = 1 from s2)]; push_cast; ring
  have x4 : xq { aIn with amount := aIn.amount + amt } = ((aIn.amount + amt : Int) : ℚ) :=
    xq_unit (show ({ aIn with amount := aIn.amount + amt } : SSAsset).sf = 1 from s1)
  rw [x1, x2, x3, x4]
  exact mul_le_mul_of_nonneg_right hq hP

end OsmoVerif.GammMath.SS
