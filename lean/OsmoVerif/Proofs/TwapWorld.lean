/- C10 helper lemmas, part 4: several pools / pairs (`World`): frame and locality of `updateRecords`,
`EndBlock`'s record loop pool by pool, pruning pair by pair, well-formedness of every pair's stores. -/
import OsmoVerif.Proofs.TwapInv

namespace OsmoVerif.Twap

/-! ### the association list -/

theorem World.get_set_self : ∀ (w : World) (k : PairKey) (s : Store), (w.set k s).get k = some s := by
  intro w
  induction w with
  | nil => intro k s; simp [World.set, World.get]
  | cons p rest ih =>
    intro k s
    obtain ⟨k0, s0⟩ := p
    by_cases h : k0 = k
    · simp [World.set, World.get, h]
    · simp [World.set, World.get, h, ih]

theorem World.get_set_other : ∀ (w : World) {k k' : PairKey} (s : Store), k' ≠ k → (w.set k s).get k' = w.get k' := by
  intro w
  induction w with
  | nil =>
    intro k k' s h
    have : ¬ k = k' := fun e => h e.symm
    simp [World.set, World.get, this]
  | cons p rest ih =>
    intro k k' s h
    obtain ⟨k0, s0⟩ := p
    by_cases h0 : k0 = k
    · subst h0
      have : ¬ k0 = k' := fun e => h e.symm
      simp [World.set, World.get, this]
    · by_cases h1 : k0 = k'
      · subst h1
        simp [World.set, World.get, h0]
      · simp [World.set, World.get, h0, h1, ih s h]

/-- the two worlds hold the same stores for every pair of pool `B`. -/
def AgreeOn (B : Nat) (w1 w2 : World) : Prop := ∀ k : PairKey, k.pool = B → w1.get k = w2.get k

theorem AgreeOn.refl (B : Nat) (w : World) : AgreeOn B w w := fun _ _ => rfl
theorem AgreeOn.symm {B : Nat} {w1 w2 : World} (h : AgreeOn B w1 w2) : AgreeOn B w2 w1 := fun k hk => (h k hk).symm
theorem AgreeOn.trans {B : Nat} {w1 w2 w3 : World} (h : AgreeOn B w1 w2) (h' : AgreeOn B w2 w3) : AgreeOn B w1 w3 :=
  fun k hk => (h k hk).trans (h' k hk)

theorem AgreeOn.set_both {B : Nat} {w1 w2 : World} (h : AgreeOn B w1 w2) (k : PairKey) (s : Store) :
    AgreeOn B (w1.set k s) (w2.set k s) := by
  intro k' hk'
  by_cases e : k' = k
  · subst e; rw [World.get_set_self, World.get_set_self]
  · rw [World.get_set_other _ _ e, World.get_set_other _ _ e]; exact h k' hk'

theorem AgreeOn.set_other {B : Nat} (w : World) {k : PairKey} (s : Store) (hk : k.pool ≠ B) : AgreeOn B (w.set k s) w := by
  intro k' hk'
  have : k' ≠ k := fun e => hk (e ▸ hk')
  exact World.get_set_other _ _ this

/-! ### `updateRecords`: frame and locality -/

theorem insertByRecentKey_mem {x y : PairInput} : ∀ {l : List PairInput}, y ∈ insertByRecentKey x l → y = x ∨ y ∈ l := by
  intro l
  induction l with
  | nil => intro h; simp [insertByRecentKey] at h; exact Or.inl h
  | cons z zs ih =>
    intro h
    unfold insertByRecentKey at h
    split at h
    · rcases List.mem_cons.mp h with h | h
      · exact Or.inl h
      · exact Or.inr h
    · rcases List.mem_cons.mp h with h | h
      · exact Or.inr (h ▸ List.mem_cons_self)
      · rcases ih h with h | h
        · exact Or.inl h
        · exact Or.inr (List.mem_cons_of_mem _ h)

theorem sortByRecentKey_mem {y : PairInput} : ∀ {l : List PairInput}, y ∈ sortByRecentKey l → y ∈ l := by
  intro l
  induction l with
  | nil => intro h; exact h
  | cons x xs ih =>
    intro h
    have h' : y ∈ insertByRecentKey x (sortByRecentKey xs) := h
    rcases insertByRecentKey_mem h' with h | h
    · exact h ▸ List.mem_cons_self
    · exact List.mem_cons_of_mem _ (ih h)

/-- frame: the loop over the pairs of another pool leaves pool `B`'s stores alone. -/
theorem updateRecordsLoop_frame {B : Nat} {now height : Int} : ∀ {is : List PairInput} {w w' : World} {f : Bool},
    (∀ i ∈ is, i.key.pool ≠ B) → updateRecordsLoop now height w is = some (w', f) → AgreeOn B w' w := by
  intro is
  induction is with
  | nil =>
    intro w w' f _ h
    simp only [updateRecordsLoop] at h
    injection h with h; injection h with h1 _
    subst h1; exact AgreeOn.refl _ _
  | cons i is ih =>
    intro w w' f hk h
    unfold updateRecordsLoop at h
    split at h
    · injection h with h; injection h with h1 _
      subst h1; exact AgreeOn.refl _ _
    · split at h
      · have := ih (fun j hj => hk j (List.mem_cons_of_mem _ hj)) h
        exact this.trans (AgreeOn.set_other _ _ (hk i List.mem_cons_self))
      · injection h with h; injection h with h1 _
        subst h1; exact AgreeOn.refl _ _
      · cases h

/-- both runs fail the block, or both end with the same error flag in worlds that agree on pool `B`. -/
def RelOpt (B : Nat) : Option (World × Bool) → Option (World × Bool) → Prop
  | none, none => True
  | some (a, f), some (b, g) => f = g ∧ AgreeOn B a b
  | _, _ => False

/-- locality: the loop over pool `B`'s pairs reads and writes pool `B`'s stores only. -/
theorem updateRecordsLoop_local {B : Nat} {now height : Int} : ∀ {is : List PairInput} {w1 w2 : World},
    (∀ i ∈ is, i.key.pool = B) → AgreeOn B w1 w2 →
    RelOpt B (updateRecordsLoop now height w1 is) (updateRecordsLoop now height w2 is) := by
  intro is
  induction is with
  | nil => intro w1 w2 _ h; exact ⟨rfl, h⟩
  | cons i is ih =>
    intro w1 w2 hk h
    have e := h i.key (hk i List.mem_cons_self)
    unfold updateRecordsLoop
    rw [e]
    cases hg : w2.get i.key with
    | none => exact ⟨rfl, h⟩
    | some s =>
      simp only
      cases hu : update s now height i.sp0 i.sp1 i.errNow with
      | ok s' => exact ih (fun j hj => hk j (List.mem_cons_of_mem _ hj)) (h.set_both _ _)
      | err => exact ⟨rfl, h⟩
      | panic => trivial

theorem all_congr {α : Type} {f g : α → Bool} : ∀ {l : List α}, (∀ x ∈ l, f x = g x) → l.all f = l.all g := by
  intro l
  induction l with
  | nil => intro _; rfl
  | cons x xs ih =>
    intro h
    simp only [List.all_cons]
    rw [h x List.mem_cons_self, ih (fun y hy => h y (List.mem_cons_of_mem _ hy))]

theorem updateRecords_frame {B : Nat} {now height : Int} {is : List PairInput} {w w' : World} {f : Bool}
    (hk : ∀ i ∈ is, i.key.pool ≠ B) (h : updateRecords w now height is = some (w', f)) : AgreeOn B w' w := by
  unfold updateRecords at h
  split at h
  · exact updateRecordsLoop_frame (fun i hi => hk i (sortByRecentKey_mem hi)) h
  · injection h with h; injection h with h1 _
    subst h1; exact AgreeOn.refl _ _

theorem updateRecords_local {B : Nat} {now height : Int} {is : List PairInput} {w1 w2 : World}
    (hk : ∀ i ∈ is, i.key.pool = B) (h : AgreeOn B w1 w2) :
    RelOpt B (updateRecords w1 now height is) (updateRecords w2 now height is) := by
  unfold updateRecords
  have hc : (is.all fun i => hasRecent w1 i.key) = (is.all fun i => hasRecent w2 i.key) :=
    all_congr fun i hi => by unfold hasRecent; rw [h i.key (hk i hi)]
  rw [hc]
  split
  · exact updateRecordsLoop_local (fun i hi => hk i (sortByRecentKey_mem hi)) h
  · exact ⟨rfl, h⟩

/-! ### `EndBlock` pool by pool -/

/-- the inputs of a block are well formed: a pool's entry lists pairs of that pool. -/
def InputsOfOwnPool (c : List PoolInput) : Prop := ∀ p ∈ c, ∀ i ∈ p.pairs, i.key.pool = p.pool

def RelOptW (B : Nat) : Option World → Option World → Prop
  | none, none => True
  | some a, some b => AgreeOn B a b
  | _, _ => False

theorem endBlock_local {B : Nat} {now height : Int} : ∀ {c : List PoolInput} {w1 w2 : World},
    InputsOfOwnPool c → (∀ p ∈ c, p.pool = B) → AgreeOn B w1 w2 →
    RelOptW B (endBlock now height w1 c) (endBlock now height w2 c) := by
  intro c
  induction c with
  | nil => intro w1 w2 _ _ h; exact h
  | cons p ps ih =>
    intro w1 w2 hi hb h
    have hp : ∀ i ∈ p.pairs, i.key.pool = B := fun i hi' => (hi p List.mem_cons_self i hi').trans (hb p List.mem_cons_self)
    have r := updateRecords_local (now := now) (height := height) hp h
    unfold endBlock
    cases h1 : updateRecords w1 now height p.pairs with
    | none =>
      rw [h1] at r
      cases h2 : updateRecords w2 now height p.pairs with
      | none => trivial
      | some x => rw [h2] at r; exact r.elim
    | some x =>
      rw [h1] at r
      cases h2 : updateRecords w2 now height p.pairs with
      | none => rw [h2] at r; obtain ⟨_, _⟩ := x; exact r.elim
      | some y =>
        rw [h2] at r
        obtain ⟨a, f⟩ := x
        obtain ⟨b, g⟩ := y
        exact ih (fun q hq => hi q (List.mem_cons_of_mem _ hq)) (fun q hq => hb q (List.mem_cons_of_mem _ hq)) r.2

/-- the other pools of a block can be dropped without changing what happens to pool `B`. -/
theorem endBlock_drop_others {B : Nat} {now height : Int} : ∀ {c : List PoolInput} {w w' : World},
    InputsOfOwnPool c → endBlock now height w c = some w' →
    ∃ w'', endBlock now height w (c.filter fun p => decide (p.pool = B)) = some w'' ∧ AgreeOn B w' w'' := by
  intro c
  induction c with
  | nil => intro w w' _ h; exact ⟨w', h, AgreeOn.refl _ _⟩
  | cons p ps ih =>
    intro w w' hi h
    have hi' : InputsOfOwnPool ps := fun q hq => hi q (List.mem_cons_of_mem _ hq)
    unfold endBlock at h
    cases h1 : updateRecords w now height p.pairs with
    | none => rw [h1] at h; cases h
    | some x =>
      obtain ⟨w1, f⟩ := x
      rw [h1] at h
      simp only at h
      obtain ⟨w1'', e1, a1⟩ := ih hi' h
      by_cases hp : p.pool = B
      · refine ⟨w1'', ?_, a1⟩
        rw [List.filter_cons_of_pos (by simpa using hp)]
        unfold endBlock
        rw [h1]
        exact e1
      · rw [List.filter_cons_of_neg (by simpa using hp)]
        have fr : AgreeOn B w1 w := updateRecords_frame (fun i hi'' => by rw [hi p List.mem_cons_self i hi'']; exact hp) h1
        have hiF : InputsOfOwnPool (ps.filter fun p => decide (p.pool = B)) := fun q hq => hi' q (List.mem_filter.mp hq).1
        have hbF : ∀ q ∈ ps.filter (fun p => decide (p.pool = B)), q.pool = B := fun q hq => by
          simpa using (List.mem_filter.mp hq).2
        have r := endBlock_local (now := now) (height := height) hiF hbF fr
        rw [e1] at r
        cases h2 : endBlock now height w (ps.filter fun p => decide (p.pool = B)) with
        | none => rw [h2] at r; exact r.elim
        | some w'' => rw [h2] at r; exact ⟨w'', rfl, a1.trans r⟩

/-! ### pruning pair by pair -/

theorem pruneWorld_get : ∀ (w : World) (c : Int) (k : PairKey),
    (pruneWorld w c).get k = (w.get k).map fun s => prune s c := by
  intro w
  induction w with
  | nil => intro c k; rfl
  | cons p rest ih =>
    intro c k
    obtain ⟨k0, s0⟩ := p
    show World.get ((k0, prune s0 c) :: pruneWorld rest c) k = _
    by_cases h : k0 = k
    · simp [World.get, h]
    · simp [World.get, h, ih]

theorem prunePair_get_other (w : World) {k k' : PairKey} (c : Int) (h : k' ≠ k) : (prunePair w k c).get k' = w.get k' := by
  unfold prunePair
  split
  · exact World.get_set_other _ _ h
  · rfl

theorem prunePair_get_self (w : World) (k : PairKey) (c : Int) : (prunePair w k c).get k = (w.get k).map fun s => prune s c := by
  unfold prunePair
  split
  · rename_i s hs; rw [World.get_set_self, hs]; rfl
  · rename_i hs; rw [hs]; rfl

/-! ### every pair's stores stay well formed -/

def WorldWF (w : World) : Prop := ∀ k s, w.get k = some s → WF s

theorem WorldWF.set {w : World} (h : WorldWF w) {k : PairKey} {s : Store} (hs : WF s) : WorldWF (w.set k s) := by
  intro k' s' hg
  by_cases e : k' = k
  · subst e; rw [World.get_set_self] at hg; injection hg with hg; exact hg ▸ hs
  · rw [World.get_set_other _ _ e] at hg; exact h k' s' hg

theorem WorldWF.updateRecordsLoop {now height : Int} : ∀ {is : List PairInput} {w w' : World} {f : Bool},
    WorldWF w → updateRecordsLoop now height w is = some (w', f) → WorldWF w' := by
  intro is
  induction is with
  | nil =>
    intro w w' f hw h
    simp only [Twap.updateRecordsLoop] at h
    injection h with h; injection h with h1 _
    exact h1 ▸ hw
  | cons i is ih =>
    intro w w' f hw h
    unfold Twap.updateRecordsLoop at h
    split at h
    · injection h with h; injection h with h1 _
      exact h1 ▸ hw
    · rename_i s hs
      split at h
      · rename_i s' hu
        exact ih (hw.set (WF.update (hw _ _ hs) hu)) h
      · injection h with h; injection h with h1 _
        exact h1 ▸ hw
      · cases h

theorem WorldWF.endBlock {now height : Int} : ∀ {c : List PoolInput} {w w' : World},
    WorldWF w → endBlock now height w c = some w' → WorldWF w' := by
  intro c
  induction c with
  | nil => intro w w' hw h; injection h with h; exact h ▸ hw
  | cons p ps ih =>
    intro w w' hw h
    unfold Twap.endBlock at h
    cases h1 : updateRecords w now height p.pairs with
    | none => rw [h1] at h; cases h
    | some x =>
      obtain ⟨w1, f⟩ := x
      rw [h1] at h
      refine ih ?_ h
      unfold updateRecords at h1
      split at h1
      · exact WorldWF.updateRecordsLoop hw h1
      · injection h1 with h1; injection h1 with h2 _
        exact h2 ▸ hw

theorem WorldWF.pruneWorld {w : World} (hw : WorldWF w) (c : Int) : WorldWF (pruneWorld w c) := by
  intro k s hg
  rw [pruneWorld_get] at hg
  cases hk : w.get k with
  | none => rw [hk] at hg; cases hg
  | some s0 =>
    rw [hk] at hg
    injection hg with hg
    exact hg ▸ (hw k s0 hk).prune

/-- pool creation: the pairs of a new pool are new keys. -/
theorem WorldWF.createPairs {now height : Int} (hz : zeroTime ≤ now) : ∀ {is : List PairInput} {w : World},
    WorldWF w → (∀ i ∈ is, w.get i.key = none) → (is.map (·.key)).Nodup → WorldWF (createPairs w now height is) := by
  intro is
  induction is with
  | nil => intro w hw _ _; exact hw
  | cons i is ih =>
    intro w hw hn hd
    unfold Twap.createPairs
    rw [hn i List.mem_cons_self]
    simp only
    have hd' := List.nodup_cons.mp hd
    refine ih (hw.set (WF.create hz)) ?_ hd'.2
    intro j hj
    have : j.key ≠ i.key := fun e => hd'.1 (List.mem_map.mpr ⟨j, hj, e⟩)
    rw [World.get_set_other _ _ this]
    exact hn j (List.mem_cons_of_mem _ hj)

/-! ### a pool whose update goes through has fresh records for every pair -/

theorem insertByRecentKey_perm (x : PairInput) : ∀ l : List PairInput, (insertByRecentKey x l).Perm (x :: l) := by
  intro l
  induction l with
  | nil => exact List.Perm.refl _
  | cons y ys ih =>
    unfold insertByRecentKey
    split
    · exact List.Perm.refl _
    · exact ((List.Perm.cons y ih).trans (List.Perm.swap x y ys))

theorem sortByRecentKey_perm : ∀ l : List PairInput, (sortByRecentKey l).Perm l := by
  intro l
  induction l with
  | nil => exact List.Perm.refl _
  | cons x xs ih =>
    show (insertByRecentKey x (sortByRecentKey xs)).Perm (x :: xs)
    exact (insertByRecentKey_perm x _).trans (List.Perm.cons x ih)

/-- the loop writes the listed keys only. -/
theorem updateRecordsLoop_frame_key {now height : Int} : ∀ {is : List PairInput} {w w' : World} {f : Bool},
    updateRecordsLoop now height w is = some (w', f) → ∀ k, (∀ i ∈ is, i.key ≠ k) → w'.get k = w.get k := by
  intro is
  induction is with
  | nil =>
    intro w w' f h k _
    simp only [updateRecordsLoop] at h
    injection h with h; injection h with h1 _
    rw [h1]
  | cons i is ih =>
    intro w w' f h k hk
    unfold updateRecordsLoop at h
    split at h
    · injection h with h; injection h with h1 _
      rw [h1]
    · split at h
      · rw [ih h k (fun j hj => hk j (List.mem_cons_of_mem _ hj))]
        exact World.get_set_other _ _ (fun e => hk i List.mem_cons_self e.symm)
      · injection h with h; injection h with h1 _
        rw [h1]
      · cases h

/-- an accepted `update` (one pair): the most recent record is at the block time with the block's prices. -/
theorem update_ok_recent {s s' : Store} {now height sp0 sp1 : Int} {e : Bool}
    (h : update s now height sp0 sp1 e = .ok s') :
    ∃ n, s'.recent = some n ∧ n.time = now ∧ n.height = height ∧ n.sp0 = sp0 ∧ n.sp1 = sp1 := by
  unfold update at h
  cases hr : s.recent with
  | none => rw [hr] at h; cases h
  | some r =>
    rw [hr] at h
    simp only at h
    cases hu : updateRecord r now height sp0 sp1 e with
    | err => rw [hu] at h; cases h
    | panic => rw [hu] at h; cases h
    | ok n =>
      rw [hu] at h
      simp only [Res.bind] at h
      injection h with h
      subst h
      obtain ⟨a, b, c, d, _⟩ := updateRecord_spec hu
      exact ⟨n, rfl, a, b, c, d⟩

/-- the loop ran through without an error: every listed pair (distinct keys) has a fresh most recent record. -/
theorem updateRecordsLoop_fresh {now height : Int} : ∀ {is : List PairInput} {w w' : World},
    (is.map (·.key)).Nodup → updateRecordsLoop now height w is = some (w', false) →
    ∀ i ∈ is, ∃ s n, w'.get i.key = some s ∧ s.recent = some n ∧ n.time = now ∧ n.height = height ∧
      n.sp0 = i.sp0 ∧ n.sp1 = i.sp1 := by
  intro is
  induction is with
  | nil => intro w w' _ _ i hi; cases hi
  | cons i is ih =>
    intro w w' hd h j hj
    have hd' := List.nodup_cons.mp hd
    unfold updateRecordsLoop at h
    split at h
    · injection h with h; injection h with _ h2; cases h2
    · rename_i s hs
      split at h
      · rename_i s' hu
        rcases List.mem_cons.mp hj with e | e
        · subst e
          obtain ⟨n, a, b, c, d, f⟩ := update_ok_recent hu
          refine ⟨s', n, ?_, a, b, c, d, f⟩
          rw [updateRecordsLoop_frame_key h j.key (fun x hx e' => hd'.1 (List.mem_map.mpr ⟨x, hx, e'⟩))]
          exact World.get_set_self _ _ _
        · exact ih hd'.2 h j e
      · injection h with h; injection h with _ h2; cases h2
      · cases h

theorem updateRecords_fresh {now height : Int} {is : List PairInput} {w w' : World}
    (hd : (is.map (·.key)).Nodup) (h : updateRecords w now height is = some (w', false)) :
    ∀ i ∈ is, ∃ s n, w'.get i.key = some s ∧ s.recent = some n ∧ n.time = now ∧ n.height = height ∧
      n.sp0 = i.sp0 ∧ n.sp1 = i.sp1 := by
  unfold updateRecords at h
  split at h
  · intro i hi
    have hp := sortByRecentKey_perm is
    exact updateRecordsLoop_fresh ((hp.map _).nodup_iff.mpr hd) h i (hp.mem_iff.mpr hi)
  · injection h with h; injection h with _ h2; cases h2

end OsmoVerif.Twap
