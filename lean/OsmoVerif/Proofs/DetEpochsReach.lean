/- C19 helper: the reachable-state invariant under which x/epochs accepts its own export (`epochsImport_aux`): timers in strictly
ascending identifier order (the store order), every timer passes `EpochInfo.Validate` and has a non-zero start time.  It holds along
every history of `AddEpochInfo` (under a context with non-zero block time and non-negative height) and blocks (non-negative height).
Core only. -/
import OsmoVerif.Proofs.DetEpochsRun
import OsmoVerif.Proofs.EpochsHistory

namespace OsmoVerif.Det
open List OsmoVerif.Epochs

/-- what `InitGenesis` needs of the exported timers -/
structure GenOK (s : State) : Prop where
  sorted : s.timers.Pairwise (fun a b => a.identifier < b.identifier)
  valid : ∀ e ∈ s.timers, validate e = true ∧ e.startTime ≠ 0

theorem lt_of_not_lt_of_ne {a b : String} (h1 : ¬ a < b) (h2 : a ≠ b) : b < a := by
  apply Classical.byContradiction
  intro h3
  exact h2 (String.le_antisymm (String.not_lt.mp h3) (String.not_lt.mp h1))

theorem mem_insertTimer (e x : EpochInfo) : ∀ (l : List EpochInfo), x ∈ insertTimer e l → x = e ∨ x ∈ l
  | [], h => by simp only [insertTimer, List.mem_singleton] at h; exact Or.inl h
  | y :: r, h => by
    unfold insertTimer at h
    split at h
    · rcases List.mem_cons.mp h with h | h
      · exact Or.inl h
      · exact Or.inr h
    · rcases List.mem_cons.mp h with h | h
      · exact Or.inr (by rw [h]; exact List.mem_cons_self)
      · rcases mem_insertTimer e x r h with h | h
        · exact Or.inl h
        · exact Or.inr (List.mem_cons_of_mem _ h)

theorem insertTimer_sorted (e : EpochInfo) : ∀ (l : List EpochInfo), l.Pairwise (fun a b => a.identifier < b.identifier) →
    (∀ x ∈ l, x.identifier ≠ e.identifier) → (insertTimer e l).Pairwise (fun a b => a.identifier < b.identifier)
  | [], _, _ => by simp [insertTimer]
  | y :: r, hs, hne => by
    rw [List.pairwise_cons] at hs
    unfold insertTimer
    split
    · rename_i hlt
      refine List.pairwise_cons.mpr ⟨fun z hz => ?_, List.pairwise_cons.mpr hs⟩
      rcases List.mem_cons.mp hz with hz | hz
      · rw [hz]; exact hlt
      · exact String.lt_trans hlt (hs.1 z hz)
    · rename_i hnlt
      have hy : y.identifier < e.identifier := lt_of_not_lt_of_ne hnlt (fun h => hne y List.mem_cons_self h.symm)
      refine List.pairwise_cons.mpr ⟨fun z hz => ?_, insertTimer_sorted e r hs.2 (fun x hx => hne x (List.mem_cons_of_mem _ hx))⟩
      rcases mem_insertTimer e z r hz with hz | hz
      · rw [hz]; exact hy
      · exact hs.1 z hz

theorem genOK_add {s s' : State} {ctxT ctxH : Int} {e : EpochInfo} (h : GenOK s) (hT : ctxT ≠ 0) (hH : 0 ≤ ctxH)
    (ha : addEpochInfo ctxT ctxH e s = some s') : GenOK s' := by
  obtain ⟨e', h1, _, h3, _, h5, h6, h7, h8, h9, h10, _⟩ := addEpochInfo_some ha
  refine ⟨?_, fun x hx => ?_⟩
  · rw [h10]
    exact insertTimer_sorted e' s.timers h.sorted (fun x hx => by rw [h1]; exact h8 x hx)
  · rw [h10] at hx
    rcases mem_insertTimer e' x s.timers hx with hx | hx
    · subst hx
      refine ⟨?_, ?_⟩
      · unfold validate at h9 ⊢
        rw [h1, h5, h3, h7]
        simp only [Bool.and_eq_true, decide_eq_true_eq] at h9 ⊢
        exact ⟨⟨⟨h9.1.1.1, h9.1.1.2⟩, h9.1.2⟩, hH⟩
      · rw [h6]
        split
        · exact hT
        · rename_i hne; exact hne
    · exact h.valid x hx

theorem validate_pureStep (t hh : Int) (e : EpochInfo) (hH : 0 ≤ hh) (hv : validate e = true) : validate (pureStep t hh e) = true := by
  unfold validate at hv ⊢
  simp only [Bool.and_eq_true, decide_eq_true_eq] at hv ⊢
  unfold pureStep
  split
  · split
    · exact ⟨⟨⟨hv.1.1.1, hv.1.1.2⟩, by show 0 ≤ e.currentEpoch + 1; omega⟩, hH⟩
    · exact ⟨⟨⟨hv.1.1.1, hv.1.1.2⟩, by show (0 : Int) ≤ 1; omega⟩, hH⟩
  · exact hv

theorem genOK_block {s : State} (h : GenOK s) (b : Block) (hH : 0 ≤ b.h) : GenOK (stepBlock s b) := by
  rcases stepBlock_cases s b with ⟨_, he, _⟩ | ⟨_, he, _, _⟩
  · rw [he]; exact h
  · refine ⟨?_, fun x hx => ?_⟩
    · rw [he, List.pairwise_map]
      exact h.sorted.imp (fun hlt => by rw [pureStep_identifier, pureStep_identifier]; exact hlt)
    · rw [he] at hx
      obtain ⟨y, hy, rfl⟩ := List.mem_map.mp hx
      exact ⟨validate_pureStep b.t b.h y hH (h.valid y hy).1, by rw [pureStep_startTime]; exact (h.valid y hy).2⟩

theorem genOK_init (k : Nat) : GenOK (initState k) := ⟨List.Pairwise.nil, fun _ h => by cases h⟩

end OsmoVerif.Det
