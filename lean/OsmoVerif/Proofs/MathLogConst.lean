/-
40-digit enclosures of `ln 2` and `ln 1.0001` (Mercator series with Mathlib's explicit remainder, evaluated by
`norm_num`), and from them the accuracy of the coded base-change constants `logOfEbase2 ≈ log₂ e` and
`tickLogOf2 ≈ log₂ 1.0001`.
-/
import OsmoVerif.Proofs.MathLogDerived
import Mathlib.Analysis.SpecialFunctions.Log.Deriv

namespace OsmoVerif.MathM
open OsmoVerif.Num OsmoVerif.Gen Real Finset

set_option maxRecDepth 100000 in
/-- `ln 2` to 39 decimals (135 terms of `−ln(1 − ½)`, remainder `2^-135`). -/
theorem log_two_bounds_39 : (0.693147180559945309417232121458176568075 : ℝ) < log 2 ∧
    log 2 < 0.693147180559945309417232121458176568076 := by
  have t : |(2⁻¹ : ℝ)| = 2⁻¹ := by rw [abs_of_pos]; norm_num
  have z := Real.abs_log_sub_add_sum_range_le (show |(2⁻¹ : ℝ)| < 1 by rw [t]; norm_num) 135
  rw [t] at z
  norm_num1 at z
  rw [one_div (2 : ℝ), log_inv, ← sub_eq_add_neg] at z
  obtain ⟨z1, z2⟩ := abs_le.mp z
  constructor
  · norm_num1 at z1 z2 ⊢; linarith
  · norm_num1 at z1 z2 ⊢; linarith

set_option maxRecDepth 100000 in
/-- `ln 1.0001` to 45 decimals (12 terms of `−ln(1 − 1/10001)`). -/
theorem log_tick_bounds : (0.000099995000333308335333166680951131063482064 : ℝ) < log 1.0001 ∧
    log 1.0001 < 0.000099995000333308335333166680951131063482065 := by
  have t : |((10001 : ℝ)⁻¹)| = (10001 : ℝ)⁻¹ := by rw [abs_of_pos]; norm_num
  have z := Real.abs_log_sub_add_sum_range_le (show |((10001 : ℝ)⁻¹)| < 1 by rw [t]; norm_num) 12
  rw [t] at z
  have e : (1 : ℝ) - (10001 : ℝ)⁻¹ = (1.0001 : ℝ)⁻¹ := by norm_num
  rw [e, log_inv, ← sub_eq_add_neg] at z
  norm_num1 at z
  obtain ⟨z1, z2⟩ := abs_le.mp z
  constructor
  · norm_num1 at z1 z2 ⊢; linarith
  · norm_num1 at z1 z2 ⊢; linarith

/-- accuracy of the coded `logOfEbase2` (`log₂ e` truncated to 36 decimals): `|1/c − ln 2| ≤ 2.1·10^-37`. -/
theorem logOfEbase2_accuracy : |1 / bval Osmomath.logOfEbase2 - Real.log 2| ≤ 21 / 10 ^ 38 := by
  obtain ⟨l1, l2⟩ := log_two_bounds_39
  unfold bval Osmomath.logOfEbase2
  rw [abs_le]
  constructor
  · norm_num1 at l1 l2 ⊢; linarith
  · norm_num1 at l1 l2 ⊢; linarith

/-- accuracy of the coded `tickLogOf2` (`log₂ 1.0001` with 33 significant digits):
`|1/c − 1/log₂ 1.0001| ≤ 1.5·10^-29`, and not better than `1.4·10^-29`. -/
theorem tickLogOf2_accuracy :
    |1 / bval Osmomath.tickLogOf2 - 1 / Real.logb 2 1.0001| ≤ 15 / 10 ^ 30 ∧
    14 / 10 ^ 30 ≤ 1 / Real.logb 2 1.0001 - 1 / bval Osmomath.tickLogOf2 := by
  obtain ⟨l1, l2⟩ := log_two_bounds_39
  obtain ⟨t1, t2⟩ := log_tick_bounds
  have ht0 : 0 < Real.log 1.0001 := by linarith
  have hl0 : 0 < Real.log 2 := by linarith
  have e : 1 / Real.logb 2 1.0001 = Real.log 2 / Real.log 1.0001 := by
    unfold Real.logb; field_simp
  -- enclosure of the ratio
  have r1 : (0.693147180559945309417232121458176568075 : ℝ) / 0.000099995000333308335333166680951131063482065
      ≤ Real.log 2 / Real.log 1.0001 := by
    rw [div_le_div_iff₀ (by norm_num) ht0]; nlinarith
  have r2 : Real.log 2 / Real.log 1.0001 ≤
      (0.693147180559945309417232121458176568076 : ℝ) / 0.000099995000333308335333166680951131063482064 := by
    rw [div_le_div_iff₀ ht0 (by norm_num)]; nlinarith
  rw [e]
  unfold bval Osmomath.tickLogOf2
  refine ⟨?_, ?_⟩
  · rw [abs_le]
    constructor
    · norm_num1 at r1 r2 ⊢; linarith
    · norm_num1 at r1 r2 ⊢; linarith
  · norm_num1 at r1 r2 ⊢; linarith

end OsmoVerif.MathM
