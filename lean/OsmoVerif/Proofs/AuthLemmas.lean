/- helper lemmas for Props/C20 (core only): association lists, bank ledger, list/namespace facts -/
import OsmoVerif.Model.Auth

namespace OsmoVerif.Auth

section AList
variable {κ : Type} {α : Type} [DecidableEq κ]

theorem aget_cons (k k' : κ) (v : α) (t : List (κ × α)) :
    aget k ((k', v) :: t) = if k' = k then some v else aget k t := rfl

theorem aget_aerase_self (k : κ) (l : List (κ × α)) : aget k (aerase k l) = none := by
  induction l with
  | nil => rfl
  | cons p t ih =>
    obtain ⟨k', v⟩ := p
    unfold aerase
    by_cases h : k' = k
    · rw [if_pos h]; exact ih
    · rw [if_neg h]; unfold aget; rw [if_neg h]; exact ih

theorem aget_aerase_ne {k k' : κ} (h : k' ≠ k) (l : List (κ × α)) : aget k (aerase k' l) = aget k l := by
  induction l with
  | nil => rfl
  | cons p t ih =>
    obtain ⟨k'', v⟩ := p
    unfold aerase
    by_cases h1 : k'' = k'
    · rw [if_pos h1]
      rw [ih]
      have : k'' ≠ k := by rw [h1]; exact h
      conv => rhs; unfold aget
      rw [if_neg this]
    · rw [if_neg h1]
      unfold aget
      by_cases h2 : k'' = k
      · rw [if_pos h2, if_pos h2]
      · rw [if_neg h2, if_neg h2]; exact ih

theorem aget_aset_self (k : κ) (v : α) (l : List (κ × α)) : aget k (aset k v l) = some v := by
  unfold aset; rw [aget_cons, if_pos rfl]

theorem aget_aset_ne {k k' : κ} (h : k' ≠ k) (v : α) (l : List (κ × α)) : aget k (aset k' v l) = aget k l := by
  unfold aset; rw [aget_cons, if_neg h]; exact aget_aerase_ne h l

theorem aget_map_val (f : α → α) (k : κ) (l : List (κ × α)) :
    aget k (l.map fun p => (p.1, f p.2)) = (aget k l).map f := by
  induction l with
  | nil => rfl
  | cons p t ih =>
    obtain ⟨k', v⟩ := p
    simp only [List.map_cons, aget_cons]
    by_cases h : k' = k
    · rw [if_pos h, if_pos h]; rfl
    · rw [if_neg h, if_neg h]; exact ih

end AList

/-! ## bank -/

theorem getBal_addBal_ne {b : List ((String × String) × Int)} {a' d' a d : String} (x : Int)
    (h : (a', d') ≠ (a, d)) : getBal (addBal b a' d' x) a d = getBal b a d := by
  unfold addBal getBal
  rw [aget_aset_ne h]

theorem getBal_addBal_addr_ne {b : List ((String × String) × Int)} {a' a : String} (d' d : String) (x : Int)
    (h : a' ≠ a) : getBal (addBal b a' d' x) a d = getBal b a d :=
  getBal_addBal_ne x (fun e => h (congrArg Prod.fst e))

theorem getBal_pay_ne {b b' : List ((String × String) × Int)} {frm to d : String} {x : Int}
    (hp : pay b frm to d x = some b') {a : String} (hf : frm ≠ a) (ht : to ≠ a) (d0 : String) :
    getBal b' a d0 = getBal b a d0 := by
  unfold pay at hp
  split at hp
  · cases hp
  · injection hp with hp
    subst hp
    rw [getBal_addBal_addr_ne _ _ _ ht, getBal_addBal_addr_ne _ _ _ hf]

/-! ## namespaces -/

theorem slash_split_unique : ∀ (c1 c2 r1 r2 : List Char), '/' ∉ c1 → '/' ∉ c2 →
    c1 ++ '/' :: r1 = c2 ++ '/' :: r2 → c1 = c2 := by
  intro c1
  induction c1 with
  | nil =>
    intro c2 r1 r2 _ h2 h
    cases c2 with
    | nil => rfl
    | cons x xs =>
      simp only [List.nil_append, List.cons_append] at h
      injection h with hx _
      exact absurd (by rw [← hx]; exact List.mem_cons_self) h2
  | cons y ys ih =>
    intro c2 r1 r2 h1 h2 h
    cases c2 with
    | nil =>
      simp only [List.nil_append, List.cons_append] at h
      injection h with hx _
      exact absurd (by rw [hx]; exact List.mem_cons_self) h1
    | cons x xs =>
      simp only [List.cons_append] at h
      injection h with hx ht
      have := ih xs r1 r2 (fun m => h1 (List.mem_cons_of_mem _ m)) (fun m => h2 (List.mem_cons_of_mem _ m)) ht
      rw [hx, this]

/-- a factory denom determines its creator: `factory/<creator>/<sub>` parses in one way only. -/
theorem mkDenom_creator_injective {c1 c2 s1 s2 : String} (h1 : '/' ∉ c1.toList) (h2 : '/' ∉ c2.toList)
    (h : mkDenom c1 s1 = mkDenom c2 s2) : c1 = c2 := by
  have h' := congrArg String.toList h
  unfold mkDenom at h'
  simp only [String.toList_append] at h'
  rw [List.append_assoc, List.append_assoc, List.append_assoc, List.append_assoc] at h'
  have h'' := List.append_cancel_left h'
  have hs : ("/" : String).toList = ['/'] := by decide
  rw [hs] at h''
  exact String.toList_inj.mp (slash_split_unique _ _ _ _ h1 h2 h'')

end OsmoVerif.Auth
