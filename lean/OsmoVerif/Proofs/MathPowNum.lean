/-
`Pow`: small real-valued facts about the raw `Dec` operations used by the error analysis of `PowApprox`, `ApproxSqrt`
and `LegacyDec.Power` (Mathlib reals; nothing here is used by the executable model): the operations SUCCEED on values of
moderate size, exact `add`/`sub`, integrality (`−1 < r` gives `0 ≤ r`), signs as `±1` factors.
-/
import OsmoVerif.Proofs.GammRealNum
import Mathlib.Tactic.NormNum
import Mathlib.Tactic.Linarith

namespace OsmoVerif.MathM
open OsmoVerif.Num OsmoVerif.Gen OsmoVerif.GammMath

theorem decUpper_ge : (10 : Int) ^ 60 ≤ decUpper := by decide +kernel

theorem powPrecision_val : Osmomath.powPrecision = 10 ^ 10 := by decide
theorem powIterationLimit_val : Osmomath.powIterationLimit = 150000 := by decide
theorem one_half_val : Osmomath.one_half = 5 * 10 ^ 17 := by decide

/-- a raw value of moderate size is in the valid `LegacyDec` range. -/
theorem chkDec_of_real {x : Int} (h : |(x : ℝ)| ≤ 10 ^ 60) : chkDec x = some x := by
  obtain ⟨h2, h1⟩ := abs_le.mp h
  have h1' : x ≤ 10 ^ 60 := by exact_mod_cast h1
  have h2' : -(10 : Int) ^ 60 ≤ x := by exact_mod_cast h2
  have := decUpper_ge
  unfold chkDec; rw [if_pos ⟨by omega, by omega⟩]

theorem chkDec_of_dv {x : Int} (h : |dv x| ≤ 10 ^ 40) : chkDec x = some x := by
  apply chkDec_of_real
  unfold dv at h
  rw [abs_div, abs_of_pos (show (0 : ℝ) < 10 ^ 18 by positivity), div_le_iff₀ (by positivity)] at h
  calc |(x : ℝ)| ≤ 10 ^ 40 * 10 ^ 18 := h
    _ ≤ 10 ^ 60 := by norm_num

theorem chkDec_val {x r : Int} (h : chkDec x = some r) : r = x := by
  unfold chkDec at h; split at h
  · exact (Option.some.inj h).symm
  · cases h

theorem dv_P18_mul (n : Int) : dv (n * P18) = n := by
  unfold dv; rw [Int.cast_mul, P18_cast]; field_simp

theorem dv_abs_eq (x : Int) : |dv x| = |(x : ℝ)| / 10 ^ 18 := by
  unfold dv; rw [abs_div, abs_of_pos (show (0 : ℝ) < 10 ^ 18 by positivity)]

/-- an integer above `−1` is non-negative. -/
theorem nonneg_of_dv {r : Int} (h : -(1 / 10 ^ 18) < dv r) : 0 ≤ r := by
  unfold dv at h
  rw [lt_div_iff₀ (by positivity)] at h
  have : (-1 : ℝ) < (r : ℝ) := by
    have e : -(1 / 10 ^ 18 : ℝ) * 10 ^ 18 = -1 := by field_simp
    rw [e] at h; exact h
  have : (-1 : Int) < r := by exact_mod_cast this
  omega

theorem dv_eq_zero {r : Int} : dv r = 0 ↔ r = 0 := by
  unfold dv
  constructor
  · intro h
    have : (r : ℝ) = 0 := by
      rcases div_eq_zero_iff.mp h with h | h
      · exact h
      · exact absurd h (by positivity)
    exact_mod_cast this
  · intro h; subst h; simp

theorem Dec_mul_total {a b : Int} (h : |dv a * dv b| ≤ 10 ^ 40) : ∃ r, Dec.mul a b = some r := by
  unfold Dec.mul
  refine ⟨_, chkDec_of_real ?_⟩
  have h1 := chopRound_real (a * b)
  generalize chopRound P18 (a * b) = r at *
  have e : ((a * b : Int) : ℝ) / 10 ^ 18 = dv a * dv b * 10 ^ 18 := by
    unfold dv; push_cast; field_simp
  rw [e] at h1
  have h2 : |dv a * dv b * 10 ^ 18| ≤ 10 ^ 40 * 10 ^ 18 := by
    rw [abs_mul, abs_of_pos (show (0 : ℝ) < 10 ^ 18 by positivity)]
    exact mul_le_mul_of_nonneg_right h (by positivity)
  have h3 : |(r : ℝ)| ≤ |(r : ℝ) - dv a * dv b * 10 ^ 18| + |dv a * dv b * 10 ^ 18| := by
    have := abs_add_le ((r : ℝ) - dv a * dv b * 10 ^ 18) (dv a * dv b * 10 ^ 18)
    rwa [sub_add_cancel] at this
  calc |(r : ℝ)| ≤ 1 / 2 + 10 ^ 40 * 10 ^ 18 := le_trans h3 (add_le_add h1 h2)
    _ ≤ 10 ^ 60 := by norm_num

theorem Dec_quo_total {a b : Int} (hb : b ≠ 0) (h : |dv a / dv b| ≤ 10 ^ 20) : ∃ r, Dec.quo a b = some r := by
  unfold Dec.quo
  rw [if_neg hb]
  refine ⟨_, chkDec_of_real ?_⟩
  have h1 := chopRound_real ((a * (P18 * P18)).tdiv b)
  have h2 := tdiv_real (a * (P18 * P18)) b hb
  generalize chopRound P18 ((a * (P18 * P18)).tdiv b) = r at *
  generalize (a * (P18 * P18)).tdiv b = t at *
  rw [dv_div] at h
  push_cast at h2; rw [P18_cast] at h2
  have e : (a : ℝ) * (10 ^ 18 * 10 ^ 18) / b = (a : ℝ) / b * 10 ^ 18 * 10 ^ 18 := by ring
  rw [e] at h2
  obtain ⟨g1, g2⟩ := abs_le.mp h
  obtain ⟨g3, g4⟩ := abs_le.mp h1
  obtain ⟨g5, g6⟩ := abs_lt.mp h2
  have hs : (t : ℝ) / 10 ^ 18 * 10 ^ 18 = t := by field_simp
  generalize (t : ℝ) / 10 ^ 18 = s at *
  generalize (a : ℝ) / b = x at *
  rw [abs_le]
  constructor <;> nlinarith

theorem Dec_add_total {a b : Int} (h : |dv a + dv b| ≤ 10 ^ 40) : Dec.add a b = some (a + b) := by
  unfold Dec.add; apply chkDec_of_dv; rwa [dv_add]

theorem Dec_sub_total {a b : Int} (h : |dv a - dv b| ≤ 10 ^ 40) : Dec.sub a b = some (a - b) := by
  unfold Dec.sub; apply chkDec_of_dv; rwa [dv_sub]

/-- integer rounding: a raw value above `c − 1` is at least `c`. -/
theorem int_ge_of_dv {y c : Int} (h : dv c - 1 / 10 ^ 18 < dv y) : c ≤ y := by
  unfold dv at h
  have h10 : (0 : ℝ) < 10 ^ 18 := by positivity
  have : (c : ℝ) - 1 < y := by
    have e : (c : ℝ) / 10 ^ 18 - 1 / 10 ^ 18 = ((c : ℝ) - 1) / 10 ^ 18 := by ring
    rw [e, div_lt_div_iff_of_pos_right h10] at h; exact h
  have : c - 1 < y := by exact_mod_cast this
  omega

theorem int_le_of_dv {y c : Int} (h : dv y < dv c + 1 / 10 ^ 18) : y ≤ c := by
  unfold dv at h
  have h10 : (0 : ℝ) < 10 ^ 18 := by positivity
  have : (y : ℝ) < c + 1 := by
    have e : (c : ℝ) / 10 ^ 18 + 1 / 10 ^ 18 = ((c : ℝ) + 1) / 10 ^ 18 := by ring
    rw [e, div_lt_div_iff_of_pos_right h10] at h; exact h
  have : y < c + 1 := by exact_mod_cast this
  omega

/-- a Boolean sign flag as a factor `±1`. -/
noncomputable def sg (b : Bool) : ℝ := if b then -1 else 1

theorem sg_false : sg false = 1 := by simp [sg]
theorem sg_true : sg true = -1 := by simp [sg]
theorem sg_mul_self (b : Bool) : sg b * sg b = 1 := by cases b <;> simp [sg]
theorem abs_sg (b : Bool) : |sg b| = 1 := by cases b <;> simp [sg]
theorem abs_sg_mul (b : Bool) (x : ℝ) : |sg b * x| = |x| := by rw [abs_mul, abs_sg, one_mul]

/-- `AbsDifferenceWithSign(a, b)` succeeds on moderate values and returns `|a − b|` with the sign of `a − b`. -/
theorem absDiffSign_spec {a b : Int} (h : |dv a - dv b| ≤ 10 ^ 40) :
    ∃ c cn, absDiffSign a b = some (c, cn) ∧ 0 ≤ c ∧ sg cn * dv c = dv a - dv b := by
  unfold absDiffSign
  split
  · rename_i hge
    rw [Dec_sub_total h]
    exact ⟨a - b, false, rfl, by omega, by rw [sg_false, one_mul, dv_sub]⟩
  · rename_i hlt
    have : Dec.add (-a) b = some (-a + b) := by
      apply Dec_add_total; rw [dv_neg]
      have : -dv a + dv b = -(dv a - dv b) := by ring
      rw [this, abs_neg]; exact h
    rw [this]
    exact ⟨-a + b, true, rfl, by omega, by rw [sg_true, dv_add, dv_neg]; ring⟩

end OsmoVerif.MathM
