/-
C04 (stableswap invariant), part 9: exact-out end to end.  From a successful `SwapInAmtGivenOut` to
`ssInvariant p' ≥ ssInvariant p − swapInErr·Π others`.
-/
import OsmoVerif.Proofs.GammSSIn

set_option linter.unusedSimpArgs false

namespace OsmoVerif.GammMath.SS
open OsmoVerif.Num OsmoVerif.MathM OsmoVerif.Gen OsmoVerif.Spec

/-- the explicit error of one exact-out swap, in real units of the two-asset kernel, as a function of the PRE-swap
state only; `X`, `Y` the exact scaled in- and out-reserves before the swap, `d = 10^-18/sf_in` the most that
`Dec()`-before-`Ceil` can lose, `Zs` the other exact scaled reserves (the solver refuses `|xOut| ≥ x`, so the
in-reserve it ends on is below `2·X`):
  * `solverErr X Y Y X`                            roundings inside the solver,
  * `d·Y·(3(2X)² + Y² + W)`                        truncation to 18 decimals before the ceiling,
  * `2X·Y·n·eps/2`                                 half-even squares in `w`,
  * `eps·(Y·(3X²+Y²+W) + X·(X²+3Y²+W)) + X·Y·wErr` the solver ran on 36-decimal floors. -/
def swapInErr (X Y d : ℚ) (Zs : List ℚ) : ℚ :=
  solverErr X Y Y X + d * (Y * (3 * (2 * X) ^ 2 + Y ^ 2 + sumSq Zs))
    + 2 * X * Y * ((Zs.length : ℚ) * (eps / 2))
    + eps * (Y * (3 * X ^ 2 + Y ^ 2 + sumSq Zs) + X * (X ^ 2 + 3 * Y ^ 2 + sumSq Zs))
    + X * Y * wErr Zs

/-- the chain for exact-out, in pure rational arithmetic. -/
theorem chain_in {X Y X' Y' W X0 Y0 W0 Yf Xo m η d : ℚ}
    (hsol : kq X0 Y0 W0 - solverErr X0 Y0 Yf Xo ≤ kq (X0 - Xo) Yf W0)
    (hX0 : 0 < X0) (hY0 : 0 < Y0) (hXf : 0 < X0 - Xo) (hYf : 0 < Yf) (hXo : |Xo| ≤ X0) (hYfY0 : Yf ≤ Y0)
    (x1 : X0 ≤ X) (x2 : X ≤ X0 + eps) (y1 : Y0 ≤ Y) (y2 : Y ≤ Y0 + eps)
    (hd : 0 ≤ d) (hX'0 : 0 ≤ X') (hX' : X0 - Xo ≤ X' + d) (hY' : Yf ≤ Y')
    (w1 : W0 ≤ W + m) (w2 : W ≤ W0 + η) (hm : 0 ≤ m) (hη : 0 ≤ η) (hW : 0 ≤ W) :
    kq X Y W - (solverErr X Y Y X + d * (Y * (3 * (2 * X) ^ 2 + Y ^ 2 + W)) + 2 * X * Y * m
        + eps * (Y * (3 * X ^ 2 + Y ^ 2 + W) + X * (X ^ 2 + 3 * Y ^ 2 + W)) + X * Y * η) ≤ kq X' Y' W := by
  have he := eps_pos
  have hX : 0 < X := by linarith
  have hY : 0 < Y := by linarith
  have hYfY : Yf ≤ Y := by linarith
  have hXf2 : X0 - Xo ≤ 2 * X := by
    have := neg_abs_le Xo
    linarith
  -- (1a) the out side
  have s1a : kq X' Yf W ≤ kq X' Y' W := kq_mono_y hX'0 hYf.le hW hY'
  -- (1b) the in side: at most `d` short of the solver's point
  have s1b : kq (X0 - Xo) Yf W - d * (Y * (3 * (2 * X) ^ 2 + Y ^ 2 + W)) ≤ kq X' Yf W := by
    have hbig : d * (Yf * (3 * (X0 - Xo) ^ 2 + Yf ^ 2 + W)) ≤ d * (Y * (3 * (2 * X) ^ 2 + Y ^ 2 + W)) := by
      apply mul_le_mul_of_nonneg_left _ hd
      apply mul_le_mul hYfY _ (by positivity) hY.le
      have : (X0 - Xo) ^ 2 ≤ (2 * X) ^ 2 := by nlinarith
      have : Yf ^ 2 ≤ Y ^ 2 := by nlinarith
      linarith
    rcases le_total (X0 - Xo) X' with hc | hc
    · have := kq_mono_x hXf.le hYf.le hW hc
      have : 0 ≤ d * (Y * (3 * (2 * X) ^ 2 + Y ^ 2 + W)) := by positivity
      linarith
    · have := kq_sub_x_le hX'0 hc hX' hYf.le hW
      linarith
  -- (2) w against W
  have s2 : kq (X0 - Xo) Yf W0 - 2 * X * Y * m ≤ kq (X0 - Xo) Yf W := by
    have a := kq_mono_w hXf.le hYf.le (show W0 - m ≤ W by linarith)
    rw [kq_sub_w] at a
    have : (X0 - Xo) * Yf * m ≤ 2 * X * Y * m :=
      mul_le_mul_of_nonneg_right (mul_le_mul hXf2 hYfY hYf.le (by linarith)) hm
    linarith
  -- (3) the solver's rounding error, at the true reserves
  have s3 := solverErr_mono hX0.le hY0.le hYf.le x1 y1 hYfY hXo
  -- (4) the pre-swap floors
  have p1 := kq_sub_x_le hX0.le x1 x2 hY.le hW
  have p2 : kq X0 Y W - kq X0 Y0 W ≤ eps * (X0 * (3 * Y ^ 2 + X0 ^ 2 + W)) := by
    rw [kq_symm X0 Y, kq_symm X0 Y0]; exact kq_sub_x_le hY0.le y1 y2 hX0.le hW
  have p2' : X0 * (3 * Y ^ 2 + X0 ^ 2 + W) ≤ X * (X ^ 2 + 3 * Y ^ 2 + W) := by
    apply mul_le_mul x1 _ (by positivity) hX.le
    nlinarith
  have p2'' := mul_le_mul_of_nonneg_left p2' he.le
  have p3 : kq X0 Y0 W - kq X0 Y0 W0 ≤ X * Y * η := by
    have e : kq X0 Y0 W - kq X0 Y0 W0 = X0 * Y0 * (W - W0) := by unfold kq; ring
    rw [e]
    have t : X0 * Y0 * (W - W0) ≤ X0 * Y0 * η := mul_le_mul_of_nonneg_left (by linarith) (by positivity)
    have t' : X0 * Y0 * η ≤ X * Y * η :=
      mul_le_mul_of_nonneg_right (mul_le_mul x1 y1 hY0.le hX.le) hη
    linarith
  have e4 : eps * (Y * (3 * X ^ 2 + Y ^ 2 + W) + X * (X ^ 2 + 3 * Y ^ 2 + W))
      = eps * (Y * (3 * X ^ 2 + Y ^ 2 + W)) + eps * (X * (X ^ 2 + 3 * Y ^ 2 + W)) := by ring
  linarith

/-- PARTIAL end-to-end exact-out (the full statement, without the error term, is FALSE of the code: see
`Props.C04Stable.stableswap_invariant_decrease_witness_exact_out`). -/
theorem ssSwapIn_invariant_partial {p p' : SSPool} {dIn dOut : String} {amt spread tin : Int}
    (hnd : NodupDenoms p.assets) (hamt : 0 ≤ amt) (hs : 0 ≤ spread) (hs1 : spread < P18)
    (h : ssSwapIn p [(dOut, amt)] dIn spread = .ok (tin, p')) :
    ∃ aIn aOut, findSS p.assets dIn = some aIn ∧ findSS p.assets dOut = some aOut ∧
      ssInvariant p
        - swapInErr (xq aIn) (xq aOut) (1 / (10 ^ 18 * (aIn.sf : ℚ))) ((othersOf p dIn dOut).map xq)
            * ((othersOf p dIn dOut).map xq).prod
        ≤ ssInvariant p' := by
  obtain ⟨hc, hv, hp', _, hpos⟩ := ssSwapIn_spec h
  obtain ⟨aIn, aOut, x0, y0, w, tout, cfmmIn, rem, hIn, hOut, hne, sfIn, sfOut, sfO, hx0, hy0, hrem, hw, hsol,
    i1, amIn, amOut, u1, q, hlt⟩ := ssCalcIn_point hs hs1 hc
  refine ⟨aIn, aOut, hIn, hOut, ?_⟩
  obtain ⟨hxf, hyf, hx0p, hy0p, hwp, hsolq⟩ := solver_post_exact_partial hsol
  obtain ⟨solrun, hsr, -, -, habs, -⟩ := Props.C04.stableswap_solver_post hsol
  have hO : ∀ c ∈ othersOf p dIn dOut, 0 < c.sf ∧ 0 ≤ c.amount := by
    intro c hc
    have hsf := sfO c hc
    have hmem := List.mem_filter.mp hc
    have hd := hmem.2
    simp only [decide_eq_true_eq] at hd
    have := validLiquidity_spec hv _ (List.mem_map.mpr ⟨c, hmem.1, rfl⟩)
    simp only at this
    rw [amountOf_single, if_neg (fun e => hd.1 e.symm), Int.add_zero] at this
    have := le_of_one_le_tdiv hsf this.2.1
    exact ⟨hsf, by omega⟩
  have hZ : ∀ z ∈ (othersOf p dIn dOut).map xq, 0 ≤ z := by
    intro z hz
    obtain ⟨c, hc, rfl⟩ := List.mem_map.mp hz
    obtain ⟨a, b⟩ := hO c hc
    unfold xq
    have : (0 : ℚ) < c.sf := by exact_mod_cast a
    have : (0 : ℚ) ≤ c.amount := by exact_mod_cast b
    positivity
  obtain ⟨w1, w2⟩ := w_bounds hrem hO hw
  have dIn_eq := (findSS_some hIn).2
  have dOut_eq := (findSS_some hOut).2
  have e0 := ssInvariant_two hnd hne hIn hOut
  have e1 : ssInvariant p' =
      kq (xq (swapOutAsset dIn dOut tin amt aIn)) (xq (swapOutAsset dIn dOut tin amt aOut))
        (sumSq ((othersOf p dIn dOut).map xq)) * ((othersOf p dIn dOut).map xq).prod := by
    unfold ssInvariant
    rw [hp']
    have pm := ((perm_two hnd hne hIn hOut).map (swapOutAsset dIn dOut tin amt)).map xq
    rw [ssK_perm pm]
    simp only [List.map_cons]
    have := othersOf_map_swapOut p dIn dOut tin amt
    unfold othersOf at this
    rw [this]
    exact ssK_cons_cons _ _ _
  rw [swapOutAsset_in dIn_eq hne, swapOutAsset_out dOut_eq hne] at e1
  change ssInvariant p = kq (xq aIn) (xq aOut) (sumSq ((othersOf p dIn dOut).map xq))
    * ((othersOf p dIn dOut).map xq).prod at e0
  rw [e0, e1]
  have hP := prod_nonneg_of_forall hZ
  have hWn := sumSq_nonneg ((othersOf p dIn dOut).map xq)
  obtain ⟨bx1, bx2, _⟩ := scaled_down_rq sfIn (Int.le_of_lt amIn) hx0
  obtain ⟨by1, by2, _⟩ := scaled_down_rq sfOut (Int.le_of_lt amOut) hy0
  have sfq : (0 : ℚ) < aOut.sf := by exact_mod_cast sfOut
  have sfiq : (0 : ℚ) < aIn.sf := by exact_mod_cast sfIn
  have eX' : xq { aIn with amount := aIn.amount + tin } = (((aIn.amount + tin : Int) : ℚ) / aIn.sf) := rfl
  have hX'0 : 0 ≤ xq { aIn with amount := aIn.amount + tin } := by
    rw [eX']
    have : (0 : ℚ) ≤ ((aIn.amount + tin : Int) : ℚ) := by exact_mod_cast (show (0 : Int) ≤ aIn.amount + tin by omega)
    positivity
  have hX' : rq x0 - rq cfmmIn ≤ xq { aIn with amount := aIn.amount + tin } + 1 / (10 ^ 18 * (aIn.sf : ℚ)) := by
    rw [eX']
    push_cast
    rw [add_div]
    linarith
  have htout0 : 0 ≤ rq tout := by
    have : (0 : ℚ) ≤ (amt : ℚ) / aOut.sf := by
      have : (0 : ℚ) ≤ amt := by exact_mod_cast hamt
      positivity
    linarith
  have hYfY0 : rq (y0 + -tout) ≤ rq y0 := by rw [rq_add, rq_neg]; linarith
  have hY' : rq (y0 + -tout) ≤ xq { aOut with amount := aOut.amount - amt } := by
    unfold xq
    simp only
    push_cast
    rw [sub_div, rq_add, rq_neg]
    linarith
  have hXo : |rq cfmmIn| ≤ rq x0 := by
    rw [← rq_natAbs]; exact rq_le_rq.mpr (Int.le_of_lt habs)
  have hsolq' : kq (rq x0) (rq y0) (rq w) - solverErr (rq x0) (rq y0) (rq (y0 + -tout)) (rq cfmmIn)
      ≤ kq (rq x0 - rq cfmmIn) (rq (y0 + -tout)) (rq w) := by
    rw [← rq_sub]; exact hsolq
  have hxf' : 0 < rq x0 - rq cfmmIn := by rw [← rq_sub]; exact rq_pos.mpr hxf
  have main : kq (xq aIn) (xq aOut) (sumSq ((othersOf p dIn dOut).map xq))
      - swapInErr (xq aIn) (xq aOut) (1 / (10 ^ 18 * (aIn.sf : ℚ))) ((othersOf p dIn dOut).map xq)
      ≤ kq (((aIn.amount + tin : Int) : ℚ) / aIn.sf) (xq { aOut with amount := aOut.amount - amt })
          (sumSq ((othersOf p dIn dOut).map xq)) := by
    unfold swapInErr
    rw [List.length_map, ← eX']
    exact chain_in hsolq' (rq_pos.mpr hx0p) (rq_pos.mpr hy0p) hxf' (rq_pos.mpr hyf) hXo hYfY0
      bx1 bx2.le by1 by2.le (by positivity) hX'0 hX' hY' w1 w2
      (by have := eps_pos; positivity) (wErr_nonneg hZ) hWn
  rw [eX']
  have fin := mul_le_mul_of_nonneg_right main hP
  rw [sub_mul] at fin
  exact fin

end OsmoVerif.GammMath.SS
