/-
C03 helpers: zero and negative amounts.  With nothing specified the loop does not iterate: the estimate is the empty
result on the unchanged pool; a negative amount fails on the negative remainder.  Core only.
-/
import OsmoVerif.Proofs.CLLimit5

namespace OsmoVerif.CLLimit
open OsmoVerif.CLPool OsmoVerif.CLBook OsmoVerif.CL OsmoVerif.Num OsmoVerif.Gen

theorem swapLoop_no_iter {og zfo : Bool} {spf limit : Int} {fuel : Nat} (hf : 0 < fuel) {st : SwapSt} {ahead : Ticks}
    {s c : Nat} (hstop : ¬ (st.remaining > 1 ∧ st.pool.sqrtPrice ≠ limit)) :
    swapLoop og zfo spf limit fuel st ahead s c = some (st, s, c) := by
  cases fuel with
  | zero => omega
  | succ fuel =>
    unfold swapLoop
    rw [if_neg hstop]

theorem validation_some {zfo : Bool} {limit sp : Int} (hv : ValidLimit zfo limit sp) :
    (if zfo then (if limit > sp ∨ limit < CL.MinSqrtPriceBigDec then none else some ())
      else (if limit < sp ∨ limit > CL.MaxSqrtPriceBigDec then none else some ())) = some () := by
  unfold ValidLimit at hv
  cases zfo
  · simp only [Bool.false_eq_true, ↓reduceIte] at hv ⊢
    rw [if_neg (by omega)]
  · simp only [↓reduceIte] at hv ⊢
    rw [if_neg (by omega)]

/-- nothing specified: the empty result on the unchanged pool (for any valid limit). -/
theorem computeSwap_zero {ogi zfo : Bool} {spf pl limit : Int} {pool : PoolSt} {ticks : Ticks}
    (hl : sqrtPriceLimit pl zfo = some limit) (hv : ValidLimit zfo limit pool.sqrtPrice) :
    computeSwap ogi zfo spf pl pool ticks 0 = some ⟨0, 0, 0, pool, 0, 0⟩ := by
  rw [computeSwap_eq, hl, Option.bind_some, validation_some hv, Option.bind_some,
    swapLoop_no_iter (by omega) (by simp), Option.bind_some]
  unfold finishSwap
  simp only [Int.zero_mul]
  have e1 : Dec.sub 0 0 = some 0 := by decide
  have e2 : (Dec.ceil 0).bind Dec.truncateInt = some 0 := by decide +kernel
  have e3 : Dec.truncateInt 0 = some 0 := by decide +kernel
  cases ogi <;> simp [e1, e2, e3]

/-- a negative amount fails. -/
theorem computeSwap_neg {ogi zfo : Bool} {spf pl : Int} {pool : PoolSt} {ticks : Ticks} {specified : Int}
    (hneg : specified < 0) : computeSwap ogi zfo spf pl pool ticks specified = none := by
  rw [computeSwap_eq]
  cases hl : sqrtPriceLimit pl zfo with
  | none => rfl
  | some limit =>
    simp only [Option.bind_some]
    have hr : specified * P18 < 0 := Int.mul_neg_of_neg_of_pos hneg P18_pos
    have key : ∀ (u : Option Unit), (u.bind fun _ =>
        (swapLoop ogi zfo spf limit (2 * ticks.length + CL.swapNoProgressLimit + 8)
          { remaining := specified * P18, calculated := 0, pool := pool, spreadTotal := 0, noProgress := 0 }
          (ticksAhead zfo ticks pool.tick) 0 0).bind fun x => finishSwap ogi specified x.1 x.2.1 x.2.2) = none := by
      intro u
      cases u with
      | none => rfl
      | some _ =>
        rw [Option.bind_some, swapLoop_no_iter (by omega) (by simp only; omega), Option.bind_some]
        unfold finishSwap
        simp only
        rw [if_pos hr]
    exact key _

end OsmoVerif.CLLimit
