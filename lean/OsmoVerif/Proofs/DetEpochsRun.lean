/- C19 helper: the epoch state machine never READS `currentEpochStartHeight`, so two states that differ only in
that field (an exporting node and a node imported from it) are bisimilar.  Core only. -/
import OsmoVerif.Proofs.DetGenesis

namespace OsmoVerif.Det
open List OsmoVerif.Epochs

/-- equal up to `currentEpochStartHeight` -/
def EqModH (a b : EpochInfo) : Prop := forgetHeight a = forgetHeight b

theorem EqModH.refl (a : EpochInfo) : EqModH a a := rfl

theorem eqModH_setH (h : Int) (e : EpochInfo) : EqModH (setH h e) e := rfl

theorem eqModH_iff (a b : EpochInfo) : EqModH a b ↔
    a.identifier = b.identifier ∧ a.startTime = b.startTime ∧ a.duration = b.duration ∧ a.currentEpoch = b.currentEpoch ∧
    a.currentEpochStartTime = b.currentEpochStartTime ∧ a.epochCountingStarted = b.epochCountingStarted := by
  obtain ⟨a1, a2, a3, a4, a5, a6, a7⟩ := a
  obtain ⟨b1, b2, b3, b4, b5, b6, b7⟩ := b
  simp only [EqModH, forgetHeight, EpochInfo.mk.injEq, and_true]

theorem processTimer_eqModH (t h : Int) (scr : Script) (e e' : EpochInfo) (subs : List Store) (he : EqModH e e') :
    (processTimer t h scr e subs).subs = (processTimer t h scr e' subs).subs ∧
    (processTimer t h scr e subs).signals = (processTimer t h scr e' subs).signals ∧
    (processTimer t h scr e subs).calls = (processTimer t h scr e' subs).calls ∧
    (processTimer t h scr e subs).panicked = (processTimer t h scr e' subs).panicked ∧
    EqModH (processTimer t h scr e subs).info (processTimer t h scr e' subs).info := by
  obtain ⟨a1, a2, a3, a4, a5, a6, a7⟩ := e
  obtain ⟨b1, b2, b3, b4, b5, b6, b7⟩ := e'
  obtain ⟨h1, h2, h3, h4, h5, h6⟩ := (eqModH_iff _ _).mp he
  simp only at h1 h2 h3 h4 h5 h6
  subst h1 h2 h3 h4 h5 h6
  unfold processTimer
  simp only
  split
  · exact ⟨rfl, rfl, rfl, rfl, rfl⟩
  · split
    · exact ⟨rfl, rfl, rfl, rfl, rfl⟩
    · split
      · exact ⟨rfl, rfl, rfl, rfl, rfl⟩
      · split
        · exact ⟨rfl, rfl, rfl, rfl, rfl⟩
        · exact ⟨rfl, rfl, rfl, rfl, rfl⟩

/-- pointwise `EqModH` -/
inductive AllEqModH : List EpochInfo → List EpochInfo → Prop
  | nil : AllEqModH [] []
  | cons {a b : EpochInfo} {l l' : List EpochInfo} : EqModH a b → AllEqModH l l' → AllEqModH (a :: l) (b :: l')

theorem processTimers_eqModH (t h : Int) (scr : Script) : ∀ (l l' : List EpochInfo) (subs : List Store),
    AllEqModH l l' →
    (processTimers t h scr l subs).subs = (processTimers t h scr l' subs).subs ∧
    (processTimers t h scr l subs).signals = (processTimers t h scr l' subs).signals ∧
    (processTimers t h scr l subs).calls = (processTimers t h scr l' subs).calls ∧
    (processTimers t h scr l subs).panicked = (processTimers t h scr l' subs).panicked ∧
    AllEqModH (processTimers t h scr l subs).timers (processTimers t h scr l' subs).timers := by
  intro l l' subs hf
  induction hf generalizing subs with
  | nil => exact ⟨rfl, rfl, rfl, rfl, AllEqModH.nil⟩
  | @cons e e' r r' he _ ih =>
    obtain ⟨p1, p2, p3, p4, p5⟩ := processTimer_eqModH t h scr e e' subs he
    simp only [processTimers]
    rw [← p4]
    cases hp : (processTimer t h scr e subs).panicked with
    | true =>
      simp only [if_true]
      exact ⟨p1, p2, p3, trivial, AllEqModH.cons p5 (by assumption)⟩
    | false =>
      simp only [Bool.false_eq_true, if_false]
      rw [← p1, ← p2, ← p3]
      obtain ⟨q1, q2, q3, q4, q5⟩ := ih (processTimer t h scr e subs).subs
      exact ⟨q1, by rw [q2], by rw [q3], q4, AllEqModH.cons p5 q5⟩

/-- states equal up to the start heights of their timers -/
def StateEqModH (s s' : State) : Prop := AllEqModH s.timers s'.timers ∧ s.subs = s'.subs

theorem stepBlock_eqModH (s s' : State) (b : Block) (h : StateEqModH s s') :
    StateEqModH (stepBlock s b) (stepBlock s' b) ∧ committedSignals s b = committedSignals s' b := by
  obtain ⟨ht, hs⟩ := h
  have := processTimers_eqModH b.t b.h b.script s.timers s'.timers s.subs ht
  unfold stepBlock committedSignals beginBlock
  rw [← hs]
  obtain ⟨q1, q2, q3, q4, q5⟩ := this
  simp only
  rw [← q4]
  cases hp : (processTimers b.t b.h b.script s.timers s.subs).panicked with
  | true => simp only [if_true]; exact ⟨⟨ht, hs⟩, trivial⟩
  | false => simp only [Bool.false_eq_true, if_false]; exact ⟨⟨q5, q1⟩, q2⟩

theorem epochsRun_eqModH (bs : List Block) : ∀ (s s' : State), StateEqModH s s' →
    StateEqModH (epochsRun s bs).1 (epochsRun s' bs).1 ∧ (epochsRun s bs).2 = (epochsRun s' bs).2 := by
  induction bs with
  | nil => intro s s' h; exact ⟨h, rfl⟩
  | cons b rest ih =>
    intro s s' h
    obtain ⟨h1, h2⟩ := stepBlock_eqModH s s' b h
    obtain ⟨h3, h4⟩ := ih _ _ h1
    simp only [epochsRun]
    exact ⟨h3, by rw [h2, h4]⟩

theorem forall₂_setH (h : Int) (l : List EpochInfo) : AllEqModH (l.map (setH h)) l := by
  induction l with
  | nil => exact AllEqModH.nil
  | cons e r ih => exact AllEqModH.cons (eqModH_setH h e) ih

end OsmoVerif.Det
