/-
C08 helpers, part 5: the accumulator-side invariant `AccInv` (every position's boundary ticks carry a growth-outside
value; every position has an accumulator record holding exactly its liquidity; no record for an unused id) and the
per-operation facts: the invariant is preserved, and **growth inside the range of every surviving position changes
by exactly the growth events of the operation that happened while the current tick was in its range** (`StepFacts`).
Core only.
-/
import OsmoVerif.Proofs.CLFeesOps

namespace OsmoVerif.CLFeesP
open OsmoVerif.CLPool OsmoVerif.CL OsmoVerif.CLBook OsmoVerif.Num OsmoVerif.CLFees OsmoVerif.CLRewards OsmoVerif.Gen

/-- growth inside `[l, u)` in state `f`. -/
def insideF (f : Fees) (l u : Int) : V2 := insideZ f.pool.tick f.acc.global f.acc.outs l u

structure AccInv (f : Fees) : Prop where
  stored : ∀ q ∈ f.pool.positions, (getOut f.acc.outs q.lower).isSome ∧ (getOut f.acc.outs q.upper).isSome
  recs : ∀ q ∈ f.pool.positions, ∃ r, getRec f.acc.recs q.id = some r ∧ r.shares = q.liq ∧ r.id = q.id
  recIds : ∀ id, (getRec f.acc.recs id).isSome → id < f.pool.nextId

/-- a growth event: (current tick when it happened, growth per unit of liquidity added to the accumulator). -/
abbrev Ev := Int × V2

/-- component `s` of the growth credited to `[l, u)` by a list of events. -/
def evSum (s : Bool) (l u : Int) : List Ev → Int
  | [] => 0
  | e :: es => (if l ≤ e.1 ∧ e.1 < u then get s e.2 else 0) + evSum s l u es

theorem evSum_append (s : Bool) (l u : Int) (a b : List Ev) : evSum s l u (a ++ b) = evSum s l u a + evSum s l u b := by
  induction a with
  | nil => simp [evSum]
  | cons e es ih => simp only [List.cons_append, evSum, ih]; omega

/-- what one successful operation `f → f'` with growth events `evs` guarantees. -/
structure StepFacts (f f' : Fees) (evs : List Ev) : Prop where
  acc : AccInv f'
  nextId : f.pool.nextId ≤ f'.pool.nextId
  desc : ∀ q' ∈ f'.pool.positions, (∃ q ∈ f.pool.positions, q.id = q'.id ∧ q.lower = q'.lower ∧ q.upper = q'.upper) ∨
    f.pool.nextId ≤ q'.id
  inside : ∀ q ∈ f.pool.positions, ∀ q' ∈ f'.pool.positions, q'.id = q.id →
    ∀ s, get s (insideF f' q.lower q.upper) = get s (insideF f q.lower q.upper) + evSum s q.lower q.upper evs

theorem get_insideF (s : Bool) (f : Fees) (l u : Int) :
    get s (insideF f l u) = insideI f.pool.tick (get s f.acc.global)
      (get s (tickOut f.pool.tick f.acc.global f.acc.outs l)) (get s (tickOut f.pool.tick f.acc.global f.acc.outs u)) l u :=
  get_insideZ s _ _ _ _ _

theorem isSome_tickOut {outs : List (Int × V2)} {t : Int} (h : (getOut outs t).isSome) (cur : Int) (G : V2) :
    getOut outs t = some (tickOut cur G outs t) := by
  obtain ⟨v, hv⟩ := Option.isSome_iff_exists.mp h
  rw [hv, tickOut_stored hv]

/-- same stored boundary values, same side of the current tick, accumulator grown by `g` (component-wise):
growth inside grows by `g` when in range. -/
theorem insideZ_step {cur cur' : Int} {G G' : V2} {outs outs' : List (Int × V2)} {l u : Int} (hlu : l < u)
    (hl : (getOut outs l).isSome) (hu : (getOut outs u).isSome)
    (el : getOut outs' l = getOut outs l) (eu : getOut outs' u = getOut outs u)
    (hcur : cur' = cur) (s : Bool) :
    get s (insideZ cur' G' outs' l u) = get s (insideZ cur G outs l u) +
      (if l ≤ cur ∧ cur < u then get s G' - get s G else 0) := by
  subst hcur
  obtain ⟨vl, hvl⟩ := Option.isSome_iff_exists.mp hl
  obtain ⟨vu, hvu⟩ := Option.isSome_iff_exists.mp hu
  rw [get_insideZ, get_insideZ, tickOut_stored hvl, tickOut_stored hvu, tickOut_stored (el.trans hvl), tickOut_stored (eu.trans hvu)]
  have : get s G' = get s G + (get s G' - get s G) := by omega
  rw [this, insideI_grow hlu]
  split <;> omega

/-! ## positions after each pool operation -/

theorem create_positions {p p' : Pool} {owner : String} {lower upper a0 a1 m0 m1 : Int} {id : Nat} {r0 r1 liq l' u' : Int}
    (hc : InvCore p) (h : CLPool.createPositionMin p owner lower upper a0 a1 m0 m1 = some (p', id, r0, r1, liq, l', u')) :
    id = p.nextId ∧ p'.positions = p.positions ++ [⟨p.nextId, owner, l', u', liq⟩] ∧ p'.nextId = p.nextId + 1 ∧
    (p.positions ≠ [] → p'.tick = p.tick) ∧ l' < u' ∧ 0 < liq := by
  obtain ⟨p2, p3, le, ue, hvalid, hliq, hid, g1, g2, g3, g4, g5, g6, g7, g8, e6, hp'⟩ := createPositionMin_some h
  have hnew : ∀ q ∈ p2.positions, q.id ≠ p.nextId := by
    rw [g5]; intro q hq; have := hc.pos.idsLt q hq; omega
  obtain ⟨hd, hp3, _, _⟩ := updatePosition_new hnew e6
  obtain ⟨v1, v2, v3, v4, v5⟩ := validRange_spec hvalid
  refine ⟨hid, ?_, ?_, ?_, v5, by omega⟩
  · rw [hp', hp3]; simp only; rw [g5]
  · rw [hp', hp3]; simp only; exact g6
  · intro hne; rw [hp', hp3]; simp only; exact (g7 hne).2

theorem withdraw_positions {p p' : Pool} {owner : String} {id : Nat} {req o0 o1 : Int} {pos : Position}
    (hfind : p.positions.find? (fun x => decide (x.id = id)) = some pos)
    (h : CLPool.withdrawPosition p owner id req = some (p', o0, o1)) :
    0 ≤ req ∧ req ≤ pos.liq ∧
    p'.positions = (if req = pos.liq then p.positions.filter (fun x => decide (x.id ≠ id))
      else p.positions.map fun q => if q.id = id then { q with liq := pos.liq + -req } else q) ∧
    p'.nextId = p.nextId ∧ (p'.positions ≠ [] → p'.tick = p.tick) := by
  obtain ⟨pos', p1, a0, a1, le, ue, efind, _, hreq0, hreq1, e2, hpos', hticks', hliq', hsp', hspf', hnext', hempty', hne'⟩ :=
    withdrawPosition_some h
  rw [hfind] at efind
  injection efind with efind
  subst efind
  obtain ⟨_, hp1, hle, hue⟩ := updatePosition_old hfind e2
  refine ⟨hreq0, hreq1, ?_, by rw [hnext', hp1], fun hne => by rw [(hne' hne).2, hp1]⟩
  rw [hpos', hp1]
  simp only
  split
  · exact filter_map_upd p.positions id (fun q => { q with liq := pos.liq + -req }) (fun _ => rfl)
  · rfl

theorem any_tick_of_stored {ticks : List TickInfo} {t : Int} (h : Stored ticks t) : ticks.any (·.tick = t) = true := by
  obtain ⟨x, hx, e⟩ := h
  rw [List.any_eq_true]
  exact ⟨x, hx, by simpa using e⟩

/-! ## helper facts about the growth-outside store -/

theorem getOut_initTick_of_isSome {outs : List (Int × V2)} {x : Int} (h : (getOut outs x).isSome) (cur : Int) (G : V2) (t : Int) :
    getOut (initTick outs cur G t) x = getOut outs x := by
  rw [getOut_initTick]
  split
  · rename_i e; subst e; exact (isSome_tickOut h cur G).symm
  · rfl

theorem isSome_initTick_self (outs : List (Int × V2)) (cur : Int) (G : V2) (t : Int) :
    (getOut (initTick outs cur G t) t).isSome := by
  rw [getOut_initTick, if_pos rfl]; rfl

def vsub (x y : V2) : V2 := ⟨x.a - y.a, x.b - y.b⟩

theorem get_vsub (s : Bool) (x y : V2) : get s (vsub x y) = get s x - get s y := by cases s <;> rfl

theorem evSum_single (s : Bool) (l u t : Int) (g : V2) :
    evSum s l u [(t, g)] = if l ≤ t ∧ t < u then get s g else 0 := by
  simp only [evSum]; omega

/-! ## create -/

theorem createMin_facts {f f' : Fees} {owner : String} {lower upper a0 a1 m0 m1 : Int} {id : Nat} {x0 x1 liq lo up : Int}
    (hi : InvCore f.pool) (ha : AccInv f)
    (h : CLFees.createPositionMin f owner lower upper a0 a1 m0 m1 = some (f', id, x0, x1, liq, lo, up)) :
    StepFacts f f' [] ∧ id = f.pool.nextId ∧
    getRec f'.acc.recs id = some ⟨id, liq, insideF f' lo up, V2.zero⟩ ∧
    (∀ x, x ≠ id → getRec f'.acc.recs x = getRec f.acc.recs x) ∧ f'.acc.global = f.acc.global ∧
    f'.pool.positions = f.pool.positions ++ [⟨id, owner, lo, up, liq⟩] ∧
    f'.acc.totalShares = f.acc.totalShares + liq := by
  obtain ⟨hp, hupd, _, _⟩ := createMin_spec h
  obtain ⟨eid, epos, enext, etick, hlu, hliq⟩ := create_positions hi hp
  subst eid
  have hnone : getRec f.acc.recs f.pool.nextId = none := by
    cases hh : getRec f.acc.recs f.pool.nextId with
    | none => rfl
    | some r => have := ha.recIds f.pool.nextId (by rw [hh]; rfl); omega
  obtain ⟨_, eg, eo, et, er⟩ := updPos_new (a := { f.acc with outs := initTick (initTick f.acc.outs f'.pool.tick f.acc.global lo) f'.pool.tick f.acc.global up }) hnone hupd
  simp only at eg eo et er
  have keep : ∀ x, (getOut f.acc.outs x).isSome → getOut f'.acc.outs x = getOut f.acc.outs x := by
    intro x hx
    rw [eo, getOut_initTick_of_isSome (by rw [getOut_initTick_of_isSome hx]; exact hx), getOut_initTick_of_isSome hx]
  have hsnap : insideZ f'.pool.tick f.acc.global (initTick (initTick f.acc.outs f'.pool.tick f.acc.global lo) f'.pool.tick f.acc.global up) lo up
      = insideF f' lo up := by unfold insideF; rw [eg, eo]
  rw [hsnap] at er
  have hrecNew : getRec f'.acc.recs f.pool.nextId = some ⟨f.pool.nextId, liq, insideF f' lo up, V2.zero⟩ := by
    rw [er, getRec_append, hnone]; simp
  have hrecOld : ∀ x, x ≠ f.pool.nextId → getRec f'.acc.recs x = getRec f.acc.recs x := by
    intro x hx
    rw [er, getRec_append]
    cases getRec f.acc.recs x with
    | some v => rfl
    | none => simp only; rw [if_neg (fun e => hx e.symm)]
  refine ⟨⟨⟨?_, ?_, ?_⟩, by omega, ?_, ?_⟩, rfl, hrecNew, hrecOld, eg, epos, et⟩
  · intro q' hq'
    rw [epos] at hq'
    rcases List.mem_append.mp hq' with hq | hq
    · obtain ⟨s1, s2⟩ := ha.stored q' hq
      exact ⟨by rw [keep _ s1]; exact s1, by rw [keep _ s2]; exact s2⟩
    · simp only [List.mem_singleton] at hq
      subst hq
      simp only
      rw [eo]
      refine ⟨?_, isSome_initTick_self _ _ _ _⟩
      rw [getOut_initTick, if_neg (by omega)]
      exact isSome_initTick_self _ _ _ _
  · intro q' hq'
    rw [epos] at hq'
    rcases List.mem_append.mp hq' with hq | hq
    · obtain ⟨r, hr, e1, e2⟩ := ha.recs q' hq
      have := hi.pos.idsLt q' hq
      exact ⟨r, by rw [hrecOld _ (by omega)]; exact hr, e1, e2⟩
    · simp only [List.mem_singleton] at hq
      subst hq
      exact ⟨_, hrecNew, rfl, rfl⟩
  · intro x hx
    rw [enext]
    by_cases e : x = f.pool.nextId
    · omega
    · rw [hrecOld x e] at hx
      have := ha.recIds x hx; omega
  · intro q' hq'
    rw [epos] at hq'
    rcases List.mem_append.mp hq' with hq | hq
    · exact Or.inl ⟨q', hq, rfl, rfl, rfl⟩
    · simp only [List.mem_singleton] at hq
      subst hq
      exact Or.inr (Nat.le_refl _)
  · intro q hq q' _ _ s
    have hne : f.pool.positions ≠ [] := fun e => by rw [e] at hq; cases hq
    obtain ⟨s1, s2⟩ := ha.stored q hq
    unfold insideF
    have := insideZ_step (G := f.acc.global) (G' := f'.acc.global) (outs := f.acc.outs) (outs' := f'.acc.outs)
      (hi.pos.range q hq) s1 s2 (keep _ s1) (keep _ s2) (etick hne) s
    rw [this, eg]
    simp only [evSum]; split <;> omega

/-! ## transfer -/

theorem transfer_facts {f f' : Fees} {sender : String} {id : Nat} {newOwner : String}
    (hi : InvCore f.pool) (ha : AccInv f) (h : CLFees.transferPosition f sender id newOwner = some f') :
    StepFacts f f' [] ∧ f'.acc = f.acc ∧ f'.out0 = f.out0 ∧ f'.out1 = f.out1 ∧ f'.pool.tick = f.pool.tick ∧
    f'.pool.positions = (f.pool.positions.map fun q => if q.id = id then { q with owner := newOwner } else q) := by
  simp only [CLFees.transferPosition, Option.map_eq_some_iff] at h
  obtain ⟨p', hp, e⟩ := h
  subst e
  obtain ⟨_, _, epos, _, en, _, _, _, et, _⟩ := transfer_inv hi hp
  have hmem : ∀ q' ∈ p'.positions, ∃ q ∈ f.pool.positions, q.id = q'.id ∧ q.lower = q'.lower ∧ q.upper = q'.upper ∧ q.liq = q'.liq := by
    intro q' hq'
    rw [epos] at hq'
    obtain ⟨q, hq, e⟩ := List.mem_map.mp hq'
    subst e
    refine ⟨q, hq, ?_⟩
    split <;> exact ⟨rfl, rfl, rfl, rfl⟩
  refine ⟨⟨⟨?_, ?_, ?_⟩, by simp only; omega, ?_, ?_⟩, rfl, rfl, rfl, et, epos⟩
  · intro q' hq'
    obtain ⟨q, hq, _, e1, e2, _⟩ := hmem q' hq'
    simp only; rw [← e1, ← e2]; exact ha.stored q hq
  · intro q' hq'
    obtain ⟨q, hq, e0, _, _, e3⟩ := hmem q' hq'
    obtain ⟨r, hr, g1, g2⟩ := ha.recs q hq
    exact ⟨r, by simp only; rw [← e0]; exact hr, by rw [g1, e3], by rw [g2, e0]⟩
  · intro x hx; simp only at hx ⊢; rw [en]; exact ha.recIds x hx
  · intro q' hq'
    obtain ⟨q, hq, e0, e1, e2, _⟩ := hmem q' hq'
    exact Or.inl ⟨q, hq, e0, e1, e2⟩
  · intro q hq q' _ _ s
    unfold insideF
    simp only [et, evSum]; omega

/-! ## collect -/

theorem find_id {ps : List Position} {id : Nat} {pos : Position}
    (h : ps.find? (fun x => decide (x.id = id)) = some pos) : pos ∈ ps ∧ pos.id = id := find_spec h

theorem collect_facts {f f' : Fees} {sender : String} {id : Nat} {c0 c1 : Int}
    (hi : InvCore f.pool) (ha : AccInv f) (h : CLFees.collect f sender id = some (f', c0, c1)) :
    StepFacts f f' [(f.pool.tick, vsub f'.acc.global f.acc.global)] ∧ f'.pool = f.pool ∧
    ∃ (pos : Position) (r : Rec) (total : V2), pos ∈ f.pool.positions ∧ pos.id = id ∧ sender = pos.owner ∧
      getRec f.acc.recs id = some r ∧
      (∀ s, get s total = rewardI (get s r.unclaimed) (get s (insideF f pos.lower pos.upper) - get s r.snap) r.shares ∧
        0 ≤ get s (insideF f pos.lower pos.upper) - get s r.snap ∧ 0 ≤ get s total) ∧
      c0 = claimAmt f.pool.scale total.a ∧ c1 = claimAmt f.pool.scale total.b ∧
      getRec f'.acc.recs id = some ⟨id, r.shares, insideF f pos.lower pos.upper, V2.zero⟩ ∧
      (∀ x, x ≠ id → getRec f'.acc.recs x = getRec f.acc.recs x) ∧
      f'.acc.outs = f.acc.outs ∧ f'.acc.totalShares = f.acc.totalShares ∧
      (∀ s, get s f'.acc.global = get s f.acc.global + dustGrowthI f.pool.scale (get s total) f.acc.totalShares) ∧
      f'.out0 = f.out0 + c0 ∧ f'.out1 = f.out1 + c1 := by
  obtain ⟨pos, hfind, hown, hcl, hpool, ho0, ho1, _⟩ := collect_spec h
  obtain ⟨hmem, hid⟩ := find_id hfind
  obtain ⟨r, total, hr, htot, hc, eo, ets, erecs, eg⟩ := prepareClaim_spec hcl
  obtain ⟨r0, hr0, esh, _⟩ := ha.recs pos hmem
  rw [hid] at hr0
  rw [hr] at hr0; injection hr0 with hr0; subst hr0
  have hshne : r.shares ≠ 0 := by have := hi.pos.liqPos pos hmem; omega
  rw [if_neg hshne] at erecs
  have hrecId : getRec f'.acc.recs id = some ⟨id, r.shares, insideF f pos.lower pos.upper, V2.zero⟩ := by
    rw [erecs, getRec_setRec, if_pos rfl, hr]
    rfl
  have hrecOther : ∀ x, x ≠ id → getRec f'.acc.recs x = getRec f.acc.recs x := by
    intro x hx; rw [erecs, getRec_setRec, if_neg hx]
  simp only [Prod.mk.injEq] at hc
  refine ⟨⟨⟨?_, ?_, ?_⟩, by rw [hpool], ?_, ?_⟩, hpool, pos, r, total, hmem, hid, hown, hr, htot, hc.1, hc.2,
    hrecId, hrecOther, eo, ets, eg, ho0, ho1⟩
  · intro q hq; rw [hpool] at hq; rw [eo]; exact ha.stored q hq
  · intro q hq
    rw [hpool] at hq
    obtain ⟨rq, hrq, e1, e2⟩ := ha.recs q hq
    by_cases hx : q.id = id
    · have : q = pos := mem_eq_of_id hi.pos.uniq hq hmem (by rw [hx, hid])
      subst this
      rw [hx] at hrq; rw [hr] at hrq; injection hrq with hrq; subst hrq
      exact ⟨⟨id, r.shares, insideF f q.lower q.upper, V2.zero⟩, by rw [hx]; exact hrecId, e1, hx.symm⟩
    · exact ⟨rq, by rw [hrecOther _ hx]; exact hrq, e1, e2⟩
  · intro x hx
    rw [hpool]
    by_cases e : x = id
    · subst e; exact ha.recIds x (by rw [hr]; rfl)
    · rw [hrecOther x e] at hx; exact ha.recIds x hx
  · intro q' hq'; rw [hpool] at hq'; exact Or.inl ⟨q', hq', rfl, rfl, rfl⟩
  · intro q hq q' _ _ s
    obtain ⟨s1, s2⟩ := ha.stored q hq
    unfold insideF
    have := insideZ_step (cur := f.pool.tick) (cur' := f'.pool.tick) (G := f.acc.global) (G' := f'.acc.global)
      (outs := f.acc.outs) (outs' := f'.acc.outs)
      (hi.pos.range q hq) s1 s2 (by rw [eo]) (by rw [eo]) (by rw [hpool]) s
    rw [this, evSum_single, get_vsub]

/-! ## swap -/

theorem evSum_trace (s zfo : Bool) (scale l u : Int) (trs : List StepTrace) :
    evSum s l u (trs.map fun tr => (tr.tick, V2.ofIn zfo ((spreadGrowth tr.charge tr.liq scale).getD 0))) =
      dlt s zfo (traceGrowth scale l u trs) := by
  induction trs with
  | nil => simp [evSum, traceGrowth, dlt]
  | cons tr rest ih =>
    simp only [List.map_cons, evSum, traceGrowth, ih, dlt_add, get_ofIn]
    unfold dlt
    split <;> split <;> simp_all

/-- the growth events of a swap: one per loop iteration, at the tick the iteration started from. -/
def swapEvents (f : Fees) (og zfo : Bool) (spec : Int) : List Ev :=
  match swapTrace f.pool.scale og zfo f.pool.spf (execPriceLimit zfo) ⟨f.pool.sqrtPrice, f.pool.tick, f.pool.liquidity⟩
      (f.pool.ticks.map fun t => (t.tick, t.net)) spec with
  | some trs => trs.map fun tr => (tr.tick, V2.ofIn zfo ((spreadGrowth tr.charge tr.liq f.pool.scale).getD 0))
  | none => []

theorem swap_facts {f f' : Fees} {og zfo : Bool} {spec ain aout fee : Int}
    (hi : Inv f.pool) (hspf : SpfOK f.pool.spf) (ha : AccInv f)
    (h : CLFees.swap f og zfo spec = some (f', ain, aout, fee)) :
    StepFacts f f' (swapEvents f og zfo spec) ∧ f'.acc.recs = f.acc.recs ∧ f'.pool.positions = f.pool.positions ∧
    f'.acc.totalShares = f.acc.totalShares ∧ f'.out0 = f.out0 ∧ f'.out1 = f.out1 := by
  obtain ⟨hp, trs, g, htr, hfold, hg, hadd, erecs, ets, eo0, eo1⟩ := swap_spec h
  obtain ⟨_, epos, enext, _, _, eticks⟩ := swap_core hi.core hp
  -- the loop behind the trace
  obtain ⟨limit, st, steps, crossed, hl, hloopT⟩ := swapTrace_spec htr
  obtain ⟨limit', st', steps', crossed', hl', hloop, _, etick, _⟩ := swap_loop_of_some hp
  rw [hl] at hl'; injection hl' with hl'; subst hl'
  have hS := swapLoopT_fst f.pool.scale og zfo f.pool.spf limit (2 * (f.pool.ticks.map fun t => (t.tick, t.net)).length + CL.swapNoProgressLimit + 8)
    { remaining := spec * P18, calculated := 0, pool := ⟨f.pool.sqrtPrice, f.pool.tick, f.pool.liquidity⟩, spreadTotal := 0, noProgress := 0 }
    (ticksAhead zfo (f.pool.ticks.map fun t => (t.tick, t.net)) f.pool.tick) 0 0
  rw [hloopT] at hS
  simp only [Option.map_some] at hS
  have hloop2 := swapLoopS_some _ _ _ _ _ _ hS.symm
  have hst : st' = st := by
    have : some (st', steps', crossed') = some (st, steps, crossed) := by rw [← hloop]; exact hloop2
    injection this with this; injection this
  subst hst
  have hne : f.pool.positions ≠ [] := (swap_some hp).choose_spec.choose_spec.1
  have hmono := swapMono_of_inv og zfo spec hi.core hi.price hi.active hspf limit hl
  have htok := swapLoopT_traceOK (ticksOK_of_core hi.core) _ _ _ _ _ _ _ _ _ hloopT hmono (hi.price.2 hne).1 ⟨hi.active, rfl⟩
  simp only at htok
  rw [← etick] at htok
  have hEv : swapEvents f og zfo spec = trs.map fun tr => (tr.tick, V2.ofIn zfo ((spreadGrowth tr.charge tr.liq f.pool.scale).getD 0)) := by
    unfold swapEvents; rw [htr]
  have hstoredTick : ∀ q ∈ f.pool.positions, (∃ n, (q.lower, n) ∈ (f.pool.ticks.map fun t => (t.tick, t.net))) ∧
      (∃ n, (q.upper, n) ∈ (f.pool.ticks.map fun t => (t.tick, t.net))) := by
    intro q hq
    obtain ⟨x, hx, ex⟩ := (hi.core.stored q.lower).mpr ⟨q, hq, Or.inl rfl⟩
    obtain ⟨y, hy, ey⟩ := (hi.core.stored q.upper).mpr ⟨q, hq, Or.inr rfl⟩
    exact ⟨⟨x.net, List.mem_map.mpr ⟨x, hx, by rw [ex]⟩⟩, ⟨y.net, List.mem_map.mpr ⟨y, hy, by rw [ey]⟩⟩⟩
  have key : ∀ q ∈ f.pool.positions, ∀ s, ∃ ol' ou', getOut f'.acc.outs q.lower = some ol' ∧ getOut f'.acc.outs q.upper = some ou' ∧
      get s (insideF f' q.lower q.upper) = get s (insideF f q.lower q.upper) + evSum s q.lower q.upper (swapEvents f og zfo spec) := by
    intro q hq s
    obtain ⟨s1, s2⟩ := ha.stored q hq
    obtain ⟨ol, hol⟩ := Option.isSome_iff_exists.mp s1
    obtain ⟨ou, hou⟩ := Option.isSome_iff_exists.mp s2
    obtain ⟨t1, t2⟩ := hstoredTick q hq
    obtain ⟨ol', ou', g1, g2, e⟩ := foldTrace_inside (hi.core.pos.range q hq) t1 t2 s trs _ _ 0 _ _ _ ol ou htok hfold hol hou
    refine ⟨ol', ou', g1, g2, ?_⟩
    rw [get_insideF, get_insideF, tickOut_stored g1, tickOut_stored g2, tickOut_stored hol, tickOut_stored hou,
      V2.add_some hadd s, get_ofIn, hEv, evSum_trace]
    have : dlt s zfo 0 = 0 := by unfold dlt; split <;> rfl
    rw [this, Int.add_zero] at e
    exact e
  refine ⟨⟨⟨?_, ?_, ?_⟩, by omega, ?_, ?_⟩, erecs, epos, ets, eo0, eo1⟩
  · intro q hq
    rw [epos] at hq
    obtain ⟨ol', ou', g1, g2, _⟩ := key q hq true
    exact ⟨by rw [g1]; rfl, by rw [g2]; rfl⟩
  · intro q hq; rw [epos] at hq; rw [erecs]; exact ha.recs q hq
  · intro x hx; rw [erecs] at hx; rw [enext]; exact ha.recIds x hx
  · intro q' hq'; rw [epos] at hq'; exact Or.inl ⟨q', hq', rfl, rfl, rfl⟩
  · intro q hq q' _ _ s
    obtain ⟨_, _, _, _, e⟩ := key q hq s
    exact e

/-! ## withdraw -/

/-- what a withdrawal does to the record of the withdrawn position: rewards accrued since the last update are moved
to `unclaimed` (partial) or paid out (full: `paid`, and the record disappears). -/
theorem withdraw_facts {f f' : Fees} {owner : String} {id : Nat} {req o0 o1 : Int}
    (hi : InvCore f.pool) (ha : AccInv f) (h : CLFees.withdrawPosition f owner id req = some (f', o0, o1)) :
    StepFacts f f' [(f.pool.tick, vsub f'.acc.global f.acc.global)] ∧
    (∀ x, x ≠ id → getRec f'.acc.recs x = getRec f.acc.recs x) ∧
    ∃ (pos : Position) (r : Rec) (rewards : V2), pos ∈ f.pool.positions ∧ pos.id = id ∧ owner = pos.owner ∧
      getRec f.acc.recs id = some r ∧ r.shares = pos.liq ∧ 0 ≤ req ∧ req ≤ pos.liq ∧
      (∀ s, get s rewards = rewardI (get s r.unclaimed) (get s (insideF f pos.lower pos.upper) - get s r.snap) r.shares ∧
        0 ≤ get s (insideF f pos.lower pos.upper) - get s r.snap) ∧
      ((req ≠ pos.liq ∧ getRec f'.acc.recs id = some ⟨id, pos.liq - req, insideF f pos.lower pos.upper, rewards⟩ ∧
          f'.acc.global = f.acc.global ∧ f'.out0 = f.out0 ∧ f'.out1 = f.out1 ∧ f'.acc.totalShares = f.acc.totalShares - req) ∨
       (req = pos.liq ∧ getRec f'.acc.recs id = none ∧
          f'.out0 = f.out0 + claimAmt f.pool.scale rewards.a ∧ f'.out1 = f.out1 + claimAmt f.pool.scale rewards.b ∧
          f'.acc.totalShares = f.acc.totalShares - req ∧
          (∀ s, get s f'.acc.global = get s f.acc.global + dustGrowthI f.pool.scale (get s rewards) (f.acc.totalShares - req)) ∧
          (∀ s, 0 ≤ get s rewards))) := by
  obtain ⟨pos, a1, hfind, hw, hupd, hcase⟩ := withdraw_spec h
  obtain ⟨hmem, hid⟩ := find_id hfind
  obtain ⟨hc', _, hdesc, en, _, _, etick, _⟩ := withdraw_inv hi hw
  obtain ⟨hreq0, hreq1, epos, _, _⟩ := withdraw_positions hfind hw
  obtain ⟨r, hr, esh, _⟩ := ha.recs pos hmem
  rw [hid] at hr
  obtain ⟨rewards, hd0, _, eg1, eo1, ets1, erecs1, hrew⟩ := updPos_old_spec hr hupd
  -- facts common to both cases
  have common : f'.acc.outs = syncOuts f.acc.outs f'.pool.ticks ∧
      (∀ x, x ≠ id → getRec f'.acc.recs x = getRec f.acc.recs x) ∧
      (∀ x, (getRec f'.acc.recs x).isSome → (getRec f.acc.recs x).isSome) ∧
      ((req ≠ pos.liq ∧ getRec f'.acc.recs id = some ⟨id, pos.liq - req, insideF f pos.lower pos.upper, rewards⟩ ∧
          f'.acc.global = f.acc.global ∧ f'.out0 = f.out0 ∧ f'.out1 = f.out1 ∧ f'.acc.totalShares = f.acc.totalShares - req) ∨
       (req = pos.liq ∧ getRec f'.acc.recs id = none ∧
          f'.out0 = f.out0 + claimAmt f.pool.scale rewards.a ∧ f'.out1 = f.out1 + claimAmt f.pool.scale rewards.b ∧
          f'.acc.totalShares = f.acc.totalShares - req ∧
          (∀ s, get s f'.acc.global = get s f.acc.global + dustGrowthI f.pool.scale (get s rewards) (f.acc.totalShares - req)) ∧
          (∀ s, 0 ≤ get s rewards))) := by
    have hrec1 : getRec a1.recs id = some ⟨id, r.shares + -req, insideF f pos.lower pos.upper, rewards⟩ := by
      rw [erecs1, getRec_setRec, if_pos rfl, hr]; rfl
    have hrec1o : ∀ x, x ≠ id → getRec a1.recs x = getRec f.acc.recs x := by
      intro x hx; rw [erecs1, getRec_setRec, if_neg hx]
    rcases hcase with ⟨hne, eacc, e0, e1⟩ | ⟨heq, a2, c, hcl, eacc, e0, e1, _⟩
    · refine ⟨by rw [eacc]; simp only; rw [eo1], fun x hx => by rw [eacc]; exact hrec1o x hx, ?_, Or.inl ⟨hne, ?_, by rw [eacc]; exact eg1, e0, e1, ?_⟩⟩
      · intro x hx
        rw [eacc] at hx; simp only at hx
        by_cases e : x = id
        · rw [e, hr]; rfl
        · rw [hrec1o x e] at hx; exact hx
      · rw [eacc]; simp only; rw [hrec1, esh]; congr 2
      · rw [eacc]; simp only; rw [ets1]; omega
    · obtain ⟨r2, total, hr2, htot, hc, eo2, ets2, erecs2, eg2⟩ := prepareClaim_spec hcl
      rw [hrec1] at hr2; injection hr2 with hr2; subst hr2
      have hz : r.shares + -req = 0 := by omega
      simp only [hz, ↓reduceIte] at erecs2
      -- nothing accrued between the update and the claim: the total is what was just moved to `unclaimed`
      have htotal : ∀ s, get s total = get s rewards := by
        intro s
        have h1 := (htot s).1
        simp only at h1
        unfold rewardI at h1
        rw [eg1, eo1] at h1
        unfold insideF at h1
        simp only [Int.sub_self, Int.zero_mul] at h1
        have : chopRound P18 0 = 0 := by decide
        rw [this] at h1; omega
      have hta : total.a = rewards.a := htotal true
      have htb : total.b = rewards.b := htotal false
      refine ⟨by rw [eacc]; simp only; rw [eo2, eo1], fun x hx => ?_, ?_, Or.inr ⟨heq, ?_, ?_, ?_, ?_, ?_, fun s => by rw [← htotal s]; exact (htot s).2.2⟩⟩
      · rw [eacc]; simp only; rw [erecs2, getRec_delRec, if_neg hx]; exact hrec1o x hx
      · intro x hx
        rw [eacc] at hx; simp only at hx
        rw [erecs2, getRec_delRec] at hx
        by_cases e : x = id
        · rw [if_pos e] at hx; cases hx
        · rw [if_neg e, hrec1o x e] at hx; exact hx
      · rw [eacc]; simp only; rw [erecs2, getRec_delRec, if_pos rfl]
      · rw [e0, hc]; simp only; rw [hta]
      · rw [e1, hc]; simp only; rw [htb]
      · rw [eacc]; simp only; rw [ets2, ets1]; omega
      · intro s
        rw [eacc]; simp only
        rw [eg2 s, eg1, ets1, htotal s]
        congr 2
  obtain ⟨eouts, hrecO, hrecSome, hcases⟩ := common
  -- boundary ticks of surviving positions keep their growth-outside value
  have keep : ∀ q' ∈ f'.pool.positions, getOut f'.acc.outs q'.lower = getOut f.acc.outs q'.lower ∧
      getOut f'.acc.outs q'.upper = getOut f.acc.outs q'.upper := by
    intro q' hq'
    rw [eouts]
    exact ⟨getOut_syncOuts _ _ _ (any_tick_of_stored ((hc'.stored q'.lower).mpr ⟨q', hq', Or.inl rfl⟩)),
      getOut_syncOuts _ _ _ (any_tick_of_stored ((hc'.stored q'.upper).mpr ⟨q', hq', Or.inr rfl⟩))⟩
  have hglobal : ∀ s, get s f'.acc.global - get s f.acc.global = get s (vsub f'.acc.global f.acc.global) := fun s => (get_vsub s _ _).symm
  refine ⟨⟨⟨?_, ?_, ?_⟩, by omega, ?_, ?_⟩, hrecO, pos, r, rewards, hmem, hid, ?_, hr, esh, hreq0, hreq1, hrew, hcases⟩
  · intro q' hq'
    obtain ⟨k1, k2⟩ := keep q' hq'
    rcases hdesc q' hq' with ⟨q, hq, _, _, e2, e3⟩ | hge
    · obtain ⟨s1, s2⟩ := ha.stored q hq
      rw [k1, k2, ← e2, ← e3]; exact ⟨s1, s2⟩
    · exfalso
      rw [epos] at hq'
      split at hq'
      · have := hi.pos.idsLt q' (List.mem_filter.mp hq').1; omega
      · obtain ⟨q, hq, e⟩ := List.mem_map.mp hq'
        have := hi.pos.idsLt q hq
        have : q'.id = q.id := by rw [← e]; split <;> rfl
        omega
  · intro q' hq'
    rw [epos] at hq'
    split at hq'
    · rename_i hfull
      obtain ⟨hq, hne⟩ := List.mem_filter.mp hq'
      simp only [ne_eq, decide_not, Bool.not_eq_eq_eq_not, Bool.not_true, decide_eq_false_iff_not] at hne
      obtain ⟨rq, hrq, g1, g2⟩ := ha.recs q' hq
      exact ⟨rq, by rw [hrecO _ hne]; exact hrq, g1, g2⟩
    · rename_i hpart
      obtain ⟨q, hq, e⟩ := List.mem_map.mp hq'
      by_cases hx : q.id = id
      · rw [if_pos hx] at e
        have : q = pos := mem_eq_of_id hi.pos.uniq hq hmem (by rw [hx, hid])
        subst this
        rcases hcases with ⟨_, hrec, _⟩ | ⟨heq, _⟩
        · subst e
          exact ⟨_, by simp only; rw [hx]; exact hrec, by simp only; omega, hx.symm⟩
        · exact absurd heq hpart
      · rw [if_neg hx] at e
        subst e
        obtain ⟨rq, hrq, g1, g2⟩ := ha.recs q hq
        exact ⟨rq, by rw [hrecO _ hx]; exact hrq, g1, g2⟩
  · intro x hx; rw [en]; exact ha.recIds x (hrecSome x hx)
  · intro q' hq'
    rcases hdesc q' hq' with ⟨q, hq, e0, _, e2, e3⟩ | hge
    · exact Or.inl ⟨q, hq, e0, e2, e3⟩
    · exact Or.inr hge
  · intro q hq q' hq' hidq s
    have hne : f'.pool.positions ≠ [] := fun e => by rw [e] at hq'; cases hq'
    obtain ⟨s1, s2⟩ := ha.stored q hq
    obtain ⟨k1, k2⟩ := keep q' hq'
    have hsame : q'.lower = q.lower ∧ q'.upper = q.upper := by
      rcases hdesc q' hq' with ⟨q0, hq0, e0, _, e2, e3⟩ | hge
      · have : q0 = q := mem_eq_of_id hi.pos.uniq hq0 hq (by rw [e0, hidq])
        subst this; exact ⟨e2.symm, e3.symm⟩
      · have := hi.pos.idsLt q hq; omega
    rw [hsame.1] at k1; rw [hsame.2] at k2
    unfold insideF
    have := insideZ_step (cur := f.pool.tick) (cur' := f'.pool.tick) (G := f.acc.global) (G' := f'.acc.global)
      (outs := f.acc.outs) (outs' := f'.acc.outs)
      (hi.pos.range q hq) s1 s2 k1 k2 (etick hne).2 s
    rw [this, evSum_single, get_vsub]
  · obtain ⟨pos', _, _, _, _, _, efind', howner, _⟩ := withdrawPosition_some hw
    rw [hfind] at efind'
    injection efind' with efind'
    rw [efind']; exact howner

end OsmoVerif.CLFeesP
