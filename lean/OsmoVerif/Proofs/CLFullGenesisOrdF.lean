/-
C19 / x/concentrated-liquidity genesis: the ORDER part of the store shape for the fee layer (`FeeOrd`): growth-outside entries in
ascending tick order and only on stored ticks; spread-reward records in ascending position-id order and only for live positions.
Preserved by every message of `CLFeesP.FOp` (given the C07/C08 invariant `FullInv` before and after).  Core only.
-/
import OsmoVerif.Proofs.CLFeesHist
import OsmoVerif.Model.CLFullGenesis

namespace OsmoVerif.CLFeesP
open OsmoVerif.CLPool OsmoVerif.CL OsmoVerif.CLBook OsmoVerif.Num OsmoVerif.CLFees OsmoVerif.CLRewards

structure FeeOrd (f : Fees) : Prop where
  outsSorted : (f.acc.outs.map (·.1)).Pairwise (· < ·)
  outsStored : ∀ e ∈ f.acc.outs, Stored f.pool.ticks e.1
  recsSorted : (f.acc.recs.map (·.id)).Pairwise (· < ·)
  recsLive : ∀ r ∈ f.acc.recs, ∃ q ∈ f.pool.positions, q.id = r.id

/-! ## growth-outside list -/

theorem mem_insertOut {t : Int} {v : V2} {e : Int × V2} : ∀ {outs : List (Int × V2)}, e ∈ insertOut outs t v → e = (t, v) ∨ e ∈ outs
  | [], h => by simp only [insertOut, List.mem_singleton] at h; exact Or.inl h
  | x :: xs, h => by
    unfold insertOut at h
    split at h
    · rcases List.mem_cons.mp h with h | h
      · exact Or.inl h
      · exact Or.inr h
    · split at h
      · rcases List.mem_cons.mp h with h | h
        · exact Or.inl h
        · exact Or.inr (List.mem_cons_of_mem _ h)
      · rcases List.mem_cons.mp h with h | h
        · exact Or.inr (by rw [h]; exact List.mem_cons_self)
        · rcases mem_insertOut h with h | h
          · exact Or.inl h
          · exact Or.inr (List.mem_cons_of_mem _ h)

theorem insertOut_sorted (t : Int) (v : V2) : ∀ (outs : List (Int × V2)), (outs.map (·.1)).Pairwise (· < ·) →
    ((insertOut outs t v).map (·.1)).Pairwise (· < ·)
  | [], _ => by simp [insertOut]
  | x :: xs, h => by
    rw [List.map_cons, List.pairwise_cons] at h
    unfold insertOut
    split
    · rename_i hlt
      simp only [List.map_cons, List.pairwise_cons]
      refine ⟨fun k hk => ?_, h⟩
      rcases List.mem_cons.mp hk with hk | hk
      · rw [hk]; exact hlt
      · have := h.1 k hk; omega
    · split
      · rename_i _ heq
        simp only [List.map_cons, List.pairwise_cons]
        refine ⟨fun k hk => ?_, h.2⟩
        have := h.1 k hk
        omega
      · rename_i hnlt hne
        simp only [List.map_cons, List.pairwise_cons]
        refine ⟨fun k hk => ?_, insertOut_sorted t v xs h.2⟩
        obtain ⟨e, he, rfl⟩ := List.mem_map.mp hk
        rcases mem_insertOut he with he | he
        · rw [he]; simp only; omega
        · exact h.1 e.1 (List.mem_map_of_mem he)

theorem mem_initTick {cur t : Int} {G : V2} {e : Int × V2} {outs : List (Int × V2)} (h : e ∈ initTick outs cur G t) :
    e.1 = t ∨ e ∈ outs := by
  unfold initTick at h
  split at h
  · exact Or.inr h
  · rcases mem_insertOut h with h | h
    · exact Or.inl (by rw [h])
    · exact Or.inr h

theorem initTick_sorted (cur t : Int) (G : V2) {outs : List (Int × V2)} (h : (outs.map (·.1)).Pairwise (· < ·)) :
    ((initTick outs cur G t).map (·.1)).Pairwise (· < ·) := by
  unfold initTick
  split
  · exact h
  · exact insertOut_sorted _ _ _ h

theorem setOut_keys (outs : List (Int × V2)) (t : Int) (v : V2) : (setOut outs t v).map (·.1) = outs.map (·.1) := by
  unfold setOut
  rw [List.map_map]
  apply List.map_congr_left
  intro o _
  simp only [Function.comp]
  split
  · rename_i h; exact h.symm
  · rfl

theorem foldTrace_keys {scale : Int} {zfo : Bool} {G : V2} : ∀ (trs : List StepTrace) (acc : Int) (outs : List (Int × V2))
    (acc' : Int) (outs' : List (Int × V2)), foldTrace scale zfo G trs acc outs = some (acc', outs') →
    outs'.map (·.1) = outs.map (·.1)
  | [], acc, outs, acc', outs', h => by
    simp only [foldTrace, Option.some.injEq, Prod.mk.injEq] at h
    rw [h.2]
  | tr :: rest, acc, outs, acc', outs', h => by
    unfold foldTrace at h
    simp only [Option.bind_eq_some_iff] at h
    obtain ⟨g, _, a1, _, h⟩ := h
    split at h
    · exact foldTrace_keys rest a1 outs acc' outs' h
    · simp only [Option.bind_eq_some_iff] at h
      obtain ⟨o, _, c, _, o', _, h⟩ := h
      rw [foldTrace_keys rest a1 _ acc' outs' h, setOut_keys]

theorem stored_of_keys {ticks : List TickInfo} {outs outs' : List (Int × V2)} (hk : outs'.map (·.1) = outs.map (·.1))
    (h : ∀ e ∈ outs, Stored ticks e.1) : ∀ e ∈ outs', Stored ticks e.1 := by
  intro e he
  have : e.1 ∈ outs.map (·.1) := by rw [← hk]; exact List.mem_map_of_mem he
  obtain ⟨e0, he0, e1⟩ := List.mem_map.mp this
  rw [← e1]; exact h e0 he0

theorem syncOuts_sorted {outs : List (Int × V2)} (ticks : List TickInfo) (h : (outs.map (·.1)).Pairwise (· < ·)) :
    ((syncOuts outs ticks).map (·.1)).Pairwise (· < ·) :=
  List.Pairwise.sublist ((List.filter_sublist).map _) h

theorem syncOuts_stored (outs : List (Int × V2)) (ticks : List TickInfo) : ∀ e ∈ syncOuts outs ticks, Stored ticks e.1 := by
  intro e he
  unfold syncOuts at he
  have := (List.mem_filter.mp he).2
  rw [List.any_eq_true] at this
  obtain ⟨x, hx, hxe⟩ := this
  exact ⟨x, hx, of_decide_eq_true hxe⟩

/-! ## spread-reward records -/

theorem setRec_ids (recs : List Rec) (r : Rec) : (setRec recs r).map (·.id) = recs.map (·.id) := by
  unfold setRec
  rw [List.map_map]
  apply List.map_congr_left
  intro x _
  simp only [Function.comp]
  split
  · rename_i h; exact h.symm
  · rfl

theorem mem_setRec_id {recs : List Rec} {r x : Rec} (h : x ∈ setRec recs r) : ∃ y ∈ recs, y.id = x.id := by
  have : x.id ∈ (setRec recs r).map (·.id) := List.mem_map_of_mem h
  rw [setRec_ids] at this
  exact List.mem_map.mp this

theorem getRec_of_mem {recs : List Rec} {r : Rec} (h : r ∈ recs) : (getRec recs r.id).isSome = true := by
  unfold getRec
  rw [List.find?_isSome]
  exact ⟨r, h, by simp⟩

theorem mem_of_getRec {recs : List Rec} {id : Nat} {r : Rec} (h : getRec recs id = some r) : r ∈ recs ∧ r.id = id := by
  unfold getRec at h
  exact ⟨List.mem_of_find?_eq_some h, by simpa using List.find?_some h⟩

theorem mem_of_find {ps : List Position} {id : Nat} {pos : Position} (h : ps.find? (fun x => decide (x.id = id)) = some pos) :
    pos ∈ ps ∧ pos.id = id :=
  ⟨List.mem_of_find?_eq_some h, by simpa using List.find?_some h⟩

/-! ## the messages -/

theorem feeOrd_create {f f' : Fees} {owner : String} {lower upper a0 a1 m0 m1 : Int} {id : Nat} {x0 x1 liq lo up : Int}
    (hf : FullInv f) (hf' : FullInv f') (ho : FeeOrd f)
    (h : CLFees.createPositionMin f owner lower upper a0 a1 m0 m1 = some (f', id, x0, x1, liq, lo, up)) : FeeOrd f' := by
  obtain ⟨hp, hupd, _, _⟩ := createMin_spec h
  obtain ⟨eid, epos, enext, _, _, _⟩ := create_positions hf.pool.core hp
  subst eid
  have hnone : getRec f.acc.recs f.pool.nextId = none := by
    cases hh : getRec f.acc.recs f.pool.nextId with
    | none => rfl
    | some r => have := hf.acc.recIds f.pool.nextId (by rw [hh]; rfl); omega
  obtain ⟨_, _, eo, _, er⟩ := updPos_new (a := { f.acc with outs := initTick (initTick f.acc.outs f'.pool.tick f.acc.global lo) f'.pool.tick f.acc.global up }) hnone hupd
  simp only at eo er
  have hused : ∀ t, Used f.pool.positions t → Used f'.pool.positions t := by
    intro t ⟨q, hq, hb⟩
    exact ⟨q, by rw [epos]; exact List.mem_append_left _ hq, hb⟩
  refine ⟨?_, ?_, ?_, ?_⟩
  · rw [eo]; exact initTick_sorted _ _ _ (initTick_sorted _ _ _ ho.outsSorted)
  · intro e he
    rw [eo] at he
    apply (hf'.pool.core.stored e.1).mpr
    rcases mem_initTick he with he | he
    · exact ⟨⟨f.pool.nextId, owner, lo, up, liq⟩, by rw [epos]; simp, Or.inr he.symm⟩
    · rcases mem_initTick he with he | he
      · exact ⟨⟨f.pool.nextId, owner, lo, up, liq⟩, by rw [epos]; simp, Or.inl he.symm⟩
      · exact hused e.1 ((hf.pool.core.stored e.1).mp (ho.outsStored e he))
  · rw [er, List.map_append]
    refine List.pairwise_append.mpr ⟨ho.recsSorted, by simp, fun a ha b hb => ?_⟩
    simp only [List.map_cons, List.map_nil, List.mem_singleton] at hb
    obtain ⟨r, hr, rfl⟩ := List.mem_map.mp ha
    have := hf.acc.recIds r.id (getRec_of_mem hr)
    omega
  · intro r hr
    rw [er] at hr
    rcases List.mem_append.mp hr with hr | hr
    · obtain ⟨q, hq, e⟩ := ho.recsLive r hr
      exact ⟨q, by rw [epos]; exact List.mem_append_left _ hq, e⟩
    · simp only [List.mem_singleton] at hr
      exact ⟨⟨f.pool.nextId, owner, lo, up, liq⟩, by rw [epos]; simp, by rw [hr]⟩

theorem feeOrd_withdraw {f f' : Fees} {owner : String} {id : Nat} {req o0 o1 : Int}
    (hf : FullInv f) (ho : FeeOrd f) (h : CLFees.withdrawPosition f owner id req = some (f', o0, o1)) : FeeOrd f' := by
  obtain ⟨pos, a1, hfind, hw, hupd, hcases⟩ := withdraw_spec h
  obtain ⟨hmem, hid⟩ := mem_of_find hfind
  obtain ⟨r, hr, hsh, _⟩ := hf.acc.recs pos hmem
  rw [hid] at hr
  obtain ⟨rw', _, _, _, eo1, _, er1, _⟩ := updPos_old_spec hr hupd
  obtain ⟨_, _, hpos', _, _⟩ := withdraw_positions hfind hw
  rcases hcases with ⟨hne, eacc, _, _⟩ | ⟨heq, a2, c, hcl, eacc, _, _, _⟩
  · -- partial withdrawal: same record ids, same position ids
    rw [if_neg hne] at hpos'
    refine ⟨?_, ?_, ?_, ?_⟩
    · rw [eacc]; simp only; rw [eo1]; exact syncOuts_sorted _ ho.outsSorted
    · rw [eacc]; exact syncOuts_stored _ _
    · rw [eacc]; simp only; rw [er1, setRec_ids]; exact ho.recsSorted
    · intro x hx
      rw [eacc] at hx; simp only at hx; rw [er1] at hx
      obtain ⟨y, hy, e⟩ := mem_setRec_id hx
      obtain ⟨q, hq, eq⟩ := ho.recsLive y hy
      rw [hpos']
      exact ⟨if q.id = id then { q with liq := pos.liq + -req } else q, List.mem_map_of_mem hq, by split <;> exact eq.trans e⟩
  · -- full withdrawal: the record now holds zero shares and is deleted together with the position
    rw [if_pos heq] at hpos'
    have hr1 : getRec a1.recs id = some ⟨id, r.shares + -req, insideZ f.pool.tick f.acc.global f.acc.outs pos.lower pos.upper, rw'⟩ := by
      rw [er1, getRec_setRec, if_pos rfl, hr]; rfl
    obtain ⟨r1, tot, hr1', _, _, eo2, _, er2, _⟩ := prepareClaim_spec hcl
    rw [hr1] at hr1'
    injection hr1' with hr1'
    have hz : r1.shares = 0 := by rw [← hr1']; simp only; rw [hsh, heq]; omega
    rw [if_pos hz] at er2
    refine ⟨?_, ?_, ?_, ?_⟩
    · rw [eacc]; simp only; rw [eo2, eo1]; exact syncOuts_sorted _ ho.outsSorted
    · rw [eacc]; exact syncOuts_stored _ _
    · rw [eacc]; simp only; rw [er2]
      unfold delRec
      refine List.Pairwise.sublist ((List.filter_sublist).map _) ?_
      rw [er1, setRec_ids]; exact ho.recsSorted
    · intro x hx
      rw [eacc] at hx; simp only at hx; rw [er2] at hx
      unfold delRec at hx
      obtain ⟨hx1, hx2⟩ := List.mem_filter.mp hx
      rw [er1] at hx1
      obtain ⟨y, hy, e⟩ := mem_setRec_id hx1
      obtain ⟨q, hq, eq⟩ := ho.recsLive y hy
      rw [hpos']
      refine ⟨q, List.mem_filter.mpr ⟨hq, ?_⟩, by rw [eq, e]⟩
      simp only [ne_eq, decide_not, Bool.not_eq_eq_eq_not, Bool.not_true, decide_eq_false_iff_not] at hx2 ⊢
      rw [eq, e]; exact hx2

theorem feeOrd_apply {f f' : Fees} {op : FOp} (hf : FullInv f) (ho : FeeOrd f) (h : applyF f op = some f') : FeeOrd f' := by
  have hf' := (apply_facts hf h).1
  cases op with
  | create o l u a0 a1 =>
    simp only [applyF, Option.map_eq_some_iff] at h
    obtain ⟨⟨f1, id, x0, x1, liq, lo, up⟩, h1, e⟩ := h
    simp only at e; subst e
    exact feeOrd_create hf hf' ho h1
  | withdraw o id liq =>
    simp only [applyF, Option.map_eq_some_iff] at h
    obtain ⟨⟨f1, o0, o1⟩, h1, e⟩ := h
    simp only at e; subst e
    exact feeOrd_withdraw hf ho h1
  | add o id a0 a1 =>
    simp only [applyF, Option.map_eq_some_iff] at h
    obtain ⟨⟨f2, nid, x0, x1⟩, h1, e⟩ := h
    simp only at e; subst e
    obtain ⟨pos, f1, w0, w1, liq, lo, up, _, _, _, _, hw, _, hc⟩ := add_spec h1
    have hw' : applyF f (.withdraw o id pos.liq) = some f1 := by simp only [applyF, hw, Option.map_some]
    have hf1 := (apply_facts hf hw').1
    exact feeOrd_create hf1 hf' (feeOrd_withdraw hf ho hw) hc
  | transfer sd id n =>
    simp only [applyF] at h
    unfold CLFees.transferPosition at h
    simp only [Option.map_eq_some_iff] at h
    obtain ⟨p', hp, e⟩ := h
    subst e
    obtain ⟨pos, _, _, ep⟩ := transferPosition_some hp
    refine ⟨ho.outsSorted, ?_, ho.recsSorted, ?_⟩
    · intro e he
      have := ho.outsStored e he
      simp only; rw [ep]; exact this
    · intro r hr
      obtain ⟨q, hq, eq⟩ := ho.recsLive r hr
      simp only; rw [ep]; simp only
      exact ⟨if q.id = id then { q with owner := n } else q, List.mem_map_of_mem hq, by split <;> exact eq⟩
  | swap og zfo spec =>
    simp only [applyF, Option.map_eq_some_iff] at h
    obtain ⟨⟨f1, ain, aout, fee⟩, h1, e⟩ := h
    simp only at e; subst e
    obtain ⟨hp, trs, g, _, hfold, _, _, er, _, _, _⟩ := swap_spec h1
    obtain ⟨_, _, _, _, _, _, _, et, eps, _⟩ := swap_some hp
    have hk := foldTrace_keys trs 0 f.acc.outs g f1.acc.outs hfold
    refine ⟨by rw [hk]; exact ho.outsSorted, ?_, by rw [er]; exact ho.recsSorted, ?_⟩
    · rw [et]; exact stored_of_keys hk ho.outsStored
    · intro r hr
      rw [er] at hr; rw [eps]; exact ho.recsLive r hr
  | collect sd id =>
    simp only [applyF, Option.map_eq_some_iff] at h
    obtain ⟨⟨f1, c0, c1⟩, h1, e⟩ := h
    simp only at e; subst e
    obtain ⟨pos, _, _, hcl, ep, _, _, _⟩ := collect_spec h1
    obtain ⟨r1, tot, _, _, _, eo2, _, er2, _⟩ := prepareClaim_spec hcl
    have hsub : (f1.acc.recs.map (·.id)).Sublist (f.acc.recs.map (·.id)) := by
      rw [er2]
      split
      · unfold delRec; exact (List.filter_sublist).map _
      · rw [setRec_ids]
    refine ⟨by rw [eo2]; exact ho.outsSorted, ?_, List.Pairwise.sublist hsub ho.recsSorted, ?_⟩
    · intro e he
      rw [eo2] at he; rw [ep]; exact ho.outsStored e he
    · intro r hr
      have : r.id ∈ f.acc.recs.map (·.id) := hsub.subset (List.mem_map_of_mem hr)
      obtain ⟨y, hy, e⟩ := List.mem_map.mp this
      obtain ⟨q, hq, eq⟩ := ho.recsLive y hy
      rw [ep]; exact ⟨q, hq, by rw [eq, e]⟩

theorem feeOrd_init (spacing spf scale : Int) : FeeOrd (initF spacing spf scale) where
  outsSorted := List.Pairwise.nil
  outsStored := by intro e he; cases he
  recsSorted := List.Pairwise.nil
  recsLive := by intro r hr; cases hr

end OsmoVerif.CLFeesP
