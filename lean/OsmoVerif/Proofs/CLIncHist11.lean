/-
C08 (incentives, histories) helpers, part 11: a claim depends on the position only through its six records, its join time and
its range (`claimAll_congr`: twins); the collected / forfeited coins as sums over the six accumulators (`claimLoop_sum`).
Core only.
-/
import OsmoVerif.Proofs.CLIncHist10

namespace OsmoVerif.CLIncP
open OsmoVerif.Num OsmoVerif.CL OsmoVerif.CLPool OsmoVerif.CLFees OsmoVerif.CLInc OsmoVerif.CLFeesP OsmoVerif.CLBook
open OsmoVerif.Accum (amt sorted hev)
open OsmoVerif.Gen

/-- two ids whose records in accumulator `a` agree in everything but the id. -/
def RecAgree (a : UAcc) (id1 id2 : Nat) : Prop :=
  ∃ r1 r2, getURec a.recs id1 = some r1 ∧ getURec a.recs id2 = some r2 ∧
    r1.shares = r2.shares ∧ r1.snap = r2.snap ∧ r1.unclaimed = r2.unclaimed

theorem claimOne_coins_congr {a : UAcc} {id1 id2 : Nat} (o : DC) (h : RecAgree a id1 id2) :
    (claimOne a id1 o).map (·.2) = (claimOne a id2 o).map (·.2) := by
  obtain ⟨r1, r2, h1, h2, hs, hn, hu⟩ := h
  unfold claimOne
  rw [h1, h2]
  simp only
  rw [hs, hn, hu]
  cases Accum.add r2.snap o with
  | none => rfl
  | some snap1 =>
    simp only [Option.bind_some]
    cases uRewards a.value r2.shares snap1 r2.unclaimed with
    | none => rfl
    | some total =>
      simp only [Option.bind_some]
      cases Accum.truncateDecimal total with
      | none => rfl
      | some p =>
        obtain ⟨coins, dust⟩ := p
        simp only [Option.bind_some]
        split
        · rfl
        · cases Accum.safeSub a.value o with
          | none => rfl
          | some q => rfl

/-- the outputs of the claim loop other than the new accumulators. -/
def loopOut (r : List UAcc × Coins × Coins × List Coins) : Coins × Coins × List Coins := (r.2.1, r.2.2.1, r.2.2.2)

theorem claimLoop_congr {factor age : Int} {id1 id2 : Nat} :
    ∀ (accs : List UAcc) (outs : List DC) (ups : List Int), (∀ a ∈ accs, RecAgree a id1 id2) →
      (claimLoop factor age id1 accs outs ups).map loopOut = (claimLoop factor age id2 accs outs ups).map loopOut := by
  intro accs
  induction accs with
  | nil =>
    intro outs ups _
    cases outs <;> cases ups <;> rfl
  | cons a as ih =>
    intro outs ups hag
    cases outs with
    | nil => rfl
    | cons o os =>
      cases ups with
      | nil => rfl
      | cons up ups' =>
        have hc := claimOne_coins_congr o (hag a List.mem_cons_self)
        have hrest := ih os ups' (fun x hx => hag x (List.mem_cons_of_mem _ hx))
        obtain ⟨r1, r2, g1, g2, _⟩ := hag a List.mem_cons_self
        have hs1 : (getURec a.recs id1).isSome = true := by rw [g1]; rfl
        have hs2 : (getURec a.recs id2).isSome = true := by rw [g2]; rfl
        simp only [claimLoop, hs1, hs2, true_and]
        cases h1 : claimOne a id1 o with
        | none =>
          cases h2 : claimOne a id2 o with
          | none => rfl
          | some p2 => rw [h1, h2] at hc; simp at hc
        | some p1 =>
          cases h2 : claimOne a id2 o with
          | none => rw [h1, h2] at hc; simp at hc
          | some p2 =>
            obtain ⟨a1', sc1⟩ := p1
            obtain ⟨a2', sc2⟩ := p2
            rw [h1, h2] at hc
            simp only [Option.map_some, Option.some.injEq] at hc
            subst hc
            simp only [Option.bind_some]
            cases scaleDownCoins factor sc1 with
            | none => rfl
            | some down =>
              simp only [Option.bind_some]
              cases hr1 : claimLoop factor age id1 as os ups' with
              | none =>
                cases hr2 : claimLoop factor age id2 as os ups' with
                | none => rfl
                | some q2 => rw [hr1, hr2] at hrest; simp at hrest
              | some q1 =>
                cases hr2 : claimLoop factor age id2 as os ups' with
                | none => rw [hr1, hr2] at hrest; simp at hrest
                | some q2 =>
                  obtain ⟨as1, c1, f1, b1⟩ := q1
                  obtain ⟨as2, c2, f2, b2⟩ := q2
                  rw [hr1, hr2] at hrest
                  simp only [Option.map_some, Option.some.injEq, loopOut, Prod.mk.injEq] at hrest
                  obtain ⟨e1, e2, e3⟩ := hrest
                  subst e1; subst e2; subst e3
                  simp only [Option.bind_some]
                  split
                  · cases coinsAddAll f1 down <;> rfl
                  · cases coinsAddAll c1 down <;> rfl

/-- **a claim depends on the position only through its records, join time and range**. -/
theorem claimAll_congr {i : Inc} {cur l u : Int} {id1 id2 : Nat} {i2 i2' : Inc} {c1 c2 f1 f2 : Coins} {b1 b2 : List Coins}
    (hag : ∀ a ∈ i.accs, RecAgree a id1 id2) (hj : joinOf i id1 = joinOf i id2)
    (h1 : claimAll i cur l u id1 = some (i2, c1, f1, b1)) (h2 : claimAll i cur l u id2 = some (i2', c2, f2, b2)) :
    c1 = c2 ∧ f1 = f2 ∧ b1 = b2 := by
  unfold claimAll at h1 h2
  unfold joinOf at hj
  rw [hj] at h1
  simp only [Option.bind_eq_some_iff] at h1 h2
  obtain ⟨j1, hj1, h1⟩ := h1
  obtain ⟨j2, hj2, h2⟩ := h2
  rw [hj1] at hj2; injection hj2 with hj2; subst hj2
  by_cases hage : i.now - j1 < 0
  · rw [if_pos hage] at h1; cases h1
  · rw [if_neg hage] at h1 h2
    simp only [Option.bind_eq_some_iff, Option.map_eq_some_iff, Prod.mk.injEq] at h1 h2
    obtain ⟨outs, ho, ⟨a1, x1, y1, z1⟩, hl1, _, e1, e2, e3⟩ := h1
    obtain ⟨outs', ho', ⟨a2, x2, y2, z2⟩, hl2, _, e1', e2', e3'⟩ := h2
    rw [ho] at ho'; injection ho' with ho'; subst ho'
    have := claimLoop_congr (factor := i.factor) (age := i.now - j1) i.accs outs uptimesNs hag
    rw [hl1, hl2] at this
    simp only [Option.map_some, Option.some.injEq, loopOut, Prod.mk.injEq] at this
    obtain ⟨g1, g2, g3⟩ := this
    subst e1; subst e2; subst e3; subst e1'; subst e2'; subst e3'
    exact ⟨g1, g2, g3⟩

/-! ## the collected and forfeited coins as sums over the accumulators -/

theorem coinsAddAll_amt : ∀ (cs acc r : Coins) (d : String), coinsAddAll acc cs = some r → amt r d = amt acc d + amt cs d := by
  intro cs
  induction cs with
  | nil => intro acc r d h; simp only [coinsAddAll, Option.some.injEq] at h; subst h; simp [amt]
  | cons c t ih =>
    obtain ⟨e, x⟩ := c
    intro acc r d h
    simp only [coinsAddAll, Option.bind_eq_some_iff] at h
    obtain ⟨a, ha, hrest⟩ := h
    rw [ih a r d hrest, Accum.coinsAdd_amt _ _ _ _ d ha]
    simp only [amt]; omega

/-- the scaled-down claim of one accumulator (spec-level reading of `claimOne` + `scaleDownCoins`). -/
def downOf (factor : Int) (a : UAcc) (id : Nat) (o : DC) : Coins :=
  match claimOne a id o with
  | some (_, scaled) => (scaleDownCoins factor scaled).getD []
  | none => []

def collSum (factor age : Int) (id : Nat) (d : String) : List UAcc → List DC → List Int → Int
  | a :: as, o :: os, up :: ups =>
    (if (getURec a.recs id).isSome ∧ age < up then 0 else amt (downOf factor a id o) d) + collSum factor age id d as os ups
  | _, _, _ => 0

def forfSum (factor age : Int) (id : Nat) (d : String) : List UAcc → List DC → List Int → Int
  | a :: as, o :: os, up :: ups =>
    (if (getURec a.recs id).isSome ∧ age < up then amt (downOf factor a id o) d else 0) + forfSum factor age id d as os ups
  | _, _, _ => 0

theorem claimLoop_sum {factor age : Int} {id : Nat} (d : String) :
    ∀ (accs : List UAcc) (outs : List DC) (ups : List Int) (accs' : List UAcc) (coll forf : Coins) (byUp : List Coins),
      claimLoop factor age id accs outs ups = some (accs', coll, forf, byUp) →
      amt coll d = collSum factor age id d accs outs ups ∧ amt forf d = forfSum factor age id d accs outs ups := by
  intro accs
  induction accs with
  | nil =>
    intro outs ups accs' coll forf byUp h
    cases outs <;> cases ups <;> simp only [claimLoop, Option.some.injEq, Prod.mk.injEq, reduceCtorEq] at h
    obtain ⟨_, e1, e2, _⟩ := h
    subst e1; subst e2
    exact ⟨rfl, rfl⟩
  | cons a as ih =>
    intro outs ups accs' coll forf byUp h
    cases outs with
    | nil => simp [claimLoop] at h
    | cons o os =>
      cases ups with
      | nil => simp [claimLoop] at h
      | cons up ups' =>
        simp only [claimLoop, Option.bind_eq_some_iff] at h
        obtain ⟨⟨a', scaled⟩, hclaim, down, hdown, ⟨as', coll0, forf0, byUp0⟩, hrest, h⟩ := h
        simp only at h hdown
        obtain ⟨i1, i2⟩ := ih os ups' as' coll0 forf0 byUp0 hrest
        have hd : downOf factor a id o = down := by unfold downOf; rw [hclaim]; simp only; rw [hdown]; rfl
        simp only [collSum, forfSum, hd]
        split at h
        · rename_i hc
          simp only [Option.map_eq_some_iff, Prod.mk.injEq] at h
          obtain ⟨forf', hadd, _, e1, e2, _⟩ := h
          subst e1; subst e2
          rw [if_pos hc, if_pos hc, coinsAddAll_amt _ _ _ d hadd, i1, i2]
          omega
        · rename_i hc
          simp only [Option.map_eq_some_iff, Prod.mk.injEq] at h
          obtain ⟨coll', hadd, _, e1, e2, _⟩ := h
          subst e1; subst e2
          rw [if_neg hc, if_neg hc, coinsAddAll_amt _ _ _ d hadd, i1, i2]
          omega

theorem list6 {α} {l : List α} (h : l.length = 6) : ∃ a0 a1 a2 a3 a4 a5, l = [a0, a1, a2, a3, a4, a5] := by
  match l, h with
  | [a0, a1, a2, a3, a4, a5], _ => exact ⟨a0, a1, a2, a3, a4, a5, rfl⟩

/-- scaled-down coins × factor ≤ scaled coins × 10¹⁸ (per denom; every coin non-negative). -/
theorem scaleDownCoins_le {factor : Int} (hf : 0 < factor) (d : String) :
    ∀ (cs down : Coins), (∀ c ∈ cs, 0 ≤ c.2) → scaleDownCoins factor cs = some down →
      0 ≤ amt down d ∧ amt down d * factor ≤ amt cs d * P18 := by
  intro cs
  induction cs with
  | nil =>
    intro down _ h
    simp only [scaleDownCoins, Option.some.injEq] at h; subst h
    simp [amt]
  | cons c t ih =>
    obtain ⟨e, x⟩ := c
    intro down hnn h
    simp only [scaleDownCoins, Option.bind_eq_some_iff, Option.map_eq_some_iff] at h
    obtain ⟨y, hy, r, hr, e'⟩ := h
    subst e'
    have hx : 0 ≤ x := hnn (e, x) List.mem_cons_self
    obtain ⟨i1, i2⟩ := ih r (fun c hc => hnn c (List.mem_cons_of_mem _ hc)) hr
    have hyz := scaleDown_some hy
    -- y = ⌊⌊x·10³⁶/factor⌋/10¹⁸⌋, so y·factor ≤ x·10¹⁸
    have hP := P18_pos
    have hy0 : 0 ≤ x * P18 * P18 := Int.mul_nonneg (Int.mul_nonneg hx (by omega)) (by omega)
    obtain ⟨y0, y1, _⟩ := tdiv_le_self hy0 hf
    obtain ⟨c0, c1, _⟩ := tdiv_le_self y0 hP
    have hyb : 0 ≤ y ∧ y * factor ≤ x * P18 := by
      rw [hyz]; unfold scaleDownZ
      refine ⟨c0, ?_⟩
      have h1 : ((x * P18 * P18).tdiv factor).tdiv P18 * P18 * factor ≤ (x * P18 * P18).tdiv factor * factor :=
        Int.mul_le_mul_of_nonneg_right c1 (by omega)
      have h2 : ((x * P18 * P18).tdiv factor).tdiv P18 * factor * P18 ≤ x * P18 * P18 := by
        have e : ((x * P18 * P18).tdiv factor).tdiv P18 * factor * P18 = ((x * P18 * P18).tdiv factor).tdiv P18 * P18 * factor := by
          rw [Int.mul_assoc, Int.mul_comm factor P18, ← Int.mul_assoc]
        rw [e]; omega
      exact Int.le_of_mul_le_mul_right h2 hP
    split
    · simp only [amt]
      split
      · rw [Int.add_mul, Int.add_mul]; omega
      · rw [Int.zero_add, Int.zero_add]; exact ⟨i1, i2⟩
    · rename_i hyp
      have : y = 0 := by omega
      simp only [amt]
      split
      · rw [Int.add_mul]
        have : 0 ≤ x * P18 := Int.mul_nonneg hx (by omega)
        omega
      · rw [Int.zero_add]; exact ⟨i1, i2⟩

end OsmoVerif.CLIncP
