/-
C08 (incentives, histories) helpers, part 18: `SumI` under `CreatePosition` (a fresh record holds no entitlement) and under
`collectIncentives` (the claimed position's entitlements are released; what is paid is at most that, up to six half units).
Core only.
-/
import OsmoVerif.Proofs.CLIncHist17

namespace OsmoVerif.CLIncP
open OsmoVerif.Num OsmoVerif.CL OsmoVerif.CLPool OsmoVerif.CLFees OsmoVerif.CLInc OsmoVerif.CLFeesP OsmoVerif.CLBook
open OsmoVerif.Accum (amt sorted hev)
open OsmoVerif.Gen

theorem sumN_mul_left (c : Int) (f : Nat → Int) : ∀ (us : List Nat), sumN us (fun k => c * f k) = c * sumN us f
  | [] => by simp [sumN]
  | u :: us => by simp only [sumN, sumN_mul_left c f us, Int.mul_add]

theorem sumN_six_const (c : Int) : sumN six (fun _ => c) = 6 * c := by
  simp only [sumN, six]; omega

theorem insU_congr {i i' : Inc} {cur l u : Int} {k : Nat} (d : String) (hv : valAt i'.accs k = valAt i.accs k)
    (ht : i'.trackers = i.trackers) : insU i' cur k d l u = insU i cur k d l u := by
  unfold insU trAt; rw [hv, ht]

/-! ## create -/

theorem createI_sum {s s' : Full} {owner : String} {l u a0 a1 m0 m1 : Int} {id : Nat} {x0 x1 liq lo up : Int} {n : Int}
    (hi : IncInv s) (hs : SumI s n) (hf' : FullInv s'.fees) (sf : IStepFacts s s')
    (h : CLInc.createPositionMin s owner l u a0 a1 m0 m1 = some (s', id, x0, x1, liq, lo, up)) : SumI s' n := by
  obtain ⟨hp', i1, hsync, er, _, eb, ef, _, _, _, hdv, hnew, hoth⟩ := createMinI_part hi.fees hf'.pool.core hi.inc h
  obtain ⟨_, eid, _, _, _, epos, _⟩ := createMin_facts hi.fees.pool.core hi.fees.acc (createMinI_fees h)
  have h1 := sync_sum hi hs hsync
  obtain ⟨hp1, t1, _, _, _, _, _, g1, _⟩ := sync_part hi.inc hsync
  refine ⟨by rw [eb]; exact h1.balSorted, fun d => ?_⟩
  have hdv0 : ∀ k d, dVal i1 s'.inc k d = 0 := by
    intro k d
    have := dVal_trans s.inc i1 s'.inc k d
    rw [hdv k d] at this; omega
  have hE : Etot s' d = Etot { s with inc := i1 } d := by
    unfold Etot
    rw [epos, sumBy_append]
    have hnew0 : entQ s' d ⟨id, owner, lo, up, liq⟩ = 0 := by
      unfold entQ
      rw [sumN_congr (g := fun _ => 0), sumN_zero]
      intro k hk
      obtain ⟨ins, hr, hamt⟩ := hnew k (mem_six.mp hk)
      unfold ent
      simp only
      rw [hr]
      simp only
      rw [hamt d, Int.sub_self, Int.zero_mul]
      simp [amt]
    simp only [sumBy_cons, sumBy_nil, hnew0, Int.add_zero]
    show _ = sumBy (entQ { s with inc := i1 } d) s.fees.pool.positions
    apply sumBy_congr
    intro q hq
    have hq' : q ∈ s'.fees.pool.positions := by rw [epos]; exact List.mem_append_left _ hq
    have hne : q.id ≠ id := by have := hi.fees.pool.core.pos.idsLt q hq; omega
    unfold entQ
    apply sumN_congr
    intro k _
    unfold ent
    rw [hoth k q.id hne]
    show (match getURec (accAt s.inc k).recs q.id with
      | some r => amt r.unclaimed d * P18 + (insU s'.inc s'.fees.pool.tick k d q.lower q.upper - amt r.snap d) * r.shares
      | none => 0) = (match getURec (accAt i1 k).recs q.id with
      | some r => amt r.unclaimed d * P18 + (insU i1 s.fees.pool.tick k d q.lower q.upper - amt r.snap d) * r.shares
      | none => 0)
    rw [← recs_of_grew (by rw [hp1.len, hi.inc.len]) g1 k]
    cases hr : getURec (accAt i1 k).recs q.id with
    | none => rfl
    | some r =>
      simp only
      have := inside_from_synced hi sf t1 hq hq' rfl k d
      rw [hdv0] at this
      rw [this]
      have hz : (if q.lower ≤ s.fees.pool.tick ∧ s.fees.pool.tick < q.upper then (0 : Int) else 0) = 0 := by split <;> rfl
      rw [hz, Int.add_zero]
  rw [hE, er, eb, ef]
  exact h1.bound d

/-! ## incentive collect -/

theorem collectIncentivesI_sum {s s' : Full} {sender : String} {id : Nat} {c f : Coins} {n : Int}
    (hi : IncInv s) (hs : SumI s n) (h : collectIncentives s sender id = some (s', c, f)) : SumI s' (n + 6) := by
  unfold collectIncentives at h
  simp only [Option.bind_eq_some_iff] at h
  obtain ⟨pos, hfind, h⟩ := h
  split at h
  · cases h
  · simp only [Option.bind_eq_some_iff, Option.map_eq_some_iff, Prod.mk.injEq] at h
    obtain ⟨i1, hsync, ⟨i2, coll, forf, byUp⟩, hclaim, b, hb, e, _, _⟩ := h
    simp only at hb
    subst e
    obtain ⟨hmem, hid⟩ := find_id hfind
    have h1 := sync_sum hi hs hsync
    obtain ⟨hp1, t1, _⟩ := sync_part hi.inc hsync
    rw [← hid] at hclaim
    obtain ⟨T, hj, hage, hsplit, chain⟩ := claim_split hi.fees hp1 hmem hclaim
    have e2c : i2 = { i1 with accs := i2.accs } := (claimI_stage hi.fees hp1 hmem hclaim).1
    have e2b : i2.bal = i1.bal := by rw [e2c]
    have e2r : i2.records = i1.records := by rw [e2c]
    have e2f : i2.factor = i1.factor := by rw [e2c]
    have e2t : i2.trackers = i1.trackers := by rw [e2c]
    have hF := hp1.factor
    have hP := P18_pos
    refine ⟨?_, fun d => ?_⟩
    · obtain ⟨n1, _, _⟩ := claim_parts hi.fees hp1 hmem hj hclaim ""
      exact (coinsSubAll_spec coll _ b (by rw [e2b]; exact h1.balSorted) n1 hb).1
    obtain ⟨n1, _, parts⟩ := claim_parts hi.fees hp1 hmem hj hclaim d
    obtain ⟨_, hbal⟩ := coinsSubAll_spec coll _ b (by rw [e2b]; exact h1.balSorted) n1 hb
    -- the potential: the claimed position's entitlements are released, the others are unchanged
    have hE : Etot { s with inc := { i2 with bal := b } } d = Etot { s with inc := i1 } d - entQ { s with inc := i1 } d pos := by
      unfold Etot
      show sumBy (entQ { s with inc := { i2 with bal := b } } d) s.fees.pool.positions = sumBy (entQ { s with inc := i1 } d) s.fees.pool.positions - _
      have hpt := sumBy_point (F := entQ { s with inc := i1 } d) (G := entQ { s with inc := { i2 with bal := b } } d)
        hi.fees.pool.core.pos.uniq hmem (fun q hq hne => by
          unfold entQ
          apply sumN_congr
          intro k hk
          obtain ⟨⟨a1, a2, _, _, _, _, _, _, ha1, ha2, _, _, _, _, _, _, _, _, _, _, hoth, ev, _⟩⟩ := chain k (mem_six.mp hk)
          have hacc2 : accAt ({ i2 with bal := b } : Inc) k = a2 := by unfold accAt; simp only; rw [ha2]; rfl
          unfold ent
          show (match getURec (accAt ({ i2 with bal := b } : Inc) k).recs q.id with
            | some r => amt r.unclaimed d * P18 + (insU ({ i2 with bal := b } : Inc) s.fees.pool.tick k d q.lower q.upper - amt r.snap d) * r.shares
            | none => 0) = (match getURec (accAt i1 k).recs q.id with
            | some r => amt r.unclaimed d * P18 + (insU i1 s.fees.pool.tick k d q.lower q.upper - amt r.snap d) * r.shares
            | none => 0)
          rw [hacc2, accAt_of ha1, hoth q.id hne,
            insU_congr (i := i1) (i' := { i2 with bal := b }) d (by show valAt i2.accs k = _; rw [valAt_of ha2, valAt_of ha1, ev]) e2t])
      rw [hpt]
      have hz : entQ { s with inc := { i2 with bal := b } } d pos = 0 := by
        unfold entQ
        rw [sumN_congr (g := fun _ => 0), sumN_zero]
        intro k hk
        obtain ⟨⟨a1, a2, r, _, ins, _, _, _, ha1, ha2, _, _, _, _, _, _, _, hrec, _, hamt, _, ev, _⟩⟩ := chain k (mem_six.mp hk)
        have hacc2 : accAt ({ i2 with bal := b } : Inc) k = a2 := by unfold accAt; simp only; rw [ha2]; rfl
        unfold ent
        show (match getURec (accAt ({ i2 with bal := b } : Inc) k).recs pos.id with
            | some r => amt r.unclaimed d * P18 + (insU ({ i2 with bal := b } : Inc) s.fees.pool.tick k d pos.lower pos.upper - amt r.snap d) * r.shares
            | none => 0) = 0
        rw [hacc2, hrec]
        simp only
        rw [insU_congr (i := i1) (i' := { i2 with bal := b }) d (by show valAt i2.accs k = _; rw [valAt_of ha2, valAt_of ha1, ev]) e2t,
          hamt d, Int.sub_self, Int.zero_mul]
        simp [amt]
      rw [hz]; omega
    -- what is paid against the released entitlements
    have hpay : 2 * (amt coll d * (P18 * i1.factor)) ≤ 2 * entQ { s with inc := i1 } d pos + 6 * P18 := by
      rw [(hsplit d).1]
      have hk : ∀ k ∈ six, 2 * ((if i1.now - T < upAt k then 0 else claimPart i1 s.fees.pool.tick pos.lower pos.upper pos.id k d) * (P18 * i1.factor)) ≤
          2 * ent { s with inc := i1 } d k pos + P18 := by
        intro k hk
        obtain ⟨r, cs, hr, hsh, hx, ht0, hp0, hpb, _, _⟩ := parts k (mem_six.mp hk)
        have hshn : 0 ≤ r.shares := by have := hi.fees.pool.core.pos.liqPos pos hmem; omega
        have hre : 2 * (rawTotal r (insU i1 s.fees.pool.tick k d pos.lower pos.upper) d * P18) ≤ 2 * ent { s with inc := i1 } d k pos + P18 :=
          rawTotal_le_ent (s := { s with inc := i1 }) (k := k) (d := d) (q := pos) hr hshn hx
        obtain ⟨q0, q1, _⟩ := tdiv_le_self ht0 hP
        generalize rawTotal r (insU i1 s.fees.pool.tick k d pos.lower pos.upper) d = t at *
        split
        · rw [Int.zero_mul]
          have : 0 ≤ t * P18 := Int.mul_nonneg ht0 (by omega)
          omega
        · have h1' : claimPart i1 s.fees.pool.tick pos.lower pos.upper pos.id k d * i1.factor * P18 ≤ t.tdiv P18 * P18 * P18 :=
            Int.mul_le_mul_of_nonneg_right hpb (by omega)
          have h2' : t.tdiv P18 * P18 * P18 ≤ t * P18 := Int.mul_le_mul_of_nonneg_right q1 (by omega)
          have e3 : claimPart i1 s.fees.pool.tick pos.lower pos.upper pos.id k d * (P18 * i1.factor) =
              claimPart i1 s.fees.pool.tick pos.lower pos.upper pos.id k d * i1.factor * P18 := by
            rw [Int.mul_comm P18, Int.mul_assoc]
          rw [e3]; omega
      have := sumN_le hk
      rw [sumN_mul_left, sumN_mul, sumN_add, sumN_mul_left, sumN_six_const] at this
      exact this
    have hb1 := h1.bound d
    show 2 * Etot { s with inc := { i2 with bal := b } } d + 2 * (sumRem d i2.records * i2.factor) ≤ 2 * (amt b d * P18 * i2.factor) + (n + 6) * P18
    rw [hE, e2r, e2f, hbal d, e2b]
    simp only at hb1
    rw [Int.sub_mul, Int.sub_mul, Int.add_mul]
    have e4 : amt coll d * P18 * i1.factor = amt coll d * (P18 * i1.factor) := Int.mul_assoc _ _ _
    rw [e4]
    omega

end OsmoVerif.CLIncP
