/- Helper lemmas for C11: the accumulation store, finite sums over lock ids, and what a successful
primitive of Model/Superfluid.lean did (closed form of its output state). Core only. -/
import OsmoVerif.Model.Superfluid

namespace OsmoVerif.Superfluid

/-! ## accumulation store -/

theorem accFrom_accAdd (l : List (Int × Int)) (d a u : Int) :
    accFrom (accAdd l d a) u = accFrom l u + (if u ≤ d then a else 0) := by
  induction l with
  | nil => simp [accAdd, accFrom]
  | cons x r ih =>
    obtain ⟨k, v⟩ := x
    unfold accAdd
    by_cases hk : k = d
    · subst hk
      simp only [if_true, accFrom]
      by_cases hu : u ≤ k
      · simp only [hu, if_true]; omega
      · simp only [hu, if_false]; omega
    · simp only [hk, if_false, accFrom, ih]; omega

/-! ## finite sums over ids 1..n -/

def sumTo (f : Nat → Int) : Nat → Int
  | 0 => 0
  | n + 1 => sumTo f n + f (n + 1)

theorem sumTo_congr {f g : Nat → Int} : ∀ n, (∀ i, 1 ≤ i → i ≤ n → f i = g i) → sumTo f n = sumTo g n
  | 0, _ => rfl
  | n + 1, h => by
    unfold sumTo
    rw [sumTo_congr n (fun i h1 h2 => h i h1 (by omega)), h (n + 1) (by omega) (by omega)]

/-- two functions that differ at one id only. -/
theorem sumTo_update {f g : Nat → Int} (k : Nat) (hk1 : 1 ≤ k) :
    ∀ n, k ≤ n → (∀ i, i ≠ k → f i = g i) → sumTo g n = sumTo f n - f k + g k
  | 0, hk, _ => by omega
  | n + 1, hk, h => by
    unfold sumTo
    by_cases e : k = n + 1
    · subst e
      rw [sumTo_congr (f := g) (g := f) n (fun i _ h2 => (h i (by omega)).symm)]
      omega
    · rw [sumTo_update k hk1 n (by omega) h, h (n + 1) (by omega)]
      omega

theorem sumTo_zero {f : Nat → Int} : ∀ n, (∀ i, 1 ≤ i → i ≤ n → f i = 0) → sumTo f n = 0
  | 0, _ => rfl
  | n + 1, h => by
    unfold sumTo
    rw [sumTo_zero n (fun i h1 h2 => h i h1 (by omega)), h (n + 1) (by omega) (by omega)]; rfl

/-- amount lock `id` contributes to the intermediary account `k`. -/
def connAmt (s : State) (k : AccKey) (id : Nat) : Int :=
  match s.conns id, s.locks id with
  | some k', some l => if k' = k then l.amount else 0
  | _, _ => 0

/-- Σ over the locks currently connected to `k` (ids 1..n). -/
def sumConn (s : State) (k : AccKey) (n : Nat) : Int := sumTo (connAmt s k) n

/-- number of locks currently connected to `k`. -/
def connCnt (s : State) (k : AccKey) (id : Nat) : Int :=
  match s.conns id, s.locks id with
  | some k', some _ => if k' = k then 1 else 0
  | _, _ => 0
def numConn (s : State) (k : AccKey) (n : Nat) : Int := sumTo (connCnt s k) n

/-- supply as reported to users before clamping at zero: bank supply plus offset. -/
def tot (s : State) : Int := s.supply + s.offset

/-! ## primitives: what success means -/

theorem mintAndDelegate_ok {s s' : State} {a : Int} {k : AccKey} (h : mintAndDelegate s a k = .ok s') :
    k.2 ∈ s.validators ∧ 0 < a ∧
    s' = { s with supply := s.supply + a, offset := s.offset - a, deleg := updK s.deleg k (some (delegated s k + a)) } := by
  unfold mintAndDelegate at h
  split at h
  · cases h
  · split at h
    · cases h
    · rename_i h1 h2
      injection h with h
      exact ⟨by simpa using h1, by omega, h.symm⟩

theorem forceUndelegateAndBurn_ok {s s' : State} {a : Int} {k : AccKey} (h : forceUndelegateAndBurn s a k = .ok s') :
    (s.deleg k = none ∧ s' = s) ∨
    (∃ sh, s.deleg k = some sh ∧ 0 ≤ a ∧ a ≤ sh ∧
      s' = { s with deleg := updK s.deleg k (if sh - a = 0 then none else some (sh - a)),
                    supply := s.supply - a, offset := s.offset + a }) := by
  unfold forceUndelegateAndBurn at h
  split at h
  · cases h
  · split at h
    · rename_i hd
      injection h with h
      exact Or.inl ⟨hd, h.symm⟩
    · rename_i sh hd
      split at h
      · cases h
      · split at h
        · cases h
        · injection h with h
          exact Or.inr ⟨sh, hd, by omega, by omega, h.symm⟩

theorem createSynth_ok {s s' : State} {id : Nat} {kind : SKind} {key : AccKey} (h : createSynth s id kind key = .ok s') :
    s.synths id = [] ∧ ∃ l, s.locks id = some l ∧ l.single = true ∧ (kind = .unbonding → s.unbondingTime ≤ l.duration) ∧
    s' = { s with
      synths := upd s.synths id
        [{ kind := kind, key := key,
           endTime := if kind = .unbonding then some (s.now + s.unbondingTime) else none,
           duration := s.unbondingTime }],
      accum := updK s.accum (kind, key) (accAdd (s.accum (kind, key)) s.unbondingTime l.amount) } := by
  unfold createSynth at h
  split at h
  · cases h
  · rename_i hs
    split at h
    · cases h
    · rename_i l hl
      split at h
      · cases h
      · rename_i hk
        split at h
        · cases h
        · rename_i hsg
          injection h with h
          refine ⟨hs, l, hl, ?_, ?_, h.symm⟩
          · cases hb : l.single with
            | true => rfl
            | false => exact absurd hb hsg
          · intro hku
            rcases Int.lt_or_le l.duration s.unbondingTime with hlt | hle
            · exact absurd ⟨hku, by omega⟩ hk
            · exact hle

theorem deleteSynth_ok {s s' : State} {id : Nat} {kind : SKind} {key : AccKey} (h : deleteSynth s id kind key = .ok s') :
    (∃ sy, (s.synths id).find? (synthMatch kind key) = some sy) ∧ ∃ l, s.locks id = some l ∧ l.single = true ∧
    s' = { s with
      synths := upd s.synths id ((s.synths id).filter (fun x => !synthMatch kind key x)),
      accum := updK s.accum (kind, key) (accAdd (s.accum (kind, key)) l.duration (-l.amount)) } := by
  unfold deleteSynth at h
  split at h
  · cases h
  · rename_i sy hs
    split at h
    · cases h
    · rename_i l hl
      split at h
      · cases h
      · rename_i hsg
        injection h with h
        refine ⟨⟨sy, hs⟩, l, hl, ?_, h.symm⟩
        cases hb : l.single with
        | true => rfl
        | false => exact absurd hb hsg

theorem unlockMatured_ok {s s' : State} {id : Nat} (h : unlockMatured s id = .ok s') :
    ∃ l e, s.locks id = some l ∧ l.endTime = some e ∧ e ≤ s.now ∧ s' = { s with locks := upd s.locks id none } := by
  unfold unlockMatured at h
  split at h
  · cases h
  · rename_i l hl
    split at h
    · cases h
    · rename_i e he
      split at h
      · cases h
      · injection h with h
        exact ⟨l, e, hl, he, by omega, h.symm⟩

/-- `beginUnlock`: the three successful shapes. -/
theorem beginUnlock_ok {s s' : State} {id nid : Nat} {coins : Option Int} (h : beginUnlock s id coins = .ok (s', nid)) :
    ∃ l, s.locks id = some l ∧ l.endTime = none ∧
    ((nid = id ∧ (coins = none ∨ coins = some l.amount) ∧
        s' = { s with locks := upd s.locks id (some { l with endTime := some (s.now + l.duration) }) }) ∨
     (∃ a, coins = some a ∧ 0 < a ∧ a < l.amount ∧ l.single = true ∧ nid = s.lastLockId + 1 ∧
        s' = { s with
          locks := upd (upd s.locks id (some { l with amount := l.amount - a })) (s.lastLockId + 1)
                    (some { l with amount := a, endTime := some (s.now + l.duration) }),
          lastLockId := s.lastLockId + 1 })) := by
  unfold beginUnlock at h
  split at h
  · cases h
  · rename_i l hl
    split at h
    · split at h
      · cases h
      · rename_i he
        injection h with h
        injection h with h1 h2
        refine ⟨l, hl, ?_, Or.inl ⟨h2.symm, Or.inl rfl, h1.symm⟩⟩
        cases hh : l.endTime with
        | none => rfl
        | some e => rw [hh] at he; exact absurd rfl he
    · rename_i a
      split at h
      · cases h
      · rename_i hsg
        split at h
        · cases h
        · split at h
          · cases h
          · split at h
            · cases h
            · rename_i ha0 hal he
              have hend : l.endTime = none := by
                cases hh : l.endTime with
                | none => rfl
                | some e => rw [hh] at he; exact absurd rfl he
              split at h
              · rename_i heq
                injection h with h
                injection h with h1 h2
                exact ⟨l, hl, hend, Or.inl ⟨h2.symm, Or.inr (by rw [heq]), h1.symm⟩⟩
              · rename_i hne
                injection h with h
                injection h with h1 h2
                refine ⟨l, hl, hend, Or.inr ⟨a, rfl, by omega, by omega, ?_, h2.symm, h1.symm⟩⟩
                cases hb : l.single with
                | true => rfl
                | false => exact absurd hb hsg

end OsmoVerif.Superfluid
