/-
C04 (stableswap invariant), part 10: the solver on INTEGER scaled reserves (all scaling factors 1).

When `x = X·10^36`, `y = Y·10^36`, `w = W·10^36` and `yf = F·10^18` every product inside `cfmmNoV`, the constant of
`targetK` and the coefficients of `iterK` is exact; what remains is the rounded quotient of `targetK` and the two
products by `xOut` in `iterK`, which are exact too when `xOut` is a whole number of units.
-/
import OsmoVerif.Proofs.GammSSIn2

set_option linter.unusedSimpArgs false

namespace OsmoVerif.GammMath.SS
open OsmoVerif.Num OsmoVerif.MathM OsmoVerif.Gen OsmoVerif.Spec

theorem Pdiff_sq : Pdiff * Pdiff = P36 := by decide

theorem chopRound36_exact (q : Int) : chopRound P36 (q * P36) = q :=
  IsHalfEven.exact P36_pos (chopRound_isHalfEven P36 (q * P36) P36_pos P36_even)

/-- a product that is a whole multiple of 10^36 is not rounded. -/
theorem BigDec_mul_exact {a b r q : Int} (h : BigDec.mul a b = some r) (e : a * b = q * P36) : r = q := by
  unfold BigDec.mul at h
  rw [(chk_some h).1, e, chopRound36_exact]

theorem rq_mul_exact {a b r q : Int} (h : BigDec.mul a b = some r) (e : a * b = q * P36) :
    rq r = rq a * rq b := by
  rw [BigDec_mul_exact h e]
  have : ((a * b : Int) : ℚ) = ((q * P36 : Int) : ℚ) := by rw [e]
  push_cast at this
  rw [P36_cast] at this
  unfold rq
  field_simp
  linarith

/-- `cfmmNoV` on whole numbers is exact. -/
theorem cfmmNoV_unit {X Y W k : Int} (h : cfmmNoV (X * P36) (Y * P36) (W * P36) = some k) :
    k = X * Y * (X ^ 2 + Y ^ 2 + W) * P36 := by
  obtain ⟨hx, hy, hw, _⟩ := cfmmNoV_nonneg h
  unfold cfmmNoV at h
  cases h0 : cfmmNoVY (X * P36) (Y * P36) (W * P36) with
  | none => simp [h0] at h
  | some ky =>
    simp only [h0, Option.bind_some] at h
    unfold cfmmNoVY at h0
    rw [if_neg (by omega)] at h0
    cases h1 : BigDec.mul (X * P36) (X * P36) with
    | none => simp [h1] at h0
    | some x2 =>
      cases h2 : BigDec.mul (Y * P36) (Y * P36) with
      | none => simp [h1, h2] at h0
      | some y2 =>
        cases h3 : BigDec.add x2 y2 with
        | none => simp [h1, h2, h3] at h0
        | some t =>
          cases h4 : BigDec.add t (W * P36) with
          | none => simp [h1, h2, h3, h4] at h0
          | some s =>
            simp only [h1, h2, h3, h4, Option.bind_eq_bind, Option.bind_some, bind] at h0
            have e1 : x2 = X ^ 2 * P36 := BigDec_mul_exact h1 (by ring)
            have e2 : y2 = Y ^ 2 * P36 := BigDec_mul_exact h2 (by ring)
            have e3 := BigDec_add_spec h3
            have e4 := BigDec_add_spec h4
            have es : s = (X ^ 2 + Y ^ 2 + W) * P36 := by rw [e4, e3, e1, e2]; ring
            have e5 : ky = X * (X ^ 2 + Y ^ 2 + W) * P36 := BigDec_mul_exact h0 (by rw [es]; ring)
            exact BigDec_mul_exact h (by rw [e5]; ring)

/-- `targetK` on whole numbers: only the quotient is rounded (low side shown). -/
theorem targetK_unit {X Y W F t : Int} (hF : 0 < F)
    (h : targetK (X * P36) (Y * P36) (W * P36) (F * Pdiff) = some t) :
    ((X * Y * (X ^ 2 + Y ^ 2 + W) : Int) : ℚ) / rq (F * Pdiff) - eps / 2 - eps ^ 2
        - hq (X : ℚ) (rq (F * Pdiff)) (W : ℚ) < rq t := by
  unfold targetK at h
  cases h0 : cfmmNoV (X * P36) (Y * P36) (W * P36) with
  | none => simp [h0] at h
  | some k =>
    cases h1 : BigDec.quo k (F * Pdiff) with
    | none => simp [h0, h1] at h
    | some yr =>
      cases h2 : BigDec.mul (F * Pdiff) (F * Pdiff) with
      | none => simp [h0, h1, h2] at h
      | some yf2 =>
        cases h3 : BigDec.mul (X * P36) (X * P36) with
        | none => simp [h0, h1, h2, h3] at h
        | some x02 =>
          cases h4 : BigDec.add yf2 (W * P36) with
          | none => simp [h0, h1, h2, h3, h4] at h
          | some u =>
            cases h5 : BigDec.add u x02 with
            | none => simp [h0, h1, h2, h3, h4, h5] at h
            | some inner =>
              cases h6 : BigDec.mul inner (X * P36) with
              | none => simp [h0, h1, h2, h3, h4, h5, h6] at h
              | some cst =>
                simp only [h0, h1, h2, h3, h4, h5, h6, Option.bind_eq_bind, Option.bind_some, bind] at h
                obtain ⟨_, _, _, hk⟩ := cfmmNoV_nonneg h0
                have hyf : 0 < F * Pdiff := Int.mul_pos hF Pdiff_pos
                obtain ⟨q1, _⟩ := BigDec_quo_rq h1 hk hyf
                rw [cfmmNoV_unit h0, rq_P36_mul] at q1
                have e2 : rq yf2 = rq (F * Pdiff) * rq (F * Pdiff) :=
                  rq_mul_exact h2 (q := F * F) (by rw [← Pdiff_sq]; ring)
                have e3 : rq x02 = (X : ℚ) * X := by
                  rw [rq_mul_exact h3 (q := X * X * P36) (by ring), rq_P36_mul]
                have ei : rq inner = rq yf2 + rq (W * P36) + rq x02 := by rw [BigDec_add_rq h5, BigDec_add_rq h4]
                have e6 : rq cst = rq inner * (X : ℚ) := by
                  rw [rq_mul_exact h6 (q := inner * X) (by ring), rq_P36_mul]
                have et : rq t = rq yr - rq cst := BigDec_sub_rq h
                rw [et, e6, ei, e2, e3, rq_P36_mul]
                unfold hq
                linarith

/-- `iterK` on whole numbers: only the two products by `xOut` are rounded, and not even these when `xOut` is a
whole number of units. -/
theorem iterK_unit {X W F xf out : Int} {f : Int → Option Int}
    (h : iterK (X * P36) (W * P36) (F * Pdiff) = some f) (hf : f xf = some out) :
    rq out ≤ hq (rq xf) (rq (F * Pdiff)) (W : ℚ) - hq (X : ℚ) (rq (F * Pdiff)) (W : ℚ)
        + eps * (1 / 2 * |(X : ℚ) - rq xf| + 1 / 2) ∧
    (P36 ∣ X * P36 - xf →
      rq out = hq (rq xf) (rq (F * Pdiff)) (W : ℚ) - hq (X : ℚ) (rq (F * Pdiff)) (W : ℚ)) := by
  unfold iterK at h
  cases h1 : BigDec.mulInt (X * P36) 3 with
  | none => simp [h1] at h
  | some quad =>
    cases h2 : BigDec.mul quad (X * P36) with
    | none => simp [h1, h2] at h
    | some q1 =>
      cases h3 : BigDec.mul (F * Pdiff) (F * Pdiff) with
      | none => simp [h1, h2, h3] at h
      | some yf2 =>
        cases h4 : BigDec.add q1 (W * P36) with
        | none => simp [h1, h2, h3, h4] at h
        | some t =>
          cases h5 : BigDec.add t yf2 with
          | none => simp [h1, h2, h3, h4, h5] at h
          | some lin0 =>
            simp only [h1, h2, h3, h4, h5, Option.bind_eq_bind, Option.bind_some, bind, pure] at h
            injection h with h
            subst h
            simp only [Option.bind_eq_bind, bind] at hf
            cases g1 : BigDec.sub (X * P36) xf with
            | none => simp [g1] at hf
            | some xOut =>
              cases g2 : BigDec.add (-xOut) quad with
              | none => simp [g1, g2] at hf
              | some t1 =>
                cases g3 : BigDec.mul t1 xOut with
                | none => simp [g1, g2, g3] at hf
                | some r1 =>
                  cases g4 : BigDec.add r1 (-lin0) with
                  | none => simp [g1, g2, g3, g4] at hf
                  | some t2 =>
                    simp only [g1, g2, g3, g4, Option.bind_some] at hf
                    have hquad : quad = X * P36 * 3 := BigDec_mulInt_spec h1
                    have equad : rq quad = 3 * (X : ℚ) := by
                      rw [hquad, rq_mul_int, rq_P36_mul]; push_cast; ring
                    have eq1 : rq q1 = 3 * (X : ℚ) * X := by
                      rw [rq_mul_exact h2 (q := 3 * X * X * P36) (by rw [hquad]; ring), equad, rq_P36_mul]
                    have eyf2 : rq yf2 = rq (F * Pdiff) * rq (F * Pdiff) :=
                      rq_mul_exact h3 (q := F * F) (by rw [← Pdiff_sq]; ring)
                    have elin : rq lin0 = rq q1 + rq (W * P36) + rq yf2 := by
                      rw [BigDec_add_rq h5, BigDec_add_rq h4]
                    have hxo := BigDec_sub_spec g1
                    have exo : rq xOut = (X : ℚ) - rq xf := by rw [BigDec_sub_rq g1, rq_P36_mul]
                    have et1 : rq t1 = -rq xOut + rq quad := by rw [BigDec_add_rq g2, rq_neg]
                    have et2 : rq t2 = rq r1 - rq lin0 := by rw [BigDec_add_rq g4, rq_neg]; ring
                    have exf : rq xf = (X : ℚ) - rq xOut := by rw [exo]; ring
                    have key : ∀ (R1 OUT : ℚ), OUT - (hq ((X : ℚ) - rq xOut) (rq (F * Pdiff)) W
                          - hq (X : ℚ) (rq (F * Pdiff)) W)
                        = (R1 - (-rq xOut + 3 * (X : ℚ)) * rq xOut) * rq xOut
                          + (OUT - (R1 - (3 * (X : ℚ) * X + W + rq (F * Pdiff) * rq (F * Pdiff))) * rq xOut) := by
                      intro R1 OUT; unfold hq; ring
                    constructor
                    · have a3 := BigDec_mul_rq g3
                      have a4 := abs_le.mp (BigDec_mul_rq hf)
                      rw [et1, equad] at a3
                      rw [et2, elin, eq1, eyf2, rq_P36_mul] at a4
                      have hm : |(rq r1 - (-rq xOut + 3 * (X : ℚ)) * rq xOut) * rq xOut| ≤ eps / 2 * |rq xOut| := by
                        rw [abs_mul]; exact mul_le_mul_of_nonneg_right a3 (abs_nonneg _)
                      obtain ⟨_, m2⟩ := abs_le.mp hm
                      have := key (rq r1) (rq out)
                      have e : (X : ℚ) - ((X : ℚ) - rq xOut) = rq xOut := by ring
                      rw [exf, e]
                      linarith [a4.2]
                    · intro hdvd
                      obtain ⟨c, hc⟩ := hdvd
                      have hxc : xOut = c * P36 := by rw [hxo, hc]; ring
                      have e3 : rq r1 = rq t1 * rq xOut := rq_mul_exact g3 (q := t1 * c) (by rw [hxc]; ring)
                      have e4 : rq out = rq t2 * rq xOut := rq_mul_exact hf (q := t2 * c) (by rw [hxc]; ring)
                      have := key (rq r1) (rq out)
                      rw [exf]
                      rw [e4, et2, elin, eq1, eyf2, rq_P36_mul, e3, et1, equad] at this ⊢
                      linarith

/-- what a successful solve on whole numbers guarantees about the exact kernel: the error is at most
`Yf·eps·(1 + eps + |Xo|/2)`, and `Yf·eps·(1/2 + eps)` when the returned amount is a whole number of units. -/
theorem solver_unit {X Y W F yIn xOut : Int} (hyf : Y * P36 + yIn = F * Pdiff)
    (h : solveCfmmMulti (X * P36) (Y * P36) (W * P36) yIn = some xOut) :
    ((X * Y * (X ^ 2 + Y ^ 2 + W) : Int) : ℚ)
        < kq ((X : ℚ) - rq xOut) (rq (F * Pdiff)) W + rq (F * Pdiff) * (eps * (1 + eps + 1 / 2 * |rq xOut|)) ∧
    (P36 ∣ xOut → ((X * Y * (X ^ 2 + Y ^ 2 + W) : Int) : ℚ)
        < kq ((X : ℚ) - rq xOut) (rq (F * Pdiff)) W + rq (F * Pdiff) * (eps * (1 / 2 + eps))) := by
  obtain ⟨run, hs, -, -, hlt, out, hfo, -, hle, -⟩ := Props.C04.stableswap_solver_post h
  obtain ⟨hx, hy, hw, hyin, ht, hi⟩ := solverSetup_spec hs
  rw [hyf] at ht hi
  have hFD : 0 < F * Pdiff := by omega
  have hF : 0 < F := by
    by_contra hc
    have : F * Pdiff ≤ 0 := Int.mul_nonpos_of_nonpos_of_nonneg (by omega) (Int.le_of_lt Pdiff_pos)
    omega
  have a1 := targetK_unit hF ht
  obtain ⟨a2, a3⟩ := iterK_unit hi hfo
  have hle' : rq run.target ≤ rq out := rq_le_rq.mpr hle
  have exf : rq (X * P36 - xOut) = (X : ℚ) - rq xOut := by rw [rq_sub, rq_P36_mul]
  have exo : (X : ℚ) - ((X : ℚ) - rq xOut) = rq xOut := by ring
  rw [exf] at a2 a3
  rw [exo] at a2
  have hYf : 0 < rq (F * Pdiff) := rq_pos.mpr hFD
  have he := eps_pos
  rw [kq_eq_hq_mul]
  generalize rq (F * Pdiff) = Yf at *
  generalize ((X * Y * (X ^ 2 + Y ^ 2 + W) : Int) : ℚ) = K0 at *
  generalize rq run.target = T at *
  constructor
  · have key : K0 / Yf < hq ((X : ℚ) - rq xOut) Yf W + eps * (1 + eps + 1 / 2 * |rq xOut|) := by
      linarith
    rw [div_lt_iff₀ hYf] at key
    linarith
  · intro hd
    have hd' : P36 ∣ X * P36 - (X * P36 - xOut) := by
      have : X * P36 - (X * P36 - xOut) = xOut := by ring
      rw [this]; exact hd
    have a3' := a3 hd'
    have key : K0 / Yf < hq ((X : ℚ) - rq xOut) Yf W + eps * (1 / 2 + eps) := by
      linarith
    rw [div_lt_iff₀ hYf] at key
    linarith

end OsmoVerif.GammMath.SS
