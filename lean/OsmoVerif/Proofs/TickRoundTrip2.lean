/-
Helper lemmas for Props/C14RoundTrip (2/3): the candidate-window lemma.

* `F_spacing`: the closed form `F` of tick → price, per geometric spacing: tick `9·10^6·(e−36) + k` has the raw
  price `(10^6 + k)·10^(e−6)` (both representations of a decade boundary);
* `sq_window`: for a sqrt price `s` with `r·10^18 ≤ s < r'·10^18` the half-even product `s·s` (36 decimals) lies
  in `[r², r'²]`;
* `candidate_window`: if `s` lies in the sqrt-price bucket of tick `T` of the launch range
  (`r`, `r'` the 18-decimal least roots of the prices of `T`, `T+1`), then `s·s` does not overflow and the
  candidate computed by `calculatePriceToTick` is `T` or `T+1` — never further away: the overshoot `r'² − F(T+1)`
  is below `2r'`, which is at most `10^-7/4` of the price, i.e. less than half a tick increment.
Proof file: single Mathlib tactic modules only.
-/
import OsmoVerif.Proofs.TickRoundTrip1

namespace OsmoVerif.Tick
open OsmoVerif.Num OsmoVerif.MathM OsmoVerif.Gen OsmoVerif.Spec

/-! ## `F` per geometric spacing -/

theorem F_spacing_lt {e : Nat} {k : Int} (he1 : 6 ≤ e) (hek : 7 ≤ e ∨ 0 < k) (hk0 : 0 ≤ k) (hk1 : k < 9000000) :
    F (9000000 * ((e : Int) - 36) + k) = (10 ^ 6 + k) * 10 ^ (e - 6) := by
  rcases Nat.lt_or_ge e 36 with hlt | hge
  · rcases Int.lt_or_le 0 k with hpos | hz
    · -- −t = 9·10^6·(35−e) + (9·10^6 − k)
      have ht : 9000000 * ((e : Int) - 36) + k = -(9000000 * ((35 - e : Nat) : Int) + (9000000 - k)) := by omega
      rw [ht, F_neg (35 - e) (9000000 - k) (by omega) (by omega) (by omega)]
      have e1 : 29 - (35 - e) = e - 6 := by omega
      rw [e1]; congr 1; omega
    · have hk : k = 0 := by omega
      subst hk
      have ht : 9000000 * ((e : Int) - 36) + 0 = -(9000000 * ((36 - e : Nat) : Int) + 0) := by omega
      rw [ht, F_neg (36 - e) 0 (by omega) (by omega) (by omega)]
      have e1 : e - 6 = (29 - (36 - e)) + 1 := by omega
      rw [e1, Int.pow_succ]; ring
  · have ht : 9000000 * ((e : Int) - 36) + k = 9000000 * ((e - 36 : Nat) : Int) + k := by omega
    rw [ht, F_nonneg (e - 36) k hk0 hk1]
    have e1 : 30 + (e - 36) = e - 6 := by omega
    rw [e1]

theorem F_spacing {e : Nat} {k : Int} (he1 : 24 ≤ e) (hk0 : 0 ≤ k) (hk1 : k ≤ 9000000) :
    F (9000000 * ((e : Int) - 36) + k) = (10 ^ 6 + k) * 10 ^ (e - 6) := by
  rcases Int.lt_or_eq_of_le hk1 with h | h
  · exact F_spacing_lt (by omega) (Or.inl (by omega)) hk0 h
  · subst h
    have ht : 9000000 * ((e : Int) - 36) + 9000000 = 9000000 * (((e + 1 : Nat) : Int) - 36) + 0 := by
      push_cast; omega
    rw [ht, F_spacing_lt (e := e + 1) (by omega) (Or.inl (by omega)) (by omega) (by omega)]
    have e1 : e + 1 - 6 = (e - 6) + 1 := by omega
    rw [e1, Int.pow_succ]; ring

/-! ## the square of a sqrt price between two scaled roots -/

theorem sq_window {s r r' p0 : Int} (hr : 0 ≤ r) (h0 : r * 10 ^ 18 ≤ s) (h1 : s < r' * 10 ^ 18)
    (hp : IsHalfEven (s * s) (10 ^ 36) p0) : r * r ≤ p0 ∧ p0 ≤ r' * r' := by
  have hs : 0 ≤ s := by omega
  have a : (r * 10 ^ 18) * (r * 10 ^ 18) ≤ s * s := Int.mul_le_mul h0 h0 (by omega) hs
  have a' : (r * 10 ^ 18) * (r * 10 ^ 18) = (r * r) * 10 ^ 36 := by ring
  have b1 : s * s ≤ s * (r' * 10 ^ 18) := Int.mul_le_mul_of_nonneg_left (by omega) hs
  have b2 : s * (r' * 10 ^ 18) < (r' * 10 ^ 18) * (r' * 10 ^ 18) := Int.mul_lt_mul_of_pos_right h1 (by omega)
  have b' : (r' * 10 ^ 18) * (r' * 10 ^ 18) = (r' * r') * 10 ^ 36 := by ring
  obtain ⟨u1, u2, _⟩ := hp
  rw [a'] at a; rw [b'] at b2
  generalize s * s = S at *
  generalize r * r = R at *
  generalize r' * r' = R' at *
  constructor <;> omega

/-- the overshoot of a least root: `r'² ≤ N + 2(r'−1)` and `4·10^7·(r'−1) ≤ N` for `N ≥ 10^24`. -/
theorem root_overshoot {r' N : Int} (hr : 0 < r') (hN : 10 ^ 24 ≤ N) (h : (r' - 1) * (r' - 1) < N) :
    r' * r' ≤ N + 2 * (r' - 1) ∧ 4 * 10 ^ 7 * (r' - 1) ≤ N := by
  obtain ⟨x, rfl⟩ : ∃ x, r' = x + 1 := ⟨r' - 1, by omega⟩
  have hx : 0 ≤ x := by omega
  have e : x + 1 - 1 = x := by omega
  rw [e] at h ⊢
  have e2 : (x + 1) * (x + 1) = x * x + 2 * x + 1 := by ring
  rw [e2]
  refine ⟨by omega, ?_⟩
  rcases Int.lt_or_le x (4 * 10 ^ 7) with hlt | hge
  · omega
  · have : 4 * 10 ^ 7 * x ≤ x * x := Int.mul_le_mul_of_nonneg_right hge hx
    omega

/-! ## the candidate window -/

theorem candidate_window {s T r r' : Int} (hT0 : -108000000 ≤ T) (hT1 : T < 342000000)
    (hr0 : 0 ≤ r) (hs0 : r * 10 ^ 18 ≤ s) (hs1 : s < r' * 10 ^ 18) (hs2 : s ≤ 10 ^ 55)
    (hr : F T ≤ r * r) (hr'0 : 0 < r') (hr' : (r' - 1) * (r' - 1) < F (T + 1)) :
    ∃ p0 c, BigDec.mul s s = some p0 ∧ calculatePriceToTick p0 = some c ∧ (c = T ∨ c = T + 1) := by
  obtain ⟨d1, d2, d3, d4, d5⟩ := consts2
  have hs : 0 ≤ s := by have := Int.mul_nonneg hr0 (by norm_num : (0 : Int) ≤ 10 ^ 18); omega
  -- the product
  have hhe := chopRound_isHalfEven P36 (s * s) P36_pos P36_even
  rw [d2] at hhe
  generalize hp0 : chopRound (10 ^ 36) (s * s) = p0 at hhe
  obtain ⟨w1, w2⟩ := sq_window hr0 hs0 hs1 hhe
  have hFT : 10 ^ 24 ≤ F T := by have := F_mono (t1 := -108000000) (t2 := T) (by omega) hT0; rwa [F_launch] at this
  have hFT1 : 10 ^ 24 ≤ F (T + 1) := by
    have := F_mono (t1 := T) (t2 := T + 1) (by omega) (by omega); omega
  have hp0lo : F T ≤ p0 := by omega
  have hp0hi : p0 ≤ 10 ^ 74 := by
    have : s * s ≤ 10 ^ 55 * 10 ^ 55 := Int.mul_le_mul hs2 hs2 hs (by norm_num)
    obtain ⟨u1, u2, _⟩ := hhe
    generalize s * s = S at *
    omega
  have hmul : BigDec.mul s s = some p0 := by
    unfold BigDec.mul
    rw [d2, hp0]
    exact chk_of_fits (fits_small (by omega) (by omega))
  obtain ⟨o1, o2⟩ := root_overshoot hr'0 hFT1 hr'
  -- the chopped price
  obtain ⟨e, k, ρ, c, hc, he1, he2, hk0, hk1, hρ0, hρ1, hdec, hk9, hcq, hsmall⟩ :=
    priceToTick_core (p0 := p0) (by omega) hp0hi
  refine ⟨p0, c, hmul, hc, ?_⟩
  generalize hp : p0.tdiv (10 ^ 18) * 10 ^ 18 = p at hdec
  have hple : p ≤ p0 := by rw [← hp, Int.tdiv_eq_ediv_of_nonneg (by omega)]; omega
  have hpge : F T ≤ p := by
    obtain ⟨v, hv⟩ := F_mul18 hT0
    rw [← hp, Int.tdiv_eq_ediv_of_nonneg (by omega)]
    rw [hv] at hp0lo ⊢
    omega
  have hFq := F_spacing (e := e) (k := k) he1 hk0 hk1
  generalize hq : 9000000 * ((e : Int) - 36) + k = q at *
  have hinc := pow10_pos (e - 6)
  have hqlo : -270000000 < q := by omega
  -- p < F (q + 1)
  have hnext : p < F (q + 1) := by
    rcases Int.lt_or_eq_of_le hk1 with h | h
    · have := F_spacing (e := e) (k := k + 1) he1 (by omega) (by omega)
      have e1 : 9000000 * ((e : Int) - 36) + (k + 1) = q + 1 := by omega
      rw [e1] at this
      have e2 : (10 ^ 6 + (k + 1)) * 10 ^ (e - 6) = (10 ^ 6 + k) * 10 ^ (e - 6) + 10 ^ (e - 6) := by ring
      rw [this, hdec, e2]; omega
    · have := hk9 h
      have := F_succ_lt q hqlo
      omega
  have hTq : T ≤ q := by
    by_contra hcon
    have := F_mono (t1 := q + 1) (t2 := T) (by omega) (by omega)
    omega
  -- F q ≤ p < F (T + 2)
  obtain ⟨s1, s2⟩ := F_step (T + 1) (by omega)
  have hqT : q ≤ T + 1 := by
    by_contra hcon
    have := F_mono (t1 := T + 1 + 1) (t2 := q) (by omega) (by omega)
    omega
  rcases (by omega : q = T ∨ q = T + 1) with h | h
  · rw [h] at hcq; exact hcq
  · right
    rw [← h]; apply hsmall
    have hFq7 : F q ≤ 10 ^ 7 * 10 ^ (e - 6) := by
      rw [hFq]
      have := Int.mul_le_mul_of_nonneg_right (show 10 ^ 6 + k ≤ 10 ^ 7 by omega) (Int.le_of_lt hinc)
      exact this
    rw [h] at hFq7 hFq
    omega

end OsmoVerif.Tick
