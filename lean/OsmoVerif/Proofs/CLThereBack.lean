/-
C03 helpers, part 9: swapping there and straight back never profits.  Potential argument on the exact principal
`V0`, `V1` of C01 (Proofs/CLSolvV.lean): every executed swap pays at least the growth of the in-token potential into
the pool and takes out at most the fall of the out-token potential (`swap_potential`, the core of C01's `swap_solv`);
the positions are untouched by swaps; `V1` is non-decreasing and `V0` non-increasing in the sqrt price, and wherever
one of them is flat (an empty liquidity gap) so is the other (`V0_le_of_V1_le`, `V1_le_of_V0_le`).
-/
import OsmoVerif.Proofs.CLSolvInv

namespace OsmoVerif.CLSolv
open OsmoVerif.CLPool OsmoVerif.CLBook OsmoVerif.CL OsmoVerif.Num OsmoVerif.Tick OsmoVerif.Gen OsmoVerif.Spec
open OsmoVerif.Props

/-! ## one position: monotone in the price, flat together -/

theorem clamp_mono {P P' a b : ℚ} (h : P ≤ P') : clampQ P a b ≤ clampQ P' a b := by
  unfold clampQ
  exact min_le_min (max_le_max h (le_refl _)) (le_refl _)

theorem x1_mono {L a b P P' : ℚ} (hl : 0 ≤ L) (h : P ≤ P') : x1 L a b P ≤ x1 L a b P' := by
  unfold x1
  exact mul_le_mul_of_nonneg_left (by linarith [clamp_mono (a := a) (b := b) h]) hl

theorem x0_anti {L a b P P' : ℚ} (hl : 0 ≤ L) (ha : 0 < a) (hab : a ≤ b) (h : P ≤ P') :
    x0 L a b P' ≤ x0 L a b P := by
  unfold x0
  have hc := clamp_mono (a := a) (b := b) h
  have h0 : 0 < clampQ P a b := lt_of_lt_of_le ha (clamp_bounds hab).1
  have : 1 / clampQ P' a b ≤ 1 / clampQ P a b := one_div_le_one_div_of_le h0 hc
  exact mul_le_mul_of_nonneg_left (by linarith) hl

theorem x0_eq_of_x1_eq {L a b P P' : ℚ} (hl : 0 < L) (h : x1 L a b P' = x1 L a b P) :
    x0 L a b P' = x0 L a b P := by
  unfold x1 at h; unfold x0
  have : clampQ P' a b - a = clampQ P a b - a := mul_left_cancel₀ (ne_of_gt hl) h
  have e : clampQ P' a b = clampQ P a b := by linarith
  rw [e]

theorem x1_eq_of_x0_eq {L a b P P' : ℚ} (hl : 0 < L) (ha : 0 < a) (hab : a ≤ b) (h : x0 L a b P' = x0 L a b P) :
    x1 L a b P' = x1 L a b P := by
  unfold x0 at h; unfold x1
  have h1 : 1 / clampQ P' a b - 1 / b = 1 / clampQ P a b - 1 / b := mul_left_cancel₀ (ne_of_gt hl) h
  have h2 : 1 / clampQ P' a b = 1 / clampQ P a b := by linarith
  have c0 : 0 < clampQ P a b := lt_of_lt_of_le ha (clamp_bounds hab).1
  have c0' : 0 < clampQ P' a b := lt_of_lt_of_le ha (clamp_bounds hab).1
  have e : clampQ P' a b = clampQ P a b := by
    rw [one_div, one_div] at h2
    exact inv_injective h2
  rw [e]

/-! ## sums -/

theorem sumQ_eq_of_le_of_ge {f g : Position → ℚ} {ps : List Position} (h : ∀ q ∈ ps, f q ≤ g q)
    (hs : sumQ g ps ≤ sumQ f ps) : ∀ q ∈ ps, f q = g q := by
  induction ps with
  | nil => intro q hq; cases hq
  | cons a as ih =>
    simp only [sumQ_cons] at hs
    have h0 := h a List.mem_cons_self
    have hle : sumQ f as ≤ sumQ g as := sumQ_le (fun q hq => h q (List.mem_cons_of_mem _ hq))
    intro q hq
    rcases List.mem_cons.mp hq with rfl | hq
    · linarith
    · exact ih (fun q hq => h q (List.mem_cons_of_mem _ hq)) (by linarith) q hq

/-- positions as the C07 invariant keeps them: positive liquidity, boundary sqrt prices `0 < sL ≤ sU`. -/
def PosWF (ps : List Position) : Prop :=
  ∀ q ∈ ps, 0 < q.liq ∧ 0 < sqrtAt q.lower ∧ sqrtAt q.lower ≤ sqrtAt q.upper

theorem posWF_of_core {p : Pool} (hc : InvCore p) : PosWF p.positions := by
  intro q hq
  obtain ⟨sL, sU, hL, hU, h0, hLU, _, _, hl⟩ := pos_prices hc hq
  rw [sqrtAt_of hL, sqrtAt_of hU]
  exact ⟨hl, h0, hLU⟩

theorem rl_pos {x : Int} (h : 0 < x) : 0 < rl x := by
  unfold rl; have : (0 : ℚ) < x := by exact_mod_cast h
  positivity

theorem posX1_mono {q : Position} {P P' : Int} (hl : 0 < q.liq) (h : P ≤ P') : posX1 q P ≤ posX1 q P' :=
  x1_mono (le_of_lt (rl_pos hl)) (rp_le h)

theorem posX0_anti {q : Position} {P P' : Int} (hl : 0 < q.liq) (ha : 0 < sqrtAt q.lower)
    (hab : sqrtAt q.lower ≤ sqrtAt q.upper) (h : P ≤ P') : posX0 q P' ≤ posX0 q P :=
  x0_anti (le_of_lt (rl_pos hl)) (rp_pos ha) (rp_le hab) (rp_le h)

theorem V1_mono {ps : List Position} (hw : PosWF ps) {P P' : Int} (h : P ≤ P') : V1 ps P ≤ V1 ps P' :=
  sumQ_le (fun q hq => posX1_mono (hw q hq).1 h)

theorem V0_anti {ps : List Position} (hw : PosWF ps) {P P' : Int} (h : P ≤ P') : V0 ps P' ≤ V0 ps P :=
  sumQ_le (fun q hq => posX0_anti (hw q hq).1 (hw q hq).2.1 (hw q hq).2.2 h)

/-- if the token1 potential at `P2` does not exceed the one at `P0`, the token0 potential at `P2` is at least
the one at `P0` (either `P2 ≤ P0`, or the whole interval between them is an empty liquidity gap). -/
theorem V0_le_of_V1_le {ps : List Position} (hw : PosWF ps) {P0 P2 : Int} (h : V1 ps P2 ≤ V1 ps P0) :
    V0 ps P0 ≤ V0 ps P2 := by
  rcases Int.le_total P2 P0 with hle | hle
  · exact V0_anti hw hle
  · have heq := sumQ_eq_of_le_of_ge (f := fun q => posX1 q P0) (g := fun q => posX1 q P2)
      (fun q hq => posX1_mono (hw q hq).1 hle) h
    apply le_of_eq
    apply sumQ_congr
    intro q hq
    exact (x0_eq_of_x1_eq (rl_pos (hw q hq).1) (heq q hq).symm).symm

/-- the mirror image. -/
theorem V1_le_of_V0_le {ps : List Position} (hw : PosWF ps) {P0 P2 : Int} (h : V0 ps P2 ≤ V0 ps P0) :
    V1 ps P0 ≤ V1 ps P2 := by
  rcases Int.le_total P0 P2 with hle | hle
  · exact V1_mono hw hle
  · have heq := sumQ_eq_of_le_of_ge (f := fun q => posX0 q P0) (g := fun q => posX0 q P2)
      (fun q hq => posX0_anti (hw q hq).1 (hw q hq).2.1 (hw q hq).2.2 hle) h
    apply le_of_eq
    apply sumQ_congr
    intro q hq
    exact (x1_eq_of_x0_eq (rl_pos (hw q hq).1) (rp_pos (hw q hq).2.1) (rp_le (hw q hq).2.2) (heq q hq).symm).symm

/-! ## an executed swap against the potentials (the core of `swap_solv`, without the balances) -/

theorem swap_potential {p p' : Pool} {og zfo : Bool} {spec ain aout fee : Int} (hc : InvCore p) (hp : InvPrice p)
    (ha : InvActive p) (hspf : SpfOK p.spf)
    (h : CLPool.swap p og zfo spec = some (p', ain, aout, fee)) :
    Vin zfo p.positions p'.sqrtPrice - Vin zfo p.positions p.sqrtPrice ≤ (ain : ℚ) - fee ∧
    (aout : ℚ) ≤ Vout zfo p.positions p.sqrtPrice - Vout zfo p.positions p'.sqrtPrice ∧
    0 ≤ fee ∧ p'.positions = p.positions := by
  obtain ⟨r, hne, hex, e_ain, e_aout, _, _, eP, _, _, ePos, hbal⟩ := swap_bal h
  have hcs := execSwap_spec hex
  obtain ⟨limit, st', steps, crossed, hlim, hloop, erp, ersp, _, hfin⟩ := computeSwap_loop hcs
  have hfee := execSwap_fee hex
  obtain ⟨⟨K, _, hK⟩, hC0, hO0, hVin, hVout⟩ :=
    swapLoop_solv (ps := p.positions) (ticksOK_of_core hc) hspf hlim _ _ _ _ _ _ _ _ hloop (hp.2 hne).1 (hp.2 hne).2 ⟨ha, rfl⟩
  obtain ⟨tC, tI, tO⟩ := totals_init og (spec * P18) ⟨p.sqrtPrice, p.tick, p.liquidity⟩ st'
  rw [tC] at hC0
  rw [ersp] at hfee
  have hfee0 : 0 ≤ fee := ceil_nonneg P18_pos hC0 hfee
  have hset : ain - fee = K ∧ aout * P18 ≤ outTot og ⟨spec * P18, 0, ⟨p.sqrtPrice, p.tick, p.liquidity⟩, 0, 0⟩ st' := by
    rw [tI] at hK
    rw [tO] at hO0 ⊢
    rw [e_ain, e_aout]
    cases og
    · simp only [Bool.false_eq_true, ↓reduceIte] at hfin hK hO0 ⊢
      exact settle hK hfee hfin.1 hO0 hfin.2
    · simp only [↓reduceIte] at hfin hK hO0 ⊢
      exact settle hK hfee hfin.1 hO0 hfin.2
  obtain ⟨hin, hout⟩ := hset
  have hinQ : (inTot og ⟨spec * P18, 0, ⟨p.sqrtPrice, p.tick, p.liquidity⟩, 0, 0⟩ st' : ℚ) / 10 ^ 18 = (ain : ℚ) - fee := by
    rw [hK, tokens_cast, ← hin]; push_cast; ring
  have houtQ : (aout : ℚ) ≤ (outTot og ⟨spec * P18, 0, ⟨p.sqrtPrice, p.tick, p.liquidity⟩, 0, 0⟩ st' : ℚ) / 10 ^ 18 := by
    rw [le_div_iff₀ (by positivity)]
    have : ((aout * P18 : Int) : ℚ) ≤ _ := Int.cast_le.mpr hout
    rw [Int.cast_mul, P18_cast] at this
    exact this
  rw [hinQ] at hVin
  have hV2 := le_trans houtQ hVout
  have ePq : p'.sqrtPrice = st'.pool.sqrtPrice := by rw [eP, erp]
  simp only at hVin hV2
  rw [ePq]
  exact ⟨hVin, hV2, hfee0, ePos⟩

/-! ## there and straight back -/

/-- `A → B` then, with no operation in between, `B → A` (any kinds): if the second swap pays the pool (fee
excluded) no more of `B` than the first one gave, it returns no more of `A` than the first one paid into the pool;
and if it returns at least what the first one paid into the pool, it pays at least what the first one gave. -/
theorem there_and_back {p p1 p2 : Pool} {og1 og2 zfo : Bool} {x y a b fee1 b' a' fee2 : Int}
    (hinv : Inv p) (hspf : SpfOK p.spf)
    (h1 : CLPool.swap p og1 zfo x = some (p1, a, b, fee1))
    (h2 : CLPool.swap p1 og2 (!zfo) y = some (p2, b', a', fee2)) :
    (b' - fee2 ≤ b → a' ≤ a - fee1) ∧ (a - fee1 ≤ a' → b ≤ b' - fee2) ∧ 0 ≤ fee1 ∧ 0 ≤ fee2 := by
  have hinv1 : Inv p1 := by
    have := hinv.step (.swap og1 zfo x) hspf
    have e : step p (.swap og1 zfo x) = p1 := by simp [step, CLBook.apply, h1]
    rwa [e] at this
  have hspf1 : SpfOK p1.spf := by
    obtain ⟨_, _, _, _, _, _, _, _, _, _, _, es⟩ := swap_some h1
    rw [es]; exact hspf
  obtain ⟨i1, o1, f1, ep1⟩ := swap_potential hinv.core hinv.price hinv.active hspf h1
  obtain ⟨i2, o2, f2, _⟩ := swap_potential hinv1.core hinv1.price hinv1.active hspf1 h2
  rw [ep1] at i2 o2
  have hw := posWF_of_core hinv.core
  refine ⟨?_, ?_, f1, f2⟩
  · intro hb
    have hbq : (b' : ℚ) - fee2 ≤ b := by exact_mod_cast hb
    have goal : (a' : ℚ) ≤ (a : ℚ) - fee1 := by
      cases zfo
      · simp only [Vin, Vout, Bool.not_false, Bool.false_eq_true, ↓reduceIte] at i1 o1 i2 o2
        have k : V0 p.positions p2.sqrtPrice ≤ V0 p.positions p.sqrtPrice := by linarith
        have := V1_le_of_V0_le hw k
        linarith
      · simp only [Vin, Vout, Bool.not_true, Bool.false_eq_true, ↓reduceIte] at i1 o1 i2 o2
        have k : V1 p.positions p2.sqrtPrice ≤ V1 p.positions p.sqrtPrice := by linarith
        have := V0_le_of_V1_le hw k
        linarith
    exact_mod_cast goal
  · intro hb
    have hbq : (a : ℚ) - fee1 ≤ a' := by exact_mod_cast hb
    have goal : (b : ℚ) ≤ (b' : ℚ) - fee2 := by
      cases zfo
      · simp only [Vin, Vout, Bool.not_false, Bool.false_eq_true, ↓reduceIte] at i1 o1 i2 o2
        have k : V1 p.positions p2.sqrtPrice ≤ V1 p.positions p.sqrtPrice := by linarith
        have := V0_le_of_V1_le hw k
        linarith
      · simp only [Vin, Vout, Bool.not_true, Bool.false_eq_true, ↓reduceIte] at i1 o1 i2 o2
        have k : V0 p.positions p2.sqrtPrice ≤ V0 p.positions p.sqrtPrice := by linarith
        have := V1_le_of_V0_le hw k
        linarith
    exact_mod_cast goal

end OsmoVerif.CLSolv
