/-
C04 (stableswap invariant), part 3: what a successful `solveCFMMBinarySearchMulti` guarantees about the EXACT
kernel.  From `stableswap_solver_post` (`target ≤ iterK xEst` on the rounded values) and the rounding bounds of
`GammSSRound`:

  `kq X Y W − solverErr X Y Yf Xo ≤ kq (X − Xo) Yf W`

with `X = rq x`, … the real values of the raw operands, `Yf = Y + yIn`, `Xo` the returned amount and
`solverErr X Y Yf Xo = eps·(X·Y + Y/2 + 1/2 + Yf·(3/2 + eps + X + 3/2·|Xo|))`, `eps = 10^-36`.
-/
import OsmoVerif.Proofs.GammSSRound
import OsmoVerif.Props.C04

set_option linter.unusedSimpArgs false

namespace OsmoVerif.GammMath.SS
open OsmoVerif.Num OsmoVerif.MathM OsmoVerif.Gen OsmoVerif.Spec

/-- the explicit error of the solver's acceptance test, in real units of the kernel `k`. -/
def solverErr (X Y Yf Xo : ℚ) : ℚ :=
  eps * (X * Y + Y / 2 + 1 / 2 + Yf * (3 / 2 + eps + X + 3 / 2 * |Xo|))

theorem solverErr_nonneg {X Y Yf Xo : ℚ} (hX : 0 ≤ X) (hY : 0 ≤ Y) (hYf : 0 ≤ Yf) : 0 ≤ solverErr X Y Yf Xo := by
  unfold solverErr
  have := eps_pos
  have := abs_nonneg Xo
  positivity

/-- what `solverSetup` ran on. -/
theorem solverSetup_spec {x y w yIn : Int} {run : SolverRun} (h : solverSetup x y w yIn = some run) :
    0 < x ∧ 0 < y ∧ 0 ≤ w ∧ (yIn.natAbs : Int) < y ∧
      targetK x y w (y + yIn) = some run.target ∧ iterK x w (y + yIn) = some run.f := by
  unfold solverSetup at h
  split at h
  · cases h
  · rename_i hg
    split at h
    · cases h
    · rename_i hlt
      cases h1 : BigDec.add y yIn with
      | none => simp [h1] at h
      | some yf =>
        cases h2 : deriveBounds x y w yf with
        | none => simp [h1, h2] at h
        | some b =>
          obtain ⟨lo, hi⟩ := b
          cases h3 : targetK x y w yf with
          | none => simp [h1, h2, h3] at h
          | some t =>
            cases h4 : iterK x w yf with
            | none => simp [h1, h2, h3, h4] at h
            | some f =>
              simp only [h1, h2, h3, h4, Option.bind_eq_bind, Option.bind_some, bind, pure] at h
              injection h with h; subst h
              have := BigDec_add_spec h1
              subst this
              exact ⟨by omega, by omega, by omega, by omega, h3, h4⟩

/-- PARTIAL (the full statement `kq X Y W ≤ kq (X − Xo) Yf W` is FALSE of the code, see
`Props.C04Stable.stableswap_invariant_decrease_witness`): a successful solve keeps the exact kernel up to the
explicit rounding error `solverErr`.  The post-swap point is inside the positive orthant. -/
theorem solver_post_exact_partial {x y w yIn xOut : Int} (h : solveCfmmMulti x y w yIn = some xOut) :
    0 < x - xOut ∧ 0 < y + yIn ∧ 0 < x ∧ 0 < y ∧ 0 ≤ w ∧
    kq (rq x) (rq y) (rq w) - solverErr (rq x) (rq y) (rq (y + yIn)) (rq xOut)
      ≤ kq (rq (x - xOut)) (rq (y + yIn)) (rq w) := by
  obtain ⟨run, hs, -, -, hlt, out, hf, -, hle, -⟩ := Props.C04.stableswap_solver_post h
  obtain ⟨hx, hy, hw, hyin, ht, hi⟩ := solverSetup_spec hs
  have hyf : 0 < y + yIn := by omega
  refine ⟨by omega, hyf, hx, hy, hw, ?_⟩
  have a1 := (abs_le.mp (targetK_rq ht hyf)).1
  have a2 := (abs_le.mp (iterK_rq hi hf)).2
  have hle' : rq run.target ≤ rq out := rq_le_rq.mpr hle
  have exo : rq x - rq (x - xOut) = rq xOut := by rw [rq_sub]; ring
  rw [exo] at a2
  have hYf : 0 < rq (y + yIn) := rq_pos.mpr hyf
  rw [kq_eq_hq_mul (rq (x - xOut))]
  unfold solverErr
  generalize rq (x - xOut) = Xf at *
  generalize rq (y + yIn) = F at *
  generalize rq x = X at *
  generalize rq y = Y at *
  generalize rq w = W at *
  generalize rq xOut = O at *
  generalize rq run.target = T at *
  generalize rq out = OUT at *
  have he := eps_pos
  generalize eps = e at *
  -- kq/F ≤ h(Xf) + e·(A/F + 3/2 + e + X + 3/2·|O|)
  have key : kq X Y W / F ≤ hq Xf F W + e * ((X * Y + Y / 2 + 1 / 2) / F + 3 / 2 + e + X + 3 / 2 * |O|) := by
    linarith
  rw [div_le_iff₀ hYf] at key
  have e2 : (hq Xf F W + e * ((X * Y + Y / 2 + 1 / 2) / F + 3 / 2 + e + X + 3 / 2 * |O|)) * F
      = hq Xf F W * F + e * (X * Y + Y / 2 + 1 / 2 + F * (3 / 2 + e + X + 3 / 2 * |O|)) := by
    field_simp
    ring
  rw [e2] at key
  linarith

example : ∃ xOut, solveCfmmMulti (1000000 * P36) (1000000 * P36) 0 (1000 * P36) = some xOut ∧ 0 < xOut :=
  ⟨999999999499401326374936616048216819764, by decide +kernel, by decide⟩

end OsmoVerif.GammMath.SS
