/-
When does the ghost flag `clean` survive?  Explicit statements of the pool-math CONTRACT the keeper relies on.
Core only.
-/
import OsmoVerif.Proofs.GammSteps
namespace OsmoVerif.Gamm
open OsmoVerif.Ledger OsmoVerif.Ledger.Bank

/-- swap record update: the delta of the record equals the amounts iff, on a balancer pool, neither reserve
becomes exactly zero (`sdk.NewCoins` drops a zero coin; `UpdatePoolAssetBalances` then never writes it). -/
theorem recSwap_ok_iff {p p' : Pool} {din dout : Denom} {a b : Int} {ok : Bool}
    (h : recSwap p din a dout b = some (p', ok)) :
    ok = true ↔ (p.kind = .balancer → p.res din + a ≠ 0 ∧ p.res dout - b ≠ 0) := by
  unfold recSwap at h
  split at h
  · cases h
  · simp only at h
    split at h
    · rename_i hk
      split at h
      · cases h
      · injection h with h; injection h with _ h2; subst h2
        simp only [Bool.and_eq_true, Bool.not_eq_eq_eq_not, Bool.not_true, decide_eq_false_iff_not]
        exact ⟨fun hh _ => hh, fun hh => hh hk⟩
    · rename_i hk
      split at h
      · cases h
      · injection h with h; injection h with _ h2; subst h2
        exact ⟨fun _ hb => by (rw [hk] at hb; cases hb), fun _ => rfl⟩

theorem sumOf_eq_zero_of_not_mem : ∀ (cs : Coins) (d : Denom), (cs.any fun c => c.1 = d) = false → sumOf cs d = 0
  | [], _, _ => rfl
  | c :: cs, d, h => by
    simp only [List.any_cons, Bool.or_eq_false_iff, decide_eq_false_iff_not] at h
    simp only [sumOf]
    rw [if_neg h.1, sumOf_eq_zero_of_not_mem cs d h.2]; omega

/-- exit record update: with pairwise distinct denoms and no exit amount equal to the whole reserve the record
delta equals the exit coins. -/
theorem recSubCoins_ok_of : ∀ (cs : Coins) {p p' : Pool} {ok : Bool}, recSubCoins p cs = some (p', ok) →
    denomsNodup cs = true → (∀ c, c ∈ cs → c.2 ≠ p.res c.1) → ok = true
  | [], p, p', ok, h, _, _ => by
    simp only [recSubCoins] at h; injection h with h; injection h with _ h2; exact h2.symm
  | (d0, a) :: cs, p, p', ok, h, hnd, hne => by
    simp only [denomsNodup, Bool.and_eq_true, Bool.not_eq_eq_eq_not, Bool.not_true] at hnd
    have hd0 := hne (d0, a) (List.mem_cons_self)
    simp only at hd0
    have hrest : ∀ (v : Int) c, c ∈ cs → c.2 ≠ (p.setRes d0 v).res c.1 := by
      intro v c hc
      rw [Pool.res_setRes]
      have : d0 ≠ c.1 := by
        intro heq
        have h1 := hnd.1
        rw [List.any_eq_false] at h1
        have h2 := h1 c hc
        simp only [decide_eq_true_eq] at h2
        exact h2 heq.symm
      rw [if_neg this]
      exact hne c (List.mem_cons_of_mem _ hc)
    simp only [recSubCoins] at h
    split at h
    · cases h
    · split at h
      · split at h
        · cases h
        · split at h
          · rename_i hz; omega
          · exact recSubCoins_ok_of cs h hnd.2 (hrest _)
      · split at h
        · cases h
        · exact recSubCoins_ok_of cs h hnd.2 (hrest _)

/-- a swap inside x/gamm keeps the history inside the contract iff its record update does. -/
theorem gammSwapIn_clean {s s' : State} {u id : Nat} {din dout : Denom} {a minOut out : Int} {math : Option Int} {p : Pool}
    (h : gammSwapIn s u id din a dout minOut math = some (s', out)) (hp : getPool s.pools id = some p) :
    s'.clean = (s.clean && decide (p.kind = .balancer → p.res din + a ≠ 0 ∧ p.res dout - out ≠ 0)) := by
  unfold gammSwapIn at h
  simp only [Option.bind_eq_bind, Option.bind_eq_some_iff, require_eq_some, decide_eq_true_eq] at h
  obtain ⟨p0, hp0, _, hne, o, _, ⟨p', ok⟩, hrec, _, _, _, _, s1, happ, h⟩ := h
  injection h with h; injection h with h1 h2; subst h1; subst h2
  rw [hp] at hp0; injection hp0 with hp0; subst hp0
  unfold applySwap at happ
  simp only [Option.bind_eq_bind, Option.bind_eq_some_iff] at happ
  obtain ⟨b1, _, b2, _, happ⟩ := happ
  injection happ with happ; subst happ
  show (s.clean && ok) = _
  have := recSwap_ok_iff hrec
  cases ok <;> simp_all

/-- `MsgExitPool` stays inside the contract when the exit coins have distinct denoms and none equals the reserve. -/
theorem exitPool_clean {s s' : State} {u id : Nat} {shareIn : Int} {mins cs : Coins} {math : Option Coins} {p : Pool}
    (h : exitPool s u id shareIn mins math = some (s', cs)) (hp : getPool s.pools id = some p)
    (hnd : denomsNodup cs = true) (hne : ∀ c, c ∈ cs → c.2 ≠ p.res c.1) : s'.clean = s.clean := by
  unfold exitPool at h
  simp only [Option.bind_eq_bind, Option.bind_eq_some_iff, require_eq_some] at h
  obtain ⟨p0, hp0, _, _, _, _, ec, _, ⟨p', ok⟩, hrec, _, _, s1, happ, h⟩ := h
  injection h with h; injection h with h1 h2; subst h1; subst h2
  rw [hp] at hp0; injection hp0 with hp0; subst hp0
  unfold applyExit at happ
  simp only [Option.bind_eq_bind, Option.bind_eq_some_iff] at happ
  obtain ⟨b1, _, b2, _, happ⟩ := happ
  injection happ with happ; subst happ
  show (s.clean && ok) = _
  unfold recExit at hrec
  cases h1 : recSubCoins p ec with
  | none => rw [h1] at hrec; cases hrec
  | some r =>
    rw [h1] at hrec
    simp only [Option.map_some] at hrec
    injection hrec with hrec; injection hrec with _ h3
    have : r.2 = true := recSubCoins_ok_of ec (p := p) (p' := r.1) (ok := r.2) (by rw [h1]) hnd hne
    rw [← h3, this, Bool.and_true]

/-- `MsgJoinPool` stays inside the contract iff the pool model joined exactly the coins the keeper transfers. -/
theorem joinPool_clean {s s' : State} {u id : Nat} {shareOut sh : Int} {maxs joined : Coins} {p : Pool}
    (h : joinPool s u id shareOut maxs (some (sh, joined)) = some s') (hp : getPool s.pools id = some p) :
    s'.clean = (s.clean && decide (some joined = getMaximalNoSwapLPAmount p shareOut)) := by
  unfold joinPool at h
  simp only [Option.bind_eq_bind, Option.bind_eq_some_iff, require_eq_some] at h
  obtain ⟨p0, hp0, needed, hn, _, _, ⟨sh', joined'⟩, hm, p', hrec, happ⟩ := h
  rw [hp] at hp0; injection hp0 with hp0; subst hp0
  injection hm with hm; injection hm with hm1 hm2; subst hm1; subst hm2
  unfold applyJoin at happ
  simp only [Option.bind_eq_bind, Option.bind_eq_some_iff] at happ
  obtain ⟨b1, _, b2, _, happ⟩ := happ
  injection happ with happ; subst happ
  show (s.clean && decide (joined = needed)) = _
  rw [hn]
  simp only [Option.some.injEq]

/-- once a history has left the contract it never re-enters: a clean end state means every prefix was clean. -/
theorem applyOp_clean (s : State) (o : Op) (h : (applyOp s o).clean = true) : s.clean = true := by
  cases o with
  | msg m =>
    simp only [applyOp, apply] at h
    cases hs : step s m with
    | none => rw [hs] at h; exact h
    | some s' => rw [hs] at h; exact (step_facts hs).clean h
  | fund u n a =>
    simp only [applyOp] at h
    unfold fund at h
    cases hb : s.bank.mint (.user u) (.tok n) a with
    | none => rw [hb] at h; exact h
    | some b => rw [hb] at h; exact h
  | setParams p => exact h

/-- coins the harness minted for token `name` in a history. -/
def funded (name : String) : List Op → Int
  | [] => 0
  | .fund _ n a :: os => (if n = name ∧ 0 ≤ a then a else 0) + funded name os
  | _ :: os => funded name os

theorem supply_applyOp (s : State) (o : Op) (name : String) :
    (applyOp s o).supply (.tok name) = s.supply (.tok name) + funded name [o] := by
  cases o with
  | msg m =>
    simp only [applyOp, apply, funded]
    cases h : step s m with
    | none => simp only; omega
    | some s' => simp only [(step_facts h).tok name]; omega
  | fund u n a =>
    simp only [applyOp, funded, fund]
    cases hb : s.bank.mint (.user u) (.tok n) a with
    | none =>
      simp only [Option.map_none]
      unfold Bank.mint at hb
      split at hb
      · rename_i hneg; rw [if_neg (by omega)]; omega
      · split at hb <;> cases hb
    | some b =>
      simp only [Option.map_some]
      show b.supply _ = _
      rw [Bank.mint_supply hb]
      have := Bank.mint_nonneg hb
      simp only [State.supply, Denom.tok.injEq]
      split <;> split <;> simp_all <;> omega
  | setParams p => simp only [applyOp, funded]; show s.supply _ = _; omega


end OsmoVerif.Gamm
