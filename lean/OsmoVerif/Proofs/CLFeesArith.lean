/-
C08 helpers, part 2: arithmetic of the growth-outside bookkeeping.
* what the `Option`-valued `V2`/growth functions of `Model/CLFees.lean` return when they succeed;
* `insideI` — growth inside `[l, u)` as an integer expression of (current tick, accumulator value, the two ticks'
  growth-outside values) — and its three laws: accumulator growth adds to it exactly when the current tick is in
  range (`insideI_grow`), flipping a boundary tick that is crossed leaves it unchanged (`belowI_flip`/`aboveI_flip`),
  moving the current tick without changing a boundary's side leaves it unchanged (`belowI_keep`/`aboveI_keep`);
* the fold over a swap's step trace (`foldTrace_inside`): growth inside a range whose boundaries are stored ticks
  increases by exactly the growth of the steps that ran while the current tick was in the range.
Core only.
-/
import OsmoVerif.Model.CLFees
import OsmoVerif.Proofs.CLFeesTrace

namespace OsmoVerif.CLFeesP
open OsmoVerif.CLPool OsmoVerif.CL OsmoVerif.CLBook OsmoVerif.Num OsmoVerif.CLFees OsmoVerif.CLRewards

/-! ## V2 -/

/-- component selector: `true` = token0. -/
def get (s : Bool) (v : V2) : Int := if s then v.a else v.b

theorem V2.ext' {x y : V2} (ha : x.a = y.a) (hb : x.b = y.b) : x = y := by
  cases x; cases y; simp only at ha hb; subst ha; subst hb; rfl

theorem get_ext {x y : V2} (h : ∀ s, get s x = get s y) : x = y :=
  V2.ext' (h true) (h false)

theorem Dec.sub_some {a b c : Int} (h : Dec.sub a b = some c) : c = a - b := by
  unfold Dec.sub chkDec at h
  split at h
  · injection h with h; exact h.symm
  · cases h

theorem V2.add_some {x y z : V2} (h : V2.add x y = some z) : ∀ s, get s z = get s x + get s y := by
  unfold V2.add at h
  simp only [Option.bind_eq_some_iff, Option.map_eq_some_iff] at h
  obtain ⟨a, ha, b, hb, e⟩ := h
  subst e
  intro s; cases s
  · exact Dec.add_some hb
  · exact Dec.add_some ha

theorem V2.safeSub_some {x y z : V2} (h : V2.safeSub x y = some z) : ∀ s, get s z = get s x - get s y := by
  intro s
  have := V2.add_some h s
  rw [this]
  cases s <;> simp only [get, V2.neg, Bool.false_eq_true, ↓reduceIte] <;> omega

theorem V2.sub_some {x y z : V2} (h : V2.sub x y = some z) : (∀ s, get s z = get s x - get s y) ∧ ∀ s, 0 ≤ get s z := by
  unfold V2.sub at h
  simp only [Option.bind_eq_some_iff] at h
  obtain ⟨r, hr, h⟩ := h
  split at h
  · cases h
  · rename_i hn
    injection h with h; subst h
    refine ⟨V2.safeSub_some hr, fun s => ?_⟩
    simp only [V2.anyNeg, Bool.or_eq_true, decide_eq_true_eq, not_or, Int.not_lt] at hn
    cases s
    · exact hn.2
    · exact hn.1

theorem get_zero (s : Bool) : get s V2.zero = 0 := by cases s <;> rfl

theorem get_ofIn (s zfo : Bool) (x : Int) : get s (V2.ofIn zfo x) = if s = zfo then x else 0 := by
  cases s <;> cases zfo <;> rfl

/-! ## growth inside as an integer expression -/

/-- growth below `l`: the stored value when `l` is at or below the current tick, else accumulator − stored. -/
def belowI (cur l G o : Int) : Int := if l ≤ cur then o else G - o
/-- growth above `u`. -/
def aboveI (cur u G o : Int) : Int := if u ≤ cur then G - o else o
def insideI (cur G ol ou l u : Int) : Int := G - belowI cur l G ol - aboveI cur u G ou

/-- accumulator growth is credited to the range exactly when the current tick is inside it. -/
theorem insideI_grow {cur G g ol ou l u : Int} (hlu : l < u) :
    insideI cur (G + g) ol ou l u = insideI cur G ol ou l u + (if l ≤ cur ∧ cur < u then g else 0) := by
  unfold insideI belowI aboveI
  split <;> split <;> split <;> omega

theorem belowI_keep {cur cur' l G o : Int} (h : l ≤ cur ↔ l ≤ cur') : belowI cur' l G o = belowI cur l G o := by
  unfold belowI; split <;> split <;> omega

theorem belowI_flip {cur cur' l G o : Int} (h : l ≤ cur ↔ ¬ l ≤ cur') : belowI cur' l G (G - o) = belowI cur l G o := by
  unfold belowI; split <;> split <;> omega

theorem aboveI_keep {cur cur' u G o : Int} (h : u ≤ cur ↔ u ≤ cur') : aboveI cur' u G o = aboveI cur u G o := by
  unfold aboveI; split <;> split <;> omega

theorem aboveI_flip {cur cur' u G o : Int} (h : u ≤ cur ↔ ¬ u ≤ cur') : aboveI cur' u G (G - o) = aboveI cur u G o := by
  unfold aboveI; split <;> split <;> omega

/-- a range the current tick is not in: its growth inside does not depend on the accumulator value. -/
theorem insideI_out_of_range {cur G G' ol ou l u : Int} (hlu : l < u) (h : ¬ (l ≤ cur ∧ cur < u)) :
    insideI cur G' ol ou l u = insideI cur G ol ou l u := by
  unfold insideI belowI aboveI
  split <;> split <;> omega

/-! ## what the model's growth functions return -/

theorem growthAbove_some {cur upper : Int} {G o v : V2} (h : growthAbove cur G o upper = some v) :
    ∀ s, get s v = aboveI cur upper (get s G) (get s o) := by
  intro s
  unfold growthAbove at h
  unfold aboveI
  by_cases hc : cur ≥ upper
  · rw [if_pos hc] at h; rw [if_pos (by omega), (V2.sub_some h).1 s]
  · rw [if_neg hc] at h; injection h with h; subst h; rw [if_neg (by omega)]

theorem growthBelow_some {cur lower : Int} {G o v : V2} (h : growthBelow cur G o lower = some v) :
    ∀ s, get s v = belowI cur lower (get s G) (get s o) := by
  intro s
  unfold growthBelow at h
  unfold belowI
  by_cases hc : cur < lower
  · rw [if_pos hc] at h; rw [if_neg (by omega), (V2.sub_some h).1 s]
  · rw [if_neg hc] at h; injection h with h; subst h; rw [if_pos (by omega)]

/-- growth inside `[l, u)` of a state, as a total function (no overflow/negativity checks). -/
def insideZ (cur : Int) (G : V2) (outs : List (Int × V2)) (l u : Int) : V2 :=
  ⟨insideI cur G.a (tickOut cur G outs l).a (tickOut cur G outs u).a l u,
   insideI cur G.b (tickOut cur G outs l).b (tickOut cur G outs u).b l u⟩

theorem get_insideZ (s : Bool) (cur : Int) (G : V2) (outs : List (Int × V2)) (l u : Int) :
    get s (insideZ cur G outs l u) =
      insideI cur (get s G) (get s (tickOut cur G outs l)) (get s (tickOut cur G outs u)) l u := by
  cases s <;> rfl

theorem growthOutside_some {cur l u : Int} {G o : V2} {outs : List (Int × V2)} (h : growthOutside cur G outs l u = some o) :
    ∀ s, get s o = aboveI cur u (get s G) (get s (tickOut cur G outs u)) + belowI cur l (get s G) (get s (tickOut cur G outs l)) := by
  intro s
  unfold growthOutside at h
  simp only [Option.bind_eq_some_iff] at h
  obtain ⟨ab, hab, be, hbe, h⟩ := h
  rw [V2.add_some h s, growthAbove_some hab s, growthBelow_some hbe s]

/-- `G − growthOutside` is `insideZ`. -/
theorem inside_of_outside {cur l u : Int} {G o v : V2} {outs : List (Int × V2)} (ho : growthOutside cur G outs l u = some o)
    (hv : V2.safeSub G o = some v) : v = insideZ cur G outs l u := by
  apply get_ext; intro s
  rw [V2.safeSub_some hv s, growthOutside_some ho s, get_insideZ]
  unfold insideI; omega

theorem growthInside_some {cur l u : Int} {G v : V2} {outs : List (Int × V2)} (h : growthInside cur G outs l u = some v) :
    v = insideZ cur G outs l u := by
  unfold growthInside at h
  simp only [Option.bind_eq_some_iff] at h
  obtain ⟨o, ho, hv⟩ := h
  exact inside_of_outside ho hv

/-! ## the growth-outside store -/

theorem getOut_setOut (outs : List (Int × V2)) (t x : Int) (v : V2) :
    getOut (setOut outs t v) x = if x = t then (getOut outs t).map (fun _ => v) else getOut outs x := by
  induction outs with
  | nil => unfold getOut setOut; simp
  | cons o os ih =>
    unfold getOut setOut at ih ⊢
    simp only [List.map_cons, List.find?_cons]
    by_cases hx : x = t
    · subst hx
      by_cases ho : o.1 = x
      · simp [ho]
      · simp only [ho, ↓reduceIte, decide_false, Bool.false_eq_true]
        simpa using ih
    · by_cases ho : o.1 = t
      · have : ¬ o.1 = x := by omega
        have ht : ¬ t = x := by omega
        simp only [ho, ↓reduceIte, ht, decide_false, this, hx]
        simpa [hx] using ih
      · simp only [ho, ↓reduceIte, hx]
        by_cases hox : o.1 = x
        · simp [hox]
        · simp only [hox, decide_false]
          simpa [hx] using ih

theorem getOut_insertOut (outs : List (Int × V2)) (t x : Int) (v : V2) :
    getOut (insertOut outs t v) x = if x = t then some v else getOut outs x := by
  induction outs with
  | nil => unfold getOut insertOut; by_cases h : x = t <;> simp [h, eq_comm]
  | cons o os ih =>
    unfold insertOut
    by_cases h1 : t < o.1
    · rw [if_pos h1]
      unfold getOut
      by_cases h : x = t
      · subst h; simp
      · have : ¬ t = x := by omega
        simp [this, h]
    · rw [if_neg h1]
      by_cases h2 : t = o.1
      · rw [if_pos h2]
        unfold getOut
        by_cases h : x = t
        · subst h; simp
        · have h3 : ¬ t = x := by omega
          have h4 : ¬ o.1 = x := by omega
          simp [h, h3, h4]
      · rw [if_neg h2]
        unfold getOut at ih ⊢
        simp only [List.find?_cons]
        by_cases h : x = t
        · subst h
          have : ¬ o.1 = x := by omega
          simp only [this, decide_false, ↓reduceIte]
          simpa using ih
        · by_cases hox : o.1 = x
          · simp [hox, h]
          · simp only [hox, decide_false, h, ↓reduceIte]
            simpa [h] using ih

/-- `initTick` stores the tick (initial convention) and keeps every stored value. -/
theorem getOut_initTick (outs : List (Int × V2)) (cur : Int) (G : V2) (t x : Int) :
    getOut (initTick outs cur G t) x =
      if x = t then some (tickOut cur G outs t) else getOut outs x := by
  unfold initTick tickOut
  cases h : getOut outs t with
  | some v =>
    simp only
    by_cases hx : x = t
    · subst hx; simp [h]
    · simp [hx]
  | none =>
    simp only
    rw [getOut_insertOut]

theorem getOut_syncOuts (outs : List (Int × V2)) (ticks : List TickInfo) (x : Int)
    (hx : ticks.any (·.tick = x) = true) : getOut (syncOuts outs ticks) x = getOut outs x := by
  unfold getOut syncOuts
  induction outs with
  | nil => rfl
  | cons o os ih =>
    by_cases ho : o.1 = x
    · have hk : ticks.any (·.tick = o.1) = true := by rw [ho]; exact hx
      rw [List.filter_cons, if_pos hk]
      simp only [List.find?_cons, ho, decide_true]
    · by_cases hk : ticks.any (·.tick = o.1) = true
      · simp only [List.filter_cons, hk, ↓reduceIte, List.find?_cons, ho, decide_false]
        exact ih
      · simp only [List.filter_cons, hk, Bool.false_eq_true, ↓reduceIte, List.find?_cons, ho, decide_false]
        exact ih

theorem tickOut_stored {cur : Int} {G v : V2} {outs : List (Int × V2)} {t : Int} (h : getOut outs t = some v) :
    tickOut cur G outs t = v := by
  unfold tickOut; rw [h]

/-! ## the fold over the step trace -/

/-- total growth per unit of liquidity of the steps that ran while the current tick was in `[l, u)`. -/
def traceGrowth (scale l u : Int) : List StepTrace → Int
  | [] => 0
  | tr :: rest =>
    (if l ≤ tr.tick ∧ tr.tick < u then (spreadGrowth tr.charge tr.liq scale).getD 0 else 0) + traceGrowth scale l u rest

/-- total growth per unit of liquidity of all steps. -/
def traceTotal (scale : Int) : List StepTrace → Int
  | [] => 0
  | tr :: rest => (spreadGrowth tr.charge tr.liq scale).getD 0 + traceTotal scale rest

/-- component `s` of the swap's in-denom amount `x`. -/
def dlt (s zfo : Bool) (x : Int) : Int := if s = zfo then x else 0

theorem dlt_add (s zfo : Bool) (x y : Int) : dlt s zfo (x + y) = dlt s zfo x + dlt s zfo y := by
  unfold dlt; split <;> omega

theorem foldTrace_acc {scale : Int} {zfo : Bool} {G : V2} :
    ∀ (trs : List StepTrace) (acc : Int) (outs : List (Int × V2)) (acc' : Int) (outs' : List (Int × V2)),
      foldTrace scale zfo G trs acc outs = some (acc', outs') → acc' = acc + traceTotal scale trs := by
  intro trs
  induction trs with
  | nil =>
    intro acc outs acc' outs' h
    simp only [foldTrace, Option.some.injEq, Prod.mk.injEq] at h
    simp only [traceTotal]; omega
  | cons tr rest ih =>
    intro acc outs acc' outs' h
    unfold foldTrace at h
    simp only [Option.bind_eq_some_iff] at h
    obtain ⟨g, hg, acc1, hacc, h⟩ := h
    have e1 := Dec.add_some hacc
    simp only [traceTotal, hg, Option.getD_some]
    cases hc : tr.crossed with
    | none => rw [hc] at h; have := ih _ _ _ _ h; omega
    | some t =>
      rw [hc] at h
      simp only [Option.bind_eq_some_iff] at h
      obtain ⟨o, _, c, _, o', _, h⟩ := h
      have := ih _ _ _ _ h; omega

/-- **growth inside along a swap**: for a range `[l, u)` whose boundaries are stored ticks, growth inside
(against the accumulator value + the swap's running growth) increases over the trace by exactly the growth of the
steps taken while the current tick was in the range; component `s` of the pair. -/
theorem foldTrace_inside {scale : Int} {zfo : Bool} {G : V2} {tl : Ticks} {ps : List Position} {l u : Int} (hlu : l < u)
    (hl : ∃ n, (l, n) ∈ tl) (hu : ∃ n, (u, n) ∈ tl) (s : Bool) :
    ∀ (trs : List StepTrace) (cur cur' acc : Int) (outs : List (Int × V2)) (acc' : Int) (outs' : List (Int × V2)) (ol ou : V2),
      TraceOK zfo tl ps cur trs cur' →
      foldTrace scale zfo G trs acc outs = some (acc', outs') →
      getOut outs l = some ol → getOut outs u = some ou →
      ∃ ol' ou', getOut outs' l = some ol' ∧ getOut outs' u = some ou' ∧
        insideI cur' (get s G + dlt s zfo acc') (get s ol') (get s ou') l u =
          insideI cur (get s G + dlt s zfo acc) (get s ol) (get s ou) l u + dlt s zfo (traceGrowth scale l u trs) := by
  intro trs
  induction trs with
  | nil =>
    intro cur cur' acc outs acc' outs' ol ou hok h gl gu
    simp only [foldTrace, Option.some.injEq, Prod.mk.injEq] at h
    obtain ⟨e1, e2⟩ := h
    subst e1; subst e2
    simp only [TraceOK] at hok
    subst hok
    refine ⟨ol, ou, gl, gu, ?_⟩
    simp only [traceGrowth, dlt]; split <;> omega
  | cons tr rest ih =>
    intro cur cur' acc outs acc' outs' ol ou hok h gl gu
    simp only [TraceOK] at hok
    obtain ⟨etick, _, next, hstep, hrest⟩ := hok
    unfold foldTrace at h
    simp only [Option.bind_eq_some_iff] at h
    obtain ⟨g, hg, acc1, hacc, h⟩ := h
    have e1 := Dec.add_some hacc
    obtain ⟨nl, hl'⟩ := hl
    obtain ⟨nu, hu'⟩ := hu
    -- growth of this step
    have hgrow : insideI cur (get s G + dlt s zfo acc1) (get s ol) (get s ou) l u =
        insideI cur (get s G + dlt s zfo acc) (get s ol) (get s ou) l u +
          dlt s zfo (if l ≤ tr.tick ∧ tr.tick < u then g else 0) := by
      rw [e1, dlt_add, ← Int.add_assoc, insideI_grow hlu, etick]
      unfold dlt; split <;> split <;> simp_all
    have hsum : traceGrowth scale l u (tr :: rest) =
        (if l ≤ tr.tick ∧ tr.tick < u then g else 0) + traceGrowth scale l u rest := by
      simp only [traceGrowth, hg, Option.getD_some]
    cases hc : tr.crossed with
    | none =>
      rw [hc] at h hstep
      simp only at hstep
      obtain ⟨ol', ou', g1, g2, e⟩ := ih next cur' acc1 outs acc' outs' ol ou hrest h gl gu
      refine ⟨ol', ou', g1, g2, ?_⟩
      rw [e, hsum, dlt_add]
      have k1 := hstep (l, nl) hl'
      have k2 := hstep (u, nu) hu'
      simp only at k1 k2
      unfold insideI at hgrow ⊢
      rw [belowI_keep k1, aboveI_keep k2]
      omega
    | some t =>
      rw [hc] at h hstep
      simp only [Option.bind_eq_some_iff] at h
      obtain ⟨o, ho, c, hcadd, o', ho', h⟩ := h
      simp only at hstep
      obtain ⟨_, enext, hside, hothers⟩ := hstep
      have eo' : get s o' = (get s G + dlt s zfo acc1) - get s o := by
        rw [(V2.sub_some ho').1 s, V2.add_some hcadd s, get_ofIn]; rfl
      have gl1 : getOut (setOut outs t o') l = if l = t then some o' else some ol := by
        rw [getOut_setOut]; split
        · rename_i e; rw [← e, gl]; rfl
        · exact gl
      have gu1 : getOut (setOut outs t o') u = if u = t then some o' else some ou := by
        rw [getOut_setOut]; split
        · rename_i e; rw [← e, gu]; rfl
        · exact gu
      -- the two boundaries after the flip
      by_cases hlt : l = t
      · have hut : u ≠ t := by omega
        rw [if_pos hlt] at gl1; rw [if_neg hut] at gu1
        obtain ⟨ol', ou', g1, g2, e⟩ := ih next cur' acc1 _ acc' outs' o' ou hrest h gl1 gu1
        refine ⟨ol', ou', g1, g2, ?_⟩
        rw [e, hsum, dlt_add]
        have k2 := hothers (u, nu) hu' hut
        simp only at k2
        have ho_l : o = ol := by rw [← hlt, gl] at ho; injection ho with ho; exact ho.symm
        have k1 : l ≤ cur ↔ ¬ l ≤ next := by
          rw [enext, hlt]
          cases zfo
          · simp only [Bool.false_eq_true, ↓reduceIte] at hside ⊢; omega
          · simp only [↓reduceIte] at hside ⊢; omega
        unfold insideI at hgrow ⊢
        rw [eo', ho_l, belowI_flip k1, aboveI_keep k2]
        omega
      · rw [if_neg hlt] at gl1
        have k1 := hothers (l, nl) hl' hlt
        simp only at k1
        by_cases hut : u = t
        · rw [if_pos hut] at gu1
          obtain ⟨ol', ou', g1, g2, e⟩ := ih next cur' acc1 _ acc' outs' ol o' hrest h gl1 gu1
          refine ⟨ol', ou', g1, g2, ?_⟩
          rw [e, hsum, dlt_add]
          have ho_u : o = ou := by rw [← hut, gu] at ho; injection ho with ho; exact ho.symm
          have k2 : u ≤ cur ↔ ¬ u ≤ next := by
            rw [enext, hut]
            cases zfo
            · simp only [Bool.false_eq_true, ↓reduceIte] at hside ⊢; omega
            · simp only [↓reduceIte] at hside ⊢; omega
          unfold insideI at hgrow ⊢
          rw [eo', ho_u, belowI_keep k1, aboveI_flip k2]
          omega
        · rw [if_neg hut] at gu1
          obtain ⟨ol', ou', g1, g2, e⟩ := ih next cur' acc1 _ acc' outs' ol ou hrest h gl1 gu1
          refine ⟨ol', ou', g1, g2, ?_⟩
          rw [e, hsum, dlt_add]
          have k2 := hothers (u, nu) hu' hut
          simp only at k2
          unfold insideI at hgrow ⊢
          rw [belowI_keep k1, aboveI_keep k2]
          omega

end OsmoVerif.CLFeesP
