/-
C04 (stableswap invariant), part 12: the error terms in RELATIVE form.  On a pool whose exact scaled reserves are
all ≥ 1 (what `validatePoolLiquidity` enforces up to flooring) the explicit errors of `GammSSOut`/`GammSSIn2` are
at most a small multiple of `eps = 10^-36` times the invariant itself:

  exact-in :  `ssInvariant p' ≥ ssInvariant p · (1 − (15 + n/2)·10^-36)`
  exact-out:  `ssInvariant p' ≥ ssInvariant p · (1 − 12/(10^18·R_in) − (13 + n/2)·10^-36)`

(`n` = number of assets not taking part in the swap, ≤ 6; `R_in` = the integer in-reserve before the swap).
-/
import OsmoVerif.Proofs.GammSSUnit2

set_option linter.unusedSimpArgs false

namespace OsmoVerif.GammMath.SS
open OsmoVerif.Num OsmoVerif.MathM OsmoVerif.Gen OsmoVerif.Spec

theorem eps_le_half : eps ≤ 1 / 2 := by unfold eps; norm_num

theorem wErr_le {Zs : List ℚ} (h : ∀ z ∈ Zs, 1 ≤ z) : wErr Zs ≤ 3 * eps * sumSq Zs := by
  unfold wErr
  have he := eps_pos
  have key : (Zs.map fun z => 2 * z + eps + 1 / 2).sum ≤ 3 * sumSq Zs := by
    induction Zs with
    | nil => simp [sumSq]
    | cons z Zs ih =>
      rw [List.map_cons, List.sum_cons, sumSq_cons]
      have hz := h z (by simp)
      have := ih fun y hy => h y (by simp [hy])
      have := eps_le_half
      nlinarith
  calc eps * (Zs.map fun z => 2 * z + eps + 1 / 2).sum ≤ eps * (3 * sumSq Zs) :=
        mul_le_mul_of_nonneg_left key he.le
    _ = 3 * eps * sumSq Zs := by ring

/-- the exact-in error against the kernel itself. -/
theorem swapErr_le_rel {X Y : ℚ} {Zs : List ℚ} (hX : 1 ≤ X) (hY : 1 ≤ Y) (hZ : ∀ z ∈ Zs, 1 ≤ z) :
    swapErr X Y Zs ≤ (15 + (Zs.length : ℚ) / 2) * eps * kq X Y (sumSq Zs) := by
  have he := eps_pos
  have he2 := eps_le_half
  have hW := sumSq_nonneg Zs
  have hw := wErr_le hZ
  have hn : (0 : ℚ) ≤ (Zs.length : ℚ) := Nat.cast_nonneg _
  unfold swapErr solverErr kq
  rw [abs_of_nonneg (by linarith : (0 : ℚ) ≤ X)]
  generalize sumSq Zs = W at *
  generalize wErr Zs = η at *
  generalize (Zs.length : ℚ) = n at *
  have hXY : 1 ≤ X * Y := by nlinarith
  have hYXY : Y ≤ X * Y := by nlinarith
  have hXXY : X ≤ X * Y := by nlinarith
  have hS : 2 ≤ X ^ 2 + Y ^ 2 + W := by nlinarith
  -- K = X·Y·S
  have a1 : 2 * (X * Y) ≤ X * Y * (X ^ 2 + Y ^ 2 + W) := by nlinarith
  have a3 : Y * (3 * X ^ 2 + Y ^ 2 + W) ≤ 3 * (X * Y * (X ^ 2 + Y ^ 2 + W)) := by
    have : Y * (3 * X ^ 2 + Y ^ 2 + W) ≤ Y * (3 * (X ^ 2 + Y ^ 2 + W)) :=
      mul_le_mul_of_nonneg_left (by nlinarith) (by linarith)
    have : Y * (3 * (X ^ 2 + Y ^ 2 + W)) ≤ X * Y * (3 * (X ^ 2 + Y ^ 2 + W)) :=
      mul_le_mul_of_nonneg_right hYXY (by linarith)
    linarith
  have a4 : X * (X ^ 2 + 3 * Y ^ 2 + W) ≤ 3 * (X * Y * (X ^ 2 + Y ^ 2 + W)) := by
    have : X * (X ^ 2 + 3 * Y ^ 2 + W) ≤ X * (3 * (X ^ 2 + Y ^ 2 + W)) :=
      mul_le_mul_of_nonneg_left (by nlinarith) (by linarith)
    have : X * (3 * (X ^ 2 + Y ^ 2 + W)) ≤ X * Y * (3 * (X ^ 2 + Y ^ 2 + W)) :=
      mul_le_mul_of_nonneg_right hXXY (by linarith)
    linarith
  have a5 : X * Y * η ≤ 3 * eps * (X * Y * (X ^ 2 + Y ^ 2 + W)) := by
    have : X * Y * η ≤ X * Y * (3 * eps * W) := mul_le_mul_of_nonneg_left hw (by linarith)
    have : X * Y * (3 * eps * W) ≤ X * Y * (3 * eps * (X ^ 2 + Y ^ 2 + W)) :=
      mul_le_mul_of_nonneg_left (mul_le_mul_of_nonneg_left (by nlinarith) (by linarith)) (by linarith)
    linarith
  -- everything is `eps ·` something; compare the somethings
  have b1 : X * Y + Y / 2 + 1 / 2 + 2 * Y * (3 / 2 + eps + X + 3 / 2 * X) ≤ 11 / 2 * (X * Y * (X ^ 2 + Y ^ 2 + W)) := by
    have : 2 * Y * eps ≤ Y := by nlinarith
    nlinarith
  have b1' := mul_le_mul_of_nonneg_left b1 he.le
  have b2 : X * (2 * Y) * (n * (eps / 2)) ≤ n / 2 * eps * (X * Y * (X ^ 2 + Y ^ 2 + W)) := by
    have : X * (2 * Y) * (n * (eps / 2)) = n / 2 * eps * (2 * (X * Y)) := by ring
    rw [this]
    exact mul_le_mul_of_nonneg_left a1 (by positivity)
  have b3 := mul_le_mul_of_nonneg_left (add_le_add a3 a4) he.le
  nlinarith

/-- the exact-out error against the kernel itself. -/
theorem swapInErr_le_rel {X Y d : ℚ} {Zs : List ℚ} (hX : 1 ≤ X) (hY : 1 ≤ Y) (hd : 0 ≤ d) (hZ : ∀ z ∈ Zs, 1 ≤ z) :
    swapInErr X Y d Zs ≤ (12 * (d / X) + (13 + (Zs.length : ℚ) / 2) * eps) * kq X Y (sumSq Zs) := by
  have he := eps_pos
  have he2 := eps_le_half
  have hW := sumSq_nonneg Zs
  have hw := wErr_le hZ
  have hn : (0 : ℚ) ≤ (Zs.length : ℚ) := Nat.cast_nonneg _
  have hX0 : (0 : ℚ) < X := by linarith
  unfold swapInErr solverErr kq
  rw [abs_of_nonneg hX0.le]
  generalize sumSq Zs = W at *
  generalize wErr Zs = η at *
  generalize (Zs.length : ℚ) = n at *
  have hXY : 1 ≤ X * Y := by nlinarith
  have hYXY : Y ≤ X * Y := by nlinarith
  have hXXY : X ≤ X * Y := by nlinarith
  have hS : 2 ≤ X ^ 2 + Y ^ 2 + W := by nlinarith
  have a1 : 2 * (X * Y) ≤ X * Y * (X ^ 2 + Y ^ 2 + W) := by nlinarith
  have a3 : Y * (3 * X ^ 2 + Y ^ 2 + W) ≤ 3 * (X * Y * (X ^ 2 + Y ^ 2 + W)) := by
    have : Y * (3 * X ^ 2 + Y ^ 2 + W) ≤ Y * (3 * (X ^ 2 + Y ^ 2 + W)) :=
      mul_le_mul_of_nonneg_left (by nlinarith) (by linarith)
    have : Y * (3 * (X ^ 2 + Y ^ 2 + W)) ≤ X * Y * (3 * (X ^ 2 + Y ^ 2 + W)) :=
      mul_le_mul_of_nonneg_right hYXY (by linarith)
    linarith
  have a4 : X * (X ^ 2 + 3 * Y ^ 2 + W) ≤ 3 * (X * Y * (X ^ 2 + Y ^ 2 + W)) := by
    have : X * (X ^ 2 + 3 * Y ^ 2 + W) ≤ X * (3 * (X ^ 2 + Y ^ 2 + W)) :=
      mul_le_mul_of_nonneg_left (by nlinarith) (by linarith)
    have : X * (3 * (X ^ 2 + Y ^ 2 + W)) ≤ X * Y * (3 * (X ^ 2 + Y ^ 2 + W)) :=
      mul_le_mul_of_nonneg_right hXXY (by linarith)
    linarith
  have a5 : X * Y * η ≤ 3 * eps * (X * Y * (X ^ 2 + Y ^ 2 + W)) := by
    have : X * Y * η ≤ X * Y * (3 * eps * W) := mul_le_mul_of_nonneg_left hw (by linarith)
    have : X * Y * (3 * eps * W) ≤ X * Y * (3 * eps * (X ^ 2 + Y ^ 2 + W)) :=
      mul_le_mul_of_nonneg_left (mul_le_mul_of_nonneg_left (by nlinarith) (by linarith)) (by linarith)
    linarith
  have b1 : X * Y + Y / 2 + 1 / 2 + Y * (3 / 2 + eps + X + 3 / 2 * X) ≤ 13 / 4 * (X * Y * (X ^ 2 + Y ^ 2 + W)) := by
    have : Y * eps ≤ Y / 2 := by nlinarith
    nlinarith
  have b1' := mul_le_mul_of_nonneg_left b1 he.le
  have b2 : 2 * X * Y * (n * (eps / 2)) ≤ n / 2 * eps * (X * Y * (X ^ 2 + Y ^ 2 + W)) := by
    have : 2 * X * Y * (n * (eps / 2)) = n / 2 * eps * (2 * (X * Y)) := by ring
    rw [this]
    exact mul_le_mul_of_nonneg_left a1 (by positivity)
  have b3 := mul_le_mul_of_nonneg_left (add_le_add a3 a4) he.le
  -- the truncation term
  have c1 : d * (Y * (3 * (2 * X) ^ 2 + Y ^ 2 + W)) ≤ 12 * (d / X) * (X * Y * (X ^ 2 + Y ^ 2 + W)) := by
    have e : 12 * (d / X) * (X * Y * (X ^ 2 + Y ^ 2 + W)) = d * (Y * (12 * (X ^ 2 + Y ^ 2 + W))) := by
      field_simp
    rw [e]
    exact mul_le_mul_of_nonneg_left (mul_le_mul_of_nonneg_left (by nlinarith) (by linarith)) hd
  nlinarith

end OsmoVerif.GammMath.SS
