/-
C08 helpers, part 9: the spread charges along the step trace of an executed swap: every step's charge is
non-negative, their sum is the swap's `spreadRewards` total, of which the fee transfer is the ceiling
(so `Σ charges ≤ fee · 10¹⁸`), and the growth credited per step times the liquidity it ran against never exceeds the
(scaled) charge.  Uses the C01 helper `CLSolvSwap` (Mathlib through it).
-/
import OsmoVerif.Proofs.CLSolvSwap
import OsmoVerif.Proofs.CLFeesFrame
import OsmoVerif.Proofs.NumLemmas

namespace OsmoVerif.CLFeesP
open OsmoVerif.CLPool OsmoVerif.CL OsmoVerif.CLBook OsmoVerif.Num OsmoVerif.CLFees OsmoVerif.CLRewards OsmoVerif.Gen OsmoVerif.CLSolv
open OsmoVerif.Spec

def sumCh : List StepTrace → Int
  | [] => 0
  | tr :: rest => tr.charge + sumCh rest

theorem stepCharge_of_decomp {og zfo : Bool} {spf limit : Int} {st : SwapSt} {nt net : Int} {rest : Ticks} {nextSp : Int} {r : StepResult}
    (hsp : Tick.tickToSqrtPrice nt = some nextSp)
    (hstep : stepOf og zfo spf st.pool.sqrtPrice (targetOf zfo limit nextSp) st.pool.liquidity st.remaining = some r) :
    stepCharge og zfo spf limit st ((nt, net) :: rest) = some r.spreadCharge := by
  unfold stepOf targetOf at hstep
  unfold stepCharge
  simp only [Option.bind_eq_bind, hsp, Option.bind_some]
  cases og
  · simp only [Bool.false_eq_true, ↓reduceIte] at hstep ⊢
    rw [hstep]; rfl
  · simp only [↓reduceIte] at hstep ⊢
    rw [hstep]; rfl

theorem swapLoopT_charges {scale : Int} {og zfo : Bool} {spf limit spacing : Int} {tl : Ticks} {ps : List Position}
    (hok : TicksOK spacing tl ps) (hspf : SpfOK spf)
    (hlimit : sqrtPriceLimit (execPriceLimit zfo) zfo = some limit) :
    ∀ (fuel : Nat) (st : SwapSt) (ahead : Ticks) (steps crossed : Nat) (st' : SwapSt) (s' c' : Nat) (trs : List StepTrace),
      swapLoopT scale og zfo spf limit fuel st ahead steps crossed = some ((st', s', c'), trs) →
      Agree spacing st.pool.sqrtPrice st.pool.tick → 0 < st.pool.sqrtPrice → LA zfo tl ps st.pool ahead →
      (∀ tr ∈ trs, 0 ≤ tr.charge) ∧ st'.spreadTotal = st.spreadTotal + sumCh trs := by
  intro fuel
  induction fuel with
  | zero => intro st ahead steps crossed st' s' c' trs h; cases h
  | succ fuel ih =>
    intro st ahead steps crossed st' s' c' trs h ha hpos hla
    unfold swapLoopT at h
    split at h
    · rename_i hcond
      cases hT : loopBodyT scale og zfo spf limit st ahead with
      | none => rw [hT] at h; cases h
      | some x =>
        obtain ⟨⟨st1, ahead1, c1⟩, tr⟩ := x
        rw [hT] at h
        simp only [Option.map_eq_some_iff, Prod.mk.injEq] at h
        obtain ⟨⟨r1, trs1⟩, hrec, e1, e2⟩ := h
        simp only at e1 e2
        subst e1; subst e2
        obtain ⟨hS, hch, _, _, _⟩ := loopBodyT_some hT
        have hb := loopBodyS_some hS
        cases ahead with
        | nil => rw [loopBody_nil] at hb; cases hb
        | cons x rest =>
          obtain ⟨nt, net⟩ := x
          obtain ⟨b1, b2, b3, _, b5, _⟩ := body_solv hok hspf hlimit hb hcond.1 ha hpos hla
          obtain ⟨nextTick, net', rest', nextSp, r, hcons, hsp, hstep, _, hadv, _⟩ := loopBody_decomp hb
          have ent : nt = nextTick := by injection hcons with h1 _; injection h1
          subst ent
          have hch2 := stepCharge_of_decomp (net := net) (rest := rest) hsp hstep
          rw [hch] at hch2
          injection hch2 with hch2
          obtain ⟨i1, i2⟩ := ih _ _ _ _ _ _ _ _ hrec b1 b2 b3
          unfold chargeTot at b5
          refine ⟨fun t ht => ?_, ?_⟩
          · rcases List.mem_cons.mp ht with rfl | ht
            · rw [hch2]; omega
            · exact i1 t ht
          · simp only [sumCh]; rw [i2, hadv, hch2]; omega
    · simp only [Option.some.injEq, Prod.mk.injEq] at h
      obtain ⟨⟨h1, _, _⟩, h2⟩ := h
      subst h1; subst h2
      exact ⟨fun t ht => (by cases ht), (by simp [sumCh])⟩

/-! (copies of `Props.C08.tdiv_mul_le` / `spreadGrowth_bound`, which live downstream of this file) -/

theorem tdiv_mul_le' {n d : Int} (hn : 0 ≤ n) (hd : 0 < d) : 0 ≤ n.tdiv d ∧ n.tdiv d * d ≤ n := by
  obtain ⟨e, hp, _⟩ := tdiv_tmod_spec n d hd
  have := hp hn
  exact ⟨Int.tdiv_nonneg hn (by omega), by omega⟩

/-- one step: credited growth × active liquidity ≤ charge × scaling factor (18-decimal raw units). -/
theorem spreadGrowth_bound' {charge liq scale g : Int} (hc : 0 ≤ charge) (hl : 0 < liq) (hs : 0 < scale)
    (h : spreadGrowth charge liq scale = some g) : 0 ≤ g ∧ g * liq ≤ charge * scale := by
  unfold spreadGrowth at h
  rw [if_neg (by omega)] at h
  by_cases hsc : scale = P18
  · rw [if_pos hsc] at h
    simp only [Option.bind_eq_bind, Option.bind_some, bind] at h
    unfold Dec.quoTruncate at h
    rw [if_neg (by omega)] at h
    unfold chkDec at h
    split at h
    · injection h with h
      subst h
      have := tdiv_mul_le' (n := charge * P18) (d := liq) (Int.mul_nonneg hc (by decide)) hl
      rw [hsc]; exact this
    · cases h
  · rw [if_neg hsc] at h
    cases hm : Dec.mulTruncate charge scale with
    | none => rw [hm] at h; cases h
    | some scaled =>
      rw [hm] at h
      simp only [Option.bind_eq_bind, Option.bind_some, bind] at h
      have hsv : 0 ≤ scaled ∧ scaled * P18 ≤ charge * scale := by
        unfold Dec.mulTruncate chkDec chopTrunc at hm
        split at hm
        · injection hm with hm
          subst hm
          exact tdiv_mul_le' (Int.mul_nonneg hc (by omega)) (by decide)
        · cases hm
      unfold Dec.quoTruncate at h
      rw [if_neg (by omega)] at h
      unfold chkDec at h
      split at h
      · injection h with h
        subst h
        have := tdiv_mul_le' (n := scaled * P18) (d := liq) (Int.mul_nonneg hsv.1 (by decide)) hl
        exact ⟨this.1, by omega⟩
      · cases h

/-- `traceTotal`-like sum of (growth × liquidity the step ran against). -/
def traceCredit (scale : Int) : List StepTrace → Int
  | [] => 0
  | tr :: rest => (spreadGrowth tr.charge tr.liq scale).getD 0 * tr.liq + traceCredit scale rest

/-- per step: growth × liquidity ≤ charge × scale (18-decimal raw units on both sides). -/
theorem growth_times_liq_le {charge liq scale : Int} (hc : 0 ≤ charge) (hl : 0 ≤ liq) (hs : 0 < scale) :
    0 ≤ (spreadGrowth charge liq scale).getD 0 ∧ (spreadGrowth charge liq scale).getD 0 * liq ≤ charge * scale := by
  have hcs : 0 ≤ charge * scale := Int.mul_nonneg hc (by omega)
  cases h : spreadGrowth charge liq scale with
  | none => simp only [Option.getD_none, Int.zero_mul]; exact ⟨Int.le_refl _, hcs⟩
  | some g =>
    simp only [Option.getD_some]
    by_cases hz : liq = 0
    · subst hz
      unfold spreadGrowth at h
      rw [if_pos rfl] at h
      injection h with h; subst h
      simp only [Int.mul_zero]; exact ⟨Int.le_refl _, hcs⟩
    · exact spreadGrowth_bound' hc (by omega) hs h

theorem traceCredit_le {scale : Int} (hs : 0 < scale) :
    ∀ (trs : List StepTrace), (∀ tr ∈ trs, 0 ≤ tr.charge ∧ 0 ≤ tr.liq) → traceCredit scale trs ≤ sumCh trs * scale
  | [], _ => by simp [traceCredit, sumCh]
  | tr :: rest, h => by
    have h1 := h tr List.mem_cons_self
    have := (growth_times_liq_le h1.1 h1.2 hs).2
    have ih := traceCredit_le hs rest (fun t ht => h t (List.mem_cons_of_mem _ ht))
    simp only [traceCredit, sumCh, Int.add_mul]
    omega

end OsmoVerif.CLFeesP
