/-
C19 / x/tokenfactory genesis: lemmas about `Model/TokenFactoryGenesis.lean`.
* `withAH` frame lemmas: no handler of `Model/Auth.lean` reads the before-send hooks, and the authority metadata
  is read through `aget` only — so two states that differ in the REPRESENTATION of `admins` (same lookups) and
  arbitrarily in `hooks` are indistinguishable by messages (`Sim`, `step_sim`).
* `TFInv`: the reachable-state invariant under which `InitGenesis` accepts the chain's own export.
Core only.
-/
import OsmoVerif.Model.TokenFactoryGenesis
import OsmoVerif.Proofs.AuthLemmas

namespace OsmoVerif.Auth

/-! ## association lists -/
section AList
variable {κ : Type} {α : Type} [DecidableEq κ]

theorem aget_some_mem {k : κ} {v : α} : ∀ {l : List (κ × α)}, aget k l = some v → (k, v) ∈ l
  | [], h => by cases h
  | (k', v') :: t, h => by
    rw [aget_cons] at h
    by_cases e : k' = k
    · rw [if_pos e] at h; injection h with h; subst h; subst e; exact List.mem_cons_self
    · rw [if_neg e] at h; exact List.mem_cons_of_mem _ (aget_some_mem h)

theorem aget_none_of_not_mem {k : κ} : ∀ {l : List (κ × α)}, k ∉ l.map Prod.fst → aget k l = none
  | [], _ => rfl
  | (k', v') :: t, h => by
    rw [aget_cons]
    have h1 : k' ≠ k := fun e => h (by rw [e]; exact List.mem_cons_self)
    rw [if_neg h1]
    exact aget_none_of_not_mem (fun m => h (List.mem_cons_of_mem _ m))

theorem aget_of_mem_nodup {k : κ} {v : α} : ∀ {l : List (κ × α)}, (l.map Prod.fst).Nodup → (k, v) ∈ l → aget k l = some v
  | [], _, h => by cases h
  | (k', v') :: t, hn, h => by
    rw [List.map_cons, List.nodup_cons] at hn
    rw [aget_cons]
    rcases List.mem_cons.mp h with e | m
    · injection e with e1 e2; subst e1; subst e2; rw [if_pos rfl]
    · have : k' ≠ k := fun e => hn.1 (by rw [e]; exact List.mem_map.mpr ⟨(k, v), m, rfl⟩)
      rw [if_neg this]
      exact aget_of_mem_nodup hn.2 m

theorem mem_aerase {k : κ} {x : κ × α} : ∀ {l : List (κ × α)}, x ∈ aerase k l → x ∈ l ∧ x.1 ≠ k
  | [], h => by cases h
  | (k', v') :: t, h => by
    unfold aerase at h
    by_cases e : k' = k
    · rw [if_pos e] at h
      exact ⟨List.mem_cons_of_mem _ (mem_aerase h).1, (mem_aerase h).2⟩
    · rw [if_neg e] at h
      rcases List.mem_cons.mp h with e1 | m
      · subst e1; exact ⟨List.mem_cons_self, e⟩
      · exact ⟨List.mem_cons_of_mem _ (mem_aerase m).1, (mem_aerase m).2⟩

theorem aerase_keys_sublist (k : κ) : ∀ (l : List (κ × α)), ((aerase k l).map Prod.fst).Sublist (l.map Prod.fst)
  | [] => List.Sublist.slnil
  | (k', v') :: t => by
    unfold aerase
    by_cases e : k' = k
    · rw [if_pos e]; exact (aerase_keys_sublist k t).cons _
    · rw [if_neg e]; exact (aerase_keys_sublist k t).cons_cons _

/-- `aset` keeps the keys distinct. -/
theorem aset_nodup (k : κ) (v : α) {l : List (κ × α)} (h : (l.map Prod.fst).Nodup) :
    ((aset k v l).map Prod.fst).Nodup := by
  unfold aset
  rw [List.map_cons, List.nodup_cons]
  refine ⟨fun m => ?_, h.sublist (aerase_keys_sublist k l)⟩
  obtain ⟨x, hx, hk⟩ := List.mem_map.mp m
  exact (mem_aerase hx).2 hk

theorem mem_aset {k : κ} {v : α} {x : κ × α} {l : List (κ × α)} (h : x ∈ aset k v l) : x = (k, v) ∨ (x ∈ l ∧ x.1 ≠ k) := by
  unfold aset at h
  rcases List.mem_cons.mp h with e | m
  · exact Or.inl e
  · exact Or.inr (mem_aerase m)

/-- lookup of an `aset`, as a function of the old lookup only -/
theorem aget_aset (k k' : κ) (v : α) (l : List (κ × α)) :
    aget k (aset k' v l) = if k' = k then some v else aget k l := by
  by_cases e : k' = k
  · subst e; rw [if_pos rfl, aget_aset_self]
  · rw [if_neg e, aget_aset_ne e]

theorem aget_aerase (k k' : κ) (l : List (κ × α)) :
    aget k (aerase k' l) = if k' = k then none else aget k l := by
  by_cases e : k' = k
  · subst e; rw [if_pos rfl, aget_aerase_self]
  · rw [if_neg e, aget_aerase_ne e]

end AList

/-! ## the frame: handlers never read `hooks`, and read `admins` through lookups only -/

/-- the state with another representation of the authority-metadata store and other hooks -/
def withAH (s : State) (A H : List (String × String)) : State := { s with admins := A, hooks := H }

theorem withAH_self (s : State) : withAH s s.admins s.hooks = s := rfl
theorem withAH_withAH (s : State) (A H A' H') : withAH (withAH s A H) A' H' = withAH s A' H' := rfl

section Frame
variable (s : State) (A H : List (String × String))

theorem withAH_valid : (withAH s A H).valid = s.valid := rfl
theorem withAH_moduleAccs : (withAH s A H).moduleAccs = s.moduleAccs := rfl
theorem withAH_contracts : (withAH s A H).contracts = s.contracts := rfl
theorem withAH_nativeSupply : (withAH s A H).nativeSupply = s.nativeSupply := rfl
theorem withAH_feeDenom : (withAH s A H).feeDenom = s.feeDenom := rfl
theorem withAH_fee : (withAH s A H).fee = s.fee := rfl
theorem withAH_communityPool : (withAH s A H).communityPool = s.communityPool := rfl
theorem withAH_gov : (withAH s A H).gov = s.gov := rfl
theorem withAH_allowed : (withAH s A H).allowed = s.allowed := rfl
theorem withAH_unbonding : (withAH s A H).unbonding = s.unbonding := rfl
theorem withAH_validators : (withAH s A H).validators = s.validators := rfl
theorem withAH_admins : (withAH s A H).admins = A := rfl
theorem withAH_metadata : (withAH s A H).metadata = s.metadata := rfl
theorem withAH_hooks : (withAH s A H).hooks = H := rfl
theorem withAH_bal : (withAH s A H).bal = s.bal := rfl
theorem withAH_supply : (withAH s A H).supply = s.supply := rfl
theorem withAH_locks : (withAH s A H).locks = s.locks := rfl
theorem withAH_lastLock : (withAH s A H).lastLock = s.lastLock := rfl
theorem withAH_positions : (withAH s A H).positions = s.positions := rfl
theorem withAH_nextPos : (withAH s A H).nextPos = s.nextPos := rfl
theorem withAH_delegators : (withAH s A H).delegators = s.delegators := rfl
theorem withAH_controllers : (withAH s A H).controllers = s.controllers := rfl
theorem withAH_unpoolAllowed : (withAH s A H).unpoolAllowed = s.unpoolAllowed := rfl

end Frame

/-- replace every projection of `withAH s A H` by the projection of `s` (`rw`: also inside `Decidable` instances, so that
the discriminants of both sides become syntactically equal) -/
macro "norm_withAH" : tactic => `(tactic| (
  try rw [withAH_valid]
  try rw [withAH_moduleAccs]
  try rw [withAH_contracts]
  try rw [withAH_nativeSupply]
  try rw [withAH_feeDenom]
  try rw [withAH_fee]
  try rw [withAH_communityPool]
  try rw [withAH_gov]
  try rw [withAH_allowed]
  try rw [withAH_unbonding]
  try rw [withAH_validators]
  try rw [withAH_admins]
  try rw [withAH_metadata]
  try rw [withAH_hooks]
  try rw [withAH_bal]
  try rw [withAH_supply]
  try rw [withAH_locks]
  try rw [withAH_lastLock]
  try rw [withAH_positions]
  try rw [withAH_nextPos]
  try rw [withAH_delegators]
  try rw [withAH_controllers]
  try rw [withAH_unpoolAllowed]))

/-- both sides are the same `if` tree; push `Option.map` to the leaves -/
macro "frame_done" : tactic =>
  `(tactic| first | rfl | (simp only [apply_ite (Option.map _), Option.map_none, Option.map_some] <;> rfl))

section Frame
variable (s : State) (A H : List (String × String))

theorem lkBegin_frame (a : String) (i : Nat) (x : Int) :
    lkBegin (withAH s A H) a i x = (lkBegin s a i x).map (withAH · A H) := by
  unfold lkBegin; norm_withAH; cases aget i s.locks <;> frame_done
theorem lkExtend_frame (a : String) (i : Nat) (x : Int) :
    lkExtend (withAH s A H) a i x = (lkExtend s a i x).map (withAH · A H) := by
  unfold lkExtend; norm_withAH; cases aget i s.locks <;> frame_done
theorem lkSetRecv_frame (a : String) (i : Nat) (r : String) :
    lkSetRecv (withAH s A H) a i r = (lkSetRecv s a i r).map (withAH · A H) := by
  unfold lkSetRecv; norm_withAH; cases aget i s.locks <;> frame_done
theorem lkForce_frame (a : String) (i : Nat) (x : Int) :
    lkForce (withAH s A H) a i x = (lkForce s a i x).map (withAH · A H) := by
  unfold lkForce; norm_withAH; cases aget i s.locks <;> frame_done
theorem clWithdraw_frame (a : String) (i : Nat) (k : WKind) :
    clWithdraw (withAH s A H) a i k = (clWithdraw s a i k).map (withAH · A H) := by
  unfold clWithdraw; norm_withAH; cases aget i s.positions <;> frame_done
theorem clAdd_frame (a : String) (i : Nat) (x y : Int) :
    clAdd (withAH s A H) a i x y = (clAdd s a i x y).map (withAH · A H) := by
  unfold clAdd; norm_withAH; cases aget i s.positions <;> frame_done

theorem clCollectAll_frame (a : String) : ∀ (ids : List Nat),
    clCollectAll (withAH s A H) a ids = (clCollectAll s a ids).map (withAH · A H)
  | [] => rfl
  | i :: ids => by
    unfold clCollectAll
    have ih := clCollectAll_frame a ids
    norm_withAH
    cases aget i s.positions with
    | none => rfl
    | some p =>
      simp only
      split
      · rfl
      · exact ih

theorem clCollect_frame (a : String) (ids : List Nat) :
    clCollect (withAH s A H) a ids = (clCollect s a ids).map (withAH · A H) := by
  unfold clCollect
  norm_withAH
  split
  · rfl
  · exact clCollectAll_frame s A H a ids

theorem clTransfer_frame (a : String) (ids : List Nat) (n : String) :
    clTransfer (withAH s A H) a ids n = (clTransfer s a ids n).map (withAH · A H) := by
  unfold clTransfer; norm_withAH
  cases clTransferAll s.positions (decide (a = s.gov)) a n ids <;> frame_done
theorem sfDelegate_frame (a : String) (i : Nat) (v : String) :
    sfDelegate (withAH s A H) a i v = (sfDelegate s a i v).map (withAH · A H) := by
  unfold sfDelegate; norm_withAH; cases aget i s.locks <;> frame_done
theorem sfUndelegate_frame (a : String) (i : Nat) :
    sfUndelegate (withAH s A H) a i = (sfUndelegate s a i).map (withAH · A H) := by
  unfold sfUndelegate; norm_withAH; cases aget i s.locks <;> frame_done
theorem sfUnbond_frame (a : String) (i : Nat) :
    sfUnbond (withAH s A H) a i = (sfUnbond s a i).map (withAH · A H) := by
  unfold sfUnbond; norm_withAH; cases aget i s.locks <;> frame_done
theorem sfUndelegateUnbond_frame (a : String) (i : Nat) (x : Int) :
    sfUndelegateUnbond (withAH s A H) a i x = (sfUndelegateUnbond s a i x).map (withAH · A H) := by
  unfold sfUndelegateUnbond; norm_withAH; cases aget i s.locks <;> frame_done
theorem lkBeginAll_frame (a : String) :
    lkBeginAll (withAH s A H) a = (lkBeginAll s a).map (withAH · A H) := by
  unfold lkBeginAll; norm_withAH; frame_done
theorem sfConvert_frame (a : String) (i : Nat) (v : String) :
    sfConvert (withAH s A H) a i v = (sfConvert s a i v).map (withAH · A H) := by
  unfold sfConvert canStake; norm_withAH; cases aget i s.locks <;> frame_done
theorem sfAddToCL_frame (a : String) (i : Nat) (x y n : Int) :
    sfAddToCL (withAH s A H) a i x y n = (sfAddToCL s a i x y n).map (withAH · A H) := by
  unfold sfAddToCL sfAddToCLLock
  norm_withAH
  cases aget i s.positions with
  | none => frame_done
  | some p =>
    simp only
    cases aget p.lockId s.locks <;> frame_done
theorem vpDelegateBonded_frame (a : String) (i : Nat) :
    vpDelegateBonded (withAH s A H) a i = (vpDelegateBonded s a i).map (withAH · A H) := by
  unfold vpDelegateBonded; norm_withAH; cases aget i s.locks <;> frame_done
theorem gmScaling_frame (a : String) (p : Nat) (k : Bool) :
    gmScaling (withAH s A H) a p k = (gmScaling s a p k).map (withAH · A H) := by
  unfold gmScaling; norm_withAH; cases aget p s.controllers <;> frame_done
theorem sfUnpoolNoLock_frame (a : String) (p : Nat) :
    sfUnpoolNoLock (withAH s A H) a p = (sfUnpoolNoLock s a p).map (withAH · A H) := by
  unfold sfUnpoolNoLock; norm_withAH; frame_done

/-! the tokenfactory handlers: `admins` enters through `adminOf` (a lookup) only -/

theorem adminOf_withAH (hA : ∀ d, aget d A = aget d s.admins) (d : String) : adminOf (withAH s A H) d = adminOf s d := by
  unfold adminOf
  rw [withAH_admins, hA]

theorem isFactoryDenom_withAH (d : String) : isFactoryDenom (withAH s A H) d = isFactoryDenom s d := rfl
theorem hasSupply_withAH (d : String) : hasSupply (withAH s A H) d = hasSupply s d := rfl
theorem getSupply_withAH (d : String) : getSupply (withAH s A H) d = getSupply s d := rfl

theorem tfMint_frame (hA : ∀ d, aget d A = aget d s.admins) (a d : String) (x : Int) (t : String) :
    tfMint (withAH s A H) a d x t = (tfMint s a d x t).map (withAH · A H) := by
  unfold tfMint
  rw [adminOf_withAH s A H hA, isFactoryDenom_withAH, getSupply_withAH]
  norm_withAH; frame_done

theorem tfBurn_frame (hA : ∀ d, aget d A = aget d s.admins) (a d : String) (x : Int) (f : String) :
    tfBurn (withAH s A H) a d x f = (tfBurn s a d x f).map (withAH · A H) := by
  unfold tfBurn
  rw [adminOf_withAH s A H hA, isFactoryDenom_withAH, getSupply_withAH]
  norm_withAH; frame_done

theorem tfForce_frame (hA : ∀ d, aget d A = aget d s.admins) (a d : String) (x : Int) (f t : String) :
    tfForce (withAH s A H) a d x f t = (tfForce s a d x f t).map (withAH · A H) := by
  unfold tfForce
  rw [adminOf_withAH s A H hA, isFactoryDenom_withAH]
  norm_withAH
  cases pay s.bal f t d x <;> frame_done

theorem tfSetMeta_frame (hA : ∀ d, aget d A = aget d s.admins) (a b : String) (v : Bool) (t : String) :
    tfSetMeta (withAH s A H) a b v t = (tfSetMeta s a b v t).map (withAH · A H) := by
  unfold tfSetMeta
  rw [adminOf_withAH s A H hA]
  norm_withAH; frame_done

theorem tfCreate_frame (a sub : String) :
    tfCreate (withAH s A H) a sub = (tfCreate s a sub).map (fun r => withAH r (aset (mkDenom a sub) a A) H) := by
  unfold tfCreate
  rw [hasSupply_withAH]
  norm_withAH
  cases (if s.fee > 0 then pay s.bal a s.communityPool s.feeDenom s.fee else some s.bal) <;> frame_done

theorem tfChangeAdmin_frame (hA : ∀ d, aget d A = aget d s.admins) (a d n : String) :
    tfChangeAdmin (withAH s A H) a d n = (tfChangeAdmin s a d n).map (fun r => withAH r (aset d n A) H) := by
  unfold tfChangeAdmin
  rw [adminOf_withAH s A H hA]
  norm_withAH; frame_done

/-- the hooks store after `SetBeforeSendHook` (only its own entry changes) -/
def hookAfter (H : List (String × String)) (d cw : String) : List (String × String) :=
  if cw = "" then aerase d H else aset d cw H

theorem tfSetHook_frame (hA : ∀ d, aget d A = aget d s.admins) (a d cw : String) :
    tfSetHook (withAH s A H) a d cw = (tfSetHook s a d cw).map (fun r => withAH r A (hookAfter H d cw)) := by
  unfold tfSetHook hookAfter
  rw [adminOf_withAH s A H hA, isFactoryDenom_withAH]
  norm_withAH
  by_cases h : cw = ""
  · simp only [h, if_true]; frame_done
  · simp only [h, if_false]; frame_done

end Frame

/-! ## `Sim`: equal up to the representation of `admins` and up to `hooks` -/

/-- the second state is the first with another list for the same authority-metadata lookups and any hooks -/
def Sim (s t : State) : Prop := ∃ A H, t = withAH s A H ∧ ∀ d, aget d A = aget d s.admins

theorem Sim.refl (s : State) : Sim s s := ⟨s.admins, s.hooks, rfl, fun _ => rfl⟩

theorem Sim.symm {s t : State} (h : Sim s t) : Sim t s := by
  obtain ⟨A, H, rfl, hA⟩ := h
  exact ⟨s.admins, s.hooks, rfl, fun d => (hA d).symm⟩

theorem Sim.trans {s t u : State} (h1 : Sim s t) (h2 : Sim t u) : Sim s u := by
  obtain ⟨A, H, rfl, hA⟩ := h1
  obtain ⟨A', H', rfl, hA'⟩ := h2
  exact ⟨A', H', rfl, fun d => (hA' d).trans (hA d)⟩

/-- what a message can read of the tokenfactory store is equal on `Sim` states -/
theorem Sim.adminOf {s t : State} (h : Sim s t) (d : String) : adminOf t d = adminOf s d := by
  obtain ⟨A, H, rfl, hA⟩ := h
  exact adminOf_withAH s A H hA d

theorem clCollectAll_some (s : State) (a : String) : ∀ ids r, clCollectAll s a ids = some r → r = s := by
  intro ids
  induction ids with
  | nil => intro r h; injection h with h; exact h.symm
  | cons i t ih =>
    intro r h
    unfold clCollectAll at h
    split at h
    · cases h
    · split at h
      · cases h
      · exact ih r h

/-- one message on a re-represented state: the same outcome, and the new representation -/
theorem apply_withAH (s : State) (A H : List (String × String)) (hA : ∀ d, aget d A = aget d s.admins) (m : Msg) :
    ∃ A' H', apply (withAH s A H) m = (apply s m).map (withAH · A' H') ∧
      ∀ r, apply s m = some r → ∀ d, aget d A' = aget d r.admins := by
  have same : ∀ {f : Option State}, (∀ r, f = some r → r.admins = s.admins) →
      ∀ r, f = some r → ∀ d, aget d A = aget d r.admins := fun hf r hr d => by rw [hf r hr]; exact hA d
  cases m with
  | tfCreate a sub =>
    refine ⟨aset (mkDenom a sub) a A, H, tfCreate_frame s A H a sub, fun r hr d => ?_⟩
    have : r.admins = aset (mkDenom a sub) a s.admins := by
      simp only [apply, tfCreate] at hr
      repeat' (first | cases hr | split at hr)
      all_goals rfl
    rw [this, aget_aset, aget_aset, hA]
  | tfChangeAdmin a dn n =>
    refine ⟨aset dn n A, H, tfChangeAdmin_frame s A H hA a dn n, fun r hr d => ?_⟩
    have : r.admins = aset dn n s.admins := by
      simp only [apply, tfChangeAdmin] at hr
      repeat' (first | cases hr | split at hr)
      all_goals rfl
    rw [this, aget_aset, aget_aset, hA]
  | tfSetHook a dn cw =>
    refine ⟨A, hookAfter H dn cw, tfSetHook_frame s A H hA a dn cw, same (fun r hr => ?_)⟩
    simp only [apply, tfSetHook] at hr
    repeat' (first | cases hr | split at hr)
    all_goals rfl
  | tfMint a dn x t =>
    refine ⟨A, H, tfMint_frame s A H hA a dn x t, same (fun r hr => ?_)⟩
    simp only [apply, tfMint] at hr
    repeat' (first | cases hr | split at hr)
    all_goals rfl
  | tfBurn a dn x f =>
    refine ⟨A, H, tfBurn_frame s A H hA a dn x f, same (fun r hr => ?_)⟩
    simp only [apply, tfBurn] at hr
    repeat' (first | cases hr | split at hr)
    all_goals rfl
  | tfForce a dn x f t =>
    refine ⟨A, H, tfForce_frame s A H hA a dn x f t, same (fun r hr => ?_)⟩
    simp only [apply, tfForce] at hr
    repeat' (first | cases hr | split at hr)
    all_goals rfl
  | tfSetMeta a b v t =>
    refine ⟨A, H, tfSetMeta_frame s A H hA a b v t, same (fun r hr => ?_)⟩
    simp only [apply, tfSetMeta] at hr
    repeat' (first | cases hr | split at hr)
    all_goals rfl
  | lkBegin a i x =>
    refine ⟨A, H, lkBegin_frame s A H a i x, same (fun r hr => ?_)⟩
    simp only [apply, lkBegin] at hr
    repeat' (first | cases hr | split at hr)
    all_goals rfl
  | lkExtend a i x =>
    refine ⟨A, H, lkExtend_frame s A H a i x, same (fun r hr => ?_)⟩
    simp only [apply, lkExtend] at hr
    repeat' (first | cases hr | split at hr)
    all_goals rfl
  | lkSetRecv a i x =>
    refine ⟨A, H, lkSetRecv_frame s A H a i x, same (fun r hr => ?_)⟩
    simp only [apply, lkSetRecv] at hr
    repeat' (first | cases hr | split at hr)
    all_goals rfl
  | lkForce a i x =>
    refine ⟨A, H, lkForce_frame s A H a i x, same (fun r hr => ?_)⟩
    simp only [apply, lkForce] at hr
    repeat' (first | cases hr | split at hr)
    all_goals rfl
  | clWithdraw a i k =>
    refine ⟨A, H, clWithdraw_frame s A H a i k, same (fun r hr => ?_)⟩
    simp only [apply, clWithdraw] at hr
    repeat' (first | cases hr | split at hr)
    all_goals rfl
  | clAdd a i x y =>
    refine ⟨A, H, clAdd_frame s A H a i x y, same (fun r hr => ?_)⟩
    simp only [apply, clAdd] at hr
    repeat' (first | cases hr | split at hr)
    all_goals rfl
  | clFees a ids =>
    refine ⟨A, H, clCollect_frame s A H a ids, same (fun r hr => ?_)⟩
    simp only [apply] at hr
    unfold clCollect at hr
    split at hr
    · cases hr
    · rw [clCollectAll_some s a ids r hr]
  | clIncentives a ids =>
    refine ⟨A, H, clCollect_frame s A H a ids, same (fun r hr => ?_)⟩
    simp only [apply] at hr
    unfold clCollect at hr
    split at hr
    · cases hr
    · rw [clCollectAll_some s a ids r hr]
  | clTransfer a ids n =>
    refine ⟨A, H, clTransfer_frame s A H a ids n, same (fun r hr => ?_)⟩
    simp only [apply, clTransfer] at hr
    repeat' (first | cases hr | split at hr)
    all_goals rfl
  | sfDelegate a i v =>
    refine ⟨A, H, sfDelegate_frame s A H a i v, same (fun r hr => ?_)⟩
    simp only [apply, sfDelegate] at hr
    repeat' (first | cases hr | split at hr)
    all_goals rfl
  | sfUndelegate a i =>
    refine ⟨A, H, sfUndelegate_frame s A H a i, same (fun r hr => ?_)⟩
    simp only [apply, sfUndelegate] at hr
    repeat' (first | cases hr | split at hr)
    all_goals rfl
  | sfUnbond a i =>
    refine ⟨A, H, sfUnbond_frame s A H a i, same (fun r hr => ?_)⟩
    simp only [apply, sfUnbond] at hr
    repeat' (first | cases hr | split at hr)
    all_goals rfl
  | sfUndelegateUnbond a i x =>
    refine ⟨A, H, sfUndelegateUnbond_frame s A H a i x, same (fun r hr => ?_)⟩
    simp only [apply, sfUndelegateUnbond] at hr
    repeat' (first | cases hr | split at hr)
    all_goals rfl
  | lkBeginAll a =>
    refine ⟨A, H, lkBeginAll_frame s A H a, same (fun r hr => ?_)⟩
    simp only [apply, lkBeginAll] at hr
    repeat' (first | cases hr | split at hr)
    all_goals rfl
  | sfConvert a i v =>
    refine ⟨A, H, sfConvert_frame s A H a i v, same (fun r hr => ?_)⟩
    simp only [apply, sfConvert] at hr
    repeat' (first | cases hr | split at hr)
    all_goals rfl
  | sfMigrate a i =>
    exact ⟨A, H, rfl, fun r hr => by cases hr⟩
  | sfAddToCL a i x y n =>
    refine ⟨A, H, sfAddToCL_frame s A H a i x y n, same (fun r hr => ?_)⟩
    simp only [apply] at hr
    unfold sfAddToCL at hr
    split at hr
    · cases hr
    cases hp : aget i s.positions with
    | none => rw [hp] at hr; cases hr
    | some p =>
      rw [hp] at hr
      simp only at hr
      split at hr
      · cases hr
      split at hr
      · cases hr
      cases hl : aget p.lockId s.locks with
      | none => rw [hl] at hr; cases hr
      | some l =>
        rw [hl] at hr
        simp only at hr
        unfold sfAddToCLLock at hr
        repeat' (first | cases hr | split at hr)
        all_goals rfl
  | vpDelegateBonded a i =>
    refine ⟨A, H, vpDelegateBonded_frame s A H a i, same (fun r hr => ?_)⟩
    simp only [apply, vpDelegateBonded] at hr
    repeat' (first | cases hr | split at hr)
    all_goals rfl
  | gmScaling a p k =>
    refine ⟨A, H, gmScaling_frame s A H a p k, same (fun r hr => ?_)⟩
    simp only [apply, gmScaling] at hr
    repeat' (first | cases hr | split at hr)
    all_goals rfl
  | sfUnpoolNoLock a p =>
    refine ⟨A, H, sfUnpoolNoLock_frame s A H a p, same (fun r hr => ?_)⟩
    simp only [apply, sfUnpoolNoLock] at hr
    repeat' (first | cases hr | split at hr)
    all_goals rfl

/-- **`Sim` is a bisimulation**: every one of the 27 messages has the same outcome on `Sim` states and leads to
`Sim` states. -/
theorem step_sim {s t : State} (h : Sim s t) (m : Msg) :
    Sim (step s m).1 (step t m).1 ∧ (step s m).2 = (step t m).2 := by
  obtain ⟨A, H, rfl, hA⟩ := h
  obtain ⟨A', H', h1, h2⟩ := apply_withAH s A H hA m
  unfold step
  rw [h1]
  cases hr : apply s m with
  | none => exact ⟨⟨A, H, rfl, hA⟩, rfl⟩
  | some r => exact ⟨⟨A', H', rfl, h2 r hr⟩, rfl⟩

def run (s : State) : List Msg → State
  | [] => s
  | m :: ms => run (step s m).1 ms

def outcomes (s : State) : List Msg → List Result
  | [] => []
  | m :: ms => (step s m).2 :: outcomes (step s m).1 ms

theorem run_sim {s t : State} (h : Sim s t) : ∀ ms, Sim (run s ms) (run t ms) ∧ outcomes s ms = outcomes t ms
  | [] => ⟨h, rfl⟩
  | m :: ms => by
    obtain ⟨h1, h2⟩ := step_sim h m
    obtain ⟨h3, h4⟩ := run_sim h1 ms
    exact ⟨h3, by simp only [outcomes, h2, h4]⟩

/-! ## the import of an export -/

/-- `splitSlash` of `p/rest` when `p` has no slash -/
theorem splitSlash_prefix : ∀ (p rest : List Char), '/' ∉ p → splitSlash (p ++ '/' :: rest) = p :: splitSlash rest
  | [], rest, _ => by simp only [List.nil_append, splitSlash, if_true]
  | c :: cs, rest, h => by
    have hc : c ≠ '/' := fun e => h (by rw [e]; exact List.mem_cons_self)
    have ih := splitSlash_prefix cs rest (fun m => h (List.mem_cons_of_mem _ m))
    simp only [List.cons_append, splitSlash, if_neg hc, ih]

theorem splitSlash_ne_nil : ∀ (l : List Char), splitSlash l ≠ []
  | [] => by simp [splitSlash]
  | c :: cs => by
    unfold splitSlash
    split
    · simp
    · split <;> simp

/-- a denom built by `GetTokenDenom` deconstructs to its creator -/
theorem deconstructDenom_mkDenom (s : State) (a sub : String) (hv : validDenom (mkDenom a sub) = true)
    (hs : '/' ∉ a.toList) (ha : a ∈ s.valid) : deconstructDenom s (mkDenom a sub) = some a := by
  unfold deconstructDenom
  rw [hv]
  have e : (mkDenom a sub).toList = "factory".toList ++ '/' :: (a.toList ++ '/' :: sub.toList) := by
    unfold mkDenom
    simp only [String.toList_append]
    have : ("/" : String).toList = ['/'] := by decide
    rw [this]
    simp only [List.append_assoc, List.cons_append, List.nil_append]
    have : ("factory/" : String).toList = "factory".toList ++ ['/'] := by decide
    rw [this]
    simp only [List.append_assoc, List.cons_append, List.nil_append]
  rw [e, splitSlash_prefix _ _ (by decide), splitSlash_prefix _ _ hs]
  cases hsp : splitSlash sub.toList with
  | nil => exact absurd hsp (splitSlash_ne_nil _)
  | cons x xs =>
    simp only [Bool.not_true, Bool.false_eq_true, if_false]
    have e1 : String.ofList "factory".toList = "factory" := by decide
    have e2 : String.ofList a.toList = a := String.ofList_toList
    rw [e1, e2, if_pos ⟨rfl, ha⟩]

/-- the reachable-state invariant of the tokenfactory store (with the bank metadata next to it) under which the
module accepts its own export: one authority record per denom, every denom deconstructs to a bech32 creator, every
admin is "" or a bech32 address, every denom has bank metadata. -/
structure TFInv (s : State) : Prop where
  nodup : (s.admins.map Prod.fst).Nodup
  factory : ∀ kv ∈ s.admins, (deconstructDenom s kv.1).isSome = true
  adminOk : ∀ kv ∈ s.admins, kv.2 = "" ∨ kv.2 ∈ s.valid
  hasMeta : ∀ kv ∈ s.admins, (aget kv.1 s.metadata).isSome = true

theorem deconstructDenom_valid {s : State} {d c : String} (h : deconstructDenom s d = some c) : c ∈ s.valid := by
  unfold deconstructDenom at h
  split at h
  · cases h
  · split at h
    · split at h
      · rename_i hc; injection h with h; rw [← h]; exact hc.2
      · cases h
    · cases h

/-- the loop body on an accumulator that shares the environment and the bank metadata of `s` -/
theorem tfInitDenom_eq (s acc : State) (d a : String) (hv : acc.valid = s.valid)
    (hd : (deconstructDenom s d).isSome = true) (ha : a = "" ∨ a ∈ s.valid) (hm : (aget d acc.metadata).isSome = true) :
    ∃ c, tfInitDenom acc ⟨d, a⟩ = some { acc with admins := aset d a (aset d c acc.admins) } := by
  cases hc : deconstructDenom s d with
  | none => rw [hc] at hd; cases hd
  | some c =>
    have hcv : c ∈ s.valid := deconstructDenom_valid hc
    have hc' : deconstructDenom acc d = some c := by
      unfold deconstructDenom at hc ⊢
      rw [hv]; exact hc
    refine ⟨c, ?_⟩
    unfold tfInitDenom
    simp only [hc']
    unfold createDenomAfterValidation
    simp only [hm, if_true]
    have e1 : setAuthorityMetadata acc d c = some { acc with admins := aset d c acc.admins } := by
      unfold setAuthorityMetadata
      rw [if_neg]
      rw [hv]; exact fun h => h.2 hcv
    rw [e1]
    simp only
    unfold setAuthorityMetadata
    rw [if_neg]
    intro h
    rcases ha with ha | ha
    · exact h.1 ha
    · exact h.2 (by show a ∈ acc.valid; rw [hv]; exact ha)

/-- the whole loop: every entry lands in the store, entries not in the document keep their value -/
theorem tfInit_fold (s : State) : ∀ (l : List (String × String)) (acc : State), acc.valid = s.valid →
    acc.metadata = s.metadata → (l.map Prod.fst).Nodup →
    (∀ kv ∈ l, (deconstructDenom s kv.1).isSome = true) → (∀ kv ∈ l, kv.2 = "" ∨ kv.2 ∈ s.valid) →
    (∀ kv ∈ l, (aget kv.1 s.metadata).isSome = true) →
    ∃ A, (l.map fun kv => (⟨kv.1, kv.2⟩ : GenesisDenom)).foldlM tfInitDenom acc = some { acc with admins := A } ∧
      ∀ d, aget d A = match aget d l with | some a => some a | none => aget d acc.admins
  | [], acc, _, _, _, _, _, _ => ⟨acc.admins, rfl, fun _ => rfl⟩
  | (d0, a0) :: r, acc, hv, hm, hn, h1, h2, h3 => by
    rw [List.map_cons, List.nodup_cons] at hn
    obtain ⟨c, hc⟩ := tfInitDenom_eq s acc d0 a0 hv (h1 _ List.mem_cons_self) (h2 _ List.mem_cons_self)
      (by rw [hm]; exact h3 _ List.mem_cons_self)
    obtain ⟨A, hA1, hA2⟩ := tfInit_fold s r { acc with admins := aset d0 a0 (aset d0 c acc.admins) } hv hm hn.2
      (fun kv hk => h1 kv (List.mem_cons_of_mem _ hk)) (fun kv hk => h2 kv (List.mem_cons_of_mem _ hk))
      (fun kv hk => h3 kv (List.mem_cons_of_mem _ hk))
    refine ⟨A, ?_, fun d => ?_⟩
    · rw [List.map_cons, List.foldlM_cons]
      simp only [bind, Option.bind, hc]
      exact hA1
    · rw [hA2 d, aget_cons]
      by_cases e : d0 = d
      · subst e
        rw [if_pos rfl, aget_none_of_not_mem hn.1]
        simp only [aget_aset_self]
      · rw [if_neg e]
        simp only [aget_aset_ne e]

/-- on a state satisfying `TFInv` the export lists every record with its stored admin -/
theorem tfExport_denoms {s : State} (h : TFInv s) :
    (tfExportGenesis s).denoms = s.admins.map fun kv => (⟨kv.1, kv.2⟩ : GenesisDenom) := by
  unfold tfExportGenesis
  simp only
  apply List.map_congr_left
  intro kv hkv
  have : aget kv.1 s.admins = some kv.2 := aget_of_mem_nodup h.nodup hkv
  simp only [adminOf, this]

/-- **export → import on an invariant state**: `InitGenesis` does not panic, and the imported state is the
exported one with SOME representation of the same authority metadata and NO before-send hooks. -/
theorem tfExportImport_eq {s : State} (h : TFInv s) :
    ∃ A, tfExportImport s = some (withAH s A []) ∧ ∀ d, aget d A = aget d s.admins := by
  obtain ⟨A, h1, h2⟩ := tfInit_fold s s.admins { tfFresh s with feeDenom := s.feeDenom, fee := s.fee } rfl rfl
    h.nodup h.factory h.adminOk h.hasMeta
  refine ⟨A, ?_, fun d => ?_⟩
  · unfold tfExportImport tfInitGenesis
    rw [tfExport_denoms h]
    exact h1
  · rw [h2 d]
    cases aget d s.admins <;> rfl

/-! ## `TFInv` along histories -/

/-- what a successful message does to the environment, the authority metadata and the bank metadata -/
theorem apply_tf_effect (s r : State) (m : Msg) (h : apply s m = some r) :
    r.valid = s.valid ∧
    ((r.admins = s.admins ∧ r.metadata = s.metadata) ∨
     (∃ a sub, r.admins = aset (mkDenom a sub) a s.admins ∧ r.metadata = aset (mkDenom a sub) "" s.metadata ∧
        validDenom (mkDenom a sub) = true ∧ '/' ∉ a.toList ∧ a ∈ s.valid) ∨
     (∃ d n, m.sender = adminOf s d ∧ (n = "" ∨ n ∈ s.valid) ∧ r.admins = aset d n s.admins ∧ r.metadata = s.metadata) ∨
     (∃ b desc, r.admins = s.admins ∧ r.metadata = aset b desc s.metadata)) := by
  cases m with
  | tfMint =>
    simp only [apply, tfMint] at h
    repeat' (first | cases h | split at h)
    all_goals exact ⟨rfl, Or.inl ⟨rfl, rfl⟩⟩
  | tfBurn =>
    simp only [apply, tfBurn] at h
    repeat' (first | cases h | split at h)
    all_goals exact ⟨rfl, Or.inl ⟨rfl, rfl⟩⟩
  | tfForce =>
    simp only [apply, tfForce] at h
    repeat' (first | cases h | split at h)
    all_goals exact ⟨rfl, Or.inl ⟨rfl, rfl⟩⟩
  | tfSetHook =>
    simp only [apply, tfSetHook] at h
    repeat' (first | cases h | split at h)
    all_goals exact ⟨rfl, Or.inl ⟨rfl, rfl⟩⟩
  | lkBegin =>
    simp only [apply, lkBegin] at h
    repeat' (first | cases h | split at h)
    all_goals exact ⟨rfl, Or.inl ⟨rfl, rfl⟩⟩
  | lkExtend =>
    simp only [apply, lkExtend] at h
    repeat' (first | cases h | split at h)
    all_goals exact ⟨rfl, Or.inl ⟨rfl, rfl⟩⟩
  | lkSetRecv =>
    simp only [apply, lkSetRecv] at h
    repeat' (first | cases h | split at h)
    all_goals exact ⟨rfl, Or.inl ⟨rfl, rfl⟩⟩
  | lkForce =>
    simp only [apply, lkForce] at h
    repeat' (first | cases h | split at h)
    all_goals exact ⟨rfl, Or.inl ⟨rfl, rfl⟩⟩
  | clWithdraw =>
    simp only [apply, clWithdraw] at h
    repeat' (first | cases h | split at h)
    all_goals exact ⟨rfl, Or.inl ⟨rfl, rfl⟩⟩
  | clAdd =>
    simp only [apply, clAdd] at h
    repeat' (first | cases h | split at h)
    all_goals exact ⟨rfl, Or.inl ⟨rfl, rfl⟩⟩
  | clTransfer =>
    simp only [apply, clTransfer] at h
    repeat' (first | cases h | split at h)
    all_goals exact ⟨rfl, Or.inl ⟨rfl, rfl⟩⟩
  | sfDelegate =>
    simp only [apply, sfDelegate] at h
    repeat' (first | cases h | split at h)
    all_goals exact ⟨rfl, Or.inl ⟨rfl, rfl⟩⟩
  | sfUndelegate =>
    simp only [apply, sfUndelegate] at h
    repeat' (first | cases h | split at h)
    all_goals exact ⟨rfl, Or.inl ⟨rfl, rfl⟩⟩
  | sfUnbond =>
    simp only [apply, sfUnbond] at h
    repeat' (first | cases h | split at h)
    all_goals exact ⟨rfl, Or.inl ⟨rfl, rfl⟩⟩
  | sfUndelegateUnbond =>
    simp only [apply, sfUndelegateUnbond] at h
    repeat' (first | cases h | split at h)
    all_goals exact ⟨rfl, Or.inl ⟨rfl, rfl⟩⟩
  | lkBeginAll =>
    simp only [apply, lkBeginAll] at h
    repeat' (first | cases h | split at h)
    all_goals exact ⟨rfl, Or.inl ⟨rfl, rfl⟩⟩
  | sfConvert =>
    simp only [apply, sfConvert] at h
    repeat' (first | cases h | split at h)
    all_goals exact ⟨rfl, Or.inl ⟨rfl, rfl⟩⟩
  | vpDelegateBonded =>
    simp only [apply, vpDelegateBonded] at h
    repeat' (first | cases h | split at h)
    all_goals exact ⟨rfl, Or.inl ⟨rfl, rfl⟩⟩
  | gmScaling =>
    simp only [apply, gmScaling] at h
    repeat' (first | cases h | split at h)
    all_goals exact ⟨rfl, Or.inl ⟨rfl, rfl⟩⟩
  | sfUnpoolNoLock =>
    simp only [apply, sfUnpoolNoLock] at h
    repeat' (first | cases h | split at h)
    all_goals exact ⟨rfl, Or.inl ⟨rfl, rfl⟩⟩
  | sfMigrate => cases h
  | clFees a ids =>
    simp only [apply] at h
    unfold clCollect at h
    split at h
    · cases h
    · rw [clCollectAll_some s a ids r h]; exact ⟨rfl, Or.inl ⟨rfl, rfl⟩⟩
  | clIncentives a ids =>
    simp only [apply] at h
    unfold clCollect at h
    split at h
    · cases h
    · rw [clCollectAll_some s a ids r h]; exact ⟨rfl, Or.inl ⟨rfl, rfl⟩⟩
  | sfAddToCL a i x y n =>
    simp only [apply] at h
    unfold sfAddToCL at h
    split at h
    · cases h
    cases hp : aget i s.positions with
    | none => rw [hp] at h; cases h
    | some p =>
      rw [hp] at h
      simp only at h
      split at h
      · cases h
      split at h
      · cases h
      cases hl : aget p.lockId s.locks with
      | none => rw [hl] at h; cases h
      | some l =>
        rw [hl] at h
        simp only at h
        unfold sfAddToCLLock at h
        repeat' (first | cases h | split at h)
        all_goals exact ⟨rfl, Or.inl ⟨rfl, rfl⟩⟩
  | tfSetMeta a b v t =>
    simp only [apply, tfSetMeta] at h
    repeat' (first | cases h | split at h)
    all_goals exact ⟨rfl, Or.inr (Or.inr (Or.inr ⟨b, t, rfl, rfl⟩))⟩
  | tfChangeAdmin a d n =>
    simp only [apply, tfChangeAdmin] at h
    repeat' (first | cases h | split at h)
    all_goals (
      have h1 : ¬ a ≠ adminOf s d := by assumption
      have h2 : ¬ (n ≠ "" ∧ n ∉ s.valid) := by assumption
      refine ⟨rfl, Or.inr (Or.inr (Or.inl ⟨d, n, Classical.not_not.mp h1, ?_, rfl, rfl⟩))⟩
      by_cases e : n = ""
      · exact Or.inl e
      · exact Or.inr (Classical.not_not.mp fun hn => h2 ⟨e, hn⟩))
  | tfCreate a sub =>
    simp only [apply, tfCreate] at h
    repeat' (first | cases h | split at h)
    all_goals (
      have h1 : ¬ '/' ∈ a.toList := by assumption
      have h2 : ¬ ¬ a ∈ s.valid := by assumption
      have h3 : ¬ (!validDenom (mkDenom a sub)) = true := by assumption
      refine ⟨rfl, Or.inr (Or.inl ⟨a, sub, rfl, rfl, ?_, h1, Classical.not_not.mp h2⟩)⟩
      cases hv : validDenom (mkDenom a sub) with
      | true => rfl
      | false => rw [hv] at h3; exact absurd rfl h3)

/-- `TFInv` is preserved by every message from a real (non-empty) sender -/
theorem TFInv.step {s : State} (h : TFInv s) (m : Msg) (hs : m.sender ≠ "") : TFInv (step s m).1 := by
  unfold Auth.step
  cases hr : apply s m with
  | none => exact h
  | some r =>
    simp only
    obtain ⟨hv, heff⟩ := apply_tf_effect s r m hr
    have hdec : ∀ d, deconstructDenom r d = deconstructDenom s d := fun d => by
      unfold deconstructDenom; rw [hv]
    rcases heff with ⟨ha, hm⟩ | ⟨a, sub, ha, hm, hvd, hsl, hav⟩ | ⟨d, n, hsd, hn, ha, hm⟩ | ⟨b, desc, ha, hm⟩
    · exact ⟨by rw [ha]; exact h.nodup, fun kv hk => by rw [hdec]; exact h.factory kv (ha ▸ hk),
        fun kv hk => by rw [hv]; exact h.adminOk kv (ha ▸ hk), fun kv hk => by rw [hm]; exact h.hasMeta kv (ha ▸ hk)⟩
    · refine ⟨by rw [ha]; exact aset_nodup _ _ h.nodup, fun kv hk => ?_, fun kv hk => ?_, fun kv hk => ?_⟩
      · rw [hdec]
        rw [ha] at hk
        rcases mem_aset hk with e | ⟨hk', _⟩
        · rw [e]; simp only; rw [deconstructDenom_mkDenom s a sub hvd hsl hav]; rfl
        · exact h.factory kv hk'
      · rw [hv]
        rw [ha] at hk
        rcases mem_aset hk with e | ⟨hk', _⟩
        · rw [e]; exact Or.inr hav
        · exact h.adminOk kv hk'
      · rw [hm, aget_aset]
        rw [ha] at hk
        rcases mem_aset hk with e | ⟨hk', _⟩
        · rw [e]; simp only [if_true]; rfl
        · split
          · rfl
          · exact h.hasMeta kv hk'
    · -- ChangeAdmin by the current admin: the denom has a record (the sender is not "")
      have hkey : ∃ kv ∈ s.admins, kv.1 = d := by
        unfold adminOf at hsd
        cases hg : aget d s.admins with
        | none => rw [hg] at hsd; exact absurd hsd hs
        | some v => exact ⟨(d, v), aget_some_mem hg, rfl⟩
      obtain ⟨kv0, hk0, hd0⟩ := hkey
      refine ⟨by rw [ha]; exact aset_nodup _ _ h.nodup, fun kv hk => ?_, fun kv hk => ?_, fun kv hk => ?_⟩
      · rw [hdec]
        rw [ha] at hk
        rcases mem_aset hk with e | ⟨hk', _⟩
        · rw [e]; simp only; rw [← hd0]; exact h.factory kv0 hk0
        · exact h.factory kv hk'
      · rw [hv]
        rw [ha] at hk
        rcases mem_aset hk with e | ⟨hk', _⟩
        · rw [e]; exact hn
        · exact h.adminOk kv hk'
      · rw [hm]
        rw [ha] at hk
        rcases mem_aset hk with e | ⟨hk', _⟩
        · rw [e]; simp only; rw [← hd0]; exact h.hasMeta kv0 hk0
        · exact h.hasMeta kv hk'
    · refine ⟨by rw [ha]; exact h.nodup, fun kv hk => by rw [hdec]; exact h.factory kv (ha ▸ hk),
        fun kv hk => by rw [hv]; exact h.adminOk kv (ha ▸ hk), fun kv hk => ?_⟩
      rw [hm, aget_aset]
      split
      · rfl
      · exact h.hasMeta kv (ha ▸ hk)

theorem TFInv.run {s : State} (h : TFInv s) : ∀ (ms : List Msg), (∀ m ∈ ms, m.sender ≠ "") → TFInv (run s ms)
  | [], _ => h
  | m :: ms, hs => TFInv.run (h.step m (hs m List.mem_cons_self)) ms (fun m' hm' => hs m' (List.mem_cons_of_mem _ hm'))

end OsmoVerif.Auth
