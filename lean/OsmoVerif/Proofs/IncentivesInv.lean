/- Histories of gauge operations (`Op`, `step`, `run`) and the state invariant `Inv` that every history
preserves: per-gauge invariant, unique gauge ids, the three reference stores are disjoint and duplicate-free,
and the module account covers what all gauges still owe.  Core only. -/
import OsmoVerif.Proofs.IncentivesGauge
import OsmoVerif.Proofs.IncentivesRefs

namespace OsmoVerif.Incentives

/-! ### histories -/

inductive Op
  | routes (routed : List Denom)
  | create (perpetual : Bool) (denom : Denom) (duration : Int) (coins : Coins) (start : Int) (numEpochs : Nat)
  | add (id : Nat) (coins : Coins) (now : Int)
  | epoch (now : Int) (thr : Quotes) (locks : List Lock)

/-- one operation; a failing operation (Go error/panic, dropped with its cache context) leaves the state as it was. -/
def step (s : State) : Op → State
  | .routes r => { s with cfg := { s.cfg with routed := r } }
  | .create p dn du c st n =>
    match createGauge s p dn du c st n with
    | some s' => s'
    | none => s
  | .add id c now =>
    match addToGauge s id c now with
    | some s' => s'
    | none => s
  | .epoch now thr locks =>
    match epoch s now thr locks with
    | some r => r.1
    | none => s

def run (s : State) (ops : List Op) : State := ops.foldl step s

theorem run_nil (s : State) : run s [] = s := rfl
theorem run_append (s : State) (a b : List Op) : run s (a ++ b) = run (run s a) b := by
  simp [run, List.foldl_append]
theorem run_snoc (s : State) (a : List Op) (o : Op) : run s (a ++ [o]) = step (run s a) o := by
  simp [run, List.foldl_append]

/-! ### what the gauges still owe -/

def rem (g : Gauge) (d : Denom) : Int := amountOf g.coins d - amountOf g.distributed d

def owed : List Gauge → Denom → Int
  | [], _ => 0
  | g :: gs, d => rem g d + owed gs d

theorem owed_append (a b : List Gauge) (d : Denom) : owed (a ++ b) d = owed a d + owed b d := by
  induction a with
  | nil => simp [owed]
  | cons g gs ih => simp only [List.cons_append, owed, ih]; omega

/-! ### store lemmas -/

theorem getGauge_some {gs : List Gauge} {id : Nat} {g : Gauge} (h : getGauge gs id = some g) : g ∈ gs ∧ g.id = id := by
  unfold getGauge at h
  exact ⟨List.mem_of_find?_eq_some h, by simpa using List.find?_some h⟩

theorem map_id_setGauge (gs : List Gauge) (g : Gauge) : (setGauge gs g).map (·.id) = gs.map (·.id) := by
  unfold setGauge
  induction gs with
  | nil => rfl
  | cons x t ih =>
    simp only [List.map_cons, ih]
    split
    · rename_i h; simp [h]
    · rfl

theorem mem_setGauge {gs : List Gauge} {g x : Gauge} (h : x ∈ setGauge gs g) : x = g ∨ x ∈ gs := by
  unfold setGauge at h
  obtain ⟨y, hy, hxy⟩ := List.mem_map.mp h
  split at hxy
  · exact Or.inl hxy.symm
  · exact Or.inr (hxy ▸ hy)

theorem mem_setGauge_of_ne {gs : List Gauge} {g x : Gauge} (h : x ∈ gs) (hne : x.id ≠ g.id) : x ∈ setGauge gs g := by
  unfold setGauge
  exact List.mem_map.mpr ⟨x, h, by rw [if_neg hne]⟩

theorem setGauge_of_not_mem {gs : List Gauge} {g : Gauge} (h : g.id ∉ gs.map (·.id)) : setGauge gs g = gs := by
  unfold setGauge
  induction gs with
  | nil => rfl
  | cons x t ih =>
    simp only [List.map_cons, List.mem_cons, not_or] at h
    simp only [List.map_cons]
    rw [if_neg (fun hh => h.1 hh.symm), ih h.2]

theorem owed_setGauge {gs : List Gauge} {g0 g' : Gauge} (hn : (gs.map (·.id)).Nodup) (hm : g0 ∈ gs)
    (hid : g'.id = g0.id) (d : Denom) : owed (setGauge gs g') d = owed gs d - rem g0 d + rem g' d := by
  induction gs with
  | nil => cases hm
  | cons x t ih =>
    simp only [List.map_cons, List.nodup_cons] at hn
    rcases List.mem_cons.mp hm with h | h
    · subst h
      have hnm : g'.id ∉ t.map (·.id) := by rw [hid]; exact hn.1
      have : setGauge (g0 :: t) g' = g' :: setGauge t g' := by
        unfold setGauge; simp only [List.map_cons]; rw [if_pos hid.symm]
      rw [this, setGauge_of_not_mem hnm]
      simp only [owed]; omega
    · have hx : x.id ≠ g'.id := by
        intro hh
        apply hn.1
        rw [hh, hid]
        exact List.mem_map.mpr ⟨g0, h, rfl⟩
      have : setGauge (x :: t) g' = x :: setGauge t g' := by
        unfold setGauge; simp only [List.map_cons]; rw [if_neg hx]
      rw [this]
      simp only [owed, ih hn.2 h]; omega

theorem snapshot_spec {store : List Gauge} {ids : List Nat} {snap : List Gauge} (h : snapshot store ids = some snap) :
    snap.map (·.id) = ids ∧ ∀ g ∈ snap, g ∈ store := by
  induction ids generalizing snap with
  | nil => simp only [snapshot] at h; cases h; exact ⟨rfl, fun g hg => absurd hg List.not_mem_nil⟩
  | cons id ids ih =>
    simp only [snapshot] at h
    cases hg : getGauge store id with
    | none => rw [hg] at h; cases h
    | some g =>
      rw [hg] at h
      cases hs : snapshot store ids with
      | none => rw [hs] at h; cases h
      | some gs =>
        rw [hs] at h
        simp only [Option.map_some] at h
        cases h
        obtain ⟨i1, i2⟩ := ih hs
        obtain ⟨g1, g2⟩ := getGauge_some hg
        refine ⟨by simp only [List.map_cons, g2, i1], fun x hx => ?_⟩
        rcases List.mem_cons.mp hx with rfl | hx'
        · exact g1
        · exact i2 x hx'

/-! ### the send queue -/

theorem amountOf_infoTotal_add (info : Info) (p : Pay) (d : Denom) :
    amountOf (infoTotal (addLockRewards info p)) d = amountOf (infoTotal info) d + amountOf p.coins d := by
  induction info with
  | nil => simp [addLockRewards, infoTotal, amountOf_addCoins, amountOf]
  | cons hd t ih =>
    obtain ⟨o, r, c⟩ := hd
    simp only [addLockRewards]
    split
    · simp only [infoTotal, amountOf_addCoins]; omega
    · simp only [infoTotal, amountOf_addCoins, ih]; omega

theorem amountOf_infoTotal_foldl (pays : List Pay) (info : Info) (d : Denom) :
    amountOf (infoTotal (pays.foldl addLockRewards info)) d = amountOf (infoTotal info) d + paysAmt pays d := by
  induction pays generalizing info with
  | nil => simp [paysAmt]
  | cons p ps ih => simp only [List.foldl_cons, ih, amountOf_infoTotal_add, paysAmt]; omega

def InfoValid (info : Info) : Prop := ∀ e ∈ info, validCoins e.2.2 = true

theorem valid_addLockRewards {info : Info} {p : Pay} (hi : InfoValid info) (hp : validCoins p.coins = true) :
    InfoValid (addLockRewards info p) := by
  induction info with
  | nil =>
    intro e he
    simp only [addLockRewards, List.mem_singleton] at he
    subst he; exact hp
  | cons hd t ih =>
    obtain ⟨o, r, c⟩ := hd
    have hc : validCoins c = true := hi (o, r, c) (List.mem_cons_self ..)
    have ht : InfoValid t := fun e he => hi e (List.mem_cons_of_mem _ he)
    intro e he
    simp only [addLockRewards] at he
    split at he
    · rcases List.mem_cons.mp he with rfl | h
      · exact valid_addCoins hp hc
      · exact ht e h
    · rcases List.mem_cons.mp he with rfl | h
      · exact hc
      · exact ih ht e h

theorem valid_foldl_addLockRewards {pays : List Pay} {info : Info} (hi : InfoValid info)
    (hp : ∀ p ∈ pays, validCoins p.coins = true) : InfoValid (pays.foldl addLockRewards info) := by
  induction pays generalizing info with
  | nil => exact hi
  | cons p ps ih =>
    simp only [List.foldl_cons]
    exact ih (valid_addLockRewards hi (hp p (List.mem_cons_self ..))) (fun q hq => hp q (List.mem_cons_of_mem _ hq))

theorem valid_infoTotal {info : Info} (hi : InfoValid info) : validCoins (infoTotal info) = true := by
  induction info with
  | nil => rfl
  | cons hd t ih =>
    obtain ⟨o, r, c⟩ := hd
    simp only [infoTotal]
    exact valid_addCoins (ih (fun e he => hi e (List.mem_cons_of_mem _ he))) (hi (o, r, c) (List.mem_cons_self ..))

/-! ### the gauge loop of `Distribute` -/

theorem distributeLoop_spec {thr : MinVal} {locks : List Lock} {snap store : List Gauge} {info : Info}
    {store' : List Gauge} {info' : Info}
    (h : distributeLoop thr locks snap store info = some (store', info'))
    (hn : (store.map (·.id)).Nodup) (hsn : (snap.map (·.id)).Nodup) (hm : ∀ g ∈ snap, g ∈ store)
    (hg : ∀ g ∈ store, GInv g) (hi : InfoValid info) :
    store'.map (·.id) = store.map (·.id) ∧ (∀ g ∈ store', GInv g) ∧ InfoValid info' ∧
    ∀ d, owed store' d + amountOf (infoTotal info') d = owed store d + amountOf (infoTotal info) d := by
  induction snap generalizing store info thr with
  | nil =>
    simp only [distributeLoop] at h; cases h
    exact ⟨rfl, hg, hi, fun d => rfl⟩
  | cons g gs ih =>
    simp only [List.map_cons, List.nodup_cons] at hsn
    have hgs : ∀ x ∈ gs, x ∈ store := fun x hx => hm x (List.mem_cons_of_mem _ hx)
    have hgm : g ∈ store := hm g (List.mem_cons_self ..)
    simp only [distributeLoop] at h
    cases hd : distributeGauge thr locks g with
    | none => rw [hd] at h; cases h
    | some r =>
      rw [hd] at h
      cases r with
      | none => exact ih h hn hsn.2 hgs hg hi
      | some tp =>
        obtain ⟨total, pays⟩ := tp
        simp only at h
        have hG := hg g hgm
        obtain ⟨hvt, hvp, hta, _⟩ := distributeGauge_total hG hd
        have hid : (g.postDistribute total).id = g.id := rfl
        have hn1 : ((setGauge store (g.postDistribute total)).map (·.id)).Nodup := by rw [map_id_setGauge]; exact hn
        have hgs1 : ∀ x ∈ gs, x ∈ setGauge store (g.postDistribute total) := by
          intro x hx
          refine mem_setGauge_of_ne (hgs x hx) ?_
          intro hh
          exact hsn.1 (List.mem_map.mpr ⟨x, hx, hh⟩)
        have hg1 : ∀ x ∈ setGauge store (g.postDistribute total), GInv x := by
          intro x hx
          rcases mem_setGauge hx with rfl | hx'
          · exact GInv_postDistribute hG hd
          · exact hg x hx'
        have hi1 := valid_foldl_addLockRewards hi hvp
        obtain ⟨j1, j2, j3, j4⟩ := ih h hn1 hsn.2 hgs1 hg1 hi1
        refine ⟨by rw [j1, map_id_setGauge], j2, j3, fun d => ?_⟩
        rw [j4 d, owed_setGauge hn hgm hid d, amountOf_infoTotal_foldl, ← hta d]
        have : rem (g.postDistribute total) d = rem g d - amountOf total d := by
          show amountOf g.coins d - amountOf (addCoins g.distributed total) d = _
          rw [amountOf_addCoins]; unfold rem; omega
        omega

/-! ### the invariant -/

structure Inv (s : State) : Prop where
  g : ∀ g ∈ s.gauges, GInv g
  ids : (s.gauges.map (·.id)).Nodup
  idle : ∀ g ∈ s.gauges, g.id ≤ s.lastId
  refs : (refsIds s.upcoming ++ refsIds s.active ++ refsIds s.finished).Nodup
  refle : ∀ id ∈ refsIds s.upcoming ++ refsIds s.active ++ refsIds s.finished, id ≤ s.lastId
  vbal : validCoins s.balance = true
  bal : ∀ d, owed s.gauges d ≤ amountOf s.balance d

theorem Inv_init (cfg : Cfg) {balance : Coins} (hb : validCoins balance = true) : Inv (init cfg balance) :=
  ⟨fun _ h => absurd h List.not_mem_nil, List.nodup_nil, fun _ h => absurd h List.not_mem_nil, List.nodup_nil,
   fun _ h => absurd h List.not_mem_nil, hb,
   fun d => by simpa [init, owed] using amountOf_nonneg hb d⟩

theorem Inv_create {s s' : State} {p : Bool} {dn : Denom} {du : Int} {c : Coins} {st : Int} {n : Nat}
    (hs : Inv s) (h : createGauge s p dn du c st n = some s') : Inv s' := by
  unfold createGauge at h
  split at h; · cases h
  split at h; · cases h
  split at h; · cases h
  split at h; · cases h
  split at h; · cases h
  rename_i hvc
  have hvc : validCoins c = true := by simpa using hvc
  simp only at h
  cases ha : refsAdd s.upcoming st (s.lastId + 1) with
  | none => rw [ha] at h; cases h
  | some up =>
    rw [ha] at h
    cases h
    have hp := refsAdd_perm ha
    have hfresh : s.lastId + 1 ∉ refsIds s.upcoming ++ refsIds s.active ++ refsIds s.finished := by
      intro hh; have := hs.refle _ hh; omega
    have hperm : (refsIds up ++ refsIds s.active ++ refsIds s.finished).Perm
        ((s.lastId + 1) :: (refsIds s.upcoming ++ refsIds s.active ++ refsIds s.finished)) := by
      rw [List.append_assoc, List.append_assoc]
      exact hp.append_right _
    refine ⟨?_, ?_, ?_, ?_, ?_, ?_, ?_⟩
    · intro g hg
      rcases List.mem_append.mp hg with h1 | h1
      · exact hs.g g h1
      · simp only [List.mem_singleton] at h1; subst h1; exact GInv_new hvc
    · show (List.map (fun g : Gauge => g.id) (s.gauges ++ [_])).Nodup
      rw [List.map_append, List.nodup_append]
      refine ⟨hs.ids, by simp, ?_⟩
      intro a ha b hb
      simp only [List.map_cons, List.map_nil, List.mem_singleton] at hb
      obtain ⟨g, hg, rfl⟩ := List.mem_map.mp ha
      have := hs.idle g hg
      omega
    · intro g hg
      rcases List.mem_append.mp hg with h1 | h1
      · have := hs.idle g h1; show g.id ≤ s.lastId + 1; omega
      · simp only [List.mem_singleton] at h1; subst h1; exact Nat.le_refl _
    · exact hperm.symm.nodup (List.nodup_cons.mpr ⟨hfresh, hs.refs⟩)
    · intro id hid
      show id ≤ s.lastId + 1
      rcases List.mem_cons.mp (hperm.mem_iff.mp hid) with rfl | h1
      · exact Nat.le_refl _
      · have := hs.refle id h1; omega
    · exact valid_addCoins hs.vbal hvc
    · intro d
      show owed (s.gauges ++ [_]) d ≤ amountOf (addCoins s.balance c) d
      rw [owed_append, amountOf_addCoins]
      have := hs.bal d
      simp only [owed, rem, amountOf]
      omega

theorem Inv_add {s s' : State} {id : Nat} {c : Coins} {now : Int} (hs : Inv s) (h : addToGauge s id c now = some s') :
    Inv s' := by
  unfold addToGauge at h
  split at h; · cases h
  cases hg : getGauge s.gauges id with
  | none => rw [hg] at h; cases h
  | some g =>
    rw [hg] at h
    simp only at h
    split at h; · cases h
    split at h; · cases h
    rename_i hvc
    have hvc : validCoins c = true := by simpa using hvc
    cases h
    obtain ⟨hm, _⟩ := getGauge_some hg
    have hid : ({ g with coins := addCoins g.coins c } : Gauge).id = g.id := rfl
    refine ⟨?_, ?_, ?_, hs.refs, hs.refle, valid_addCoins hs.vbal hvc, ?_⟩
    · intro x hx
      rcases mem_setGauge hx with rfl | hx'
      · exact GInv_topup (hs.g g hm) hvc
      · exact hs.g x hx'
    · show ((setGauge s.gauges _).map (·.id)).Nodup
      rw [map_id_setGauge]; exact hs.ids
    · intro x hx
      rcases mem_setGauge hx with rfl | hx'
      · exact hs.idle g hm
      · exact hs.idle x hx'
    · intro d
      show owed (setGauge s.gauges _) d ≤ amountOf (addCoins s.balance c) d
      rw [owed_setGauge hs.ids hm hid d, amountOf_addCoins]
      have := hs.bal d
      have : rem ({ g with coins := addCoins g.coins c } : Gauge) d = rem g d + amountOf c d := by
        show amountOf (addCoins g.coins c) d - amountOf g.distributed d = _
        rw [amountOf_addCoins]; unfold rem; omega
      omega

/-- the pieces of a successful epoch. -/
theorem epoch_unfold {s : State} {now : Int} {thr : Quotes} {locks : List Lock} {s' : State} {info : Info}
    (h : epoch s now thr locks = some (s', info)) :
    ∃ up act snap store bal act' fin,
      activate now s.upcoming s.active = some (up, act) ∧ snapshot s.gauges (refsIds act) = some snap ∧
      distributeLoop ⟨thr, []⟩ locks snap s.gauges [] = some (store, info) ∧
      subCoins s.balance (infoTotal info) = some bal ∧ finishLoop store snap act s.finished = some (act', fin) ∧
      s' = { s with gauges := store, upcoming := up, active := act', finished := fin, balance := bal } := by
  unfold epoch at h
  cases h1 : activate now s.upcoming s.active with
  | none => rw [h1] at h; cases h
  | some ua =>
    obtain ⟨up, act⟩ := ua
    rw [h1] at h; simp only at h
    cases h2 : snapshot s.gauges (refsIds act) with
    | none => rw [h2] at h; cases h
    | some snap =>
      rw [h2] at h; simp only at h
      cases h3 : distributeLoop ⟨thr, []⟩ locks snap s.gauges [] with
      | none => rw [h3] at h; cases h
      | some si =>
        obtain ⟨store, info1⟩ := si
        rw [h3] at h; simp only at h
        cases h4 : subCoins s.balance (infoTotal info1) with
        | none => rw [h4] at h; cases h
        | some bal =>
          rw [h4] at h; simp only at h
          cases h5 : finishLoop store snap act s.finished with
          | none => rw [h5] at h; cases h
          | some af =>
            obtain ⟨act', fin⟩ := af
            rw [h5] at h; simp only at h
            injection h with h
            injection h with ha hb
            subst hb
            exact ⟨up, act, snap, store, bal, act', fin, rfl, h2, h3, h4, h5, ha.symm⟩

/-- the stores after an epoch hold the same ids as before. -/
theorem epoch_refs_perm {up act act' fin : Refs} {u0 a0 f0 : Refs} {F : List Nat}
    (p1 : (refsIds up ++ refsIds act).Perm (refsIds u0 ++ refsIds a0))
    (p2 : (refsIds act).Perm (F ++ refsIds act')) (p3 : (refsIds fin).Perm (F ++ refsIds f0)) :
    (refsIds up ++ refsIds act' ++ refsIds fin).Perm (refsIds u0 ++ refsIds a0 ++ refsIds f0) := by
  rw [List.perm_iff_count]
  intro x
  have c1 := p1.count_eq x
  have c2 := p2.count_eq x
  have c3 := p3.count_eq x
  simp only [List.count_append] at *
  omega

theorem Inv_epoch {s s' : State} {now : Int} {thr : Quotes} {locks : List Lock} {info : Info} (hs : Inv s)
    (h : epoch s now thr locks = some (s', info)) : Inv s' := by
  obtain ⟨up, act, snap, store, bal, act', fin, h1, h2, h3, h4, h5, rfl⟩ := epoch_unfold h
  have p1 := activate_perm h1
  obtain ⟨p2, p3⟩ := finishLoop_perm h5
  have pall := epoch_refs_perm p1 p2 p3
  -- the snapshot ids are duplicate-free
  have hmid : (refsIds up ++ refsIds act ++ refsIds s.finished).Nodup := by
    have : (refsIds up ++ refsIds act ++ refsIds s.finished).Perm (refsIds s.upcoming ++ refsIds s.active ++ refsIds s.finished) :=
      p1.append_right _
    exact this.symm.nodup hs.refs
  have hactn : (refsIds act).Nodup := by
    rw [List.append_assoc, List.nodup_append] at hmid
    exact (List.nodup_append.mp hmid.2.1).1
  obtain ⟨hsid, hsm⟩ := snapshot_spec h2
  have hsn : (snap.map (·.id)).Nodup := by rw [hsid]; exact hactn
  obtain ⟨j1, j2, j3, j4⟩ := distributeLoop_spec h3 hs.ids hsn hsm hs.g (fun _ he => absurd he List.not_mem_nil)
  obtain ⟨hvb, hab⟩ := subCoins_spec hs.vbal (valid_infoTotal j3) h4
  refine ⟨j2, by show (store.map (·.id)).Nodup; rw [j1]; exact hs.ids, ?_, pall.symm.nodup hs.refs, ?_, hvb, ?_⟩
  · intro g hg
    have : g.id ∈ store.map (·.id) := List.mem_map.mpr ⟨g, hg, rfl⟩
    rw [j1] at this
    obtain ⟨g0, hg0, he⟩ := List.mem_map.mp this
    show g.id ≤ s.lastId
    rw [← he]; exact hs.idle g0 hg0
  · intro id hid
    exact hs.refle id (pall.mem_iff.mp hid)
  · intro d
    show owed store d ≤ amountOf bal d
    rw [hab d]
    have := j4 d
    have := hs.bal d
    simp only [infoTotal, amountOf] at *
    omega

theorem Inv_step {s : State} (hs : Inv s) (o : Op) : Inv (step s o) := by
  cases o with
  | routes r => exact ⟨hs.g, hs.ids, hs.idle, hs.refs, hs.refle, hs.vbal, hs.bal⟩
  | create p dn du c st n =>
    simp only [step]
    cases h : createGauge s p dn du c st n with
    | none => exact hs
    | some s' => exact Inv_create hs h
  | add id c now =>
    simp only [step]
    cases h : addToGauge s id c now with
    | none => exact hs
    | some s' => exact Inv_add hs h
  | epoch now thr locks =>
    simp only [step]
    cases h : epoch s now thr locks with
    | none => exact hs
    | some r => obtain ⟨s', info⟩ := r; exact Inv_epoch hs h

theorem Inv_run {s : State} (hs : Inv s) (ops : List Op) : Inv (run s ops) := by
  unfold run
  induction ops generalizing s with
  | nil => exact hs
  | cons o ops ih => exact ih (Inv_step hs o)

end OsmoVerif.Incentives
