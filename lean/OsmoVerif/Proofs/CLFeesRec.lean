/-
C08 helpers, part 3: the position accumulator records — what `Acc.updPos`
(`initOrUpdatePositionSpreadRewardAccumulator`) and `Acc.prepareClaim` (`prepareClaimableSpreadRewards`) do when they
succeed, as equations: the record's new snapshot is the growth inside its range, the rewards moved into `unclaimed`
(or paid) are `unclaimed + round₁₈((growth inside now − snapshot) × shares)` — the accumulator formula of C15 with
"accumulator value" replaced by "growth inside the range".  Core only.
-/
import OsmoVerif.Proofs.CLFeesArith

namespace OsmoVerif.CLFeesP
open OsmoVerif.CLPool OsmoVerif.CL OsmoVerif.CLBook OsmoVerif.Num OsmoVerif.CLFees OsmoVerif.CLRewards

/-! ## record list -/

theorem getRec_setRec (recs : List Rec) (r : Rec) (x : Nat) :
    getRec (setRec recs r) x = if x = r.id then (getRec recs x).map (fun _ => r) else getRec recs x := by
  unfold getRec setRec
  induction recs with
  | nil => simp
  | cons o os ih =>
    simp only [List.map_cons, List.find?_cons]
    by_cases ho : o.id = r.id
    · simp only [ho, ↓reduceIte]
      by_cases hx : x = r.id
      · subst hx; simp
      · have : ¬ r.id = x := fun e => hx e.symm
        simp only [this, decide_false, hx, ↓reduceIte]
        simpa [hx] using ih
    · simp only [ho, ↓reduceIte]
      by_cases hox : o.id = x
      · have : ¬ x = r.id := by omega
        simp [hox, this]
      · simp only [hox, decide_false]
        exact ih

theorem getRec_append (recs : List Rec) (r : Rec) (x : Nat) :
    getRec (recs ++ [r]) x = match getRec recs x with
      | some v => some v
      | none => if r.id = x then some r else none := by
  unfold getRec
  rw [List.find?_append]
  cases h : List.find? (fun y => decide (y.id = x)) recs with
  | some v => simp
  | none => simp only [Option.none_or, List.find?_cons, List.find?_nil]; by_cases e : r.id = x <;> simp [e]

theorem getRec_delRec (recs : List Rec) (id x : Nat) :
    getRec (delRec recs id) x = if x = id then none else getRec recs x := by
  unfold getRec delRec
  induction recs with
  | nil => simp
  | cons o os ih =>
    by_cases ho : o.id = id
    · have : ¬ (decide (o.id ≠ id) = true) := by simp [ho]
      rw [List.filter_cons, if_neg this, ih]
      by_cases hx : x = id
      · simp [hx]
      · have : ¬ o.id = x := by omega
        simp [hx, this]
    · have : decide (o.id ≠ id) = true := by simp [ho]
      rw [List.filter_cons, if_pos this]
      simp only [List.find?_cons]
      by_cases hox : o.id = x
      · have : ¬ x = id := by omega
        simp [hox, this]
      · simp only [hox, decide_false]
        exact ih

/-! ## the reward formula -/

/-- `unclaimed + round₁₈(Δ × shares)` per component (`LegacyDec.Mul` = half-even at 18 decimals). -/
def rewardI (unclaimed delta shares : Int) : Int := unclaimed + chopRound P18 (delta * shares)

theorem Dec.mul_some {a b c : Int} (h : Dec.mul a b = some c) : c = chopRound P18 (a * b) := by
  unfold Dec.mul chkDec at h
  split at h
  · injection h with h; exact h.symm
  · cases h

theorem V2.mulDec_some {x z : V2} {sh : Int} (h : V2.mulDec x sh = some z) : ∀ s, get s z = chopRound P18 (get s x * sh) := by
  unfold V2.mulDec at h
  simp only [Option.bind_eq_some_iff, Option.map_eq_some_iff] at h
  obtain ⟨a, ha, b, hb, e⟩ := h
  subst e
  intro s; cases s
  · exact Dec.mul_some hb
  · exact Dec.mul_some ha

/-- `GetTotalRewards` against `snapshot + growth outside`: the growth inside since the snapshot, times the
shares, rounded, plus what was unclaimed; the difference is non-negative (else `DecCoins.Sub` panics). -/
theorem totalRewards_some {cur l u : Int} {G outside snap snap1 unclaimed total : V2} {outs : List (Int × V2)} {shares : Int}
    (ho : growthOutside cur G outs l u = some outside) (h1 : V2.add snap outside = some snap1)
    (h : totalRewards G shares snap1 unclaimed = some total) :
    ∀ s, get s total = rewardI (get s unclaimed) (get s (insideZ cur G outs l u) - get s snap) shares ∧
      0 ≤ get s (insideZ cur G outs l u) - get s snap := by
  intro s
  unfold totalRewards at h
  simp only [Option.bind_eq_some_iff] at h
  obtain ⟨diff, hd, acc, hm, ht⟩ := h
  have e1 := (V2.sub_some hd).1 s
  have e1' := (V2.sub_some hd).2 s
  have e2 := V2.add_some h1 s
  have e3 := growthOutside_some ho s
  have e4 : get s diff = get s (insideZ cur G outs l u) - get s snap := by
    rw [e1, e2, e3, get_insideZ]; unfold insideI; omega
  refine ⟨?_, by rw [← e4]; exact e1'⟩
  rw [V2.add_some ht s, V2.mulDec_some hm s, e4]; rfl

/-! ## `Acc.updPos` -/

theorem updPos_new {a a' : Acc} {cur l u : Int} {id : Nat} {d : Int} (hn : getRec a.recs id = none)
    (h : Acc.updPos a cur l u id d = some a') :
    0 < d ∧ a'.global = a.global ∧ a'.outs = a.outs ∧ a'.totalShares = a.totalShares + d ∧
    a'.recs = a.recs ++ [⟨id, d, insideZ cur a.global a.outs l u, V2.zero⟩] := by
  unfold Acc.updPos at h
  simp only [Option.bind_eq_some_iff] at h
  obtain ⟨outside, ho, inside, hi, h⟩ := h
  rw [hn] at h
  simp only at h
  split at h
  · cases h
  · rename_i hd
    simp only [Option.map_eq_some_iff] at h
    obtain ⟨tot, ht, e⟩ := h
    subst e
    have := inside_of_outside ho hi
    subst this
    exact ⟨by omega, rfl, rfl, Dec.add_some ht, rfl⟩

/-- an existing record: shares adjusted, snapshot := growth inside now, rewards since the old snapshot moved to `unclaimed`. -/
theorem updPos_old_spec {a a' : Acc} {cur l u : Int} {id : Nat} {d : Int} {r : Rec} (hr : getRec a.recs id = some r)
    (h : Acc.updPos a cur l u id d = some a') :
    ∃ rewards : V2, d ≠ 0 ∧ (d < 0 → -d ≤ r.shares) ∧
      a'.global = a.global ∧ a'.outs = a.outs ∧ a'.totalShares = a.totalShares + d ∧
      a'.recs = setRec a.recs ⟨id, r.shares + d, insideZ cur a.global a.outs l u, rewards⟩ ∧
      ∀ s, get s rewards = rewardI (get s r.unclaimed) (get s (insideZ cur a.global a.outs l u) - get s r.snap) r.shares ∧
        0 ≤ get s (insideZ cur a.global a.outs l u) - get s r.snap := by
  unfold Acc.updPos at h
  simp only [Option.bind_eq_some_iff] at h
  obtain ⟨outside, ho, inside, hi, h⟩ := h
  rw [hr] at h
  simp only [Option.bind_eq_some_iff] at h
  obtain ⟨snap1, h1, h⟩ := h
  split at h
  · cases h
  · rename_i hd0
    split at h
    · cases h
    · rename_i hneg
      simp only [Option.bind_eq_some_iff, Option.map_eq_some_iff] at h
      obtain ⟨rewards, hrew, sh, hsh, tot, htot, e⟩ := h
      subst e
      have := inside_of_outside ho hi
      subst this
      refine ⟨rewards, hd0, fun hlt => ?_, rfl, rfl, Dec.add_some htot, ?_, totalRewards_some ho h1 hrew⟩
      · apply Classical.byContradiction; intro hc; exact hneg ⟨hlt, by omega⟩
      · rw [Dec.add_some hsh]

/-! ## `Acc.prepareClaim` -/

/-- `scaleDownSpreadRewardAmount` as an integer expression. -/
def scaleDownZ (q scale : Int) : Int := ((q * P18 * P18).tdiv scale).tdiv P18

/-- whole tokens paid for an accumulated (scaled) reward `x` (raw 18 decimals): truncate, then scale down. -/
def claimAmt (scale x : Int) : Int := if scale = P18 then x.tdiv P18 else scaleDownZ (x.tdiv P18) scale

theorem truncOne_some {x q ch : Int} (h : V2.truncOne x = some (q, ch)) : q = x.tdiv P18 ∧ ch = x - q * P18 ∧ 0 ≤ q ∧ 0 ≤ ch := by
  unfold V2.truncOne at h
  simp only [Option.bind_eq_some_iff] at h
  obtain ⟨q', hq, ch', hch, h⟩ := h
  split at h
  · cases h
  · rename_i hn
    simp only [Option.some.injEq, Prod.mk.injEq] at h
    obtain ⟨e1, e2⟩ := h
    subst e1; subst e2
    have e3 : q' = x.tdiv P18 := by
      unfold Dec.truncateInt chkInt at hq
      split at hq
      · injection hq with hq; exact hq.symm
      · cases hq
    exact ⟨e3, Dec.sub_some hch, by omega, by omega⟩

theorem scaleDown_some {q scale c : Int} (h : scaleDown q scale = some c) : c = scaleDownZ q scale := by
  unfold scaleDown at h
  simp only [Option.bind_eq_some_iff] at h
  obtain ⟨x, hx, h⟩ := h
  unfold Dec.quoTruncate at hx
  split at hx
  · cases hx
  · unfold chkDec at hx
    split at hx
    · injection hx with hx
      unfold Dec.truncateInt chkInt at h
      split at h
      · injection h with h
        rw [← h, ← hx]; unfold scaleDownZ; rw [Int.mul_assoc]
      · cases h
    · cases hx

/-- the forfeited dust that goes back into the accumulator (scaling factor one only), per unit of total shares. -/
def dustGrowthI (scale total totalShares : Int) : Int :=
  if scale = P18 then
    (if totalShares = 0 then 0 else ((total - total.tdiv P18 * P18) * P18).tdiv totalShares)
  else 0

theorem prepareClaim_spec {a a' : Acc} {scale cur l u : Int} {id : Nat} {c : Int × Int}
    (h : Acc.prepareClaim a scale cur l u id = some (a', c)) :
    ∃ (r : Rec) (total : V2), getRec a.recs id = some r ∧
      (∀ s, get s total = rewardI (get s r.unclaimed) (get s (insideZ cur a.global a.outs l u) - get s r.snap) r.shares ∧
        0 ≤ get s (insideZ cur a.global a.outs l u) - get s r.snap ∧ 0 ≤ get s total) ∧
      c = (claimAmt scale total.a, claimAmt scale total.b) ∧
      a'.outs = a.outs ∧ a'.totalShares = a.totalShares ∧
      a'.recs = (if r.shares = 0 then delRec a.recs id
                 else setRec a.recs ⟨id, r.shares, insideZ cur a.global a.outs l u, V2.zero⟩) ∧
      (∀ s, get s a'.global = get s a.global + dustGrowthI scale (get s total) a.totalShares) := by
  unfold Acc.prepareClaim at h
  cases hr : getRec a.recs id with
  | none => rw [hr] at h; cases h
  | some r =>
    rw [hr] at h
    simp only [Option.bind_eq_some_iff, Option.map_eq_some_iff, Prod.mk.injEq] at h
    obtain ⟨outside, ho, snap1, h1, total, htot, ⟨coins, dust⟩, htr, recs', hrecs, ⟨claimed, fdust⟩, hsc, global', hg, e1, e2⟩ := h
    subst e1; subst e2
    -- truncation
    unfold V2.truncateDecimal at htr
    simp only [Option.bind_eq_some_iff, Option.map_eq_some_iff, Prod.mk.injEq] at htr
    obtain ⟨⟨qa, ca⟩, hta, ⟨qb, cb⟩, htb, e3, e4⟩ := htr
    simp only at e3 e4
    subst e3; subst e4
    obtain ⟨qa1, qa2, qa3, qa4⟩ := truncOne_some hta
    obtain ⟨qb1, qb2, qb3, qb4⟩ := truncOne_some htb
    subst qa1; subst qb1
    have hpa := Int.mul_nonneg qa3 (show (0 : Int) ≤ P18 by decide)
    have hpb := Int.mul_nonneg qb3 (show (0 : Int) ≤ P18 by decide)
    have hrew := totalRewards_some ho h1 htot
    have htotpos : ∀ s, 0 ≤ get s total := by
      intro s; cases s
      · show 0 ≤ total.b; omega
      · show 0 ≤ total.a; omega
    refine ⟨r, total, rfl, fun s => ⟨(hrew s).1, (hrew s).2, htotpos s⟩, ?_, rfl, rfl, ?_, ?_⟩
    · -- claimed
      unfold claimAmt
      by_cases hs : scale = P18
      · rw [if_pos hs] at hsc
        simp only [Option.some.injEq, Prod.mk.injEq] at hsc
        rw [if_pos hs, if_pos hs, ← hsc.1]
      · rw [if_neg hs] at hsc
        simp only [Option.bind_eq_some_iff, Option.map_eq_some_iff, Prod.mk.injEq] at hsc
        obtain ⟨c0, hc0, c1, hc1, e5, _⟩ := hsc
        rw [if_neg hs, if_neg hs, ← e5, scaleDown_some hc0, scaleDown_some hc1]
    · -- records
      by_cases hz : r.shares = 0
      · rw [if_pos hz] at hrecs ⊢; injection hrecs with hrecs; exact hrecs.symm
      · rw [if_neg hz] at hrecs ⊢
        simp only [Option.map_eq_some_iff] at hrecs
        obtain ⟨inside, hi, e⟩ := hrecs
        rw [← e, inside_of_outside ho hi]
    · -- global
      intro s
      unfold dustGrowthI
      by_cases hs : scale = P18
      · rw [if_pos hs] at hsc
        simp only [Option.some.injEq, Prod.mk.injEq] at hsc
        obtain ⟨_, e6⟩ := hsc
        subst e6
        rw [if_pos hs]
        by_cases hz : (V2.isZero ⟨ca, cb⟩ = true ∨ a.totalShares = 0)
        · rw [if_pos hz] at hg
          injection hg with hg
          subst hg
          show get s a.global = get s a.global + _
          rcases hz with hz | hz
          · simp only [V2.isZero, Bool.and_eq_true, decide_eq_true_eq] at hz
            have : get s total - (get s total).tdiv P18 * P18 = 0 := by
              cases s
              · show total.b - total.b.tdiv P18 * P18 = 0; omega
              · show total.a - total.a.tdiv P18 * P18 = 0; omega
            rw [this]; simp
          · rw [if_pos hz]; omega
        · rw [if_neg hz] at hg
          simp only [not_or] at hz
          simp only [Option.bind_eq_some_iff] at hg
          obtain ⟨per, hper, hg⟩ := hg
          rw [V2.add_some hg s, if_neg hz.2]
          unfold V2.quoTruncate at hper
          simp only [Option.bind_eq_some_iff, Option.map_eq_some_iff] at hper
          obtain ⟨pa, hqa, pb, hqb, e7⟩ := hper
          subst e7
          have qt : ∀ {x y z : Int}, Dec.quoTruncate x y = some z → z = (x * P18).tdiv y := by
            intro x y z hq
            unfold Dec.quoTruncate at hq
            split at hq
            · cases hq
            · unfold chkDec at hq
              split at hq
              · injection hq with hq; exact hq.symm
              · cases hq
          cases s
          · show a.global.b + pb = a.global.b + ((total.b - total.b.tdiv P18 * P18) * P18).tdiv a.totalShares
            rw [qt hqb, qb2]
          · show a.global.a + pa = a.global.a + ((total.a - total.a.tdiv P18 * P18) * P18).tdiv a.totalShares
            rw [qt hqa, qa2]
      · rw [if_neg hs] at hsc
        simp only [Option.bind_eq_some_iff, Option.map_eq_some_iff, Prod.mk.injEq] at hsc
        obtain ⟨c0, hc0, c1, hc1, _, e6⟩ := hsc
        subst e6
        rw [if_neg hs]
        have : (V2.isZero V2.zero = true ∨ a.totalShares = 0) := Or.inl rfl
        rw [if_pos this] at hg
        injection hg with hg
        subst hg
        show get s a.global = get s a.global + 0
        omega

end OsmoVerif.CLFeesP
