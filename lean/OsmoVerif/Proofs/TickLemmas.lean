/-
Helper lemmas for Props/C14Mono: the closed form `F` of tick → price, its successor step and strict
monotonicity (pure integer arithmetic), the tie of `F` to the executable model `Tick.tickToPrice`, and the
square-root lemmas (strict increase of a least root, 36-digit vs 18-digit·10^18 roots) used for
`Tick.tickToSqrtPrice`.  Proof file: single Mathlib tactic modules only.
-/
import OsmoVerif.Model.Tick
import OsmoVerif.Proofs.NumLemmas
import OsmoVerif.Props.C13
import Mathlib.Tactic.Ring
import Mathlib.Tactic.Linarith
import Mathlib.Tactic.Positivity
import Mathlib.Tactic.NormNum

namespace OsmoVerif.Tick
open OsmoVerif.Num OsmoVerif.MathM OsmoVerif.Gen OsmoVerif.Props.C13

/-! ## the closed form -/

/-- Closed form of the raw (36-decimal) price of tick `t`.
`t ≥ 0`, `g = t / 9·10^6`, `a = t % 9·10^6`:  `10^g · (1 + a·10^-6)`  = `(10^6 + a) · 10^(30+g)` raw;
`t < 0`, `u = -t`, `g' = u / 9·10^6`, `a' = u % 9·10^6`: `10^-(g'+1) · (10 − a'·10^-6)` = `(10^7 − a') · 10^(29−g')` raw. -/
def F (t : Int) : Int :=
  if 0 ≤ t then (10 ^ 6 + t % 9000000) * 10 ^ (30 + t / 9000000).toNat
  else (10 ^ 7 - (-t) % 9000000) * 10 ^ (29 - (-t) / 9000000).toNat

theorem F_nonneg (g : Nat) (a : Int) (h0 : 0 ≤ a) (h1 : a < 9000000) :
    F (9000000 * g + a) = (10 ^ 6 + a) * 10 ^ (30 + g) := by
  unfold F
  have h2 : (9000000 * (g : Int) + a) / 9000000 = g := by omega
  have h3 : (9000000 * (g : Int) + a) % 9000000 = a := by omega
  rw [if_pos (by omega), h2, h3]
  have : (30 + (g : Int)).toNat = 30 + g := by omega
  rw [this]

theorem F_neg (g : Nat) (a : Int) (h0 : 0 ≤ a) (h1 : a < 9000000) (hp : 0 < 9000000 * (g : Int) + a) :
    F (-(9000000 * g + a)) = (10 ^ 7 - a) * 10 ^ (29 - g) := by
  unfold F
  have h2 : (9000000 * (g : Int) + a) / 9000000 = g := by omega
  have h3 : (9000000 * (g : Int) + a) % 9000000 = a := by omega
  rw [if_neg (by omega), Int.neg_neg, h2, h3]
  have : (29 - (g : Int)).toNat = 29 - g := by omega
  rw [this]

theorem F_step (t : Int) (h : -270000000 < t) : 0 < F t ∧ F t ≤ (F (t + 1) - F t) * 10 ^ 7 := by
  rcases Int.lt_or_le t 0 with hneg | hpos
  · -- negative ticks
    obtain ⟨g, hg⟩ : ∃ g : Nat, (-t) / 9000000 = g := ⟨((-t) / 9000000).toNat, by omega⟩
    have hg29 : g ≤ 29 := by omega
    generalize ha : (-t) % 9000000 = a at *
    have ht : t = -(9000000 * (g : Int) + a) := by omega
    have hB : (0 : Int) < 10 ^ (29 - g) := by positivity
    rcases Int.lt_or_le 0 a with ha1 | ha0
    · -- same decade (or t = -1 → 0 handled here when g = 0, a = 1)
      rcases Int.lt_or_le t (-1) with hlt | hge
      · have e1 : F t = (10 ^ 7 - a) * 10 ^ (29 - g) := by
          rw [ht]; exact F_neg g a (by omega) (by omega) (by omega)
        have e2 : F (t + 1) = (10 ^ 7 - (a - 1)) * 10 ^ (29 - g) := by
          have : t + 1 = -(9000000 * (g : Int) + (a - 1)) := by omega
          rw [this]; exact F_neg g (a - 1) (by omega) (by omega) (by omega)
        rw [e1, e2]
        generalize (10 : Int) ^ (29 - g) = B at *
        constructor
        · apply Int.mul_pos <;> omega
        · nlinarith
      · have : t = -1 := by omega
        subst this
        decide +kernel
    · have ha0 : a = 0 := by omega
      subst ha0
      obtain ⟨k, rfl⟩ : ∃ k, g = k + 1 := ⟨g - 1, by omega⟩
      have e1 : F t = (10 ^ 7 - 0) * 10 ^ (29 - (k + 1)) := by
        rw [ht]; exact F_neg (k + 1) 0 (by omega) (by omega) (by omega)
      have e2 : F (t + 1) = (10 ^ 7 - 8999999) * 10 ^ (29 - k) := by
        have : t + 1 = -(9000000 * (k : Int) + 8999999) := by omega
        rw [this]; exact F_neg k 8999999 (by omega) (by omega) (by omega)
      have e3 : (10 : Int) ^ (29 - k) = 10 ^ (29 - (k + 1)) * 10 := by
        have : 29 - k = (29 - (k + 1)) + 1 := by omega
        rw [this, Int.pow_succ]
      rw [e1, e2, e3]
      generalize (10 : Int) ^ (29 - (k + 1)) = B at *
      constructor <;> omega
  · obtain ⟨g, hg⟩ : ∃ g : Nat, t / 9000000 = g := ⟨(t / 9000000).toNat, by omega⟩
    generalize ha : t % 9000000 = a at *
    have ht : t = 9000000 * (g : Int) + a := by omega
    have hB : (0 : Int) < 10 ^ (30 + g) := by positivity
    have e1 : F t = (10 ^ 6 + a) * 10 ^ (30 + g) := by
      rw [ht]; exact F_nonneg g a (by omega) (by omega)
    rcases Int.lt_or_le a 8999999 with hlt | hge
    · have e2 : F (t + 1) = (10 ^ 6 + (a + 1)) * 10 ^ (30 + g) := by
        have : t + 1 = 9000000 * (g : Int) + (a + 1) := by omega
        rw [this]; exact F_nonneg g (a + 1) (by omega) (by omega)
      rw [e1, e2]
      generalize (10 : Int) ^ (30 + g) = B at *
      constructor
      · apply Int.mul_pos <;> omega
      · nlinarith
    · have : a = 8999999 := by omega
      subst this
      have e2 : F (t + 1) = (10 ^ 6 + 0) * 10 ^ (30 + (g + 1)) := by
        have : t + 1 = 9000000 * ((g + 1 : Nat) : Int) + 0 := by push_cast; omega
        rw [this]; exact F_nonneg (g + 1) 0 (by omega) (by omega)
      have e3 : (10 : Int) ^ (30 + (g + 1)) = 10 ^ (30 + g) * 10 := by
        rw [← Nat.add_assoc, Int.pow_succ]
      rw [e1, e2, e3]
      generalize (10 : Int) ^ (30 + g) = B at *
      constructor <;> omega

theorem strictMono_of_succ (f : Int → Int) (lo hi : Int)
    (h : ∀ t, lo ≤ t → t < hi → f t < f (t + 1)) :
    ∀ t1 t2, lo ≤ t1 → t1 < t2 → t2 ≤ hi → f t1 < f t2 := by
  have key : ∀ (n : Nat) (t1 : Int), lo ≤ t1 → t1 + n + 1 ≤ hi → f t1 < f (t1 + n + 1) := by
    intro n
    induction n with
    | zero => intro t1 hl hh; simpa using h t1 hl (by omega)
    | succ n ih =>
      intro t1 hl hh
      have a := ih t1 hl (by omega)
      have b := h (t1 + n + 1) (by omega) (by omega)
      have : t1 + ((n + 1 : Nat) : Int) + 1 = t1 + n + 1 + 1 := by omega
      rw [this]; omega
  intro t1 t2 hl hlt hh
  have := key (t2 - t1 - 1).toNat t1 hl (by omega)
  have e : t1 + ((t2 - t1 - 1).toNat : Int) + 1 = t2 := by omega
  rwa [e] at this

theorem F_succ_lt (t : Int) (h : -270000000 < t) : F t < F (t + 1) := by
  obtain ⟨a, b⟩ := F_step t h
  by_contra hc
  have : (F (t + 1) - F t) * 10 ^ 7 ≤ 0 := by
    apply Int.mul_nonpos_of_nonpos_of_nonneg <;> omega
  omega

theorem F_strictMono {t1 t2 : Int} (h : -270000000 < t1) (hlt : t1 < t2) : F t1 < F t2 :=
  strictMono_of_succ F (-269999999) t2 (fun t a _ => F_succ_lt t (by omega)) t1 t2 (by omega) hlt (Int.le_refl _)

theorem F_mono {t1 t2 : Int} (h : -270000000 < t1) (hle : t1 ≤ t2) : F t1 ≤ F t2 := by
  rcases Int.lt_or_eq_of_le hle with h' | h'
  · exact Int.le_of_lt (F_strictMono h h')
  · rw [h']

theorem F_lo : F (-269999999) = 1000001 := by decide +kernel
theorem F_hi : F 342000000 = 10 ^ 74 := by decide +kernel
theorem F_launch : F (-108000000) = 10 ^ 24 := by decide +kernel
theorem F_zero : F 0 = 10 ^ 36 := by decide +kernel

theorem geoDist_eq : geoDist = 9000000 := by decide +kernel
theorem tick_consts :
    CL.MinInitializedTick = -108000000 ∧ CL.MaxTick = 342000000 ∧ CL.MinInitializedTickV2 = -270000000 ∧
    CL.MinCurrentTickV2 = -270000001 ∧ CL.ExponentAtPriceOne = -6 ∧
    CL.MaxSpotPriceBigDec = 10 ^ 74 ∧ CL.MinSpotPriceV2 = 10 ^ 6 := by decide +kernel

theorem fits_of_bounds {x : Int} (h0 : 0 ≤ x) (h1 : x ≤ 10 ^ 74) :
    fitsBits Osmomath.maxDecBitLen x = true := by
  apply lt_fitsBits
  have : ((10 : Int) ^ 74).natAbs < 2 ^ Osmomath.maxDecBitLen := by decide +kernel
  omega

theorem tickToPrice_eq_F {t : Int} (h1 : -270000000 < t) (h2 : t ≤ 342000000) :
    tickToPrice t = some (F t) := by
  obtain ⟨c1, c2, c3, c4, c5, c6, c7⟩ := tick_consts
  have hlo : 10 ^ 6 ≤ F t := by have := F_mono (t1 := -269999999) (t2 := t) (by omega) (by omega); rw [F_lo] at this; omega
  have hhi : F t ≤ 10 ^ 74 := by have := F_mono (t1 := t) (t2 := 342000000) (by omega) h2; rwa [F_hi] at this
  by_cases h0 : t = 0
  · subst h0; decide +kernel
  have hs : ¬ (t = CL.MinInitializedTickV2 ∨ t = CL.MinCurrentTickV2) := by omega
  have hag : tickToAdditiveGeometric t = some (t - t.tdiv 9000000 * 9000000, t.tdiv 9000000) := by
    unfold tickToAdditiveGeometric
    rw [if_neg h0, if_neg hs, if_neg (by omega), if_neg (by omega), geoDist_eq]
  have hbound : ¬ (F t > CL.MaxSpotPriceBigDec ∨ F t < CL.MinSpotPriceV2) := by rw [c6, c7]; omega
  unfold tickToPrice
  rw [if_neg h0, if_neg hs, hag]
  simp only [bind, c5, Option.bind_some]
  have hfit : BigDec.mulInt = fun a b => chk (a * b) := rfl
  rcases Int.lt_or_le t 0 with hneg | hpos
  · obtain ⟨g, hg⟩ : ∃ g : Nat, (-t) / 9000000 = g := ⟨((-t) / 9000000).toNat, by omega⟩
    generalize ha : (-t) % 9000000 = a at *
    have ht : t = -(9000000 * (g : Int) + a) := by omega
    have hF : F t = (10 ^ 7 - a) * 10 ^ (29 - g) := by
      rw [ht]; exact F_neg g a (by omega) (by omega) (by omega)
    have hd : t.tdiv 9000000 = -(g : Int) := by
      rw [ht, Int.neg_tdiv, Int.tdiv_eq_ediv_of_nonneg (by omega)]; omega
    have hp : powTenBigDec (-6 + -(g : Int) - 1) = some (10 ^ (29 - g)) := by
      unfold powTenBigDec
      rw [if_neg (by omega), if_pos (by omega)]
      have : 36 - (-(-6 + -(g : Int) - 1)).toNat = 29 - g := by omega
      rw [this]
    rw [if_pos hneg, if_pos hneg, hd, hp]
    simp only [Option.bind_some, hfit]
    have e : (10 : Int) ^ (29 - g) * (10000000 + (t - -(g : Int) * 9000000)) = F t := by
      rw [hF, Int.mul_comm]; congr 1; omega
    rw [e, chk_of_fits (fits_of_bounds (by omega) hhi)]
    simp only [Option.bind_some]
    rw [if_neg hbound]
  · obtain ⟨g, hg⟩ : ∃ g : Nat, t / 9000000 = g := ⟨(t / 9000000).toNat, by omega⟩
    generalize ha : t % 9000000 = a at *
    have ht : t = 9000000 * (g : Int) + a := by omega
    have hF : F t = (10 ^ 6 + a) * 10 ^ (30 + g) := by
      rw [ht]; exact F_nonneg g a (by omega) (by omega)
    have hd : t.tdiv 9000000 = (g : Int) := by
      rw [Int.tdiv_eq_ediv_of_nonneg hpos]; exact hg
    have hp : powTenBigDec (-6 + (g : Int)) = some (10 ^ (30 + g)) := by
      unfold powTenBigDec
      rcases Int.lt_or_le (-6 + (g : Int)) 0 with hlt | hge
      · rw [if_neg (by omega), if_pos (by omega)]
        have : 36 - (-(-6 + (g : Int))).toNat = 30 + g := by omega
        rw [this]
      · rw [if_pos hge, if_pos (by omega)]
        obtain ⟨k, rfl⟩ : ∃ k, g = k + 6 := ⟨g - 6, by omega⟩
        have : (-6 + ((k + 6 : Nat) : Int)).toNat = k := by omega
        rw [this]
        have : P36 = 10 ^ 36 := by decide +kernel
        have e2 : 30 + (k + 6) = k + 36 := by omega
        rw [this, ← Int.pow_add, e2]
    have hneg : ¬ t < 0 := by omega
    rw [if_neg hneg, if_neg hneg, hd, hp]
    simp only [Option.bind_some, hfit]
    have e : (10 : Int) ^ (30 + g) * (1000000 + (t - (g : Int) * 9000000)) = F t := by
      rw [hF, Int.mul_comm]; congr 1; omega
    rw [e, chk_of_fits (fits_of_bounds (by omega) hhi)]
    simp only [Option.bind_some]
    rw [if_neg hbound]

/-! ## least square roots -/

theorem msqrt_pos {S : Nat} {d r : Int} (h : monotonicSqrtRaw S d = some r) (hN : 0 < d * S) : 0 < r := by
  obtain ⟨_, hr, hsq, _⟩ := monotonicSqrtRaw_least h
  rcases Int.lt_or_eq_of_le hr with h' | h'
  · exact h'
  · rw [← h'] at hsq; omega

theorem msqrt_strict {S : Nat} {d1 d2 r1 r2 : Int}
    (h1 : monotonicSqrtRaw S d1 = some r1) (h2 : monotonicSqrtRaw S d2 = some r2)
    (hN : 10 ^ 24 ≤ d1 * S) (hrel : d1 ≤ (d2 - d1) * 10 ^ 7) : r1 < r2 := by
  have hpos := msqrt_pos h1 (by omega)
  obtain ⟨_, _, _, l1⟩ := monotonicSqrtRaw_least h1
  obtain ⟨_, hr2, g2, _⟩ := monotonicSqrtRaw_least h2
  have l1 := l1 hpos
  by_contra hc
  have hle : r2 ≤ r1 := by omega
  obtain ⟨x, rfl⟩ : ∃ x, r1 = x + 1 := ⟨r1 - 1, by omega⟩
  have hx : 0 ≤ x := by omega
  have e : x + 1 - 1 = x := by omega
  rw [e] at l1
  have hS : (0 : Int) ≤ S := by positivity
  have hsq : r2 * r2 ≤ (x + 1) * (x + 1) := Int.mul_le_mul hle hle hr2 (by omega)
  have e2 : (x + 1) * (x + 1) = x * x + 2 * x + 1 := by ring
  have e3 : d2 * S = d1 * S + (d2 - d1) * S := by ring
  have hrel' : d1 * S ≤ ((d2 - d1) * S) * 10 ^ 7 := by
    have := Int.mul_le_mul_of_nonneg_right hrel hS
    have e4 : (d2 - d1) * 10 ^ 7 * S = ((d2 - d1) * S) * 10 ^ 7 := by ring
    rwa [e4] at this
  generalize d1 * (S : Int) = N at *
  generalize (d2 - d1) * (S : Int) = D at *
  have hD : D ≤ 2 * x := by omega
  have hxx : x * x < 2 * x * 10 ^ 7 := by omega
  have hxs : x < 2 * 10 ^ 7 := by
    by_contra hge
    have : (2 * 10 ^ 7) * x ≤ x * x := Int.mul_le_mul_of_nonneg_right (by omega) hx
    omega
  omega

/-- a 36-digit least root is below an 18-digit root scaled by 10^18 when the radicands are ordered. -/
theorem msqrt_cross {p1 d2 s1 r2 : Int}
    (h1 : monotonicSqrtRaw (10 ^ 36) p1 = some s1) (h2 : monotonicSqrtRaw (10 ^ 18) d2 = some r2)
    (hle : p1 ≤ d2 * 10 ^ 18) : s1 ≤ r2 * 10 ^ 18 := by
  obtain ⟨_, hs1, _, l1⟩ := monotonicSqrtRaw_least h1
  obtain ⟨_, hr2, g2, _⟩ := monotonicSqrtRaw_least h2
  by_contra hc
  have hlt : r2 * 10 ^ 18 < s1 := by omega
  have l1 := l1 (by omega)
  have hsq : (r2 * 10 ^ 18) * (r2 * 10 ^ 18) ≤ (s1 - 1) * (s1 - 1) :=
    Int.mul_le_mul (by omega) (by omega) (by omega) (by omega)
  have e : (r2 * 10 ^ 18) * (r2 * 10 ^ 18) = (r2 * r2) * 10 ^ 36 := by ring
  have g2' : d2 * 10 ^ 18 * 10 ^ 36 ≤ (r2 * r2) * 10 ^ 36 := by
    have := Int.mul_le_mul_of_nonneg_right g2 (by norm_num : (0 : Int) ≤ 10 ^ 36)
    push_cast at this
    exact this
  have hle' : p1 * 10 ^ 36 ≤ d2 * 10 ^ 18 * 10 ^ 36 :=
    Int.mul_le_mul_of_nonneg_right hle (by norm_num)
  push_cast at l1
  omega

theorem tickToSqrtPrice_hi {t p : Int} (ht : CL.MinInitializedTick ≤ t) (hp : tickToPrice t = some p) :
    tickToSqrtPrice t = (monotonicSqrtRaw (10 ^ 18) (p.tdiv (10 ^ 18))).map (· * 10 ^ 18) := by
  unfold tickToSqrtPrice
  rw [hp]
  simp only [bind, Option.bind_some]
  rw [if_pos (by omega)]
  unfold BigDec.dec BigDec.fromDec monotonicSqrt
  have e1 : Pdiff = 10 ^ 18 := by decide +kernel
  have e2 : (10 : Nat) ^ Osmomath.DecPrecision = 10 ^ 18 := by decide +kernel
  simp only [Option.bind_some, e1, e2]
  cases monotonicSqrtRaw (10 ^ 18) (p.tdiv (10 ^ 18)) <;> rfl

theorem tickToSqrtPrice_lo {t p : Int} (ht : t < CL.MinInitializedTick) (hp : tickToPrice t = some p) :
    tickToSqrtPrice t = monotonicSqrtRaw (10 ^ 36) p := by
  unfold tickToSqrtPrice
  rw [hp]
  simp only [bind, Option.bind_some]
  rw [if_neg (by omega)]
  unfold monotonicSqrtBigDec
  have e2 : (10 : Nat) ^ Osmomath.BigDecPrecision = 10 ^ 36 := by decide +kernel
  rw [e2]

/-! ## the price on the whole range (floor ticks included) -/

/-- `F` above the floor; the two floor ticks (`MinInitializedTickV2`, `MinCurrentTickV2`) share `MinSpotPriceV2`. -/
def priceOf (t : Int) : Int := if t ≤ -270000000 then 10 ^ 6 else F t

theorem priceOf_above {t : Int} (h : -270000000 < t) : priceOf t = F t := by
  unfold priceOf; rw [if_neg (by omega)]

theorem priceOf_floor {t : Int} (h : t ≤ -270000000) : priceOf t = 10 ^ 6 := by
  unfold priceOf; rw [if_pos h]

theorem tickToPrice_eq_priceOf {t : Int} (h1 : -270000001 ≤ t) (h2 : t ≤ 342000000) :
    tickToPrice t = some (priceOf t) := by
  rcases Int.lt_or_le (-270000000) t with h | h
  · rw [priceOf_above h]; exact tickToPrice_eq_F h h2
  · rw [priceOf_floor h]
    have : t = -270000000 ∨ t = -270000001 := by omega
    rcases this with rfl | rfl <;> decide +kernel

theorem priceOf_step (t : Int) (h : -270000000 ≤ t) :
    0 < priceOf t ∧ priceOf t ≤ (priceOf (t + 1) - priceOf t) * 10 ^ 7 := by
  rcases Int.lt_or_eq_of_le h with h' | h'
  · rw [priceOf_above h', priceOf_above (by omega)]; exact F_step t h'
  · subst h'; decide +kernel

theorem priceOf_succ_lt (t : Int) (h : -270000000 ≤ t) : priceOf t < priceOf (t + 1) := by
  obtain ⟨a, b⟩ := priceOf_step t h
  by_contra hc
  have : (priceOf (t + 1) - priceOf t) * 10 ^ 7 ≤ 0 := by
    apply Int.mul_nonpos_of_nonpos_of_nonneg <;> omega
  omega

theorem priceOf_strictMono {t1 t2 : Int} (h : -270000000 ≤ t1) (hlt : t1 < t2) : priceOf t1 < priceOf t2 :=
  strictMono_of_succ priceOf (-270000000) t2 (fun t a _ => priceOf_succ_lt t a) t1 t2 h hlt (Int.le_refl _)

theorem priceOf_mono {t1 t2 : Int} (hle : t1 ≤ t2) : priceOf t1 ≤ priceOf t2 := by
  rcases Int.lt_or_le t1 (-270000000) with h | h
  · rw [priceOf_floor (by omega)]
    rcases Int.lt_or_le t2 (-270000000) with h2 | h2
    · rw [priceOf_floor (by omega)]
    · have := priceOf_floor (Int.le_refl (-270000000))
      rcases Int.lt_or_eq_of_le h2 with h3 | h3
      · have := priceOf_strictMono (Int.le_refl (-270000000)) h3; omega
      · rw [← h3, this]
  · rcases Int.lt_or_eq_of_le hle with h' | h'
    · exact Int.le_of_lt (priceOf_strictMono h h')
    · rw [h']

theorem priceOf_bounds {t : Int} (h2 : t ≤ 342000000) : 10 ^ 6 ≤ priceOf t ∧ priceOf t ≤ 10 ^ 74 := by
  constructor
  · have := priceOf_mono (t1 := -270000000) (t2 := t)
    rcases Int.lt_or_le t (-270000000) with h | h
    · rw [priceOf_floor (by omega)]
    · have := this h; rwa [priceOf_floor (Int.le_refl _)] at this
  · have := priceOf_mono h2
    rwa [priceOf_above (t := 342000000) (by omega), F_hi] at this

/-- on the launch range (`t ≥ MinInitializedTick`) the price has at most 18 decimals, so `Dec()` is exact. -/
theorem F_mul18 {t : Int} (h : -108000000 ≤ t) : ∃ v : Int, F t = v * 10 ^ 18 := by
  rcases Int.lt_or_le t 0 with hneg | hpos
  · rcases Int.lt_or_eq_of_le h with h' | h'
    · obtain ⟨g, hg⟩ : ∃ g : Nat, (-t) / 9000000 = g := ⟨((-t) / 9000000).toNat, by omega⟩
      generalize ha : (-t) % 9000000 = a at *
      have ht : t = -(9000000 * (g : Int) + a) := by omega
      have hF : F t = (10 ^ 7 - a) * 10 ^ (29 - g) := by
        rw [ht]; exact F_neg g a (by omega) (by omega) (by omega)
      have hg11 : g ≤ 11 := by omega
      refine ⟨(10 ^ 7 - a) * 10 ^ (11 - g), ?_⟩
      have : 29 - g = (11 - g) + 18 := by omega
      rw [hF, this, Int.pow_add, Int.mul_assoc]
    · subst h'; exact ⟨10 ^ 6, by decide +kernel⟩
  · obtain ⟨g, hg⟩ : ∃ g : Nat, t / 9000000 = g := ⟨(t / 9000000).toNat, by omega⟩
    generalize ha : t % 9000000 = a at *
    have ht : t = 9000000 * (g : Int) + a := by omega
    have hF : F t = (10 ^ 6 + a) * 10 ^ (30 + g) := by
      rw [ht]; exact F_nonneg g a (by omega) (by omega)
    refine ⟨(10 ^ 6 + a) * 10 ^ (12 + g), ?_⟩
    have : 30 + g = (12 + g) + 18 := by omega
    rw [hF, this, Int.pow_add, Int.mul_assoc]

/-! ## what a returned sqrt price is, in terms of `priceOf` and least roots -/
theorem sqrt_spec {t s : Int} (h1 : -270000001 ≤ t) (h2 : t ≤ 342000000) (hs : tickToSqrtPrice t = some s) :
    (t < -108000000 → monotonicSqrtRaw (10 ^ 36) (priceOf t) = some s) ∧
    (-108000000 ≤ t → ∃ v r, priceOf t = v * 10 ^ 18 ∧ monotonicSqrtRaw (10 ^ 18) v = some r ∧ s = r * 10 ^ 18) := by
  have hp := tickToPrice_eq_priceOf h1 h2
  have c1 : CL.MinInitializedTick = -108000000 := by decide +kernel
  constructor
  · intro hlt
    rw [tickToSqrtPrice_lo (by omega) hp] at hs; exact hs
  · intro hge
    rw [tickToSqrtPrice_hi (by omega) hp] at hs
    obtain ⟨v, hv⟩ := F_mul18 hge
    rw [priceOf_above (by omega)] at hs ⊢
    have : (F t).tdiv (10 ^ 18) = v := by rw [hv]; exact Int.mul_tdiv_cancel _ (by norm_num)
    rw [this] at hs
    cases hr : monotonicSqrtRaw (10 ^ 18) v with
    | none => rw [hr] at hs; cases hs
    | some r =>
      rw [hr] at hs
      exact ⟨v, r, hv, hr, (Option.some.inj hs).symm⟩

theorem tickToSqrtPrice_total {t : Int} (h1 : -270000001 ≤ t) (h2 : t ≤ 342000000) :
    ∃ s, tickToSqrtPrice t = some s := by
  have hp := tickToPrice_eq_priceOf h1 h2
  have hb := priceOf_bounds h2
  have c1 : CL.MinInitializedTick = -108000000 := by decide +kernel
  rcases Int.lt_or_le t (-108000000) with h | h
  · rw [tickToSqrtPrice_lo (by omega) hp]; exact monotonicSqrt_total (by omega)
  · rw [tickToSqrtPrice_hi (by omega) hp]
    have : 0 ≤ (priceOf t).tdiv (10 ^ 18) := Int.tdiv_nonneg (by omega) (by norm_num)
    obtain ⟨r, hr⟩ := monotonicSqrt_total (S := 10 ^ 18) this
    rw [hr]; exact ⟨_, rfl⟩

end OsmoVerif.Tick
