/-
`tie_eq`: closes `Model.f args = Gen.f args` after both sides are unfolded, when the hand-written side
sequences its fallible steps with `match … with | none => none | some x => …` (or `if`) and the generated
side with `Option.bind` in the same order: split the left-most scrutinee, rewrite the right side with the
case hypothesis, repeat.  Core only.
-/
import OsmoVerif.Model.NumGen

namespace OsmoVerif
open OsmoVerif.Num

macro "tie_eq" : tactic =>
  `(tactic| repeat' (first | rfl | (split <;> simp only [*, Option.bind_some, Option.bind_none, Option.bind_eq_bind,
      Option.map_some, Option.map_none, Option.pure_def, bind, pure,
      SInt.sub, SInt.add, SInt.mul, SInt.toDec, BigDec.ofDec])))

end OsmoVerif
