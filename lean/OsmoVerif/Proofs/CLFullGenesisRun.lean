/-
C19 / x/concentrated-liquidity genesis: `prune p` is a bisimulation along whole histories, and `canon` is an instance of it: after
export → import every later history goes through the pruned states of the exporting chain, message by message.  Core only.
-/
import OsmoVerif.Proofs.CLFullGenesisPruneOps

namespace OsmoVerif.CLIncP
open OsmoVerif.Num OsmoVerif.CL OsmoVerif.CLPool OsmoVerif.CLFees OsmoVerif.CLInc OsmoVerif.CLFeesP OsmoVerif.CLBook

/-- `p` keeps the ids of the live positions and every id not yet handed out -/
structure Keeps (p : Nat → Bool) (s : Full) : Prop where
  live : ∀ q ∈ s.fees.pool.positions, p q.id = true
  fresh : ∀ n, s.fees.pool.nextId ≤ n → p n = true

theorem keeps_step {p : Nat → Bool} {s : Full} (hi : IncInv s) (hk : Keeps p s) (op : IOp) : Keeps p (stepI s op) := by
  have hf := stepI_facts op hi
  refine ⟨fun q' hq' => ?_, fun n hn => hk.fresh n (Nat.le_trans hf.nextId hn)⟩
  rcases hf.desc q' hq' with ⟨q, hq, e, _, _⟩ | h
  · rw [← e]; exact hk.live q hq
  · exact hk.fresh q'.id h

/-- one message on the pruned state: same success / failure, pruned result -/
theorem prune_step {p : Nat → Bool} {s : Full} (hi : IncInv s) (hk : Keeps p s) (op : IOp) :
    stepI (prune p s) op = prune p (stepI s op) ∧ (applyI (prune p s) op).isSome = (applyI s op).isSome := by
  have h := applyI_prune p hi hk.live (hk.fresh _ (Nat.le_refl _)) op
  unfold stepI
  rw [h]
  cases applyI s op with
  | none => exact ⟨rfl, rfl⟩
  | some s' => exact ⟨rfl, rfl⟩

def outcomesI (s : Full) : List IOp → List Bool
  | [] => []
  | op :: ops => (applyI s op).isSome :: outcomesI (stepI s op) ops

theorem prune_run {p : Nat → Bool} : ∀ (ops : List IOp) {s : Full}, IncInv s → Keeps p s →
    runI (prune p s) ops = prune p (runI s ops) ∧ outcomesI (prune p s) ops = outcomesI s ops
  | [], _, _, _ => ⟨rfl, rfl⟩
  | op :: ops, s, hi, hk => by
    obtain ⟨h1, h2⟩ := prune_step hi hk op
    obtain ⟨h3, h4⟩ := prune_run ops (stepI_facts op hi).inv (keeps_step hi hk op)
    simp only [runI, outcomesI, h1, h2, h3, h4]
    exact ⟨trivial, trivial⟩

/-- the pruning predicate behind `canon`: live, or not yet handed out -/
def keepOf (s : Full) (n : Nat) : Bool := live s n || decide (s.fees.pool.nextId ≤ n)

theorem keeps_keepOf (s : Full) : Keeps (keepOf s) s :=
  ⟨fun q hq => by unfold keepOf; rw [live_of_mem hq]; rfl, fun n hn => by unfold keepOf; simp [hn]⟩

/-- on a state satisfying the C08 invariant (stored ids are below the next id) `canon` prunes with `keepOf` -/
theorem canon_eq_prune_keepOf {s : Full} (hi : IncInv s) : canon s = prune (keepOf s) s := by
  rw [canon_eq_prune]
  unfold prune pruneI
  have e1 : s.inc.accs.map (pruneA (live s)) = s.inc.accs.map (pruneA (keepOf s)) := by
    apply List.map_congr_left
    intro a ha
    unfold pruneA
    congr 1
    apply List.filter_congr
    intro r hr
    have hlt := (hi.inc.accs a ha).recIds r.id (getURec_of_mem hr)
    unfold keepOf
    have : decide (s.fees.pool.nextId ≤ r.id) = false := by simp; omega
    rw [this, Bool.or_false]
  have e2 : s.inc.join.filter (fun e => live s e.1) = s.inc.join.filter (fun e => keepOf s e.1) := by
    apply List.filter_congr
    intro e he
    have hlt := hi.inc.joinIds e he
    unfold keepOf
    have : decide (s.fees.pool.nextId ≤ e.1) = false := by simp; omega
    rw [this, Bool.or_false]
  rw [e1, e2]

/-! ## the layered state with the full-range liquidity record -/

def gToI : GOp → IOp
  | .create o l u a0 a1 => .fee (.create o l u a0 a1)
  | .withdraw o id liq => .fee (.withdraw o id liq)
  | .add o id a0 a1 => .fee (.add o id a0 a1)
  | .transfer sd id n => .fee (.transfer sd id n)
  | .swap og zfo spec => .fee (.swap og zfo spec)
  | .collect sd id => .fee (.collect sd id)
  | .incentive id d a r st u => .incentive id d a r st u
  | .advance ns => .advance ns
  | .sync => .sync
  | .icollect sd id => .icollect sd id

/-- the `Full` component of a message on the layered state with the record is the message of the C08 model -/
theorem applyG_full (g : FullG) (op : GOp) : (applyG g op).map (·.full) = applyI g.full (gToI op) := by
  cases op with
  | create o l u a0 a1 => simp only [applyG, applyI, gToI, Option.map_map]; rfl
  | withdraw o id liq =>
    cases hf : findPos g.full.fees.pool id with
    | none =>
      have : CLInc.withdrawPosition g.full o id liq = none := by unfold CLInc.withdrawPosition; rw [hf]; rfl
      simp only [applyG, applyI, gToI, hf, this, Option.bind_none, Option.map_none]
    | some pos => simp only [applyG, applyI, gToI, hf, Option.bind_some, Option.map_map]; rfl
  | add o id a0 a1 =>
    cases hf : findPos g.full.fees.pool id with
    | none =>
      have : CLInc.addToPosition g.full o id a0 a1 = none := by unfold CLInc.addToPosition; rw [hf]; rfl
      simp only [applyG, applyI, gToI, hf, this, Option.bind_none, Option.map_none]
    | some pos =>
      simp only [applyG, applyI, gToI, hf, Option.bind_some, Option.map_map]
      congr 1
      funext r
      simp only [Function.comp]
      cases findPos r.1.fees.pool r.2.1 <;> rfl
  | transfer sd id n =>
    cases hf : findPos g.full.fees.pool id with
    | none =>
      have : CLInc.transferPosition g.full sd id n = none := by
        unfold CLInc.transferPosition CLFees.transferPosition CLPool.transferPosition
        unfold findPos at hf
        simp only [hf, Option.bind_eq_bind, Option.bind_none, Option.map_none]
      simp only [applyG, applyI, gToI, hf, this, Option.bind_none, Option.map_none]
    | some pos =>
      simp only [applyG, applyI, gToI, hf, Option.bind_some, Option.map_map]
      cases CLInc.transferPosition g.full sd id n <;> rfl
  | swap og zfo spec => simp only [applyG, applyI, gToI, Option.map_map]; rfl
  | collect sd id => simp only [applyG, applyI, gToI, Option.map_map]; rfl
  | incentive id d a r st u =>
    simp only [applyG, applyI, gToI, Option.map_map]
    cases createIncentive g.full id d a r st u <;> rfl
  | advance ns => rfl
  | sync =>
    simp only [applyG, applyI, gToI, Option.map_map]
    cases syncNow g.full <;> rfl
  | icollect sd id => simp only [applyG, applyI, gToI, Option.map_map]; rfl

theorem frAdd_shift (r r' l u x : Int) : frAdd r' l u x = frAdd r l u x + (r' - r) := by
  unfold frAdd; split <;> omega

/-- a message on the pruned layered state with ANOTHER value of the full-range record: same success / failure, pruned `Full`
component, the record moved by the same amount -/
theorem applyG_prune (p : Nat → Bool) {g : FullG} (hi : IncInv g.full) (hk : Keeps p g.full) (r' : Int) (op : GOp) :
    applyG { full := prune p g.full, fullRange := r' } op =
      (applyG g op).map (fun x => { full := prune p x.full, fullRange := x.fullRange + (r' - g.fullRange) }) := by
  have hn : p g.full.fees.pool.nextId = true := hk.fresh _ (Nat.le_refl _)
  cases op with
  | create o l u a0 a1 =>
    simp only [applyG, CLInc.createPosition, createMin_prune p g.full o l u a0 a1 0 0 hi.fees.pool.core hn, Option.map_map]
    congr 1
    funext r
    simp only [Function.comp, frAdd_shift g.fullRange r']
  | withdraw o id liq =>
    simp only [applyG, prune_fees]
    cases findPos g.full.fees.pool id with
    | none => simp only [Option.bind_none, Option.map_none]
    | some pos =>
      simp only [Option.bind_some, withdraw_prune p g.full o id liq hk.live, Option.map_map]
      congr 1
      funext r
      simp only [Function.comp, frAdd_shift g.fullRange r']
  | add o id a0 a1 =>
    simp only [applyG, prune_fees]
    cases findPos g.full.fees.pool id with
    | none => simp only [Option.bind_none, Option.map_none]
    | some pos =>
      simp only [Option.bind_some, add_prune p g.full o id a0 a1 hi hk.live hn, Option.map_map]
      congr 1
      funext r
      simp only [Function.comp, prune_fees]
      cases findPos r.1.fees.pool r.2.1 with
      | none => simp only; congr 1; omega
      | some np =>
        simp only
        rw [frAdd_shift g.fullRange r' pos.lower pos.upper 0,
          frAdd_shift (frAdd g.fullRange pos.lower pos.upper 0) (frAdd g.fullRange pos.lower pos.upper 0 + (r' - g.fullRange))]
        congr 1
        omega
  | transfer sd id n =>
    simp only [applyG, prune_fees]
    cases findPos g.full.fees.pool id with
    | none => simp only [Option.bind_none, Option.map_none]
    | some pos =>
      simp only [Option.bind_some, CLInc.transferPosition, prune_fees, Option.map_map]
      congr 1
      funext f
      simp only [Function.comp, frAdd_shift g.fullRange r']
      rfl
  | swap og zfo spec =>
    simp only [applyG, swap_prune, Option.map_map]
    congr 1
    funext r
    simp only [Function.comp]
    congr 1
    omega
  | collect sd id =>
    simp only [applyG, CLInc.collectSpread, prune_fees, Option.map_map]
    congr 1
    funext r
    simp only [Function.comp]
    congr 1
    omega
  | incentive id d a r st u =>
    simp only [applyG, createIncentive_prune, Option.map_map]
    congr 1
    funext f
    simp only [Function.comp]
    congr 1
    omega
  | advance ns =>
    simp only [applyG, Option.map_some]
    congr 2
    omega
  | sync =>
    simp only [applyG, syncNow_prune, Option.map_map]
    congr 1
    funext f
    simp only [Function.comp]
    congr 1
    omega
  | icollect sd id =>
    simp only [applyG, icollect_prune p g.full sd id hk.live, Option.map_map]
    congr 1
    funext r
    simp only [Function.comp]
    congr 1
    omega

theorem stepG_full (g : FullG) (op : GOp) : (stepG g op).full = stepI g.full (gToI op) := by
  have h := applyG_full g op
  unfold stepG stepI
  rw [← h]
  cases applyG g op <;> rfl

def outcomesG (g : FullG) : List GOp → List Bool
  | [] => []
  | op :: ops => (applyG g op).isSome :: outcomesG (stepG g op) ops

theorem stepG_prune (p : Nat → Bool) {g : FullG} (hi : IncInv g.full) (hk : Keeps p g.full) (r' : Int) (op : GOp) :
    stepG { full := prune p g.full, fullRange := r' } op =
      { full := prune p (stepG g op).full, fullRange := (stepG g op).fullRange + (r' - g.fullRange) } ∧
    (applyG { full := prune p g.full, fullRange := r' } op).isSome = (applyG g op).isSome := by
  have h := applyG_prune p hi hk r' op
  unfold stepG
  rw [h]
  cases applyG g op with
  | none =>
    refine ⟨?_, rfl⟩
    simp only [Option.map_none]
    congr 1
    omega
  | some x => exact ⟨rfl, rfl⟩

/-- along every later history: pruned `Full` states, the same outcomes, the full-range record shifted by a constant -/
theorem runG_prune (p : Nat → Bool) : ∀ (ops : List GOp) {g : FullG} (r' : Int), IncInv g.full → Keeps p g.full →
    (runG { full := prune p g.full, fullRange := r' } ops).full = prune p (runG g ops).full ∧
    (runG { full := prune p g.full, fullRange := r' } ops).fullRange = (runG g ops).fullRange + (r' - g.fullRange) ∧
    outcomesG { full := prune p g.full, fullRange := r' } ops = outcomesG g ops
  | [], g, r', _, _ => ⟨rfl, by show r' = g.fullRange + (r' - g.fullRange); omega, rfl⟩
  | op :: ops, g, r', hi, hk => by
    obtain ⟨h1, h2⟩ := stepG_prune p hi hk r' op
    have hi' : IncInv (stepG g op).full := by rw [stepG_full]; exact (stepI_facts _ hi).inv
    have hk' : Keeps p (stepG g op).full := by rw [stepG_full]; exact keeps_step hi hk _
    obtain ⟨i1, i2, i3⟩ := runG_prune p ops ((stepG g op).fullRange + (r' - g.fullRange)) hi' hk'
    simp only [runG, outcomesG, h1, h2]
    refine ⟨i1, ?_, by rw [i3]⟩
    rw [i2]; omega

end OsmoVerif.CLIncP
