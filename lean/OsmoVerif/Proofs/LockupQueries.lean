/- Exactness of the lockup queries: each returns exactly the ids of the matching live locks. -/
import OsmoVerif.Proofs.LockupOps
namespace OsmoVerif.Lockup

theorem mem_idsWhere_inv {s : State} (h : Inv s) {p : RefKey → Bool} {id : Nat} :
    id ∈ idsWhere s p ↔ ∃ l ∈ s.locks, l.id = id ∧ ∃ k ∈ indexKeys l, p k = true := by
  rw [mem_idsWhere]
  constructor
  · rintro ⟨k, hk, hp⟩
    obtain ⟨_, l, hl, hid, hkk⟩ := (h.refsOK k id).mp hk
    exact ⟨l, hl, hid, k, hkk, hp⟩
  · rintro ⟨l, hl, hid, k, hkk, hp⟩
    exact ⟨k, (h.refsOK k id).mpr ⟨by simp, l, hl, hid, hkk⟩, hp⟩

/-- which index keys a (single-coin) lock has. -/
theorem exists_indexKey {l : Lock} {dn : Denom} {a : Int} (hc : l.coins = [(dn, a)]) (p : RefKey → Bool) :
    (∃ k ∈ indexKeys l, p k = true) ↔
      (match l.endTime with
       | none => p ⟨false, .dur (durKey l.duration)⟩ = true ∨ p ⟨false, .ownerDur l.owner (durKey l.duration)⟩ = true ∨
                 p ⟨false, .denomDur dn (durKey l.duration)⟩ = true ∨ p ⟨false, .ownerDenomDur l.owner dn (durKey l.duration)⟩ = true
       | some e => p ⟨true, .dur (durKey l.duration)⟩ = true ∨ p ⟨true, .ownerDur l.owner (durKey l.duration)⟩ = true ∨
                 p ⟨true, .denomDur dn (durKey l.duration)⟩ = true ∨ p ⟨true, .ownerDenomDur l.owner dn (durKey l.duration)⟩ = true ∨
                 p ⟨true, .time (some e)⟩ = true ∨ p ⟨true, .ownerTime l.owner (some e)⟩ = true ∨
                 p ⟨true, .denomTime dn (some e)⟩ = true ∨ p ⟨true, .ownerDenomTime l.owner dn (some e)⟩ = true) := by
  rw [indexKeys_single hc]
  cases he : l.endTime with
  | none => simp [Lock.isUnlocking, he]
  | some e => simp [Lock.isUnlocking, he]

theorem durKey_pos {d : Int} (h : 0 < d) : durKey d = d := by
  unfold durKey; rw [if_neg (by omega)]

/-- `GetPeriodLocks` returns every live lock. -/
theorem qAll_exact {s : State} (h : Inv s) (id : Nat) : id ∈ qAll s ↔ ∃ l ∈ s.locks, l.id = id := by
  unfold qAll bothFlags
  rw [mem_idsWhere_inv h]
  constructor
  · rintro ⟨l, hl, hid, _⟩; exact ⟨l, hl, hid⟩
  · rintro ⟨l, hl, hid⟩
    obtain ⟨dn, a, hc, _, _⟩ := h.single l hl
    refine ⟨l, hl, hid, (exists_indexKey hc _).mpr ?_⟩
    cases l.endTime <;> simp

/-- `GetAccountPeriodLocks`. -/
theorem qOwner_exact {s : State} (h : Inv s) (o : Addr) (id : Nat) :
    id ∈ qOwner s o ↔ ∃ l ∈ s.locks, l.id = id ∧ l.owner = o := by
  unfold qOwner bothFlags
  rw [mem_idsWhere_inv h]
  constructor
  · rintro ⟨l, hl, hid, hk⟩
    obtain ⟨dn, a, hc, _, _⟩ := h.single l hl
    rw [exists_indexKey hc] at hk
    refine ⟨l, hl, hid, ?_⟩
    cases he : l.endTime <;> simp [he] at hk <;> exact hk
  · rintro ⟨l, hl, hid, ho⟩
    obtain ⟨dn, a, hc, _, _⟩ := h.single l hl
    refine ⟨l, hl, hid, (exists_indexKey hc _).mpr ?_⟩
    cases l.endTime <;> simp [ho]


def Lock.hasDenom (l : Lock) (dn : Denom) : Prop := dn ∈ l.coins.map (·.1)
/-- the lock is unlocking and ends at or before `t`. -/
def Lock.endsBy (l : Lock) (t : Int) : Prop := ∃ e, l.endTime = some e ∧ e ≤ t
/-- the lock is unlocking and ends after `t`. -/
def Lock.endsAfter (l : Lock) (t : Int) : Prop := ∃ e, l.endTime = some e ∧ t < e

theorem mem_sortNat_append (a b : List Nat) (x : Nat) : x ∈ sortNat (a ++ b) ↔ x ∈ a ∨ x ∈ b := by
  simp [sortNat, mem_isortBy]

theorem flagOnly_eq (s : State) (u : Bool) (p : IdxKey → Bool) :
    flagOnly s u p = idsWhere s (fun k => k.unlocking == u && p k.key) := rfl
theorem bothFlags_eq (s : State) (p : IdxKey → Bool) : bothFlags s p = idsWhere s (fun k => p k.key) := rfl

/-- `GetAccountLockedLongerDuration` / `…NotUnlockingOnly`. -/
theorem qOwnerLonger_exact {s : State} (h : Inv s) (o : Addr) (d : Int) (nu : Bool) (id : Nat) :
    id ∈ qOwnerLonger s o d nu ↔
      ∃ l ∈ s.locks, l.id = id ∧ l.owner = o ∧ durKey d ≤ l.duration ∧ (nu = true → l.endTime = none) := by
  unfold qOwnerLonger
  cases nu
  · simp only [Bool.false_eq_true, if_false, bothFlags_eq, mem_idsWhere_inv h]
    refine exists_congr fun l => and_congr_right fun hl => and_congr_right fun _ => ?_
    obtain ⟨dn, a, hc, _, _⟩ := h.single l hl
    rw [exists_indexKey hc, durKey_pos (h.durpos l hl)]
    cases he : l.endTime <;> simp
  · simp only [if_true, flagOnly_eq, mem_idsWhere_inv h]
    refine exists_congr fun l => and_congr_right fun hl => and_congr_right fun _ => ?_
    obtain ⟨dn, a, hc, _, _⟩ := h.single l hl
    rw [exists_indexKey hc, durKey_pos (h.durpos l hl)]
    cases he : l.endTime <;> simp

/-- `GetAccountLockedDuration`. -/
theorem qOwnerDuration_exact {s : State} (h : Inv s) (o : Addr) (d : Int) (id : Nat) :
    id ∈ qOwnerDuration s o d ↔ ∃ l ∈ s.locks, l.id = id ∧ l.owner = o ∧ l.duration = durKey d := by
  unfold qOwnerDuration
  simp only [bothFlags_eq, mem_idsWhere_inv h]
  refine exists_congr fun l => and_congr_right fun hl => and_congr_right fun _ => ?_
  obtain ⟨dn, a, hc, _, _⟩ := h.single l hl
  rw [exists_indexKey hc, durKey_pos (h.durpos l hl)]
  cases he : l.endTime <;> simp

/-- `GetAccountLockedLongerDurationDenom` / `…NotUnlockingOnly`. -/
theorem qOwnerDenomLonger_exact {s : State} (h : Inv s) (o : Addr) (dn : Denom) (d : Int) (nu : Bool) (id : Nat) :
    id ∈ qOwnerDenomLonger s o dn d nu ↔
      ∃ l ∈ s.locks, l.id = id ∧ l.owner = o ∧ l.hasDenom dn ∧ durKey d ≤ l.duration ∧ (nu = true → l.endTime = none) := by
  unfold qOwnerDenomLonger
  cases nu
  · simp only [Bool.false_eq_true, if_false, bothFlags_eq, mem_idsWhere_inv h]
    refine exists_congr fun l => and_congr_right fun hl => and_congr_right fun _ => ?_
    obtain ⟨dn0, a, hc, _, _⟩ := h.single l hl
    rw [exists_indexKey hc, durKey_pos (h.durpos l hl)]
    cases he : l.endTime <;> simp [Lock.hasDenom, hc, @eq_comm _ dn dn0, and_assoc]
  · simp only [if_true, flagOnly_eq, mem_idsWhere_inv h]
    refine exists_congr fun l => and_congr_right fun hl => and_congr_right fun _ => ?_
    obtain ⟨dn0, a, hc, _, _⟩ := h.single l hl
    rw [exists_indexKey hc, durKey_pos (h.durpos l hl)]
    cases he : l.endTime <;> simp [Lock.hasDenom, hc, @eq_comm _ dn dn0, and_assoc]

/-- `GetAccountLockedDurationNotUnlockingOnly` (what `MsgLockTokens` consults). -/
theorem qOwnerDenomDurationNotUnlocking_exact {s : State} (h : Inv s) (o : Addr) (dn : Denom) (d : Int) (id : Nat) :
    id ∈ qOwnerDenomDurationNotUnlocking s o dn d ↔
      ∃ l ∈ s.locks, l.id = id ∧ l.owner = o ∧ l.hasDenom dn ∧ l.duration = durKey d ∧ l.endTime = none := by
  unfold qOwnerDenomDurationNotUnlocking
  simp only [mem_idsWhere_inv h]
  refine exists_congr fun l => and_congr_right fun hl => and_congr_right fun _ => ?_
  obtain ⟨dn0, a, hc, _, _⟩ := h.single l hl
  rw [exists_indexKey hc, durKey_pos (h.durpos l hl)]
  cases he : l.endTime <;> simp [Lock.hasDenom, hc, @eq_comm _ dn dn0]

/-- `GetLocksLongerThanDurationDenom`. -/
theorem qDenomLonger_exact {s : State} (h : Inv s) (dn : Denom) (d : Int) (id : Nat) :
    id ∈ qDenomLonger s dn d ↔ ∃ l ∈ s.locks, l.id = id ∧ l.hasDenom dn ∧ durKey d ≤ l.duration := by
  unfold qDenomLonger
  simp only [bothFlags_eq, mem_idsWhere_inv h]
  refine exists_congr fun l => and_congr_right fun hl => and_congr_right fun _ => ?_
  obtain ⟨dn0, a, hc, _, _⟩ := h.single l hl
  rw [exists_indexKey hc, durKey_pos (h.durpos l hl)]
  cases he : l.endTime <;> simp [Lock.hasDenom, hc, @eq_comm _ dn dn0]

/-- `LockIteratorBeforeTime` (the walk of `WithdrawMaturedLocks`). -/
theorem qUnlockingBefore_exact {s : State} (h : Inv s) (t : Int) (id : Nat) :
    id ∈ qUnlockingBefore s t ↔ ∃ l ∈ s.locks, l.id = id ∧ l.endsBy t := by
  unfold qUnlockingBefore
  simp only [flagOnly_eq, mem_idsWhere_inv h]
  refine exists_congr fun l => and_congr_right fun hl => and_congr_right fun _ => ?_
  obtain ⟨dn0, a, hc, _, _⟩ := h.single l hl
  rw [exists_indexKey hc]
  cases he : l.endTime <;> simp [Lock.endsBy, he, timeLE]

/-- `LockIteratorAfterTime`. -/
theorem qUnlockingAfter_exact {s : State} (h : Inv s) (t : Int) (id : Nat) :
    id ∈ qUnlockingAfter s t ↔ ∃ l ∈ s.locks, l.id = id ∧ l.endsAfter t := by
  unfold qUnlockingAfter
  simp only [flagOnly_eq, mem_idsWhere_inv h]
  refine exists_congr fun l => and_congr_right fun hl => and_congr_right fun _ => ?_
  obtain ⟨dn0, a, hc, _, _⟩ := h.single l hl
  rw [exists_indexKey hc]
  cases he : l.endTime <;> simp [Lock.endsAfter, he, timeGT]

theorem pastDur_nonneg (now ts : Int) : durKey (pastDur now ts) = pastDur now ts := by
  unfold durKey pastDur; split <;> split <;> omega

/-- `GetAccountLockedPastTime` at block time `now`: unlocking locks ending after `ts`, and not-unlocking
locks that would end after `ts` if they began unlocking now. -/
theorem qOwnerPastTime_exact {s : State} (h : Inv s) (now : Int) (o : Addr) (ts : Int) (id : Nat) :
    id ∈ qOwnerPastTime s now o ts ↔
      ∃ l ∈ s.locks, l.id = id ∧ l.owner = o ∧ (l.endsAfter ts ∨ (l.endTime = none ∧ pastDur now ts ≤ l.duration)) := by
  unfold qOwnerPastTime
  rw [mem_sortNat_append, qOwnerLonger_exact h, flagOnly_eq, mem_idsWhere_inv h, pastDur_nonneg]
  constructor
  · rintro (⟨l, hl, hid, hk⟩ | ⟨l, hl, hid, ho, hd, hn⟩)
    · obtain ⟨dn0, a, hc, _, _⟩ := h.single l hl
      rw [exists_indexKey hc] at hk
      refine ⟨l, hl, hid, ?_⟩
      cases he : l.endTime <;> simp [he, timeGT, Lock.endsAfter] at hk ⊢ <;> exact hk
    · exact ⟨l, hl, hid, ho, Or.inr ⟨hn rfl, hd⟩⟩
  · rintro ⟨l, hl, hid, ho, (⟨e, he, hlt⟩ | ⟨hn, hd⟩)⟩
    · obtain ⟨dn0, a, hc, _, _⟩ := h.single l hl
      refine Or.inl ⟨l, hl, hid, (exists_indexKey hc _).mpr ?_⟩
      simp [he, ho, timeGT, hlt]
    · exact Or.inr ⟨l, hl, hid, ho, hd, fun _ => hn⟩

theorem or_exists_lock {L : List Lock} {id : Nat} {A B Q : Lock → Prop} (hq : ∀ l ∈ L, (A l ∨ B l) ↔ Q l) :
    ((∃ l ∈ L, l.id = id ∧ A l) ∨ (∃ l ∈ L, l.id = id ∧ B l)) ↔ ∃ l ∈ L, l.id = id ∧ Q l := by
  constructor
  · rintro (⟨l, hl, hid, ha⟩ | ⟨l, hl, hid, hb⟩)
    · exact ⟨l, hl, hid, (hq l hl).mp (Or.inl ha)⟩
    · exact ⟨l, hl, hid, (hq l hl).mp (Or.inr hb)⟩
  · rintro ⟨l, hl, hid, hQ⟩
    rcases (hq l hl).mpr hQ with ha | hb
    · exact Or.inl ⟨l, hl, hid, ha⟩
    · exact Or.inr ⟨l, hl, hid, hb⟩

/-- `GetAccountUnlockedBeforeTime` at block time `now`. -/
theorem qOwnerUnlockedBefore_exact {s : State} (h : Inv s) (now : Int) (o : Addr) (ts : Int) (id : Nat) :
    id ∈ qOwnerUnlockedBefore s now o ts ↔
      ∃ l ∈ s.locks, l.id = id ∧ l.owner = o ∧
        (l.endsBy ts ∨ (now ≤ ts ∧ l.endTime = none ∧ l.duration < ts - now)) := by
  unfold qOwnerUnlockedBefore
  simp only
  split
  · rename_i hlt
    simp only [flagOnly_eq, mem_idsWhere_inv h]
    refine exists_congr fun l => and_congr_right fun hl => and_congr_right fun _ => ?_
    obtain ⟨dn0, a, hc, _, _⟩ := h.single l hl
    rw [exists_indexKey hc]
    cases he : l.endTime <;> simp [Lock.endsBy, he, timeLE]
    omega
  · rename_i hge
    simp only [mem_sortNat_append, flagOnly_eq, mem_idsWhere_inv h]
    refine or_exists_lock fun l hl => ?_
    obtain ⟨dn0, a, hc, _, _⟩ := h.single l hl
    have hdk : durKey (ts - now) = ts - now := by unfold durKey; rw [if_neg (by omega)]
    rw [exists_indexKey hc, exists_indexKey hc, durKey_pos (h.durpos l hl), hdk]
    cases he : l.endTime <;> simp [Lock.endsBy, he, timeLE]
    omega

/-- `GetAccountLockedPastTimeDenom`. -/
theorem qOwnerDenomPastTime_exact {s : State} (h : Inv s) (now : Int) (o : Addr) (dn : Denom) (ts : Int) (id : Nat) :
    id ∈ qOwnerDenomPastTime s now o dn ts ↔
      ∃ l ∈ s.locks, l.id = id ∧ l.owner = o ∧ l.hasDenom dn ∧
        (l.endsAfter ts ∨ (l.endTime = none ∧ pastDur now ts ≤ l.duration)) := by
  unfold qOwnerDenomPastTime
  rw [mem_sortNat_append, qOwnerDenomLonger_exact h, flagOnly_eq, mem_idsWhere_inv h, pastDur_nonneg]
  constructor
  · rintro (⟨l, hl, hid, hk⟩ | ⟨l, hl, hid, ho, hdn, hd, hn⟩)
    · obtain ⟨dn0, a, hc, _, _⟩ := h.single l hl
      rw [exists_indexKey hc] at hk
      refine ⟨l, hl, hid, ?_⟩
      cases he : l.endTime <;> simp [he, timeGT, Lock.endsAfter, Lock.hasDenom, hc] at hk ⊢
      exact ⟨hk.1.1, hk.1.2.symm, hk.2⟩
    · exact ⟨l, hl, hid, ho, hdn, Or.inr ⟨hn rfl, hd⟩⟩
  · rintro ⟨l, hl, hid, ho, hdn, (⟨e, he, hlt⟩ | ⟨hn, hd⟩)⟩
    · obtain ⟨dn0, a, hc, _, _⟩ := h.single l hl
      refine Or.inl ⟨l, hl, hid, (exists_indexKey hc _).mpr ?_⟩
      have : dn = dn0 := by simpa [Lock.hasDenom, hc] using hdn
      simp [he, ho, timeGT, hlt, this]
    · exact Or.inr ⟨l, hl, hid, ho, hdn, hd, fun _ => hn⟩

/-- `GetLocksPastTimeDenom`. -/
theorem qDenomPastTime_exact {s : State} (h : Inv s) (now : Int) (dn : Denom) (ts : Int) (id : Nat) :
    id ∈ qDenomPastTime s now dn ts ↔
      ∃ l ∈ s.locks, l.id = id ∧ l.hasDenom dn ∧ (l.endsAfter ts ∨ (l.endTime = none ∧ pastDur now ts ≤ l.duration)) := by
  unfold qDenomPastTime
  rw [mem_sortNat_append, flagOnly_eq, flagOnly_eq, mem_idsWhere_inv h, mem_idsWhere_inv h, pastDur_nonneg]
  constructor
  · rintro (⟨l, hl, hid, hk⟩ | ⟨l, hl, hid, hk⟩)
    · obtain ⟨dn0, a, hc, _, _⟩ := h.single l hl
      rw [exists_indexKey hc] at hk
      refine ⟨l, hl, hid, ?_⟩
      cases he : l.endTime <;> simp [he, timeGT, Lock.endsAfter, Lock.hasDenom, hc] at hk ⊢
      exact ⟨hk.1.symm, hk.2⟩
    · obtain ⟨dn0, a, hc, _, _⟩ := h.single l hl
      rw [exists_indexKey hc, durKey_pos (h.durpos l hl)] at hk
      refine ⟨l, hl, hid, ?_⟩
      cases he : l.endTime <;> simp [he, Lock.endsAfter, Lock.hasDenom, hc] at hk ⊢
      exact ⟨hk.1.symm, hk.2⟩
  · rintro ⟨l, hl, hid, hdn, (⟨e, he, hlt⟩ | ⟨hn, hd⟩)⟩
    · obtain ⟨dn0, a, hc, _, _⟩ := h.single l hl
      refine Or.inl ⟨l, hl, hid, (exists_indexKey hc _).mpr ?_⟩
      have : dn = dn0 := by simpa [Lock.hasDenom, hc] using hdn
      simp [he, timeGT, hlt, this]
    · obtain ⟨dn0, a, hc, _, _⟩ := h.single l hl
      refine Or.inr ⟨l, hl, hid, (exists_indexKey hc _).mpr ?_⟩
      have : dn = dn0 := by simpa [Lock.hasDenom, hc] using hdn
      rw [durKey_pos (h.durpos l hl)]
      simp [hn, this, hd]

end OsmoVerif.Lockup
