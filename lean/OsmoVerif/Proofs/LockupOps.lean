/- Messages and block-level operations of the lockup model: invariant + effect summary for every `Op`. -/
import OsmoVerif.Proofs.LockupSteps
namespace OsmoVerif.Lockup

theorem foldlM_ok {α : Type} {t : Int} {force : Bool} (f : State → α → Option State)
    (hf : ∀ s a s1, Inv s → f s a = some s1 → Inv s1 ∧ Eff t force s s1) :
    ∀ (l : List α) (s s' : State), Inv s → l.foldlM f s = some s' → Inv s' ∧ Eff t force s s' := by
  intro l
  induction l with
  | nil =>
    intro s s' h hs
    simp only [List.foldlM_nil, Option.pure_def, Option.some.injEq] at hs
    subst hs; exact ⟨h, Eff.refl _ _ h.idle h.nodup⟩
  | cons a as ih =>
    intro s s' h hs
    simp only [List.foldlM_cons, Option.bind_eq_bind] at hs
    cases h1 : f s a with
    | none => rw [h1] at hs; cases hs
    | some s1 =>
      rw [h1] at hs
      obtain ⟨i1, e1⟩ := hf s a s1 h h1
      obtain ⟨i2, e2⟩ := ih s1 s' i1 hs
      exact ⟨i2, e1.trans e2⟩

/-- the coins a message may carry: none, or one positive coin. -/
def MsgCoins (c : Coins) : Prop := c = [] ∨ ∃ dn b, c = [(dn, b)] ∧ 0 < b

theorem beginUnlockInternal_ok {t : Int} {force : Bool} {s s' : State} {l : Lock} {coins : Coins} {rid : Nat}
    (h : Inv s) (hl : l ∈ s.locks) (hcoins : MsgCoins coins)
    (hs : beginUnlockInternal t s l coins = some (s', rid)) :
    Inv s' ∧ Eff t force s s' ∧
      (coins = [] → ∃ l2, getLock s' l.id = some l2 ∧ l2.endTime = some (t + l.duration)) := by
  obtain ⟨dn, a0, hc, ha0, hdn⟩ := h.single l hl
  unfold beginUnlockInternal at hs
  split at hs
  · cases hs
  · rename_i hlte
    split at hs
    · cases hs
    · rename_i hunl
      have hend : l.endTime = none := by
        simp only [Lock.isUnlocking, Bool.not_eq_true, Option.isSome_eq_false_iff, Option.isNone_iff_eq_none] at hunl
        exact hunl
      rcases hcoins with rfl | ⟨dn', b, rfl, hb⟩
      · simp only [List.isEmpty_nil, Bool.not_true, Bool.false_and, Bool.false_eq_true, if_false] at hs
        obtain ⟨i, e, _, l2, g1, g2, _⟩ := beginUnlockCore_ok (force := force) h (Or.inl rfl) hl hend hs
        exact ⟨i, e, fun _ => ⟨l2, g1, g2⟩⟩
      · simp only [Coins.isAllLTE, List.isEmpty_cons, Bool.false_eq_true, if_false, hc, List.all_cons, List.all_nil,
          Bool.and_true, amountOf, Bool.not_eq_true, Int.add_zero, Bool.not_eq_false', decide_eq_true_eq] at hlte
        have hdd : dn = dn' := by
          by_cases e : dn = dn'
          · exact e
          · rw [if_neg e] at hlte; omega
        subst hdd
        rw [if_pos rfl] at hlte
        simp only [List.isEmpty_cons, Bool.not_false, Bool.true_and, hc] at hs
        by_cases hba : b = a0
        · subst hba
          simp only [ne_eq, not_true_eq_false, decide_false, Bool.false_eq_true, if_false] at hs
          obtain ⟨i, e, _⟩ := beginUnlockCore_ok (force := force) h (Or.inl rfl) hl hend hs
          exact ⟨i, e, fun e => by cases e⟩
        · have hne : [(dn, b)] ≠ [(dn, a0)] := by
            intro e; injection e with e _; injection e with _ e; exact hba e
          simp only [ne_eq, hne, not_false_eq_true, decide_true, if_true] at hs
          cases h1 : splitLock s l [(dn, b)] false with
          | none => rw [h1] at hs; cases hs
          | some p =>
            obtain ⟨s1, nl⟩ := p
            rw [h1] at hs
            simp only at hs
            obtain ⟨i1, e1, g1, g2, _, _, _, _⟩ := splitLock_ok (t := t) (force := force) h hl hc hb (by omega) (fun e => by cases e) h1
            obtain ⟨i2, e2, _⟩ := beginUnlockCore_ok (force := force) i1 (Or.inr rfl) (getLock_mem g1).1
              (by rw [g2]; exact hend) hs
            exact ⟨i2, e1.trans e2, fun e => by cases e⟩

theorem beginUnlock_ok {t : Int} {force : Bool} {s s' : State} {id : Nat} {coins : Coins} {rid : Nat}
    (h : Inv s) (hcoins : MsgCoins coins) (hs : beginUnlock t s id coins = some (s', rid)) :
    Inv s' ∧ Eff t force s s' ∧
      (coins = [] → ∃ l l2, getLock s id = some l ∧ getLock s' id = some l2 ∧ l2.endTime = some (t + l.duration)) := by
  unfold beginUnlock at hs
  cases hg : getLock s id with
  | none => simp [hg] at hs
  | some l =>
    simp only [hg, Option.bind_eq_bind, Option.bind_some] at hs
    obtain ⟨hl, hlid⟩ := getLock_mem hg
    obtain ⟨i, e, g⟩ := beginUnlockInternal_ok (force := force) h hl hcoins hs
    refine ⟨i, e, fun hc => ?_⟩
    obtain ⟨l2, g1, g2⟩ := g hc
    exact ⟨l, l2, rfl, by rw [← hlid]; exact g1, g2⟩

theorem msgCoins_of {c : Coins} (h1 : ¬ c.length > 1) (h2 : c.allPositive = true) : MsgCoins c := by
  match c, h1, h2 with
  | [], _, _ => exact Or.inl rfl
  | [(dn, b)], _, h2 =>
    refine Or.inr ⟨dn, b, rfl, ?_⟩
    simpa [Coins.allPositive] using h2
  | _ :: _ :: _, h1, _ => simp at h1

theorem msgBeginUnlocking_ok {t : Int} {force : Bool} {s s' : State} {owner : Addr} {id : Nat} {coins : Coins} {rid : Nat}
    (h : Inv s) (hs : msgBeginUnlocking t s owner id coins = some (s', rid)) : Inv s' ∧ Eff t force s s' := by
  unfold msgBeginUnlocking at hs
  split at hs
  · cases hs
  · split at hs
    · cases hs
    · rename_i hlen
      split at hs
      · cases hs
      · rename_i hpos
        split at hs
        · cases hs
        · split at hs
          · cases hs
          · obtain ⟨i, e, _⟩ := beginUnlock_ok (force := force) h (msgCoins_of hlen (by simpa using hpos)) hs
            exact ⟨i, e⟩

theorem msgBeginUnlockingAll_ok {t : Int} {force : Bool} {s s' : State} {owner : Addr}
    (h : Inv s) (hs : msgBeginUnlockingAll t s owner = some s') : Inv s' ∧ Eff t force s s' := by
  unfold msgBeginUnlockingAll at hs
  refine foldlM_ok (fun s id => (beginUnlock t s id []).map (·.1)) ?_ _ s s' h hs
  intro s a s1 hi hf
  cases hb : beginUnlock t s a [] with
  | none => simp [hb] at hf
  | some p =>
    obtain ⟨s2, rid⟩ := p
    simp only [hb, Option.map_some, Option.some.injEq] at hf
    subst hf
    obtain ⟨i, e, _⟩ := beginUnlock_ok (force := force) hi (Or.inl rfl) hb
    exact ⟨i, e⟩

theorem unlockMaturedLock_ok {t : Int} {force : Bool} {s s' : State} {id : Nat}
    (h : Inv s) (hs : unlockMaturedLock t s id = some s') : Inv s' ∧ Eff t force s s' := by
  unfold unlockMaturedLock at hs
  cases hg : getLock s id with
  | none => simp [hg] at hs
  | some l =>
    simp only [hg, Option.bind_eq_bind, Option.bind_some] at hs
    obtain ⟨hl, _⟩ := getLock_mem hg
    split at hs
    · cases hs
    · rename_i e he
      split at hs
      · cases hs
      · rename_i hte
        obtain ⟨i, ef, _⟩ := unlockInternal_ok (t := t) (force := force) h (Or.inl rfl) hl (by simp [Lock.isUnlocking, he])
          (fun _ => by simp only [matured, he, decide_eq_true_eq]; omega) hs
        exact ⟨i, ef⟩

theorem withdrawMaturedLocks_ok {t : Int} {force : Bool} {s s' : State} {num : Nat}
    (h : Inv s) (hs : withdrawMaturedLocks t s num = some s') : Inv s' ∧ Eff t force s s' := by
  unfold withdrawMaturedLocks at hs
  exact foldlM_ok (fun s id => unlockMaturedLock t s id) (fun s a s1 hi hf => unlockMaturedLock_ok hi hf) _ s s' h hs


/-! ## index keys of a single-coin lock; lookups through the index -/

theorem indexKeys_single {l : Lock} {dn : Denom} {a : Int} (hc : l.coins = [(dn, a)]) :
    indexKeys l = (if l.isUnlocking then
      [IdxKey.dur (durKey l.duration), IdxKey.ownerDur l.owner (durKey l.duration), IdxKey.denomDur dn (durKey l.duration),
       IdxKey.ownerDenomDur l.owner dn (durKey l.duration), IdxKey.time l.endTime, IdxKey.ownerTime l.owner l.endTime,
       IdxKey.denomTime dn l.endTime, IdxKey.ownerDenomTime l.owner dn l.endTime]
    else
      [IdxKey.dur (durKey l.duration), IdxKey.ownerDur l.owner (durKey l.duration), IdxKey.denomDur dn (durKey l.duration),
       IdxKey.ownerDenomDur l.owner dn (durKey l.duration)]).map (RefKey.mk l.isUnlocking) := by
  unfold indexKeys lockRefKeys durationLockRefKeys
  rw [hc]
  split <;> rfl

theorem mem_idsWhere {s : State} {p : RefKey → Bool} {id : Nat} :
    id ∈ idsWhere s p ↔ ∃ k, (k, id) ∈ s.refs ∧ p k = true := by
  simp only [idsWhere, sortNat, mem_isortBy, List.mem_map, List.mem_filter]
  constructor
  · rintro ⟨⟨k, i⟩, ⟨h1, h2⟩, rfl⟩; exact ⟨k, h1, h2⟩
  · rintro ⟨k, h1, h2⟩; exact ⟨(k, id), ⟨h1, h2⟩, rfl⟩

theorem msgLockTokens_ok {t : Int} {force : Bool} {s s' : State} {owner : Addr} {coins : Coins} {duration : Int} {rid : Nat}
    (h : Inv s) (hs : msgLockTokens s owner coins duration = some (s', rid)) : Inv s' ∧ Eff t force s s' := by
  unfold msgLockTokens at hs
  split at hs
  · cases hs
  · rename_i hd
    split at hs
    · rename_i dn a
      split at hs
      · cases hs
      · split at hs
        · rename_i id rest hq
          cases ha : addTokensToLockByID s id owner dn a with
          | none => simp [ha] at hs
          | some s1 =>
            simp only [ha, Option.map_some, Option.some.injEq, Prod.mk.injEq] at hs
            obtain ⟨rfl, _⟩ := hs
            cases hg : getLock s id with
            | none => simp [addTokensToLockByID, hg] at ha
            | some l =>
              obtain ⟨hl, hlid⟩ := getLock_mem hg
              obtain ⟨dn0, a0, hc, _, _⟩ := h.single l hl
              have hmem : id ∈ qOwnerDenomDurationNotUnlocking s owner dn duration := by rw [hq]; exact List.mem_cons_self
              obtain ⟨k, hk1, hk2⟩ := mem_idsWhere.mp hmem
              have hk : k = ⟨false, IdxKey.ownerDenomDur owner dn (durKey duration)⟩ := by simpa using hk2
              subst hk
              obtain ⟨_, l', hl', hlid', hkk⟩ := (h.refsOK _ _).mp hk1
              have : l' = l := mem_unique h.nodup hl' hl (by rw [hlid', hlid])
              subst this
              rw [indexKeys_single hc] at hkk
              have hdd : dn0 = dn := by
                split at hkk <;> simp at hkk <;> exact hkk.2.2.1.symm
              subst hdd
              exact addTokens_ok h hg hc ha
        · exact createLock_ok h (by omega) hs
    · cases hs

theorem addToLockGuarded_ok {t : Int} {force : Bool} {s s' : State} {owner : Addr} {id : Nat} {dn : Denom} {a : Int}
    (h : Inv s) (hs : addToLockGuarded s id owner dn a = some s') : Inv s' ∧ Eff t force s s' := by
  unfold addToLockGuarded at hs
  split at hs
  · cases hs
  · rename_i l hg
    split at hs
    · cases hs
    · rename_i hm
      obtain ⟨hl, _⟩ := getLock_mem hg
      obtain ⟨dn0, a0, hc, _, _⟩ := h.single l hl
      have : dn0 = dn := by simpa [hc] using hm
      subst this
      exact addTokens_ok h hg hc hs

theorem msgExtendLockup_ok {t : Int} {force : Bool} {s s' : State} {owner : Addr} {id : Nat} {d : Int}
    (h : Inv s) (hs : msgExtendLockup s owner id d = some s') : Inv s' ∧ Eff t force s s' := by
  unfold msgExtendLockup at hs
  split at hs
  · cases hs
  · split at hs
    · cases hs
    · exact extend_ok h (by omega) hs

/-! ## force unlock -/

theorem beginUnlock_nil_ok {t : Int} {force : Bool} {o : Option Nat} {s s' : State} {l : Lock} {rid : Nat}
    (h : InvG o s) (ho : o = none ∨ o = some l.id) (hl : l ∈ s.locks)
    (hs : beginUnlock t s l.id [] = some (s', rid)) :
    Inv s' ∧ Eff t force s s' ∧ ∃ l2, getLock s' l.id = some l2 ∧ l2.endTime = some (t + l.duration) := by
  unfold beginUnlock at hs
  have hg : getLock s l.id = some l := getLockL_of_mem h.nodup hl
  simp only [hg, Option.bind_eq_bind, Option.bind_some] at hs
  unfold beginUnlockInternal at hs
  split at hs
  · cases hs
  · split at hs
    · cases hs
    · rename_i hunl
      have hend : l.endTime = none := by
        simp only [Lock.isUnlocking, Bool.not_eq_true, Option.isSome_eq_false_iff, Option.isNone_iff_eq_none] at hunl
        exact hunl
      simp only [List.isEmpty_nil, Bool.not_true, Bool.false_and, Bool.false_eq_true, if_false] at hs
      obtain ⟨i, e, _, l2, g1, g2, _⟩ := beginUnlockCore_ok (force := force) h ho hl hend hs
      exact ⟨i, e, l2, g1, g2⟩

theorem forceUnlock_ok {t : Int} {o : Option Nat} {s s' : State} {l : Lock}
    (h : InvG o s) (ho : o = none ∨ o = some l.id) (hl : l ∈ s.locks)
    (hs : forceUnlock t s l = some s') : Inv s' ∧ Eff t true s s' := by
  unfold forceUnlock at hs
  by_cases hunl : l.isUnlocking = true
  · simp only [hunl, Bool.not_true, Bool.false_eq_true, if_false, Option.bind_eq_bind, Option.bind_some,
      getLockL_of_mem h.nodup hl, getLock] at hs
    obtain ⟨i, e, _⟩ := unlockInternal_ok (t := t) (force := true) h ho hl hunl (fun e => by cases e) hs
    exact ⟨i, e⟩
  · simp only [hunl, Bool.not_false, if_true, Option.bind_eq_bind] at hs
    cases hb : beginUnlock t s l.id [] with
    | none => simp [hb] at hs
    | some p =>
      obtain ⟨s1, rid⟩ := p
      simp only [hb, Option.map_some, Option.bind_some] at hs
      obtain ⟨i1, e1, l2, g1, g2⟩ := beginUnlock_nil_ok (force := true) h ho hl hb
      simp only [g1, Option.bind_some] at hs
      obtain ⟨hl2, hl2id⟩ := getLock_mem g1
      obtain ⟨i2, e2, _⟩ := unlockInternal_ok (t := t) (force := true) i1 (Or.inl rfl) hl2
        (by simp [Lock.isUnlocking, g2]) (fun e => by cases e) hs
      exact ⟨i2, e1.trans e2⟩

theorem valid_lte_single {coins : Coins} {dn : Denom} {a0 : Int} (hv : coins.valid = true)
    (hl : coins.isAllLTE [(dn, a0)] = true) : coins = [] ∨ ∃ b, coins = [(dn, b)] ∧ 0 < b ∧ b ≤ a0 := by
  have hden : ∀ c ∈ coins, c.1 = dn ∧ 0 < c.2 ∧ c.2 ≤ a0 := by
    intro c hc
    simp only [Coins.valid, Bool.and_eq_true, List.all_eq_true, decide_eq_true_eq] at hv
    have hp := (hv.1 c hc).2
    unfold Coins.isAllLTE at hl
    split at hl
    · rename_i he; simp only [List.isEmpty_iff] at he; subst he; cases hc
    · simp only [List.isEmpty_cons, Bool.false_eq_true, if_false, List.all_eq_true, decide_eq_true_eq, amountOf,
        Int.add_zero] at hl
      have := hl c hc
      by_cases e : dn = c.1
      · rw [if_pos e] at this; exact ⟨e.symm, hp, this⟩
      · rw [if_neg e] at this; omega
  match coins, hv, hden with
  | [], _, _ => exact Or.inl rfl
  | [c], _, hden =>
    obtain ⟨h1, h2, h3⟩ := hden c List.mem_cons_self
    exact Or.inr ⟨c.2, by rw [← h1], h2, h3⟩
  | c1 :: c2 :: rest, hv, hden =>
    exfalso
    have h1 := (hden c1 List.mem_cons_self).1
    have h2 := (hden c2 (List.mem_cons_of_mem _ List.mem_cons_self)).1
    simp only [Coins.valid, Coins.sortedStrict, Bool.and_eq_true, decide_eq_true_eq] at hv
    have := hv.2.1
    rw [h1, h2] at this
    exact absurd this (String.lt_irrefl dn)

theorem msgForceUnlock_ok {t : Int} {s s' : State} {owner : Addr} {id : Nat} {coins : Coins}
    (h : Inv s) (hs : msgForceUnlock t s owner id coins = some s') : Inv s' ∧ Eff t true s s' := by
  unfold msgForceUnlock at hs
  split at hs
  · cases hs
  · split at hs
    · cases hs
    · rename_i hv
      split at hs
      · cases hs
      · rename_i l hg
        obtain ⟨hl, _⟩ := getLock_mem hg
        obtain ⟨dn, a0, hc, ha0, hdn⟩ := h.single l hl
        split at hs
        · cases hs
        · split at hs
          · cases hs
          · split at hs
            · cases hs
            · rename_i hlte
              rw [hc] at hlte
              rcases valid_lte_single (by simpa using hv) (by simpa using hlte) with rfl | ⟨b, rfl, hb, hba⟩
              · simp only [List.isEmpty_nil, Bool.not_true, Bool.false_and, Bool.false_eq_true, if_false] at hs
                exact forceUnlock_ok h (Or.inl rfl) hl hs
              · simp only [List.isEmpty_cons, Bool.not_false, Bool.true_and, hc] at hs
                by_cases hbe : b = a0
                · subst hbe
                  simp only [ne_eq, not_true_eq_false, decide_false, Bool.false_eq_true, if_false] at hs
                  exact forceUnlock_ok h (Or.inl rfl) hl hs
                · have hne : [(dn, b)] ≠ [(dn, a0)] := by
                    intro e; injection e with e _; injection e with _ e; exact hbe e
                  simp only [ne_eq, hne, not_false_eq_true, decide_true, if_true] at hs
                  cases h1 : splitLock s l [(dn, b)] true with
                  | none => rw [h1] at hs; cases hs
                  | some p =>
                    obtain ⟨s1, nl⟩ := p
                    rw [h1] at hs
                    simp only at hs
                    obtain ⟨i1, e1, g1, _⟩ := splitLock_ok (t := t) (force := true) h hl hc hb (by omega) (fun _ => rfl) h1
                    obtain ⟨i2, e2⟩ := forceUnlock_ok i1 (Or.inr rfl) (getLock_mem g1).1 hs
                    exact ⟨i2, e1.trans e2⟩

/-! ## CL shares locked by the concentrated-liquidity keeper -/

theorem clLock_ok {t : Int} {force : Bool} {s s' : State} {owner : Addr} {dn : Denom} {a d : Int} {u : Bool} {rid : Nat}
    (h : Inv s) (hs : clLock t s owner dn a d u = some (s', rid)) : Inv s' ∧ Eff t force s s' := by
  unfold clLock at hs
  split at hs
  · cases hs
  · rename_i hcl
    have hcl : isCLDenom dn = true := by simpa using hcl
    split at hs
    · cases hs
    · rename_i hd
      cases h1 : mintCoinToModule s dn a with
      | none => rw [h1] at hs; cases hs
      | some s1 =>
        rw [h1] at hs
        obtain ⟨hdn, ha, rfl⟩ := mintCoinToModule_some h1
        simp only [Option.bind_some] at hs
        cases h2 : createLockNoSend { s with modBal := aadd s.modBal dn a } owner [(dn, a)] d with
        | none => rw [h2] at hs; cases hs
        | some p =>
          obtain ⟨s2, id⟩ := p
          rw [h2] at hs
          simp only [Option.bind_some] at hs
          obtain ⟨i2, e2, _, _⟩ := createLockNoSend_ok (t := t) (force := force) (B := s.bal) h (by omega) ha hdn
            (by intro o dn' hcl'
                have : dn ≠ dn' := by intro e; rw [e] at hcl; rw [hcl] at hcl'; cases hcl'
                rw [if_neg (fun e => this e.2)]; omega)
            (fun o dn' _ => Int.le_refl _) h2
          cases u
          · simp only [Bool.false_eq_true, if_false, Option.some.injEq, Prod.mk.injEq] at hs
            obtain ⟨rfl, _⟩ := hs
            exact ⟨i2, e2⟩
          · simp only [if_true] at hs
            obtain ⟨i3, e3, _⟩ := beginUnlock_ok (force := force) i2 (Or.inr ⟨dn, a, rfl, ha⟩) hs
            exact ⟨i3, e2.trans e3⟩

/-! ## every operation -/

def Op.isForce : Op → Bool
  | .forceUnlock .. => true
  | _ => false

theorem applyOp_ok {t : Int} {s s' : State} {op : Op} {r : Nat} (h : Inv s) (hs : applyOp t s op = some (s', r)) :
    Inv s' ∧ Eff t op.isForce s s' := by
  cases op with
  | lockTokens o c d => exact msgLockTokens_ok h hs
  | beginUnlock o id c => exact msgBeginUnlocking_ok h hs
  | addToLock id o dn a =>
    simp only [applyOp, Option.map_eq_some_iff, Prod.mk.injEq] at hs
    obtain ⟨s1, hs, rfl, _⟩ := hs
    exact addToLockGuarded_ok h hs
  | extend o id d =>
    simp only [applyOp, Option.map_eq_some_iff, Prod.mk.injEq] at hs
    obtain ⟨s1, hs, rfl, _⟩ := hs
    exact msgExtendLockup_ok h hs
  | beginUnlockAll o =>
    simp only [applyOp, Option.map_eq_some_iff, Prod.mk.injEq] at hs
    obtain ⟨s1, hs, rfl, _⟩ := hs
    exact msgBeginUnlockingAll_ok h hs
  | unlockMatured id =>
    simp only [applyOp, Option.map_eq_some_iff, Prod.mk.injEq] at hs
    obtain ⟨s1, hs, rfl, _⟩ := hs
    exact unlockMaturedLock_ok h hs
  | withdrawMatured n =>
    simp only [applyOp, Option.map_eq_some_iff, Prod.mk.injEq] at hs
    obtain ⟨s1, hs, rfl, _⟩ := hs
    exact withdrawMaturedLocks_ok h hs
  | setRewardReceiver o id rr =>
    simp only [applyOp, Option.map_eq_some_iff, Prod.mk.injEq] at hs
    obtain ⟨s1, hs, rfl, _⟩ := hs
    exact setRewardReceiver_ok h hs
  | forceUnlock o id c =>
    simp only [applyOp, Option.map_eq_some_iff, Prod.mk.injEq] at hs
    obtain ⟨s1, hs, rfl, _⟩ := hs
    exact msgForceUnlock_ok h hs
  | clLock o dn a d u => exact clLock_ok h hs

end OsmoVerif.Lockup
