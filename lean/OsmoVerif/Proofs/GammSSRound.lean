/-
C04 (stableswap invariant), part 2: rounding of the BigDec primitives and of the stableswap kernels as
inequalities over ℚ.

`rq a = a / 10^36` is the real value of the raw BigDec `a`; `eps = 10^-36` is one raw unit.
  * `BigDec.mul`   : `|rq r − rq a · rq b| ≤ eps/2`                        (half-even chop)
  * `BigDec.quo`   : `rq a / rq b − eps/2 − eps² < rq r ≤ rq a / rq b + eps/2` for `a ≥ 0, b > 0`
                     (truncated quotient at 72 digits, then half-even chop)
  * `add`, `sub`, `mulInt`, negation are exact.
  * `cfmmNoV`      : `|rq k − kq X Y W| ≤ eps·(X·Y + Y/2 + 1/2)`
  * `iterK`        : `|rq out − (hq Xf Yf W − hq X0 Yf W)| ≤ eps·(3/2·|X0 − Xf| + 1/2)`
  * `targetK`      : `|rq t − (kq X0 Y0 W / Yf − hq X0 Yf W)| ≤ eps·((X0·Y0 + Y0/2 + 1/2)/Yf + 1 + eps + X0)`
-/
import OsmoVerif.Proofs.GammSSMono
import Mathlib.Tactic.NormNum

set_option linter.unusedSimpArgs false

namespace OsmoVerif.GammMath.SS
open OsmoVerif.Num OsmoVerif.MathM OsmoVerif.Gen OsmoVerif.Spec

/-- real value of a raw BigDec. -/
def rq (a : Int) : ℚ := (a : ℚ) / 10 ^ 36
/-- one raw BigDec unit, `10^-36`. -/
def eps : ℚ := 1 / 10 ^ 36

theorem eps_pos : 0 < eps := by unfold eps; positivity
theorem P36_cast : ((P36 : Int) : ℚ) = 10 ^ 36 := by rw [P36_val]; norm_num
theorem Pdiff_val : Pdiff = 1000000000000000000 := by decide

theorem rq_add (a b : Int) : rq (a + b) = rq a + rq b := by unfold rq; push_cast; ring
theorem rq_sub (a b : Int) : rq (a - b) = rq a - rq b := by unfold rq; push_cast; ring
theorem rq_neg (a : Int) : rq (-a) = -rq a := by unfold rq; push_cast; ring
theorem rq_mul_int (a b : Int) : rq (a * b) = rq a * (b : ℚ) := by unfold rq; push_cast; ring
theorem rq_zero : rq 0 = 0 := by unfold rq; simp
theorem rq_P36_mul (a : Int) : rq (a * P36) = (a : ℚ) := by
  unfold rq; rw [Int.cast_mul, P36_cast]; field_simp
theorem rq_le_rq {a b : Int} : rq a ≤ rq b ↔ a ≤ b := by
  unfold rq
  rw [div_le_div_iff_of_pos_right (by positivity)]
  exact Int.cast_le
theorem rq_lt_rq {a b : Int} : rq a < rq b ↔ a < b := by
  unfold rq
  rw [div_lt_div_iff_of_pos_right (by positivity)]
  exact Int.cast_lt
theorem rq_nonneg {a : Int} : 0 ≤ rq a ↔ 0 ≤ a := by rw [← rq_zero, rq_le_rq]
theorem rq_pos {a : Int} : 0 < rq a ↔ 0 < a := by rw [← rq_zero, rq_lt_rq]
theorem rq_natAbs (a : Int) : rq (a.natAbs : Int) = |rq a| := by
  unfold rq
  rw [abs_div, abs_of_pos (show (0 : ℚ) < 10 ^ 36 by positivity)]
  congr 1
  rw [Int.natCast_natAbs]; exact Int.cast_abs

/-! ### the primitives -/

/-- half-even chop by 10^36 as a rational inequality. -/
theorem chopRound36_rq (n : Int) : |(chopRound P36 n : ℚ) - (n : ℚ) / 10 ^ 36| ≤ 1 / 2 := by
  obtain ⟨h1, h2, _⟩ := chopRound_isHalfEven P36 n P36_pos P36_even
  generalize chopRound P36 n = r at *
  have q1 : (2 : ℚ) * ((n : ℚ) - r * 10 ^ 36) ≤ 10 ^ 36 := by
    rw [← P36_cast]; exact_mod_cast h1
  have q2 : -(10 ^ 36 : ℚ) ≤ 2 * ((n : ℚ) - r * 10 ^ 36) := by
    rw [← P36_cast]; exact_mod_cast h2
  have e : (r : ℚ) - (n : ℚ) / 10 ^ 36 = ((r : ℚ) * 10 ^ 36 - n) / 10 ^ 36 := by field_simp
  rw [e, abs_le]
  constructor
  · rw [le_div_iff₀ (by positivity)]; linarith
  · rw [div_le_iff₀ (by positivity)]; linarith

/-- FULL: `BigDec.mul` is the exact product up to half a raw unit. -/
theorem BigDec_mul_rq {a b r : Int} (h : BigDec.mul a b = some r) : |rq r - rq a * rq b| ≤ eps / 2 := by
  unfold BigDec.mul at h
  have hr := (chk_some h).1
  have := chopRound36_rq (a * b)
  rw [← hr] at this
  have e : rq r - rq a * rq b = ((r : ℚ) - ((a * b : Int) : ℚ) / 10 ^ 36) / 10 ^ 36 := by
    unfold rq; push_cast; field_simp
  rw [e, abs_div, abs_of_pos (show (0 : ℚ) < 10 ^ 36 by positivity), div_le_iff₀ (by positivity)]
  unfold eps
  calc |(r : ℚ) - ((a * b : Int) : ℚ) / 10 ^ 36| ≤ 1 / 2 := this
    _ = 1 / 10 ^ 36 / 2 * 10 ^ 36 := by field_simp

/-- FULL: `BigDec.quo` of a non-negative numerator by a positive divisor: the exact quotient up to
`1/2` raw unit (half-even chop) plus the `10^-72` lost by the truncated division, on the low side only. -/
theorem BigDec_quo_rq {a b r : Int} (h : BigDec.quo a b = some r) (ha : 0 ≤ a) (hb : 0 < b) :
    rq a / rq b - eps / 2 - eps ^ 2 < rq r ∧ rq r ≤ rq a / rq b + eps / 2 := by
  unfold BigDec.quo at h
  rw [if_neg (by omega)] at h
  have hr := (chk_some h).1
  have hn : 0 ≤ a * (P36 * P36) := Int.mul_nonneg ha (Int.le_of_lt (Int.mul_pos P36_pos P36_pos))
  obtain ⟨t1, t2, _⟩ := tdiv_floor hb hn
  have c := chopRound36_rq ((a * (P36 * P36)).tdiv b)
  rw [← hr] at c
  generalize (a * (P36 * P36)).tdiv b = t at *
  have hbq : (0 : ℚ) < b := by exact_mod_cast hb
  have q1 : (t : ℚ) * b ≤ a * (10 ^ 36 * 10 ^ 36) := by
    rw [← P36_cast]; exact_mod_cast t1
  have q2 : (a : ℚ) * (10 ^ 36 * 10 ^ 36) < (t + 1) * b := by
    rw [← P36_cast]; exact_mod_cast t2
  have e : rq a / rq b = (a : ℚ) / b := by
    unfold rq; field_simp
  rw [e]
  -- t ≤ a·P²/b < t + 1
  have h1 : (t : ℚ) ≤ (a : ℚ) / b * (10 ^ 36 * 10 ^ 36) := by
    rw [div_mul_eq_mul_div, le_div_iff₀ hbq]; exact q1
  have h2 : (a : ℚ) / b * (10 ^ 36 * 10 ^ 36) < t + 1 := by
    rw [div_mul_eq_mul_div, div_lt_iff₀ hbq]; exact q2
  obtain ⟨c1, c2⟩ := abs_le.mp c
  unfold rq eps
  constructor
  · rw [lt_div_iff₀ (by positivity)]
    have : ((a : ℚ) / b - 1 / 10 ^ 36 / 2 - (1 / 10 ^ 36) ^ 2) * 10 ^ 36
        = ((a : ℚ) / b * (10 ^ 36 * 10 ^ 36) - 1) / 10 ^ 36 - 1 / 2 := by field_simp; ring
    rw [this]
    have : ((a : ℚ) / b * (10 ^ 36 * 10 ^ 36) - 1) / 10 ^ 36 < (t : ℚ) / 10 ^ 36 := by
      rw [div_lt_div_iff_of_pos_right (by positivity)]; linarith
    linarith
  · rw [div_le_iff₀ (by positivity)]
    have : ((a : ℚ) / b + 1 / 10 ^ 36 / 2) * 10 ^ 36
        = ((a : ℚ) / b * (10 ^ 36 * 10 ^ 36)) / 10 ^ 36 + 1 / 2 := by field_simp
    rw [this]
    have : (t : ℚ) / 10 ^ 36 ≤ ((a : ℚ) / b * (10 ^ 36 * 10 ^ 36)) / 10 ^ 36 := by
      rw [div_le_div_iff_of_pos_right (by positivity)]; exact h1
    linarith

theorem BigDec_add_rq {a b r : Int} (h : BigDec.add a b = some r) : rq r = rq a + rq b := by
  rw [BigDec_add_spec h, rq_add]
theorem BigDec_sub_rq {a b r : Int} (h : BigDec.sub a b = some r) : rq r = rq a - rq b := by
  rw [BigDec_sub_spec h, rq_sub]
theorem BigDec_mulInt_spec {a b r : Int} (h : BigDec.mulInt a b = some r) : r = a * b := (chk_some h).1

/-! ### `cfmmConstantMultiNoV` -/

/-- FULL: the rounded kernel against the exact one. -/
theorem cfmmNoV_rq {x y w k : Int} (h : cfmmNoV x y w = some k) :
    |rq k - kq (rq x) (rq y) (rq w)| ≤ eps * (rq x * rq y + rq y / 2 + 1 / 2) := by
  obtain ⟨hx, hy, hw, _⟩ := cfmmNoV_nonneg h
  have hX : 0 < rq x := rq_pos.mpr hx
  have hY : 0 < rq y := rq_pos.mpr hy
  unfold cfmmNoV at h
  cases h0 : cfmmNoVY x y w with
  | none => simp [h0] at h
  | some ky =>
    simp only [h0, Option.bind_some] at h
    unfold cfmmNoVY at h0
    rw [if_neg (by omega)] at h0
    cases h1 : BigDec.mul x x with
    | none => simp [h1] at h0
    | some x2 =>
      cases h2 : BigDec.mul y y with
      | none => simp [h1, h2] at h0
      | some y2 =>
        cases h3 : BigDec.add x2 y2 with
        | none => simp [h1, h2, h3] at h0
        | some t =>
          cases h4 : BigDec.add t w with
          | none => simp [h1, h2, h3, h4] at h0
          | some s =>
            simp only [h1, h2, h3, h4, Option.bind_eq_bind, Option.bind_some, bind] at h0
            have a1 := abs_le.mp (BigDec_mul_rq h1)
            have a2 := abs_le.mp (BigDec_mul_rq h2)
            have a3 := abs_le.mp (BigDec_mul_rq h0)
            have a4 := abs_le.mp (BigDec_mul_rq h)
            have es : rq s = rq x2 + rq y2 + rq w := by rw [BigDec_add_rq h4, BigDec_add_rq h3]
            rw [es] at a3
            generalize rq x = X at *
            generalize rq y = Y at *
            generalize rq w = W at *
            generalize rq x2 = X2 at *
            generalize rq y2 = Y2 at *
            generalize rq ky = KY at *
            generalize rq k = K at *
            have he := eps_pos
            generalize eps = e at *
            -- α12 = (X2 − X²) + (Y2 − Y²), |α12| ≤ e
            have b1 : X * Y * ((X2 - X * X) + (Y2 - Y * Y)) ≤ X * Y * e :=
              mul_le_mul_of_nonneg_left (by linarith) (by positivity)
            have b2 : X * Y * (-e) ≤ X * Y * ((X2 - X * X) + (Y2 - Y * Y)) :=
              mul_le_mul_of_nonneg_left (by linarith) (by positivity)
            have b3 : (KY - X * (X2 + Y2 + W)) * Y ≤ e / 2 * Y :=
              mul_le_mul_of_nonneg_right (by linarith) (by positivity)
            have b4 : -(e / 2) * Y ≤ (KY - X * (X2 + Y2 + W)) * Y :=
              mul_le_mul_of_nonneg_right (by linarith) (by positivity)
            unfold kq
            rw [abs_le]
            constructor <;> nlinarith

/-! ### `iterKCalculator` -/

/-- FULL: the rounded Horner polynomial against the exact `h(xf) − h(x0)`. -/
theorem iterK_rq {x0 w yf xf out : Int} {f : Int → Option Int} (h : iterK x0 w yf = some f)
    (hf : f xf = some out) :
    |rq out - (hq (rq xf) (rq yf) (rq w) - hq (rq x0) (rq yf) (rq w))|
      ≤ eps * (3 / 2 * |rq x0 - rq xf| + 1 / 2) := by
  unfold iterK at h
  cases h1 : BigDec.mulInt x0 3 with
  | none => simp [h1] at h
  | some quad =>
    cases h2 : BigDec.mul quad x0 with
    | none => simp [h1, h2] at h
    | some q1 =>
      cases h3 : BigDec.mul yf yf with
      | none => simp [h1, h2, h3] at h
      | some yf2 =>
        cases h4 : BigDec.add q1 w with
        | none => simp [h1, h2, h3, h4] at h
        | some t =>
          cases h5 : BigDec.add t yf2 with
          | none => simp [h1, h2, h3, h4, h5] at h
          | some lin0 =>
            simp only [h1, h2, h3, h4, h5, Option.bind_eq_bind, Option.bind_some, bind, pure] at h
            injection h with h
            subst h
            simp only [Option.bind_eq_bind, bind] at hf
            cases g1 : BigDec.sub x0 xf with
            | none => simp [g1] at hf
            | some xOut =>
              cases g2 : BigDec.add (-xOut) quad with
              | none => simp [g1, g2] at hf
              | some t1 =>
                cases g3 : BigDec.mul t1 xOut with
                | none => simp [g1, g2, g3] at hf
                | some r1 =>
                  cases g4 : BigDec.add r1 (-lin0) with
                  | none => simp [g1, g2, g3, g4] at hf
                  | some t2 =>
                    simp only [g1, g2, g3, g4, Option.bind_some] at hf
                    have equad : rq quad = 3 * rq x0 := by
                      rw [BigDec_mulInt_spec h1, rq_mul_int]; push_cast; ring
                    have a1 := abs_le.mp (BigDec_mul_rq h2)
                    have a2 := abs_le.mp (BigDec_mul_rq h3)
                    have a3 := abs_le.mp (BigDec_mul_rq g3)
                    have a4 := abs_le.mp (BigDec_mul_rq hf)
                    have elin : rq lin0 = rq q1 + rq w + rq yf2 := by rw [BigDec_add_rq h5, BigDec_add_rq h4]
                    have exo : rq xOut = rq x0 - rq xf := BigDec_sub_rq g1
                    have et1 : rq t1 = -rq xOut + rq quad := by rw [BigDec_add_rq g2, rq_neg]
                    have et2 : rq t2 = rq r1 - rq lin0 := by rw [BigDec_add_rq g4, rq_neg]; ring
                    rw [et2, elin] at a4
                    rw [et1, equad] at a3
                    rw [equad] at a1
                    rw [← exo]
                    have exf : rq xf = rq x0 - rq xOut := by rw [exo]; ring
                    rw [exf]
                    generalize rq x0 = X at *
                    generalize rq yf = Y at *
                    generalize rq w = W at *
                    generalize rq xOut = O at *
                    generalize rq q1 = Q1 at *
                    generalize rq yf2 = Y2 at *
                    generalize rq r1 = R1 at *
                    generalize rq out = OUT at *
                    have he := eps_pos
                    generalize eps = e at *
                    -- out − exact = (γ2 − γ1 − β1)·O + γ3 with |γ2 − γ1 − β1| ≤ 3e/2
                    have hg : |(R1 - (-O + 3 * X) * O) - (Q1 - 3 * X * X) - (Y2 - Y * Y)| ≤ 3 / 2 * e := by
                      rw [abs_le]; constructor <;> linarith
                    have hm : |((R1 - (-O + 3 * X) * O) - (Q1 - 3 * X * X) - (Y2 - Y * Y)) * O| ≤ 3 / 2 * e * |O| := by
                      rw [abs_mul]; exact mul_le_mul_of_nonneg_right hg (abs_nonneg _)
                    obtain ⟨m1, m2⟩ := abs_le.mp hm
                    have key : OUT - (hq (X - O) Y W - hq X Y W)
                        = ((R1 - (-O + 3 * X) * O) - (Q1 - 3 * X * X) - (Y2 - Y * Y)) * O
                          + (OUT - (R1 - (Q1 + W + Y2)) * O) := by
                      unfold hq; ring
                    rw [key, abs_le]
                    constructor <;> nlinarith

/-! ### `targetKCalculator` -/

/-- FULL: the rounded target against the exact `k(x0,y0,w)/yf − h(x0)`. -/
theorem targetK_rq {x0 y0 w yf t : Int} (h : targetK x0 y0 w yf = some t) (hyf : 0 < yf) :
    |rq t - (kq (rq x0) (rq y0) (rq w) / rq yf - hq (rq x0) (rq yf) (rq w))|
      ≤ eps * ((rq x0 * rq y0 + rq y0 / 2 + 1 / 2) / rq yf + 1 + eps + rq x0) := by
  unfold targetK at h
  cases h0 : cfmmNoV x0 y0 w with
  | none => simp [h0] at h
  | some k =>
    cases h1 : BigDec.quo k yf with
    | none => simp [h0, h1] at h
    | some yr =>
      cases h2 : BigDec.mul yf yf with
      | none => simp [h0, h1, h2] at h
      | some yf2 =>
        cases h3 : BigDec.mul x0 x0 with
        | none => simp [h0, h1, h2, h3] at h
        | some x02 =>
          cases h4 : BigDec.add yf2 w with
          | none => simp [h0, h1, h2, h3, h4] at h
          | some u =>
            cases h5 : BigDec.add u x02 with
            | none => simp [h0, h1, h2, h3, h4, h5] at h
            | some inner =>
              cases h6 : BigDec.mul inner x0 with
              | none => simp [h0, h1, h2, h3, h4, h5, h6] at h
              | some cst =>
                simp only [h0, h1, h2, h3, h4, h5, h6, Option.bind_eq_bind, Option.bind_some, bind] at h
                obtain ⟨hx, hy, hw, hk⟩ := cfmmNoV_nonneg h0
                have hX : 0 < rq x0 := rq_pos.mpr hx
                have hY : 0 < rq y0 := rq_pos.mpr hy
                have hYf : 0 < rq yf := rq_pos.mpr hyf
                have ak := abs_le.mp (cfmmNoV_rq h0)
                obtain ⟨q1, q2⟩ := BigDec_quo_rq h1 hk hyf
                have a2 := abs_le.mp (BigDec_mul_rq h2)
                have a3 := abs_le.mp (BigDec_mul_rq h3)
                have a6 := abs_le.mp (BigDec_mul_rq h6)
                have ei : rq inner = rq yf2 + rq w + rq x02 := by rw [BigDec_add_rq h5, BigDec_add_rq h4]
                have et : rq t = rq yr - rq cst := BigDec_sub_rq h
                rw [ei] at a6
                rw [et]
                generalize rq x0 = X at *
                generalize rq y0 = Y at *
                generalize rq w = W at *
                generalize rq yf = F at *
                generalize rq k = K at *
                generalize rq yr = YR at *
                generalize rq yf2 = F2 at *
                generalize rq x02 = X2 at *
                generalize rq cst = C at *
                have he := eps_pos
                generalize eps = e at *
                -- K/F against kq/F
                have d1 : K / F ≤ kq X Y W / F + e * (X * Y + Y / 2 + 1 / 2) / F := by
                  rw [← add_div]; exact div_le_div_of_nonneg_right (by linarith) (le_of_lt hYf)
                have d2 : kq X Y W / F - e * (X * Y + Y / 2 + 1 / 2) / F ≤ K / F := by
                  rw [← sub_div]; exact div_le_div_of_nonneg_right (by linarith) (le_of_lt hYf)
                have d3 : e * ((X * Y + Y / 2 + 1 / 2) / F + 1 + e + X)
                    = e * (X * Y + Y / 2 + 1 / 2) / F + e + e ^ 2 + e * X := by ring
                -- the constant against h(x0)
                have c1 : ((F2 - F * F) + (X2 - X * X)) * X ≤ e * X :=
                  mul_le_mul_of_nonneg_right (by linarith) (le_of_lt hX)
                have c2 : -e * X ≤ ((F2 - F * F) + (X2 - X * X)) * X :=
                  mul_le_mul_of_nonneg_right (by linarith) (le_of_lt hX)
                have key : C - hq X F W = ((F2 - F * F) + (X2 - X * X)) * X + (C - (F2 + W + X2) * X) := by
                  unfold hq; ring
                rw [d3, abs_le]
                constructor <;> nlinarith

end OsmoVerif.GammMath.SS
