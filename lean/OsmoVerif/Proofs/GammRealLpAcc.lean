/- Balancer single-asset joins and exits: real-valued floor / ceiling forms and CONDITIONAL accuracy in terms of the
base and exponent actually used. -/
import OsmoVerif.Proofs.GammRealLp

namespace OsmoVerif.GammMath
open OsmoVerif.Num OsmoVerif.MathM OsmoVerif.Gen OsmoVerif.Spec

/-! ### real kernels -/

/-- a truncated quotient by 10^18, over the reals. -/
theorem trunc_real {n t : Int} (h : IsTrunc n P18 t) :
    dv n - 1 < t ∧ (t : ℝ) < dv n + 1 ∧ (0 ≤ n → t = ⌊dv n⌋) ∧ (n < 0 → t = ⌈dv n⌉) ∧ (t : ℝ) ≤ max (dv n) 0 := by
  obtain ⟨hf, hc⟩ := h
  rcases Int.lt_or_le n 0 with hn | hn
  · obtain ⟨c1, c2⟩ := hc hn
    have e := ceil_dv c2 c1
    have f1 := Int.le_ceil (dv n)
    have f2 := Int.ceil_lt_add_one (dv n)
    rw [e] at f1 f2
    have hneg : dv n < 0 := by have := dv_lt hn; rwa [dv_zero] at this
    have ht0 : t ≤ 0 := by
      by_contra hcon
      have : 1 ≤ t := by omega
      have : (1 : ℝ) ≤ t := by exact_mod_cast this
      linarith
    have ht0' : (t : ℝ) ≤ 0 := by exact_mod_cast ht0
    exact ⟨by linarith, by linarith, fun h => by omega, fun _ => e.symm, le_trans ht0' (le_max_right _ _)⟩
  · obtain ⟨c1, c2⟩ := hf hn
    have e := floor_dv c1 c2
    have f1 := Int.floor_le (dv n)
    have f2 := Int.lt_floor_add_one (dv n)
    rw [e] at f1 f2
    exact ⟨by linarith, by linarith, fun _ => e.symm, fun h => by omega, le_trans f1 (le_max_left _ _)⟩

/-- join: shares against `S·(x − 1)`. -/
theorem trunc_of_pow_accuracy {T t pw : Int} {x ε : ℝ} (ht : IsTrunc ((pw - P18) * T) P18 t) (hT : 0 ≤ T)
    (hacc : |dv pw - x| ≤ ε) :
    (T : ℝ) * (x - ε - 1) - 1 < t ∧ (t : ℝ) ≤ max ((T : ℝ) * (x + ε - 1)) 0 := by
  have hT' : (0 : ℝ) ≤ T := by exact_mod_cast hT
  obtain ⟨a1, a2⟩ := abs_le.mp hacc
  obtain ⟨t1, _, _, _, t5⟩ := trunc_real ht
  have e : dv ((pw - P18) * T) = (T : ℝ) * (dv pw - 1) := by rw [dv_mul_int, dv_sub, dv_P18, mul_comm]
  rw [e] at t1 t5
  constructor
  · have : (T : ℝ) * (x - ε - 1) ≤ (T : ℝ) * (dv pw - 1) := mul_le_mul_of_nonneg_left (by linarith) hT'
    linarith
  · have : (T : ℝ) * (dv pw - 1) ≤ (T : ℝ) * (x + ε - 1) := mul_le_mul_of_nonneg_left (by linarith) hT'
    exact le_trans t5 (max_le_max this le_rfl)

/-- shares-out → token-in: the ceiling against `(x − 1)·A/d`, `d` the value of `feeRatio`. -/
theorem ceil_quo_of_pow_accuracy {R t pw q : Int} {x ε d : ℝ} (ht : t = ⌈dv q⌉)
    (hq : |dv q - (dv pw - 1) * (R : ℝ) / d| ≤ quoErr) (hR : 0 ≤ R) (hd : 0 < d)
    (hacc : |dv pw - x| ≤ ε) :
    (x - ε - 1) * (R : ℝ) / d - quoErr ≤ t ∧ (t : ℝ) < (x + ε - 1) * (R : ℝ) / d + quoErr + 1 := by
  have hR' : (0 : ℝ) ≤ R := by exact_mod_cast hR
  obtain ⟨a1, a2⟩ := abs_le.mp hacc
  obtain ⟨b1, b2⟩ := abs_le.mp hq
  have f1 := Int.le_ceil (dv q)
  have f2 := Int.ceil_lt_add_one (dv q)
  rw [← ht] at f1 f2
  have m1 : (x - ε - 1) * (R : ℝ) / d ≤ (dv pw - 1) * (R : ℝ) / d :=
    div_le_div_of_nonneg_right (mul_le_mul_of_nonneg_right (by linarith) hR') hd.le
  have m2 : (dv pw - 1) * (R : ℝ) / d ≤ (x + ε - 1) * (R : ℝ) / d :=
    div_le_div_of_nonneg_right (mul_le_mul_of_nonneg_right (by linarith) hR') hd.le
  constructor <;> linarith

/-- single-asset exit: the floor against `(1 − x)·S/d`, `d = 1 − exitFee`. -/
theorem floor_quo_of_pow_accuracy {S s pw x' : Int} {x ε d : ℝ} (hs : s = ⌊dv x'⌋)
    (hx : |dv x' - (1 - dv pw) * (S : ℝ) / d| ≤ quoErr) (hS : 0 ≤ S) (hd : 0 < d)
    (hacc : |dv pw - x| ≤ ε) :
    (1 - x - ε) * (S : ℝ) / d - quoErr - 1 < s ∧ (s : ℝ) ≤ (1 - x + ε) * (S : ℝ) / d + quoErr := by
  have hS' : (0 : ℝ) ≤ S := by exact_mod_cast hS
  obtain ⟨a1, a2⟩ := abs_le.mp hacc
  obtain ⟨b1, b2⟩ := abs_le.mp hx
  have f1 := Int.floor_le (dv x')
  have f2 := Int.lt_floor_add_one (dv x')
  rw [← hs] at f1 f2
  have m1 : (1 - x - ε) * (S : ℝ) / d ≤ (1 - dv pw) * (S : ℝ) / d :=
    div_le_div_of_nonneg_right (mul_le_mul_of_nonneg_right (by linarith) hS') hd.le
  have m2 : (1 - dv pw) * (S : ℝ) / d ≤ (1 - x + ε) * (S : ℝ) / d :=
    div_le_div_of_nonneg_right (mul_le_mul_of_nonneg_right (by linarith) hS') hd.le
  constructor <;> linarith

/-! ### pool level -/

/-- FULL. `calcSingleAssetJoin`: the shares minted are `(pw/10^18 − 1)·totalShares` truncated toward zero:
the FLOOR when that product is non-negative (the expected case), so never more than the formula. -/
theorem balCalcSingleAssetJoin_real {p : BalPool} {denom : String} {amt spread T t : Int} {asset : BalAsset}
    (h : balCalcSingleAssetJoin p denom amt spread asset T = .ok t) :
    ∃ nw fr y pw, JoinCall p amt spread asset nw fr y pw ∧ IsTrunc ((pw - P18) * T) P18 t ∧
      (T : ℝ) * (dv pw - 1) - 1 < t ∧ (t : ℝ) ≤ max ((T : ℝ) * (dv pw - 1)) 0 ∧
      (0 ≤ (pw - P18) * T → t = ⌊(T : ℝ) * (dv pw - 1)⌋) := by
  obtain ⟨nw, fr, y, pw, hc, ht⟩ := balCalcSingleAssetJoin_spec h
  obtain ⟨t1, _, t3, _, t5⟩ := trunc_real ht
  have e : dv ((pw - P18) * T) = (T : ℝ) * (dv pw - 1) := by rw [dv_mul_int, dv_sub, dv_P18, mul_comm]
  rw [e] at t1 t3 t5
  exact ⟨nw, fr, y, pw, hc, ht, t1, t5, t3⟩

/-- FULL. `CalcTokenInShareAmountOut`: the tokens charged are EXACTLY `⌈q/10^18⌉`, `q/10^18` within `quoErr` of
`(pw/10^18 − 1)·reserve/feeRatio`. -/
theorem balTokenInShareOut_ceil {p : BalPool} {denom : String} {sharesOut spread t : Int}
    (h : balTokenInShareOut p denom sharesOut spread = .ok t) :
    ∃ a nw wr y pw fr q, ShareOutCall p denom sharesOut spread a nw wr y pw fr q ∧ 0 < t ∧ t = ⌈dv q⌉ ∧
      |dv q - (dv pw - 1) * (a.amount : ℝ) / dv fr| ≤ quoErr := by
  obtain ⟨a, nw, wr, y, pw, fr, q, hc, t0, t1, t2⟩ := balTokenInShareOut_spec h
  refine ⟨a, nw, wr, y, pw, fr, q, hc, t0, (ceil_dv t1 t2).symm, ?_⟩
  have := (Dec_quo_dv_error hc.hq).2
  rwa [dv_mul_int, dv_sub, dv_P18] at this

/-- FULL. `ExitSwapExactAmountOut`: the shares burned are EXACTLY `⌊x/10^18⌋`, `x/10^18` within `quoErr` of
`(1 − pw/10^18)·totalShares/(1 − exitFee)`.  The floor is in the EXITER's favour. -/
theorem balExitSwapOut_floor {p p' : BalPool} {denom : String} {amtOut maxShares s : Int}
    (h : balExitSwapOut p denom amtOut maxShares = .ok (s, p')) :
    ∃ a nw fr outFee y pw x, ExitCall p denom amtOut a nw fr outFee y pw x ∧ 0 < s ∧ s ≤ maxShares ∧
      s = ⌊dv x⌋ ∧ |dv x - (1 - dv pw) * (p.totalShares : ℝ) / (1 - dv p.exitFee)| ≤ quoErr ∧
      0 ≤ amtOut ∧ amtOut ≤ a.amount ∧ s ≤ p.totalShares ∧ p'.totalShares = p.totalShares - s ∧
      findAsset p'.assets denom = some { a with amount := writtenAmount a.amount (a.amount - amtOut) } := by
  obtain ⟨a, nw, fr, outFee, y, pw, x, hc, s0, s1, s2, s3, g1, g2, g3, g4, g5⟩ := balExitSwapOut_spec h
  refine ⟨a, nw, fr, outFee, y, pw, x, hc, s0, s1, (floor_dv s2 s3).symm, ?_, g1, g2, g4, g3, g5⟩
  have := (Dec_quo_dv_error hc.hx).2
  rwa [dv_mul_int, dv_sub, dv_sub, dv_P18] at this

end OsmoVerif.GammMath
