/- C11, refresh at an exchange rate ≠ 1: the exact stake of an intermediary account as a rational number, and what the
refresh's reading of it, a mint and a burn do to it (the account's own stake and the stake of the validator's other
accounts). -/
import OsmoVerif.Proofs.SuperfluidRefreshEffect
import Mathlib.Algebra.Order.Field.Basic
import Mathlib.Data.Rat.Cast.Order
import Mathlib.Tactic.FieldSimp
import Mathlib.Tactic.Positivity

namespace OsmoVerif.Superfluid
open OsmoVerif.Num OsmoVerif.Spec

macro "fsr" : tactic => `(tactic| (field_simp; try ring))

/-- **the exact stake** of an intermediary account: `shares · Tokens / DelegatorShares` of its validator (what the
engine's oracle computes with `big.Rat`); 0 without a delegation record. -/
def stakeQ (k : Stk) (key : AccKey) : ℚ := (shOf k key : ℚ) * ((k.val key.2).tokens : ℚ) / ((k.val key.2).shares : ℚ)

/-- tokens per RAW share (10⁻¹⁸ share) of a validator: 10⁻¹⁸ at exchange rate one. -/
def rateQ (k : Stk) (v : Nat) : ℚ := ((k.val v).tokens : ℚ) / ((k.val v).shares : ℚ)

/-- the fraction of its validator's shares an account's delegation holds. -/
def fracQ (k : Stk) (key : AccKey) : ℚ := (shOf k key : ℚ) / ((k.val key.2).shares : ℚ)

/-- one raw `Dec` unit: 10⁻¹⁸. -/
def uQ : ℚ := 1 / (P18 : ℚ)

theorem P18Q_pos : (0 : ℚ) < (P18 : ℚ) := by exact_mod_cast P18_pos
theorem uQ_pos : 0 < uQ := by unfold uQ; exact div_pos one_pos P18Q_pos
theorem uQ_le : uQ ≤ 1 / 2 := by
  unfold uQ
  rw [div_le_div_iff₀ P18Q_pos (by norm_num)]
  have : (2 : ℚ) ≤ (P18 : ℚ) := by exact_mod_cast (show (2 : Int) ≤ P18 by decide)
  linarith

theorem stakeQ_nonneg {k : Stk} {key : AccKey} (hd : 0 ≤ shOf k key) (hT : 0 ≤ (k.val key.2).tokens) (hS : 0 ≤ (k.val key.2).shares) :
    0 ≤ stakeQ k key := by
  unfold stakeQ
  have h1 : (0 : ℚ) ≤ (shOf k key : ℚ) := by exact_mod_cast hd
  have h2 : (0 : ℚ) ≤ ((k.val key.2).tokens : ℚ) := by exact_mod_cast hT
  have h3 : (0 : ℚ) ≤ ((k.val key.2).shares : ℚ) := by exact_mod_cast hS
  positivity

/-- **the refresh reads the stake rounded twice**: `−(½ + ½·10⁻¹⁸) ≤ stake − currentAmount < ½ + ½·10⁻¹⁸ + 10⁻³⁶`. -/
theorem current_vs_stake {s : SState} {key : AccKey} {cur : Int}
    (hT : 0 ≤ (s.k.val key.2).tokens) (hS : 0 < (s.k.val key.2).shares) (hd0 : 0 ≤ shOf s.k key)
    (h : currentS s key = some cur) :
    -(1 / 2 + uQ / 2) ≤ stakeQ s.k key - cur ∧ stakeQ s.k key - cur < 1 / 2 + uQ / 2 + uQ * uQ := by
  have hSq : (0 : ℚ) < ((s.k.val key.2).shares : ℚ) := by exact_mod_cast hS
  have hP := P18Q_pos
  cases hd : s.k.dsh key with
  | none =>
    rw [currentS_none hd] at h
    injection h with h
    subst h
    have e : shOf s.k key = 0 := by unfold shOf; rw [hd]
    unfold stakeQ
    rw [e]
    have h1 := uQ_pos
    have h2 := mul_pos uQ_pos uQ_pos
    simp only [Int.cast_zero, zero_mul, zero_div, sub_zero]
    constructor <;> linarith
  | some d =>
    have e : shOf s.k key = d := shOf_of_some hd
    rw [e] at hd0
    obtain ⟨t, ht, hr2, _⟩ := currentS_spec hd h
    obtain ⟨q, q1, q2, hr1, _, _⟩ := tokensFromShares_spec hT hS hd0 ht
    obtain ⟨b1, b2⟩ := RefreshArith.cur_bounds P18_pos hS q1 q2 hr1 hr2
    have c1 : ((-((P18 * P18 + P18) * (s.k.val key.2).shares) : Int) : ℚ) ≤
        ((2 * (d * (s.k.val key.2).tokens * (P18 * P18) - cur * (P18 * P18) * (s.k.val key.2).shares) : Int) : ℚ) := by
      exact_mod_cast b1
    have c2 : ((2 * (d * (s.k.val key.2).tokens * (P18 * P18) - cur * (P18 * P18) * (s.k.val key.2).shares) : Int) : ℚ) <
        (((P18 * P18 + P18 + 2) * (s.k.val key.2).shares : Int) : ℚ) := by
      exact_mod_cast b2
    push_cast at c1 c2
    unfold stakeQ uQ
    rw [e]
    generalize ((s.k.val key.2).shares : ℚ) = S at *
    generalize ((s.k.val key.2).tokens : ℚ) = T at *
    generalize (P18 : ℚ) = P at *
    have hPPS : 0 < 2 * (P * P * S) := by positivity
    constructor
    · rw [← sub_nonneg]
      have : (d : ℚ) * T / S - cur - -(1 / 2 + 1 / P / 2) =
          (2 * (d * T * (P * P) - cur * (P * P) * S) + (P * P + P) * S) / (2 * (P * P * S)) := by
        fsr
      rw [this]
      apply div_nonneg _ (le_of_lt hPPS)
      linarith
    · rw [← sub_pos]
      have : 1 / 2 + 1 / P / 2 + 1 / P * (1 / P) - ((d : ℚ) * T / S - cur) =
          ((P * P + P + 2) * S - 2 * (d * T * (P * P) - cur * (P * P) * S)) / (2 * (P * P * S)) := by
        fsr
      rw [this]
      apply div_pos _ hPPS
      linarith


/-! ## mint + delegate -/

/-- **the minting account's own stake** moves up by the minted amount, short by less than `T/S'` (`≤` the validator's
tokens per raw share): the issued shares are floored. -/
theorem mintS_stakeQ_own {s s' : SState} {a : Int} {key : AccKey}
    (hT : 0 < (s.k.val key.2).tokens) (hS : 0 < (s.k.val key.2).shares)
    (hd0 : 0 ≤ shOf s.k key) (hdS : shOf s.k key ≤ (s.k.val key.2).shares) (h : mintS s a key = .ok s') :
    stakeQ s.k key + a - rateQ s.k key.2 < stakeQ s'.k key ∧ stakeQ s'.k key ≤ stakeQ s.k key + a := by
  obtain ⟨i, b1, b2, b3, ha, hv', hd', _⟩ := mintS_effect hT hS h
  have l1 := RefreshArith.mint_lower_strict hS hT hd0 hdS b1 b2
  have l2 := (RefreshArith.mint_bounds hS hdS b1 b2).2
  have c1 : ((((shOf s.k key) * (s.k.val key.2).tokens + a * (s.k.val key.2).shares) * ((s.k.val key.2).shares + i)
      - (s.k.val key.2).tokens * (s.k.val key.2).shares : Int) : ℚ) <
      (((shOf s.k key + i) * ((s.k.val key.2).tokens + a) * (s.k.val key.2).shares : Int) : ℚ) := by exact_mod_cast l1
  have c2 : ((((shOf s.k key + i) * ((s.k.val key.2).tokens + a) * (s.k.val key.2).shares : Int)) : ℚ) ≤
      ((((shOf s.k key) * (s.k.val key.2).tokens + a * (s.k.val key.2).shares) * ((s.k.val key.2).shares + i) : Int) : ℚ) := by
    exact_mod_cast l2
  push_cast at c1 c2
  have hSq : (0 : ℚ) < ((s.k.val key.2).shares : ℚ) := by exact_mod_cast hS
  have hTq : (0 : ℚ) < ((s.k.val key.2).tokens : ℚ) := by exact_mod_cast hT
  have hiq : (0 : ℚ) ≤ (i : ℚ) := by exact_mod_cast b3
  unfold stakeQ rateQ
  rw [shOf_of_some hd', hv']
  push_cast
  generalize ((s.k.val key.2).shares : ℚ) = S at *
  generalize ((s.k.val key.2).tokens : ℚ) = T at *
  generalize (shOf s.k key : ℚ) = d at *
  generalize (i : ℚ) = j at *
  generalize (a : ℚ) = A at *
  have hS' : 0 < S + j := by linarith
  have hrate : T / (S + j) ≤ T / S := div_le_div_of_nonneg_left (le_of_lt hTq) hSq (by linarith)
  constructor
  · have : d * T / S + A - T / (S + j) < (d + j) * (T + A) / (S + j) := by
      rw [← sub_pos]
      have e : (d + j) * (T + A) / (S + j) - (d * T / S + A - T / (S + j)) =
          ((d + j) * (T + A) * S - ((d * T + A * S) * (S + j) - T * S)) / (S * (S + j)) := by
        fsr
      rw [e]
      exact div_pos (by linarith) (by positivity)
    linarith
  · rw [← sub_nonneg]
    have e : d * T / S + A - (d + j) * (T + A) / (S + j) =
        ((d * T + A * S) * (S + j) - (d + j) * (T + A) * S) / (S * (S + j)) := by
      fsr
    rw [e]
    exact div_nonneg (by linarith) (by positivity)

/-- **another account of the same validator** (`d` shares, unchanged, `d ≤ S`): its stake creeps UP by `d·δ/(S·S')`,
less than the validator's tokens per raw share. -/
theorem mintS_stakeQ_other {s s' : SState} {a : Int} {key k' : AccKey} (hne : k' ≠ key) (hsame : k'.2 = key.2)
    (hT : 0 < (s.k.val key.2).tokens) (hS : 0 < (s.k.val key.2).shares)
    (hd0 : 0 ≤ shOf s.k k') (hdS : shOf s.k k' ≤ (s.k.val key.2).shares) (h : mintS s a key = .ok s') :
    stakeQ s.k k' ≤ stakeQ s'.k k' ∧ stakeQ s'.k k' < stakeQ s.k k' + rateQ s.k key.2 := by
  obtain ⟨i, b1, b2, b3, ha, hv', hd', _⟩ := mintS_effect hT hS h
  obtain ⟨f1, _⟩ := mintS_frame h
  have esh : shOf s'.k k' = shOf s.k k' := by unfold shOf; rw [f1 k' hne]
  have hδ0 : 0 ≤ (s.k.val key.2).shares * a - i * (s.k.val key.2).tokens := by omega
  have hδ1 : (s.k.val key.2).shares * a - i * (s.k.val key.2).tokens < (s.k.val key.2).tokens := by omega
  have c0 : (0 : ℚ) ≤ (((s.k.val key.2).shares * a - i * (s.k.val key.2).tokens : Int) : ℚ) := by exact_mod_cast hδ0
  have c1 : ((((s.k.val key.2).shares * a - i * (s.k.val key.2).tokens : Int)) : ℚ) < (((s.k.val key.2).tokens : Int) : ℚ) := by
    exact_mod_cast hδ1
  push_cast at c0 c1
  have hSq : (0 : ℚ) < ((s.k.val key.2).shares : ℚ) := by exact_mod_cast hS
  have hTq : (0 : ℚ) < ((s.k.val key.2).tokens : ℚ) := by exact_mod_cast hT
  have hiq : (0 : ℚ) ≤ (i : ℚ) := by exact_mod_cast b3
  have hdq : (0 : ℚ) ≤ (shOf s.k k' : ℚ) := by exact_mod_cast hd0
  have hdSq : (shOf s.k k' : ℚ) ≤ ((s.k.val key.2).shares : ℚ) := by exact_mod_cast hdS
  unfold stakeQ rateQ
  rw [esh, hsame, hv']
  push_cast
  generalize ((s.k.val key.2).shares : ℚ) = S at *
  generalize ((s.k.val key.2).tokens : ℚ) = T at *
  generalize (shOf s.k k' : ℚ) = d at *
  generalize (i : ℚ) = j at *
  generalize (a : ℚ) = A at *
  have hS' : 0 < S + j := by linarith
  have e : d * (T + A) / (S + j) - d * T / S = d * (S * A - j * T) / (S * (S + j)) := by
    fsr
  constructor
  · rw [← sub_nonneg, e]
    exact div_nonneg (mul_nonneg hdq c0) (by positivity)
  · have : d * (T + A) / (S + j) - d * T / S < T / S := by
      rw [e]
      rw [div_lt_div_iff₀ (by positivity) hSq]
      have h1 : d * (S * A - j * T) ≤ S * (S * A - j * T) := mul_le_mul_of_nonneg_right hdSq c0
      have h2 : S * (S * A - j * T) < S * T := mul_lt_mul_of_pos_left c1 hSq
      have h3 : S * T * S ≤ T * (S * (S + j)) := by nlinarith [mul_nonneg (mul_nonneg hTq.le hSq.le) hiq]
      nlinarith
    linarith


/-! ## force-undelegate + burn -/

theorem fracQ_bounds {k : Stk} {key : AccKey} (h0 : 0 ≤ shOf k key) (h1 : shOf k key ≤ (k.val key.2).shares) :
    0 ≤ fracQ k key ∧ fracQ k key ≤ 1 := by
  unfold fracQ
  have a0 : (0 : ℚ) ≤ (shOf k key : ℚ) := by exact_mod_cast h0
  have a1 : (shOf k key : ℚ) ≤ ((k.val key.2).shares : ℚ) := by exact_mod_cast h1
  have a2 : (0 : ℚ) ≤ ((k.val key.2).shares : ℚ) := le_trans a0 a1
  constructor
  · exact div_nonneg a0 a2
  · exact div_le_one_of_le₀ a1 a2

/-- the rational facts about one accepted burn on a validator that keeps shares: `δ/S ∈ [0, T/S)` (the shares to remove
are floored) and `r = (sh·T − got·S)/S ∈ [−½·10⁻¹⁸, 1)` (the payout is `TokensFromShares` rounded, then truncated). -/
theorem burn_terms {S T a sh got q tfs : Int} (hS : 0 < S) (_hT : 0 < T)
    (f1 : sh * T ≤ S * a) (f2 : S * a < sh * T + T)
    (q1 : q * S ≤ sh * T * (P18 * P18)) (q2 : sh * T * (P18 * P18) < q * S + S)
    (hr : IsHalfEven q P18 tfs) (g1 : got * P18 ≤ tfs) (g2 : tfs < got * P18 + P18) :
    (0 : ℚ) ≤ ((S : ℚ) * a - sh * T) / S ∧ ((S : ℚ) * a - sh * T) / S < (T : ℚ) / S ∧
    -(uQ / 2) ≤ ((sh : ℚ) * T - got * S) / S ∧ ((sh : ℚ) * T - got * S) / S < 1 := by
  obtain ⟨b1, b2⟩ := RefreshArith.got_bounds P18_pos hS q1 q2 hr g1 g2
  have c1 : ((-(P18 * S) : Int) : ℚ) ≤ ((2 * ((sh * T - got * S) * (P18 * P18)) : Int) : ℚ) := by exact_mod_cast b1
  have c2 : ((2 * ((sh * T - got * S) * (P18 * P18)) : Int) : ℚ) < (((2 * (P18 * P18) - P18 + 2) * S : Int) : ℚ) := by
    exact_mod_cast b2
  have c3 : ((sh * T : Int) : ℚ) ≤ ((S * a : Int) : ℚ) := by exact_mod_cast f1
  have c4 : ((S * a : Int) : ℚ) < ((sh * T + T : Int) : ℚ) := by exact_mod_cast f2
  push_cast at c1 c2 c3 c4
  have hSq : (0 : ℚ) < (S : ℚ) := by exact_mod_cast hS
  have hP := P18Q_pos
  have hP2 : (2 : ℚ) ≤ (P18 : ℚ) := by exact_mod_cast (show (2 : Int) ≤ P18 by decide)
  unfold uQ
  generalize (P18 : ℚ) = P at *
  refine ⟨div_nonneg (by linarith) hSq.le, ?_, ?_, ?_⟩
  · exact div_lt_div_of_pos_right (by linarith) hSq
  · rw [le_div_iff₀ hSq]
    have e : -(1 / P / 2) * (S : ℚ) = -(P * S) / (2 * (P * P)) := by fsr
    rw [e, div_le_iff₀ (by positivity)]
    linarith
  · rw [div_lt_one hSq]
    have hPP : 0 < 2 * (P * P) := by positivity
    have : (2 * (P * P) - P + 2) * (S : ℚ) ≤ 2 * (P * P) * S := by nlinarith
    nlinarith

/-- **the burning account's own stake** moves down by the requested amount `a`, except that (1) the shares to remove are
floored — up to `T/S` more stays — and (2) the payout is truncated to whole tokens: up to one token stays with the
validator, of which the account keeps its remaining fraction `d'/S'`.  (3) `TokensFromShares` rounds at 18 decimals: the
payout can exceed the shares' worth by ½·10⁻¹⁸. -/
theorem burnS_stakeQ_own {s s' : SState} {a d : Int} {key : AccKey}
    (hT : 0 < (s.k.val key.2).tokens) (hS : 0 < (s.k.val key.2).shares) (hd : s.k.dsh key = some d)
    (_hd0 : 0 ≤ d) (hdS : d ≤ (s.k.val key.2).shares) (h : burnS s a key = .ok s') :
    stakeQ s.k key - a - uQ / 2 ≤ stakeQ s'.k key ∧
    stakeQ s'.k key < stakeQ s.k key - a + rateQ s.k key.2 + fracQ s'.k key ∧
    shOf s'.k key ≤ shOf s.k key ∧ 0 ≤ shOf s'.k key ∧ shOf s'.k key ≤ (s'.k.val key.2).shares ∧
    (shOf s'.k key = shOf s.k key → stakeQ s'.k key = stakeQ s.k key ∧ (a : ℚ) < rateQ s.k key.2) := by
  obtain ⟨sh, got, f1, f2, f3, f4, ha, hd', _, hcase⟩ := burnS_effect hT hS hd h
  have e0 : shOf s.k key = d := shOf_of_some hd
  have e1 : shOf s'.k key = d - sh := shOf_ite hd'
  have hSq : (0 : ℚ) < ((s.k.val key.2).shares : ℚ) := by exact_mod_cast hS
  have hTq : (0 : ℚ) < ((s.k.val key.2).tokens : ℚ) := by exact_mod_cast hT
  have hu := uQ_pos
  rcases hcase with ⟨r1, r2, r3⟩ | ⟨r1, r2, r3, r4, q, tfs, q1, q2, hr, g1, g2⟩
  · -- the validator's last shares: everything is paid out
    have hsh : sh = (s.k.val key.2).shares := by omega
    have hdd : d = (s.k.val key.2).shares := by omega
    have c3 : ((sh * (s.k.val key.2).tokens : Int) : ℚ) ≤ (((s.k.val key.2).shares * a : Int) : ℚ) := by exact_mod_cast f1
    have c4 : (((s.k.val key.2).shares * a : Int) : ℚ) < ((sh * (s.k.val key.2).tokens + (s.k.val key.2).tokens : Int) : ℚ) := by
      exact_mod_cast f2
    rw [hsh] at c3 c4
    push_cast at c3 c4
    refine ⟨?_, ?_, by omega, by omega, by rw [e1, r2]; show d - sh ≤ 0; omega, by intro hh; omega⟩
    · unfold stakeQ
      rw [e0, e1, r2, hdd, hsh]
      simp only [sub_self, Int.cast_zero, zero_mul, zero_div]
      generalize ((s.k.val key.2).shares : ℚ) = S at *
      generalize ((s.k.val key.2).tokens : ℚ) = T at *
      have : S * T / S = T := by field_simp
      rw [this]
      have : T ≤ (a : ℚ) := by
        by_contra hh
        have : (a : ℚ) < T := lt_of_not_ge hh
        nlinarith
      linarith
    · unfold stakeQ rateQ fracQ
      rw [e0, e1, r2, hdd, hsh]
      simp only [sub_self, Int.cast_zero, zero_mul, zero_div, add_zero]
      generalize ((s.k.val key.2).shares : ℚ) = S at *
      generalize ((s.k.val key.2).tokens : ℚ) = T at *
      have e : S * T / S - (a : ℚ) + T / S = (S * T + T - S * a) / S := by fsr
      rw [e]
      exact div_pos (by linarith) hSq
  · have hS' : 0 < (s.k.val key.2).shares - sh := by omega
    obtain ⟨t1, t2, t3, t4⟩ := burn_terms hS hT f1 f2 q1 q2 hr g1 g2
    have hS'q : (0 : ℚ) < ((s.k.val key.2).shares : ℚ) - sh := by exact_mod_cast hS'
    have hd'0 : (0 : ℚ) ≤ (d : ℚ) - sh := by exact_mod_cast (show 0 ≤ d - sh by omega)
    have hd'1 : (d : ℚ) - sh ≤ ((s.k.val key.2).shares : ℚ) - sh := by
      exact_mod_cast (show d - sh ≤ (s.k.val key.2).shares - sh by omega)
    refine ⟨?_, ?_, by omega, by omega, by rw [e1, r2]; show d - sh ≤ _ - sh; omega, ?_⟩
    rotate_left 2
    · -- no share removed (`S·a < T`): nothing is paid out, nothing changes
      intro hh
      have hsh0 : sh = 0 := by omega
      subst hsh0
      have hg0 : got = 0 := by
        have := RefreshArith.got_le (a := 0) P18_pos hS (by omega) q1 hr g1
        omega
      subst hg0
      constructor
      · unfold stakeQ
        rw [e0, e1, r2]
        simp
      · have c4 : (((s.k.val key.2).shares * a : Int) : ℚ) < (((s.k.val key.2).tokens : Int) : ℚ) := by
          exact_mod_cast (show (s.k.val key.2).shares * a < (s.k.val key.2).tokens by omega)
        push_cast at c4
        unfold rateQ
        rw [lt_div_iff₀ hSq]
        linarith
    · unfold stakeQ
      rw [e0, e1, r2]
      push_cast
      generalize ((s.k.val key.2).shares : ℚ) = S at *
      generalize ((s.k.val key.2).tokens : ℚ) = T at *
      have e : ((d : ℚ) - sh) * (T - got) / (S - sh) =
          d * T / S - a + (S * a - sh * T) / S + ((d : ℚ) - sh) / (S - sh) * ((sh * T - got * S) / S) := by
        have : S - (sh : ℚ) ≠ 0 := ne_of_gt hS'q
        fsr
      rw [e]
      have hf0 : 0 ≤ ((d : ℚ) - sh) / (S - sh) := div_nonneg hd'0 hS'q.le
      have hf1 : ((d : ℚ) - sh) / (S - sh) ≤ 1 := div_le_one_of_le₀ hd'1 hS'q.le
      have : -(uQ / 2) ≤ ((d : ℚ) - sh) / (S - sh) * ((sh * T - got * S) / S) := by nlinarith
      linarith
    · unfold stakeQ rateQ fracQ
      rw [e0, e1, r2]
      push_cast
      generalize ((s.k.val key.2).shares : ℚ) = S at *
      generalize ((s.k.val key.2).tokens : ℚ) = T at *
      have e : ((d : ℚ) - sh) * (T - got) / (S - sh) =
          d * T / S - a + (S * a - sh * T) / S + ((d : ℚ) - sh) / (S - sh) * ((sh * T - got * S) / S) := by
        have : S - (sh : ℚ) ≠ 0 := ne_of_gt hS'q
        fsr
      rw [e]
      have hf0 : 0 ≤ ((d : ℚ) - sh) / (S - sh) := div_nonneg hd'0 hS'q.le
      have : ((d : ℚ) - sh) / (S - sh) * ((sh * T - got * S) / S) ≤ ((d : ℚ) - sh) / (S - sh) := by nlinarith
      linarith

/-- **another account of the same validator** (`d_o` shares, unchanged; together with the burning account at most `S`):
its stake moves by its fraction of what the truncated payout leaves with the validator — between `−½·10⁻¹⁸` and its
fraction `d_o/S' ≤ 1` of one token. -/
theorem burnS_stakeQ_other {s s' : SState} {a d : Int} {key k' : AccKey} (hne : k' ≠ key) (hsame : k'.2 = key.2)
    (hT : 0 < (s.k.val key.2).tokens) (hS : 0 < (s.k.val key.2).shares) (hd : s.k.dsh key = some d)
    (hd0 : 0 ≤ shOf s.k k') (hsum : shOf s.k k' + d ≤ (s.k.val key.2).shares) (h : burnS s a key = .ok s') :
    stakeQ s.k k' - uQ / 2 ≤ stakeQ s'.k k' ∧ stakeQ s'.k k' ≤ stakeQ s.k k' + fracQ s'.k k' ∧
    fracQ s'.k k' ≤ 1 ∧ (shOf s'.k key = shOf s.k key → stakeQ s'.k k' = stakeQ s.k k') := by
  obtain ⟨sh, got, f1, f2, f3, f4, ha, hd', _, hcase⟩ := burnS_effect hT hS hd h
  obtain ⟨fr, _⟩ := burnS_frame h
  have esh : shOf s'.k k' = shOf s.k k' := by unfold shOf; rw [fr k' hne]
  have hu := uQ_pos
  have e0 : shOf s.k key = d := shOf_of_some hd
  have e1 : shOf s'.k key = d - sh := shOf_ite hd'
  rcases hcase with ⟨r1, r2, r3⟩ | ⟨r1, r2, r3, r4, q, tfs, q1, q2, hr, g1, g2⟩
  · have hz : shOf s.k k' = 0 := by omega
    unfold stakeQ fracQ
    rw [esh, hz]
    simp only [Int.cast_zero, zero_mul, zero_div, add_zero]
    refine ⟨by linarith, by linarith, by norm_num, fun _ => trivial⟩
  · have hS' : 0 < (s.k.val key.2).shares - sh := by omega
    obtain ⟨t1, t2, t3, t4⟩ := burn_terms hS hT f1 f2 q1 q2 hr g1 g2
    have hSq : (0 : ℚ) < ((s.k.val key.2).shares : ℚ) := by exact_mod_cast hS
    have hS'q : (0 : ℚ) < ((s.k.val key.2).shares : ℚ) - sh := by exact_mod_cast hS'
    have hd'0 : (0 : ℚ) ≤ (shOf s.k k' : ℚ) := by exact_mod_cast hd0
    have hd'1 : (shOf s.k k' : ℚ) ≤ ((s.k.val key.2).shares : ℚ) - sh := by
      exact_mod_cast (show shOf s.k k' ≤ (s.k.val key.2).shares - sh by omega)
    unfold stakeQ fracQ
    rw [esh, hsame, r2]
    push_cast
    generalize ((s.k.val key.2).shares : ℚ) = S at *
    generalize ((s.k.val key.2).tokens : ℚ) = T at *
    generalize (shOf s.k k' : ℚ) = D at *
    have e : D * (T - got) / (S - sh) = D * T / S + D / (S - sh) * ((sh * T - got * S) / S) := by
      have : S - (sh : ℚ) ≠ 0 := ne_of_gt hS'q
      fsr
    rw [e]
    have hf0 : 0 ≤ D / (S - sh) := div_nonneg hd'0 hS'q.le
    have hf1 : D / (S - sh) ≤ 1 := div_le_one_of_le₀ hd'1 hS'q.le
    refine ⟨by nlinarith, by nlinarith, hf1, ?_⟩
    intro hh
    have hsh0 : sh = 0 := by omega
    have hg0 : got = 0 := by
      subst hsh0
      have := RefreshArith.got_le (a := 0) P18_pos hS (by omega) q1 hr g1
      omega
    rw [hsh0, hg0]
    simp

end OsmoVerif.Superfluid
