/-
C08 (incentives, histories) helpers, part 15: the SUM invariant `SumI` under the steps that do not touch any record:
bringing the accumulators to now (emission: Σ entitlements grow by growth × active liquidity ≤ record decrease × factor),
tracker flips of a swap, transfer, spread-reward collect, incentive record creation, time.  Core only.
-/
import OsmoVerif.Proofs.CLIncHist14

namespace OsmoVerif.CLIncP
open OsmoVerif.Num OsmoVerif.CL OsmoVerif.CLPool OsmoVerif.CLFees OsmoVerif.CLInc OsmoVerif.CLFeesP OsmoVerif.CLBook
open OsmoVerif.Accum (amt sorted hev)
open OsmoVerif.Gen

def inR (q : Position) (c : Int) : Prop := q.lower ≤ c ∧ c < q.upper
instance (q : Position) (c : Int) : Decidable (inR q c) := by unfold inR; infer_instance

/-- entitlement of a position whose record is untouched, when growth inside moves by `δ` if in range. -/
theorem ent_step {s s' : Full} {q q' : Position} {k : Nat} {d : String} {δ : Int}
    (hid : q'.id = q.id) (hl : q'.lower = q.lower) (hu : q'.upper = q.upper)
    (hrec : getURec (accAt s'.inc k).recs q.id = getURec (accAt s.inc k).recs q.id)
    (hins : insU s'.inc s'.fees.pool.tick k d q.lower q.upper = insU s.inc s.fees.pool.tick k d q.lower q.upper + δ)
    {r : URec} (hr : getURec (accAt s.inc k).recs q.id = some r) :
    ent s' d k q' = ent s d k q + δ * r.shares := by
  unfold ent
  rw [hid, hl, hu, hrec, hr, hins]
  simp only
  have : (insU s.inc s.fees.pool.tick k d q.lower q.upper + δ - amt r.snap d) =
      (insU s.inc s.fees.pool.tick k d q.lower q.upper - amt r.snap d) + δ := by omega
  rw [this, Int.add_mul]; omega

/-- a step with the same positions that touches no record: Σ entitlements grow by Σ_k growth_k × active liquidity. -/
theorem Etot_same {s s' : Full} (hi : IncInv s) (hpos : s'.fees.pool.positions = s.fees.pool.positions)
    (hrec : ∀ q ∈ s.fees.pool.positions, ∀ k, getURec (accAt s'.inc k).recs q.id = getURec (accAt s.inc k).recs q.id)
    (hins : ∀ q ∈ s.fees.pool.positions, ∀ k d,
      insU s'.inc s'.fees.pool.tick k d q.lower q.upper = insU s.inc s.fees.pool.tick k d q.lower q.upper +
        (if q.lower ≤ s.fees.pool.tick ∧ s.fees.pool.tick < q.upper then dVal s.inc s'.inc k d else 0))
    (d : String) :
    Etot s' d = Etot s d + sumN six (dVal s.inc s'.inc · d) * s.fees.pool.liquidity := by
  unfold Etot
  rw [hpos]
  have hq : ∀ q ∈ s.fees.pool.positions, entQ s' d q = entQ s d q +
      sumN six (fun k => (if q.lower ≤ s.fees.pool.tick ∧ s.fees.pool.tick < q.upper then dVal s.inc s'.inc k d else 0) * q.liq) := by
    intro q hq
    unfold entQ
    rw [← sumN_add]
    apply sumN_congr
    intro k hk
    have hk6 := mem_six.mp hk
    obtain ⟨a, ha, hm⟩ := hi.inc.get hk6
    obtain ⟨r, hr, hsh⟩ := (hi.inc.accs a hm).recs q hq
    have hr' : getURec (accAt s.inc k).recs q.id = some r := by rw [accAt_of ha]; exact hr
    rw [ent_step rfl rfl rfl (hrec q hq k) (hins q hq k d) hr', hsh]
  rw [sumBy_congr hq, sumBy_add, sumBy_sumN]
  congr 1
  rw [← sumN_mul]
  apply sumN_congr
  intro k _
  rw [sumBy_credit, hi.fees.pool.active]

/-- entitlements depend on a position only through its id and range. -/
theorem entQ_congr_pos (s : Full) (d : String) {q q' : Position} (h0 : q'.id = q.id) (h1 : q'.lower = q.lower) (h2 : q'.upper = q.upper) :
    entQ s d q' = entQ s d q := by
  unfold entQ ent; rw [h0, h1, h2]

/-! ## bringing the accumulators to now -/

theorem sync_sum {s : Full} {i1 : Inc} {n : Int} (hi : IncInv s) (hs : SumI s n)
    (hsync : sync s.inc s.fees.pool.liquidity = some i1) : SumI { s with inc := i1 } n := by
  obtain ⟨hp1, t1, _, fa1, _, b1, _, g1, hg, hsum, _⟩ := sync_part hi.inc hsync
  have sf := incOnly_facts hi hp1 t1 hg
  refine ⟨by show sorted i1.bal = true; rw [b1]; exact hs.balSorted, fun d => ?_⟩
  have hE := Etot_same (s' := { s with inc := i1 }) hi rfl
    (fun q hq k => by show getURec (accAt i1 k).recs q.id = _; rw [recs_of_grew (by rw [hp1.len, hi.inc.len]) g1 k])
    (fun q hq k d => sf.inside q hq q hq rfl k d) d
  have hb := hs.bound d
  have hsd := hsum d
  show 2 * Etot { s with inc := i1 } d + 2 * (sumRem d i1.records * i1.factor) ≤ 2 * (amt i1.bal d * P18 * i1.factor) + n * P18
  rw [hE, b1, fa1]
  have : (sumRem d s.inc.records - sumRem d i1.records) * s.inc.factor =
      sumRem d s.inc.records * s.inc.factor - sumRem d i1.records * s.inc.factor := Int.sub_mul _ _ _
  have hd : sumN six (dVal s.inc ({ s with inc := i1 } : Full).inc · d) = sumN six (dVal s.inc i1 · d) := rfl
  rw [hd]
  omega

/-- growth inside relative to the synced state. -/
theorem inside_from_synced {s s' : Full} {i1 : Inc} (hi : IncInv s) (sf : IStepFacts s s')
    (t1 : i1.trackers = s.inc.trackers) {q q' : Position} (hq : q ∈ s.fees.pool.positions) (hq' : q' ∈ s'.fees.pool.positions)
    (hid : q'.id = q.id) (k : Nat) (d : String) :
    insU s'.inc s'.fees.pool.tick k d q.lower q.upper = insU i1 s.fees.pool.tick k d q.lower q.upper +
      (if q.lower ≤ s.fees.pool.tick ∧ s.fees.pool.tick < q.upper then dVal i1 s'.inc k d else 0) := by
  have h1 := sf.inside q hq q' hq' hid k d
  have h2 := insU_step (i := s.inc) (i' := i1) (cur := s.fees.pool.tick) (hi.fees.pool.core.pos.range q hq) k d (by rw [t1]) (by rw [t1])
  rw [h1, h2, dVal_trans s.inc i1 s'.inc k d]
  split <;> omega

/-- a step after sync that changes neither positions, records, accumulator values, balance nor incentive records. -/
theorem sum_of_same {s s' : Full} {i1 : Inc} {n : Int} (hi : IncInv s) (hs1 : SumI { s with inc := i1 } n)
    (hp1 : IncPart s.fees i1) (t1 : i1.trackers = s.inc.trackers) (sf : IStepFacts s s')
    (hpos : ∀ q' ∈ s'.fees.pool.positions, ∃ q ∈ s.fees.pool.positions, q'.id = q.id ∧ q'.lower = q.lower ∧ q'.upper = q.upper)
    (hmap : sumBy (entQ { s with inc := i1 } d) s'.fees.pool.positions = sumBy (entQ { s with inc := i1 } d) s.fees.pool.positions)
    (hrec : ∀ x k, getURec (accAt s'.inc k).recs x = getURec (accAt i1 k).recs x)
    (hval : ∀ k d, dVal i1 s'.inc k d = 0) :
    Etot s' d = Etot { s with inc := i1 } d := by
  unfold Etot
  show sumBy (entQ s' d) s'.fees.pool.positions = sumBy (entQ { s with inc := i1 } d) s.fees.pool.positions
  rw [← hmap]
  apply sumBy_congr
  intro q' hq'
  obtain ⟨q, hq, e0, e1, e2⟩ := hpos q' hq'
  unfold entQ
  apply sumN_congr
  intro k _
  unfold ent
  rw [hrec q'.id k]
  cases hr : getURec (accAt ({ s with inc := i1 } : Full).inc k).recs q'.id with
  | none => rfl
  | some r =>
    simp only
    have := inside_from_synced hi sf t1 hq hq' e0 k d
    rw [hval, ← e1, ← e2] at this
    rw [this]
    have hz : (if q'.lower ≤ s.fees.pool.tick ∧ s.fees.pool.tick < q'.upper then (0 : Int) else 0) = 0 := by split <;> rfl
    rw [hz, Int.add_zero]

end OsmoVerif.CLIncP
