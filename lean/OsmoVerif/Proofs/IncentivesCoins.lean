/- sdk.Coins lemmas for Model/Incentives: per-denom amounts of addCoin/addCoins/subCoins and preservation of
the normal form `validCoins`.  Core only. -/
import OsmoVerif.Model.Incentives

namespace OsmoVerif.Incentives

theorem str_lt_of_not' {a b : String} (h1 : ¬ a < b) (h2 : ¬ a = b) : b < a := by
  rcases Decidable.em (b < a) with h | h
  · exact h
  · exact absurd (String.le_antisymm (String.not_lt.mp h) (String.not_lt.mp h1)) h2

/-! ### amountOf -/

theorem amountOf_addCoin (c : Coins) (d : Denom) (a : Int) (x : Denom) :
    amountOf (addCoin c d a) x = amountOf c x + (if d = x then a else 0) := by
  induction c with
  | nil => simp [addCoin, amountOf]
  | cons h t ih =>
    obtain ⟨e, v⟩ := h
    unfold addCoin
    by_cases h1 : d < e
    · rw [if_pos h1]; simp only [amountOf]; omega
    · rw [if_neg h1]
      by_cases h2 : d = e
      · rw [if_pos h2]; subst h2; simp only [amountOf]; split <;> omega
      · rw [if_neg h2]; simp only [amountOf, ih]; omega

theorem amountOf_addCoins (a b : Coins) (x : Denom) :
    amountOf (addCoins a b) x = amountOf a x + amountOf b x := by
  unfold addCoins
  induction b generalizing a with
  | nil => simp [amountOf]
  | cons h t ih =>
    obtain ⟨e, v⟩ := h
    simp only [List.foldl_cons, ih, amountOf_addCoin, amountOf]
    omega

/-- lower bound: every denom of `c` is strictly above `d`. -/
def lb (d : Denom) (c : Coins) : Bool := c.all (fun e => decide (d < e.1))

theorem validCoins_cons {d : Denom} {a : Int} {t : Coins} :
    validCoins ((d, a) :: t) = true ↔ 0 < a ∧ lb d t = true ∧ validCoins t = true := by
  simp only [validCoins, lb, Bool.and_eq_true, decide_eq_true_eq, and_assoc]

theorem lb_trans {d e : Denom} {c : Coins} (h : d < e) (hc : lb e c = true) : lb d c = true := by
  unfold lb at *
  simp only [List.all_eq_true, decide_eq_true_eq] at *
  intro x hx
  exact String.lt_trans h (hc x hx)

theorem amountOf_of_lb {d : Denom} {c : Coins} (h : lb d c = true) : amountOf c d = 0 := by
  induction c with
  | nil => rfl
  | cons hd t ih =>
    obtain ⟨e, v⟩ := hd
    unfold lb at h ih
    simp only [List.all_cons, Bool.and_eq_true, decide_eq_true_eq] at h
    have hne : ¬ e = d := fun hh => String.lt_irrefl d (hh ▸ h.1)
    simp only [amountOf, if_neg hne, ih h.2, Int.zero_add]

theorem lb_addCoin {d0 d : Denom} {a : Int} {c : Coins} (hc : lb d0 c = true) (hd : d0 < d) :
    lb d0 (addCoin c d a) = true := by
  induction c with
  | nil => simp [addCoin, lb, hd]
  | cons h t ih =>
    obtain ⟨e, v⟩ := h
    unfold lb at hc ih
    simp only [List.all_cons, Bool.and_eq_true, decide_eq_true_eq] at hc
    unfold addCoin
    by_cases h1 : d < e
    · rw [if_pos h1]; unfold lb
      simp only [List.all_cons, Bool.and_eq_true, decide_eq_true_eq]
      exact ⟨hd, hc.1, hc.2⟩
    · rw [if_neg h1]
      by_cases h2 : d = e
      · rw [if_pos h2]; unfold lb
        simp only [List.all_cons, Bool.and_eq_true, decide_eq_true_eq]
        exact ⟨hc.1, hc.2⟩
      · rw [if_neg h2]
        have := ih hc.2
        unfold lb at this ⊢
        simp only [List.all_cons, Bool.and_eq_true, decide_eq_true_eq]
        exact ⟨hc.1, this⟩

theorem valid_addCoin {c : Coins} {d : Denom} {a : Int} (hc : validCoins c = true) (ha : 0 < a) :
    validCoins (addCoin c d a) = true := by
  induction c with
  | nil => simp [addCoin, validCoins, ha]
  | cons h t ih =>
    obtain ⟨e, v⟩ := h
    obtain ⟨hv, hl, ht⟩ := validCoins_cons.mp hc
    unfold addCoin
    by_cases h1 : d < e
    · rw [if_pos h1]
      refine validCoins_cons.mpr ⟨ha, ?_, hc⟩
      unfold lb
      simp only [List.all_cons, Bool.and_eq_true, decide_eq_true_eq]
      exact ⟨h1, lb_trans h1 hl⟩
    · rw [if_neg h1]
      by_cases h2 : d = e
      · rw [if_pos h2]
        exact validCoins_cons.mpr ⟨by omega, hl, ht⟩
      · rw [if_neg h2]
        exact validCoins_cons.mpr ⟨hv, lb_addCoin hl (str_lt_of_not' h1 h2), ih ht⟩

theorem valid_pos_of_mem {c : Coins} (hc : validCoins c = true) {e : Denom × Int} (he : e ∈ c) : 0 < e.2 := by
  induction c with
  | nil => cases he
  | cons h t ih =>
    obtain ⟨d, v⟩ := h
    obtain ⟨hv, _, ht⟩ := validCoins_cons.mp hc
    rcases List.mem_cons.mp he with rfl | h'
    · exact hv
    · exact ih ht h'

theorem valid_addCoins {a b : Coins} (ha : validCoins a = true) (hb : validCoins b = true) :
    validCoins (addCoins a b) = true := by
  unfold addCoins
  induction b generalizing a with
  | nil => simpa using ha
  | cons h t ih =>
    obtain ⟨d, v⟩ := h
    obtain ⟨hv, _, ht⟩ := validCoins_cons.mp hb
    simp only [List.foldl_cons]
    exact ih (valid_addCoin ha hv) ht

theorem amountOf_nonneg {c : Coins} (hc : validCoins c = true) (d : Denom) : 0 ≤ amountOf c d := by
  induction c with
  | nil => simp [amountOf]
  | cons h t ih =>
    obtain ⟨e, v⟩ := h
    obtain ⟨hv, _, ht⟩ := validCoins_cons.mp hc
    have := ih ht
    simp only [amountOf]; split <;> omega

theorem amountOf_of_mem {c : Coins} (hc : validCoins c = true) {d : Denom} {a : Int} (h : (d, a) ∈ c) :
    amountOf c d = a := by
  induction c with
  | nil => cases h
  | cons hd t ih =>
    obtain ⟨e, v⟩ := hd
    obtain ⟨hv, hl, ht⟩ := validCoins_cons.mp hc
    rcases List.mem_cons.mp h with h' | h'
    · cases h'
      simp only [amountOf, ↓reduceIte, amountOf_of_lb hl, Int.add_zero]
    · have hlt : e < d := by
        unfold lb at hl
        simp only [List.all_eq_true, decide_eq_true_eq] at hl
        exact hl _ h'
      have hne : ¬ e = d := fun hh => String.lt_irrefl d (hh ▸ hlt)
      simp only [amountOf, if_neg hne, Int.zero_add, ih ht h']

/-- a denom without an entry has amount 0. -/
theorem amountOf_of_not_mem {c : Coins} {d : Denom} (h : ∀ e ∈ c, e.1 ≠ d) : amountOf c d = 0 := by
  induction c with
  | nil => rfl
  | cons hd t ih =>
    obtain ⟨e, v⟩ := hd
    have hne : ¬ e = d := h (e, v) (List.mem_cons_self ..)
    simp only [amountOf, if_neg hne, Int.zero_add]
    exact ih (fun x hx => h x (List.mem_cons_of_mem _ hx))

theorem amountOf_pos_iff_mem {c : Coins} (hc : validCoins c = true) {d : Denom} :
    0 < amountOf c d ↔ ∃ a, (d, a) ∈ c := by
  constructor
  · intro h
    by_cases hex : ∃ a, (d, a) ∈ c
    · exact hex
    · exfalso
      have : amountOf c d = 0 := amountOf_of_not_mem (fun e he hh => hex ⟨e.2, by rw [← hh]; exact he⟩)
      omega
  · rintro ⟨a, ha⟩
    rw [amountOf_of_mem hc ha]
    exact valid_pos_of_mem hc ha

/-! ### subCoins -/

theorem lb_filterMap {d : Denom} {c : Coins} (f : Denom × Int → Option (Denom × Int))
    (hf : ∀ e r, f e = some r → r.1 = e.1) (h : lb d c = true) : lb d (c.filterMap f) = true := by
  unfold lb at *
  simp only [List.all_eq_true, decide_eq_true_eq] at *
  intro x hx
  obtain ⟨e, he, hfe⟩ := List.mem_filterMap.mp hx
  rw [hf e x hfe]
  exact h e he

/-- the per-entry map of `subCoins`. -/
def subEntry (B : Denom → Int) (c : Denom × Int) : Option (Denom × Int) :=
  if c.2 - B c.1 = 0 then none else some (c.1, c.2 - B c.1)

theorem subEntry_fst {B : Denom → Int} (e r : Denom × Int) (h : subEntry B e = some r) : r.1 = e.1 := by
  unfold subEntry at h
  split at h
  · cases h
  · cases h; rfl

def hasDenom (t : Coins) (x : Denom) : Bool := t.any (fun e => decide (e.1 = x))

theorem hasDenom_iff {t : Coins} {x : Denom} : hasDenom t x = true ↔ ∃ v, (x, v) ∈ t := by
  unfold hasDenom
  simp only [List.any_eq_true, decide_eq_true_eq]
  constructor
  · rintro ⟨e, he, rfl⟩; exact ⟨e.2, he⟩
  · rintro ⟨v, hv⟩; exact ⟨(x, v), hv, rfl⟩

theorem hasDenom_cons (e : Denom) (v : Int) (t : Coins) (x : Denom) :
    hasDenom ((e, v) :: t) x = (decide (e = x) || hasDenom t x) := by
  simp [hasDenom]

theorem filterMap_sub_amount' (B : Denom → Int) {t : Coins} (ht : validCoins t = true) (x : Denom) :
    amountOf (t.filterMap (subEntry B)) x = if hasDenom t x = true then amountOf t x - B x else 0 := by
  induction t with
  | nil => simp [amountOf, hasDenom]
  | cons hd t ih =>
    obtain ⟨e, v⟩ := hd
    obtain ⟨hv, hl, ht'⟩ := validCoins_cons.mp ht
    have hlf : lb e (t.filterMap (subEntry B)) = true := lb_filterMap _ subEntry_fst hl
    rw [hasDenom_cons]
    by_cases hx : e = x
    · subst hx
      simp only [decide_true, Bool.true_or, ↓reduceIte]
      simp only [List.filterMap_cons, amountOf, ↓reduceIte, amountOf_of_lb hl, Int.add_zero]
      have hse : subEntry B (e, v) = if v - B e = 0 then none else some (e, v - B e) := rfl
      rw [hse]
      by_cases hz : v - B e = 0
      · simp only [hz, ↓reduceIte, amountOf_of_lb hlf]
      · simp only [hz, ↓reduceIte, amountOf, amountOf_of_lb hlf, Int.add_zero]
    · have hd : decide (e = x) = false := by simpa using hx
      rw [hd, Bool.false_or]
      have hhead : amountOf ((e, v) :: t) x = amountOf t x := by simp only [amountOf, if_neg hx, Int.zero_add]
      rw [hhead]
      simp only [List.filterMap_cons]
      cases hs : subEntry B (e, v) with
      | none => simp only [ih ht']
      | some r =>
        have : r.1 = e := subEntry_fst _ _ hs
        obtain ⟨r1, r2⟩ := r
        simp only at this; subst this
        simp only [amountOf, if_neg hx, Int.zero_add, ih ht']

theorem filterMap_sub_valid (B : Denom → Int) {t : Coins} (ht : validCoins t = true)
    (hB : ∀ e ∈ t, B e.1 ≤ e.2) : validCoins (t.filterMap (subEntry B)) = true := by
  induction t with
  | nil => rfl
  | cons hd t ih =>
    obtain ⟨e, v⟩ := hd
    obtain ⟨hv, hl, ht'⟩ := validCoins_cons.mp ht
    have hlf : lb e (t.filterMap (subEntry B)) = true := lb_filterMap _ subEntry_fst hl
    have iht := ih ht' (fun x hx => hB x (List.mem_cons_of_mem _ hx))
    have hBe : B e ≤ v := hB (e, v) (List.mem_cons_self ..)
    simp only [List.filterMap_cons]
    have hse : subEntry B (e, v) = if v - B e = 0 then none else some (e, v - B e) := rfl
    rw [hse]
    by_cases hz : v - B e = 0
    · simp only [hz, ↓reduceIte]; exact iht
    · simp only [hz, ↓reduceIte]
      exact validCoins_cons.mpr ⟨by omega, hlf, iht⟩

theorem subCoins_eq (a b : Coins) : subCoins a b =
    if b.all (fun c => decide (c.2 ≤ amountOf a c.1)) then some (a.filterMap (subEntry (amountOf b))) else none := rfl

theorem subCoins_spec {a b r : Coins} (ha : validCoins a = true) (hb : validCoins b = true)
    (h : subCoins a b = some r) :
    validCoins r = true ∧ ∀ x, amountOf r x = amountOf a x - amountOf b x := by
  rw [subCoins_eq] at h
  split at h
  · rename_i hall
    injection h with h
    subst h
    simp only [List.all_eq_true, decide_eq_true_eq] at hall
    have hle : ∀ x, amountOf b x ≤ amountOf a x := by
      intro x
      by_cases hex : ∃ v, (x, v) ∈ b
      · obtain ⟨v, hv⟩ := hex
        rw [amountOf_of_mem hb hv]
        exact hall (x, v) hv
      · rw [amountOf_of_not_mem (fun e he hh => hex ⟨e.2, by rw [← hh]; exact he⟩)]
        exact amountOf_nonneg ha x
    refine ⟨filterMap_sub_valid _ ha (fun e he => ?_), fun x => ?_⟩
    · have := hle e.1
      rwa [amountOf_of_mem ha (show (e.1, e.2) ∈ a from he)] at this
    · rw [filterMap_sub_amount' _ ha]
      split
      · rfl
      · rename_i hno
        rw [hasDenom_iff] at hno
        have h0 : amountOf a x = 0 := amountOf_of_not_mem (fun e he hh => hno ⟨e.2, by rw [← hh]; exact he⟩)
        have := hle x
        have := amountOf_nonneg hb x
        omega
  · cases h

/-- `Sub` succeeds whenever every component is covered. -/
theorem subCoins_some {a b : Coins} (hb : validCoins b = true) (hle : ∀ x, amountOf b x ≤ amountOf a x) :
    ∃ r, subCoins a b = some r := by
  rw [subCoins_eq]
  have : b.all (fun c => decide (c.2 ≤ amountOf a c.1)) = true := by
    simp only [List.all_eq_true, decide_eq_true_eq]
    intro e he
    have := hle e.1
    rwa [amountOf_of_mem hb (show (e.1, e.2) ∈ b from he)] at this
  rw [if_pos this]
  exact ⟨_, rfl⟩

end OsmoVerif.Incentives
