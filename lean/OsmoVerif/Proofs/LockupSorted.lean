/- Query results are ascending and free of duplicates. -/
import OsmoVerif.Proofs.LockupQueries
namespace OsmoVerif.Lockup

theorem sorted_insertBy (a : Nat) (l : List Nat) (h : l.Pairwise (· ≤ ·)) :
    (insertBy (fun a b => decide (a ≤ b)) a l).Pairwise (· ≤ ·) := by
  induction l with
  | nil => simp [insertBy]
  | cons b bs ih =>
    simp only [insertBy]
    have hb := List.pairwise_cons.mp h
    split
    · rename_i hab
      have hab : a ≤ b := by simpa using hab
      refine List.pairwise_cons.mpr ⟨?_, h⟩
      intro x hx
      rcases List.mem_cons.mp hx with e | e
      · omega
      · have := hb.1 x e; omega
    · rename_i hab
      have hab : ¬ a ≤ b := by simpa using hab
      refine List.pairwise_cons.mpr ⟨?_, ih hb.2⟩
      intro x hx
      rcases (mem_insertBy _ a x bs).mp hx with e | e
      · omega
      · exact hb.1 x e

theorem sorted_sortNat (l : List Nat) : (sortNat l).Pairwise (· ≤ ·) := by
  unfold sortNat
  induction l with
  | nil => simp [isortBy]
  | cons a as ih => exact sorted_insertBy a _ ih

theorem nodup_insertBy {α : Type} (le : α → α → Bool) (a : α) (l : List α) (ha : a ∉ l) (h : l.Nodup) :
    (insertBy le a l).Nodup := by
  induction l with
  | nil => simp [insertBy]
  | cons b bs ih =>
    simp only [insertBy]
    split
    · exact List.nodup_cons.mpr ⟨ha, h⟩
    · have hb := List.nodup_cons.mp h
      refine List.nodup_cons.mpr ⟨?_, ih (fun e => ha (List.mem_cons_of_mem _ e)) hb.2⟩
      intro hm
      rcases (mem_insertBy le a b bs).mp hm with e | e
      · exact ha (by rw [e]; exact List.mem_cons_self)
      · exact hb.1 e

theorem nodup_isortBy {α : Type} (le : α → α → Bool) (l : List α) (h : l.Nodup) : (isortBy le l).Nodup := by
  induction l with
  | nil => simp [isortBy]
  | cons a as ih =>
    have ha := List.nodup_cons.mp h
    exact nodup_insertBy le a _ (fun e => ha.1 ((mem_isortBy le a as).mp e)) (ih ha.2)

theorem nodup_map_of_inj_on {α β : Type} (f : α → β) : ∀ l : List α, l.Nodup →
    (∀ a ∈ l, ∀ b ∈ l, f a = f b → a = b) → (l.map f).Nodup := by
  intro l
  induction l with
  | nil => intro _ _; simp
  | cons x xs ih =>
    intro hn hinj
    have hx := List.nodup_cons.mp hn
    simp only [List.map_cons]
    refine List.nodup_cons.mpr ⟨?_, ih hx.2 (fun a ha b hb => hinj a (List.mem_cons_of_mem _ ha) b (List.mem_cons_of_mem _ hb))⟩
    intro hm
    obtain ⟨y, hy, hyx⟩ := List.mem_map.mp hm
    have := hinj y (List.mem_cons_of_mem _ hy) x List.mem_cons_self hyx
    subst this
    exact hx.1 hy

/-- key family (which of the eight prefixes). -/
def fam : IdxKey → Nat
  | .dur _ => 0 | .ownerDur .. => 1 | .denomDur .. => 2 | .ownerDenomDur .. => 3
  | .time _ => 4 | .ownerTime .. => 5 | .denomTime .. => 6 | .ownerDenomTime .. => 7

/-- a (single-coin) lock has at most one index key per family. -/
theorem indexKeys_fam_inj {l : Lock} {dn : Denom} {a : Int} (hc : l.coins = [(dn, a)]) {k1 k2 : RefKey}
    (h1 : k1 ∈ indexKeys l) (h2 : k2 ∈ indexKeys l) (hf : fam k1.key = fam k2.key) : k1 = k2 := by
  rw [indexKeys_single hc] at h1 h2
  cases hu : l.isUnlocking
  · simp only [hu, Bool.false_eq_true, if_false, List.map_cons, List.map_nil, List.mem_cons, List.not_mem_nil, or_false] at h1 h2
    rcases h1 with rfl | rfl | rfl | rfl <;> rcases h2 with rfl | rfl | rfl | rfl <;> first | rfl | (simp [fam] at hf)
  · simp only [hu, if_true, List.map_cons, List.map_nil, List.mem_cons, List.not_mem_nil, or_false] at h1 h2
    rcases h1 with rfl | rfl | rfl | rfl | rfl | rfl | rfl | rfl <;>
      rcases h2 with rfl | rfl | rfl | rfl | rfl | rfl | rfl | rfl <;> first | rfl | (simp [fam] at hf)

theorem indexKeys_flag {l : Lock} {k : RefKey} (h : k ∈ indexKeys l) : k.unlocking = l.isUnlocking := by
  unfold indexKeys at h
  obtain ⟨x, _, rfl⟩ := List.mem_map.mp h
  rfl

/-- an index walk confined to one key family lists no lock twice. -/
theorem idsWhere_nodup {s : State} (h : Inv s) {p : RefKey → Bool} {n : Nat} (hp : ∀ k, p k = true → fam k.key = n) :
    (idsWhere s p).Nodup := by
  unfold idsWhere sortNat
  apply nodup_isortBy
  apply nodup_map_of_inj_on
  · exact List.Pairwise.filter _ h.refsNodup
  · rintro ⟨k1, i1⟩ h1 ⟨k2, i2⟩ h2 hi
    simp only at hi
    subst hi
    obtain ⟨m1, p1⟩ := List.mem_filter.mp h1
    obtain ⟨m2, p2⟩ := List.mem_filter.mp h2
    obtain ⟨_, l1, hl1, hid1, hk1⟩ := (h.refsOK _ _).mp m1
    obtain ⟨_, l2, hl2, hid2, hk2⟩ := (h.refsOK _ _).mp m2
    have := mem_unique h.nodup hl1 hl2 (by rw [hid1, hid2])
    subst this
    obtain ⟨dn, a, hc, _, _⟩ := h.single l1 hl1
    have := indexKeys_fam_inj hc hk1 hk2 (by rw [hp k1 p1, hp k2 p2])
    rw [this]

theorem flag_disjoint {s : State} (h : Inv s) {p q : IdxKey → Bool} {x : Nat}
    (h1 : x ∈ flagOnly s true p) (h2 : x ∈ flagOnly s false q) : False := by
  rw [flagOnly_eq, mem_idsWhere_inv h] at h1 h2
  obtain ⟨l1, hl1, hid1, k1, hk1, hp1⟩ := h1
  obtain ⟨l2, hl2, hid2, k2, hk2, hp2⟩ := h2
  have := mem_unique h.nodup hl1 hl2 (by rw [hid1, hid2])
  subst this
  have f1 := indexKeys_flag hk1
  have f2 := indexKeys_flag hk2
  simp only [Bool.and_eq_true, beq_iff_eq] at hp1 hp2
  rw [hp1.1] at f1; rw [hp2.1] at f2
  rw [← f1] at f2; cases f2

theorem nodup_sortNat_append {a b : List Nat} (ha : a.Nodup) (hb : b.Nodup) (hd : ∀ x, x ∈ a → x ∈ b → False) :
    (sortNat (a ++ b)).Nodup := by
  unfold sortNat
  apply nodup_isortBy
  exact List.nodup_append.mpr ⟨ha, hb, fun x hx y hy e => hd x hx (by rw [e]; exact hy)⟩


/-- discharge "the predicate selects one key family". -/
macro "fam_tac" : tactic => `(tactic|
  (intro k hk; cases hkk : k.key <;> simp [hkk] at hk <;> simp [fam]))

theorem both_nodup {s : State} (h : Inv s) (p : IdxKey → Bool) (n : Nat) (hp : ∀ k : RefKey, p k.key = true → fam k.key = n) :
    (bothFlags s p).Nodup := idsWhere_nodup h hp

theorem flag_nodup {s : State} (h : Inv s) (u : Bool) (p : IdxKey → Bool) (n : Nat)
    (hp : ∀ k : RefKey, p k.key = true → fam k.key = n) : (flagOnly s u p).Nodup := by
  rw [flagOnly_eq]
  exact idsWhere_nodup (n := n) h (fun k hk => hp k (by simp only [Bool.and_eq_true] at hk; exact hk.2))

theorem queries_nodup {s : State} (h : Inv s) :
    (qAll s).Nodup ∧ (∀ o, (qOwner s o).Nodup) ∧ (∀ o d nu, (qOwnerLonger s o d nu).Nodup) ∧
    (∀ o d, (qOwnerDuration s o d).Nodup) ∧ (∀ o dn d nu, (qOwnerDenomLonger s o dn d nu).Nodup) ∧
    (∀ o dn d, (qOwnerDenomDurationNotUnlocking s o dn d).Nodup) ∧ (∀ dn d, (qDenomLonger s dn d).Nodup) ∧
    (∀ t, (qUnlockingBefore s t).Nodup) ∧ (∀ t, (qUnlockingAfter s t).Nodup) ∧
    (∀ now o ts, (qOwnerPastTime s now o ts).Nodup) ∧ (∀ now o ts, (qOwnerUnlockedBefore s now o ts).Nodup) ∧
    (∀ now o dn ts, (qOwnerDenomPastTime s now o dn ts).Nodup) ∧ (∀ now dn ts, (qDenomPastTime s now dn ts).Nodup) := by
  have hOL : ∀ o d nu, (qOwnerLonger s o d nu).Nodup := by
    intro o d nu
    unfold qOwnerLonger
    simp only
    split
    · exact flag_nodup h _ _ 1 (by fam_tac)
    · exact both_nodup h _ 1 (by fam_tac)
  have hODL : ∀ o dn d nu, (qOwnerDenomLonger s o dn d nu).Nodup := by
    intro o dn d nu
    unfold qOwnerDenomLonger
    simp only
    split
    · exact flag_nodup h _ _ 3 (by fam_tac)
    · exact both_nodup h _ 3 (by fam_tac)
  refine ⟨?_, ?_, hOL, ?_, hODL, ?_, ?_, ?_, ?_, ?_, ?_, ?_, ?_⟩
  · exact both_nodup h _ 0 (by fam_tac)
  · intro o; exact both_nodup h _ 1 (by fam_tac)
  · intro o d; exact both_nodup h _ 1 (by fam_tac)
  · intro o dn d
    exact idsWhere_nodup (n := 3) h (by intro k hk; simp at hk; rw [hk]; rfl)
  · intro dn d; exact both_nodup h _ 2 (by fam_tac)
  · intro t; exact flag_nodup h _ _ 4 (by fam_tac)
  · intro t; exact flag_nodup h _ _ 4 (by fam_tac)
  · intro now o ts
    unfold qOwnerPastTime
    refine nodup_sortNat_append (flag_nodup h _ _ 5 (by fam_tac)) (hOL _ _ _) ?_
    intro x h1 h2
    simp only [qOwnerLonger, if_true] at h2
    exact flag_disjoint h h1 h2
  · intro now o ts
    unfold qOwnerUnlockedBefore
    simp only
    split
    · exact flag_nodup h _ _ 5 (by fam_tac)
    · exact nodup_sortNat_append (flag_nodup h _ _ 5 (by fam_tac)) (flag_nodup h _ _ 1 (by fam_tac))
        (fun x h1 h2 => flag_disjoint h h1 h2)
  · intro now o dn ts
    unfold qOwnerDenomPastTime
    refine nodup_sortNat_append (flag_nodup h _ _ 7 (by fam_tac)) (hODL _ _ _ _) ?_
    intro x h1 h2
    simp only [qOwnerDenomLonger, if_true] at h2
    exact flag_disjoint h h1 h2
  · intro now dn ts
    unfold qDenomPastTime
    exact nodup_sortNat_append (flag_nodup h _ _ 6 (by fam_tac)) (flag_nodup h _ _ 2 (by fam_tac))
      (fun x h1 h2 => flag_disjoint h h1 h2)

theorem queries_sorted (s : State) :
    (qAll s).Pairwise (· ≤ ·) ∧ (∀ o, (qOwner s o).Pairwise (· ≤ ·)) ∧ (∀ o d nu, (qOwnerLonger s o d nu).Pairwise (· ≤ ·)) ∧
    (∀ o d, (qOwnerDuration s o d).Pairwise (· ≤ ·)) ∧ (∀ o dn d nu, (qOwnerDenomLonger s o dn d nu).Pairwise (· ≤ ·)) ∧
    (∀ o dn d, (qOwnerDenomDurationNotUnlocking s o dn d).Pairwise (· ≤ ·)) ∧ (∀ dn d, (qDenomLonger s dn d).Pairwise (· ≤ ·)) ∧
    (∀ t, (qUnlockingBefore s t).Pairwise (· ≤ ·)) ∧ (∀ t, (qUnlockingAfter s t).Pairwise (· ≤ ·)) ∧
    (∀ now o ts, (qOwnerPastTime s now o ts).Pairwise (· ≤ ·)) ∧ (∀ now o ts, (qOwnerUnlockedBefore s now o ts).Pairwise (· ≤ ·)) ∧
    (∀ now o dn ts, (qOwnerDenomPastTime s now o dn ts).Pairwise (· ≤ ·)) ∧
    (∀ now dn ts, (qDenomPastTime s now dn ts).Pairwise (· ≤ ·)) := by
  refine ⟨sorted_sortNat _, fun _ => sorted_sortNat _, ?_, fun _ _ => sorted_sortNat _, ?_, fun _ _ _ => sorted_sortNat _,
    fun _ _ => sorted_sortNat _, fun _ => sorted_sortNat _, fun _ => sorted_sortNat _, fun _ _ _ => sorted_sortNat _, ?_,
    fun _ _ _ _ => sorted_sortNat _, fun _ _ _ => sorted_sortNat _⟩
  · intro o d nu; unfold qOwnerLonger; simp only; split <;> exact sorted_sortNat _
  · intro o dn d nu; unfold qOwnerDenomLonger; simp only; split <;> exact sorted_sortNat _
  · intro now o ts; unfold qOwnerUnlockedBefore; simp only; split <;> exact sorted_sortNat _

end OsmoVerif.Lockup
