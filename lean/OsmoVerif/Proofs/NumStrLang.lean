/-
Shape / injectivity of the printed form and the accepted language of the decoder, on `List Char`
(C12 string codec).  Continues `Proofs/NumStrList.lean`.
-/
import OsmoVerif.Proofs.NumStrList
namespace OsmoVerif.NumStr
open OsmoVerif.Num OsmoVerif.Gen

/-! ### shape of the digits -/
theorem toDigits_head_ne_zero (n : Nat) (hn : 0 < n) : (Nat.toDigits 10 n).head? ≠ some '0' := by
  induction n using Nat.strongRecOn with
  | _ n ih =>
    rw [Nat.toDigits_eq_if (by decide)]
    split
    · simp only [List.head?_cons, ne_eq, Option.some.injEq, Nat.digitChar_eq_zero]; omega
    · rw [List.head?_append]
      obtain ⟨d, r, hdr⟩ := List.exists_cons_of_ne_nil (Nat.toDigits_ne_nil (n := n / 10) (b := 10))
      have := ih (n / 10) (by omega) (by omega)
      rw [hdr] at this ⊢
      simpa using this

theorem toDigits_eq_zero_iff (n : Nat) : Nat.toDigits 10 n = ['0'] ↔ n = 0 := by
  constructor
  · intro h
    rcases Nat.eq_zero_or_pos n with h0 | h0
    · exact h0
    · exact absurd (by rw [h]; rfl) (toDigits_head_ne_zero n h0)
  · rintro rfl; exact Nat.toDigits_zero 10

theorem toDigits_injective {m n : Nat} (h : Nat.toDigits 10 m = Nat.toDigits 10 n) : m = n := by
  rw [← Nat.ofDigitChars_ten_toDigits (n := m), h, Nat.ofDigitChars_ten_toDigits]

/-- shape and value of the printed form. -/
theorem toChars_shape {p : Nat} (hp : 0 < p) (a : Int) :
    ∃ ip fp : List Char,
      toChars p a = (if a < 0 then ['-'] else []) ++ ip ++ '.' :: fp ∧
      ip ≠ [] ∧ ip.all Char.isDigit = true ∧ (ip = ['0'] ∨ ip.head? ≠ some '0') ∧
      (ip = ['0'] ↔ a.natAbs < 10 ^ p) ∧
      fp.length = p ∧ fp.all Char.isDigit = true ∧
      Nat.ofDigitChars 10 ip 0 = a.natAbs / 10 ^ p ∧ Nat.ofDigitChars 10 fp 0 = a.natAbs % 10 ^ p := by
  have hm : a.natAbs % 10 ^ p < 10 ^ p := Nat.mod_lt _ (Nat.pow_pos (by decide))
  refine ⟨Nat.toDigits 10 (a.natAbs / 10 ^ p), fracChars p (a.natAbs % 10 ^ p), ?_, Nat.toDigits_ne_nil,
    toDigits_all _, ?_, ?_, fracChars_length hp hm, fracChars_all _ _, Nat.ofDigitChars_ten_toDigits, ?_⟩
  · unfold toChars absChars; rw [List.append_assoc]
  · rcases Nat.eq_zero_or_pos (a.natAbs / 10 ^ p) with h0 | h0
    · exact Or.inl ((toDigits_eq_zero_iff _).2 h0)
    · exact Or.inr (toDigits_head_ne_zero _ h0)
  · rw [toDigits_eq_zero_iff, Nat.div_eq_zero_iff]
    constructor
    · rintro (h | h)
      · exact absurd h (Nat.ne_of_gt (Nat.pow_pos (by decide)))
      · exact h
    · exact Or.inr
  · rw [fracChars_val]; simp

/-! ### sign -/
theorem toChars_neg (p : Nat) {a : Int} (ha : a < 0) : toChars p a = '-' :: toChars p (-a) := by
  unfold toChars
  rw [if_pos ha, if_neg (by omega), Int.natAbs_neg]; rfl

theorem toChars_nonneg (p : Nat) {a : Int} (ha : 0 ≤ a) : toChars p a = absChars p a.natAbs := by
  unfold toChars
  rw [if_neg (by omega)]; rfl

theorem toChars_injective {p : Nat} (hp : 0 < p) {a b : Int} (h : toChars p a = toChars p b) : a = b := by
  have := parseU_toChars hp a
  rw [h, parseU_toChars hp b] at this
  exact (Option.some.inj this).symm

/-! ### rejection lemmas -/
theorem parseU_eq_none {p : Nat} {cs : List Char} (h1 : parseAbs p cs = none)
    (h2 : ∀ rest, cs = '-' :: rest → parseAbs p rest = none) : parseU p cs = none := by
  unfold parseU
  match cs with
  | [] => rfl
  | c :: rest =>
    simp only
    by_cases hc : c = '-'
    · subst hc
      rw [if_pos rfl]
      split
      · rfl
      · rw [h2 rest rfl]; rfl
    · rw [if_neg hc, h1]; rfl

theorem digitsVal?_nil : digitsVal? [] = none := rfl

theorem parseAbs_nil (p : Nat) : parseAbs p [] = none := rfl

theorem length_splitOn (c : Char) (xs : List Char) : (xs.splitOn c).length = xs.count c + 1 := by
  induction xs with
  | nil => rfl
  | cons x xs ih =>
    rw [List.splitOn_cons_eq_if_modifyHead, List.count_cons]
    split
    · rw [List.length_cons, ih]
    · rw [List.length_modifyHead, ih]

theorem parseAbs_none_of_length {p : Nat} {xs : List Char} (h : 3 ≤ (xs.splitOn '.').length) :
    parseAbs p xs = none := by
  unfold parseAbs
  generalize xs.splitOn '.' = L at h
  match L, h with
  | _ :: _ :: _ :: _, _ => rfl

theorem parseAbs_two_dots {p : Nat} {xs : List Char} (h : 2 ≤ xs.count '.') : parseAbs p xs = none :=
  parseAbs_none_of_length (by rw [length_splitOn]; omega)

theorem parseAbs_split2 {p : Nat} {xs ip fp : List Char} (h : xs.splitOn '.' = [ip, fp]) :
    parseAbs p xs = if fp = [] ∨ ip = [] ∨ p < fp.length then none
      else (digitsVal? (ip ++ fp)).map (· * 10 ^ (p - fp.length)) := by
  unfold parseAbs; rw [h]

theorem parseAbs_split1 {p : Nat} {xs ip : List Char} (h : xs.splitOn '.' = [ip]) :
    parseAbs p xs = (digitsVal? ip).map (· * 10 ^ p) := by
  unfold parseAbs; rw [h]

/-- `xs ++ "." ++ ys`: decided by the two pieces. -/
theorem parseAbs_append_dot {p : Nat} (xs ys : List Char) :
    parseAbs p (xs ++ '.' :: ys) =
      if '.' ∈ xs ∨ '.' ∈ ys ∨ ys = [] ∨ xs = [] ∨ p < ys.length then none
      else (digitsVal? (xs ++ ys)).map (· * 10 ^ (p - ys.length)) := by
  by_cases hx : '.' ∈ xs
  · rw [if_pos (Or.inl hx)]
    apply parseAbs_two_dots
    rw [List.count_append, List.count_cons_self]
    have := List.count_pos_iff.2 hx; omega
  by_cases hy : '.' ∈ ys
  · rw [if_pos (Or.inr (Or.inl hy))]
    apply parseAbs_two_dots
    rw [List.count_append, List.count_cons_self]
    have := List.count_pos_iff.2 hy; omega
  rw [parseAbs_split2 (by rw [List.splitOn_append_cons_self_of_not_mem hx, List.splitOn_eq_singleton hy])]
  simp only [hx, hy, false_or]

theorem parseAbs_trailing_dot (p : Nat) (xs : List Char) : parseAbs p (xs ++ ['.']) = none := by
  rw [parseAbs_append_dot]; simp

theorem parseAbs_leading_dot (p : Nat) (xs : List Char) : parseAbs p ('.' :: xs) = none := by
  have := parseAbs_append_dot (p := p) [] xs
  rw [List.nil_append] at this
  rw [this]; simp

theorem parseAbs_long_frac {p : Nat} (xs fp : List Char) (h : p < fp.length) :
    parseAbs p (xs ++ '.' :: fp) = none := by
  rw [parseAbs_append_dot, if_pos]
  simp [h]

theorem parseAbs_no_dot {p : Nat} {xs : List Char} (h : '.' ∉ xs) :
    parseAbs p xs = (digitsVal? xs).map (· * 10 ^ p) :=
  parseAbs_split1 (List.splitOn_eq_singleton h)

theorem digitsVal?_eq_some {cs : List Char} {k : Nat} (h : digitsVal? cs = some k) :
    cs ≠ [] ∧ cs.all Char.isDigit = true ∧ k = Nat.ofDigitChars 10 cs 0 := by
  unfold digitsVal? at h
  split at h
  · cases h
  · split at h
    · cases h; exact ⟨by assumption, by assumption, rfl⟩
    · cases h

theorem digitsVal?_of_all {cs : List Char} (h1 : cs ≠ []) (h2 : cs.all Char.isDigit = true) :
    digitsVal? cs = some (Nat.ofDigitChars 10 cs 0) := by
  unfold digitsVal?; rw [if_neg h1, if_pos h2]

/-- the decoder's accepted language and value: digits, optionally '.' and 1..p digits. -/
theorem parseAbs_eq_some_iff {p : Nat} {body : List Char} {n : Nat} :
    parseAbs p body = some n ↔
      ∃ ip fp : List Char, body = ip ++ (if fp = [] then [] else '.' :: fp) ∧ ip ≠ [] ∧
        ip.all Char.isDigit = true ∧ fp.all Char.isDigit = true ∧ fp.length ≤ p ∧
        n = Nat.ofDigitChars 10 (ip ++ fp) 0 * 10 ^ (p - fp.length) := by
  constructor
  · intro h
    by_cases hd : '.' ∈ body
    · obtain ⟨xs, ys, rfl⟩ := List.append_of_mem hd
      rw [parseAbs_append_dot] at h
      split at h
      · cases h
      · rename_i hc
        simp only [not_or] at hc
        obtain ⟨_, _, hy, hx, hlen⟩ := hc
        cases hv : digitsVal? (xs ++ ys) with
        | none => rw [hv] at h; cases h
        | some k =>
          rw [hv] at h
          obtain ⟨_, h2, rfl⟩ := digitsVal?_eq_some hv
          rw [List.all_append, Bool.and_eq_true] at h2
          refine ⟨xs, ys, by rw [if_neg hy], hx, h2.1, h2.2, by omega, ?_⟩
          simpa using (Option.some.inj h).symm
    · rw [parseAbs_no_dot hd] at h
      cases hv : digitsVal? body with
      | none => rw [hv] at h; cases h
      | some k =>
        rw [hv] at h
        obtain ⟨h1, h2, rfl⟩ := digitsVal?_eq_some hv
        refine ⟨body, [], by simp, h1, h2, rfl, Nat.zero_le _, ?_⟩
        simpa using (Option.some.inj h).symm
  · rintro ⟨ip, fp, rfl, h1, h2, h3, h4, rfl⟩
    by_cases hf : fp = []
    · subst hf
      simp only [if_true, List.append_nil, List.length_nil, Nat.sub_zero]
      rw [parseAbs_no_dot (not_mem_of_all_digits h2 (by decide)), digitsVal?_of_all h1 h2]; rfl
    · rw [if_neg hf, parseAbs_append_dot, if_neg, digitsVal?_of_all (by simp [h1]) (by simp [h2, h3])]
      · rfl
      · rintro (h | h | h | h | h)
        · exact not_mem_of_all_digits h2 (by decide) h
        · exact not_mem_of_all_digits h3 (by decide) h
        · exact hf h
        · exact h1 h
        · omega

theorem parseAbs_chars {p : Nat} {xs : List Char} {n : Nat} (h : parseAbs p xs = some n) :
    ∀ c ∈ xs, c.isDigit = true ∨ c = '.' := by
  obtain ⟨ip, fp, rfl, _, h2, h3, _, _⟩ := parseAbs_eq_some_iff.1 h
  intro c hc
  rw [List.all_eq_true] at h2 h3
  rw [List.mem_append] at hc
  rcases hc with hc | hc
  · exact Or.inl (h2 c hc)
  · split at hc
    · cases hc
    · rcases List.mem_cons.1 hc with hc | hc
      · exact Or.inr hc
      · exact Or.inl (h3 c hc)

theorem parseAbs_bad_char {p : Nat} {xs : List Char} {c : Char} (hm : c ∈ xs) (hc : c.isDigit = false)
    (hd : c ≠ '.') : parseAbs p xs = none := by
  cases h : parseAbs p xs with
  | none => rfl
  | some n =>
    rcases parseAbs_chars h c hm with h1 | h1
    · rw [h1] at hc; cases hc
    · exact absurd h1 hd

/-! ### the same for the signed decoder -/
theorem parseU_nil (p : Nat) : parseU p [] = none := rfl
theorem parseU_sign_only (p : Nat) : parseU p ['-'] = none := rfl

theorem parseU_trailing_dot (p : Nat) (cs : List Char) : parseU p (cs ++ ['.']) = none := by
  apply parseU_eq_none (parseAbs_trailing_dot p cs)
  intro rest h
  match cs, h with
  | [], h => simp at h
  | c :: cs', h =>
    simp only [List.cons_append, List.cons.injEq] at h
    rw [← h.2]; exact parseAbs_trailing_dot p cs'

theorem parseU_leading_dot (p : Nat) (cs : List Char) :
    parseU p ('.' :: cs) = none ∧ parseU p ('-' :: '.' :: cs) = none := by
  constructor
  · apply parseU_eq_none (parseAbs_leading_dot p cs)
    intro rest h; simp at h
  · apply parseU_eq_none (parseAbs_bad_char (c := '-') List.mem_cons_self (by decide) (by decide))
    intro rest h
    simp only [List.cons.injEq, true_and] at h
    rw [← h]; exact parseAbs_leading_dot p cs

theorem parseU_two_dots_count {p : Nat} {cs : List Char} (h : 2 ≤ cs.count '.') : parseU p cs = none := by
  apply parseU_eq_none (parseAbs_two_dots h)
  rintro rest rfl
  apply parseAbs_two_dots
  rw [List.count_cons_of_ne (by decide)] at h; exact h

theorem parseU_two_dots (p : Nat) (a b c : List Char) : parseU p (a ++ '.' :: (b ++ '.' :: c)) = none := by
  apply parseU_two_dots_count
  simp only [List.count_append, List.count_cons_self]; omega

theorem parseU_non_digit (p : Nat) (pre post : List Char) (c : Char) (hc : c.isDigit = false) (hd : c ≠ '.')
    (hs : pre ≠ [] ∨ c ≠ '-') : parseU p (pre ++ c :: post) = none := by
  apply parseU_eq_none (parseAbs_bad_char (c := c) (by simp) hc hd)
  intro rest h
  match pre, h, hs with
  | [], h, hs =>
    simp only [List.nil_append, List.cons.injEq] at h
    rcases hs with hs | hs
    · exact absurd rfl hs
    · exact absurd h.1 hs
  | d :: pre', h, _ =>
    simp only [List.cons_append, List.cons.injEq] at h
    rw [← h.2]
    exact parseAbs_bad_char (c := c) (by simp) hc hd

theorem parseU_long_frac {p : Nat} (ip fp : List Char) (h : p < fp.length) :
    parseU p (ip ++ '.' :: fp) = none := by
  apply parseU_eq_none (parseAbs_long_frac ip fp h)
  intro rest hr
  match ip, hr with
  | [], hr => simp at hr
  | d :: ip', hr =>
    simp only [List.cons_append, List.cons.injEq] at hr
    rw [← hr.2]; exact parseAbs_long_frac ip' fp h

/-- accepted language and value of the signed decoder. -/
theorem parseU_eq_some_iff {p : Nat} {cs : List Char} {v : Int} :
    parseU p cs = some v ↔
      ∃ (neg : Bool) (ip fp : List Char),
        cs = (if neg then ['-'] else []) ++ ip ++ (if fp = [] then [] else '.' :: fp) ∧ ip ≠ [] ∧
        ip.all Char.isDigit = true ∧ fp.all Char.isDigit = true ∧ fp.length ≤ p ∧
        v = signed neg (Nat.ofDigitChars 10 (ip ++ fp) 0 * 10 ^ (p - fp.length)) := by
  constructor
  · intro h
    match cs, h with
    | [], h => cases h
    | c :: rest, h =>
      unfold parseU at h
      simp only at h
      by_cases hc : c = '-'
      · subst hc
        rw [if_pos rfl] at h
        split at h
        · cases h
        · cases hv : parseAbs p rest with
          | none => rw [hv] at h; cases h
          | some n =>
            rw [hv] at h
            obtain ⟨ip, fp, rfl, h1, h2, h3, h4, rfl⟩ := parseAbs_eq_some_iff.1 hv
            exact ⟨true, ip, fp, by simp, h1, h2, h3, h4, (Option.some.inj h).symm⟩
      · rw [if_neg hc] at h
        cases hv : parseAbs p (c :: rest) with
        | none => rw [hv] at h; cases h
        | some n =>
          rw [hv] at h
          obtain ⟨ip, fp, he, h1, h2, h3, h4, rfl⟩ := parseAbs_eq_some_iff.1 hv
          exact ⟨false, ip, fp, by simpa using he, h1, h2, h3, h4, (Option.some.inj h).symm⟩
  · rintro ⟨neg, ip, fp, rfl, h1, h2, h3, h4, rfl⟩
    have hbody := parseAbs_eq_some_iff.2 ⟨ip, fp, rfl, h1, h2, h3, h4, rfl⟩
    cases neg
    · obtain ⟨d, ip', rfl⟩ := List.exists_cons_of_ne_nil h1
      have hd : d ≠ '-' := by
        intro hd; subst hd
        have := (List.all_eq_true.1 h2) '-' List.mem_cons_self
        revert this; decide
      simp only [Bool.false_eq_true, if_false, List.nil_append, List.cons_append] at hbody ⊢
      unfold parseU
      simp only [if_neg hd]
      rw [hbody]; rfl
    · simp only [if_true, List.cons_append, List.nil_append]
      unfold parseU
      simp only [if_true]
      rw [if_neg (by simp [h1]), hbody]; rfl

end OsmoVerif.NumStr
