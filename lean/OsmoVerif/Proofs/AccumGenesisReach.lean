/- C19 helper: the hypotheses of `Props/C19.accum_export_import_eq` (distinct accumulator names, distinct position keys, no key
separator in a name) hold on every store reachable from the empty one by a disciplined history (C15's quantifier).  Core only. -/
import OsmoVerif.Proofs.AccumInv

namespace OsmoVerif.Accum

theorem nodup_of_uniqK {κ α : Type} [DecidableEq κ] : ∀ {l : List (κ × α)}, uniqK l → (l.map Prod.fst).Nodup
  | [], _ => List.nodup_nil
  | (k, v) :: t, h => by
    rw [List.map_cons, List.nodup_cons]
    refine ⟨fun m => ?_, nodup_of_uniqK h.2⟩
    obtain ⟨x, hx, e⟩ := List.mem_map.mp m
    have : ∀ (l : List (κ × α)), x ∈ l → (alookup l x.1).isSome = true := by
      intro l
      induction l with
      | nil => intro h; cases h
      | cons y ys ih =>
        intro hm
        obtain ⟨k', w⟩ := y
        unfold alookup
        by_cases e' : k' = x.1
        · rw [if_pos e']; rfl
        · rw [if_neg e']
          rcases List.mem_cons.mp hm with h1 | h1
          · exact absurd (by rw [h1]) e'
          · exact ih h1
    have hs := this t hx
    simp only at e
    rw [e, h.1] at hs
    cases hs

/-- the accumulator table keeps distinct names: it is only ever written through `aset` -/
theorem uniqK_accs_step {st : Store} (hN : NoSep st) (hu : uniqK st.accs) (op : Op) : uniqK (stepTx st op).accs := by
  rcases step_cases hN op with ⟨_, h⟩ | ⟨_, h⟩
  · rw [h]; exact hu
  · revert h
    generalize stepTx st op = s'
    intro h
    cases h with
    | make => exact uniqK_aset hu _ _
    | grow => exact uniqK_aset hu _ _
    | newPos => exact uniqK_aset hu _ _
    | settle => exact uniqK_aset hu _ _
    | setInt => exact hu
    | addUnclaimed => exact hu
    | claim => exact hu
    | delete => exact uniqK_aset hu _ _

theorem uniqK_accs_run : ∀ (ops : List Op) (st : Store), Inv st → uniqK st.accs → disciplined st ops = true →
    uniqK (run st ops).accs := by
  intro ops
  induction ops with
  | nil => intro st _ hu _; exact hu
  | cons op t ih =>
    intro st h hu hd
    simp only [disciplined, Bool.and_eq_true] at hd
    exact ih _ (inv_step h hd.1) (uniqK_accs_step h.nosep hu op) hd.2

theorem mem_alookup_isSome {κ α : Type} [DecidableEq κ] : ∀ (l : List (κ × α)) (x : κ × α), x ∈ l → ∃ v, alookup l x.1 = some v
  | [], _, h => by cases h
  | (k, w) :: t, x, h => by
    unfold alookup
    by_cases e : k = x.1
    · rw [if_pos e]; exact ⟨w, rfl⟩
    · rw [if_neg e]
      rcases List.mem_cons.mp h with h1 | h1
      · exact absurd (by rw [h1]) e
      · exact mem_alookup_isSome t x h1

end OsmoVerif.Accum
