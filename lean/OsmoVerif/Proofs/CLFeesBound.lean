/-
C08 helpers, part 10: the SUM invariant.  For every reachable state and each pool token
  2 · (paid out · scale · 10¹⁸ + Σ positions exact entitlement) ≤ 2 · paid in · 10¹⁸ · scale + n · 10¹⁸
where `n` counts the messages so far (every message settles at most one record, and a settlement's half-even rounding
moves at most half a unit of 10⁻¹⁸ — the only thing that is not rounded in the pool's favour), together with
`totalShares = Σ liquidity`.  Ingredients: growth × active liquidity ≤ charge × scale per swap step and active
liquidity = Σ in-range liquidity (C07) for swaps; claim arithmetic (`claimAmt_le`, `dustGrowthI_bound`) for collects
and withdrawals.
-/
import OsmoVerif.Proofs.CLFeesCharge

namespace OsmoVerif.CLFeesP
open OsmoVerif.CLPool OsmoVerif.CL OsmoVerif.CLBook OsmoVerif.Num OsmoVerif.CLFees OsmoVerif.CLRewards OsmoVerif.Gen OsmoVerif.CLSolv
open OsmoVerif.Spec

structure SumInv (f : Fees) (n : Int) : Prop where
  ts : f.acc.totalShares = totalLiq f.pool.positions
  scale : 0 < f.pool.scale
  bound : ∀ s, 2 * phi f s ≤ 2 * (feeS f s * (P18 * f.pool.scale)) + n * P18

theorem SumInv.mono {f : Fees} {n m : Int} (h : SumInv f n) (hnm : n ≤ m) : SumInv f m :=
  ⟨h.ts, h.scale, fun s => by
    have := h.bound s
    have : n * P18 ≤ m * P18 := Int.mul_le_mul_of_nonneg_right hnm P18_nonneg
    omega⟩

theorem entI_of_rec {f : Fees} {s : Bool} {q : Position} {r : Rec} (h : getRec f.acc.recs q.id = some r) :
    entI f s q = get s r.unclaimed * P18 + (get s (insideF f q.lower q.upper) - get s r.snap) * r.shares := by
  unfold entI; rw [h]

/-! ## arithmetic glue -/

/-- what a claim moves out (whole tokens, in raw × raw units) plus what its dust credits to liquidity `A ≤ T` is at
most the claimed raw total. -/
theorem claim_K_le {scale total T A : Int} (hs : 0 < scale) (ht : 0 ≤ total) (hA0 : 0 ≤ A) (hAT : A ≤ T) :
    claimAmt scale total * (scale * P18) + dustGrowthI scale total T * A ≤ total * P18 := by
  have hP := P18_pos
  have hT : 0 ≤ T := by omega
  obtain ⟨c0, c1⟩ := claimAmt_le hs ht
  obtain ⟨d0, d1⟩ := dustGrowthI_bound (scale := scale) ht hT
  have hdA : dustGrowthI scale total T * A ≤ dustGrowthI scale total T * T := Int.mul_le_mul_of_nonneg_left hAT d0
  by_cases hsc : scale = P18
  · subst hsc
    rw [if_pos rfl] at d1
    have hc : claimAmt P18 total = total.tdiv P18 := by unfold claimAmt; rw [if_pos rfl]
    rw [hc]
    have e : total.tdiv P18 * (P18 * P18) + (total - total.tdiv P18 * P18) * P18 = total * P18 := by
      rw [Int.sub_mul, ← Int.mul_assoc]; omega
    omega
  · rw [if_neg hsc] at d1
    have : claimAmt scale total * scale * P18 ≤ total * P18 := Int.mul_le_mul_of_nonneg_right c1 (by omega)
    rw [← Int.mul_assoc]
    omega

/-- a settlement: `total = unclaimed + round₁₈(Δ·shares)` is within half a unit of the exact entitlement. -/
theorem settle_E {u d sh total : Int} (hd : 0 ≤ d) (hsh : 0 ≤ sh) (h : total = rewardI u d sh) :
    2 * (total * P18) ≤ 2 * (u * P18 + d * sh) + P18 := by
  have := settle_bound hd hsh
  rw [h]; unfold rewardI
  rw [Int.add_mul]; omega

/-! ## create -/

theorem createMin_sum {f f' : Fees} {owner : String} {lower upper a0 a1 m0 m1 : Int} {id : Nat} {x0 x1 liq lo up : Int} {n : Int}
    (hf : FullInv f) (hs : SumInv f n)
    (h : CLFees.createPositionMin f owner lower upper a0 a1 m0 m1 = some (f', id, x0, x1, liq, lo, up)) : SumInv f' n := by
  obtain ⟨sf, eid, hrecNew, frame, eg, epos, ets⟩ := createMin_facts hf.pool.core hf.acc h
  obtain ⟨hp, _, eo0, eo1⟩ := createMin_spec h
  obtain ⟨ef0, ef1, esc⟩ := createMin_frame hp
  refine ⟨?_, by rw [esc]; exact hs.scale, fun s => ?_⟩
  · rw [ets, epos, hs.ts]
    unfold totalLiq
    rw [sumBy_append]
    simp only [sumBy_cons, sumBy_nil, onPos, liqW]; omega
  · have hsum : sumBy (entI f' s) f'.pool.positions = sumBy (entI f s) f.pool.positions := by
      rw [epos, sumBy_append]
      have hnew : entI f' s ⟨id, owner, lo, up, liq⟩ = 0 := by
        rw [entI_of_rec (r := ⟨id, liq, insideF f' lo up, V2.zero⟩) hrecNew]
        simp only [get_zero, Int.zero_mul, Int.sub_self, Int.add_zero]
      simp only [sumBy_cons, sumBy_nil, hnew, Int.add_zero]
      apply sumBy_congr
      intro q hq
      have hlt := hf.pool.core.pos.idsLt q hq
      have hq' : q ∈ f'.pool.positions := by rw [epos]; exact List.mem_append_left _ hq
      have hin := sf.inside q hq q hq' rfl s
      simp only [evSum, Int.add_zero] at hin
      unfold entI
      rw [frame q.id (by omega), hin]
    have hout : outS f' s = outS f s := by unfold outS; rw [eo0, eo1]
    have hfee : feeS f' s = feeS f s := by unfold feeS; rw [ef0, ef1]
    have := hs.bound s
    unfold phi at this ⊢
    rw [hsum, hout, hfee, esc]; exact this

/-! ## transfer -/

theorem transfer_sum {f f' : Fees} {sender : String} {id : Nat} {newOwner : String} {n : Int}
    (hf : FullInv f) (hs : SumInv f n) (h : CLFees.transferPosition f sender id newOwner = some f') : SumInv f' n := by
  obtain ⟨_, eacc, eo0, eo1, et, epos⟩ := transfer_facts hf.pool.core hf.acc h
  simp only [CLFees.transferPosition, Option.map_eq_some_iff] at h
  obtain ⟨p', hp, e⟩ := h
  obtain ⟨ef0, ef1, esc⟩ := transfer_frame hp
  have epool : f'.pool = p' := by rw [← e]
  rw [← epool] at ef0 ef1 esc
  refine ⟨?_, by rw [esc]; exact hs.scale, fun s => ?_⟩
  · rw [eacc, hs.ts, epos]
    unfold totalLiq
    rw [sumBy_map]
    apply sumBy_congr
    intro q _
    simp only [onPos, liqW]; split <;> rfl
  · have hent : ∀ q, entI f' s q = entI f s q := by
      intro q; unfold entI insideF; rw [eacc, et]
    have hsum : sumBy (entI f' s) f'.pool.positions = sumBy (entI f s) f.pool.positions := by
      rw [epos, sumBy_map]
      apply sumBy_congr
      intro q _
      rw [hent]
      apply entI_congr_pos <;> (split <;> rfl)
    have hout : outS f' s = outS f s := by unfold outS; rw [eo0, eo1]
    have hfee : feeS f' s = feeS f s := by unfold feeS; rw [ef0, ef1]
    have := hs.bound s
    unfold phi at this ⊢
    rw [hsum, hout, hfee, esc]; exact this

/-! ## collect -/

theorem collect_sum {f f' : Fees} {sender : String} {id : Nat} {c0 c1 : Int} {n : Int}
    (hf : FullInv f) (hs : SumInv f n) (h : CLFees.collect f sender id = some (f', c0, c1)) : SumInv f' (n + 1) := by
  obtain ⟨sf, hpool, pos, r, total, hm, hid, _, hr, htot, hc0, hc1, hrec', frame, eo, ets, eg, ho0, ho1⟩ :=
    collect_facts hf.pool.core hf.acc h
  have hcore := hf.pool.core
  obtain ⟨r0, hr0, esh, _⟩ := hf.acc.recs pos hm
  rw [hid, hr] at hr0; injection hr0 with hr0; subst hr0
  have hliqpos := hcore.pos.liqPos
  refine ⟨by rw [ets, hpool]; exact hs.ts, by rw [hpool]; exact hs.scale, fun s => ?_⟩
  -- the dust growth of this component
  let dg := dustGrowthI f.pool.scale (get s total) f.acc.totalShares
  have hdg : get s f'.acc.global - get s f.acc.global = dg := by have := eg s; omega
  -- entitlements after
  have hent : ∀ q ∈ f.pool.positions, q.id ≠ pos.id →
      entI f' s q = entI f s q + (if q.lower ≤ f.pool.tick ∧ f.pool.tick < q.upper then dg else 0) * q.liq := by
    intro q hq hne
    obtain ⟨rq, hrq, eq1, _⟩ := hf.acc.recs q hq
    have hq' : q ∈ f'.pool.positions := by rw [hpool]; exact hq
    have hin := sf.inside q hq q hq' rfl s
    rw [evSum_single, get_vsub, hdg] at hin
    have hrq' : getRec f'.acc.recs q.id = some rq := by rw [frame q.id (by rw [← hid]; exact hne)]; exact hrq
    rw [entI_of_rec hrq', entI_of_rec hrq, hin, eq1]
    split
    · have e : get s (insideF f q.lower q.upper) + dg - get s rq.snap = (get s (insideF f q.lower q.upper) - get s rq.snap) + dg := by omega
      rw [e, Int.add_mul]; omega
    · simp only [Int.add_zero, Int.zero_mul]
  have hentPos : entI f' s pos = (if pos.lower ≤ f.pool.tick ∧ f.pool.tick < pos.upper then dg else 0) * pos.liq := by
    have hq' : pos ∈ f'.pool.positions := by rw [hpool]; exact hm
    have hin := sf.inside pos hm pos hq' rfl s
    rw [evSum_single, get_vsub, hdg] at hin
    have hrp : getRec f'.acc.recs pos.id = some ⟨id, r.shares, insideF f pos.lower pos.upper, V2.zero⟩ := by rw [hid]; exact hrec'
    rw [entI_of_rec hrp, hin, esh]
    simp only [get_zero, Int.zero_mul, Int.zero_add]
    split
    · have e : get s (insideF f pos.lower pos.upper) + dg - get s (insideF f pos.lower pos.upper) = dg := by omega
      rw [e]
    · simp
  have hsum : sumBy (entI f' s) f'.pool.positions =
      sumBy (entI f s) f.pool.positions + dg * activeAt f.pool.positions f.pool.tick - entI f s pos := by
    rw [hpool]
    have h1 := sumBy_point (F := fun q => entI f s q + (if q.lower ≤ f.pool.tick ∧ f.pool.tick < q.upper then dg else 0) * q.liq)
      (G := entI f' s) hcore.pos.uniq hm (fun q hq hne => hent q hq hne)
    rw [h1, sumBy_add, sumBy_credit, hentPos]
    omega
  -- bounds
  have hEpos : entI f s pos = get s r.unclaimed * P18 + (get s (insideF f pos.lower pos.upper) - get s r.snap) * r.shares := by
    apply entI_of_rec; rw [hid]; exact hr
  obtain ⟨ht1, ht2, ht3⟩ := htot s
  have hsh0 : 0 ≤ r.shares := by rw [esh]; have := hliqpos pos hm; omega
  have hsettle := settle_E ht2 hsh0 ht1
  obtain ⟨a0, a1⟩ := activeAt_le_totalLiq hliqpos f.pool.tick
  have hK := claim_K_le (scale := f.pool.scale) (total := get s total) (T := f.acc.totalShares)
    (A := activeAt f.pool.positions f.pool.tick) hs.scale ht3 a0 (by rw [hs.ts]; exact a1)
  have hout : outS f' s = outS f s + claimAmt f.pool.scale (get s total) := by
    unfold outS; cases s
    · simp only [Bool.false_eq_true, ↓reduceIte]; rw [ho1, hc1]; rfl
    · simp only [↓reduceIte]; rw [ho0, hc0]; rfl
  have hfee : feeS f' s = feeS f s := by unfold feeS; rw [hpool]
  have := hs.bound s
  unfold phi at this ⊢
  rw [hsum, hout, hfee, hpool, Int.add_mul, Int.add_mul, hEpos] at *
  show 2 * ((outS f s * (f.pool.scale * P18) + claimAmt f.pool.scale (get s total) * (f.pool.scale * P18)) +
      (sumBy (entI f s) f.pool.positions + dg * activeAt f.pool.positions f.pool.tick -
        (get s r.unclaimed * P18 + (get s (insideF f pos.lower pos.upper) - get s r.snap) * r.shares))) ≤ _
  have hdgdef : dg = dustGrowthI f.pool.scale (get s total) f.acc.totalShares := rfl
  rw [← hdgdef] at hK
  omega

end OsmoVerif.CLFeesP
