/-
C08 helpers, part 1: the step trace of an executed swap (`CL.swapLoopT`, `CL.swapTrace`).
* dropping the trace gives back `swapLoopS` (`swapLoopT_fst`), which refines `swapLoop` (`swapLoopS_some`): the new
  functions change nothing about the amounts/pool results the C01/C03/C07 theorems speak about;
* `TraceOK`: what the trace says about the current tick — every step starts at the tick the previous one ended
  at, runs against the active liquidity at that tick, and either crosses exactly one stored tick (whose
  side of the current tick flips, nobody else's does) or moves inside a bucket (nobody's side flips).
Core only.
-/
import OsmoVerif.Proofs.CLBookStep

namespace OsmoVerif.CLFeesP
open OsmoVerif.CLPool OsmoVerif.CL OsmoVerif.CLBook OsmoVerif.Num OsmoVerif.Tick OsmoVerif.Gen

/-! ## the trace functions refine the old loops -/

theorem loopBodyS_some {scale : Int} {og zfo : Bool} {spf limit : Int} {st : SwapSt} {ahead : Ticks} {r : SwapSt × Ticks × Bool}
    (h : loopBodyS scale og zfo spf limit st ahead = some r) : loopBody og zfo spf limit st ahead = some r := by
  unfold loopBodyS at h
  simp only [Option.bind_eq_some_iff] at h
  obtain ⟨c, _, u, _, h⟩ := h
  exact h

theorem loopBodyT_some {scale : Int} {og zfo : Bool} {spf limit : Int} {st : SwapSt} {ahead : Ticks}
    {r : SwapSt × Ticks × Bool} {tr : StepTrace}
    (h : loopBodyT scale og zfo spf limit st ahead = some (r, tr)) :
    loopBodyS scale og zfo spf limit st ahead = some r ∧ stepCharge og zfo spf limit st ahead = some tr.charge ∧
    tr.liq = st.pool.liquidity ∧ tr.tick = st.pool.tick ∧
    tr.crossed = (if r.2.2 then ahead.head?.map (·.1) else none) := by
  unfold loopBodyT at h
  simp only [Option.bind_eq_some_iff, Option.map_eq_some_iff, Prod.mk.injEq] at h
  obtain ⟨c, hc, r', hr, e1, e2⟩ := h
  subst e1; subst e2
  exact ⟨hr, hc, rfl, rfl, rfl⟩

theorem loopBodyT_fst (scale : Int) (og zfo : Bool) (spf limit : Int) (st : SwapSt) (ahead : Ticks) :
    (loopBodyT scale og zfo spf limit st ahead).map (·.1) = loopBodyS scale og zfo spf limit st ahead := by
  unfold loopBodyT loopBodyS
  cases stepCharge og zfo spf limit st ahead with
  | none => rfl
  | some c =>
    simp only [Option.bind_some]
    cases (scaleCheck scale c st.pool.liquidity).bind fun _ => loopBody og zfo spf limit st ahead with
    | none => rfl
    | some r => rfl

/-- dropping the trace gives back `swapLoopS`. -/
theorem swapLoopT_fst (scale : Int) (og zfo : Bool) (spf limit : Int) :
    ∀ (fuel : Nat) (st : SwapSt) (ahead : Ticks) (steps crossed : Nat),
      (swapLoopT scale og zfo spf limit fuel st ahead steps crossed).map (·.1) =
        swapLoopS scale og zfo spf limit fuel st ahead steps crossed := by
  intro fuel
  induction fuel with
  | zero => intro st ahead steps crossed; rfl
  | succ fuel ih =>
    intro st ahead steps crossed
    unfold swapLoopT swapLoopS
    split
    · have hb := loopBodyT_fst scale og zfo spf limit st ahead
      cases hT : loopBodyT scale og zfo spf limit st ahead with
      | none => rw [hT] at hb; simp only [Option.map_none] at hb; rw [← hb]; rfl
      | some x =>
        obtain ⟨⟨st', ahead', c⟩, tr⟩ := x
        rw [hT] at hb; simp only [Option.map_some] at hb; rw [← hb]
        simp only [Option.map_map]
        rw [← ih st' ahead' (steps + 1) (if c then crossed + 1 else crossed)]
        congr 1
    · rfl

theorem swapLoopS_some {scale : Int} {og zfo : Bool} {spf limit : Int} :
    ∀ (fuel : Nat) (st : SwapSt) (ahead : Ticks) (steps crossed : Nat) (r : SwapSt × Nat × Nat),
      swapLoopS scale og zfo spf limit fuel st ahead steps crossed = some r →
      swapLoop og zfo spf limit fuel st ahead steps crossed = some r := by
  intro fuel
  induction fuel with
  | zero => intro st ahead steps crossed r h; cases h
  | succ fuel ih =>
    intro st ahead steps crossed r h
    unfold swapLoopS at h
    unfold swapLoop
    split at h
    · rename_i hc
      rw [if_pos hc]
      cases hb : loopBodyS scale og zfo spf limit st ahead with
      | none => rw [hb] at h; cases h
      | some x =>
        obtain ⟨st', ahead', c⟩ := x
        rw [hb] at h
        rw [loopBodyS_some hb]
        exact ih _ _ _ _ _ h
    · rename_i hc
      rw [if_neg hc]; exact h

/-- the trace exists exactly when the accumulator-updating loop succeeds. -/
theorem swapLoopT_isSome (scale : Int) (og zfo : Bool) (spf limit : Int) (fuel : Nat) (st : SwapSt) (ahead : Ticks)
    (steps crossed : Nat) :
    (swapLoopT scale og zfo spf limit fuel st ahead steps crossed).isSome =
      (swapLoopS scale og zfo spf limit fuel st ahead steps crossed).isSome := by
  rw [← swapLoopT_fst]; simp

/-- `swapTrace` succeeds whenever `computeSwapS` does (the fee layer adds no failure at this point). -/
theorem swapTrace_isSome_of_computeSwapS {scale : Int} {og zfo : Bool} {spf pl : Int} {pool : PoolSt} {ticks : Ticks} {spec : Int}
    {r : SwapOut} (h : computeSwapS scale og zfo spf pl pool ticks spec = some r) :
    (swapTrace scale og zfo spf pl pool ticks spec).isSome = true := by
  unfold computeSwapS at h
  unfold swapTrace
  simp only [Option.bind_eq_bind] at h ⊢
  rw [Option.bind_eq_some_iff] at h
  obtain ⟨limit, hl, h⟩ := h
  rw [hl, Option.bind_some]
  have fin : ∀ x, swapLoopS scale og zfo spf limit (2 * ticks.length + CL.swapNoProgressLimit + 8)
      { remaining := spec * P18, calculated := 0, pool := pool, spreadTotal := 0, noProgress := 0 } (ticksAhead zfo ticks pool.tick) 0 0 = some x →
      ((swapLoopT scale og zfo spf limit (2 * ticks.length + CL.swapNoProgressLimit + 8)
      { remaining := spec * P18, calculated := 0, pool := pool, spreadTotal := 0, noProgress := 0 } (ticksAhead zfo ticks pool.tick) 0 0).bind
        fun r => some r.2).isSome = true := by
    intro x hx
    have hT := swapLoopT_isSome scale og zfo spf limit (2 * ticks.length + CL.swapNoProgressLimit + 8)
      { remaining := spec * P18, calculated := 0, pool := pool, spreadTotal := 0, noProgress := 0 } (ticksAhead zfo ticks pool.tick) 0 0
    rw [hx] at hT
    simp only [Option.isSome_some] at hT
    obtain ⟨y, hy⟩ := Option.isSome_iff_exists.mp hT
    rw [hy]; rfl
  cases zfo
  · simp only [Bool.false_eq_true, ↓reduceIte, guard_some_bind] at h
    simp only [Bool.false_eq_true, ↓reduceIte, if_neg h.1, Option.bind_some]
    have h2 := h.2
    rw [Option.bind_eq_some_iff] at h2
    obtain ⟨x, hx, _⟩ := h2
    exact fin x hx
  · simp only [↓reduceIte, guard_some_bind] at h
    simp only [↓reduceIte, if_neg h.1, Option.bind_some]
    have h2 := h.2
    rw [Option.bind_eq_some_iff] at h2
    obtain ⟨x, hx, _⟩ := h2
    exact fin x hx

theorem swapTrace_spec {scale : Int} {og zfo : Bool} {spf pl : Int} {pool : PoolSt} {ticks : Ticks} {spec : Int}
    {trs : List StepTrace} (h : swapTrace scale og zfo spf pl pool ticks spec = some trs) :
    ∃ limit st steps crossed, sqrtPriceLimit pl zfo = some limit ∧
      swapLoopT scale og zfo spf limit (2 * ticks.length + CL.swapNoProgressLimit + 8)
        { remaining := spec * P18, calculated := 0, pool := pool, spreadTotal := 0, noProgress := 0 }
        (ticksAhead zfo ticks pool.tick) 0 0 = some ((st, steps, crossed), trs) := by
  unfold swapTrace at h
  simp only [Option.bind_eq_bind] at h
  rw [Option.bind_eq_some_iff] at h
  obtain ⟨limit, hl, h⟩ := h
  cases zfo
  · simp only [Bool.false_eq_true, ↓reduceIte, guard_some_bind] at h
    have h2 := h.2
    simp only [Option.bind_eq_some_iff, Option.some.injEq] at h2
    obtain ⟨⟨⟨st, steps, crossed⟩, t⟩, hx, e⟩ := h2
    simp only at e; subst e
    exact ⟨limit, st, steps, crossed, hl, hx⟩
  · simp only [↓reduceIte, guard_some_bind] at h
    have h2 := h.2
    simp only [Option.bind_eq_some_iff, Option.some.injEq] at h2
    obtain ⟨⟨⟨st, steps, crossed⟩, t⟩, hx, e⟩ := h2
    simp only at e; subst e
    exact ⟨limit, st, steps, crossed, hl, hx⟩

/-! ## what the trace says about the current tick -/

/-- see the header. `tl` is the tick list the swap iterates over, `ps` the positions. -/
def TraceOK (zfo : Bool) (tl : Ticks) (ps : List Position) : Int → List StepTrace → Int → Prop
  | cur, [], cur' => cur' = cur
  | cur, tr :: rest, cur' =>
    tr.tick = cur ∧ tr.liq = activeAt ps cur ∧
    ∃ next,
      (match tr.crossed with
       | none => ∀ x ∈ tl, (x.1 ≤ cur ↔ x.1 ≤ next)
       | some t => (∃ net, (t, net) ∈ tl) ∧ next = (if zfo then t - 1 else t) ∧ (if zfo then t ≤ cur else cur < t) ∧
           ∀ x ∈ tl, x.1 ≠ t → (x.1 ≤ cur ↔ x.1 ≤ next)) ∧
      TraceOK zfo tl ps next rest cur'

theorem filter_eq_pointwise {α} {p q : α → Bool} : ∀ {l : List α}, l.filter p = l.filter q → ∀ x ∈ l, p x = q x
  | [], _, x, hx => by cases hx
  | a :: as, h, x, hx => by
    have key : p a = q a ∧ as.filter p = as.filter q := by
      cases hp : p a <;> cases hq : q a
      · simp only [List.filter_cons, hp, hq] at h; exact ⟨rfl, by simpa using h⟩
      · simp only [List.filter_cons, hp, hq, Bool.false_eq_true, ↓reduceIte] at h
        have : a ∈ as.filter p := by rw [h]; exact List.mem_cons_self
        have := (List.mem_filter.mp this).2
        rw [hp] at this; cases this
      · simp only [List.filter_cons, hp, hq, Bool.false_eq_true, ↓reduceIte] at h
        have : a ∈ as.filter q := by rw [← h]; exact List.mem_cons_self
        have := (List.mem_filter.mp this).2
        rw [hq] at this; cases this
      · simp only [List.filter_cons, hp, hq, ↓reduceIte, List.cons.injEq, true_and] at h; exact ⟨rfl, h⟩
    rcases List.mem_cons.mp hx with rfl | hx
    · exact key.1
    · exact filter_eq_pointwise key.2 x hx

/-- equal iterators ⇒ every stored tick is on the same side of both current ticks. -/
theorem ticksAhead_eq_status {zfo : Bool} {tl : Ticks} {c c' : Int} (h : ticksAhead zfo tl c = ticksAhead zfo tl c') :
    ∀ x ∈ tl, (x.1 ≤ c ↔ x.1 ≤ c') := by
  intro x hx
  cases zfo
  · rw [ticksAhead_up, ticksAhead_up] at h
    have := filter_eq_pointwise h x hx
    simp only [decide_eq_decide] at this
    omega
  · rw [ticksAhead_down, ticksAhead_down] at h
    have := filter_eq_pointwise h x (List.mem_reverse.mpr hx)
    simp only [decide_eq_decide] at this
    exact this

/-- one iteration: what happens to the side of every stored tick. -/
theorem body_status {og zfo : Bool} {spf limit : Int} {st st' : SwapSt} {nt net : Int} {rest ahead' : Ticks} {c : Bool}
    {spacing : Int} {tl : Ticks} {ps : List Position} (hok : TicksOK spacing tl ps)
    (hb : BodyRel og zfo spf limit st nt net rest st' ahead' c)
    (hla : LA zfo tl ps st.pool ((nt, net) :: rest)) (hla' : LA zfo tl ps st'.pool ahead') :
    (c = false → ∀ x ∈ tl, (x.1 ≤ st.pool.tick ↔ x.1 ≤ st'.pool.tick)) ∧
    (c = true → (nt, net) ∈ tl ∧ st'.pool.tick = (if zfo then nt - 1 else nt) ∧
      (if zfo then nt ≤ st.pool.tick else st.pool.tick < nt) ∧
      ∀ x ∈ tl, x.1 ≠ nt → (x.1 ≤ st.pool.tick ↔ x.1 ≤ st'.pool.tick)) := by
  obtain ⟨_, hahead⟩ := hla
  obtain ⟨_, hahead'⟩ := hla'
  obtain ⟨nextSp, r, hsp, _, _, hcase⟩ := hb
  rcases hcase with ⟨ec, e1, e2, e3, e4⟩ | ⟨ec, hne, hguard, e4, e5, hmove⟩
  · refine ⟨fun h => (by rw [ec] at h; cases h), fun _ => ?_⟩
    cases zfo
    · simp only [Bool.false_eq_true, ↓reduceIte] at e2 ⊢
      rw [ticksAhead_up] at hahead
      obtain ⟨f1, f2, f3, f4⟩ := filter_up_head hok.sorted hahead.symm
      refine ⟨f1, e2, f2, fun x hx hxne => ?_⟩
      rw [e2]
      have := f3 x hx
      simp only at f2 this
      constructor
      · intro h; omega
      · intro h
        apply Classical.byContradiction; intro hgt
        have := this (by omega)
        omega
    · simp only [↓reduceIte] at e2 ⊢
      rw [ticksAhead_down] at hahead
      have hsd : tl.reverse.Pairwise (fun a b => a.1 > b.1) := by
        rw [List.pairwise_reverse]; exact hok.sorted
      obtain ⟨f1, f2, f3, f4⟩ := filter_down_head hsd hahead.symm
      refine ⟨List.mem_reverse.mp f1, e2, f2, fun x hx hxne => ?_⟩
      rw [e2]
      have := f3 x (List.mem_reverse.mpr hx)
      simp only at f2 this
      constructor
      · intro h; have := this h; omega
      · intro h; omega
  · refine ⟨fun _ => ?_, fun h => (by rw [ec] at h; cases h)⟩
    apply ticksAhead_eq_status (zfo := zfo)
    rw [← hahead, ← hahead', e4]

theorem swapLoopT_traceOK {scale : Int} {og zfo : Bool} {spf limit : Int} {spacing : Int} {tl : Ticks} {ps : List Position}
    (hok : TicksOK spacing tl ps) :
    ∀ (fuel : Nat) (st : SwapSt) (ahead : Ticks) (steps crossed : Nat) (st' : SwapSt) (s' c' : Nat) (trs : List StepTrace),
      swapLoopT scale og zfo spf limit fuel st ahead steps crossed = some ((st', s', c'), trs) →
      MonoRun og zfo spf limit fuel st ahead →
      Agree spacing st.pool.sqrtPrice st.pool.tick → LA zfo tl ps st.pool ahead →
      TraceOK zfo tl ps st.pool.tick trs st'.pool.tick := by
  intro fuel
  induction fuel with
  | zero => intro st ahead steps crossed st' s' c' trs h; cases h
  | succ fuel ih =>
    intro st ahead steps crossed st' s' c' trs h hmono ha hla
    unfold swapLoopT at h
    unfold MonoRun at hmono
    split at h
    · rename_i hcond
      rw [if_pos hcond] at hmono
      cases hT : loopBodyT scale og zfo spf limit st ahead with
      | none => rw [hT] at h; cases h
      | some x =>
        obtain ⟨⟨st1, ahead1, c1⟩, tr⟩ := x
        rw [hT] at h
        simp only [Option.map_eq_some_iff, Prod.mk.injEq] at h
        obtain ⟨⟨r1, trs1⟩, hrec, e1, e2⟩ := h
        simp only at e1 e2
        subst e1; subst e2
        obtain ⟨hS, _, eliq, etick, ecr⟩ := loopBodyT_some hT
        have hb := loopBodyS_some hS
        rw [hb] at hmono
        simp only at hmono
        cases ahead with
        | nil => rw [loopBody_nil] at hb; cases hb
        | cons x rest =>
          obtain ⟨nt, net⟩ := x
          have hrel := loopBody_spec hb
          have hla1 := body_LA hok hrel ha hla hmono.1
          have hst := body_status hok hrel hla hla1
          have hrest := ih _ _ _ _ _ _ _ _ hrec hmono.2 (body_agree hrel ha) hla1
          refine ⟨etick, by rw [eliq]; exact hla.1, st1.pool.tick, ?_, hrest⟩
          rw [ecr]
          cases c1
          · simp only [Bool.false_eq_true, ↓reduceIte]
            exact hst.1 rfl
          · simp only [↓reduceIte, List.head?_cons, Option.map_some]
            obtain ⟨g1, g2, g3, g4⟩ := hst.2 rfl
            exact ⟨⟨net, g1⟩, g2, g3, g4⟩
    · simp only [Option.some.injEq, Prod.mk.injEq] at h
      obtain ⟨⟨h1, _, _⟩, h2⟩ := h
      subst h1; subst h2
      rfl

end OsmoVerif.CLFeesP
