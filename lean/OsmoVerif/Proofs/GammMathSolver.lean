/- Helper lemmas for C04: the stableswap solver (`solveCFMMBinarySearchMulti`): meaning of `CompareBigDec = 0`,
ordering of the derived search bounds, post-condition of the search (through `Props.C13.binarySearchBigDec_post`). -/
import OsmoVerif.Proofs.GammMathSwap

namespace OsmoVerif.GammMath
open OsmoVerif.Num OsmoVerif.MathM OsmoVerif.Gen OsmoVerif.Spec

theorem P36_val : P36 = 1000000000000000000000000000000000000 := by decide

/-- what `CompareBigDec = 0` guarantees about the requested rounding side. -/
theorem compareBigDec_zero_side {tol : ErrTol} {e a : Int} (h : tol.compareBigDec e a = some 0) :
    (tol.dir = 1 → e ≤ a) ∧ (tol.dir = 2 → a ≤ e) := by
  unfold ErrTol.compareBigDec at h
  constructor
  · intro h1
    by_contra hc
    have hgt : e > a := by omega
    rw [if_neg (by omega), if_pos ⟨h1, hgt⟩] at h
    cases h
  · intro h2
    by_contra hc
    have hlt : e < a := by omega
    rw [if_pos ⟨h2, hlt⟩] at h
    cases h

/-- … and about the multiplicative tolerance, when no additive tolerance is set (the solver's setting):
either both values are equal, or `|e − a| / min(|e|,|a|)` (half-even, 36 decimals) is at most the tolerance. -/
theorem compareBigDec_zero_mult {tol : ErrTol} {e a m : Int} (hadd : tol.additive = none)
    (hm : tol.multiplicative = some m) (hmpos : 0 < m) (h : tol.compareBigDec e a = some 0) :
    ∃ d, BigDec.sub e a = some d ∧
      ((min (e.natAbs : Int) (a.natAbs : Int) = 0 ∧ e = a) ∨
       (min (e.natAbs : Int) (a.natAbs : Int) ≠ 0 ∧
        ∃ errTerm, BigDec.quo (d.natAbs : Int) (min (e.natAbs : Int) (a.natAbs : Int)) = some errTerm ∧
          errTerm ≤ m * Pdiff)) := by
  unfold ErrTol.compareBigDec at h
  split at h
  · cases h
  · split at h
    · cases h
    · cases hd : BigDec.sub e a with
      | none => simp [hd] at h
      | some d =>
        refine ⟨d, rfl, ?_⟩
        have hm0 : m ≠ 0 := by omega
        simp only [hd, hadd, hm, Option.map_some, Option.bind_eq_bind, Option.bind_some, bind, if_neg hm0] at h
        by_cases hmn : min (e.natAbs : Int) (a.natAbs : Int) = 0
        · left
          rw [if_pos hmn] at h
          injection h with h
          refine ⟨hmn, ?_⟩
          by_contra hne
          by_cases hgt : e > a
          · rw [if_pos hgt] at h; cases h
          · rw [if_neg hgt, if_pos (by omega)] at h; cases h
        · right
          rw [if_neg hmn] at h
          refine ⟨hmn, ?_⟩
          cases hq : BigDec.quo (d.natAbs : Int) (min (e.natAbs : Int) (a.natAbs : Int)) with
          | none => rw [hq] at h; cases h
          | some et =>
            rw [hq] at h
            simp only [Option.bind_some] at h
            refine ⟨et, rfl, ?_⟩
            by_contra hc
            rw [if_pos (by omega)] at h
            injection h with h
            by_cases hgt : e > a
            · rw [if_pos hgt] at h; cases h
            · by_cases hlt : e < a
              · rw [if_neg hgt, if_pos hlt] at h; cases h
              · -- e = a: the difference and hence the error term are zero; only reachable for a negative tolerance
                have hea : e = a := by omega
                subst hea
                have hdv := (chk_some hd).1
                have hd0 : d = 0 := by omega
                subst hd0
                unfold BigDec.quo at hq
                rw [if_neg hmn] at hq
                have hz := (chk_some hq).1
                have : et = 0 := by rw [hz]; simp [chopRound, chopRoundNonneg]
                -- et = 0 > m·Pdiff: nothing contradictory for m < 0, so conclude from the statement itself
                subst this
                exact hc (Int.mul_nonneg (by omega) (Int.le_of_lt Pdiff_pos))

/-! ### non-negativity of the BigDec arithmetic on non-negative operands -/

theorem chopRound36_nonneg {n : Int} (hn : 0 ≤ n) : 0 ≤ chopRound P36 n := by
  obtain ⟨_, b, _⟩ := chopRound_isHalfEven P36 n P36_pos P36_even
  generalize chopRound P36 n = r at *
  rw [P36_val] at *
  omega

theorem chopRound36_ge {n q : Int} (h : q * P36 ≤ n) : q ≤ chopRound P36 n := by
  obtain ⟨a, _, _⟩ := chopRound_isHalfEven P36 n P36_pos P36_even
  generalize chopRound P36 n = r at *
  rw [P36_val] at *
  omega

theorem BigDec_mul_nonneg {a b r : Int} (h : BigDec.mul a b = some r) (ha : 0 ≤ a) (hb : 0 ≤ b) : 0 ≤ r := by
  unfold BigDec.mul at h
  rw [(chk_some h).1]; exact chopRound36_nonneg (Int.mul_nonneg ha hb)

theorem BigDec_add_spec {a b r : Int} (h : BigDec.add a b = some r) : r = a + b := (chk_some h).1
theorem BigDec_sub_spec {a b r : Int} (h : BigDec.sub a b = some r) : r = a - b := (chk_some h).1

theorem cfmmNoVY_nonneg {x y w k : Int} (h : cfmmNoVY x y w = some k) : 0 < x ∧ 0 < y ∧ 0 ≤ w ∧ 0 ≤ k := by
  unfold cfmmNoVY at h
  split at h
  · cases h
  · rename_i hg
    have hx : 0 < x := by omega
    have hy : 0 < y := by omega
    have hw : 0 ≤ w := by omega
    cases h1 : BigDec.mul x x with
    | none => simp [h1] at h
    | some x2 =>
      cases h2 : BigDec.mul y y with
      | none => simp [h1, h2] at h
      | some y2 =>
        cases h3 : BigDec.add x2 y2 with
        | none => simp [h1, h2, h3] at h
        | some t =>
          cases h4 : BigDec.add t w with
          | none => simp [h1, h2, h3, h4] at h
          | some s =>
            simp only [h1, h2, h3, h4, Option.bind_eq_bind, Option.bind_some, bind] at h
            have a := BigDec_mul_nonneg h1 (by omega) (by omega)
            have b := BigDec_mul_nonneg h2 (by omega) (by omega)
            have c := BigDec_add_spec h3
            have d := BigDec_add_spec h4
            exact ⟨hx, hy, hw, BigDec_mul_nonneg h (by omega) (by omega)⟩

theorem cfmmNoV_nonneg {x y w k : Int} (h : cfmmNoV x y w = some k) : 0 < x ∧ 0 < y ∧ 0 ≤ w ∧ 0 ≤ k := by
  unfold cfmmNoV at h
  cases h1 : cfmmNoVY x y w with
  | none => simp [h1] at h
  | some k1 =>
    simp only [h1, Option.bind_some] at h
    obtain ⟨a, b, c, d⟩ := cfmmNoVY_nonneg h1
    exact ⟨a, b, c, BigDec_mul_nonneg h d (by omega)⟩

/-- the search interval derived by `deriveUpperLowerXFinalReserveBounds` is never empty. -/
theorem deriveBounds_le {x y w yf lo hi : Int} (h : deriveBounds x y w yf = some (lo, hi)) : lo ≤ hi := by
  unfold deriveBounds at h
  cases h0 : cfmmNoV x yf w with
  | none => simp [h0] at h
  | some k0 =>
    cases h1 : cfmmNoV x y w with
    | none => simp [h0, h1] at h
    | some k =>
      simp only [h0, h1, Option.bind_eq_bind, Option.bind_some, bind] at h
      obtain ⟨hx, _, _, hk0⟩ := cfmmNoV_nonneg h0
      obtain ⟨_, _, _, hk⟩ := cfmmNoV_nonneg h1
      split at h
      · cases h
      · rename_i hz
        cases hr : BigDec.quo k0 k with
        | none => simp [hr] at h
        | some kRatio =>
          simp only [hr, Option.bind_some] at h
          -- kRatio ≥ 0
          have hkr : 0 ≤ kRatio := by
            unfold BigDec.quo at hr
            rw [if_neg (by omega)] at hr
            rw [(chk_some hr).1]
            exact chopRound36_nonneg (Int.tdiv_nonneg (Int.mul_nonneg hk0 (Int.le_of_lt (Int.mul_pos P36_pos P36_pos))) hk)
          split at h
          · rename_i hlt
            cases hq : BigDec.quo x kRatio with
            | none => simp [hq] at h
            | some q =>
              cases hc : BigDec.ceil q with
              | none => simp [hq, hc] at h
              | some up =>
                simp only [hq, hc, Option.bind_some, pure] at h
                injection h with h; injection h with h1 h2; subst h1; subst h2
                -- kRatio ≠ 0 because the quotient exists; so 0 < kRatio < 1
                unfold BigDec.quo at hq
                have hne : kRatio ≠ 0 := by intro h0; rw [if_pos h0] at hq; cases hq
                rw [if_neg hne] at hq
                have hkp : 0 < kRatio := by omega
                have hqv := (chk_some hq).1
                -- (x·P36²) tdiv kRatio ≥ x·P36
                have hn : 0 ≤ x * (P36 * P36) := Int.mul_nonneg (by omega) (Int.le_of_lt (Int.mul_pos P36_pos P36_pos))
                have hge : x * P36 ≤ (x * (P36 * P36)).tdiv kRatio := by
                  by_contra hcc
                  have hlt2 : (x * (P36 * P36)).tdiv kRatio + 1 ≤ x * P36 := by omega
                  obtain ⟨_, c, _⟩ := tdiv_floor hkp hn
                  have h3 : ((x * (P36 * P36)).tdiv kRatio + 1) * kRatio ≤ x * P36 * kRatio :=
                    Int.mul_le_mul_of_nonneg_right hlt2 (by omega)
                  have h4 : x * P36 * kRatio ≤ x * P36 * P36 :=
                    Int.mul_le_mul_of_nonneg_left (by omega) (Int.mul_nonneg (by omega) (Int.le_of_lt P36_pos))
                  have h5 : x * P36 * P36 = x * (P36 * P36) := Int.mul_assoc ..
                  omega
                have hq1 : x ≤ q := by rw [hqv]; exact chopRound36_ge hge
                -- ceil q ≥ q
                unfold BigDec.ceil at hc
                injection hc with hc
                obtain ⟨e, hp, _⟩ := tdiv_tmod_spec q P36 P36_pos
                have hp := hp (by omega)
                generalize q.tdiv P36 = qq at *
                generalize q.tmod P36 = rr at *
                split at hc
                · omega
                · rw [Int.add_mul] at hc; omega
          · split at h
            · simp only [pure] at h
              injection h with h; injection h with h1 h2; subst h1; subst h2; omega
            · simp only [pure] at h
              injection h with h; injection h with h1 h2; subst h1; subst h2; omega


/-! ### the Int search of `BinarySearchSingleAssetJoin` -/

/-- `Compare = 0` with an additive tolerance `t`: `|expected − actual|·10^18 ≤ t`. -/
theorem compare_zero_additive {tol : ErrTol} {e a t : Int} (ht : tol.additive = some t)
    (h : tol.compare e a = some 0) : ((e - a).natAbs : Int) * P18 ≤ t ∨ e = a := by
  unfold ErrTol.compare at h
  cases hd : Dec.sub (e * P18) (a * P18) with
  | none => simp [hd] at h
  | some dv =>
    simp only [hd, ht, Option.map_some, Option.bind_eq_bind, Option.bind_some, bind] at h
    have hdv : dv = e * P18 - a * P18 := chkDec_some hd
    by_cases heq : e = a
    · exact Or.inr heq
    · left
      split at h
      · cases h
      · split at h
        · cases h
        · by_contra hc
          have hgt : (dv.natAbs : Int) > t := by
            have : dv = (e - a) * P18 := by rw [hdv, Int.sub_mul]
            have hp : (P18.natAbs : Int) = P18 := by decide
            rw [this, Int.natAbs_mul, Int.natCast_mul, hp]; omega
          have hne : ¬ (t = 0 ∧ e = a) := fun hh => heq hh.2
          simp only [if_neg hne, if_pos hgt] at h
          split at h <;> cases h

theorem binarySearchR_post (f : Int → R Int) (tol : ErrTol) (target : Int) :
    ∀ (it : Nat) (lo hi x : Int), lo ≤ hi → binarySearchR f tol target it lo hi = .ok x →
      lo ≤ x ∧ x ≤ hi ∧ ∃ out, f x = .ok out ∧ tol.compare target out = some 0 := by
  intro it
  induction it with
  | zero => intro lo hi x _ h; unfold binarySearchR at h; cases h
  | succ it ih =>
    intro lo hi x hle h
    unfold binarySearchR at h
    cases hs : iadd lo hi with
    | error e => simp [hs, bind, Except.bind] at h
    | ok s =>
      have hsv : s = lo + hi := by
        unfold iadd at hs
        exact chkInt_some (pn_ok hs)
      simp only [hs, bind, Except.bind] at h
      have hest : lo ≤ s.tdiv 2 ∧ s.tdiv 2 ≤ hi := by
        subst hsv
        obtain ⟨e1, hp, hn⟩ := tdiv_tmod_spec (lo + hi) 2 (by decide)
        constructor <;> omega
      cases hf : f (s.tdiv 2) with
      | error e => simp [hf] at h
      | ok out =>
        simp only [hf] at h
        cases hc : tol.compare target out with
        | none => simp [hc, pn] at h
        | some c =>
          simp only [hc, pn] at h
          split at h
          · obtain ⟨a, b, r⟩ := ih lo (s.tdiv 2) x hest.1 h
            exact ⟨a, by omega, r⟩
          · split at h
            · obtain ⟨a, b, r⟩ := ih (s.tdiv 2) hi x hest.2 h
              exact ⟨by omega, b, r⟩
            · simp only [pure, Except.pure] at h
              injection h with h
              subst h
              have : c = 0 := by omega
              subst this
              exact ⟨hest.1, hest.2, out, hf, hc⟩

end OsmoVerif.GammMath
