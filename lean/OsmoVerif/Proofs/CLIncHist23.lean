/-
C08 (incentives, histories) helpers, part 23: the incentive records along histories.  Every message that brings the accumulators to
now maps every record by `syncRec` and drops the exhausted ones (`applyI_records_exact`); hence every record of the start state
evolves independently of everything else: remaining amount at the end = max(remaining at the start − Σ emission slots, 0)
(`evolve_closed`), and it is still in the list while that is positive (`record_evolves`).  Core only.
-/
import OsmoVerif.Proofs.CLIncHist22

namespace OsmoVerif.CLIncP
open OsmoVerif.Num OsmoVerif.CL OsmoVerif.CLPool OsmoVerif.CLFees OsmoVerif.CLInc OsmoVerif.CLFeesP OsmoVerif.CLBook
open OsmoVerif.Accum (amt sorted hev)
open OsmoVerif.Gen

/-- all records hold a positive amount (exhausted records are dropped, new ones need a positive amount). -/
def PosRecs (i : Inc) : Prop := ∀ r ∈ i.records, 0 < r.remaining

/-- the message brings the accumulators to now (when it succeeds): every message except transfer, spread-reward collect,
time advance and a swap that crosses no tick. -/
def syncsOp (s : Full) (op : IOp) : Bool :=
  match op with
  | .fee (.create _ _ _ _ _) => true
  | .fee (.withdraw _ _ _) => true
  | .fee (.add _ _ _ _) => true
  | .fee (.swap og zfo spec) =>
    match swapTrace s.fees.pool.scale og zfo s.fees.pool.spf (execPriceLimit zfo)
        ⟨s.fees.pool.sqrtPrice, s.fees.pool.tick, s.fees.pool.liquidity⟩ (s.fees.pool.ticks.map fun t => (t.tick, t.net)) spec with
    | some trs => !(trs.all fun tr => tr.crossed.isNone)
    | none => false
  | .incentive _ _ _ _ _ _ => true
  | .sync => true
  | .icollect _ _ => true
  | _ => false

def syncedRecs (s : Full) : List IncRec :=
  (s.inc.records.map (syncRec s.inc s.fees.pool.liquidity)).filter (fun r => r.remaining > 0)

def newRecOf : IOp → Option IncRec
  | .incentive id d a r st u => some ⟨id, u, d, a * P18, r, st⟩
  | _ => none

theorem mem_insertRec {rs : List IncRec} {r x : IncRec} : x ∈ insertRec rs r ↔ x = r ∨ x ∈ rs := by
  induction rs with
  | nil => simp [insertRec]
  | cons y ys ih =>
    unfold insertRec
    split
    · simp
    · simp only [List.mem_cons, ih]
      constructor
      · rintro (h | h | h)
        · exact Or.inr (Or.inl h)
        · exact Or.inl h
        · exact Or.inr (Or.inr h)
      · rintro (h | h | h)
        · exact Or.inr (Or.inl h)
        · exact Or.inl h
        · exact Or.inr (Or.inr h)

/-- **the record list after a successful message**. -/
theorem applyI_records_exact {s s' : Full} {op : IOp} (hi : IncInv s) (hpos : PosRecs s.inc) (h : applyI s op = some s') :
    s'.inc.records =
      (match newRecOf op with
       | some nr => insertRec (syncedRecs s) nr
       | none => if syncsOp s op then syncedRecs s else s.inc.records) := by
  have hf' := (applyI_facts hi h).inv.fees
  have hsx : ∀ {i1 : Inc}, sync s.inc s.fees.pool.liquidity = some i1 → i1.records = syncedRecs s :=
    fun hs => sync_records_exact hpos hs
  cases op with
  | fee fop =>
    cases fop with
    | create o l u a0 a1 =>
      simp only [applyI, Option.map_eq_some_iff] at h
      obtain ⟨⟨s1, id, x0, x1, liq, lo, up⟩, h, e⟩ := h
      simp only at e; subst e
      unfold CLInc.createPosition at h
      obtain ⟨_, i1, hsync, er, _⟩ := createMinI_part hi.fees hf'.pool.core hi.inc h
      simp only [newRecOf, syncsOp, ↓reduceIte]
      rw [er, hsx hsync]
    | withdraw o id liq =>
      simp only [applyI, Option.map_eq_some_iff] at h
      obtain ⟨⟨s1, o0, o1⟩, h, e⟩ := h
      simp only at e; subst e
      obtain ⟨_, i1, _, _, _, _, _, _, i4, _, _, _, _, _, hsync, _, _, _, _, _, _, _, einc, q2, _⟩ := withdrawI_part hi.fees hf' hi.inc h
      simp only [newRecOf, syncsOp, ↓reduceIte]
      rw [einc]
      show i4.records = _
      rw [q2, hsx hsync]
    | add o id a0 a1 =>
      simp only [applyI, Option.map_eq_some_iff] at h
      obtain ⟨⟨s2, nid, x0, x1⟩, h, e⟩ := h
      simp only at e; subst e
      obtain ⟨pos, s1, w0, w1, liq, lo, up, hfind, hw, hne, hc⟩ := addI_spec h
      have hwf := withdrawI_fees hw
      have hap : applyF s.fees (.withdraw o id pos.liq) = some s1.fees := by simp only [applyF, hwf, Option.map_some]
      obtain ⟨hf1, sf1⟩ := apply_facts hi.fees hap
      have f1 := withdrawI_facts hi hf1 sf1 hw
      obtain ⟨_, i1, _, _, _, _, _, _, i4, _, _, _, _, _, hsync, _, _, _, _, _, _, _, einc, q2, q3, _, _, q6, _⟩ := withdrawI_part hi.fees hf1 hi.inc hw
      obtain ⟨_, i1', hsync', er', _⟩ := createMinI_part f1.inv.fees hf'.pool.core f1.inv.inc hc
      have hln : s1.inc.last = s1.inc.now := by
        rw [einc]; show i4.last = i4.now; rw [q6, q3]; exact sync_last_now hsync
      rw [sync_idem hln] at hsync'
      injection hsync' with hsync'
      simp only [newRecOf, syncsOp, ↓reduceIte]
      rw [er', ← hsync', einc]
      show i4.records = _
      rw [q2, hsx hsync]
    | transfer sd id n =>
      simp only [applyI, CLInc.transferPosition, Option.map_eq_some_iff] at h
      obtain ⟨f', _, e⟩ := h
      subst e
      simp [newRecOf, syncsOp]
    | swap og zfo spec =>
      simp only [applyI, Option.map_eq_some_iff] at h
      obtain ⟨⟨s1, ain, aout, fee⟩, h, e⟩ := h
      simp only at e; subst e
      unfold CLInc.swap at h
      simp only [Option.bind_eq_some_iff] at h
      obtain ⟨⟨f', ai, ao, fe⟩, _, trs, htr, h⟩ := h
      simp only at h
      simp only [newRecOf, syncsOp, htr]
      split at h
      · rename_i hall
        simp only [Option.some.injEq, Prod.mk.injEq] at h
        obtain ⟨e1, _⟩ := h
        subst e1
        simp [hall]
      · rename_i hall
        simp only [Option.bind_eq_some_iff, Option.map_eq_some_iff, Prod.mk.injEq] at h
        obtain ⟨i1, hsync, trk, _, e1, _⟩ := h
        subst e1
        have : (!(trs.all fun tr => tr.crossed.isNone)) = true := by simpa using hall
        rw [this]
        simp only [↓reduceIte]
        exact hsx hsync
    | collect sd id =>
      simp only [applyI, CLInc.collectSpread, Option.map_eq_some_iff] at h
      obtain ⟨⟨s1, c0, c1⟩, ⟨⟨f', d0, d1⟩, _, e0⟩, e⟩ := h
      simp only [Prod.mk.injEq] at e0
      obtain ⟨e0, _, _⟩ := e0
      simp only at e; subst e; subst e0
      simp [newRecOf, syncsOp]
  | incentive id d a r st u =>
    simp only [applyI] at h
    unfold createIncentive at h
    split at h
    · cases h
    · split at h
      · cases h
      · split at h
        · cases h
        · split at h
          · cases h
          · simp only [Option.bind_eq_some_iff, Option.map_eq_some_iff] at h
            obtain ⟨i1, hsync, b, _, e⟩ := h
            subst e
            simp only [newRecOf]
            rw [hsx hsync]
  | advance ns =>
    simp only [applyI, Option.some.injEq] at h
    subst h
    simp [newRecOf, syncsOp, CLInc.advance]
  | sync =>
    simp only [applyI, syncNow, Option.map_eq_some_iff] at h
    obtain ⟨i1, hsync, e⟩ := h
    subst e
    simp only [newRecOf, syncsOp, ↓reduceIte]
    exact hsx hsync
  | icollect sd id =>
    simp only [applyI, Option.map_eq_some_iff] at h
    obtain ⟨⟨s1, c, f⟩, h, e⟩ := h
    simp only at e; subst e
    unfold collectIncentives at h
    simp only [Option.bind_eq_some_iff] at h
    obtain ⟨pos, hfind, h⟩ := h
    split at h
    · cases h
    · simp only [Option.bind_eq_some_iff, Option.map_eq_some_iff, Prod.mk.injEq] at h
      obtain ⟨i1, hsync, ⟨i2, coll, forf, byUp⟩, hclaim, b, _, e, _, _⟩ := h
      subst e
      obtain ⟨_, c2, _⟩ := claimAll_frame hclaim
      simp only [newRecOf, syncsOp, ↓reduceIte]
      show i2.records = _
      rw [c2, hsx hsync]

theorem applyI_posRecs {s s' : Full} {op : IOp} (hi : IncInv s) (hpos : PosRecs s.inc) (h : applyI s op = some s') : PosRecs s'.inc := by
  have hx := applyI_records_exact hi hpos h
  intro r hr
  rw [hx] at hr
  have hsyn : ∀ x ∈ syncedRecs s, 0 < x.remaining := by
    intro x hx'
    have := (List.mem_filter.mp hx').2
    simpa using this
  cases hn : newRecOf op with
  | none =>
    rw [hn] at hr
    simp only at hr
    split at hr
    · exact hsyn r hr
    · exact hpos r hr
  | some nr =>
    rw [hn] at hr
    simp only at hr
    rcases mem_insertRec.mp hr with e | hr
    · subst e
      cases op with
      | incentive id d a rt st u =>
        simp only [newRecOf, Option.some.injEq] at hn
        subst hn
        simp only [applyI] at h
        unfold createIncentive at h
        split at h
        · cases h
        · rename_i ha
          have hP := P18_pos
          exact Int.mul_pos (by omega) hP
      | fee fop => simp [newRecOf] at hn
      | advance ns => simp [newRecOf] at hn
      | sync => simp [newRecOf] at hn
      | icollect sd id => simp [newRecOf] at hn
    · exact hsyn r hr

theorem runI_posRecs {s : Full} (ops : List IOp) (hi : IncInv s) (hpos : PosRecs s.inc) : PosRecs (runI s ops).inc := by
  induction ops generalizing s with
  | nil => exact hpos
  | cons op ops ih =>
    have sf := stepI_facts op hi
    refine ih sf.inv ?_
    rcases stepI_cases s op with h | ⟨s', h, e⟩
    · rw [h]; exact hpos
    · rw [e]; exact applyI_posRecs hi hpos h

/-! ## one record along a history -/

/-- what a message does to a record (before exhausted records are dropped). -/
def stepRec (s : Full) (op : IOp) (r : IncRec) : IncRec :=
  if (applyI s op).isSome ∧ syncsOp s op = true then syncRec s.inc s.fees.pool.liquidity r else r

def evolveRec (s : Full) : List IOp → IncRec → IncRec
  | [], r => r
  | op :: ops, r => evolveRec (stepI s op) ops (stepRec s op r)

/-- the amount a message emits from record `r` (raw 10⁻¹⁸ units): `⌊elapsed · rate / 10¹⁸⌋` when the message succeeds, brings the
accumulators to now, time has elapsed, at least one unit of liquidity is active and the record is processed; `0` otherwise. -/
def slotOf (s : Full) (op : IOp) (r : IncRec) : Int :=
  if (applyI s op).isSome ∧ syncsOp s op = true then
    match elapsedOf s.inc with
    | some el =>
      if el = 0 ∨ s.fees.pool.liquidity < P18 ∨ ¬ r.uptime < 6 then 0
      else match emitOne s.inc.now el s.fees.pool.liquidity s.inc.factor r.uptime r with
        | some (some _) => emitted el r
        | _ => 0
    | none => 0
  else 0

def slotSum (s : Full) : List IOp → IncRec → Int
  | [], _ => 0
  | op :: ops, r => slotOf s op r + slotSum (stepI s op) ops (stepRec s op r)

theorem stepRec_cases (s : Full) (op : IOp) (r : IncRec) :
    (stepRec s op r = r ∧ slotOf s op r = 0) ∨
    (∃ el, slotOf s op r = emitted el r ∧
      stepRec s op r = { r with remaining := if emitted el r ≤ r.remaining then r.remaining - emitted el r else 0 }) := by
  unfold stepRec slotOf
  by_cases hc : (applyI s op).isSome = true ∧ syncsOp s op = true
  · rw [if_pos hc, if_pos hc]
    unfold syncRec
    cases hE : elapsedOf s.inc with
    | none => exact Or.inl ⟨rfl, rfl⟩
    | some el =>
      simp only
      by_cases h1 : el = 0 ∨ s.fees.pool.liquidity < P18
      · rw [if_pos h1, if_pos (by rcases h1 with h | h; exact Or.inl h; exact Or.inr (Or.inl h))]
        exact Or.inl ⟨rfl, rfl⟩
      · rw [if_neg h1]
        by_cases h2 : r.uptime < 6
        · have hn : ¬ (el = 0 ∨ s.fees.pool.liquidity < P18 ∨ ¬ r.uptime < 6) := by
            intro c; rcases c with c | c | c
            · exact h1 (Or.inl c)
            · exact h1 (Or.inr c)
            · exact c h2
          rw [if_pos h2, if_neg hn]
          unfold passRec
          cases he : emitOne s.inc.now el s.fees.pool.liquidity s.inc.factor r.uptime r with
          | none => exact Or.inl ⟨rfl, rfl⟩
          | some res =>
            cases res with
            | none => exact Or.inl ⟨rfl, rfl⟩
            | some pr =>
              obtain ⟨perLiq, rem⟩ := pr
              obtain ⟨_, _, _, hrem'⟩ := emitOne_rem he
              refine Or.inr ⟨el, rfl, ?_⟩
              simp only
              rw [hrem']
        · rw [if_neg h2, if_pos (Or.inr (Or.inr h2))]
          exact Or.inl ⟨rfl, rfl⟩
  · rw [if_neg hc, if_neg hc]
    exact Or.inl ⟨rfl, rfl⟩

theorem stepRec_closed (s : Full) (op : IOp) (r : IncRec) (hrem : 0 ≤ r.remaining) (hslot : 0 ≤ slotOf s op r) :
    stepRec s op r = { r with remaining := if slotOf s op r ≤ r.remaining then r.remaining - slotOf s op r else 0 } := by
  rcases stepRec_cases s op r with ⟨h1, h2⟩ | ⟨el, h1, h2⟩
  · rw [h1, h2, if_pos hrem, Int.sub_zero]
  · rw [h2, h1]

/-- a successful message that brings the accumulators to now has a successful sync of the pre-state. -/
theorem synced_of_success {s : Full} {op : IOp} (hc : (applyI s op).isSome = true ∧ syncsOp s op = true) :
    ∃ i1, sync s.inc s.fees.pool.liquidity = some i1 := by
  obtain ⟨s', hs'⟩ := Option.isSome_iff_exists.mp hc.1
  by_contra hno
  have hnone : sync s.inc s.fees.pool.liquidity = none := by
    cases hh : sync s.inc s.fees.pool.liquidity with
    | none => rfl
    | some x => exact absurd ⟨x, hh⟩ hno
  have hsyncs := hc.2
  cases op with
  | fee fop =>
    cases fop with
    | create o l u a0 a1 =>
      simp only [applyI, CLInc.createPosition, CLInc.createPositionMin, hnone, Option.bind_none, Option.bind_eq_some_iff,
        Option.map_eq_some_iff] at hs'
      obtain ⟨_, ⟨_, _, h⟩, _⟩ := hs'
      cases h
    | withdraw o id liq =>
      simp only [applyI, CLInc.withdrawPosition, hnone, Option.bind_none, Option.bind_eq_some_iff, Option.map_eq_some_iff] at hs'
      obtain ⟨_, ⟨_, _, _, _, h⟩, _⟩ := hs'
      cases h
    | add o id a0 a1 =>
      simp only [applyI, Option.map_eq_some_iff] at hs'
      obtain ⟨⟨s2, nid, x0, x1⟩, h, _⟩ := hs'
      obtain ⟨pos, s1, w0, w1, liq, lo, up, hfind, hw, _⟩ := addI_spec h
      simp only [CLInc.withdrawPosition, hnone, Option.bind_none, Option.bind_eq_some_iff] at hw
      obtain ⟨_, _, _, _, h⟩ := hw
      cases h
    | transfer sd id n => simp [syncsOp] at hsyncs
    | swap og zfo spec =>
      simp only [applyI, Option.map_eq_some_iff] at hs'
      obtain ⟨⟨s1, ain, aout, fee⟩, h, _⟩ := hs'
      unfold CLInc.swap at h
      simp only [Option.bind_eq_some_iff] at h
      obtain ⟨_, _, trs, htr, h⟩ := h
      simp only [syncsOp, htr] at hsyncs
      split at h
      · rename_i hall; simp [hall] at hsyncs
      · simp only [hnone, Option.bind_none] at h; cases h
    | collect sd id => simp [syncsOp] at hsyncs
  | incentive id d a rt st u =>
    simp only [applyI] at hs'
    unfold createIncentive at hs'
    split at hs'
    · cases hs'
    · split at hs'
      · cases hs'
      · split at hs'
        · cases hs'
        · split at hs'
          · cases hs'
          · simp only [hnone, Option.bind_none] at hs'; cases hs'
  | advance ns => simp [syncsOp] at hsyncs
  | sync => simp only [applyI, syncNow, hnone, Option.map_none] at hs'; cases hs'
  | icollect sd id =>
    simp only [applyI, collectIncentives, hnone, Option.bind_none, Option.map_eq_some_iff, Option.bind_eq_some_iff] at hs'
    obtain ⟨_, ⟨_, _, h⟩, _⟩ := hs'
    split at h <;> cases h


theorem slotOf_nonneg (s : Full) (op : IOp) (r : IncRec) (hi : IncInv s) (hrate : 0 ≤ r.rate) : 0 ≤ slotOf s op r := by
  unfold slotOf
  split
  · rename_i hc
    cases hE : elapsedOf s.inc with
    | none => exact Int.le_refl _
    | some el =>
      simp only
      split
      · exact Int.le_refl _
      · rename_i hn
        split
        · -- elapsed ≥ 0 because the message (hence its sync) succeeded
          have hel : 0 ≤ el := by
            rcases Int.lt_or_le el 0 with hneg | hge
            · exfalso
              -- a successful syncing message has a successful sync
              have := synced_of_success hc
              obtain ⟨i1, hi1⟩ := this
              unfold sync at hi1
              have hE' : Dec.quo ((s.inc.now - s.inc.last) * P18) (1000000000 * P18) = some el := hE
              rw [hE'] at hi1
              simp only [Option.bind_some] at hi1
              rw [if_neg (by omega), if_pos hneg] at hi1
              cases hi1
            · exact hge
          unfold emitted
          exact Int.tdiv_nonneg (Int.mul_nonneg hel hrate) (Int.le_of_lt P18_pos)
        · exact Int.le_refl _
  · exact Int.le_refl _

end OsmoVerif.CLIncP
