/- Early activation by the import is unobservable: filing gauges commutes with activation (`refsAdd_comm`,
`refsAdd_activate_comm`, `activate_refsAdd_up`), hence the imported chain FOLLOWS the exporting chain through every
later history (`Follow`, `run_after_import_full`).  Core only. -/
import OsmoVerif.Proofs.IncentivesGenesisRun
namespace OsmoVerif.Incentives
set_option linter.unusedSimpArgs false

theorem lt_facts {a b : Int} (h : a < b) : (a < b) = True ∧ (b < a) = False ∧ (a = b) = False ∧ (b = a) = False := by
  refine ⟨?_, ?_, ?_, ?_⟩ <;> simp <;> omega

/-- one direction of the commutation, for `k1 < k2`. -/
theorem refsAdd_comm_lt (k1 k2 : Int) (i1 i2 : Nat) (h3 : k1 < k2) : ∀ (a : Refs),
    (refsAdd a k1 i1).bind (fun b => refsAdd b k2 i2) = (refsAdd a k2 i2).bind (fun b => refsAdd b k1 i1)
  | [] => by
    obtain ⟨c1, c2, c3, c4⟩ := lt_facts h3
    simp [refsAdd, c1, c2, c3, c4]
  | (t, l) :: r => by
    have ih := refsAdd_comm_lt k1 k2 i1 i2 h3 r
    obtain ⟨c1, c2, c3, c4⟩ := lt_facts h3
    rcases Int.lt_trichotomy k1 t with h1 | h1 | h1 <;> rcases Int.lt_trichotomy k2 t with h2 | h2 | h2
    · obtain ⟨a1, a2, a3, a4⟩ := lt_facts h1
      obtain ⟨b1, b2, b3, b4⟩ := lt_facts h2
      simp [refsAdd, a1, a2, a3, a4, b1, b2, b3, b4, c1, c2, c3, c4]
    · obtain ⟨a1, a2, a3, a4⟩ := lt_facts h1
      subst h2
      simp only [refsAdd, a1, a2, a3, a4, c1, c2, c3, c4, Int.lt_irrefl, if_true, if_false, Option.bind_some]
      split <;> simp [refsAdd, a1, a2, a3, a4]
    · obtain ⟨a1, a2, a3, a4⟩ := lt_facts h1
      obtain ⟨b1, b2, b3, b4⟩ := lt_facts h2
      simp only [refsAdd, a1, a2, a3, a4, b1, b2, b3, b4, c1, c2, c3, c4, if_true, if_false, Option.bind_some]
      cases refsAdd r k2 i2 <;> simp [refsAdd, a1]
    · omega
    · omega
    · subst h1
      obtain ⟨b1, b2, b3, b4⟩ := lt_facts h2
      by_cases hm : i1 ∈ l <;> cases hB : refsAdd r k2 i2 <;>
        simp [refsAdd, hm, hB, b1, b2, b3, b4, c1, c2, c3, c4]
    · omega
    · omega
    · obtain ⟨a1, a2, a3, a4⟩ := lt_facts h1
      obtain ⟨b1, b2, b3, b4⟩ := lt_facts h2
      simp only [refsAdd, a1, a2, a3, a4, b1, b2, b3, b4, if_true, if_false]
      cases hA : refsAdd r k1 i1 with
      | none =>
        rw [hA] at ih
        cases hB : refsAdd r k2 i2 with
        | none => rfl
        | some vB =>
          rw [hB] at ih
          simp only [Option.bind_none, Option.bind_some] at ih
          simp [refsAdd, a1, a2, a3, a4, ← ih]
      | some vA =>
        rw [hA] at ih
        cases hB : refsAdd r k2 i2 with
        | none =>
          rw [hB] at ih
          simp only [Option.bind_none, Option.bind_some] at ih
          simp [refsAdd, b1, b2, b3, b4, ih]
        | some vB =>
          rw [hB] at ih
          simp only [Option.bind_some] at ih
          simp [refsAdd, a1, a2, a3, a4, b1, b2, b3, b4, ih]

/-- adding under two different keys commutes (on any store, in the `Option` monad). -/
theorem refsAdd_comm (k1 k2 : Int) (i1 i2 : Nat) (hk : k1 ≠ k2) (a : Refs) :
    (refsAdd a k1 i1).bind (fun b => refsAdd b k2 i2) = (refsAdd a k2 i2).bind (fun b => refsAdd b k1 i1) := by
  rcases Int.lt_trichotomy k1 k2 with h | h | h
  · exact refsAdd_comm_lt k1 k2 i1 i2 h a
  · exact absurd h hk
  · exact (refsAdd_comm_lt k2 k1 i2 i1 h a).symm

theorem refsAddAll_cons_bind (r : Refs) (t : Int) (j : Nat) (js : List Nat) :
    refsAddAll r t (j :: js) = (refsAdd r t j).bind (fun b => refsAddAll b t js) := by
  simp only [refsAddAll]
  cases refsAdd r t j <;> rfl

theorem refsAddAll_append_bind (t : Int) : ∀ (l1 l2 : List Nat) (r : Refs),
    refsAddAll r t (l1 ++ l2) = (refsAddAll r t l1).bind (fun b => refsAddAll b t l2)
  | [], _, _ => rfl
  | j :: js, l2, r => by
    rw [List.cons_append, refsAddAll_cons_bind, refsAddAll_cons_bind, Option.bind_assoc]
    congr 1
    funext b
    exact refsAddAll_append_bind t js l2 b

/-- adding under key `k` commutes with adding a whole key `t ≠ k`. -/
theorem refsAdd_refsAddAll_comm (k t : Int) (i : Nat) (hk : k ≠ t) : ∀ (l : List Nat) (a : Refs),
    (refsAdd a k i).bind (fun b => refsAddAll b t l) = (refsAddAll a t l).bind (fun b => refsAdd b k i)
  | [], a => by simp [refsAddAll]
  | j :: js, a => by
    have ih := refsAdd_refsAddAll_comm k t i hk js
    calc (refsAdd a k i).bind (fun b => refsAddAll b t (j :: js))
        = ((refsAdd a k i).bind (fun b => refsAdd b t j)).bind (fun c => refsAddAll c t js) := by
          rw [Option.bind_assoc]; congr 1; funext b; exact refsAddAll_cons_bind b t j js
      _ = ((refsAdd a t j).bind (fun b => refsAdd b k i)).bind (fun c => refsAddAll c t js) := by
          rw [refsAdd_comm k t i j hk a]
      _ = (refsAdd a t j).bind (fun c => (refsAddAll c t js).bind (fun b => refsAdd b k i)) := by
          rw [Option.bind_assoc]; congr 1; funext c; exact ih c
      _ = (refsAddAll a t (j :: js)).bind (fun b => refsAdd b k i) := by
          rw [refsAddAll_cons_bind, Option.bind_assoc]

theorem activate_cons (now t : Int) (l : List Nat) (R act : Refs) :
    activate now ((t, l) :: R) act =
      if t ≤ now then (refsAddAll act t l).bind (fun a1 => activate now R a1)
      else (activate now R act).map (fun ua => ((t, l) :: ua.1, ua.2)) := by
  simp only [activate]
  split
  · cases refsAddAll act t l <;> rfl
  · rfl

/-- adding to the ACTIVE store under a key that `R` does not hold commutes with activating `R`. -/
theorem refsAdd_activate_comm (now k : Int) (i : Nat) : ∀ (R a : Refs), (∀ kv ∈ R, kv.1 ≠ k) →
    (refsAdd a k i).bind (fun b => activate now R b) =
      (activate now R a).bind (fun ua => (refsAdd ua.2 k i).map (fun x => (ua.1, x)))
  | [], a, _ => by
    simp only [activate, Option.bind_some]
    cases refsAdd a k i <;> rfl
  | (t, l) :: R, a, h => by
    have ih := refsAdd_activate_comm now k i R
    have hR : ∀ kv ∈ R, kv.1 ≠ k := fun kv hkv => h kv (List.mem_cons_of_mem _ hkv)
    have hkt : k ≠ t := fun e => h (t, l) List.mem_cons_self e.symm
    by_cases ht : t ≤ now
    · simp only [activate_cons, if_pos ht]
      calc (refsAdd a k i).bind (fun b => (refsAddAll b t l).bind (fun a1 => activate now R a1))
          = ((refsAdd a k i).bind (fun b => refsAddAll b t l)).bind (fun a1 => activate now R a1) := by
            rw [Option.bind_assoc]
        _ = ((refsAddAll a t l).bind (fun b => refsAdd b k i)).bind (fun a1 => activate now R a1) := by
            rw [refsAdd_refsAddAll_comm k t i hkt l a]
        _ = (refsAddAll a t l).bind (fun c => (activate now R c).bind (fun ua => (refsAdd ua.2 k i).map (fun x => (ua.1, x)))) := by
            rw [Option.bind_assoc]; congr 1; funext c; exact ih c hR
        _ = _ := by rw [Option.bind_assoc]
    · simp only [activate_cons, if_neg ht]
      have := ih a hR
      cases hA : refsAdd a k i with
      | none =>
        rw [hA] at this
        simp only [Option.bind_none] at this ⊢
        cases hB : activate now R a with
        | none => rfl
        | some ua =>
          rw [hB] at this
          simp only [Option.bind_some] at this
          simp only [Option.map_some, Option.bind_some]
          cases hC : refsAdd ua.2 k i with
          | none => rfl
          | some x => rw [hC] at this; cases this
      | some b =>
        rw [hA] at this
        simp only [Option.bind_some] at this ⊢
        rw [this]
        cases hB : activate now R a with
        | none => rfl
        | some ua =>
          simp only [Option.bind_some, Option.map_some]
          cases refsAdd ua.2 k i <;> rfl


/-- what a new gauge (start `st`, id `id`) filed in the upcoming store becomes once `activate now` has run. -/
def addF (now st : Int) (id : Nat) (ua : Refs × Refs) : Option (Refs × Refs) :=
  if st ≤ now then (refsAdd ua.2 st id).map (fun a => (ua.1, a)) else (refsAdd ua.1 st id).map (fun u => (u, ua.2))

theorem addF_due {now st : Int} (id : Nat) (hs : st ≤ now) :
    addF now st id = fun ua => (refsAdd ua.2 st id).map (fun x => (ua.1, x)) := by
  funext ua; simp only [addF, if_pos hs]

/-- **filing a new gauge in the upcoming store commutes with activation**: activating after the gauge was filed =
filing it (in the store its start time selects) after the activation. -/
theorem activate_refsAdd_up (now st : Int) (id : Nat) : ∀ (up act : Refs), RefsWF up → id ∉ refsIds up →
    (refsAdd up st id).bind (fun up1 => activate now up1 act) = (activate now up act).bind (addF now st id)
  | [], act, _, _ => by
    simp only [refsAdd, Option.bind_some, activate_cons, activate, addF]
    by_cases hs : st ≤ now
    · simp only [if_pos hs, refsAddAll_cons_bind, refsAddAll]
      cases refsAdd act st id <;> rfl
    · simp only [if_neg hs, Option.map_some, refsAdd]
  | (t, l) :: r, act, hw, hid => by
    rw [refsIds_cons] at hid
    have hidl : id ∉ l := fun h => hid (List.mem_append_left _ h)
    have hidr : id ∉ refsIds r := fun h => hid (List.mem_append_right _ h)
    obtain ⟨hl, hlt, hr⟩ := hw
    rcases Int.lt_trichotomy st t with h1 | h1 | h1
    · -- a new smallest key
      obtain ⟨a1, a2, a3, a4⟩ := lt_facts h1
      simp only [refsAdd, a1, if_true, Option.bind_some]
      have hne : ∀ kv ∈ (t, l) :: r, kv.1 ≠ st := by
        intro kv hkv
        rcases List.mem_cons.mp hkv with e | e
        · subst e; simp only; omega
        · have := hlt kv e; omega
      by_cases hs : st ≤ now
      · rw [activate_cons now st [id], if_pos hs, refsAddAll_cons_bind, addF_due id hs,
          ← refsAdd_activate_comm now st id ((t, l) :: r) act hne]
        simp only [refsAddAll]
        cases refsAdd act st id <;> rfl
      · have hdue : ∀ kv ∈ (t, l) :: r, now < kv.1 := by
          intro kv hkv
          rcases List.mem_cons.mp hkv with e | e
          · subst e; simp only; omega
          · have := hlt kv e; omega
        rw [activate_cons now st [id], if_neg hs, activate_none_due _ _ hdue]
        simp only [Option.map_some, Option.bind_some, addF, if_neg hs, refsAdd, a1, if_true]
    · -- an existing key
      subst h1
      simp only [refsAdd, Int.lt_irrefl, if_false, if_true, if_neg hidl, Option.bind_some]
      have hne : ∀ kv ∈ r, kv.1 ≠ st := by
        intro kv hkv; have := hlt kv hkv; omega
      by_cases hs : st ≤ now
      · rw [activate_cons, if_pos hs, activate_cons, if_pos hs, refsAddAll_append_bind, Option.bind_assoc, Option.bind_assoc]
        congr 1
        funext c
        rw [addF_due id hs, ← refsAdd_activate_comm now st id r c hne]
        simp only [refsAddAll_cons_bind, refsAddAll]
        cases refsAdd c st id <;> rfl
      · have hdue : ∀ kv ∈ (st, l) :: r, now < kv.1 := by
          intro kv hkv
          rcases List.mem_cons.mp hkv with e | e
          · subst e; simp only; omega
          · have := hlt kv e; omega
        have hdue' : ∀ kv ∈ (st, l ++ [id]) :: r, now < kv.1 := by
          intro kv hkv
          rcases List.mem_cons.mp hkv with e | e
          · subst e; simp only; omega
          · have := hlt kv e; omega
        rw [activate_none_due _ _ hdue, activate_none_due _ _ hdue']
        simp only [Option.bind_some, addF, if_neg hs, refsAdd, Int.lt_irrefl, if_false, if_true, if_neg hidl, Option.map_some]
    · -- a later key: recurse
      obtain ⟨a1, a2, a3, a4⟩ := lt_facts h1
      simp only [refsAdd, a2, a4, if_false]
      have ih := activate_refsAdd_up now st id r
      by_cases ht : t ≤ now
      · have e1 : ((refsAdd r st id).map (fun r' => (t, l) :: r')).bind (fun up1 => activate now up1 act) =
            (refsAddAll act t l).bind (fun c => (refsAdd r st id).bind (fun r1 => activate now r1 c)) := by
          cases hA : refsAdd r st id with
          | none => simp only [Option.map_none, Option.bind_none]; cases refsAddAll act t l <;> rfl
          | some r1 => simp only [Option.map_some, Option.bind_some, activate_cons, if_pos ht]
        rw [e1, activate_cons, if_pos ht, Option.bind_assoc]
        congr 1
        funext c
        exact ih c hr hidr
      · have hdue : ∀ kv ∈ (t, l) :: r, now < kv.1 := by
          intro kv hkv
          rcases List.mem_cons.mp hkv with e | e
          · subst e; simp only; omega
          · have := hlt kv e; omega
        rw [activate_none_due _ _ hdue]
        have hs : ¬ st ≤ now := by omega
        simp only [Option.bind_some, addF, if_neg hs, refsAdd, a2, a4, if_false]
        cases hA : refsAdd r st id with
        | none => rfl
        | some r1 =>
          simp only [Option.map_some, Option.bind_some]
          apply activate_none_due
          intro kv hkv
          rcases List.mem_cons.mp hkv with e | e
          · subst e; simp only; omega
          · rcases refsAdd_keys hA kv e with e1 | ⟨kv0, hk0, e0⟩
            · omega
            · have := hlt kv0 hk0; omega


/-! ## the imported chain follows the exporting chain through EVERY later history -/

/-- `t` follows `s` from block time `now` on: same configuration, counters and balance; the records of `t` are
those of `s` without the gauges `D` (finished in `s`); and although the upcoming / active stores may differ (the
import activated early), EVERY activation at a block time `≥ now` produces the same two stores. -/
structure Follow (now : Int) (D : List Nat) (s t : State) : Prop where
  cfg : t.cfg = s.cfg
  last : t.lastId = s.lastId
  bal : t.balance = s.balance
  look : Look D s.gauges t.gauges
  dfin : ∀ id ∈ D, id ∈ refsIds s.finished
  tfin : ∀ id ∈ refsIds t.finished, id ∈ refsIds s.finished
  act : ∀ now', now ≤ now' → activate now' t.upcoming t.active = activate now' s.upcoming s.active
  ids : (refsIds t.upcoming ++ refsIds t.active).Perm (refsIds s.upcoming ++ refsIds s.active)
  wft : WFInv t

theorem Follow.of_drop {now : Int} {D : List Nat} {s t : State} (h : Drop D s t) (hw : WFInv t) : Follow now D s t :=
  ⟨h.cfg, h.last, h.bal, h.look, h.dfin, h.tfin, fun _ _ => by rw [h.up, h.act], by rw [h.up, h.act], hw⟩

theorem refsAdd_some_of_fresh {r : Refs} {t : Int} {id : Nat} (h : id ∉ refsIds r) : ∃ r', refsAdd r t id = some r' := by
  cases hx : refsAdd r t id with
  | none => exact absurd (refsAdd_none hx) h
  | some r' => exact ⟨r', rfl⟩

theorem create_follow {now : Int} {D : List Nat} {s t : State} (hi : Inv s) (hws : WFInv s) (h : Follow now D s t)
    (p : Bool) (dn : Denom) (du : Int) (c : Coins) (st : Int) (n : Nat) :
    OR (Follow now D) (createGauge s p dn du c st n) (createGauge t p dn du c st n) := by
  unfold createGauge
  rw [h.cfg, h.last, h.bal]
  split; · trivial
  split; · trivial
  split; · trivial
  split; · trivial
  split; · trivial
  simp only
  have hfs : s.lastId + 1 ∉ refsIds s.upcoming ++ refsIds s.active := by
    intro hm
    have := hi.refle _ (List.mem_append_left _ hm)
    omega
  have hft : s.lastId + 1 ∉ refsIds t.upcoming ++ refsIds t.active := fun hm => hfs (h.ids.mem_iff.mp hm)
  obtain ⟨us, hus⟩ := refsAdd_some_of_fresh (t := st) (fun hm => hfs (List.mem_append_left _ hm))
  obtain ⟨ut, hut⟩ := refsAdd_some_of_fresh (t := st) (fun hm => hft (List.mem_append_left _ hm))
  rw [hus, hut]
  refine ⟨rfl, rfl, rfl, ?_, h.dfin, h.tfin, ?_, ?_, ⟨refsAdd_wf h.wft.1 hut, h.wft.2⟩⟩
  · intro id
    simp only [getGauge_append_single, h.look id]
    by_cases hd : id ∈ D
    · have hle := hi.refle id (List.mem_append_right _ (h.dfin id hd))
      have : ¬ s.lastId + 1 = id := by omega
      simp [hd, this]
    · simp [hd]
  · intro now' hle
    have e1 := activate_refsAdd_up now' st (s.lastId + 1) s.upcoming s.active hws.1
      (fun hm => hfs (List.mem_append_left _ hm))
    have e2 := activate_refsAdd_up now' st (s.lastId + 1) t.upcoming t.active h.wft.1
      (fun hm => hft (List.mem_append_left _ hm))
    rw [hus, Option.bind_some] at e1
    rw [hut, Option.bind_some] at e2
    show activate now' ut t.active = activate now' us s.active
    rw [e1, e2, h.act now' hle]
  · have ps := refsAdd_perm hus
    have pt := refsAdd_perm hut
    show (refsIds ut ++ refsIds t.active).Perm (refsIds us ++ refsIds s.active)
    exact (pt.append_right _).trans (((List.Perm.cons _ h.ids)).trans (ps.append_right _).symm)

theorem add_follow {now : Int} {D : List Nat} {s t : State} (h : Follow now D s t) (id : Nat) (hid : id ∉ D) (c : Coins)
    (tm : Int) : OR (Follow now D) (addToGauge s id c tm) (addToGauge t id c tm) := by
  unfold addToGauge
  rw [h.cfg, h.look id, if_neg hid, h.bal]
  split; · trivial
  cases getGauge s.gauges id with
  | none => trivial
  | some g =>
    simp only
    split; · trivial
    split; · trivial
    exact ⟨rfl, h.last, rfl, look_setGauge h.look _, h.dfin, h.tfin, h.act, h.ids, h.wft⟩

theorem epoch_none_of_activate {s : State} {now : Int} {thr : Quotes} {locks : List Lock}
    (h : activate now s.upcoming s.active = none) : epoch s now thr locks = none := by
  unfold epoch; rw [h]

theorem epoch_follow {now : Int} {D : List Nat} {s t : State} (hi : Inv s) (hws : WFInv s) (h : Follow now D s t)
    (now' : Int) (hle : now ≤ now') (thr : Quotes) (locks : List Lock) :
    OR (fun (p q : State × Info) => Follow now D p.1 q.1 ∧ p.2 = q.2) (epoch s now' thr locks) (epoch t now' thr locks) := by
  have hact := h.act now' hle
  cases ha : activate now' s.upcoming s.active with
  | none =>
    rw [ha] at hact
    rw [epoch_none_of_activate ha, epoch_none_of_activate hact]
    trivial
  | some ua =>
    rw [ha] at hact
    have e1 := epoch_ticked hws.1 (Int.le_refl now') ha thr locks
    have e2 := epoch_ticked h.wft.1 (Int.le_refl now') hact thr locks
    have hd : Drop D (ticked s ua) (ticked t ua) :=
      ⟨h.cfg, h.last, h.bal, rfl, rfl, h.look, h.dfin, h.tfin⟩
    have := epoch_drop (Inv_ticked hi ha) hd now' thr locks
    rw [e1, e2] at this
    revert this
    cases hs : epoch s now' thr locks <;> cases ht : epoch t now' thr locks <;> intro this
    · trivial
    · exact this.elim
    · exact this.elim
    · rename_i p q
      obtain ⟨p1, p2⟩ := p
      obtain ⟨q1, q2⟩ := q
      exact ⟨Follow.of_drop this.1 (WFInv_epoch h.wft ht), this.2⟩

/-- operations an imported chain can be compared on: no top-up of a dropped gauge, epochs not before the import. -/
def Op.okAfter (now : Int) (D : List Nat) : Op → Prop
  | .add id _ _ => id ∉ D
  | .epoch now' _ _ => now ≤ now'
  | _ => True

theorem step_follow {now : Int} {D : List Nat} {s t : State} (hi : Inv s) (hws : WFInv s) (h : Follow now D s t) (o : Op)
    (ho : o.okAfter now D) : Follow now D (step s o) (step t o) ∧ outcome s o = outcome t o := by
  cases o with
  | routes r =>
    exact ⟨⟨by simp only [step, h.cfg], h.last, h.bal, h.look, h.dfin, h.tfin, h.act, h.ids, h.wft⟩, rfl⟩
  | create p dn du c st n =>
    have := create_follow hi hws h p dn du c st n
    simp only [step, outcome]
    revert this
    cases createGauge s p dn du c st n <;> cases createGauge t p dn du c st n <;> intro this
    · exact ⟨h, rfl⟩
    · exact this.elim
    · exact this.elim
    · exact ⟨this, rfl⟩
  | add id c tm =>
    have := add_follow h id ho c tm
    simp only [step, outcome]
    revert this
    cases addToGauge s id c tm <;> cases addToGauge t id c tm <;> intro this
    · exact ⟨h, rfl⟩
    · exact this.elim
    · exact this.elim
    · exact ⟨this, rfl⟩
  | epoch now' thr locks =>
    have := epoch_follow hi hws h now' ho thr locks
    simp only [step, outcome]
    revert this
    cases epoch s now' thr locks <;> cases epoch t now' thr locks <;> intro this
    · exact ⟨h, rfl⟩
    · exact this.elim
    · exact this.elim
    · exact ⟨this.1, by simp only [Option.map_some, this.2]⟩

theorem run_follow {now : Int} {D : List Nat} : ∀ (ops : List Op) {s t : State}, Inv s → WFInv s → Follow now D s t →
    (∀ o ∈ ops, o.okAfter now D) → Follow now D (run s ops) (run t ops) ∧ outcomes s ops = outcomes t ops
  | [], _, _, _, _, h, _ => ⟨h, rfl⟩
  | o :: os, s, t, hi, hws, h, ha => by
    obtain ⟨h1, h2⟩ := step_follow hi hws h o (ha o List.mem_cons_self)
    obtain ⟨h3, h4⟩ := run_follow os (Inv_step hi o) (WFInv_step hws o) h1 (fun x hx => ha x (List.mem_cons_of_mem _ hx))
    exact ⟨h3, by simp only [outcomes, h2, h4]⟩

/-- the state after export → import at `now` follows the exporting state. -/
theorem imported_follow {s t : State} {now : Int} (hi : Inv s) (hs : SInv s) (hw : WFInv s) (hc : Cov s)
    (hstarted : ∀ kv ∈ s.active, kv.1 ≤ now) (ht : exportImport now s = some t) :
    Follow now (refsIds s.finished) s t := by
  rw [exportImport_eq hi hs hw hstarted] at ht
  cases ha : activate now s.upcoming s.active with
  | none => rw [ha] at ht; cases ht
  | some ua =>
    rw [ha] at ht
    simp only [Option.map_some, Option.some.injEq] at ht
    subst ht
    have hd := imported_drop hi hc ua
    obtain ⟨u1, a1⟩ := ua
    have hwf := activate_wf hw.1 hw.2 ha
    exact ⟨rfl, rfl, rfl, hd.look, hd.dfin, hd.tfin,
      fun now' hle => activate_idem hle _ _ _ _ hw.1 ha, activate_perm ha, hwf⟩

/-- **every later history**: after export → import at `now`, ANY sequence of gauge creations, top-ups (except of
gauges that were already finished at export time), route changes and epochs (at block times `≥ now`) reports the same
on both chains, operation by operation, and the imported chain keeps following the exporting one. -/
theorem run_after_import_full {s t : State} {now : Int} (hi : Inv s) (hs : SInv s) (hw : WFInv s) (hc : Cov s)
    (hstarted : ∀ kv ∈ s.active, kv.1 ≤ now) (ht : exportImport now s = some t) (ops : List Op)
    (hok : ∀ o ∈ ops, o.okAfter now (refsIds s.finished)) :
    outcomes t ops = outcomes s ops ∧ Follow now (refsIds s.finished) (run s ops) (run t ops) := by
  obtain ⟨h1, h2⟩ := run_follow ops hi hw (imported_follow hi hs hw hc hstarted ht) hok
  exact ⟨h2.symm, h1⟩

end OsmoVerif.Incentives
