/-
Refinement: the abstract LP step of `Proofs/GammSeq.lean` is what the pool models do.
  * balancer   `balJoinNoSwap` / `balExit`  (`bal_join_refines`, `bal_exit_refines`);
  * stableswap `ssJoinNoSwap` / `ssExit`    (`ss_join_refines`, `ss_exit_refines`).
Every lemma has the form "the pool operation succeeds ⇒ the abstract operation succeeds with the same shares /
coins and the new `balLiquidity`/`ssLiquidity` and `totalShares` ARE the abstract result".  The pool models have extra
FAILURE branches only (256-bit overflow of `Int.Add`; stableswap `validatePoolLiquidity` on exit): they are
restrictions, a failed operation being a no-op in both machines.  For balancer the converse is proved too
(`Proofs/GammSeqComplete.lean`: abstract success + results within 256 bits ⇒ the pool operation succeeds).
`Proofs/GammSeqRun.lean` lifts the step lemmas to whole op sequences.
-/
import OsmoVerif.Proofs.GammSeqInv

namespace OsmoVerif.GammSeq
open OsmoVerif.GammMath OsmoVerif.Num

/-! ### generic helpers -/

theorem mapM_ok {α β : Type} (f : α → R β) : ∀ (l : List α) (l' : List β), l.mapM f = .ok l' →
    List.Forall₂ (fun a b => f a = .ok b) l l' := by
  intro l
  induction l with
  | nil => intro l' h; simp [pure, Except.pure] at h; subst h; exact .nil
  | cons a l ih =>
    intro l' h
    rw [List.mapM_cons] at h
    cases ha : f a with
    | error e => simp [ha, bind, Except.bind] at h
    | ok b =>
      cases hl : l.mapM f with
      | error e => simp [ha, hl, bind, Except.bind] at h
      | ok bs =>
        simp only [ha, hl, bind, Except.bind, pure, Except.pure] at h
        injection h with h; subst h
        exact .cons ha (ih bs hl)

theorem forall₂_map {α β : Type} {f : α → R β} {g : α → β} (hg : ∀ a b, f a = .ok b → b = g a) :
    ∀ {l : List α} {l' : List β}, List.Forall₂ (fun a b => f a = .ok b) l l' → l' = l.map g
  | _, _, .nil => rfl
  | _, _, .cons h t => by rw [List.map_cons, hg _ _ h, forall₂_map hg t]

theorem iadd_ok {a b r : Int} (h : iadd a b = .ok r) : r = a + b := chkInt_some (pn_ok h)
theorem isub_ok {a b r : Int} (h : isub a b = .ok r) : r = a - b := chkInt_some (pn_ok h)

theorem LP.join_eq {s : LP} {tin : Coins} {sh : Int} {used : List Int} (hv : validTokens s.liq tin)
    (hm : maximalExactRatioJoin s.liq s.total tin = .ok (sh, used)) :
    s.join tin = some (sh, joinedCoins tin used, ⟨addCoins s.liq (joinedCoins tin used), s.total + sh⟩) := by
  unfold LP.join
  rw [if_pos hv, hm]

theorem LP.exit_eq {s : LP} {fee sh : Int} {cs : Coins} (hsh : 0 < sh)
    (hc : calcExitPool s.liq s.total sh fee = .ok cs) :
    s.exit fee sh = some (cs, ⟨subCoins s.liq cs, s.total - sh⟩) := by
  unfold LP.exit
  rw [if_pos hsh, hc]

/-! ### balancer -/

/-- positive reserves, distinct denoms, positive share supply. -/
structure BalWF (p : BalPool) : Prop where
  pos : ∀ a ∈ p.assets, 0 < a.amount
  nodup : (p.assets.map (·.denom)).Nodup
  total_pos : 0 < p.totalShares

def balLP (p : BalPool) : LP := ⟨balLiquidity p, p.totalShares⟩

def balCoins (as : List BalAsset) : Coins := as.map fun a => (a.denom, a.amount)

theorem balLiquidity_eq {p : BalPool} (h : ∀ a ∈ p.assets, a.amount ≠ 0) : balLiquidity p = balCoins p.assets := by
  unfold balLiquidity balCoins
  generalize p.assets = as at h
  induction as with
  | nil => rfl
  | cons a as ih =>
    rw [List.filterMap_cons, List.map_cons, if_neg (h a (List.mem_cons_self ..)),
      ih fun b hb => h b (List.mem_cons_of_mem _ hb)]

theorem denoms_balCoins (as : List BalAsset) : denoms (balCoins as) = as.map (·.denom) := by
  simp [denoms, balCoins, List.map_map, Function.comp_def]

theorem BalWF.lp {p : BalPool} (h : BalWF p) : (balLP p).WF := by
  have e := balLiquidity_eq (p := p) fun a ha => by have := h.pos a ha; omega
  refine ⟨h.total_pos, ?_, ?_⟩
  · show (denoms (balLiquidity p)).Nodup
    rw [e, denoms_balCoins]; exact h.nodup
  · intro c hc
    have hc : c ∈ balLiquidity p := hc
    rw [e] at hc
    obtain ⟨a, ha, e'⟩ := List.mem_map.mp hc
    subst e'
    exact h.pos a ha

theorem balAddAmounts_ok {as as' : List BalAsset} {cs : Coins} (h : balAddAmounts as cs = .ok as') :
    as' = as.map fun a => { a with amount := a.amount + amountOf cs a.denom } := by
  unfold balAddAmounts at h
  refine forall₂_map (fun a b hab => ?_) (mapM_ok _ _ _ h)
  cases hi : iadd a.amount (amountOf cs a.denom) with
  | error e => simp [hi, bind, Except.bind] at hab
  | ok n =>
    simp only [hi, bind, Except.bind, pure, Except.pure] at hab
    injection hab with hab
    rw [← hab, iadd_ok hi]

/-- the balancer pool after a change of its balances / share supply only. -/
structure BalFrame (p p' : BalPool) : Prop where
  denoms_eq : p'.assets.map (·.denom) = p.assets.map (·.denom)
  weights_eq : p'.assets.map (·.weight) = p.assets.map (·.weight)
  totalWeight_eq : p'.totalWeight = p.totalWeight
  swapFee_eq : p'.swapFee = p.swapFee
  exitFee_eq : p'.exitFee = p.exitFee

theorem BalFrame.refl (p : BalPool) : BalFrame p p := ⟨rfl, rfl, rfl, rfl, rfl⟩

/-- `balJoinNoSwap` succeeds ⇒ the abstract join succeeds with the same shares, and the new pool's liquidity and
share supply are the abstract result. -/
theorem bal_join_refines {p p' : BalPool} {tin : Coins} {sh : Int} (hwf : BalWF p)
    (hv : validTokens (balLiquidity p) tin) (h : balJoinNoSwap p tin = .ok (sh, p')) :
    ∃ j, (balLP p).join tin = some (sh, j, balLP p') ∧ BalWF p' ∧ BalFrame p p' := by
  unfold balJoinNoSwap at h
  cases hc : balCalcJoinNoSwap p tin with
  | error e => simp [hc, bind, Except.bind] at h
  | ok r =>
    obtain ⟨s, joined⟩ := r
    simp only [hc, bind, Except.bind] at h
    cases hi : balIncrease p s joined with
    | error e => simp [hi] at h
    | ok q =>
      simp only [hi, pure, Except.pure] at h
      injection h with h; injection h with h1 h2
      subst h1; subst h2
      -- the calculation
      unfold balCalcJoinNoSwap at hc
      split at hc
      · cases hc
      · split at hc
        · cases hc
        · cases hm : maximalExactRatioJoin (balLiquidity p) p.totalShares tin with
          | error e => simp [hm, bind, Except.bind] at hc
          | ok r =>
            obtain ⟨s', used⟩ := r
            simp only [hm, bind, Except.bind] at hc
            split at hc
            · cases hc
            · injection hc with hc; injection hc with h1 h2
              subst h1; subst h2
              have hj : (balLP p).join tin = some (s', joinedCoins tin used,
                  ⟨addCoins (balLiquidity p) (joinedCoins tin used), p.totalShares + s'⟩) :=
                LP.join_eq (s := balLP p) hv hm
              have f := LP.join_facts hwf.lp hj
              -- the state change
              unfold balIncrease at hi
              split at hi
              · cases hi
              · cases ha : balAddAmounts p.assets (joinedCoins tin used) with
                | error e => simp [ha, bind, Except.bind] at hi
                | ok as' =>
                  cases ht : iadd p.totalShares s' with
                  | error e => simp [ha, ht, bind, Except.bind] at hi
                  | ok ts =>
                    simp only [ha, ht, bind, Except.bind, pure, Except.pure] at hi
                    injection hi with hi
                    subst hi
                    have eas := balAddAmounts_ok ha
                    have ets := iadd_ok ht
                    subst eas; subst ets
                    have hpos' : ∀ a ∈ p.assets, 0 < a.amount + amountOf (joinedCoins tin used) a.denom := fun a ha' => by
                      have := hwf.pos a ha'
                      have := f.used_nonneg a.denom
                      omega
                    have hwf' : BalWF { p with
                        assets := p.assets.map fun a => { a with amount := a.amount + amountOf (joinedCoins tin used) a.denom },
                        totalShares := p.totalShares + s' } := by
                      refine ⟨?_, ?_, ?_⟩
                      · intro a ha'
                        obtain ⟨a0, ha0, e⟩ := List.mem_map.mp ha'
                        subst e
                        exact hpos' a0 ha0
                      · show (List.map _ (List.map _ _)).Nodup
                        rw [List.map_map]
                        exact hwf.nodup
                      · have := hwf.total_pos; have := f.shares_nonneg
                        show 0 < p.totalShares + s'; omega
                    refine ⟨joinedCoins tin used, hj.trans ?_, hwf', ⟨?_, ?_, rfl, rfl, rfl⟩⟩
                    · congr 3
                      unfold balLP
                      congr 1
                      rw [balLiquidity_eq (fun a ha' => by have := hwf.pos a ha'; omega),
                        balLiquidity_eq (fun a ha' => by have := hwf'.pos a ha'; omega)]
                      simp [addCoins, balCoins, List.map_map, Function.comp_def]
                    · show List.map _ (List.map _ _) = _
                      rw [List.map_map]; rfl
                    · show List.map _ (List.map _ _) = _
                      rw [List.map_map]; rfl

theorem balLP_res {p : BalPool} (hwf : BalWF p) {a : BalAsset} (ha : a ∈ p.assets) :
    (balLP p).res a.denom = a.amount ∧ a.denom ∈ denoms (balLP p).liq := by
  have e := balLiquidity_eq (p := p) fun a ha => by have := hwf.pos a ha; omega
  have hm : (a.denom, a.amount) ∈ (balLP p).liq := by
    show _ ∈ balLiquidity p
    rw [e]; exact List.mem_map.mpr ⟨a, ha, rfl⟩
  exact ⟨amountOf_mem hwf.lp.nodup hm, List.mem_map.mpr ⟨_, hm, rfl⟩⟩

/-- `balExit` succeeds ⇒ the abstract exit succeeds with the same coins, and the new pool's liquidity and share
supply are the abstract result. -/
theorem bal_exit_refines {p p' : BalPool} {sh fee : Int} {cs : Coins} (hwf : BalWF p) (hfee : 0 ≤ fee ∧ fee ≤ P18)
    (hsh : 0 < sh) (h : balExit p sh fee = .ok (cs, p')) :
    (balLP p).exit fee sh = some (cs, balLP p') ∧ BalWF p' ∧ BalFrame p p' := by
  unfold balExit at h
  cases hc : balCalcExit p sh fee with
  | error e => simp [hc, bind, Except.bind] at h
  | ok cs' =>
    simp only [hc, bind, Except.bind] at h
    cases ha : balExitApply p cs' sh with
    | error e => simp [ha] at h
    | ok q =>
      simp only [ha, pure, Except.pure] at h
      injection h with h; injection h with h1 h2
      subst h1; subst h2
      have hj : (balLP p).exit fee sh = some (cs', ⟨subCoins (balLiquidity p) cs', p.totalShares - sh⟩) :=
        LP.exit_eq (s := balLP p) hsh hc
      have f := LP.exit_facts hwf.lp hfee hj
      unfold balExitApply at ha
      split at ha
      · cases ha
      · split at ha
        · cases ha
        · cases ht : isub p.totalShares sh with
          | error e => simp [ht, bind, Except.bind] at ha
          | ok ts =>
            simp only [ht, bind, Except.bind] at ha
            split at ha
            · cases ha
            · simp only [pure, Except.pure] at ha
              injection ha with ha
              subst ha
              have ets := isub_ok ht
              subst ets
              have hlt : ∀ a ∈ p.assets, 0 < a.amount - amountOf cs' a.denom := fun a ha' => by
                obtain ⟨e1, e2⟩ := balLP_res hwf ha'
                have := f.out_lt a.denom e2
                rw [e1] at this; omega
              have hmap : (p.assets.map fun a =>
                    let n := a.amount - amountOf cs' a.denom
                    if n = 0 then a else { a with amount := n }) =
                  p.assets.map fun a => { a with amount := a.amount - amountOf cs' a.denom } :=
                List.map_congr_left fun a ha' => by
                  have := hlt a ha'
                  show (if a.amount - amountOf cs' a.denom = 0 then a else _) = _
                  rw [if_neg (by omega)]
              rw [hmap]
              have hwf' : BalWF { p with
                  assets := p.assets.map fun a => { a with amount := a.amount - amountOf cs' a.denom },
                  totalShares := p.totalShares - sh } := by
                refine ⟨?_, ?_, ?_⟩
                · intro a ha'
                  obtain ⟨a0, ha0, e⟩ := List.mem_map.mp ha'
                  subst e
                  exact hlt a0 ha0
                · show (List.map _ (List.map _ _)).Nodup
                  rw [List.map_map]
                  exact hwf.nodup
                · have := f.shares_lt
                  show 0 < p.totalShares - sh
                  have : (balLP p).total = p.totalShares := rfl
                  omega
              refine ⟨hj.trans ?_, hwf', ⟨?_, ?_, rfl, rfl, rfl⟩⟩
              · congr 2
                unfold balLP
                congr 1
                rw [balLiquidity_eq (fun a ha' => by have := hwf.pos a ha'; omega),
                  balLiquidity_eq (fun a ha' => by have := hwf'.pos a ha'; omega)]
                simp [subCoins, balCoins, List.map_map, Function.comp_def]
              · show List.map _ (List.map _ _) = _
                rw [List.map_map]; rfl
              · show List.map _ (List.map _ _) = _
                rw [List.map_map]; rfl

/-! ### stableswap -/

structure SSWF (p : SSPool) : Prop where
  pos : ∀ a ∈ p.assets, 0 < a.amount
  nodup : (p.assets.map (·.denom)).Nodup
  total_pos : 0 < p.totalShares

def ssLP (p : SSPool) : LP := ⟨ssLiquidity p, p.totalShares⟩

theorem denoms_ssLiquidity (p : SSPool) : denoms (ssLiquidity p) = p.assets.map (·.denom) := by
  simp [denoms, ssLiquidity, List.map_map, Function.comp_def]

theorem SSWF.lp {p : SSPool} (h : SSWF p) : (ssLP p).WF := by
  refine ⟨h.total_pos, ?_, ?_⟩
  · show (denoms (ssLiquidity p)).Nodup
    rw [denoms_ssLiquidity]; exact h.nodup
  · intro c hc
    obtain ⟨a, ha, e'⟩ := List.mem_map.mp (show c ∈ ssLiquidity p from hc)
    subst e'
    exact h.pos a ha

theorem ssLP_res {p : SSPool} (hwf : SSWF p) {a : SSAsset} (ha : a ∈ p.assets) :
    (ssLP p).res a.denom = a.amount ∧ a.denom ∈ denoms (ssLP p).liq := by
  have hm : (a.denom, a.amount) ∈ (ssLP p).liq := List.mem_map.mpr ⟨a, ha, rfl⟩
  exact ⟨amountOf_mem hwf.lp.nodup hm, List.mem_map.mpr ⟨_, hm, rfl⟩⟩

/-- only balances and share supply change: denoms and scaling factors stay. -/
structure SSFrame (p p' : SSPool) : Prop where
  denoms_eq : p'.assets.map (·.denom) = p.assets.map (·.denom)
  sf_eq : p'.assets.map (·.sf) = p.assets.map (·.sf)

theorem SSFrame.refl (p : SSPool) : SSFrame p p := ⟨rfl, rfl⟩

theorem ssAddLiq_ok {p : SSPool} {as' : List SSAsset} {cs : Coins} (h : ssAddLiq p cs = .ok as') :
    as' = p.assets.map fun a => { a with amount := a.amount + amountOf cs a.denom } := by
  unfold ssAddLiq at h
  split at h
  · cases h
  · refine forall₂_map (fun a b hab => ?_) (mapM_ok _ _ _ h)
    cases hi : iadd a.amount (amountOf cs a.denom) with
    | error e => simp [hi, bind, Except.bind] at hab
    | ok n =>
      simp only [hi, bind, Except.bind, pure, Except.pure] at hab
      injection hab with hab
      rw [← hab, iadd_ok hi]

/-- `ssJoinNoSwap` succeeds ⇒ the abstract join succeeds with the same shares, and the new pool's liquidity and
share supply are the abstract result. -/
theorem ss_join_refines {p p' : SSPool} {tin : Coins} {sh : Int} (hwf : SSWF p)
    (hv : validTokens (ssLiquidity p) tin) (h : ssJoinNoSwap p tin = .ok (sh, p')) :
    ∃ j, (ssLP p).join tin = some (sh, j, ssLP p') ∧ SSWF p' ∧ SSFrame p p' := by
  unfold ssJoinNoSwap at h
  cases hc : ssCalcJoinNoSwap p tin with
  | error e => simp [hc, bind, Except.bind] at h
  | ok r =>
    obtain ⟨s, joined⟩ := r
    simp only [hc, bind, Except.bind] at h
    cases hi : ssUpdateForJoin p joined s with
    | error e => simp [hi] at h
    | ok q =>
      simp only [hi, pure, Except.pure] at h
      injection h with h; injection h with h1 h2
      subst h1; subst h2
      unfold ssCalcJoinNoSwap at hc
      split at hc
      · cases hc
      · cases hm : maximalExactRatioJoin (ssLiquidity p) p.totalShares tin with
        | error e => simp [hm, bind, Except.bind] at hc
        | ok r =>
          obtain ⟨s', used⟩ := r
          simp only [hm, bind, Except.bind] at hc
          split at hc
          · cases hc
          · injection hc with hc; injection hc with h1 h2
            subst h1; subst h2
            have hj : (ssLP p).join tin = some (s', joinedCoins tin used,
                ⟨addCoins (ssLiquidity p) (joinedCoins tin used), p.totalShares + s'⟩) :=
              LP.join_eq (s := ssLP p) hv hm
            have f := LP.join_facts hwf.lp hj
            unfold ssUpdateForJoin at hi
            cases ha : ssAddLiq p (joinedCoins tin used) with
            | error e => simp [ha, bind, Except.bind] at hi
            | ok as' =>
              cases ht : iadd p.totalShares s' with
              | error e => simp [ha, ht, bind, Except.bind] at hi
              | ok ts =>
                simp only [ha, ht, bind, Except.bind, pure, Except.pure] at hi
                injection hi with hi
                subst hi
                have eas := ssAddLiq_ok ha
                have ets := iadd_ok ht
                subst eas; subst ets
                have hwf' : SSWF ⟨p.assets.map fun a => { a with amount := a.amount + amountOf (joinedCoins tin used) a.denom },
                    p.totalShares + s'⟩ := by
                  refine ⟨?_, ?_, ?_⟩
                  · intro a ha'
                    obtain ⟨a0, ha0, e⟩ := List.mem_map.mp ha'
                    subst e
                    have := hwf.pos a0 ha0
                    have := f.used_nonneg a0.denom
                    show 0 < a0.amount + _; omega
                  · show (List.map _ (List.map _ _)).Nodup
                    rw [List.map_map]
                    exact hwf.nodup
                  · have := hwf.total_pos; have := f.shares_nonneg
                    show 0 < p.totalShares + s'; omega
                refine ⟨joinedCoins tin used, hj.trans ?_, hwf', ⟨?_, ?_⟩⟩
                · congr 3
                  unfold ssLP
                  congr 1
                  simp [addCoins, ssLiquidity, List.map_map, Function.comp_def]
                · show List.map _ (List.map _ _) = _
                  rw [List.map_map]; rfl
                · show List.map _ (List.map _ _) = _
                  rw [List.map_map]; rfl

/-- `ssExit` succeeds ⇒ the abstract exit succeeds with the same coins, and the new pool's liquidity and share
supply are the abstract result.  (`ssExit` has the extra failure branch `validatePoolLiquidity`: a restriction.) -/
theorem ss_exit_refines {p p' : SSPool} {sh fee : Int} {cs : Coins} (hwf : SSWF p) (hfee : 0 ≤ fee ∧ fee ≤ P18)
    (hsh : 0 < sh) (h : ssExit p sh fee = .ok (cs, p')) :
    (ssLP p).exit fee sh = some (cs, ssLP p') ∧ SSWF p' ∧ SSFrame p p' := by
  unfold ssExit at h
  cases hc : ssCalcExit p sh fee with
  | error e => simp [hc, bind, Except.bind] at h
  | ok cs' =>
    simp only [hc, bind, Except.bind] at h
    have hj : (ssLP p).exit fee sh = some (cs', ⟨subCoins (ssLiquidity p) cs', p.totalShares - sh⟩) :=
      LP.exit_eq (s := ssLP p) hsh hc
    have f := LP.exit_facts hwf.lp hfee hj
    have hlt : ∀ a ∈ p.assets, 0 < a.amount - amountOf cs' a.denom := fun a ha' => by
      obtain ⟨e1, e2⟩ := ssLP_res hwf ha'
      have := f.out_lt a.denom e2
      rw [e1] at this; omega
    have hfilter : p.assets.filter (fun a => a.amount - amountOf cs' a.denom ≠ 0) = p.assets :=
      List.filter_eq_self.mpr fun a ha' => by
        have := hlt a ha'
        exact decide_eq_true (by omega)
    rw [hfilter] at h
    split at h
    · cases h
    · split at h
      · cases h
      · cases hv : validLiquidity (p.assets.map fun a => { a with amount := a.amount - amountOf cs' a.denom }) with
        | error e => simp [hv] at h
        | ok u =>
          simp only [hv] at h
          cases ht : isub p.totalShares sh with
          | error e => simp [ht] at h
          | ok ts =>
            simp only [ht, pure, Except.pure] at h
            injection h with h; injection h with h1 h2
            subst h1; subst h2
            have ets := isub_ok ht
            subst ets
            have hwf' : SSWF ⟨p.assets.map fun a => { a with amount := a.amount - amountOf cs' a.denom },
                p.totalShares - sh⟩ := by
              refine ⟨?_, ?_, ?_⟩
              · intro a ha'
                obtain ⟨a0, ha0, e⟩ := List.mem_map.mp ha'
                subst e
                exact hlt a0 ha0
              · show (List.map _ (List.map _ _)).Nodup
                rw [List.map_map]
                exact hwf.nodup
              · have := f.shares_lt
                show 0 < p.totalShares - sh
                have : (ssLP p).total = p.totalShares := rfl
                omega
            refine ⟨hj.trans ?_, hwf', ⟨?_, ?_⟩⟩
            · congr 2
              unfold ssLP
              congr 1
              simp [subCoins, ssLiquidity, List.map_map, Function.comp_def]
            · show List.map _ (List.map _ _) = _
              rw [List.map_map]; rfl
            · show List.map _ (List.map _ _) = _
              rw [List.map_map]; rfl

end OsmoVerif.GammSeq
