/-
Shape invariant of the gauge reference stores of `Model/Incentives.lean` (what a KV store guarantees for free and
the list model has to prove): keys strictly ascending, no key with an empty id list — `RefsWF` — for every
reachable state; and the rebuild lemma: re-adding the entries of a well-formed store in store order reproduces it.
Core only.
-/
import OsmoVerif.Proofs.IncentivesEpoch
import OsmoVerif.Model.IncentivesGenesis
namespace OsmoVerif.Incentives

def RefsWF : Refs → Prop
  | [] => True
  | (t, l) :: r => l ≠ [] ∧ (∀ kv ∈ r, t < kv.1) ∧ RefsWF r

theorem refsAdd_keys {r r' : Refs} {t : Int} {id : Nat} (h : refsAdd r t id = some r') :
    ∀ kv ∈ r', kv.1 = t ∨ ∃ kv0 ∈ r, kv0.1 = kv.1 := by
  induction r generalizing r' with
  | nil =>
    simp only [refsAdd, Option.some.injEq] at h
    subst h
    intro kv hkv
    simp only [List.mem_singleton] at hkv
    subst hkv
    exact Or.inl rfl
  | cons hd r ih =>
    obtain ⟨t', l⟩ := hd
    simp only [refsAdd] at h
    intro kv hkv
    split at h
    · simp only [Option.some.injEq] at h
      subst h
      rcases List.mem_cons.mp hkv with e | e
      · subst e; exact Or.inl rfl
      · exact Or.inr ⟨kv, e, rfl⟩
    · split at h
      · split at h
        · cases h
        · simp only [Option.some.injEq] at h
          subst h
          rcases List.mem_cons.mp hkv with e | e
          · subst e; rename_i htt _; exact Or.inl htt.symm
          · exact Or.inr ⟨kv, List.mem_cons_of_mem _ e, rfl⟩
      · cases ha : refsAdd r t id with
        | none => rw [ha] at h; cases h
        | some r1 =>
          rw [ha] at h
          simp only [Option.map_some, Option.some.injEq] at h
          subst h
          rcases List.mem_cons.mp hkv with e | e
          · subst e; exact Or.inr ⟨(t', l), List.mem_cons_self, rfl⟩
          · rcases ih ha kv e with e1 | ⟨kv0, hk0, e0⟩
            · exact Or.inl e1
            · exact Or.inr ⟨kv0, List.mem_cons_of_mem _ hk0, e0⟩

theorem refsAdd_wf {r r' : Refs} {t : Int} {id : Nat} (hw : RefsWF r) (h : refsAdd r t id = some r') : RefsWF r' := by
  induction r generalizing r' with
  | nil =>
    simp only [refsAdd, Option.some.injEq] at h
    subst h
    exact ⟨by simp, by simp, trivial⟩
  | cons hd r ih =>
    obtain ⟨t', l⟩ := hd
    obtain ⟨hl, hlt, hr⟩ := hw
    simp only [refsAdd] at h
    split at h
    · rename_i htt
      simp only [Option.some.injEq] at h
      subst h
      refine ⟨by simp, ?_, hl, hlt, hr⟩
      intro kv hkv
      rcases List.mem_cons.mp hkv with e | e
      · subst e; exact htt
      · exact Int.lt_trans htt (hlt kv e)
    · split at h
      · split at h
        · cases h
        · simp only [Option.some.injEq] at h
          subst h
          exact ⟨by simp, hlt, hr⟩
      · rename_i h1 h2
        cases ha : refsAdd r t id with
        | none => rw [ha] at h; cases h
        | some r1 =>
          rw [ha] at h
          simp only [Option.map_some, Option.some.injEq] at h
          subst h
          refine ⟨hl, ?_, ih hr ha⟩
          intro kv hkv
          rcases refsAdd_keys ha kv hkv with e | ⟨kv0, hk0, e0⟩
          · rw [e]; omega
          · rw [← e0]; exact hlt kv0 hk0

theorem refsAddAll_wf {r r' : Refs} {t : Int} {ids : List Nat} (hw : RefsWF r) (h : refsAddAll r t ids = some r') :
    RefsWF r' := by
  induction ids generalizing r with
  | nil => simp only [refsAddAll, Option.some.injEq] at h; subst h; exact hw
  | cons i is ih =>
    simp only [refsAddAll] at h
    cases ha : refsAdd r t i with
    | none => rw [ha] at h; cases h
    | some r1 => rw [ha] at h; exact ih (refsAdd_wf hw ha) h

theorem refsDel_keys {r r' : Refs} {t : Int} {id : Nat} (h : refsDel r t id = some r') :
    ∀ kv ∈ r', ∃ kv0 ∈ r, kv0.1 = kv.1 := by
  induction r generalizing r' with
  | nil => simp only [refsDel] at h; cases h
  | cons hd r ih =>
    obtain ⟨t', l⟩ := hd
    simp only [refsDel] at h
    intro kv hkv
    split at h
    · cases hs : swapRemove l id with
      | none => rw [hs] at h; cases h
      | some l' =>
        rw [hs] at h
        simp only [Option.map_some, Option.some.injEq] at h
        split at h
        · subst h; exact ⟨kv, List.mem_cons_of_mem _ hkv, rfl⟩
        · subst h
          rcases List.mem_cons.mp hkv with e | e
          · subst e; exact ⟨(t', l), List.mem_cons_self, rfl⟩
          · exact ⟨kv, List.mem_cons_of_mem _ e, rfl⟩
    · cases ha : refsDel r t id with
      | none => rw [ha] at h; cases h
      | some r1 =>
        rw [ha] at h
        simp only [Option.map_some, Option.some.injEq] at h
        subst h
        rcases List.mem_cons.mp hkv with e | e
        · subst e; exact ⟨(t', l), List.mem_cons_self, rfl⟩
        · obtain ⟨kv0, hk0, e0⟩ := ih ha kv e
          exact ⟨kv0, List.mem_cons_of_mem _ hk0, e0⟩

theorem refsDel_wf {r r' : Refs} {t : Int} {id : Nat} (hw : RefsWF r) (h : refsDel r t id = some r') : RefsWF r' := by
  induction r generalizing r' with
  | nil => simp only [refsDel] at h; cases h
  | cons hd r ih =>
    obtain ⟨t', l⟩ := hd
    obtain ⟨hl, hlt, hr⟩ := hw
    simp only [refsDel] at h
    split at h
    · cases hs : swapRemove l id with
      | none => rw [hs] at h; cases h
      | some l' =>
        rw [hs] at h
        simp only [Option.map_some, Option.some.injEq] at h
        split at h
        · subst h; exact hr
        · rename_i hne
          subst h
          refine ⟨?_, hlt, hr⟩
          intro e; rw [e] at hne; exact hne rfl
    · cases ha : refsDel r t id with
      | none => rw [ha] at h; cases h
      | some r1 =>
        rw [ha] at h
        simp only [Option.map_some, Option.some.injEq] at h
        subst h
        refine ⟨hl, ?_, ih hr ha⟩
        intro kv hkv
        obtain ⟨kv0, hk0, e0⟩ := refsDel_keys ha kv hkv
        rw [← e0]; exact hlt kv0 hk0

theorem RefsWF_filter (p : Int × List Nat → Bool) {r : Refs} (hw : RefsWF r) : RefsWF (r.filter p) := by
  induction r with
  | nil => exact trivial
  | cons hd r ih =>
    obtain ⟨t, l⟩ := hd
    obtain ⟨hl, hlt, hr⟩ := hw
    simp only [List.filter_cons]
    split
    · exact ⟨hl, fun kv hkv => hlt kv (List.mem_filter.mp hkv).1, ih hr⟩
    · exact ih hr

theorem activate_wf {now : Int} {up act up' act' : Refs} (hu : RefsWF up) (ha : RefsWF act)
    (h : activate now up act = some (up', act')) : RefsWF up' ∧ RefsWF act' := by
  refine ⟨by rw [activate_upcoming h]; exact RefsWF_filter _ hu, ?_⟩
  induction up generalizing act up' act' with
  | nil => simp only [activate, Option.some.injEq, Prod.mk.injEq] at h; rw [← h.2]; exact ha
  | cons hd r ih =>
    obtain ⟨t, l⟩ := hd
    simp only [activate] at h
    split at h
    · cases hx : refsAddAll act t l with
      | none => rw [hx] at h; cases h
      | some a1 => rw [hx] at h; exact ih hu.2.2 (refsAddAll_wf ha hx) h
    · cases hx : activate now r act with
      | none => rw [hx] at h; cases h
      | some ua =>
        rw [hx] at h
        simp only [Option.map_some, Option.some.injEq, Prod.mk.injEq] at h
        rw [← h.2]
        exact ih hu.2.2 ha hx

theorem finishLoop_wf {store snap : List Gauge} {act fin act' fin' : Refs} (ha : RefsWF act)
    (h : finishLoop store snap act fin = some (act', fin')) : RefsWF act' := by
  induction snap generalizing act fin with
  | nil => simp only [finishLoop, Option.some.injEq, Prod.mk.injEq] at h; rw [← h.1]; exact ha
  | cons g gs ih =>
    simp only [finishLoop] at h
    split at h
    · cases hu : getGauge store g.id with
      | none => rw [hu] at h; cases h
      | some u =>
        rw [hu] at h
        simp only at h
        split at h
        · exact ih ha h
        · cases hd : refsDel act u.start u.id with
          | none => rw [hd] at h; cases h
          | some a1 =>
            rw [hd] at h
            cases hx : refsAdd fin u.start u.id with
            | none => rw [hx] at h; cases h
            | some f1 => rw [hx] at h; exact ih (refsDel_wf ha hd) h
    · exact ih ha h

/-- both live reference stores are well formed. -/
def WFInv (s : State) : Prop := RefsWF s.upcoming ∧ RefsWF s.active

theorem WFInv_init (cfg : Cfg) (bal : Coins) : WFInv (init cfg bal) := ⟨trivial, trivial⟩

theorem WFInv_create {s s' : State} {p : Bool} {dn : Denom} {du : Int} {c : Coins} {st : Int} {n : Nat}
    (h : WFInv s) (hc : createGauge s p dn du c st n = some s') : WFInv s' := by
  unfold createGauge at hc
  split at hc; · cases hc
  split at hc; · cases hc
  split at hc; · cases hc
  split at hc; · cases hc
  split at hc; · cases hc
  simp only at hc
  cases ha : refsAdd s.upcoming st (s.lastId + 1) with
  | none => rw [ha] at hc; cases hc
  | some up =>
    rw [ha] at hc
    simp only [Option.some.injEq] at hc
    subst hc
    exact ⟨refsAdd_wf h.1 ha, h.2⟩

theorem WFInv_add {s s' : State} {id : Nat} {c : Coins} {now : Int} (h : WFInv s) (hc : addToGauge s id c now = some s') :
    WFInv s' := by
  unfold addToGauge at hc
  split at hc; · cases hc
  cases hg : getGauge s.gauges id with
  | none => rw [hg] at hc; cases hc
  | some g =>
    rw [hg] at hc
    simp only at hc
    split at hc; · cases hc
    split at hc; · cases hc
    simp only [Option.some.injEq] at hc
    subst hc
    exact h

theorem WFInv_epoch {s s' : State} {now : Int} {thr : Quotes} {locks : List Lock} {info : Info} (h : WFInv s)
    (hc : epoch s now thr locks = some (s', info)) : WFInv s' := by
  unfold epoch at hc
  cases hact : activate now s.upcoming s.active with
  | none => rw [hact] at hc; cases hc
  | some ua =>
    obtain ⟨up, act⟩ := ua
    rw [hact] at hc
    simp only at hc
    cases hsn : snapshot s.gauges (refsIds act) with
    | none => rw [hsn] at hc; cases hc
    | some snap =>
      rw [hsn] at hc
      simp only at hc
      cases hd : distributeLoop ⟨thr, []⟩ locks snap s.gauges [] with
      | none => rw [hd] at hc; cases hc
      | some si =>
        obtain ⟨store, inf⟩ := si
        rw [hd] at hc
        simp only at hc
        cases hb : subCoins s.balance (infoTotal inf) with
        | none => rw [hb] at hc; cases hc
        | some bal =>
          rw [hb] at hc
          simp only at hc
          cases hf : finishLoop store snap act s.finished with
          | none => rw [hf] at hc; cases hc
          | some af =>
            obtain ⟨act', fin⟩ := af
            rw [hf] at hc
            simp only [Option.some.injEq, Prod.mk.injEq] at hc
            rw [← hc.1]
            have := activate_wf h.1 h.2 hact
            exact ⟨this.1, finishLoop_wf this.2 hf⟩

theorem WFInv_step {s : State} (h : WFInv s) (o : Op) : WFInv (step s o) := by
  cases o with
  | routes r => exact h
  | create p dn du c st n =>
    simp only [step]
    cases hc : createGauge s p dn du c st n with
    | none => exact h
    | some s' => exact WFInv_create h hc
  | add id c now =>
    simp only [step]
    cases hc : addToGauge s id c now with
    | none => exact h
    | some s' => exact WFInv_add h hc
  | epoch now thr locks =>
    simp only [step]
    cases hc : epoch s now thr locks with
    | none => exact h
    | some p => obtain ⟨s', info⟩ := p; exact WFInv_epoch h hc

theorem WFInv_run {s : State} (h : WFInv s) (ops : List Op) : WFInv (run s ops) := by
  induction ops generalizing s with
  | nil => exact h
  | cons o os ih => exact ih (WFInv_step h o)

theorem reachable_wf {s : State} (h : Reachable s) : WFInv s := by
  obtain ⟨cfg, bal, ops, _, rfl⟩ := h
  exact WFInv_run (WFInv_init cfg bal) ops

/-! ## re-adding the entries of a store -/

/-- the (key, id) entries of a reference store in store order. -/
def pairs (r : Refs) : List (Int × Nat) := r.flatMap fun kv => kv.2.map (fun i => (kv.1, i))

/-- sequential `addGaugeRefByKey`. -/
def addPairs : Refs → List (Int × Nat) → Option Refs
  | r, [] => some r
  | r, (t, i) :: ps =>
    match refsAdd r t i with
    | none => none
    | some r1 => addPairs r1 ps

theorem addPairs_append (r : Refs) (a b : List (Int × Nat)) :
    addPairs r (a ++ b) = (addPairs r a).bind fun r1 => addPairs r1 b := by
  induction a generalizing r with
  | nil => rfl
  | cons p ps ih =>
    obtain ⟨t, i⟩ := p
    simp only [List.cons_append, addPairs]
    cases refsAdd r t i with
    | none => rfl
    | some r1 => exact ih r1

theorem addPairs_key (r : Refs) (t : Int) (l : List Nat) : addPairs r (l.map fun i => (t, i)) = refsAddAll r t l := by
  induction l generalizing r with
  | nil => rfl
  | cons i is ih =>
    simp only [List.map_cons, addPairs, refsAddAll]
    cases refsAdd r t i with
    | none => rfl
    | some r1 => exact ih r1

theorem refsAdd_new_last {acc : Refs} {t : Int} (h : ∀ kv ∈ acc, kv.1 < t) (i : Nat) :
    refsAdd acc t i = some (acc ++ [(t, [i])]) := by
  induction acc with
  | nil => rfl
  | cons hd r ih =>
    obtain ⟨t', l⟩ := hd
    have h1 : t' < t := h (t', l) List.mem_cons_self
    simp only [refsAdd, if_neg (show ¬ t < t' by omega), if_neg (show ¬ t = t' by omega),
      ih (fun kv hkv => h kv (List.mem_cons_of_mem _ hkv)), Option.map_some, List.cons_append]

theorem refsAdd_same_last {acc : Refs} {t : Int} (h : ∀ kv ∈ acc, kv.1 < t) (pre : List Nat) (i : Nat) (hi : i ∉ pre) :
    refsAdd (acc ++ [(t, pre)]) t i = some (acc ++ [(t, pre ++ [i])]) := by
  induction acc with
  | nil => simp only [List.nil_append, refsAdd, Int.lt_irrefl, if_false, if_true, if_neg hi]
  | cons hd r ih =>
    obtain ⟨t', l⟩ := hd
    have h1 : t' < t := h (t', l) List.mem_cons_self
    simp only [List.cons_append, refsAdd, if_neg (show ¬ t < t' by omega), if_neg (show ¬ t = t' by omega),
      ih (fun kv hkv => h kv (List.mem_cons_of_mem _ hkv)), Option.map_some]

theorem refsAddAll_same_last {acc : Refs} {t : Int} (h : ∀ kv ∈ acc, kv.1 < t) :
    ∀ (l pre : List Nat), (pre ++ l).Nodup → refsAddAll (acc ++ [(t, pre)]) t l = some (acc ++ [(t, pre ++ l)])
  | [], pre, _ => by simp [refsAddAll]
  | i :: is, pre, hn => by
    have hi : i ∉ pre := by
      intro hm
      have := (List.nodup_append.mp hn).2.2 i hm i List.mem_cons_self
      exact this rfl
    simp only [refsAddAll, refsAdd_same_last h pre i hi]
    have := refsAddAll_same_last h is (pre ++ [i]) (by simpa [List.append_assoc] using hn)
    simpa [List.append_assoc] using this

theorem refsAddAll_new_last {acc : Refs} {t : Int} (h : ∀ kv ∈ acc, kv.1 < t) {l : List Nat} (hl : l ≠ []) (hn : l.Nodup) :
    refsAddAll acc t l = some (acc ++ [(t, l)]) := by
  cases l with
  | nil => exact absurd rfl hl
  | cons i is =>
    simp only [refsAddAll, refsAdd_new_last h i]
    exact refsAddAll_same_last h is [i] hn

theorem RefsWF_append {a b : Refs} (h : RefsWF (a ++ b)) : RefsWF b ∧ ∀ x ∈ a, ∀ y ∈ b, x.1 < y.1 := by
  induction a with
  | nil => exact ⟨h, fun _ hx => absurd hx List.not_mem_nil⟩
  | cons hd r ih =>
    obtain ⟨t, l⟩ := hd
    obtain ⟨_, hlt, hr⟩ := h
    refine ⟨(ih hr).1, ?_⟩
    intro x hx y hy
    rcases List.mem_cons.mp hx with e | e
    · subst e; exact hlt y (List.mem_append_right _ hy)
    · exact (ih hr).2 x e y hy

theorem refsIds_append (a b : Refs) : refsIds (a ++ b) = refsIds a ++ refsIds b := by
  unfold refsIds; simp

/-- **rebuild**: re-adding the entries of `r` (store order) behind `acc` reproduces `acc ++ r`. -/
theorem addPairs_rebuild : ∀ (r acc : Refs), RefsWF (acc ++ r) → (refsIds r).Nodup → addPairs acc (pairs r) = some (acc ++ r)
  | [], acc, _, _ => by simp [pairs, addPairs]
  | (t, l) :: r, acc, hw, hn => by
    obtain ⟨hb, hlt⟩ := RefsWF_append hw
    obtain ⟨hl, _, _⟩ := hb
    rw [refsIds_cons] at hn
    have hn' := List.nodup_append.mp hn
    have hacc : ∀ kv ∈ acc, kv.1 < t := fun kv hkv => hlt kv hkv (t, l) List.mem_cons_self
    have : pairs ((t, l) :: r) = (l.map fun i => (t, i)) ++ pairs r := by simp [pairs]
    rw [this, addPairs_append, addPairs_key, refsAddAll_new_last hacc hl hn'.1, Option.bind_some]
    have := addPairs_rebuild r (acc ++ [(t, l)]) (by simpa [List.append_assoc] using hw) hn'.2.1
    simpa [List.append_assoc] using this

end OsmoVerif.Incentives
