/- New reachable-state invariant of Model/Superfluid.lean: no two intermediary accounts share a (denom, validator) key
(`getOrCreateAcc` is the only writer of `accs`; every other keeper function leaves the list alone).  Core only. -/
import OsmoVerif.Proofs.SuperfluidGenesis
import OsmoVerif.Proofs.SuperfluidOps2
namespace OsmoVerif.Superfluid

set_option hygiene false in
/-- close `f s … = .ok s' → s'.accs = s.accs` for a function that only does record updates. -/
macro "accs_same" : tactic =>
  `(tactic| (repeat' (split at hc)) <;> first | (cases hc; done) | (injection hc with hc; subst hc; rfl) | (injection hc with hc; injection hc with h1 h2; subst h1; rfl))

theorem accs_mint {s s' : State} {a : Int} {k : AccKey} (hc : mintAndDelegate s a k = .ok s') : s'.accs = s.accs := by
  unfold mintAndDelegate at hc; accs_same
theorem accs_burn {s s' : State} {a : Int} {k : AccKey} (hc : forceUndelegateAndBurn s a k = .ok s') : s'.accs = s.accs := by
  unfold forceUndelegateAndBurn at hc; accs_same
theorem accs_createSynth {s s' : State} {id : Nat} {kd : SKind} {k : AccKey} (hc : createSynth s id kd k = .ok s') : s'.accs = s.accs := by
  unfold createSynth at hc; accs_same
theorem accs_deleteSynth {s s' : State} {id : Nat} {kd : SKind} {k : AccKey} (hc : deleteSynth s id kd k = .ok s') : s'.accs = s.accs := by
  unfold deleteSynth at hc; accs_same
theorem accs_beginUnlock {s s' : State} {id nid : Nat} {c : Option Int} (hc : beginUnlock s id c = .ok (s', nid)) : s'.accs = s.accs := by
  unfold beginUnlock at hc; accs_same
theorem accs_unlockMatured {s s' : State} {id : Nat} (hc : unlockMatured s id = .ok s') : s'.accs = s.accs := by
  unfold unlockMatured at hc; accs_same
theorem accs_createLock {s s' : State} {o d : Nat} {a du : Int} {sg : Bool} {nid : Nat} (hc : createLock s o d a du sg = .ok (s', nid)) : s'.accs = s.accs := by
  unfold createLock at hc; accs_same

/-- no two intermediary accounts share a (denom, validator) key. -/
def AccsOK (s : State) : Prop := (s.accs.map (·.1)).Nodup

theorem accsOK_getOrCreateAcc {s : State} (h : AccsOK s) (key : AccKey) : AccsOK (getOrCreateAcc s key) := by
  unfold getOrCreateAcc
  cases hf : findAcc s.accs key with
  | some g => exact h
  | none =>
    simp only [AccsOK, List.map_append, List.map_cons, List.map_nil]
    refine List.nodup_append.mpr ⟨h, by simp, ?_⟩
    intro a ha b hb e
    simp only [List.mem_singleton] at hb
    subst hb; subst e
    exact findAcc_none_iff.mp hf ha

theorem accs_superfluidDelegate {s s' : State} {snd id val : Nat} (hc : superfluidDelegate s snd id val = .ok s') :
    ∃ key, s'.accs = (getOrCreateAcc s key).accs := by
  unfold superfluidDelegate at hc
  cases hl : s.locks id with
  | none => rw [hl] at hc; cases hc
  | some l =>
    rw [hl] at hc
    simp only at hc
    split at hc; · cases hc
    split at hc; · cases hc
    split at hc; · cases hc
    split at hc; · cases hc
    split at hc; · cases hc
    split at hc; · cases hc
    cases h1 : createSynth { getOrCreateAcc s (l.denom, val) with conns := upd (getOrCreateAcc s (l.denom, val)).conns id (some (l.denom, val)) }
        id .bonding (l.denom, val) with
    | error e => rw [h1] at hc; cases hc
    | ok s3 =>
      rw [h1] at hc
      simp only at hc
      cases h2 : osmoTokens s3 l.denom l.amount with
      | error e => rw [h2] at hc; cases hc
      | ok amt =>
        rw [h2] at hc
        simp only at hc
        split at hc; · cases hc
        exact ⟨(l.denom, val), by rw [accs_mint hc, accs_createSynth h1]⟩

theorem accs_undelegateCommon {s s' : State} {snd id : Nat} {key : AccKey} (hc : undelegateCommon s snd id = .ok (s', key)) :
    s'.accs = s.accs := by
  unfold undelegateCommon at hc
  cases hl : s.locks id with
  | none => rw [hl] at hc; cases hc
  | some l =>
    rw [hl] at hc
    simp only at hc
    split at hc; · cases hc
    split at hc; · cases hc
    cases hk : s.conns id with
    | none => rw [hk] at hc; cases hc
    | some k =>
      rw [hk] at hc
      simp only at hc
      cases h1 : deleteSynth { s with conns := upd s.conns id none } id .bonding (l.denom, k.2) with
      | error e => rw [h1] at hc; cases hc
      | ok s2 =>
        rw [h1] at hc
        simp only at hc
        cases h2 : osmoTokens s2 k.1 l.amount with
        | error e => rw [h2] at hc; cases hc
        | ok amt =>
          rw [h2] at hc
          simp only at hc
          cases h3 : forceUndelegateAndBurn s2 amt k with
          | error e => rw [h3] at hc; cases hc
          | ok s3 =>
            rw [h3] at hc
            injection hc with hc
            injection hc with e1 e2
            subst e1
            rw [accs_burn h3, accs_deleteSynth h1]

theorem accs_superfluidUndelegate {s s' : State} {snd id : Nat} (hc : superfluidUndelegate s snd id = .ok s') :
    s'.accs = s.accs := by
  unfold superfluidUndelegate at hc
  cases h1 : undelegateCommon s snd id with
  | error e => rw [h1] at hc; cases hc
  | ok p =>
    obtain ⟨s1, key⟩ := p
    rw [h1] at hc
    simp only at hc
    rw [accs_createSynth hc, accs_undelegateCommon h1]

theorem accs_unbondLock {s s' : State} {id snd nid : Nat} {c : Option Int} (hc : unbondLock s id snd c = .ok (s', nid)) :
    s'.accs = s.accs := by
  unfold unbondLock at hc
  repeat' (split at hc)
  all_goals first | (cases hc; done) | exact accs_beginUnlock hc

theorem accs_superfluidUnbondLock {s s' : State} {id snd : Nat} (hc : superfluidUnbondLock s id snd = .ok s') :
    s'.accs = s.accs := by
  unfold superfluidUnbondLock at hc
  cases h1 : unbondLock s id snd none with
  | error e => rw [h1] at hc; cases hc
  | ok p =>
    obtain ⟨s1, n⟩ := p
    rw [h1] at hc
    injection hc with hc
    subst hc
    exact accs_unbondLock h1

theorem accsOK_undelegateAndUnbond {s s' : State} {id snd nid : Nat} {a : Int} (h : AccsOK s)
    (hc : superfluidUndelegateAndUnbondLock s id snd a = .ok (s', nid)) : AccsOK s' := by
  unfold superfluidUndelegateAndUnbondLock at hc
  cases hl : s.locks id with
  | none => rw [hl] at hc; cases hc
  | some l =>
    rw [hl] at hc
    simp only at hc
    split at hc; · cases hc
    split at hc; · cases hc
    split at hc; · cases hc
    cases hk : s.conns id with
    | none => rw [hk] at hc; cases hc
    | some key =>
      rw [hk] at hc
      simp only at hc
      cases h1 : superfluidUndelegate s snd id with
      | error e => rw [h1] at hc; cases hc
      | ok s1 =>
        rw [h1] at hc
        simp only at hc
        cases h2 : unbondLock s1 id snd (some a) with
        | error e => rw [h2] at hc; cases hc
        | ok p =>
          obtain ⟨s2, n2⟩ := p
          rw [h2] at hc
          simp only at hc
          have e12 : s2.accs = s.accs := by rw [accs_unbondLock h2, accs_superfluidUndelegate h1]
          split at hc
          · split at hc
            · cases hc
            · injection hc with hc
              injection hc with e1 e2
              subst e1
              unfold AccsOK; rw [e12]; exact h
          · split at hc; · cases hc
            cases h3 : deleteSynth s2 id .unbonding (l.denom, key.2) with
            | error e => rw [h3] at hc; cases hc
            | ok s3 =>
              rw [h3] at hc
              simp only at hc
              cases h4 : superfluidDelegate s3 snd id key.2 with
              | error e => rw [h4] at hc; cases hc
              | ok s4 =>
                rw [h4] at hc
                simp only at hc
                cases h5 : createSynth s4 n2 .unbonding key with
                | error e => rw [h5] at hc; cases hc
                | ok s5 =>
                  rw [h5] at hc
                  injection hc with hc
                  injection hc with e1 e2
                  subst e1
                  obtain ⟨k4, e4⟩ := accs_superfluidDelegate h4
                  have h3ok : AccsOK s3 := by unfold AccsOK; rw [accs_deleteSynth h3, e12]; exact h
                  have := accsOK_getOrCreateAcc h3ok k4
                  unfold AccsOK at this ⊢
                  rw [accs_createSynth h5, e4]; exact this

theorem accs_increaseHook {s s' : State} {id d : Nat} {a : Int} (hc : increaseHook s id d a = .ok s') : s'.accs = s.accs := by
  unfold increaseHook at hc
  repeat' (split at hc)
  all_goals first | (cases hc; done) | (injection hc with hc; subst hc; rfl) | skip
  all_goals (rename_i h1; injection hc with hc; subst hc; exact accs_mint h1)

theorem accs_addTokensToLock {s s' : State} {snd id : Nat} {a : Int} (hc : addTokensToLock s snd id a = .ok s') :
    s'.accs = s.accs := by
  unfold addTokensToLock at hc
  cases hl : s.locks id with
  | none => rw [hl] at hc; cases hc
  | some l =>
    rw [hl] at hc
    simp only at hc
    split at hc; · cases hc
    split at hc; · cases hc
    split at hc; · cases hc
    split at hc
    · cases hc
    · rw [accs_increaseHook hc]
    · rw [accs_increaseHook hc]

theorem accs_deleteSynths : ∀ (xs : List Synth) {s s' : State} {id : Nat}, deleteSynths s id xs = .ok s' → s'.accs = s.accs
  | [], s, s', id, hc => by simp only [deleteSynths] at hc; injection hc with hc; rw [hc]
  | x :: r, s, s', id, hc => by
    simp only [deleteSynths] at hc
    cases h1 : deleteSynth s id x.kind x.key with
    | error e => rw [h1] at hc; cases hc
    | ok s1 => rw [h1] at hc; rw [accs_deleteSynths r hc, accs_deleteSynth h1]

theorem accs_sweepSynths : ∀ (n : Nat) {s s' : State}, sweepSynths s n = .ok s' → s'.accs = s.accs
  | 0, s, s', hc => by simp only [sweepSynths] at hc; injection hc with hc; rw [hc]
  | n + 1, s, s', hc => by
    simp only [sweepSynths] at hc
    cases h1 : sweepSynths s n with
    | error e => rw [h1] at hc; cases hc
    | ok s1 => rw [h1] at hc; rw [accs_deleteSynths _ hc, accs_sweepSynths n h1]

theorem accs_sweepLocks : ∀ (n : Nat) {s s' : State}, sweepLocks s n = .ok s' → s'.accs = s.accs
  | 0, s, s', hc => by simp only [sweepLocks] at hc; injection hc with hc; rw [hc]
  | n + 1, s, s', hc => by
    simp only [sweepLocks] at hc
    cases h1 : sweepLocks s n with
    | error e => rw [h1] at hc; cases hc
    | ok s1 =>
      rw [h1] at hc
      simp only at hc
      have ih := accs_sweepLocks n h1
      repeat' (split at hc)
      all_goals first | (cases hc; done) | (injection hc with hc; subst hc; exact ih) | skip
      all_goals (rename_i h2; injection hc with hc; subst hc; rw [accs_unlockMatured h2, ih])

theorem accs_endBlock {s s' : State} (hc : endBlock s = .ok s') : s'.accs = s.accs := by
  unfold endBlock at hc
  cases h1 : sweepSynths s s.lastLockId with
  | error e => rw [h1] at hc; cases hc
  | ok s1 => rw [h1] at hc; rw [accs_sweepLocks _ hc, accs_sweepSynths _ h1]

theorem accs_withdraw {s s' : State} {id : Nat} (hc : withdraw s id = .ok s') : s'.accs = s.accs := by
  unfold withdraw at hc
  cases h1 : sweepSynths s s.lastLockId with
  | error e => rw [h1] at hc; cases hc
  | ok s1 => rw [h1] at hc; rw [accs_unlockMatured hc, accs_sweepSynths _ h1]

theorem accs_updateMults : ∀ (ups : List (Nat × Int × Int × Bool)) {s s' : State} {b : Bool},
    updateMults s ups = .ok (s', b) → s'.accs = s.accs
  | [], s, s', b, hc => by simp only [updateMults] at hc; injection hc with hc; injection hc with e1 _; rw [e1]
  | (d, osmo, q, cl) :: r, s, s', b, hc => by
    simp only [updateMults] at hc
    repeat' (split at hc)
    all_goals first | (cases hc; done) | (rw [accs_updateMults r hc]) | (injection hc with hc; injection hc with e1 _; subst e1; rfl)

theorem accs_refreshOne {s s' : State} {k : AccKey} (hc : refreshOne s k = .ok s') : s'.accs = s.accs := by
  unfold refreshOne at hc
  repeat' (split at hc)
  all_goals first | (cases hc; done) | (injection hc with hc; subst hc; rfl) | skip
  all_goals (rename_i h1; injection hc with hc; subst hc; first | exact accs_mint h1 | exact accs_burn h1)

theorem accs_refreshAll : ∀ (l : List (AccKey × Nat)) {s s' : State}, refreshAll s l = .ok s' → s'.accs = s.accs
  | [], s, s', hc => by simp only [refreshAll] at hc; injection hc with hc; rw [hc]
  | (k, g) :: r, s, s', hc => by
    simp only [refreshAll] at hc
    cases h1 : refreshOne s k with
    | error e => rw [h1] at hc; cases hc
    | ok s1 => rw [h1] at hc; rw [accs_refreshAll r hc, accs_refreshOne h1]

theorem accs_epoch {s s' : State} {ups : List (Nat × Int × Int × Bool)} (hc : epoch s ups = .ok s') : s'.accs = s.accs := by
  unfold epoch at hc
  cases h1 : updateMults s ups with
  | error e => rw [h1] at hc; cases hc
  | ok p =>
    obtain ⟨s1, b⟩ := p
    rw [h1] at hc
    cases b with
    | false => simp only at hc; injection hc with hc; subst hc; exact accs_updateMults _ h1
    | true => simp only at hc; rw [accs_refreshAll _ hc, accs_updateMults _ h1]

theorem accsOK_applyOp {s s' : State} {op : Op} (h : AccsOK s) (hc : applyOp s op = .ok s') : AccsOK s' := by
  unfold applyOp at hc
  obtain ⟨p, hp, hps⟩ := map_ok hc
  subst hps
  have same : ∀ {t : State}, t.accs = s.accs → AccsOK t := fun e => by unfold AccsOK; rw [e]; exact h
  cases op with
  | lock o d a du sg =>
    obtain ⟨r, hr, hpr⟩ := map_ok (show (createLock s o d a du sg).map _ = .ok p from hp)
    subst hpr; obtain ⟨r1, r2⟩ := r; exact same (accs_createLock hr)
  | addToLock snd id a =>
    obtain ⟨r, hr, hpr⟩ := map_ok (show (addTokensToLock s snd id a).map _ = .ok p from hp)
    subst hpr; exact same (accs_addTokensToLock hr)
  | delegate snd id v =>
    obtain ⟨r, hr, hpr⟩ := map_ok (show (superfluidDelegate s snd id v).map _ = .ok p from hp)
    subst hpr
    obtain ⟨k, e⟩ := accs_superfluidDelegate hr
    have := accsOK_getOrCreateAcc h k
    unfold AccsOK at this ⊢; rw [e]; exact this
  | undelegate snd id =>
    obtain ⟨r, hr, hpr⟩ := map_ok (show (superfluidUndelegate s snd id).map _ = .ok p from hp)
    subst hpr; exact same (accs_superfluidUndelegate hr)
  | unbond snd id =>
    obtain ⟨r, hr, hpr⟩ := map_ok (show (superfluidUnbondLock s id snd).map _ = .ok p from hp)
    subst hpr; exact same (accs_superfluidUnbondLock hr)
  | undelegateAndUnbond snd id a =>
    obtain ⟨r, hr, hpr⟩ := map_ok (show (superfluidUndelegateAndUnbondLock s id snd a).map _ = .ok p from hp)
    subst hpr; obtain ⟨r1, r2⟩ := r; exact accsOK_undelegateAndUnbond h hr
  | beginUnlock snd id c =>
    obtain ⟨r, hr, hpr⟩ := map_ok (show (msgBeginUnlocking s snd id c).map _ = .ok p from hp)
    subst hpr; obtain ⟨r1, r2⟩ := r
    unfold msgBeginUnlocking at hr
    repeat' (split at hr)
    all_goals first | (cases hr; done) | exact same (accs_beginUnlock hr)
  | withdraw id =>
    obtain ⟨r, hr, hpr⟩ := map_ok (show (withdraw s id).map _ = .ok p from hp)
    subst hpr; exact same (accs_withdraw hr)
  | endBlock =>
    obtain ⟨r, hr, hpr⟩ := map_ok (show (endBlock s).map _ = .ok p from hp)
    subst hpr; exact same (accs_endBlock hr)
  | advance dt =>
    obtain ⟨r, hr, hpr⟩ := map_ok (show (advance s dt).map _ = .ok p from hp)
    subst hpr
    unfold advance at hr
    split at hr
    · cases hr
    · injection hr with hr; subst hr; exact h
  | epoch ups =>
    obtain ⟨r, hr, hpr⟩ := map_ok (show (epoch s ups).map _ = .ok p from hp)
    subst hpr; exact same (accs_epoch hr)

theorem accsOK_step {s : State} (op : Op) (h : AccsOK s) : AccsOK (step s op) := by
  unfold step
  split
  · rename_i s' hs; exact accsOK_applyOp h hs
  · exact h

theorem accsOK_run : ∀ (ops : List Op) (s : State), AccsOK s → AccsOK (run s ops)
  | [], _, h => h
  | op :: r, s, h => accsOK_run r (step s op) (accsOK_step op h)

end OsmoVerif.Superfluid
