/- Balancer single-asset join / exit: the weighted product PER SHARE (real kernels and the range of `feeRatio`). -/
import OsmoVerif.Proofs.GammRealLpAcc
import OsmoVerif.Proofs.GammRealSwapAcc

namespace OsmoVerif.GammMath
open OsmoVerif.Num OsmoVerif.MathM OsmoVerif.Gen OsmoVerif.Spec

/-- a quotient of `0 ≤ a ≤ b` is at most one (the roundings cannot push it above). -/
theorem Dec_quo_le_one {a b r : Int} (h : Dec.quo a b = some r) (ha : a ≤ b) (hb : 0 < b) : r ≤ P18 := by
  obtain ⟨_, he⟩ := Dec_quo_real_error h
  have hb' : (0 : ℝ) < b := by exact_mod_cast hb
  have ha' : (a : ℝ) ≤ b := by exact_mod_cast ha
  have h1 : (a : ℝ) / b ≤ 1 := by rw [div_le_one hb']; exact ha'
  have h2 := (abs_le.mp he).2
  unfold dv quoErr at h2
  have h3 : (r : ℝ) / 10 ^ 18 < 1 + 1 / 10 ^ 18 := by
    have : (1 / 2 + 1 / 10 ^ 18 : ℝ) / 10 ^ 18 < 1 / 10 ^ 18 := by norm_num
    linarith
  rw [div_lt_iff₀ (by positivity)] at h3
  have h4 : (r : ℝ) < ((P18 + 1 : Int) : ℝ) := by
    push_cast; rw [P18_cast]
    have : (1 + 1 / 10 ^ 18 : ℝ) * 10 ^ 18 = 10 ^ 18 + 1 := by norm_num
    linarith
  have : r < P18 + 1 := by exact_mod_cast h4
  omega

/-- `feeRatio ∈ [0, 1]` for a normalized weight and a spread factor in `[0, 1]`. -/
theorem feeRatio_range {nw spread fr : Int} (h : feeRatio nw spread = some fr) (h0 : 0 ≤ nw) (h1 : nw ≤ P18)
    (s0 : 0 ≤ spread) (s1 : spread ≤ P18) : 0 ≤ fr ∧ fr ≤ P18 := by
  rw [feeRatio_spec h]
  have a1 : 0 * P18 ≤ (P18 - nw) * spread := by rw [Int.zero_mul]; exact Int.mul_nonneg (by omega) s0
  have a2 : (P18 - nw) * spread ≤ P18 * P18 := Int.mul_le_mul (by omega) s1 s0 (Int.le_of_lt P18_pos)
  have b1 := chopRound_ge a1
  have b2 := chopRound_le a2
  omega

/-- join, real kernel: in-reserve ratio `rA ≥ b − κ`, share ratio `rS ≤ b^e + ε` ⟹
`rA^ω / rS ≥ (b − κ)^ω / (b^e + ε)`. -/
theorem per_share_lower {rA rS lo up ω : ℝ} (hlo : 0 ≤ lo) (hω : 0 ≤ ω) (h1 : lo ≤ rA) (hS : 0 < rS) (h2 : rS ≤ up) :
    lo ^ ω / up ≤ rA ^ ω / rS := by
  have hup : 0 < up := lt_of_lt_of_le hS h2
  have a1 : lo ^ ω ≤ rA ^ ω := Real.rpow_le_rpow hlo h1 hω
  have a0 : 0 ≤ lo ^ ω := Real.rpow_nonneg hlo _
  calc lo ^ ω / up ≤ lo ^ ω / rS := div_le_div_of_nonneg_left a0 hS h2
    _ ≤ rA ^ ω / rS := div_le_div_of_nonneg_right a1 hS.le

/-- single-asset join: the base used is at most the TRUE in-reserve ratio `(A + amt)/A` plus one `Quo` rounding
(the fee stays in the pool), and at least 1. -/
theorem join_base_le_ratio {A amt fr y : Int} (hy : Dec.quo (toDec A + amt * fr) (toDec A) = some y)
    (hA : 0 < A) (ha : 0 ≤ amt) (hf0 : 0 ≤ fr) (hf1 : fr ≤ P18) :
    1 ≤ dv y ∧ dv y - quoErr ≤ ((A + amt : Int) : ℝ) / (A : ℝ) := by
  have hA' : (0 : ℝ) < A := by exact_mod_cast hA
  have ha' : (0 : ℝ) ≤ amt := by exact_mod_cast ha
  constructor
  · have hb : 0 < toDec A := Int.mul_pos hA P18_pos
    have := Dec_quo_ge (q := 1) hy hb (by have := Int.mul_nonneg ha hf0; omega)
    have := dv_le this
    rwa [Int.one_mul, dv_P18] at this
  · obtain ⟨_, he⟩ := Dec_quo_dv_error hy
    rw [dv_add, dv_toDec, dv_int_mul] at he
    have hfr : dv fr ≤ 1 := by have := dv_le hf1; rwa [dv_P18] at this
    have h1 : ((A : ℝ) + (amt : ℝ) * dv fr) / A ≤ ((A + amt : Int) : ℝ) / (A : ℝ) := by
      push_cast
      apply div_le_div_of_nonneg_right _ hA'.le
      nlinarith
    have := (abs_le.mp he).2
    linarith

/-- single-asset exit: the base used is at most the TRUE reserve ratio `(A − amtOut)/A` plus
`quoErr·(1 + 1/A)` (two `Quo` roundings; the fee stays in the pool). -/
theorem exit_base_le_ratio {A o fr outFee y : Int} (hof : Dec.quo (toDec o) fr = some outFee)
    (hy : Dec.quo (toDec A - outFee) (toDec A) = some y)
    (hA : 0 < A) (ho : 0 ≤ o) (hf0 : 0 < fr) (hf1 : fr ≤ P18) :
    dv y - quoErr * (1 + 1 / (A : ℝ)) ≤ ((A - o : Int) : ℝ) / (A : ℝ) := by
  have hA' : (0 : ℝ) < A := by exact_mod_cast hA
  have ho' : (0 : ℝ) ≤ o := by exact_mod_cast ho
  obtain ⟨_, he⟩ := Dec_quo_dv_error hy
  obtain ⟨_, hf⟩ := Dec_quo_dv_error hof
  rw [dv_sub, dv_toDec] at he
  rw [dv_toDec] at hf
  have hfr0 : 0 < dv fr := dv_pos hf0
  have hfr : dv fr ≤ 1 := by have := dv_le hf1; rwa [dv_P18] at this
  have h1 : (o : ℝ) ≤ (o : ℝ) / dv fr := by rw [le_div_iff₀ hfr0]; nlinarith
  have h2 := (abs_le.mp hf).1
  have h3 := (abs_le.mp he).2
  have h4 : ((A : ℝ) - dv outFee) / A ≤ ((A : ℝ) - o + quoErr) / A :=
    div_le_div_of_nonneg_right (by linarith) hA'.le
  have e : ((A : ℝ) - o + quoErr) / A = ((A - o : Int) : ℝ) / (A : ℝ) + quoErr * (1 / (A : ℝ)) := by
    push_cast; field_simp
  rw [e] at h4
  linarith

/-- single-asset join: the share supply grows by at most the factor `x + ε` (`x ≥ 1` the real power). -/
theorem join_share_ratio {T t pw : Int} {x ε : ℝ} (ht : IsTrunc ((pw - P18) * T) P18 t) (hT : 0 < T)
    (hacc : |dv pw - x| ≤ ε) (hx : 1 ≤ x) : ((T + t : Int) : ℝ) / (T : ℝ) ≤ x + ε := by
  have hT' : (0 : ℝ) < T := by exact_mod_cast hT
  have hε : 0 ≤ ε := le_trans (abs_nonneg _) hacc
  obtain ⟨_, b2⟩ := trunc_of_pow_accuracy ht hT.le hacc
  rw [div_le_iff₀ hT']
  push_cast
  have : max ((T : ℝ) * (x + ε - 1)) 0 ≤ (T : ℝ) * (x + ε - 1) := by
    apply max_le le_rfl
    exact mul_nonneg hT'.le (by linarith)
  nlinarith

/-- single-asset exit: the share supply shrinks at least to the factor `x + ε + (1 + quoErr)/S`
(`1/S`: the truncated share; `quoErr/S`: the half-even quotient by `1 − exitFee`). -/
theorem exit_share_ratio {S s pw x' : Int} {x ε d : ℝ} (hs : s = ⌊dv x'⌋)
    (hx : |dv x' - (1 - dv pw) * (S : ℝ) / d| ≤ quoErr) (hS : 0 < S) (hd : 0 < d) (hd1 : d ≤ 1) (hs0 : 0 < s)
    (hacc : |dv pw - x| ≤ ε) :
    ((S - s : Int) : ℝ) / (S : ℝ) ≤ x + ε + (1 + quoErr) / (S : ℝ) := by
  have hS' : (0 : ℝ) < S := by exact_mod_cast hS
  have hs0' : (0 : ℝ) < s := by exact_mod_cast hs0
  have a2 := (abs_le.mp hacc).2
  have hq := quoErr_pos
  have key : ((S - s : Int) : ℝ) ≤ (S : ℝ) * dv pw + quoErr + 1 := by
    push_cast
    rcases le_total (dv pw) 1 with h1 | h1
    · have f2 := Int.lt_floor_add_one (dv x')
      rw [← hs] at f2
      have b1 := (abs_le.mp hx).1
      have h2 : (1 - dv pw) * (S : ℝ) ≤ (1 - dv pw) * (S : ℝ) / d := by
        rw [le_div_iff₀ hd]
        have : 0 ≤ (1 - dv pw) * (S : ℝ) := mul_nonneg (by linarith) hS'.le
        nlinarith
      nlinarith
    · nlinarith
  rw [div_le_iff₀ hS']
  have e : (x + ε + (1 + quoErr) / (S : ℝ)) * (S : ℝ) = (S : ℝ) * (x + ε) + quoErr + 1 := by field_simp; ring
  rw [e]
  nlinarith

/-! ### `IncreaseLiquidity` and the single-asset `JoinPool` -/

set_option linter.unusedSimpArgs false in
theorem balAddAmounts_cons (b : BalAsset) (bs : List BalAsset) (cs : Coins) :
    balAddAmounts (b :: bs) cs =
      (iadd b.amount (amountOf cs b.denom)).bind fun n =>
        (balAddAmounts bs cs).bind fun bs' => .ok ({ b with amount := n } :: bs') := by
  unfold balAddAmounts
  rw [List.mapM_cons]
  cases iadd b.amount (amountOf cs b.denom) <;> rfl

set_option linter.unusedSimpArgs false in
theorem balAddAmounts_spec (cs : Coins) : ∀ (as as' : List BalAsset), balAddAmounts as cs = .ok as' →
    ∀ d a, findAsset as d = some a → findAsset as' d = some { a with amount := a.amount + amountOf cs d } := by
  intro as
  induction as with
  | nil => intro as' _ d a hf; cases hf
  | cons b bs ih =>
    intro as' h d a hf
    rw [balAddAmounts_cons] at h
    cases h1 : iadd b.amount (amountOf cs b.denom) with
    | error e => rw [h1] at h; cases h
    | ok n =>
      have en : n = b.amount + amountOf cs b.denom := by unfold iadd at h1; exact chkInt_some (pn_ok h1)
      cases h2 : balAddAmounts bs cs with
      | error e => rw [h1, h2] at h; cases h
      | ok bs' =>
        rw [h1, h2] at h
        simp only [Except.bind] at h
        injection h with h
        subst h
        unfold findAsset at hf ⊢
        rw [List.find?_cons] at hf ⊢
        by_cases hd : b.denom = d
        · simp only [hd, decide_true] at hf ⊢
          injection hf with hf; subst hf
          rw [en, hd]
        · simp only [hd, decide_false] at hf ⊢
          exact ih bs' h2 d a hf

set_option linter.unusedSimpArgs false in
theorem balIncrease_spec {p p' : BalPool} {shares : Int} {cs : Coins} (h : balIncrease p shares cs = .ok p') :
    p'.totalShares = p.totalShares + shares ∧ p'.totalWeight = p.totalWeight ∧
    ∀ d a, findAsset p.assets d = some a → findAsset p'.assets d = some { a with amount := a.amount + amountOf cs d } := by
  unfold balIncrease at h
  split at h
  · cases h
  · cases h1 : balAddAmounts p.assets cs with
    | error e => simp [h1, bind, Except.bind] at h
    | ok as' =>
      cases h2 : iadd p.totalShares shares with
      | error e => simp [h1, h2, bind, Except.bind] at h
      | ok ts =>
        simp only [h1, h2, bind, Except.bind, pure, Except.pure] at h
        injection h with h; subst h
        have : ts = p.totalShares + shares := by unfold iadd at h2; exact chkInt_some (pn_ok h2)
        exact ⟨this, rfl, balAddAmounts_spec cs _ _ h1⟩

set_option linter.unusedSimpArgs false in
/-- single-asset `JoinPool` = `calcSingleAssetJoin` on the pool's own asset and share supply + `IncreaseLiquidity`. -/
theorem balJoin_single_split {p p' : BalPool} {d : String} {amt spread s : Int}
    (h : balJoin p [(d, amt)] spread = .ok (s, p')) :
    ∃ asset, findAsset p.assets d = some asset ∧
      balCalcSingleAssetJoin p d amt spread asset p.totalShares = .ok s ∧
      p'.totalShares = p.totalShares + s ∧ p'.totalWeight = p.totalWeight ∧
      findAsset p'.assets d = some { asset with amount := asset.amount + amt } ∧
      (∀ d' a, d' ≠ d → findAsset p.assets d' = some a → findAsset p'.assets d' = some a) := by
  unfold balJoin at h
  cases hc : balCalcJoin p [(d, amt)] spread with
  | error e => simp [hc, bind, Except.bind] at h
  | ok r =>
    obtain ⟨s', liq⟩ := r
    simp only [hc, bind, Except.bind] at h
    cases hi : balIncrease p s' liq with
    | error e => simp [hi] at h
    | ok q =>
      simp only [hi, pure, Except.pure] at h
      injection h with h; injection h with e1 e2
      subst e1; subst e2
      unfold balCalcJoin at hc
      split at hc
      · cases hc
      · cases hf : findAsset p.assets d with
        | none => simp [hf] at hc; cases hc
        | some asset =>
          simp only [hf] at hc
          cases hj : balCalcSingleAssetJoin p d amt spread asset p.totalShares with
          | error e => simp [hj, bind, Except.bind] at hc
          | ok s0 =>
            simp only [hj, bind, Except.bind, pure, Except.pure] at hc
            injection hc with hc; injection hc with e1 e2
            subst e1; subst e2
            obtain ⟨g1, g2, g3⟩ := balIncrease_spec hi
            have := g3 d asset hf
            have ham : amountOf [(d, amt)] d = amt := by simp [amountOf]
            rw [ham] at this
            refine ⟨asset, rfl, hj, g1, g2, this, ?_⟩
            intro d' a hne hfa
            have := g3 d' a hfa
            have hz : amountOf [(d, amt)] d' = 0 := by simp [amountOf, Ne.symm hne]
            rw [hz, Int.add_zero] at this
            exact this

end OsmoVerif.GammMath
