/- helper lemmas for C19: sorting / lookup / fold under permutation.  Core only. -/
import OsmoVerif.Model.Det

namespace OsmoVerif.Det
open List

theorem sle_trans (a b c : String) : sle a b = true → sle b c = true → sle a c = true := by
  unfold sle; intro h1 h2
  exact decide_eq_true (String.le_trans (of_decide_eq_true h1) (of_decide_eq_true h2))

theorem sle_total (a b : String) : (sle a b || sle b a) = true := by
  unfold sle
  rcases String.le_total a b with h | h
  · simp [h]
  · simp [h]

theorem sle_antisymm (a b : String) : sle a b = true → sle b a = true → a = b := by
  unfold sle; intro h1 h2
  exact String.le_antisymm (of_decide_eq_true h1) (of_decide_eq_true h2)

/-- sorting any permutation of a list of strings gives the same list -/
theorem mergeSort_perm_eq {l₁ l₂ : List String} (h : l₁ ~ l₂) : l₁.mergeSort sle = l₂.mergeSort sle := by
  apply Perm.eq_of_pairwise (le := fun a b => sle a b = true)
  · intro a b _ _ h1 h2; exact sle_antisymm a b h1 h2
  · exact pairwise_mergeSort sle_trans sle_total l₁
  · exact pairwise_mergeSort sle_trans sle_total l₂
  · exact (mergeSort_perm l₁ sle).trans (h.trans (mergeSort_perm l₂ sle).symm)

theorem lookup_none_iff {β : Type} (m : GoMap β) (k : String) : lookup m k = none ↔ k ∉ m.map Prod.fst := by
  induction m with
  | nil => simp [lookup]
  | cons e r ih =>
    obtain ⟨k', v⟩ := e
    simp only [lookup, List.map_cons, List.mem_cons]
    by_cases h : k' = k
    · simp [h]
    · simp only [h, if_false, ih]
      constructor
      · intro hn hc; rcases hc with hc | hc
        · exact h hc.symm
        · exact hn hc
      · intro hn hc; exact hn (Or.inr hc)

/-- `m[k]` does not depend on the iteration order (distinct keys) -/
theorem lookup_perm {β : Type} {m₁ m₂ : GoMap β} (h : m₁ ~ m₂) (hn : (m₁.map Prod.fst).Nodup) (k : String) :
    lookup m₁ k = lookup m₂ k := by
  induction h with
  | nil => rfl
  | cons x _ ih =>
    obtain ⟨k', v⟩ := x
    simp only [List.map_cons, List.nodup_cons] at hn
    simp only [lookup]
    rw [ih hn.2]
  | swap x y l =>
    obtain ⟨kx, vx⟩ := x
    obtain ⟨ky, vy⟩ := y
    simp only [List.map_cons, List.nodup_cons, List.mem_cons] at hn
    simp only [lookup]
    by_cases h1 : kx = k <;> by_cases h2 : ky = k
    · exfalso; exact hn.1 (Or.inl (h2.trans h1.symm))
    · simp [h1, h2]
    · simp [h1, h2]
    · simp [h1, h2]
  | trans h₁ _ ih₁ ih₂ =>
    rw [ih₁ hn]
    exact ih₂ ((h₁.map Prod.fst).nodup_iff.mp hn)

theorem filter_ne_comm {β : Type} (m : GoMap β) (a b : String) :
    (m.filter (fun e => e.1 != a)).filter (fun e => e.1 != b) = (m.filter (fun e => e.1 != b)).filter (fun e => e.1 != a) := by
  simp only [List.filter_filter]
  congr 1; funext e; exact Bool.and_comm _ _

end OsmoVerif.Det
