/-
C07 helpers, part 8: no iteration of an executed swap moves the sqrt price against the swap direction
(`SwapMono` holds for every pool that satisfies the invariants and has a spread factor in [0, 1/2]); this
discharges the assumption of the active-liquidity loop invariant.  The four "next sqrt price" formulas of
math.go are analysed with their actual rounding operators (read from the regenerated operator lists).
Core only.
-/
import OsmoVerif.Proofs.CLBookStep
import OsmoVerif.Spec.Rounding
import OsmoVerif.Proofs.NumLemmas
import OsmoVerif.Proofs.NumLemmas2

namespace OsmoVerif.CLBook
open OsmoVerif.CLPool OsmoVerif.CL OsmoVerif.Num OsmoVerif.Tick OsmoVerif.Gen OsmoVerif.Spec OsmoVerif.Props

/-! ## the four formulas -/

theorem next1In_eq (sp liq amt : Int) :
    nextSqrtPriceAmount1In sp liq amt = (BigDec.quoTruncateDec amt liq).bind fun q => BigDec.add q sp := rfl
theorem next1Out_eq (sp liq amt : Int) :
    nextSqrtPriceAmount1Out sp liq amt = (BigDec.quoByDecRoundUp amt liq).bind fun q => BigDec.sub sp q := rfl
theorem next0In_eq (sp l amt : Int) :
    nextSqrtPriceAmount0In sp l amt = if amt = 0 then some sp else
      (BigDec.mulTruncate amt sp).bind fun product => (BigDec.add product l).bind fun denom =>
        (BigDec.mulRoundUp l sp).bind fun num => BigDec.quoRoundUpMut num denom := rfl
theorem next0Out_eq (sp l amt : Int) :
    nextSqrtPriceAmount0Out sp l amt = if amt = 0 then some sp else
      (BigDec.mulRoundUpDec sp amt).bind fun product => (BigDec.sub l product).bind fun denom =>
        (BigDec.mulRoundUp l sp).bind fun num => BigDec.quoRoundUpMut num denom := rfl

theorem P36_val : P36 = 1000000000000000000000000000000000000 := by decide
theorem P18_val : P18 = 1000000000000000000 := by decide
theorem Pdiff_val : Pdiff = 1000000000000000000 := by decide

/-- token-1 in, one-for-zero: the price does not go down. -/
theorem next1In_ge {sp liq amt x : Int} (h : nextSqrtPriceAmount1In sp liq amt = some x)
    (hl : 0 ≤ liq) (ha : 0 ≤ amt) : sp ≤ x := by
  rw [next1In_eq, Option.bind_eq_some_iff] at h
  obtain ⟨q, hq, hx⟩ := h
  unfold BigDec.quoTruncateDec at hq
  split at hq
  · cases hq
  · have e1 := (chk_some hq).1
    have e2 := (chk_some hx).1
    have : 0 ≤ (amt * P18).tdiv liq :=
      Int.tdiv_nonneg (Int.mul_nonneg ha (Int.le_of_lt P18_pos)) hl
    omega

theorem incRemDiv_ge (r d q : Int) : q ≤ incRemDiv r d q := by
  unfold incRemDiv; split <;> omega

/-- token-1 out, zero-for-one: the price does not go up. -/
theorem next1Out_le {sp liq amt x : Int} (h : nextSqrtPriceAmount1Out sp liq amt = some x)
    (hl : 0 ≤ liq) (ha : 0 ≤ amt) : x ≤ sp := by
  rw [next1Out_eq, Option.bind_eq_some_iff] at h
  obtain ⟨q, hq, hx⟩ := h
  unfold BigDec.quoByDecRoundUp at hq
  split at hq
  · cases hq
  · have e1 := (chk_some hq).1
    have e2 := (chk_some hx).1
    have h0 : 0 ≤ (amt * P18).tdiv liq :=
      Int.tdiv_nonneg (Int.mul_nonneg ha (Int.le_of_lt P18_pos)) hl
    have := incRemDiv_ge ((amt * P18).tmod liq) liq ((amt * P18).tdiv liq)

    omega

/-- token-0 in, zero-for-one: above the execution price floor (sqrt price 10^-6) and for a non-dust amount the
rounded-up next sqrt price does not exceed the current one. -/
theorem next0In_le {sp l amt x : Int} (h : nextSqrtPriceAmount0In sp l amt = some x)
    (hl : 0 ≤ l) (hs : 1000000000000000000000000000000 ≤ sp) (ha : 1000000000000 ≤ amt) : x ≤ sp := by
  rw [next0In_eq, if_neg (by omega)] at h
  simp only [Option.bind_eq_some_iff] at h
  obtain ⟨product, hp, denom, hd, num, hn, hx⟩ := h
  have e1 : product = (amt * sp).tdiv P36 := (chk_some hp).1
  have e2 : denom = product + l := (chk_some hd).1
  have e3 : num = chopRoundUp P36 (l * sp) := (chk_some hn).1
  have hA : 1000000000000 * 1000000000000000000000000000000 ≤ amt * sp :=
    Int.mul_le_mul ha hs (by omega) (by omega)
  have hfl := (tdiv_isTrunc (amt * sp) P36 P36_pos).1 (by omega)
  rw [← e1] at hfl
  obtain ⟨f1, f2⟩ := hfl
  have hprod : 1000000 ≤ product := by
    have : 1000000 * P36 < (product + 1) * P36 := by rw [P36_val] at f2 ⊢; omega
    have := lt_of_mul_lt_mul_pos P36_pos this
    omega
  have hsp : 1000000000000000000000000000000 * 1000000 ≤ sp * product :=
    Int.mul_le_mul hs hprod (by omega) (by omega)
  have hceil := chopRoundUp_isCeil P36 (l * sp) P36_pos
  rw [← e3] at hceil
  obtain ⟨c1, c2⟩ := hceil
  have hdpos : 0 < denom := by omega
  unfold BigDec.quoRoundUpMut at hx
  rw [if_neg (by omega)] at hx
  have e4 := (chk_some hx).1
  have hq := incRemDiv_isCeil (num * P36) denom (by omega)
  rw [sgnMul_of_pos _ hdpos] at hq
  have hnat : (denom.natAbs : Int) = denom := by omega
  rw [hnat] at hq

  rw [← e4] at hq
  obtain ⟨q1, _⟩ := hq
  apply Classical.byContradiction
  intro hgt
  have hge : sp * denom ≤ (x - 1) * denom := Int.mul_le_mul_of_nonneg_right (by omega) (by omega)
  have hexp : sp * denom = sp * product + l * sp := by rw [e2, Int.mul_add, Int.mul_comm sp l]
  rw [P36_val] at c1 q1
  omega

/-- token-0 out, one-for-zero: the rounded-up next sqrt price is at least the current one, unless the
requested amount exceeds the virtual reserve (negative denominator), in which case the result is not positive. -/
theorem next0Out_ge {sp l amt x : Int} (h : nextSqrtPriceAmount0Out sp l amt = some x)
    (hl : 0 ≤ l) (hs : 0 < sp) (ha : 0 ≤ amt) : sp ≤ x ∨ x ≤ 0 := by
  rw [next0Out_eq] at h
  split at h
  · injection h with h; exact Or.inl (by omega)
  simp only [Option.bind_eq_some_iff] at h
  obtain ⟨product, hp, denom, hd, num, hn, hx⟩ := h
  have e1 : product = chopRoundUp P18 (sp * amt) := (chk_some hp).1
  have e2 : denom = l - product := (chk_some hd).1
  have e3 : num = chopRoundUp P36 (l * sp) := (chk_some hn).1
  have hsa : 0 ≤ sp * amt := Int.mul_nonneg (by omega) ha
  have hls : 0 ≤ l * sp := Int.mul_nonneg hl (by omega)
  have hc1 := chopRoundUp_isCeil P18 (sp * amt) P18_pos
  rw [← e1] at hc1
  have hprod : 0 ≤ product := by
    obtain ⟨_, c⟩ := hc1
    rw [P18_val] at c; omega
  have hceil := chopRoundUp_isCeil P36 (l * sp) P36_pos
  rw [← e3] at hceil
  obtain ⟨c1, c2⟩ := hceil
  have hnum : 0 ≤ num := by rw [P36_val] at c2; omega
  unfold BigDec.quoRoundUpMut at hx
  split at hx
  · cases hx
  rename_i hd0
  have e4 := (chk_some hx).1
  have hq := incRemDiv_isCeil (num * P36) denom hd0

  rw [← e4] at hq
  rcases Int.lt_or_le denom 0 with hneg | hpos
  · right
    rw [sgnMul_of_neg _ hneg] at hq
    have hnat : (denom.natAbs : Int) = -denom := by omega
    rw [hnat] at hq
    obtain ⟨q1, _⟩ := hq
    apply Classical.byContradiction
    intro hgt
    have : 0 * (-denom) ≤ (x - 1) * (-denom) := Int.mul_le_mul_of_nonneg_right (by omega) (by omega)
    rw [P36_val] at q1
    omega
  · left
    have hdpos : 0 < denom := by omega
    rw [sgnMul_of_pos _ hdpos] at hq
    have hnat : (denom.natAbs : Int) = denom := by omega
    rw [hnat] at hq
    obtain ⟨_, q2⟩ := hq
    apply Classical.byContradiction
    intro hlt
    have hle : x * denom ≤ (sp - 1) * denom := Int.mul_le_mul_of_nonneg_right (by omega) (by omega)
    have hexp : (sp - 1) * denom = l * sp - product * sp - denom := by
      rw [e2, Int.sub_mul, Int.mul_sub, Int.mul_comm sp l, Int.mul_comm sp product]; omega
    have hps : 0 ≤ product * sp := Int.mul_nonneg hprod (by omega)
    rw [P36_val] at c2 q2
    omega
local macro "tail_next" hF:ident : tactic =>
  `(tactic| (split at $hF:ident <;>
      (simp only [Option.bind_eq_bind, Option.bind_eq_some_iff, Option.some.injEq] at $hF:ident
       obtain ⟨_, _, _, _, _, _, _, _, _, _, hr⟩ := $hF:ident
       rw [← hr])))

theorem stepOutGivenIn_next {zfo : Bool} {spf sp target liq remaining : Int} {r : StepResult}
    (h : stepOutGivenIn zfo spf sp target liq remaining = some r) :
    ∃ oneMinus, Dec.sub P18 spf = some oneMinus ∧
      (r.sqrtPriceNext = target ∨
       (zfo = true ∧ ∃ l, BigDec.fromDec liq = some l ∧
          nextSqrtPriceAmount0In sp l (remaining * oneMinus) = some r.sqrtPriceNext) ∨
       (zfo = false ∧ nextSqrtPriceAmount1In sp liq (remaining * oneMinus) = some r.sqrtPriceNext)) := by
  unfold stepOutGivenIn at h
  cases zfo
  · simp only [Bool.false_eq_true, ↓reduceIte, Option.bind_eq_bind, Option.bind_eq_some_iff] at h
    obtain ⟨amtIn0, _, oneMinus, hom, h⟩ := h
    refine ⟨oneMinus, hom, ?_⟩
    split at h
    · rw [Option.bind_eq_some_iff] at h
      obtain ⟨s, hs, hF⟩ := h
      injection hs with hs
      have : r.sqrtPriceNext = s := by tail_next hF
      exact Or.inl (by rw [this, hs])
    · rw [Option.bind_eq_some_iff] at h
      obtain ⟨s, hs, hF⟩ := h
      have : r.sqrtPriceNext = s := by tail_next hF
      exact Or.inr (Or.inr ⟨rfl, by rw [this]; exact hs⟩)
  · simp only [↓reduceIte, Option.bind_eq_bind, Option.bind_eq_some_iff] at h
    obtain ⟨amtIn0, _, oneMinus, hom, h⟩ := h
    refine ⟨oneMinus, hom, ?_⟩
    split at h
    · rw [Option.bind_eq_some_iff] at h
      obtain ⟨s, hs, hF⟩ := h
      injection hs with hs
      have : r.sqrtPriceNext = s := by tail_next hF
      exact Or.inl (by rw [this, hs])
    · rw [Option.bind_eq_some_iff] at h
      obtain ⟨s, hs, hF⟩ := h
      have : r.sqrtPriceNext = s := by tail_next hF
      rw [Option.bind_eq_some_iff] at hs
      exact Or.inr (Or.inl ⟨rfl, by rw [this]; exact hs⟩)

theorem stepInGivenOut_next {zfo : Bool} {spf sp target liq remainingOut : Int} {r : StepResult}
    (h : stepInGivenOut zfo spf sp target liq remainingOut = some r) :
    ∃ remBig, BigDec.fromDec remainingOut = some remBig ∧
      (r.sqrtPriceNext = target ∨
       (zfo = true ∧ nextSqrtPriceAmount1Out sp liq remBig = some r.sqrtPriceNext) ∨
       (zfo = false ∧ ∃ l, BigDec.fromDec liq = some l ∧
          nextSqrtPriceAmount0Out sp l remainingOut = some r.sqrtPriceNext)) := by
  unfold stepInGivenOut at h
  cases zfo
  · simp only [Bool.false_eq_true, ↓reduceIte, Option.bind_eq_bind, Option.bind_eq_some_iff] at h
    obtain ⟨remBig, hrb, out0, _, h⟩ := h
    refine ⟨remBig, hrb, ?_⟩
    split at h
    · rw [Option.bind_eq_some_iff] at h
      obtain ⟨s, hs, hF⟩ := h
      injection hs with hs
      have : r.sqrtPriceNext = s := by tail_next hF
      exact Or.inl (by rw [this, hs])
    · rw [Option.bind_eq_some_iff] at h
      obtain ⟨s, hs, hF⟩ := h
      have : r.sqrtPriceNext = s := by tail_next hF
      rw [Option.bind_eq_some_iff] at hs
      exact Or.inr (Or.inr ⟨rfl, by rw [this]; exact hs⟩)
  · simp only [↓reduceIte, Option.bind_eq_bind, Option.bind_eq_some_iff] at h
    obtain ⟨remBig, hrb, out0, _, h⟩ := h
    refine ⟨remBig, hrb, ?_⟩
    split at h
    · rw [Option.bind_eq_some_iff] at h
      obtain ⟨s, hs, hF⟩ := h
      injection hs with hs
      have : r.sqrtPriceNext = s := by tail_next hF
      exact Or.inl (by rw [this, hs])
    · rw [Option.bind_eq_some_iff] at h
      obtain ⟨s, hs, hF⟩ := h
      have : r.sqrtPriceNext = s := by tail_next hF
      exact Or.inr (Or.inl ⟨rfl, by rw [this]; exact hs⟩)

/-! ## one iteration -/

theorem Dec.sub_some {a b c : Int} (h : Dec.sub a b = some c) : c = a - b := by
  unfold Dec.sub chkDec at h
  split at h
  · injection h with h; exact h.symm
  · cases h

/-- the spread factor is a fraction in `[0, 1/2]` (the code only authorises values up to 0.5%). -/
def SpfOK (spf : Int) : Prop := 0 ≤ spf ∧ 2 * spf ≤ P18

theorem body_mono {og zfo : Bool} {spf limit : Int} {st st' : SwapSt} {nt net : Int} {rest ahead' : Ticks} {c : Bool}
    (hb : BodyRel og zfo spf limit st nt net rest st' ahead' c) (hspf : SpfOK spf)
    (hrem : st.remaining > 1) (hliq : 0 ≤ st.pool.liquidity) (hpos : 0 < st.pool.sqrtPrice)
    (htarget : ∀ nextSp, tickToSqrtPrice nt = some nextSp →
      (if zfo then (if nextSp < limit then limit else nextSp) else (if nextSp > limit then limit else nextSp)) = nextSp ∧
      (if zfo then 1000000000000000000000000000000 ≤ nextSp ∧ nextSp ≤ st.pool.sqrtPrice
       else st.pool.sqrtPrice ≤ nextSp)) :
    (if zfo then st'.pool.sqrtPrice ≤ st.pool.sqrtPrice else st.pool.sqrtPrice ≤ st'.pool.sqrtPrice) := by
  have hpos' := body_pos hb hpos
  obtain ⟨nextSp, r, hsp, hstep, hr, _⟩ := hb
  obtain ⟨ht1, ht2⟩ := htarget nextSp hsp
  rw [ht1] at hstep
  rw [← hr] at hpos' ⊢
  obtain ⟨hs0, hs1⟩ := hspf
  cases og
  · -- in given out
    simp only [Bool.false_eq_true, ↓reduceIte] at hstep
    obtain ⟨remBig, hrb, hcase⟩ := stepInGivenOut_next hstep
    have erb : remBig = st.remaining * Pdiff := by
      unfold BigDec.fromDec at hrb; injection hrb with hrb; exact hrb.symm
    rcases hcase with h | ⟨hz, h⟩ | ⟨hz, l, hl, h⟩
    · rw [h]; cases zfo
      · simpa using ht2
      · simp only [↓reduceIte] at ht2 ⊢; exact ht2.2
    · subst hz
      simp only [↓reduceIte]
      refine next1Out_le h hliq ?_
      rw [erb]; exact Int.mul_nonneg (by omega) (Int.le_of_lt Pdiff_pos)
    · subst hz
      simp only [Bool.false_eq_true, ↓reduceIte]
      have el : l = st.pool.liquidity * Pdiff := by
        unfold BigDec.fromDec at hl; injection hl with hl; exact hl.symm
      have := next0Out_ge h (by rw [el]; exact Int.mul_nonneg hliq (Int.le_of_lt Pdiff_pos)) hpos (by omega)
      omega
  · -- out given in
    simp only [↓reduceIte] at hstep
    obtain ⟨oneMinus, hom, hcase⟩ := stepOutGivenIn_next hstep
    have eom := Dec.sub_some hom
    have hamt : 1000000000000 ≤ st.remaining * oneMinus := by
      have : (2 : Int) * 500000000000 ≤ st.remaining * oneMinus :=
        Int.mul_le_mul (by omega) (by rw [eom, P18_val] at *; omega) (by omega) (by omega)
      omega
    rcases hcase with h | ⟨hz, l, hl, h⟩ | ⟨hz, h⟩
    · rw [h]; cases zfo
      · simpa using ht2
      · simp only [↓reduceIte] at ht2 ⊢; exact ht2.2
    · subst hz
      simp only [↓reduceIte] at ht2 ⊢
      have el : l = st.pool.liquidity * Pdiff := by
        unfold BigDec.fromDec at hl; injection hl with hl; exact hl.symm
      exact next0In_le h (by rw [el]; exact Int.mul_nonneg hliq (Int.le_of_lt Pdiff_pos)) (by omega) hamt
    · subst hz
      simp only [Bool.false_eq_true, ↓reduceIte]
      exact next1In_ge h hliq (by omega)

/-! ## the whole loop -/

theorem execLimit_zfo : sqrtPriceLimit (execPriceLimit true) true = some 1000000000000000000000000000000 := by
  decide +kernel
theorem execLimit_ofz : sqrtPriceLimit (execPriceLimit false) false = some (10 ^ 19 * P36) := by
  decide +kernel

theorem monoRun_of_inv {og zfo : Bool} {spf limit : Int} {spacing : Int} {tl : Ticks} {ps : List Position}
    (hok : TicksOK spacing tl ps) (hspf : SpfOK spf)
    (hlimit : sqrtPriceLimit (execPriceLimit zfo) zfo = some limit) :
    ∀ (fuel : Nat) (st : SwapSt) (ahead : Ticks),
      Agree spacing st.pool.sqrtPrice st.pool.tick → 0 < st.pool.sqrtPrice → LA zfo tl ps st.pool ahead →
      MonoRun og zfo spf limit fuel st ahead := by
  intro fuel
  induction fuel with
  | zero => intro st ahead _ _ _; trivial
  | succ fuel ih =>
    intro st ahead ha hpos hla
    unfold MonoRun
    split
    · rename_i hcond
      cases hb : loopBody og zfo spf limit st ahead with
      | none => trivial
      | some res =>
        obtain ⟨st1, ahead1, c1⟩ := res
        simp only
        cases ahead with
        | nil => rw [loopBody_nil] at hb; cases hb
        | cons x rest =>
          obtain ⟨nt, net⟩ := x
          have hrel := loopBody_spec hb
          have hliq : 0 ≤ st.pool.liquidity := by
            rw [hla.1]
            apply sumBy_nonneg
            intro q hq
            have := hok.liqPos q hq
            simp only [onPos, actW]; split <;> omega
          have hmono : (if zfo then st1.pool.sqrtPrice ≤ st.pool.sqrtPrice else st.pool.sqrtPrice ≤ st1.pool.sqrtPrice) := by
            refine body_mono hrel hspf hcond.1 hliq hpos ?_
            intro nextSp hsp
            have hahead := hla.2
            cases zfo
            · rw [execLimit_ofz] at hlimit
              injection hlimit with hlimit
              rw [ticksAhead_up] at hahead
              obtain ⟨f1, f2, _, _⟩ := filter_up_head hok.sorted hahead.symm
              have hmax := tts_mono hsp C14Mono.tickToSqrtPrice_ends.2.2 (hok.bounds _ f1).2
              simp only [Bool.false_eq_true, ↓reduceIte]
              refine ⟨by rw [if_neg (by omega)], ?_⟩
              exact (ha nt nextSp (hok.aligned _ f1) hsp).2 f2
            · rw [execLimit_zfo] at hlimit
              injection hlimit with hlimit
              rw [ticksAhead_down] at hahead
              have hsd : tl.reverse.Pairwise (fun a b => a.1 > b.1) := by
                rw [List.pairwise_reverse]; exact hok.sorted
              obtain ⟨f1, f2, _, _⟩ := filter_down_head hsd hahead.symm
              have f1' := List.mem_reverse.mp f1
              have hmin := tts_mono C14Mono.regime_boundary_step.2 hsp (hok.bounds _ f1').1
              simp only [↓reduceIte]
              refine ⟨by rw [if_neg (by omega)], by omega, ?_⟩
              exact (ha nt nextSp (hok.aligned _ f1') hsp).1 f2
          exact ⟨hmono, ih st1 ahead1 (body_agree hrel ha) (body_pos hrel hpos) (body_LA hok hrel ha hla hmono)⟩
    · trivial

/-- the assumption of `swap_active` holds in every state that satisfies the invariants. -/
theorem swapMono_of_inv {p : Pool} (og zfo : Bool) (spec : Int) (hc : InvCore p) (hp : InvPrice p) (ha : InvActive p)
    (hspf : SpfOK p.spf) : SwapMono p og zfo spec := by
  intro limit hl
  by_cases hne : p.positions = []
  · -- no positions: no stored ticks, the first iteration fails
    have hticks : p.ticks = [] := by
      cases ht : p.ticks with
      | nil => rfl
      | cons x xs =>
        obtain ⟨q, hq, _⟩ := (hc.stored x.tick).mp ⟨x, by rw [ht]; exact List.mem_cons_self, rfl⟩
        rw [hne] at hq; cases hq
    have : ticksAhead zfo (tickList p) p.tick = [] := by
      unfold tickList; rw [hticks]; cases zfo <;> rfl
    rw [this]
    unfold tickList; rw [hticks]
    unfold MonoRun
    split
    · rw [loopBody_nil]; trivial
    · trivial
  · exact monoRun_of_inv (ticksOK_of_core hc) hspf hl _ _ _ (hp.2 hne).1 (hp.2 hne).2 ⟨ha, rfl⟩

theorem historyMono_of_inv {p : Pool} (ops : List Op) (hc : InvCore p) (hp : InvPrice p) (ha : InvActive p)
    (hspf : SpfOK p.spf) : HistoryMono p ops := by
  induction ops generalizing p with
  | nil => trivial
  | cons op ops ih =>
    have hm : ∀ og zfo spec, op = .swap og zfo spec → SwapMono p og zfo spec :=
      fun og zfo spec _ => swapMono_of_inv og zfo spec hc hp ha hspf
    have hspf' : SpfOK (step p op).spf := by
      rcases step_cases p op with h | ⟨p', h, e⟩
      · rw [h]; exact hspf
      · rw [e, (apply_inv hc h).2.2.1]; exact hspf
    refine ⟨?_, ih (step_core op hc) (step_price op hc hp) (step_active op hc hp ha hm) hspf'⟩
    cases op with
    | swap og zfo spec => exact hm og zfo spec rfl
    | _ => trivial

/-! ## the full invariant -/

/-- C07: book-keeping (`core`: clauses (b), (d), (e) and the side conditions), price/tick agreement
(`price`: clause (c) on the spacing grid) and active liquidity (`active`: clause (a)). -/
structure Inv (p : Pool) : Prop where
  core : InvCore p
  price : InvPrice p
  active : InvActive p

theorem Inv.step {p : Pool} (op : Op) (hspf : SpfOK p.spf) (h : Inv p) : Inv (step p op) :=
  ⟨step_core op h.core, step_price op h.core h.price,
    step_active op h.core h.price h.active (fun og zfo spec _ => swapMono_of_inv og zfo spec h.core h.price h.active hspf)⟩

theorem step_spf (p : Pool) (op : Op) (hc : InvCore p) : (step p op).spf = p.spf ∧ (step p op).spacing = p.spacing := by
  rcases step_cases p op with h | ⟨p', h, e⟩
  · rw [h]; exact ⟨rfl, rfl⟩
  · rw [e]; exact ⟨(apply_inv hc h).2.2.1, (apply_inv hc h).2.1⟩

theorem Inv.run {p : Pool} (ops : List Op) (hspf : SpfOK p.spf) (h : Inv p) : Inv (run p ops) := by
  induction ops generalizing p with
  | nil => exact h
  | cons op ops ih => exact ih (by rw [(step_spf p op h.core).1]; exact hspf) (h.step op hspf)

/-! ## a concrete history for the non-vacuity examples of Props/C07 -/

def demoOps : List Op := [
  .create "alice" (-1000) 1000 1000000 1000000,
  .create "bob" 0 2000 500000 500000,
  .create "carol" (-3000) (-1000) 0 700000,
  .swap true true 300000,
  .swap true false 900000,
  .withdraw "alice" 1 1000000000000000000000,
  .transfer "bob" 2 "dave",
  .add "carol" 3 0 1000,
  .withdraw "eve" 2 1 ]

def demoInit : Pool := initPool 100 1000000000000000

end OsmoVerif.CLBook
