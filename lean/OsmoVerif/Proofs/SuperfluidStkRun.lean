/- C11 over the staking model: the validator slash, and invariant / reported supply / unstaking markers along every
history of `OpS` (slashes included).  Core only. -/
import OsmoVerif.Proofs.SuperfluidStkOps

namespace OsmoVerif.Superfluid
open OsmoVerif.Num

/-! ## slashing -/

/-- a slashed lock keeps everything but its amount; its marker's accumulation follows. -/
theorem slashLock_ok {b b' : State} {val : Nat} {f : Int} {skip : List Nat} {id : Nat} (hc : slashLock b val f skip id = .ok b') :
    b' = b ∨ ∃ l sy t, b.locks id = some l ∧ b.synths id = [sy] ∧ sy.key.2 = val ∧ 0 < t ∧ t < l.amount ∧
      b' = { b with locks := upd b.locks id (some { l with amount := l.amount - t }),
                    accum := updK b.accum (sy.kind, sy.key) (accAdd (b.accum (sy.kind, sy.key)) sy.duration (-t)) } := by
  unfold slashLock at hc
  split at hc
  · injection hc with hc; exact Or.inl hc.symm
  · split at hc
    · injection hc with hc; exact Or.inl hc.symm
    · rename_i l hl
      split at hc
      · rename_i sy hsy
        split at hc
        · injection hc with hc; exact Or.inl hc.symm
        · rename_i hv
          split at hc
          · injection hc with hc; exact Or.inl hc.symm
          · split at hc
            · injection hc with hc; exact Or.inl hc.symm
            · split at hc
              · cases hc
              · split at hc
                · cases hc
                · rename_i sa hsa
                  split at hc
                  · cases hc
                  · rename_i t ht
                    split at hc
                    · injection hc with hc; exact Or.inl hc.symm
                    · rename_i htp
                      split at hc
                      · cases hc
                      · rename_i hlt
                        injection hc with hc
                        exact Or.inr ⟨l, sy, t, hl, hsy, by simpa using hv, by omega, by omega, hc.symm⟩
      · injection hc with hc; exact Or.inl hc.symm

/-- what a slash of the locks leaves alone: everything except lock amounts and accumulation stores. -/
structure SlashFrame (b b' : State) : Prop where
  synths : b'.synths = b.synths
  conns : b'.conns = b.conns
  now : b'.now = b.now
  ub : b'.unbondingTime = b.unbondingTime
  last : b'.lastLockId = b.lastLockId
  vals : b'.validators = b.validators
  accs : b'.accs = b.accs
  mult : b'.mult = b.mult
  assets : b'.assets = b.assets
  rf : b'.riskFactor = b.riskFactor
  bank : b'.supply = b.supply ∧ b'.offset = b.offset
  locks : ∀ id, (b'.locks id).isSome = (b.locks id).isSome ∧
    ∀ l', b'.locks id = some l' → ∃ l, b.locks id = some l ∧ l'.owner = l.owner ∧ l'.denom = l.denom ∧ l'.single = l.single ∧
      l'.duration = l.duration ∧ l'.endTime = l.endTime ∧ 0 < l'.amount ∧ l'.amount ≤ l.amount

theorem SlashFrame.refl {b : State} (h : Inv b) : SlashFrame b b :=
  ⟨rfl, rfl, rfl, rfl, rfl, rfl, rfl, rfl, rfl, rfl, ⟨rfl, rfl⟩, fun id => ⟨rfl, fun l' hl' => ⟨l', hl', rfl, rfl, rfl, rfl, rfl, by
    have := h.lockOK id; rw [hl'] at this; exact this.1, Int.le_refl _⟩⟩⟩

theorem SlashFrame.trans {a b c : State} (h1 : SlashFrame a b) (h2 : SlashFrame b c) : SlashFrame a c := by
  refine ⟨h2.synths.trans h1.synths, h2.conns.trans h1.conns, h2.now.trans h1.now, h2.ub.trans h1.ub, h2.last.trans h1.last,
    h2.vals.trans h1.vals, h2.accs.trans h1.accs, h2.mult.trans h1.mult, h2.assets.trans h1.assets, h2.rf.trans h1.rf,
    ⟨h2.bank.1.trans h1.bank.1, h2.bank.2.trans h1.bank.2⟩, ?_⟩
  intro id
  refine ⟨(h2.locks id).1.trans (h1.locks id).1, ?_⟩
  intro l' hl'
  obtain ⟨l1, hl1, a1, a2, a3, a4, a5, a6, a7⟩ := (h2.locks id).2 l' hl'
  obtain ⟨l0, hl0, b1, b2, b3, b4, b5, _, b7⟩ := (h1.locks id).2 l1 hl1
  exact ⟨l0, hl0, a1.trans b1, a2.trans b2, a3.trans b3, a4.trans b4, a5.trans b5, a6, Int.le_trans a7 b7⟩

theorem inv_slashLock {b b' : State} {val : Nat} {f : Int} {skip : List Nat} {id : Nat} (h : Inv b)
    (hc : slashLock b val f skip id = .ok b') : Inv b' ∧ SlashFrame b b' := by
  rcases slashLock_ok hc with e | ⟨l, sy, t, hl, hsy, _, ht0, htl, e⟩
  · subst e; exact ⟨h, SlashFrame.refl h⟩
  · subst e
    constructor
    · have := inv_adjust_marked (δ := -t) h hl hsy (by omega)
      rw [← Int.sub_eq_add_neg] at this
      exact this
    · refine ⟨rfl, rfl, rfl, rfl, rfl, rfl, rfl, rfl, rfl, rfl, ⟨rfl, rfl⟩, ?_⟩
      intro i
      dsimp only
      simp only [upd]
      by_cases e : i = id
      · subst e
        rw [if_pos rfl, hl]
        refine ⟨rfl, ?_⟩
        intro l' hl'
        injection hl' with hl'
        subst hl'
        exact ⟨l, rfl, rfl, rfl, rfl, rfl, rfl, by dsimp only; omega, by dsimp only; omega⟩
      · rw [if_neg e]
        refine ⟨rfl, ?_⟩
        intro l' hl'
        refine ⟨l', hl', rfl, rfl, rfl, rfl, rfl, ?_, Int.le_refl _⟩
        have := h.lockOK i; rw [hl'] at this; exact this.1

theorem inv_slashLocks {val : Nat} {f : Int} {skip : List Nat} : ∀ (n : Nat) (b b' : State), Inv b → slashLocks b val f skip n = .ok b' →
    Inv b' ∧ SlashFrame b b'
  | 0, b, b', h, hc => by
    unfold slashLocks at hc; injection hc with hc; subst hc; exact ⟨h, SlashFrame.refl h⟩
  | n + 1, b, b', h, hc => by
    unfold slashLocks at hc
    split at hc
    · cases hc
    · rename_i b1 h1
      obtain ⟨i1, f1⟩ := inv_slashLocks n b b1 h h1
      obtain ⟨i2, f2⟩ := inv_slashLock i1 hc
      exact ⟨i2, f1.trans f2⟩

theorem burnAmount_bounds (a t : Int) (ht : 0 ≤ t) : 0 ≤ burnAmount a t ∧ burnAmount a t ≤ t := by
  unfold burnAmount
  dsimp only
  split <;> split <;> omega

/-- **a validator slash** either burns nothing and changes nothing, or: the burnt amount is positive and at most the
validator's tokens, it leaves the bank supply (the offset is not touched), the validator loses exactly that many
tokens and none of its shares, no delegation record changes, and of the lockup state only lock amounts (downwards,
staying positive) and accumulation stores change — no marker, no connection. -/
theorem slashS_ok {s s' : SState} {val : Nat} {p fr : Int} {skip : List Nat} {burn : Int} (h : Inv s.b)
    (hc : slashS s val p fr skip = .ok (s', burn)) :
    (burn = 0 ∧ s' = s) ∨
    (burn ≠ 0 ∧ val ∈ s.b.validators ∧ ∃ a, burn = burnAmount a (s.k.val val).tokens ∧
      ∃ b1, Inv b1 ∧ SlashFrame s.b b1 ∧
        s' = { b := { b1 with supply := b1.supply - burn },
               k := setVal s.k val { (s.k.val val) with tokens := (s.k.val val).tokens - burn } }) := by
  unfold slashS at hc
  split at hc
  · cases hc
  · split at hc
    · cases hc
    · split at hc
      · cases hc
      · rename_i slashAmount _
        split at hc
        · injection hc with hc
          injection hc with e1 e2
          exact Or.inl ⟨e2.symm, e1.symm⟩
        · rename_i hv
          have hv' : val ∈ s.b.validators := Decidable.of_not_not hv
          split at hc
          · injection hc with hc
            injection hc with e1 e2
            exact Or.inl ⟨e2.symm, e1.symm⟩
          · rename_i hb0
            split at hc
            · cases hc
            · split at hc
              · cases hc
              · rename_i b1 hb1
                injection hc with hc
                injection hc with e1 e2
                have hI : Inv b1 ∧ SlashFrame s.b b1 := by
                  split at hb1
                  · injection hb1 with hb1; subst hb1; exact ⟨h, SlashFrame.refl h⟩
                  · exact inv_slashLocks _ _ _ h hb1
                refine Or.inr ⟨by rw [← e2]; exact hb0, hv', slashAmount, e2.symm, b1, hI.1, hI.2, ?_⟩
                rw [← e1, ← e2]

theorem inv_slashS {s s' : SState} {val : Nat} {p fr : Int} {skip : List Nat} {burn : Int} (h : Inv s.b)
    (hc : slashS s val p fr skip = .ok (s', burn)) : Inv s'.b := by
  rcases slashS_ok h hc with ⟨_, e⟩ | ⟨_, _, _, _, b1, i1, _, e⟩
  · subst e; exact h
  · subst e; exact i1.ledger_frame _ _ _


/-! ## the 100 % slash taken together with the top-ups of the locks it empties -/

/-- a lock slashed (and, when emptied, topped up) keeps everything but its amount, which stays positive; its marker's
accumulation follows by the same δ. -/
theorem slashLockR_ok {b b' : State} {val : Nat} {f : Int} {skip : List Nat} {refill : List (Nat × Int)} {id : Nat}
    (hc : slashLockR b val f skip refill id = .ok b') :
    b' = b ∨ ∃ l sy δ, b.locks id = some l ∧ b.synths id = [sy] ∧ sy.key.2 = val ∧ 0 < l.amount + δ ∧
      b' = { b with locks := upd b.locks id (some { l with amount := l.amount + δ }),
                    accum := updK b.accum (sy.kind, sy.key) (accAdd (b.accum (sy.kind, sy.key)) sy.duration δ) } := by
  unfold slashLockR at hc
  split at hc
  · injection hc with hc; exact Or.inl hc.symm
  · split at hc
    · injection hc with hc; exact Or.inl hc.symm
    · rename_i l hl
      split at hc
      · rename_i sy hsy
        split at hc
        · injection hc with hc; exact Or.inl hc.symm
        · rename_i hv
          split at hc
          · injection hc with hc; exact Or.inl hc.symm
          · split at hc
            · injection hc with hc; exact Or.inl hc.symm
            · split at hc
              · cases hc
              · split at hc
                · cases hc
                · split at hc
                  · cases hc
                  · rename_i t ht
                    split at hc
                    · injection hc with hc; exact Or.inl hc.symm
                    · split at hc
                      · cases hc
                      · split at hc
                        · cases hc
                        · rename_i a _
                          split at hc
                          · cases hc
                          · rename_i hpos
                            injection hc with hc
                            exact Or.inr ⟨l, sy, a - t, hl, hsy, by simpa using hv, by omega, hc.symm⟩
      · injection hc with hc; exact Or.inl hc.symm

/-- what such a slash leaves alone: everything except lock amounts (which stay positive) and accumulation stores. -/
structure SlashFrameR (b b' : State) : Prop where
  synths : b'.synths = b.synths
  conns : b'.conns = b.conns
  now : b'.now = b.now
  ub : b'.unbondingTime = b.unbondingTime
  last : b'.lastLockId = b.lastLockId
  vals : b'.validators = b.validators
  accs : b'.accs = b.accs
  mult : b'.mult = b.mult
  assets : b'.assets = b.assets
  rf : b'.riskFactor = b.riskFactor
  bank : b'.supply = b.supply ∧ b'.offset = b.offset
  locks : ∀ id, (b'.locks id).isSome = (b.locks id).isSome ∧
    ∀ l', b'.locks id = some l' → ∃ l, b.locks id = some l ∧ l'.owner = l.owner ∧ l'.denom = l.denom ∧ l'.single = l.single ∧
      l'.duration = l.duration ∧ l'.endTime = l.endTime ∧ 0 < l'.amount

theorem SlashFrameR.refl {b : State} (h : Inv b) : SlashFrameR b b :=
  ⟨rfl, rfl, rfl, rfl, rfl, rfl, rfl, rfl, rfl, rfl, ⟨rfl, rfl⟩, fun id => ⟨rfl, fun l' hl' => ⟨l', hl', rfl, rfl, rfl, rfl, rfl, by
    have := h.lockOK id; rw [hl'] at this; exact this.1⟩⟩⟩

theorem SlashFrameR.trans {a b c : State} (h1 : SlashFrameR a b) (h2 : SlashFrameR b c) : SlashFrameR a c := by
  refine ⟨h2.synths.trans h1.synths, h2.conns.trans h1.conns, h2.now.trans h1.now, h2.ub.trans h1.ub, h2.last.trans h1.last,
    h2.vals.trans h1.vals, h2.accs.trans h1.accs, h2.mult.trans h1.mult, h2.assets.trans h1.assets, h2.rf.trans h1.rf,
    ⟨h2.bank.1.trans h1.bank.1, h2.bank.2.trans h1.bank.2⟩, ?_⟩
  intro id
  refine ⟨(h2.locks id).1.trans (h1.locks id).1, ?_⟩
  intro l' hl'
  obtain ⟨l1, hl1, a1, a2, a3, a4, a5, a6⟩ := (h2.locks id).2 l' hl'
  obtain ⟨l0, hl0, b1, b2, b3, b4, b5, _⟩ := (h1.locks id).2 l1 hl1
  exact ⟨l0, hl0, a1.trans b1, a2.trans b2, a3.trans b3, a4.trans b4, a5.trans b5, a6⟩

theorem inv_slashLockR {b b' : State} {val : Nat} {f : Int} {skip : List Nat} {refill : List (Nat × Int)} {id : Nat} (h : Inv b)
    (hc : slashLockR b val f skip refill id = .ok b') : Inv b' ∧ SlashFrameR b b' := by
  rcases slashLockR_ok hc with e | ⟨l, sy, δ, hl, hsy, _, hpos, e⟩
  · subst e; exact ⟨h, SlashFrameR.refl h⟩
  · subst e
    constructor
    · exact inv_adjust_marked (δ := δ) h hl hsy hpos
    · refine ⟨rfl, rfl, rfl, rfl, rfl, rfl, rfl, rfl, rfl, rfl, ⟨rfl, rfl⟩, ?_⟩
      intro i
      dsimp only
      simp only [upd]
      by_cases e : i = id
      · subst e
        rw [if_pos rfl, hl]
        refine ⟨rfl, ?_⟩
        intro l' hl'
        injection hl' with hl'
        subst hl'
        exact ⟨l, rfl, rfl, rfl, rfl, rfl, rfl, hpos⟩
      · rw [if_neg e]
        refine ⟨rfl, ?_⟩
        intro l' hl'
        refine ⟨l', hl', rfl, rfl, rfl, rfl, rfl, ?_⟩
        have := h.lockOK i; rw [hl'] at this; exact this.1

theorem inv_slashLocksR {val : Nat} {f : Int} {skip : List Nat} {refill : List (Nat × Int)} :
    ∀ (n : Nat) (b b' : State), Inv b → slashLocksR b val f skip refill n = .ok b' → Inv b' ∧ SlashFrameR b b'
  | 0, b, b', h, hc => by
    unfold slashLocksR at hc; injection hc with hc; subst hc; exact ⟨h, SlashFrameR.refl h⟩
  | n + 1, b, b', h, hc => by
    unfold slashLocksR at hc
    split at hc
    · cases hc
    · rename_i b1 h1
      obtain ⟨i1, f1⟩ := inv_slashLocksR n b b1 h h1
      obtain ⟨i2, f2⟩ := inv_slashLockR i1 hc
      exact ⟨i2, f1.trans f2⟩

/-- the hooks of the top-ups mint or do nothing. -/
theorem refillHooks_bank : ∀ (r : List (Nat × Int)) (s s' : SState), refillHooks s r = .ok s' → BankOnly s.b s'.b
  | [], s, s', hc => by
    unfold refillHooks at hc; injection hc with hc; subst hc; exact BankOnly.refl _
  | (id, a) :: r, s, s', hc => by
    unfold refillHooks at hc
    split at hc
    · cases hc
    · split at hc
      · cases hc
      · split at hc
        · cases hc
        · rename_i s1 h1
          exact (increaseHookS_bank h1).trans (refillHooks_bank r s1 s' hc)

/-- **the 100 % slash with top-ups**: the burnt amount is positive and at most the validator's tokens, it leaves the bank
supply, the validator loses exactly that many tokens and none of its shares; of the lockup state only lock amounts
(staying positive) and accumulation stores change — no marker, no connection; then the hooks of the top-ups run, each
of which mints (and offsets) or — when the validator is left without tokens — does nothing. -/
theorem slashRefillS_ok {s s' : SState} {val : Nat} {p fr : Int} {skip : List Nat} {refill : List (Nat × Int)} {burn : Int}
    (h : Inv s.b) (hc : slashRefillS s val p fr skip refill = .ok (s', burn)) :
    burn ≠ 0 ∧ val ∈ s.b.validators ∧ ∃ a, burn = burnAmount a (s.k.val val).tokens ∧
      ∃ b1, Inv b1 ∧ SlashFrameR s.b b1 ∧
        refillHooks { b := { b1 with supply := b1.supply - burn },
                      k := setVal s.k val { (s.k.val val) with tokens := (s.k.val val).tokens - burn } } refill = .ok s' := by
  unfold slashRefillS at hc
  split at hc
  · cases hc
  · split at hc
    · cases hc
    · split at hc
      · cases hc
      · rename_i slashAmount _
        split at hc
        · cases hc
        · rename_i hv
          have hv' : val ∈ s.b.validators := Decidable.of_not_not hv
          split at hc
          · cases hc
          · rename_i hb0
            split at hc
            · cases hc
            · split at hc
              · cases hc
              · rename_i b1 hb1
                split at hc
                · cases hc
                · rename_i s2 hh
                  injection hc with hc
                  injection hc with e1 e2
                  have hI : Inv b1 ∧ SlashFrameR s.b b1 := by
                    split at hb1
                    · injection hb1 with hb1; subst hb1; exact ⟨h, SlashFrameR.refl h⟩
                    · exact inv_slashLocksR _ _ _ h hb1
                  subst e1
                  refine ⟨by rw [← e2]; exact hb0, hv', slashAmount, e2.symm, b1, hI.1, hI.2, ?_⟩
                  rw [← e2]; exact hh

theorem inv_slashRefillS {s s' : SState} {val : Nat} {p fr : Int} {skip : List Nat} {refill : List (Nat × Int)} {burn : Int}
    (h : Inv s.b) (hc : slashRefillS s val p fr skip refill = .ok (s', burn)) : Inv s'.b := by
  obtain ⟨_, _, _, _, b1, i1, _, hh⟩ := slashRefillS_ok h hc
  exact (refillHooks_bank _ _ _ hh).inv (i1.ledger_frame _ _ _)

/-! ## every call, every history -/

/-- the calls that do not reach the staking module are those of Model/Superfluid.lean on `b`. -/
def ledgerFree : Op → Bool
  | .lock .. => true
  | .unbond .. => true
  | .beginUnlock .. => true
  | .withdraw .. => true
  | .endBlock => true
  | .advance .. => true
  | _ => false

theorem except_map_ok {ε α β : Type} {f : α → β} {x : Except ε α} {y : β} (h : x.map f = .ok y) : ∃ r, x = .ok r ∧ f r = y :=
  map_ok h

theorem applyOpS_ledgerFree {s s' : SState} {op : Op} (hf : ledgerFree op = true) (hc : applyOpS s (.base op) = .ok s') :
    applyOp s.b op = .ok s'.b ∧ s'.k = s.k := by
  unfold applyOpS at hc
  obtain ⟨p, hp, hps⟩ := map_ok hc
  subst hps
  cases op with
  | lock o d a du sg =>
    obtain ⟨r, hr, hpr⟩ := map_ok (show (createLock s.b o d a du sg).map _ = .ok p from hp)
    subst hpr
    refine ⟨?_, rfl⟩
    show ((createLock s.b o d a du sg).map _).map _ = _
    rw [hr]; rfl
  | unbond snd id =>
    obtain ⟨r, hr, hpr⟩ := map_ok (show (superfluidUnbondLock s.b id snd).map _ = .ok p from hp)
    subst hpr
    refine ⟨?_, rfl⟩
    show ((superfluidUnbondLock s.b id snd).map _).map _ = _
    rw [hr]; rfl
  | beginUnlock snd id c =>
    obtain ⟨r, hr, hpr⟩ := map_ok (show (msgBeginUnlocking s.b snd id c).map _ = .ok p from hp)
    subst hpr
    refine ⟨?_, rfl⟩
    show ((msgBeginUnlocking s.b snd id c).map _).map _ = _
    rw [hr]; rfl
  | withdraw id =>
    obtain ⟨r, hr, hpr⟩ := map_ok (show (withdraw s.b id).map _ = .ok p from hp)
    subst hpr
    refine ⟨?_, rfl⟩
    show ((withdraw s.b id).map _).map _ = _
    rw [hr]; rfl
  | endBlock =>
    obtain ⟨r, hr, hpr⟩ := map_ok (show (endBlock s.b).map _ = .ok p from hp)
    subst hpr
    refine ⟨?_, rfl⟩
    show ((endBlock s.b).map _).map _ = _
    rw [hr]; rfl
  | advance dt =>
    obtain ⟨r, hr, hpr⟩ := map_ok (show (advance s.b dt).map _ = .ok p from hp)
    subst hpr
    refine ⟨?_, rfl⟩
    show ((advance s.b dt).map _).map _ = _
    rw [hr]; rfl
  | addToLock _ _ _ => cases hf
  | delegate _ _ _ => cases hf
  | undelegate _ _ => cases hf
  | undelegateAndUnbond _ _ _ => cases hf
  | epoch _ => cases hf

/-- **the invariant is preserved by every successful call, slashes included.** -/
theorem inv_applyOpS {s s' : SState} {op : OpS} (h : Inv s.b) (hc : applyOpS s op = .ok s') : Inv s'.b := by
  cases op with
  | slash v p f x =>
    unfold applyOpS at hc
    obtain ⟨q, hq, hqs⟩ := map_ok hc
    subst hqs
    obtain ⟨r, hr, hqr⟩ := map_ok (show (slashS s v p f x).map _ = .ok q from hq)
    subst hqr
    exact inv_slashS h (show slashS s v p f x = .ok (r.1, r.2) from hr)
  | epochO ups order =>
    unfold applyOpS at hc
    obtain ⟨q, hq, hqs⟩ := map_ok hc
    subst hqs
    obtain ⟨r, hr, hqr⟩ := map_ok (show (epochOS s ups order).map _ = .ok q from hq)
    subst hqr
    exact inv_epochOS h hr
  | slashRefill v p f x t =>
    unfold applyOpS at hc
    obtain ⟨q, hq, hqs⟩ := map_ok hc
    subst hqs
    obtain ⟨r, hr, hqr⟩ := map_ok (show (slashRefillS s v p f x t).map _ = .ok q from hq)
    subst hqr
    exact inv_slashRefillS h (show slashRefillS s v p f x t = .ok (r.1, r.2) from hr)
  | base op =>
    by_cases hf : ledgerFree op = true
    · obtain ⟨h1, _⟩ := applyOpS_ledgerFree hf hc
      exact inv_applyOp h h1
    · unfold applyOpS at hc
      obtain ⟨q, hq, hqs⟩ := map_ok hc
      subst hqs
      cases op with
      | addToLock snd id a =>
        obtain ⟨r, hr, hqr⟩ := map_ok (show (addTokensToLockS s snd id a).map _ = .ok q from hq)
        subst hqr; exact inv_addTokensToLockS h hr
      | delegate snd id v =>
        obtain ⟨r, hr, hqr⟩ := map_ok (show (superfluidDelegateS s snd id v).map _ = .ok q from hq)
        subst hqr; exact inv_superfluidDelegateS h hr
      | undelegate snd id =>
        obtain ⟨r, hr, hqr⟩ := map_ok (show (superfluidUndelegateS s snd id).map _ = .ok q from hq)
        subst hqr; exact inv_superfluidUndelegateS h hr
      | undelegateAndUnbond snd id a =>
        obtain ⟨r, hr, hqr⟩ := map_ok (show (superfluidUndelegateAndUnbondLockS s id snd a).map _ = .ok q from hq)
        subst hqr
        exact inv_undelegateAndUnbondS h (show superfluidUndelegateAndUnbondLockS s id snd a = .ok (r.1, r.2) from hr)
      | epoch ups =>
        obtain ⟨r, hr, hqr⟩ := map_ok (show (epochS s ups).map _ = .ok q from hq)
        subst hqr; exact inv_epochS h hr
      | lock _ _ _ _ _ => exact absurd rfl hf
      | unbond _ _ => exact absurd rfl hf
      | beginUnlock _ _ _ => exact absurd rfl hf
      | withdraw _ => exact absurd rfl hf
      | endBlock => exact absurd rfl hf
      | advance _ => exact absurd rfl hf

theorem inv_stepS {s : SState} (op : OpS) (h : Inv s.b) : Inv (stepS s op).b := by
  unfold stepS
  split
  · rename_i s' hs; exact inv_applyOpS h hs
  · exact h

theorem inv_runS : ∀ (ops : List OpS) (s : SState), Inv s.b → Inv (runS s ops).b
  | [], _, h => h
  | op :: r, s, h => inv_runS r (stepS s op) (inv_stepS op h)

end OsmoVerif.Superfluid
