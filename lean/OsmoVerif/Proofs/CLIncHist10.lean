/-
C08 (incentives, histories) helpers, part 10: frames.  A message that does not address a position leaves its six uptime records
untouched; join times never change once set; hence along histories.  Core only.
-/
import OsmoVerif.Proofs.CLIncHist9

namespace OsmoVerif.CLIncP
open OsmoVerif.Num OsmoVerif.CL OsmoVerif.CLPool OsmoVerif.CLFees OsmoVerif.CLInc OsmoVerif.CLFeesP OsmoVerif.CLBook
open OsmoVerif.Accum (amt sorted hev)
open OsmoVerif.Gen

/-- the message addresses position `x` on the incentive side (withdraws from it, adds to it, or collects its incentives). -/
def touchesI (op : IOp) (x : Nat) : Prop :=
  match op with
  | .fee (.withdraw _ id _) => id = x
  | .fee (.add _ id _ _) => id = x
  | .icollect _ id => id = x
  | _ => False

def joinOf (i : Inc) (x : Nat) : Option Int := (i.join.find? (·.1 = x)).map (·.2)

/-- what a message leaves alone: the six records of an un-addressed position, and every join time already set. -/
structure IFrame (s s' : Full) (x : Nat) : Prop where
  recs : ∀ k, getURec (accAt s'.inc k).recs x = getURec (accAt s.inc k).recs x
  join : joinOf s'.inc x = joinOf s.inc x

theorem accAt_ge {i : Inc} {k : Nat} (h : i.accs.length ≤ k) : accAt i k = {} := by
  unfold accAt; rw [List.getElem?_eq_none h]; rfl

theorem recs_of_grew {i i' : Inc} (hlen : i'.accs.length = i.accs.length)
    (hg : ∀ (k : Nat) (a : UAcc), i.accs[k]? = some a → ∃ a' : UAcc, i'.accs[k]? = some a' ∧ Grew a a') (k : Nat) :
    (accAt i' k).recs = (accAt i k).recs := by
  rcases Nat.lt_or_ge k i.accs.length with hk | hk
  · obtain ⟨a, ha⟩ := getElem?_of_lt hk
    obtain ⟨a', ha', e, _⟩ := hg k a ha
    rw [accAt_of ha, accAt_of ha', e]
  · rw [accAt_ge hk, accAt_ge (by omega)]

theorem sync_frame {f : Fees} {i i1 : Inc} {liq : Int} (hp : IncPart f i) (hs : sync i liq = some i1) (x : Nat) :
    (∀ k, getURec (accAt i1 k).recs x = getURec (accAt i k).recs x) ∧ joinOf i1 x = joinOf i x := by
  obtain ⟨hp1, _, _, _, j1, _, _, g1, _⟩ := sync_part hp hs
  refine ⟨fun k => by rw [recs_of_grew (by rw [hp1.len, hp.len]) g1 k], by unfold joinOf; rw [j1]⟩

theorem createI_frame {s s' : Full} {owner : String} {l u a0 a1 m0 m1 : Int} {id : Nat} {x0 x1 liq lo up : Int}
    (hi : IncInv s) (hc' : InvCore s'.fees.pool)
    (h : CLInc.createPositionMin s owner l u a0 a1 m0 m1 = some (s', id, x0, x1, liq, lo, up))
    {x : Nat} (hx : x < s.fees.pool.nextId) : IFrame s s' x := by
  obtain ⟨_, i1, hsync, _, _, _, _, ej, _, _, _, _, hoth⟩ := createMinI_part hi.fees hc' hi.inc h
  obtain ⟨_, eid, _⟩ := createMin_facts hi.fees.pool.core hi.fees.acc (createMinI_fees h)
  obtain ⟨_, j1⟩ := sync_frame hi.inc hsync x
  refine ⟨fun k => hoth k x (by omega), ?_⟩
  unfold joinOf at j1 ⊢
  rw [ej, find_join_append]
  cases hg : List.find? (fun e => decide (e.1 = x)) i1.join with
  | some v => rw [← j1, hg]
  | none =>
    simp only
    rw [if_neg (by omega), ← j1, hg]

theorem withdrawI_frame {s s' : Full} {owner : String} {id : Nat} {req o0 o1 : Int}
    (hi : IncInv s) (hf' : FullInv s'.fees)
    (h : CLInc.withdrawPosition s owner id req = some (s', o0, o1)) {x : Nat} (hx : x ≠ id) : IFrame s s' x := by
  obtain ⟨pos, i1, i2, coll, forf, byUp, b, i3, i4, joinT, hmem, hid, _, _, hsync, _, _, _, _, _, _, _, einc, _, _, _, ej, _, _, hp', chain⟩ :=
    withdrawI_part hi.fees hf' hi.inc h
  obtain ⟨_, j1⟩ := sync_frame hi.inc hsync x
  refine ⟨fun k => ?_, ?_⟩
  · rcases Nat.lt_or_ge k 6 with hk | hk
    · obtain ⟨⟨a0, a1, a4, _, _, _, _, _, _, _, ha0, _, _, ha4, _, _, _, _, _, _, _, _, _, _, _, hoth, _⟩⟩ := chain k hk
      rw [accAt_of ha0, accAt_of ha4]
      exact hoth x (by rw [hid]; exact hx)
    · rw [accAt_ge (by rw [hp'.len]; exact hk), accAt_ge (by rw [hi.inc.len]; exact hk)]
  · rw [← j1]
    unfold joinOf
    rw [einc]
    show (i4.join.find? _).map _ = _
    rw [ej]

theorem addI_frame {s s' : Full} {owner : String} {id nid : Nat} {add0 add1 x0 x1 : Int}
    (hi : IncInv s) (hf' : FullInv s'.fees)
    (h : CLInc.addToPosition s owner id add0 add1 = some (s', nid, x0, x1)) {x : Nat} (hx : x ≠ id) (hlt : x < s.fees.pool.nextId) :
    IFrame s s' x := by
  obtain ⟨pos, s1, w0, w1, liq, lo, up, hfind, hw, hne, hc⟩ := addI_spec h
  have hwf := withdrawI_fees hw
  have hap : applyF s.fees (.withdraw owner id pos.liq) = some s1.fees := by simp only [applyF, hwf, Option.map_some]
  obtain ⟨hf1, sf1⟩ := apply_facts hi.fees hap
  have f1 := withdrawI_facts hi hf1 sf1 hw
  have fr1 := withdrawI_frame hi hf1 hw hx
  obtain ⟨_, _, _, en, _⟩ := withdraw_positions hfind (by obtain ⟨_, _, _, hw', _⟩ := withdraw_spec hwf; exact hw')
  have fr2 := createI_frame f1.inv hf'.pool.core hc (x := x) (by rw [en]; exact hlt)
  exact ⟨fun k => by rw [fr2.recs k, fr1.recs k], by rw [fr2.join, fr1.join]⟩

theorem collectIncentivesI_frame {s s' : Full} {sender : String} {id : Nat} {c f : Coins}
    (hi : IncInv s) (h : collectIncentives s sender id = some (s', c, f)) {x : Nat} (hx : x ≠ id) : IFrame s s' x := by
  unfold collectIncentives at h
  simp only [Option.bind_eq_some_iff] at h
  obtain ⟨pos, hfind, h⟩ := h
  split at h
  · cases h
  · simp only [Option.bind_eq_some_iff, Option.map_eq_some_iff, Prod.mk.injEq] at h
    obtain ⟨i1, hsync, ⟨i2, coll, forf, byUp⟩, hclaim, b, _, e, _, _⟩ := h
    subst e
    obtain ⟨hmem, hid⟩ := find_id hfind
    obtain ⟨hp1, _⟩ := sync_part hi.inc hsync
    obtain ⟨r1, j1⟩ := sync_frame hi.inc hsync x
    rw [← hid] at hclaim
    obtain ⟨e2c, joinT, _, _, _, hpart, chain⟩ := claimI_stage hi.fees hp1 hmem hclaim
    refine ⟨fun k => ?_, ?_⟩
    · rw [← r1 k]
      rcases Nat.lt_or_ge k 6 with hk | hk
      · obtain ⟨⟨a1, a2, _, _, _, _, _, _, ha1, ha2, _, _, _, _, _, _, _, _, _, _, hoth, _⟩⟩ := chain k hk
        have : accAt ({ i2 with bal := b } : Inc) k = a2 := by unfold accAt; simp only; rw [ha2]; rfl
        rw [this, accAt_of ha1]
        exact hoth x (by rw [hid]; exact hx)
      · rw [accAt_ge (by rw [(hpart b).len]; exact hk), accAt_ge (by rw [hp1.len]; exact hk)]
    · rw [← j1]
      unfold joinOf
      show (i2.join.find? _).map _ = _
      rw [e2c]

theorem applyI_frame {s s' : Full} {op : IOp} (hi : IncInv s) (h : applyI s op = some s') {x : Nat}
    (hlt : x < s.fees.pool.nextId) (ht : ¬ touchesI op x) : IFrame s s' x := by
  have hfee := applyI_fees h
  have same : ∀ {i' : Inc}, i'.accs = s.inc.accs → i'.join = s.inc.join → IFrame s { s with inc := i' } x ∨ True := fun _ _ => Or.inr trivial
  cases op with
  | fee fop =>
    simp only [IOp.toFee] at hfee
    obtain ⟨hf', sf⟩ := apply_facts hi.fees hfee
    cases fop with
    | create o l u a0 a1 =>
      simp only [applyI, Option.map_eq_some_iff] at h
      obtain ⟨⟨s1, id, x0, x1, liq, lo, up⟩, h, e⟩ := h
      simp only at e; subst e
      exact createI_frame hi hf'.pool.core h hlt
    | withdraw o id liq =>
      simp only [applyI, Option.map_eq_some_iff] at h
      obtain ⟨⟨s1, o0, o1⟩, h, e⟩ := h
      simp only at e; subst e
      exact withdrawI_frame hi hf' h (fun e => ht (by show id = x; exact e.symm))
    | add o id a0 a1 =>
      simp only [applyI, Option.map_eq_some_iff] at h
      obtain ⟨⟨s2, nid, x0, x1⟩, h, e⟩ := h
      simp only at e; subst e
      exact addI_frame hi hf' h (fun e => ht (by show id = x; exact e.symm)) hlt
    | transfer sd id n =>
      simp only [applyI, CLInc.transferPosition, Option.map_eq_some_iff] at h
      obtain ⟨f', _, e⟩ := h
      subst e
      exact ⟨fun _ => rfl, rfl⟩
    | swap og zfo spec =>
      simp only [applyI, Option.map_eq_some_iff] at h
      obtain ⟨⟨s1, ain, aout, fee⟩, h, e⟩ := h
      simp only at e; subst e
      unfold CLInc.swap at h
      simp only [Option.bind_eq_some_iff] at h
      obtain ⟨⟨f', ai, ao, fe⟩, _, trs, _, h⟩ := h
      simp only at h
      split at h
      · simp only [Option.some.injEq, Prod.mk.injEq] at h
        obtain ⟨e1, _⟩ := h
        subst e1
        exact ⟨fun _ => rfl, rfl⟩
      · simp only [Option.bind_eq_some_iff, Option.map_eq_some_iff, Prod.mk.injEq] at h
        obtain ⟨i1, hsync, trk, _, e1, _⟩ := h
        subst e1
        obtain ⟨r1, j1⟩ := sync_frame hi.inc hsync x
        exact ⟨r1, j1⟩
    | collect sd id =>
      simp only [applyI, CLInc.collectSpread, Option.map_eq_some_iff] at h
      obtain ⟨⟨s1, c0, c1⟩, ⟨⟨f', d0, d1⟩, _, e0⟩, e⟩ := h
      simp only [Prod.mk.injEq] at e0
      obtain ⟨e0, _, _⟩ := e0
      simp only at e; subst e; subst e0
      exact ⟨fun _ => rfl, rfl⟩
  | incentive id d a r st u =>
    simp only [applyI] at h
    unfold createIncentive at h
    split at h
    · cases h
    · split at h
      · cases h
      · split at h
        · cases h
        · split at h
          · cases h
          · simp only [Option.bind_eq_some_iff, Option.map_eq_some_iff] at h
            obtain ⟨i1, hsync, b, _, e⟩ := h
            subst e
            obtain ⟨r1, j1⟩ := sync_frame hi.inc hsync x
            exact ⟨r1, j1⟩
  | advance ns =>
    simp only [applyI, Option.some.injEq] at h
    subst h
    exact ⟨fun _ => rfl, rfl⟩
  | sync =>
    simp only [applyI, syncNow, Option.map_eq_some_iff] at h
    obtain ⟨i1, hsync, e⟩ := h
    subst e
    obtain ⟨r1, j1⟩ := sync_frame hi.inc hsync x
    exact ⟨r1, j1⟩
  | icollect sd id =>
    simp only [applyI, Option.map_eq_some_iff] at h
    obtain ⟨⟨s1, c, f⟩, h, e⟩ := h
    simp only at e; subst e
    exact collectIncentivesI_frame hi h (fun e => ht (by show id = x; exact e.symm))

/-- join times are never changed by any message, addressed or not. -/
theorem applyI_join {s s' : Full} {op : IOp} (hi : IncInv s) (h : applyI s op = some s') {x : Nat}
    (hlt : x < s.fees.pool.nextId) : joinOf s'.inc x = joinOf s.inc x := by
  by_cases ht : touchesI op x
  · -- the addressed position: withdraw / add / incentive collect keep the join list (add appends a fresh id)
    cases op with
    | fee fop =>
      have hfee := applyI_fees h
      simp only [IOp.toFee] at hfee
      obtain ⟨hf', sf⟩ := apply_facts hi.fees hfee
      cases fop with
      | withdraw o id liq =>
        simp only [applyI, Option.map_eq_some_iff] at h
        obtain ⟨⟨s1, o0, o1⟩, h, e⟩ := h
        simp only at e; subst e
        obtain ⟨pos, i1, i2, coll, forf, byUp, b, i3, i4, joinT, _, _, _, _, hsync, _, _, _, _, _, _, _, einc, _, _, _, ej, _⟩ :=
          withdrawI_part hi.fees hf' hi.inc h
        obtain ⟨_, j1⟩ := sync_frame hi.inc hsync x
        rw [← j1]; unfold joinOf; rw [einc]; show (i4.join.find? _).map _ = _; rw [ej]
      | add o id a0 a1 =>
        simp only [applyI, Option.map_eq_some_iff] at h
        obtain ⟨⟨s2, nid, x0, x1⟩, h, e⟩ := h
        simp only at e; subst e
        obtain ⟨pos, s1, w0, w1, liq, lo, up, hfind, hw, hne, hc⟩ := addI_spec h
        have hwf := withdrawI_fees hw
        have hap : applyF s.fees (.withdraw o id pos.liq) = some s1.fees := by simp only [applyF, hwf, Option.map_some]
        obtain ⟨hf1, sf1⟩ := apply_facts hi.fees hap
        have f1 := withdrawI_facts hi hf1 sf1 hw
        obtain ⟨_, i1, _, _, _, _, _, _, i4, _, _, _, _, _, hsync, _, _, _, _, _, _, _, einc, _, _, _, ej, _⟩ := withdrawI_part hi.fees hf1 hi.inc hw
        obtain ⟨_, j1⟩ := sync_frame hi.inc hsync x
        obtain ⟨_, _, _, en, _⟩ := withdraw_positions hfind (by obtain ⟨_, _, _, hw', _⟩ := withdraw_spec hwf; exact hw')
        have fr2 := createI_frame f1.inv hf'.pool.core hc (x := x) (by rw [en]; exact hlt)
        rw [fr2.join, ← j1]; unfold joinOf; rw [einc]; show ((List.find? _ _).map _) = _; rw [ej]
      | create o l u a0 a1 => exact absurd ht (by simp [touchesI])
      | transfer sd id n => exact absurd ht (by simp [touchesI])
      | swap og zfo spec => exact absurd ht (by simp [touchesI])
      | collect sd id => exact absurd ht (by simp [touchesI])
    | icollect sd id =>
      simp only [applyI, Option.map_eq_some_iff] at h
      obtain ⟨⟨s1, c, f⟩, h, e⟩ := h
      simp only at e; subst e
      unfold collectIncentives at h
      simp only [Option.bind_eq_some_iff] at h
      obtain ⟨pos, hfind, h⟩ := h
      split at h
      · cases h
      · simp only [Option.bind_eq_some_iff, Option.map_eq_some_iff, Prod.mk.injEq] at h
        obtain ⟨i1, hsync, ⟨i2, coll, forf, byUp⟩, hclaim, b, _, e, _, _⟩ := h
        subst e
        obtain ⟨_, j1⟩ := sync_frame hi.inc hsync x
        obtain ⟨c1, c2, c3, c4, c5, c6⟩ := claimAll_frame hclaim
        rw [← j1]; unfold joinOf; show (i2.join.find? _).map _ = _; rw [c6]
    | incentive id d a r st u => exact absurd ht (by simp [touchesI])
    | advance ns => exact absurd ht (by simp [touchesI])
    | sync => exact absurd ht (by simp [touchesI])
  · exact (applyI_frame hi h hlt ht).join

/-! ## histories -/

theorem runI_join {s : Full} (ops : List IOp) (hi : IncInv s) {x : Nat} (hlt : x < s.fees.pool.nextId) :
    joinOf (runI s ops).inc x = joinOf s.inc x := by
  induction ops generalizing s with
  | nil => rfl
  | cons op ops ih =>
    have sf := stepI_facts op hi
    show joinOf (runI (stepI s op) ops).inc x = _
    rw [ih sf.inv (by have := sf.nextId; omega)]
    rcases stepI_cases s op with h | ⟨s', h, e⟩
    · rw [h]
    · rw [e]; exact applyI_join hi h hlt

theorem runI_frame {s : Full} (ops : List IOp) (hi : IncInv s) {x : Nat} (hlt : x < s.fees.pool.nextId)
    (ht : ∀ op ∈ ops, ¬ touchesI op x) : IFrame s (runI s ops) x := by
  induction ops generalizing s with
  | nil => exact ⟨fun _ => rfl, rfl⟩
  | cons op ops ih =>
    have sf := stepI_facts op hi
    have h2 := ih sf.inv (by have := sf.nextId; omega) (fun o ho => ht o (List.mem_cons_of_mem _ ho))
    have h1 : IFrame s (stepI s op) x := by
      rcases stepI_cases s op with h | ⟨s', h, e⟩
      · rw [h]; exact ⟨fun _ => rfl, rfl⟩
      · rw [e]; exact applyI_frame hi h hlt (ht op List.mem_cons_self)
    exact ⟨fun k => by show getURec (accAt (runI (stepI s op) ops).inc k).recs x = _; rw [h2.recs k, h1.recs k],
      by show joinOf (runI (stepI s op) ops).inc x = _; rw [h2.join, h1.join]⟩

end OsmoVerif.CLIncP
