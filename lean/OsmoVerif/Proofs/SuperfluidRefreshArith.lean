/- C11, refresh at an exchange rate ≠ 1: the integer arithmetic of x/staking's share ↔ token conversions, free of the
model (every statement is about plain integers; `P` stands for 10¹⁸).  `T`,`S` = the validator's tokens and raw shares,
`d` = the raw shares of one delegation, `a` = the whole-token amount the refresh mints or asks to burn.

Everything is cross-multiplied; the reading in tokens is in the comments (`X = d·T/S` is the exact stake). -/
import OsmoVerif.Spec.Rounding
import Mathlib.Tactic.Linarith
import Mathlib.Tactic.Ring

namespace OsmoVerif.Superfluid.RefreshArith
open OsmoVerif.Spec

/-- `RoundInt(TokensFromShares(d))` against the exact stake: with `q = ⌊d·T·P²/S⌋`, `tfs = round(q/P)` (the 18-decimal
`TokensFromShares`), `cur = round(tfs/P)` (`RoundInt`):  `−(½ + ½·10⁻¹⁸) ≤ X − cur < ½ + ½·10⁻¹⁸ + 10⁻³⁶`. -/
theorem cur_bounds {P S T d q tfs cur : Int} (hP : 0 < P) (hS : 0 < S)
    (hq1 : q * S ≤ d * T * (P * P)) (hq2 : d * T * (P * P) < q * S + S)
    (h1 : IsHalfEven q P tfs) (h2 : IsHalfEven tfs P cur) :
    -((P * P + P) * S) ≤ 2 * (d * T * (P * P) - cur * (P * P) * S) ∧
    2 * (d * T * (P * P) - cur * (P * P) * S) < (P * P + P + 2) * S := by
  obtain ⟨a1, a2, _⟩ := h1
  obtain ⟨b1, b2, _⟩ := h2
  have hPS : 0 < P * S := Int.mul_pos hP hS
  have e1 : 2 * (q - tfs * P) * S ≤ P * S := Int.mul_le_mul_of_nonneg_right a1 (Int.le_of_lt hS)
  have e2 : -P * S ≤ 2 * (q - tfs * P) * S := Int.mul_le_mul_of_nonneg_right (by linarith) (Int.le_of_lt hS)
  have e3 : 2 * (tfs - cur * P) * (P * S) ≤ P * (P * S) := Int.mul_le_mul_of_nonneg_right b1 (Int.le_of_lt hPS)
  have e4 : -P * (P * S) ≤ 2 * (tfs - cur * P) * (P * S) :=
    Int.mul_le_mul_of_nonneg_right (by linarith) (Int.le_of_lt hPS)
  constructor <;> nlinarith

/-- the refresh's `currentAmount` is never negative for a non-negative stake … -/
theorem halfEven_nonneg {n P r : Int} (hP : 0 < P) (hn : 0 ≤ n) (h : IsHalfEven n P r) : 0 ≤ r := by
  obtain ⟨_, a2, _⟩ := h
  by_contra hneg
  have : r ≤ -1 := by omega
  have : r * P ≤ -1 * P := Int.mul_le_mul_of_nonneg_right this (Int.le_of_lt hP)
  nlinarith

/-- … and rounding is monotone against an integer bound: `n ≤ R·P ⇒ round(n/P) ≤ R`. -/
theorem halfEven_le {n P r R : Int} (hP : 0 < P) (hn : n ≤ R * P) (h : IsHalfEven n P r) : r ≤ R := by
  obtain ⟨_, a2, _⟩ := h
  by_contra hgt
  have : R + 1 ≤ r := by omega
  have : (R + 1) * P ≤ r * P := Int.mul_le_mul_of_nonneg_right this (Int.le_of_lt hP)
  nlinarith

/-- `R·P ≤ n ⇒ R ≤ round(n/P)`. -/
theorem halfEven_ge {n P r R : Int} (hP : 0 < P) (hn : R * P ≤ n) (h : IsHalfEven n P r) : R ≤ r := by
  obtain ⟨a1, _, _⟩ := h
  by_contra hlt
  have : r ≤ R - 1 := by omega
  have : r * P ≤ (R - 1) * P := Int.mul_le_mul_of_nonneg_right this (Int.le_of_lt hP)
  nlinarith

/-- floors are unique. -/
theorem floor_unique {n D x y : Int} (hD : 0 < D) (hx1 : x * D ≤ n) (hx2 : n < x * D + D) (hy1 : y * D ≤ n) (hy2 : n < y * D + D) :
    x = y := by
  have h1 : x < y + 1 := by
    by_contra h
    have : y + 1 ≤ x := by omega
    have : (y + 1) * D ≤ x * D := Int.mul_le_mul_of_nonneg_right this (Int.le_of_lt hD)
    nlinarith
  have h2 : y < x + 1 := by
    by_contra h
    have : x + 1 ≤ y := by omega
    have : (x + 1) * D ≤ y * D := Int.mul_le_mul_of_nonneg_right this (Int.le_of_lt hD)
    nlinarith
  omega

/-- `SharesFromTokensTruncated(a) = SharesFromTokens(a)` for `a ≥ 0`: `⌊S·a·P / (T·P)⌋ = ⌊S·a / T⌋`. -/
theorem truncated_eq {P S T a sh sht : Int} (hP : 0 < P) (hT : 0 < T)
    (h1 : sh * T ≤ S * a) (h2 : S * a < sh * T + T)
    (k1 : sht * (T * P) ≤ S * a * P) (k2 : S * a * P < sht * (T * P) + T * P) : sht = sh := by
  have hTP : 0 < T * P := Int.mul_pos hT hP
  refine floor_unique hTP k1 k2 ?_ ?_
  · have := Int.mul_le_mul_of_nonneg_right h1 (Int.le_of_lt hP)
    nlinarith
  · have : (S * a + 1) * P ≤ (sh * T + T) * P := Int.mul_le_mul_of_nonneg_right (by omega) (Int.le_of_lt hP)
    nlinarith

/-- **mint + delegate** of `a` tokens: `i = ⌊S·a/T⌋` shares are issued (`δ = S·a − i·T`, `0 ≤ δ < T`, is what the floor
drops).  The delegation's new exact stake is `X' = X + a − δ·(S−d)/(S·S')`: never more than `X + a`, short of it by less
than `T/S'` — as an identity between cross-multiplied integers. -/
theorem mint_identity (S T d a i : Int) :
    (d + i) * (T + a) * S = (d * T + a * S) * (S + i) - (S * a - i * T) * (S - d) := by ring

theorem mint_bounds {S T d a i : Int} (_hS : 0 < S) (hd : d ≤ S)
    (h1 : i * T ≤ S * a) (h2 : S * a < i * T + T) :
    (d * T + a * S) * (S + i) - T * (S - d) ≤ (d + i) * (T + a) * S ∧
    (d + i) * (T + a) * S ≤ (d * T + a * S) * (S + i) := by
  rw [mint_identity]
  have hδ0 : 0 ≤ S * a - i * T := by linarith
  have hδ1 : S * a - i * T ≤ T := by linarith
  have hsd : 0 ≤ S - d := by linarith
  have e1 : 0 ≤ (S * a - i * T) * (S - d) := Int.mul_nonneg hδ0 hsd
  have e2 : (S * a - i * T) * (S - d) ≤ T * (S - d) := Int.mul_le_mul_of_nonneg_right hδ1 hsd
  constructor <;> linarith

/-- strict form: `X' > X + a − T/S'` (the floor drops `δ < T`, and `S − d ≤ S`). -/
theorem mint_lower_strict {S T d a i : Int} (hS : 0 < S) (hT : 0 < T) (hd0 : 0 ≤ d) (hd : d ≤ S)
    (h1 : i * T ≤ S * a) (h2 : S * a < i * T + T) :
    (d * T + a * S) * (S + i) - T * S < (d + i) * (T + a) * S := by
  rw [mint_identity]
  have hδ0 : 0 ≤ S * a - i * T := by linarith
  have hδ1 : S * a - i * T ≤ T - 1 := by omega
  have hsd : 0 ≤ S - d := by linarith
  have e2 : (S * a - i * T) * (S - d) ≤ (T - 1) * (S - d) := Int.mul_le_mul_of_nonneg_right hδ1 hsd
  have e3 : (T - 1) * (S - d) ≤ (T - 1) * S := Int.mul_le_mul_of_nonneg_left (by omega) (by omega)
  nlinarith

/-- the same mint seen by ANOTHER delegation (`d` shares, unchanged) of the validator: its stake moves from `d·T/S` to
`d·T'/S'`, up by `d·δ/(S·S')` — at least 0, less than `d·T/(S·S')`. -/
theorem mint_other_identity (S T d a i : Int) :
    d * (T + a) * S - d * T * (S + i) = d * (S * a - i * T) := by ring

/-- **force-undelegate + burn** of `a` requested tokens: `sh = ⌊S·a/T⌋` shares are removed, `got` tokens paid out.  The
delegation's new exact stake is `X' = X − a + δ/S + (d'/S')·(sh·T/S − got)`. -/
theorem burn_identity (S T d a sh got : Int) :
    (d - sh) * (T - got) * S = (d * T - a * S) * (S - sh) + (S * a - sh * T) * (S - sh) + (d - sh) * (sh * T - got * S) := by
  ring

/-- the same burn seen by ANOTHER delegation (`d` shares, unchanged): up by `(d/S')·(sh·T/S − got)`. -/
theorem burn_other_identity (S T d sh got : Int) :
    d * (T - got) * S - d * T * (S - sh) = d * (sh * T - got * S) := by ring

/-- what `RemoveDelShares` pays for `sh` shares — `got = ⌊tfs/P⌋`, `tfs = round(q/P)`, `q = ⌊sh·T·P²/S⌋` — against their
exact worth `r = sh·T/S`:  `−½·10⁻¹⁸ ≤ r − got < 1 − ½·10⁻¹⁸ + 10⁻³⁶`. -/
theorem got_bounds {P S T sh q tfs got : Int} (hP : 0 < P) (hS : 0 < S)
    (hq1 : q * S ≤ sh * T * (P * P)) (hq2 : sh * T * (P * P) < q * S + S)
    (h1 : IsHalfEven q P tfs) (g1 : got * P ≤ tfs) (g2 : tfs < got * P + P) :
    -(P * S) ≤ 2 * ((sh * T - got * S) * (P * P)) ∧
    2 * ((sh * T - got * S) * (P * P)) < (2 * (P * P) - P + 2) * S := by
  obtain ⟨a1, a2, _⟩ := h1
  have hPS : 0 < P * S := Int.mul_pos hP hS
  have e1 : 2 * (q - tfs * P) * S ≤ P * S := Int.mul_le_mul_of_nonneg_right a1 (Int.le_of_lt hS)
  have e2 : -P * S ≤ 2 * (q - tfs * P) * S := Int.mul_le_mul_of_nonneg_right (by linarith) (Int.le_of_lt hS)
  have e3 : (got * P) * (P * S) ≤ tfs * (P * S) := Int.mul_le_mul_of_nonneg_right g1 (Int.le_of_lt hPS)
  have e4 : tfs * (P * S) ≤ (got * P + P - 1) * (P * S) := Int.mul_le_mul_of_nonneg_right (by omega) (Int.le_of_lt hPS)
  constructor <;> nlinarith

/-- the payout never exceeds the requested amount: `sh·T ≤ S·a ⇒ got ≤ a`. -/
theorem got_le {P S T a sh q tfs got : Int} (hP : 0 < P) (hS : 0 < S)
    (h1 : sh * T ≤ S * a) (hq1 : q * S ≤ sh * T * (P * P))
    (hr : IsHalfEven q P tfs) (g1 : got * P ≤ tfs) : got ≤ a := by
  -- q ≤ a·P² ⇒ tfs ≤ a·P ⇒ got ≤ a
  have hq : q ≤ (a * P) * P := by
    by_contra h
    have : (a * P) * P + 1 ≤ q := by omega
    have := Int.mul_le_mul_of_nonneg_right this (Int.le_of_lt hS)
    have := Int.mul_le_mul_of_nonneg_right h1 (Int.le_of_lt (Int.mul_pos hP hP))
    nlinarith
  have ht : tfs ≤ a * P := halfEven_le hP hq hr
  by_contra h
  have : a + 1 ≤ got := by omega
  have := Int.mul_le_mul_of_nonneg_right this (Int.le_of_lt hP)
  nlinarith

/-- **the force-undelegation is rejected only when nothing at all is expected**: if the shares for `cur − e` tokens
exceed the delegation (`(cur − e)·S ≥ (d+1)·T`) then `e ≤ 0` (so `e = 0`): the refresh cannot empty an account whose
stake it reads rounded UP. -/
theorem reject_expected_zero {P S T d cur e : Int} (hP : 2 ≤ P) (hS : 0 < S) (hT : 0 < T)
    (hc : -((P * P + P) * S) ≤ 2 * (d * T * (P * P) - cur * (P * P) * S))
    (hrej : (d + 1) * T ≤ (cur - e) * S) : e ≤ 0 := by
  by_contra h
  have he : 1 ≤ e := by omega
  have hPP : 0 < P * P := Int.mul_pos (by omega) (by omega)
  have h1 : (d + 1) * T * (P * P) ≤ (cur - e) * S * (P * P) := Int.mul_le_mul_of_nonneg_right hrej (Int.le_of_lt hPP)
  have h2 : 1 * (S * (P * P)) ≤ e * (S * (P * P)) := Int.mul_le_mul_of_nonneg_right he (Int.le_of_lt (Int.mul_pos hS hPP))
  have h3 : 0 < T * (P * P) := Int.mul_pos hT hPP
  have h4 : P * S ≤ P * P * S := by
    have : 1 * (P * S) ≤ P * (P * S) := Int.mul_le_mul_of_nonneg_right (by omega) (Int.le_of_lt (Int.mul_pos (by omega) hS))
    nlinarith
  nlinarith

/-- … and then the stake that stays is at most `cur − T/S` and at least `cur − ½ − ½·10⁻¹⁸` — with `cur ≥ 1` ANY whole
number: the amount left staked against an expected amount of zero is unbounded. -/
theorem reject_stake_le {S T d cur e : Int} (he : 0 ≤ e) (hS : 0 < S) (hrej : (d + 1) * T ≤ (cur - e) * S) :
    d * T + T ≤ cur * S := by
  have : 0 ≤ e * S := Int.mul_nonneg he (Int.le_of_lt hS)
  nlinarith

/-- a full removal of the delegation (`sh = d`) only happens when nothing is expected. -/
theorem full_removal_expected_zero {P S T d cur e : Int} (hP : 2 ≤ P) (hS : 0 < S)
    (hc : -((P * P + P) * S) ≤ 2 * (d * T * (P * P) - cur * (P * P) * S))
    (h1 : d * T ≤ S * (cur - e)) : e ≤ 0 := by
  by_contra h
  have he : 1 ≤ e := by omega
  have hPP : 0 < P * P := Int.mul_pos (by omega) (by omega)
  have h1' : d * T * (P * P) ≤ S * (cur - e) * (P * P) := Int.mul_le_mul_of_nonneg_right h1 (Int.le_of_lt hPP)
  have h2 : 1 * (S * (P * P)) ≤ e * (S * (P * P)) := Int.mul_le_mul_of_nonneg_right he (Int.le_of_lt (Int.mul_pos hS hPP))
  have h4 : P * S < P * P * S := by
    have : 2 * (P * S) ≤ P * (P * S) := Int.mul_le_mul_of_nonneg_right hP (Int.le_of_lt (Int.mul_pos (by omega) hS))
    have : 0 < P * S := Int.mul_pos (by omega) hS
    nlinarith
  nlinarith

end OsmoVerif.Superfluid.RefreshArith
