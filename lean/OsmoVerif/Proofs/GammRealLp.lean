/- Balancer single-asset joins and exits over the reals: the integer results of `calcSingleAssetJoin`,
`CalcTokenInShareAmountOut` and `ExitSwapExactAmountOut` as floor / ceiling / truncation of real expressions in the
value returned by `Pow`, and the CONDITIONAL accuracy statements. -/
import OsmoVerif.Proofs.GammRealSwap

namespace OsmoVerif.GammMath
open OsmoVerif.Num OsmoVerif.MathM OsmoVerif.Gen OsmoVerif.Spec

set_option linter.unusedSimpArgs false

/-- The `Pow` call of `calcSingleAssetJoin(tokenIn = amt, spread, asset, totalShares)`: normalized weight `nw`
(the exponent, used as is: `nw.Quo(1) = nw`), `feeRatio` `fr`, base `y = (A + amt·fr)/A`, `Pow` value `pw`. -/
structure JoinCall (p : BalPool) (amt spread : Int) (asset : BalAsset) (nw fr y pw : Int) : Prop where
  hnw : Dec.quo (toDec asset.weight) (toDec p.totalWeight) = some nw
  hfr : feeRatio nw spread = some fr
  hy : Dec.quo (toDec asset.amount + amt * fr) (toDec asset.amount) = some y
  hpw : pow y nw = some pw

/-- The `Pow` call of `CalcTokenInShareAmountOut(denom, sharesOut, spread)`: exponent `wr = 1/nw` (half-even), base
`y = (S + sharesOut)/S`, and the Dec quotient `q` of `(pw − 1)·A` by `feeRatio` whose ceiling is charged. -/
structure ShareOutCall (p : BalPool) (denom : String) (sharesOut spread : Int) (a : BalAsset)
    (nw wr y pw fr q : Int) : Prop where
  hA : findAsset p.assets denom = some a
  hnw : Dec.quo (toDec a.weight) (toDec p.totalWeight) = some nw
  hwr : Dec.quo P18 nw = some wr
  hy : Dec.quo (toDec p.totalShares + toDec sharesOut) (toDec p.totalShares) = some y
  hpw : pow y wr = some pw
  hfr : feeRatio nw spread = some fr
  hq : Dec.quo ((pw - P18) * a.amount) fr = some q

/-- The `Pow` call of `ExitSwapExactAmountOut(denom, amtOut)`: `outFee = amtOut/feeRatio` (half-even), base
`y = (A − outFee)/A`, exponent `nw`, and the Dec quotient `x` of `(1 − pw)·S` by `(1 − exitFee)` that is TRUNCATED. -/
structure ExitCall (p : BalPool) (denom : String) (amtOut : Int) (a : BalAsset)
    (nw fr outFee y pw x : Int) : Prop where
  hA : findAsset p.assets denom = some a
  hnw : Dec.quo (toDec a.weight) (toDec p.totalWeight) = some nw
  hfr : feeRatio nw p.swapFee = some fr
  hof : Dec.quo (toDec amtOut) fr = some outFee
  hy : Dec.quo (toDec a.amount - outFee) (toDec a.amount) = some y
  hpw : pow y nw = some pw
  hx : Dec.quo ((P18 - pw) * p.totalShares) (P18 - p.exitFee) = some x

/-! ### integer-level specs -/

/-- FULL. Shape of a successful `calcSingleAssetJoin`: GIVEN the `Pow` value, the shares minted are the exact product
`(pw − 1)·totalShares` TRUNCATED toward zero (floor when it is non-negative: never more than the formula). -/
theorem balCalcSingleAssetJoin_spec {p : BalPool} {denom : String} {amt spread T t : Int} {asset : BalAsset}
    (h : balCalcSingleAssetJoin p denom amt spread asset T = .ok t) :
    ∃ nw fr y pw, JoinCall p amt spread asset nw fr y pw ∧ IsTrunc ((pw - P18) * T) P18 t := by
  unfold balCalcSingleAssetJoin at h
  split at h
  · cases h
  · cases hf : findAsset p.assets denom with
    | none => simp [hf] at h; cases h
    | some a0 =>
      simp only [hf] at h
      split at h
      · cases h
      · cases h1 : Dec.quo (toDec asset.weight) (toDec p.totalWeight) with
        | none => simp [h1, pn, bind, Except.bind] at h
        | some nw =>
          cases h2 : sharesOutGivenSingleIn (toDec asset.amount) nw (toDec T) (toDec amt) spread with
          | none => simp [h1, h2, pn, bind, Except.bind] at h
          | some r =>
            simp only [h1, h2, pn, bind, Except.bind] at h
            have ht := Dec_truncateInt_spec (pn_ok h)
            obtain ⟨fr, y, pw, e1, e2, e3, e4⟩ := sharesOutGivenSingleIn_spec h2
            refine ⟨nw, fr, y, pw, ⟨h1, e1, e2, e3⟩, ?_⟩
            rw [ht, e4]; exact tdiv_isTrunc _ _ P18_pos

/-- FULL. Shape of a successful `CalcTokenInShareAmountOut`: GIVEN the `Pow` value, the tokens charged are the
CEILING of the half-even quotient of `(pw − 1)·reserve` by `feeRatio`. -/
theorem balTokenInShareOut_spec {p : BalPool} {denom : String} {sharesOut spread t : Int}
    (h : balTokenInShareOut p denom sharesOut spread = .ok t) :
    ∃ a nw wr y pw fr q, ShareOutCall p denom sharesOut spread a nw wr y pw fr q ∧
      0 < t ∧ q ≤ t * P18 ∧ (t - 1) * P18 < q := by
  unfold balTokenInShareOut at h
  split at h
  · cases h
  · cases hf : findAsset p.assets denom with
    | none => simp [hf] at h; cases h
    | some a =>
      simp only [hf] at h
      cases h1 : Dec.quo (toDec a.weight) (toDec p.totalWeight) with
      | none => simp [h1, pn, bind, Except.bind] at h
      | some nw =>
        cases h2 : singleInGivenSharesOut (toDec a.amount) nw (toDec p.totalShares) (toDec sharesOut) spread with
        | none => simp [h1, h2, pn, bind, Except.bind] at h
        | some x =>
          simp only [h1, h2, pn, bind, Except.bind] at h
          have hin : inCeil x = .ok t := by
            unfold inCeil; simp only [pn, bind, Except.bind]; exact h
          obtain ⟨t0, t1, t2⟩ := inCeil_spec hin
          obtain ⟨wr, y, pw, fr, e1, e2, e3, e4, e5⟩ := singleInGivenSharesOut_spec h2
          exact ⟨a, nw, wr, y, pw, fr, x, ⟨hf, h1, e1, e2, e3, e4, e5⟩, t0, t1, t2⟩

/-- a map that keeps denoms commutes with `findAsset`. -/
theorem findAsset_map (as : List BalAsset) (f : BalAsset → BalAsset) (hf : ∀ a, (f a).denom = a.denom) (d : String) :
    findAsset (as.map f) d = (findAsset as d).map f := by
  unfold findAsset
  rw [List.find?_map]
  congr 1
  congr 1
  funext a
  simp only [Function.comp, hf]

/-- `exitPool`'s balance update read back on one asset. -/
theorem balExitApply_spec {p p' : BalPool} {exited : Coins} {shares : Int}
    (h : balExitApply p exited shares = .ok p') :
    p'.totalShares = p.totalShares - shares ∧ 0 ≤ p.totalShares - shares ∧ p'.totalWeight = p.totalWeight ∧
    ∀ d a, findAsset p.assets d = some a →
      0 ≤ a.amount - amountOf exited d ∧
      findAsset p'.assets d = some { a with amount := writtenAmount a.amount (a.amount - amountOf exited d) } := by
  unfold balExitApply at h
  split at h
  · cases h
  · rename_i hneg
    split at h
    · cases h
    · cases hs : isub p.totalShares shares with
      | error e => simp [hs, bind, Except.bind] at h
      | ok ts =>
        simp only [hs, bind, Except.bind] at h
        have ets : ts = p.totalShares - shares := by unfold isub at hs; exact chkInt_some (pn_ok hs)
        split at h
        · cases h
        · rename_i hts
          injection h with h
          subst h
          refine ⟨ets, by omega, rfl, ?_⟩
          intro d a hfa
          have hden := findAsset_denom hfa
          subst hden
          have hmem : a ∈ p.assets := by unfold findAsset at hfa; exact List.mem_of_find?_eq_some hfa
          constructor
          · have : ¬ (a.amount - amountOf exited a.denom < 0) := by
              intro hc
              apply hneg
              rw [List.any_eq_true]
              exact ⟨a, hmem, by simpa using hc⟩
            omega
          · rw [findAsset_map _ _ (by intro a; split <;> rfl), hfa, Option.map_some]
            unfold writtenAmount
            split <;> rfl

/-- FULL. Shape of a successful `ExitSwapExactAmountOut`: GIVEN the `Pow` value, the shares burned are the FLOOR
(`TruncateInt` of a positive Dec) of the half-even quotient `x` of `(1 − pw)·totalShares` by `(1 − exitFee)` — the
truncation is in the EXITER's favour (fewer shares burned than the Dec formula asks, by less than one share); the pool
loses exactly `amtOut` of the asset and exactly those shares. -/
theorem balExitSwapOut_spec {p p' : BalPool} {denom : String} {amtOut maxShares s : Int}
    (h : balExitSwapOut p denom amtOut maxShares = .ok (s, p')) :
    ∃ a nw fr outFee y pw x, ExitCall p denom amtOut a nw fr outFee y pw x ∧
      0 < s ∧ s ≤ maxShares ∧ s * P18 ≤ x ∧ x < (s + 1) * P18 ∧ 0 ≤ amtOut ∧ amtOut ≤ a.amount ∧
      p'.totalShares = p.totalShares - s ∧ s ≤ p.totalShares ∧
      findAsset p'.assets denom = some { a with amount := writtenAmount a.amount (a.amount - amtOut) } := by
  unfold balExitSwapOut at h
  split at h
  · cases h
  · cases hf : findAsset p.assets denom with
    | none => simp [hf] at h; cases h
    | some a =>
      simp only [hf] at h
      cases h1 : Dec.quo (toDec a.weight) (toDec p.totalWeight) with
      | none => simp [h1, pn, bind, Except.bind] at h
      | some nw =>
        cases h2 : sharesInGivenSingleOut (toDec a.amount) nw (toDec p.totalShares) (toDec amtOut) p.swapFee p.exitFee with
        | none => simp [h1, h2, pn, bind, Except.bind] at h
        | some x =>
          cases h3 : Dec.truncateInt x with
          | none => simp [h1, h2, h3, pn, bind, Except.bind] at h
          | some s' =>
            simp only [h1, h2, h3, pn, bind, Except.bind] at h
            split at h
            · cases h
            · rename_i hpos
              split at h
              · cases h
              · rename_i hmax
                split at h
                · cases h
                · rename_i hamt
                  cases h4 : balExitApply p (if amtOut = 0 then [] else [(denom, amtOut)]) s' with
                  | error e => simp [h4] at h
                  | ok q =>
                    simp only [h4, pure, Except.pure] at h
                    injection h with h; injection h with hs hp
                    subst hs; subst hp
                    obtain ⟨fr, outFee, y, pw, e1, e2, e3, e4, e5⟩ := sharesInGivenSingleOut_spec h2
                    have hout : outTrunc x = .ok s' := by
                      unfold outTrunc; simp only [h3, pn, bind, Except.bind]; rw [if_pos (by omega)]; rfl
                    obtain ⟨t0, t1, t2⟩ := outTrunc_spec hout
                    obtain ⟨g1, g2, _, g4⟩ := balExitApply_spec h4
                    obtain ⟨g5, g6⟩ := g4 denom a hf
                    have ham : amountOf (if amtOut = 0 then [] else [(denom, amtOut)]) denom = amtOut := by
                      split
                      · rename_i hz; rw [hz]; rfl
                      · simp [amountOf]
                    rw [ham] at g5 g6
                    exact ⟨a, nw, fr, outFee, y, pw, x, ⟨hf, h1, e1, e2, e3, e4, e5⟩, t0, by omega, t1, t2,
                      by omega, by omega, g1, by omega, g6⟩

/-! ### the calls are functions of the pool and the arguments -/

theorem JoinCall.unique {p : BalPool} {amt spread : Int} {asset : BalAsset} {nw fr y pw nw' fr' y' pw' : Int}
    (h : JoinCall p amt spread asset nw fr y pw) (h' : JoinCall p amt spread asset nw' fr' y' pw') :
    nw = nw' ∧ fr = fr' ∧ y = y' ∧ pw = pw' := by
  have e1 : nw = nw' := Option.some.inj (h.hnw.symm.trans h'.hnw)
  subst e1
  have e2 : fr = fr' := Option.some.inj (h.hfr.symm.trans h'.hfr)
  subst e2
  have e3 : y = y' := Option.some.inj (h.hy.symm.trans h'.hy)
  subst e3
  exact ⟨rfl, rfl, rfl, Option.some.inj (h.hpw.symm.trans h'.hpw)⟩

theorem ShareOutCall.unique {p : BalPool} {denom : String} {so spread : Int} {a a' : BalAsset}
    {nw wr y pw fr q nw' wr' y' pw' fr' q' : Int}
    (h : ShareOutCall p denom so spread a nw wr y pw fr q) (h' : ShareOutCall p denom so spread a' nw' wr' y' pw' fr' q') :
    a = a' ∧ nw = nw' ∧ wr = wr' ∧ y = y' ∧ pw = pw' ∧ fr = fr' ∧ q = q' := by
  have e0 : a = a' := Option.some.inj (h.hA.symm.trans h'.hA)
  subst e0
  have e1 : nw = nw' := Option.some.inj (h.hnw.symm.trans h'.hnw)
  subst e1
  have e2 : wr = wr' := Option.some.inj (h.hwr.symm.trans h'.hwr)
  subst e2
  have e3 : y = y' := Option.some.inj (h.hy.symm.trans h'.hy)
  subst e3
  have e4 : pw = pw' := Option.some.inj (h.hpw.symm.trans h'.hpw)
  subst e4
  have e5 : fr = fr' := Option.some.inj (h.hfr.symm.trans h'.hfr)
  subst e5
  exact ⟨rfl, rfl, rfl, rfl, rfl, rfl, Option.some.inj (h.hq.symm.trans h'.hq)⟩

theorem ExitCall.unique {p : BalPool} {denom : String} {amtOut : Int} {a a' : BalAsset}
    {nw fr outFee y pw x nw' fr' outFee' y' pw' x' : Int}
    (h : ExitCall p denom amtOut a nw fr outFee y pw x) (h' : ExitCall p denom amtOut a' nw' fr' outFee' y' pw' x') :
    a = a' ∧ nw = nw' ∧ fr = fr' ∧ outFee = outFee' ∧ y = y' ∧ pw = pw' ∧ x = x' := by
  have e0 : a = a' := Option.some.inj (h.hA.symm.trans h'.hA)
  subst e0
  have e1 : nw = nw' := Option.some.inj (h.hnw.symm.trans h'.hnw)
  subst e1
  have e2 : fr = fr' := Option.some.inj (h.hfr.symm.trans h'.hfr)
  subst e2
  have e3 : outFee = outFee' := Option.some.inj (h.hof.symm.trans h'.hof)
  subst e3
  have e4 : y = y' := Option.some.inj (h.hy.symm.trans h'.hy)
  subst e4
  have e5 : pw = pw' := Option.some.inj (h.hpw.symm.trans h'.hpw)
  subst e5
  exact ⟨rfl, rfl, rfl, rfl, rfl, rfl, Option.some.inj (h.hx.symm.trans h'.hx)⟩

end OsmoVerif.GammMath
