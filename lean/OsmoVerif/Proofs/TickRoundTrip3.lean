/-
Helper lemmas for Props/C14RoundTrip (3/3): the ±1 correction of `Tick.calculateSqrtPriceToTick` and the
completeness of the bucket search.

* `calc_eq`: the function, restated as candidate computation + `adjTick` (the shift away from the range ends) +
  `corrTail` (the three comparisons) — definitional;
* `corrTail_same` / `corrTail_below` / `corrTail_above`: what the comparisons return when the true bucket is the
  (shifted) candidate, the one below, the one above;
* `sqrt_root`: a sqrt price of the launch range is `r·10^18` with `r` the least root of the price;
* `sqrtPriceToTick_complete`: if `s` lies in the sqrt-price bucket of a launch-range tick `T < MaxTick`, the
  function returns `T` (never an error);
* `bucket_exists`: every value between `f lo` and `f hi` lies in some bucket of `f`.
Proof file: single Mathlib tactic modules only.
-/
import OsmoVerif.Proofs.TickRoundTrip2
import OsmoVerif.Props.C14Mono

namespace OsmoVerif.Tick
open OsmoVerif.Num OsmoVerif.MathM OsmoVerif.Gen OsmoVerif.Spec OsmoVerif.Props.C13

/-! ## the function, restated -/

/-- the shift of the candidate away from the two ends of the tick range, with the `outOfBounds` flag. -/
def adjTick (tick0 : Int) : Int × Bool :=
  if tick0 ≤ CL.MinInitializedTickV2 then (CL.MinInitializedTickV2 + 1, true)
  else if tick0 ≥ CL.MaxTick - 1 then (CL.MaxTick - 2, true)
  else (tick0, false)

/-- the comparisons of `CalculateSqrtPriceToTick` after the candidate is fixed (copied from the model). -/
def corrTail (sp tick : Int) (oob : Bool) : Option Int := do
  let sp1 ← tickToSqrtPrice (tick + 1)
  if sp ≥ sp1 then do
    let sp2 ← tickToSqrtPrice (tick + 2)
    if (!oob && sp ≥ sp2) || (oob && sp > sp2) then none
    else if sp = sp2 then some (tick + 2)
    else some (tick + 1)
  else do
    let sp0 ← tickToSqrtPrice tick
    if sp ≥ sp0 then some tick
    else do
      let spm ← tickToSqrtPrice (tick - 1)
      if sp < spm then none else some (tick - 1)

theorem calc_eq (sp : Int) :
    calculateSqrtPriceToTick sp =
      (BigDec.mul sp sp).bind fun price => (calculatePriceToTick price).bind fun tick0 =>
        if tick0 < CL.MinCurrentTick then none else corrTail sp (adjTick tick0).1 (adjTick tick0).2 := by
  unfold calculateSqrtPriceToTick
  cases BigDec.mul sp sp with
  | none => rfl
  | some price =>
    simp only [bind, Option.bind_some]
    cases calculatePriceToTick price with
    | none => rfl
    | some tick0 =>
      simp only [Option.bind_some]
      unfold adjTick corrTail
      split
      · rfl
      · split
        · rfl
        · split <;> rfl

theorem corrTail_same {s tick x0 x1 : Int} (oob : Bool)
    (h1 : tickToSqrtPrice (tick + 1) = some x1) (h0 : tickToSqrtPrice tick = some x0)
    (a : s < x1) (b : x0 ≤ s) : corrTail s tick oob = some tick := by
  unfold corrTail
  simp only [h1, h0, bind, Option.bind_some]
  rw [if_neg (by omega), if_pos (by omega)]

theorem corrTail_below {s tick xm x0 x1 : Int} (oob : Bool)
    (h1 : tickToSqrtPrice (tick + 1) = some x1) (h0 : tickToSqrtPrice tick = some x0)
    (hm : tickToSqrtPrice (tick - 1) = some xm)
    (a : s < x1) (b : s < x0) (c : xm ≤ s) : corrTail s tick oob = some (tick - 1) := by
  unfold corrTail
  simp only [h1, h0, hm, bind, Option.bind_some]
  rw [if_neg (by omega), if_neg (by omega), if_neg (by omega)]

theorem corrTail_above {s tick x1 x2 : Int} (oob : Bool)
    (h1 : tickToSqrtPrice (tick + 1) = some x1) (h2 : tickToSqrtPrice (tick + 2) = some x2)
    (a : x1 ≤ s) (b : s < x2) : corrTail s tick oob = some (tick + 1) := by
  unfold corrTail
  simp only [h1, h2, bind, Option.bind_some]
  rw [if_pos (by omega)]
  have hc : ((!oob && decide (s ≥ x2)) || (oob && decide (s > x2))) = false := by
    have d1 : decide (s ≥ x2) = false := decide_eq_false (by omega)
    have d2 : decide (s > x2) = false := decide_eq_false (by omega)
    rw [d1, d2]; cases oob <;> rfl
  rw [hc]
  simp only [Bool.false_eq_true, if_false]
  rw [if_neg (by omega)]

/-! ## sqrt prices of the launch range -/

theorem sqrt_root {t s : Int} (h1 : -108000000 ≤ t) (h2 : t ≤ 342000000) (hs : tickToSqrtPrice t = some s) :
    ∃ r, s = r * 10 ^ 18 ∧ 0 < r ∧ F t ≤ r * r ∧ (r - 1) * (r - 1) < F t := by
  obtain ⟨_, hi⟩ := sqrt_spec (by omega) h2 hs
  obtain ⟨v, r, hv, hm, rfl⟩ := hi h1
  rw [priceOf_above (by omega)] at hv
  have hF : 10 ^ 24 ≤ F t := by
    have := F_mono (t1 := -108000000) (t2 := t) (by omega) h1; rwa [F_launch] at this
  obtain ⟨_, _, g, l⟩ := monotonicSqrtRaw_least hm
  have hpos : 0 < r := msqrt_pos hm (by push_cast; omega)
  have l := l hpos
  push_cast at g l
  exact ⟨r, rfl, hpos, by omega, by omega⟩

theorem consts3 : CL.MinCurrentTick = -108000001 := by decide +kernel

/-- a candidate inside the range is used as it is … -/
theorem calc_of_candidate {s p0 c : Int} (hmul : BigDec.mul s s = some p0) (hc : calculatePriceToTick p0 = some c)
    (h1 : -108000001 ≤ c) (h2 : c < 342000000 - 1) : calculateSqrtPriceToTick s = corrTail s c false := by
  obtain ⟨c1, c2, c3, c4, _⟩ := tick_consts
  rw [calc_eq, hmul]
  simp only [Option.bind_some, hc]
  rw [consts3, if_neg (by omega)]
  unfold adjTick
  rw [c2, c3, if_neg (by omega), if_neg (by omega)]

/-- … and one at the top is shifted to `MaxTick − 2` (comparisons become inclusive at the upper end). -/
theorem calc_of_candidate_oob {s p0 c : Int} (hmul : BigDec.mul s s = some p0)
    (hc : calculatePriceToTick p0 = some c) (h : c ≥ 342000000 - 1) :
    calculateSqrtPriceToTick s = corrTail s (342000000 - 2) true := by
  obtain ⟨c1, c2, c3, c4, _⟩ := tick_consts
  rw [calc_eq, hmul]
  simp only [Option.bind_some, hc]
  rw [consts3, if_neg (by omega)]
  unfold adjTick
  rw [c2, c3, if_neg (by omega), if_pos h]

/-! ## completeness of the bucket search on the launch range -/

theorem sqrtPriceToTick_complete {s T x x' : Int} (hT0 : -108000000 ≤ T) (hT1 : T < 342000000)
    (h0 : tickToSqrtPrice T = some x) (h1 : tickToSqrtPrice (T + 1) = some x')
    (hle : x ≤ s) (hlt : s < x') : calculateSqrtPriceToTick s = some T := by
  obtain ⟨c1, c2, c3, c4, _⟩ := tick_consts
  obtain ⟨r, rfl, hr0, hr1, _⟩ := sqrt_root hT0 (by omega) h0
  obtain ⟨r', rfl, hr'0, _, hr'2⟩ := sqrt_root (t := T + 1) (by omega) (by omega) h1
  -- everything is below the maximum sqrt price
  have hmax : r' * 10 ^ 18 ≤ 10 ^ 55 := by
    have e3 := Props.C14Mono.tickToSqrtPrice_ends.2.2
    have := Props.C14Mono.tickToSqrtPrice_mono (t1 := T + 1) (t2 := CL.MaxTick) (by omega) (by omega)
      (Int.le_refl _) h1 e3
    have e : 10 ^ 19 * P36 = 10 ^ 55 := by decide +kernel
    rwa [e] at this
  obtain ⟨p0, c, hmul, hc, hcT⟩ := candidate_window hT0 hT1 (Int.le_of_lt hr0) hle hlt (by omega) hr1 hr'0 hr'2
  -- strict monotonicity around the bucket
  have up : ∀ {t y}, T + 1 < t → t ≤ 342000000 → tickToSqrtPrice t = some y → s < y := by
    intro t y a b hy
    have := Props.C14Mono.tickToSqrtPrice_strictMono (t1 := T + 1) (t2 := t) (by omega) a (by omega) h1 hy
    omega
  by_cases hoob : c ≥ 342000000 - 1
  · rw [calc_of_candidate_oob hmul hc hoob]
    -- T is one of the last two buckets
    rcases (by omega : T = 342000000 - 2 ∨ T = 342000000 - 2 + 1) with hT | hT
    · rw [hT] at h0 h1
      rw [corrTail_same true h1 h0 hlt hle, hT]
    · rw [hT] at h0 h1
      rw [corrTail_above true h0 h1 hle hlt, hT]
  · rw [calc_of_candidate hmul hc (by omega) (by omega)]
    rcases hcT with h | h
    · subst h
      exact corrTail_same false h1 h0 hlt hle
    · subst h
      obtain ⟨y, hy⟩ := Props.C14Mono.tickToSqrtPrice_total (t := T + 1 + 1) (by omega) (by omega)
      have e : T + 1 - 1 = T := by omega
      rw [corrTail_below false hy h1 (by rw [e]; exact h0) (up (by omega) (by omega) hy) hlt hle, e]

/-! ## every value between two values of a function lies in a bucket -/

theorem bucket_exists (f : Int → Int) (x : Int) : ∀ (n : Nat) (lo : Int), f lo ≤ x → x < f (lo + n) →
    ∃ T, lo ≤ T ∧ T < lo + n ∧ f T ≤ x ∧ x < f (T + 1) := by
  intro n
  induction n with
  | zero => intro lo a b; simp at b; omega
  | succ n ih =>
    intro lo a b
    rcases Int.lt_or_le x (f (lo + n)) with h | h
    · obtain ⟨T, t1, t2, t3, t4⟩ := ih lo a h
      exact ⟨T, t1, by omega, t3, t4⟩
    · refine ⟨lo + n, by omega, by omega, h, ?_⟩
      have e : lo + ((n + 1 : Nat) : Int) = lo + n + 1 := by omega
      rwa [e] at b

end OsmoVerif.Tick
