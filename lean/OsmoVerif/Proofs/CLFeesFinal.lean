/-
C08 helpers, part 12: the scaling factor never changes; what a position can claim is at most its exact entitlement plus
half a unit; the re-deposited dust of a claim never amounts to a whole token for the claimant.
-/
import OsmoVerif.Proofs.CLFeesBound2

namespace OsmoVerif.CLFeesP
open OsmoVerif.CLPool OsmoVerif.CL OsmoVerif.CLBook OsmoVerif.Num OsmoVerif.CLFees OsmoVerif.CLRewards OsmoVerif.Gen OsmoVerif.CLSolv

theorem apply_scale {f f' : Fees} {op : FOp} (h : applyF f op = some f') : f'.pool.scale = f.pool.scale := by
  cases op with
  | create o l u a0 a1 =>
    simp only [applyF, Option.map_eq_some_iff] at h
    obtain ⟨⟨f1, id, x0, x1, liq, lo, up⟩, h, e⟩ := h
    simp only at e; subst e
    exact (createMin_frame (createMin_spec h).1).2.2
  | withdraw o id liq =>
    simp only [applyF, Option.map_eq_some_iff] at h
    obtain ⟨⟨f1, o0, o1⟩, h, e⟩ := h
    simp only at e; subst e
    obtain ⟨_, _, _, hw, _⟩ := withdraw_spec h
    exact (withdraw_frame hw).2.2
  | add o id a0 a1 =>
    simp only [applyF, Option.map_eq_some_iff] at h
    obtain ⟨⟨f2, nid, x0, x1⟩, h, e⟩ := h
    simp only at e; subst e
    obtain ⟨pos, f1, w0, w1, liq, lo, up, _, _, _, _, hw, _, hc⟩ := add_spec h
    obtain ⟨_, _, _, hw', _⟩ := withdraw_spec hw
    rw [(createMin_frame (createMin_spec hc).1).2.2, (withdraw_frame hw').2.2]
  | transfer s id n =>
    simp only [applyF, CLFees.transferPosition, Option.map_eq_some_iff] at h
    obtain ⟨p', hp, e⟩ := h
    subst e
    exact (transfer_frame hp).2.2
  | swap og zfo spec =>
    simp only [applyF, Option.map_eq_some_iff] at h
    obtain ⟨⟨f1, ain, aout, fee⟩, h, e⟩ := h
    simp only at e; subst e
    exact (swap_frame (swap_spec h).1).1
  | collect s id =>
    simp only [applyF, Option.map_eq_some_iff] at h
    obtain ⟨⟨f1, c0, c1⟩, h, e⟩ := h
    simp only at e; subst e
    obtain ⟨_, _, _, _, hp, _⟩ := collect_spec h
    rw [hp]

theorem run_scale (f : Fees) (ops : List FOp) : (runF f ops).pool.scale = f.pool.scale := by
  induction ops generalizing f with
  | nil => rfl
  | cons op ops ih =>
    show (runF (stepF f op) ops).pool.scale = _
    rw [ih]
    rcases stepF_cases f op with h | ⟨f', h, e⟩
    · rw [h]
    · rw [e]; exact apply_scale h

/-- component `s` of what position `q` can claim now (0 if the query fails). -/
def claimS (f : Fees) (s : Bool) (q : Position) : Int :=
  match CLFees.claimable f q.id with
  | some c => if s then c.1 else c.2
  | none => 0

/-- a successful claim query reports at most the exact entitlement plus half a unit (in raw × raw units). -/
theorem claimS_le_entI {f : Fees} (hf : FullInv f) (hsc : 0 < f.pool.scale) {q : Position} (hq : q ∈ f.pool.positions)
    (hok : (CLFees.claimable f q.id).isSome) (s : Bool) :
    0 ≤ claimS f s q ∧ 2 * (claimS f s q * (f.pool.scale * P18)) ≤ 2 * entI f s q + P18 := by
  obtain ⟨c, hc⟩ := Option.isSome_iff_exists.mp hok
  unfold CLFees.claimable findPos at hc
  simp only [Option.bind_eq_some_iff, Option.map_eq_some_iff] at hc
  obtain ⟨pos, hfind, ⟨a', c'⟩, hcl, e⟩ := hc
  simp only at e; subst e
  obtain ⟨hmem, hid⟩ := find_id hfind
  have : pos = q := mem_eq_of_id hf.pool.core.pos.uniq hmem hq hid
  subst this
  obtain ⟨r, total, hr, htot, hcc, _⟩ := prepareClaim_spec hcl
  obtain ⟨r0, hr0, esh, _⟩ := hf.acc.recs pos hq
  rw [hr] at hr0; injection hr0 with hr0; subst hr0
  obtain ⟨t1, t2, t3⟩ := htot s
  have hsh0 : 0 ≤ r.shares := by rw [esh]; have := hf.pool.core.pos.liqPos pos hq; omega
  have hsettle := settle_E t2 hsh0 t1
  obtain ⟨c0, c1⟩ := claimAmt_le hsc t3
  have hE : entI f s pos = get s r.unclaimed * P18 + (get s (insideF f pos.lower pos.upper) - get s r.snap) * r.shares :=
    entI_of_rec hr
  have hclaim : claimS f s pos = claimAmt f.pool.scale (get s total) := by
    unfold claimS CLFees.claimable findPos
    rw [hfind]
    simp only [Option.bind_some, hcl, Option.map_some, hcc]
    cases s <;> rfl
  unfold insideF at hE
  rw [hclaim, hE]
  refine ⟨c0, ?_⟩
  have h1 : claimAmt f.pool.scale (get s total) * f.pool.scale * P18 ≤ get s total * P18 :=
    Int.mul_le_mul_of_nonneg_right c1 P18_nonneg
  have e : claimAmt f.pool.scale (get s total) * (f.pool.scale * P18) = claimAmt f.pool.scale (get s total) * f.pool.scale * P18 :=
    (Int.mul_assoc _ _ _).symm
  rw [e]
  omega

theorem chopRound_nonneg_lt {x B : Int} (hx : 0 ≤ x) (hB : x ≤ B * P18) (hB1 : B < P18) :
    0 ≤ chopRound P18 x ∧ chopRound P18 x < P18 := by
  have hP : P18 = 1000000000000000000 := by decide
  obtain ⟨e, hp, _⟩ := tdiv_tmod_spec x P18 (by decide)
  have hr := hp hx
  have hq0 : 0 ≤ x.tdiv P18 := Int.tdiv_nonneg hx (by omega)
  have hqB : x.tdiv P18 ≤ B := by
    apply Classical.byContradiction; intro hc
    have : (B + 1) * P18 ≤ x.tdiv P18 * P18 := Int.mul_le_mul_of_nonneg_right (by omega) (by omega)
    rw [Int.add_mul] at this; omega
  unfold chopRound
  rw [if_neg (by omega)]
  unfold chopRoundNonneg
  simp only
  have h2 : P18.tdiv 2 = 500000000000000000 := by decide
  rw [h2]
  -- the quotient is at most B; it is rounded up only when there is a remainder, i.e. when x < B·P18 … unless q < B
  by_cases hqe : x.tdiv P18 = B
  · have hr0 : x.tmod P18 = 0 := by rw [hqe] at e; omega
    rw [if_pos hr0]; omega
  · split
    · omega
    · split
      · omega
      · split
        · omega
        · split <;> omega

/-- the claimant's share of its own re-deposited dust is below one token. -/
theorem dust_claim_zero {scale total T sh : Int} (hs : 0 < scale) (ht : 0 ≤ total) (hsh : 0 ≤ sh) (hshT : sh ≤ T)
    (g : Int) (hg : g = dustGrowthI scale total T ∨ g = 0) : claimAmt scale (rewardI 0 g sh) = 0 := by
  have hP := P18_pos
  have hz : claimAmt scale (rewardI 0 0 sh) = 0 := by
    unfold rewardI
    rw [Int.zero_mul, Int.zero_add]
    have : chopRound P18 0 = 0 := by decide
    rw [this]; exact (by unfold claimAmt scaleDownZ; split <;> simp)
  rcases hg with hg | hg
  · by_cases hsc : scale = P18
    · subst hsc
      have hT : 0 ≤ T := by omega
      obtain ⟨d0, d1⟩ := dustGrowthI_bound (scale := P18) ht hT
      rw [if_pos rfl] at d1
      obtain ⟨_, q1, q2⟩ := tdiv_le_self ht hP
      rw [← hg] at d0 d1
      have h1 : g * sh ≤ g * T := Int.mul_le_mul_of_nonneg_left hshT d0
      have hx0 : 0 ≤ g * sh := Int.mul_nonneg d0 hsh
      have hB : g * sh ≤ (total - total.tdiv P18 * P18) * P18 := by omega
      obtain ⟨c0, c1⟩ := chopRound_nonneg_lt hx0 hB q2
      unfold rewardI claimAmt
      rw [if_pos rfl, Int.zero_add]
      exact Int.tdiv_eq_zero_of_lt c0 c1
    · have : dustGrowthI scale total T = 0 := by unfold dustGrowthI; rw [if_neg hsc]
      rw [hg, this]; exact hz
  · rw [hg]; exact hz

end OsmoVerif.CLFeesP
