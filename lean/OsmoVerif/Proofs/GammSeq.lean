/-
No-gain sequences for the EXACT part of the classic-pool math (C04): proportional (all-asset, no-swap) joins
(`MaximalExactRatioJoin`) and proportional exits (`CalcExitPool`), which balancer and stableswap share.

This file: the abstract LP state `(liq, total)`, its two operations executed with the MODEL functions
`maximalExactRatioJoin` + `joinedCoins` / `calcExitPool`, the one-step facts (well-formedness kept,
"reserves per share never decrease", exact token accounting) and the ledger-tracked state machine
(`St`, `Op`, `step`, `run`) with per-actor share holdings and net deposits.

The sequence theorems are in `Proofs/GammSeqInv.lean`, the refinement to `balJoinNoSwap`/`balExit`,
`ssJoinNoSwap`/`ssExit` in `Proofs/GammSeqRefine.lean` (converse for balancer: `Proofs/GammSeqComplete.lean`), the op
sequences over the pool models and their simulation in `Proofs/GammSeqRun.lean`, the property statements in
`Props/C04Seq.lean`.
-/
import OsmoVerif.Proofs.GammMathLp

namespace OsmoVerif.GammSeq
open OsmoVerif.GammMath OsmoVerif.Num

/-! ### coins -/

def denoms (cs : Coins) : List String := cs.map (·.1)

/-- `liq + cs` / `liq − cs` per denom of `liq`, keeping the denoms (and their order) of `liq`. -/
def addCoins (liq cs : Coins) : Coins := liq.map fun c => (c.1, c.2 + amountOf cs c.1)
def subCoins (liq cs : Coins) : Coins := liq.map fun c => (c.1, c.2 - amountOf cs c.1)

theorem amountOf_nil (d : String) : amountOf [] d = 0 := rfl

theorem amountOf_cons (c : String × Int) (cs : Coins) (d : String) :
    amountOf (c :: cs) d = if c.1 = d then c.2 else amountOf cs d := by
  unfold amountOf
  rw [List.find?_cons]
  by_cases h : c.1 = d
  · simp [h]
  · simp [h]

theorem amountOf_not_mem {cs : Coins} {d : String} (h : d ∉ denoms cs) : amountOf cs d = 0 := by
  induction cs with
  | nil => rfl
  | cons c cs ih =>
    rw [amountOf_cons]
    simp only [denoms, List.map_cons, List.mem_cons, not_or] at h
    rw [if_neg (fun e => h.1 e.symm)]
    exact ih h.2

theorem amountOf_mem {cs : Coins} (hnd : (denoms cs).Nodup) {d : String} {a : Int} (h : (d, a) ∈ cs) :
    amountOf cs d = a := by
  induction cs with
  | nil => cases h
  | cons c cs ih =>
    rw [amountOf_cons]
    simp only [denoms, List.map_cons, List.nodup_cons] at hnd
    rcases List.mem_cons.mp h with h | h
    · subst h; simp
    · have : c.1 ≠ d := fun e => hnd.1 (by rw [e]; exact List.mem_map.mpr ⟨(d, a), h, rfl⟩)
      rw [if_neg this]
      exact ih hnd.2 h

/-- an amount found by `amountOf` is the amount of a member (or the denom is absent and the amount is 0). -/
theorem amountOf_cases (cs : Coins) (d : String) :
    (d ∉ denoms cs ∧ amountOf cs d = 0) ∨ (d, amountOf cs d) ∈ cs := by
  induction cs with
  | nil => left; exact ⟨List.not_mem_nil, rfl⟩
  | cons c cs ih =>
    rw [amountOf_cons]
    by_cases h : c.1 = d
    · right; rw [if_pos h, ← h]; exact List.mem_cons_self ..
    · rw [if_neg h]
      rcases ih with ⟨h1, h2⟩ | h1
      · left
        refine ⟨?_, h2⟩
        simp only [denoms, List.map_cons, List.mem_cons, not_or]
        exact ⟨fun e => h e.symm, h1⟩
      · right; exact List.mem_cons_of_mem _ h1

theorem amountOf_map (liq : Coins) (f : String × Int → Int) (d : String) :
    amountOf (liq.map fun c => (c.1, f c)) d =
      match liq.find? (·.1 = d) with
      | some c => f c
      | none => 0 := by
  induction liq with
  | nil => rfl
  | cons c liq ih =>
    rw [List.map_cons, amountOf_cons, List.find?_cons]
    by_cases h : c.1 = d
    · simp [h]
    · simp only [h, if_false, decide_false]; exact ih

theorem find_denom {liq : Coins} {d : String} {c : String × Int} (h : liq.find? (·.1 = d) = some c) : c.1 = d := by
  have := List.find?_some h
  simpa using this

theorem amountOf_addCoins (liq cs : Coins) (d : String) :
    amountOf (addCoins liq cs) d = if d ∈ denoms liq then amountOf liq d + amountOf cs d else 0 := by
  unfold addCoins
  rw [amountOf_map]
  cases hf : liq.find? (·.1 = d) with
  | none =>
    have : d ∉ denoms liq := by
      intro hm
      obtain ⟨c, hc, e⟩ := List.mem_map.mp hm
      have := List.find?_eq_none.mp hf c hc
      simp [e] at this
    rw [if_neg this]
  | some c =>
    have e := find_denom hf
    have : d ∈ denoms liq := List.mem_map.mpr ⟨c, List.mem_of_find?_eq_some hf, e⟩
    rw [if_pos this]
    simp only [amountOf, hf, e]

theorem amountOf_subCoins (liq cs : Coins) (d : String) :
    amountOf (subCoins liq cs) d = if d ∈ denoms liq then amountOf liq d - amountOf cs d else 0 := by
  unfold subCoins
  rw [amountOf_map]
  cases hf : liq.find? (·.1 = d) with
  | none =>
    have : d ∉ denoms liq := by
      intro hm
      obtain ⟨c, hc, e⟩ := List.mem_map.mp hm
      have := List.find?_eq_none.mp hf c hc
      simp [e] at this
    rw [if_neg this]
  | some c =>
    have e := find_denom hf
    have : d ∈ denoms liq := List.mem_map.mpr ⟨c, List.mem_of_find?_eq_some hf, e⟩
    rw [if_pos this]
    simp only [amountOf, hf, e]

theorem denoms_addCoins (liq cs : Coins) : denoms (addCoins liq cs) = denoms liq := by
  simp [denoms, addCoins, List.map_map, Function.comp_def]

theorem denoms_subCoins (liq cs : Coins) : denoms (subCoins liq cs) = denoms liq := by
  simp [denoms, subCoins, List.map_map, Function.comp_def]

/-! ### the abstract LP state -/

structure LP where
  liq : Coins
  total : Int
  deriving Repr, DecidableEq

/-- positive share supply, distinct denoms, positive reserves. -/
structure LP.WF (s : LP) : Prop where
  total_pos : 0 < s.total
  nodup : (denoms s.liq).Nodup
  pos : ∀ c ∈ s.liq, 0 < c.2

/-- `tokensIn` is a coin list over exactly the pool's denoms, in the pool's order, with positive amounts
(what a valid `sdk.Coins` with the pool's denoms is, the pool's liquidity being sorted). -/
def validTokens (liq tokensIn : Coins) : Prop := denoms tokensIn = denoms liq ∧ ∀ c ∈ tokensIn, 0 < c.2

instance (liq tokensIn : Coins) : Decidable (validTokens liq tokensIn) := by unfold validTokens; infer_instance

/-- proportional join: `MaximalExactRatioJoin`, then `liq += tokensJoined`, `total += shares`.
Result: shares minted, tokens joined (used), new state. `none` = the operation fails (state unchanged). -/
def LP.join (s : LP) (tokensIn : Coins) : Option (Int × Coins × LP) :=
  if validTokens s.liq tokensIn then
    match maximalExactRatioJoin s.liq s.total tokensIn with
    | .ok (sh, used) =>
      let j := joinedCoins tokensIn used
      some (sh, j, ⟨addCoins s.liq j, s.total + sh⟩)
    | .error _ => none
  else none

/-- proportional exit: `CalcExitPool`, then `liq −= exited`, `total −= shares`. The keeper rejects
`shares ≤ 0` (`ExitPool`: "Trying to exit a negative amount of shares"); `fee` is the exit fee (the keeper only
accepts pools with exit fee 0; the theorems hold for every `0 ≤ fee ≤ 1`). -/
def LP.exit (s : LP) (fee sh : Int) : Option (Coins × LP) :=
  if 0 < sh then
    match calcExitPool s.liq s.total sh fee with
    | .ok cs => some (cs, ⟨subCoins s.liq cs, s.total - sh⟩)
    | .error _ => none
  else none

abbrev LP.res (s : LP) (d : String) : Int := amountOf s.liq d

/-! ### joined coins -/

theorem joinedCoins_cons (c : String × Int) (cs : Coins) (u : Int) (us : List Int) :
    joinedCoins (c :: cs) (u :: us) = if u = 0 then joinedCoins cs us else (c.1, u) :: joinedCoins cs us := by
  unfold joinedCoins
  simp only [List.zip_cons_cons, List.filterMap_cons]
  by_cases h : u = 0
  · simp [h]
  · simp [h]

theorem joinedCoins_not_mem : ∀ (cs : Coins) (us : List Int) (d : String), d ∉ denoms cs →
    amountOf (joinedCoins cs us) d = 0
  | [], _, _, _ => by simp [joinedCoins, amountOf]
  | _ :: _, [], _, _ => by simp [joinedCoins, amountOf]
  | c :: cs, u :: us, d, h => by
    simp only [denoms, List.map_cons, List.mem_cons, not_or] at h
    rw [joinedCoins_cons]
    split
    · exact joinedCoins_not_mem cs us d h.2
    · rw [amountOf_cons, if_neg (fun e => h.1 e.symm)]
      exact joinedCoins_not_mem cs us d h.2

/-- the per-denom content of `JoinOK`: for EVERY denom `d`, with `u` the amount of `d` joined:
`0 ≤ u ≤ offered`, `shares · reserve ≤ u · total`. -/
theorem joinOK_amountOf {liq : Coins} {T sh : Int} : ∀ {cs : Coins} {us : List Int}, JoinOK liq T sh cs us →
    (denoms cs).Nodup → ∀ d, d ∈ denoms cs →
      0 ≤ amountOf (joinedCoins cs us) d ∧ amountOf (joinedCoins cs us) d ≤ amountOf cs d ∧
      sh * amountOf liq d ≤ amountOf (joinedCoins cs us) d * T
  | [], [], _, _, d, hd => by cases hd
  | [], _ :: _, h, _, _, _ => h.elim
  | _ :: _, [], h, _, _, _ => h.elim
  | c :: cs, u :: us, h, hnd, d, hd => by
    simp only [denoms, List.map_cons, List.nodup_cons] at hnd
    rw [joinedCoins_cons, amountOf_cons c cs]
    by_cases e : c.1 = d
    · subst e
      rw [if_pos rfl]
      obtain ⟨_, h2, h3, h4⟩ := h.1
      split
      · rename_i hu
        rw [joinedCoins_not_mem cs us _ hnd.1]
        subst hu
        exact ⟨Int.le_refl _, h4, h2⟩
      · rw [amountOf_cons, if_pos rfl]
        exact ⟨h3, h4, h2⟩
    · rw [if_neg e]
      have hd' : d ∈ denoms cs := by
        simp only [denoms, List.map_cons, List.mem_cons] at hd
        rcases hd with hd | hd
        · exact absurd hd.symm e
        · exact hd
      split
      · exact joinOK_amountOf h.2 hnd.2 d hd'
      · rw [amountOf_cons, if_neg e]
        exact joinOK_amountOf h.2 hnd.2 d hd'

/-! ### proportional exit (the statement of `Props.C04.exit_le_proportional`, needed here below `Props`) -/

theorem calcExitPool_spec {liq : Coins} {T sh fee : Int} {cs : Coins}
    (h : calcExitPool liq T sh fee = .ok cs) (hT : 0 < T) (hsh : 0 ≤ sh) (hfee : 0 ≤ fee ∧ fee ≤ P18)
    (hliq : ∀ c ∈ liq, 0 ≤ c.2) :
    sh < T ∧ ∀ d x, (d, x) ∈ cs → ∃ a, (d, a) ∈ liq ∧ 0 < x ∧ x < a ∧ x * T * P18 ≤ a * sh * (P18 - fee) := by
  unfold calcExitPool at h
  split at h
  · cases h
  · rename_i hlt
    refine ⟨by omega, ?_⟩
    cases hr : refundedShares sh fee with
    | none => simp [hr, pn, bind, Except.bind] at h
    | some refunded =>
      cases hq : Dec.quoInt refunded T with
      | none => simp [hr, hq, pn, bind, Except.bind] at h
      | some ratio =>
        simp only [hr, hq, pn, bind, Except.bind] at h
        intro d x hm
        obtain ⟨a, ha, hx0, hxa, hxv⟩ := exitCoins_spec ratio liq cs h d x hm
        refine ⟨a, ha, hx0, hxa, ?_⟩
        have hrv := refundedShares_spec hr
        have hr0 : 0 ≤ refunded := by rw [hrv]; exact Int.mul_nonneg (by omega) hsh
        unfold Dec.quoInt at hq
        rw [if_neg (by omega)] at hq
        injection hq with hq
        obtain ⟨q1, _, q0⟩ := tdiv_floor hT hr0
        rw [hq] at q1 q0
        have ha0 : 0 ≤ a := hliq (d, a) ha
        obtain ⟨x1, _, _⟩ := tdiv_floor P18_pos (Int.mul_nonneg q0 ha0)
        rw [← hxv] at x1
        have e1 : x * P18 * T ≤ ratio * a * T := Int.mul_le_mul_of_nonneg_right x1 (by omega)
        have e2 : ratio * T * a ≤ refunded * a := Int.mul_le_mul_of_nonneg_right q1 ha0
        rw [hrv] at e2
        nlinarith

/-- per-denom content of a successful `CalcExitPool` on a well-formed state: for EVERY denom `d`, with `x` the
amount of `d` paid out: `0 ≤ x`, `x < reserve` when the reserve is positive, `x = 0` when `d` is not a pool denom,
`x · total ≤ reserve · shares · (1 − fee)` (raw ·10^18). -/
theorem calcExitPool_amountOf {liq : Coins} {T sh fee : Int} {cs : Coins}
    (h : calcExitPool liq T sh fee = .ok cs) (hT : 0 < T) (hsh : 0 ≤ sh) (hfee : 0 ≤ fee ∧ fee ≤ P18)
    (hnd : (denoms liq).Nodup) (hliq : ∀ c ∈ liq, 0 < c.2) :
    sh < T ∧ ∀ d, 0 ≤ amountOf cs d ∧ (d ∈ denoms liq → amountOf cs d < amountOf liq d) ∧
      (d ∉ denoms liq → amountOf cs d = 0) ∧
      amountOf cs d * T * P18 ≤ amountOf liq d * sh * (P18 - fee) := by
  obtain ⟨h1, h2⟩ := calcExitPool_spec h hT hsh hfee (fun c hc => Int.le_of_lt (hliq c hc))
  refine ⟨h1, fun d => ?_⟩
  have hres0 : 0 ≤ amountOf liq d := by
    rcases amountOf_cases liq d with ⟨_, e⟩ | hm
    · omega
    · exact Int.le_of_lt (hliq _ hm)
  rcases amountOf_cases cs d with ⟨_, e⟩ | hm
  · rw [e]
    refine ⟨Int.le_refl _, fun hd => ?_, fun _ => rfl, ?_⟩
    · obtain ⟨c, hc, e'⟩ := List.mem_map.mp hd
      have := hliq c hc
      have hc' : (d, c.2) ∈ liq := by rw [← e']; exact hc
      rw [amountOf_mem hnd hc']; exact this
    · simp only [Int.zero_mul]
      exact Int.mul_nonneg (Int.mul_nonneg hres0 hsh) (by omega)
  · obtain ⟨a, ha, hx0, hxa, hx⟩ := h2 d _ hm
    have e := amountOf_mem hnd ha
    rw [e]
    refine ⟨Int.le_of_lt hx0, fun _ => hxa, fun hd => ?_, hx⟩
    exact absurd (List.mem_map.mpr ⟨(d, a), ha, rfl⟩) hd

/-! ### one-step facts of the abstract operations -/

theorem mem_denoms_amountOf_pos {liq : Coins} (hnd : (denoms liq).Nodup) (hpos : ∀ c ∈ liq, 0 < c.2) {d : String}
    (hd : d ∈ denoms liq) : 0 < amountOf liq d := by
  obtain ⟨c, hc, e⟩ := List.mem_map.mp hd
  have hc' : (d, c.2) ∈ liq := by rw [← e]; exact hc
  rw [amountOf_mem hnd hc']; exact hpos c hc

theorem LP.res_nonneg {s : LP} (hwf : s.WF) (d : String) : 0 ≤ s.res d := by
  rcases amountOf_cases s.liq d with ⟨_, e⟩ | hm
  · unfold LP.res; omega
  · exact Int.le_of_lt (hwf.pos _ hm)

/-- what a successful proportional join does. -/
structure JoinFacts (s s' : LP) (tin j : Coins) (sh : Int) : Prop where
  wf : s'.WF
  shares_nonneg : 0 ≤ sh
  total : s'.total = s.total + sh
  denoms_eq : denoms s'.liq = denoms s.liq
  res : ∀ d, s'.res d = s.res d + amountOf j d
  used_nonneg : ∀ d, 0 ≤ amountOf j d
  used_le : ∀ d, amountOf j d ≤ amountOf tin d
  /-- the tokens used cover the proportional need of the minted shares -/
  fair : ∀ d, sh * s.res d ≤ amountOf j d * s.total

theorem LP.join_facts {s s' : LP} {tin j : Coins} {sh : Int} (hwf : s.WF) (h : s.join tin = some (sh, j, s')) :
    JoinFacts s s' tin j sh := by
  unfold LP.join at h
  split at h
  · rename_i hv
    obtain ⟨hden, hpos⟩ := hv
    split at h
    · rename_i sh' used hm
      injection h with h; injection h with h1 h; injection h with h2 h3
      subst h1; subst h2; subst h3
      have hposin : ∀ c ∈ tin, 0 < amountOf s.liq c.1 ∧ 0 ≤ c.2 := fun c hc =>
        ⟨mem_denoms_amountOf_pos hwf.nodup hwf.pos (by rw [← hden]; exact List.mem_map.mpr ⟨c, hc, rfl⟩),
          Int.le_of_lt (hpos c hc)⟩
      obtain ⟨hs0, hj⟩ := maximalExactRatioJoin_ok hm hposin (Int.le_of_lt hwf.total_pos)
      have hndin : (denoms tin).Nodup := by rw [hden]; exact hwf.nodup
      have key : ∀ d, 0 ≤ amountOf (joinedCoins tin used) d ∧ amountOf (joinedCoins tin used) d ≤ amountOf tin d ∧
          sh' * amountOf s.liq d ≤ amountOf (joinedCoins tin used) d * s.total := by
        intro d
        by_cases hd : d ∈ denoms tin
        · exact joinOK_amountOf hj hndin d hd
        · rw [joinedCoins_not_mem tin used d hd, amountOf_not_mem hd, amountOf_not_mem (by rw [← hden]; exact hd)]
          simp
      refine ⟨⟨?_, ?_, ?_⟩, hs0, rfl, denoms_addCoins _ _, ?_, fun d => (key d).1, fun d => (key d).2.1, fun d => (key d).2.2⟩
      · have := hwf.total_pos; show 0 < s.total + sh'; omega
      · show (denoms (addCoins _ _)).Nodup; rw [denoms_addCoins]; exact hwf.nodup
      · intro c hc
        obtain ⟨c0, hc0, e⟩ := List.mem_map.mp hc
        subst e
        have := hwf.pos c0 hc0
        have := (key c0.1).1
        show 0 < c0.2 + _; omega
      · intro d
        show amountOf (addCoins _ _) d = _
        rw [amountOf_addCoins]
        split
        · rfl
        · rename_i hd
          rw [joinedCoins_not_mem tin used d (by rw [hden]; exact hd)]
          show 0 = amountOf s.liq d + 0
          rw [amountOf_not_mem hd]; rfl
    · cases h
  · cases h

/-- what a successful proportional exit does. -/
structure ExitFacts (s s' : LP) (fee sh : Int) (cs : Coins) : Prop where
  wf : s'.WF
  shares_pos : 0 < sh
  shares_lt : sh < s.total
  total : s'.total = s.total - sh
  denoms_eq : denoms s'.liq = denoms s.liq
  res : ∀ d, s'.res d = s.res d - amountOf cs d
  out_nonneg : ∀ d, 0 ≤ amountOf cs d
  out_le : ∀ d, amountOf cs d ≤ s.res d
  out_lt : ∀ d, d ∈ denoms s.liq → amountOf cs d < s.res d
  /-- no more than the proportional part, less the exit fee (raw: ·10^18) -/
  fair_fee : ∀ d, amountOf cs d * s.total * P18 ≤ s.res d * sh * (P18 - fee)
  fair : ∀ d, amountOf cs d * s.total ≤ s.res d * sh

theorem LP.exit_facts {s s' : LP} {fee sh : Int} {cs : Coins} (hwf : s.WF) (hfee : 0 ≤ fee ∧ fee ≤ P18)
    (h : s.exit fee sh = some (cs, s')) : ExitFacts s s' fee sh cs := by
  unfold LP.exit at h
  split at h
  · rename_i hsh
    split at h
    · rename_i cs' hc
      injection h with h; injection h with h1 h2
      subst h1; subst h2
      obtain ⟨hlt, key⟩ := calcExitPool_amountOf hc hwf.total_pos (Int.le_of_lt hsh) hfee hwf.nodup hwf.pos
      have hle : ∀ d, amountOf cs' d ≤ s.res d := fun d => by
        by_cases hd : d ∈ denoms s.liq
        · exact Int.le_of_lt ((key d).2.1 hd)
        · rw [(key d).2.2.1 hd]; exact LP.res_nonneg hwf d
      refine ⟨⟨?_, ?_, ?_⟩, hsh, hlt, rfl, denoms_subCoins _ _, ?_, fun d => (key d).1, hle, fun d => (key d).2.1, fun d => (key d).2.2.2, ?_⟩
      · show 0 < s.total - sh; omega
      · show (denoms (subCoins _ _)).Nodup; rw [denoms_subCoins]; exact hwf.nodup
      · intro c hc
        obtain ⟨c0, hc0, e⟩ := List.mem_map.mp hc
        subst e
        have h1 := (key c0.1).2.1 (List.mem_map.mpr ⟨c0, hc0, rfl⟩)
        rw [amountOf_mem hwf.nodup (show (c0.1, c0.2) ∈ s.liq from hc0)] at h1
        show 0 < c0.2 - _; omega
      · intro d
        show amountOf (subCoins _ _) d = _
        rw [amountOf_subCoins]
        split
        · rfl
        · rename_i hd
          rw [(key d).2.2.1 hd]
          show 0 = amountOf s.liq d - 0
          rw [amountOf_not_mem hd]; rfl
      · intro d
        have h1 := (key d).2.2.2
        have h2 : s.res d * sh * (P18 - fee) ≤ s.res d * sh * P18 :=
          Int.mul_le_mul_of_nonneg_left (by omega) (Int.mul_nonneg (LP.res_nonneg hwf d) (Int.le_of_lt hsh))
        exact Int.le_of_mul_le_mul_right (Int.le_trans h1 h2) P18_pos
    · cases h
  · cases h

/-! ### the ledger-tracked state machine -/

/-- an operation by an actor (an account number). -/
inductive Op where
  | join (actor : Nat) (tokensIn : Coins)
  | exit (actor : Nat) (shares : Int)
  deriving Repr, DecidableEq

def Op.actor : Op → Nat
  | .join a _ => a
  | .exit a _ => a

/-- LP state plus, per actor, the pool shares held (`hold`) and the NET deposit per denom (`dep`: tokens used by
its joins minus tokens received by its exits).  The shares of `lp.total` not held by any actor belong to passive
holders. -/
structure St where
  lp : LP
  hold : Nat → Int
  dep : Nat → String → Int

/-- one operation; a failed operation is a no-op.  An exit of more shares than the actor holds fails (the bank burn
would).  NOTE the keeper's `JoinPoolNoSwap` charges the actor ALL of `tokensIn` although the pool books only the
tokens used; `dep` counts the tokens used (the smaller amount), so every "no gain" below holds a fortiori for what the
keeper charges. -/
def step (fee : Int) (s : St) : Op → St
  | .join a tin =>
    match s.lp.join tin with
    | some (sh, j, lp') =>
      { lp := lp',
        hold := fun b => if b = a then s.hold b + sh else s.hold b,
        dep := fun b d => if b = a then s.dep b d + amountOf j d else s.dep b d }
    | none => s
  | .exit a sh =>
    if sh ≤ s.hold a then
      match s.lp.exit fee sh with
      | some (cs, lp') =>
        { lp := lp',
          hold := fun b => if b = a then s.hold b - sh else s.hold b,
          dep := fun b d => if b = a then s.dep b d - amountOf cs d else s.dep b d }
      | none => s
    else s

def run (fee : Int) (s : St) (ops : List Op) : St := ops.foldl (step fee) s

theorem run_nil (fee : Int) (s : St) : run fee s [] = s := rfl
theorem run_cons (fee : Int) (s : St) (op : Op) (ops : List Op) :
    run fee s (op :: ops) = run fee (step fee s op) ops := rfl

/-- everything the sequence theorems need to know about one step by actor `a`. -/
structure StepFacts (s s' : St) (a : Nat) : Prop where
  wf : s'.lp.WF
  denoms_eq : denoms s'.lp.liq = denoms s.lp.liq
  /-- reserves per share never decrease: `R_d/T ≤ R'_d/T'`, cross-multiplied -/
  mono : ∀ d, s.lp.res d * s'.lp.total ≤ s'.lp.res d * s.lp.total
  dep_self : ∀ d, s'.dep a d = s.dep a d + (s'.lp.res d - s.lp.res d)
  dep_other : ∀ b, b ≠ a → ∀ d, s'.dep b d = s.dep b d
  hold_self : s'.hold a = s.hold a + (s'.lp.total - s.lp.total)
  hold_other : ∀ b, b ≠ a → s'.hold b = s.hold b
  hold_nonneg : 0 ≤ s.hold a → 0 ≤ s'.hold a

theorem StepFacts.refl {s : St} (hwf : s.lp.WF) (a : Nat) : StepFacts s s a :=
  ⟨hwf, rfl, fun _ => Int.le_refl _, fun _ => by omega, fun _ _ _ => rfl, by omega, fun _ _ => rfl, fun h => h⟩

theorem step_facts {fee : Int} (hfee : 0 ≤ fee ∧ fee ≤ P18) {s : St} (hwf : s.lp.WF) (op : Op) :
    StepFacts s (step fee s op) op.actor := by
  cases op with
  | join a tin =>
    simp only [step, Op.actor]
    cases hj : s.lp.join tin with
    | none => exact StepFacts.refl hwf a
    | some r =>
      obtain ⟨sh, j, lp'⟩ := r
      have f := LP.join_facts hwf hj
      refine ⟨f.wf, f.denoms_eq, fun d => ?_, fun d => ?_, fun b hb d => ?_, ?_, fun b hb => ?_, fun h => ?_⟩
      · -- R·(T+sh) ≤ (R+u)·T  ⇔  sh·R ≤ u·T
        show s.lp.res d * lp'.total ≤ lp'.res d * s.lp.total
        rw [f.total, f.res d, Int.mul_add, Int.add_mul]
        have := f.fair d
        rw [Int.mul_comm sh] at this
        omega
      · show (if a = a then _ else _) = _
        rw [if_pos rfl]
        have := f.res d
        show s.dep a d + amountOf j d = s.dep a d + (lp'.res d - s.lp.res d)
        omega
      · show (if b = a then _ else _) = _
        rw [if_neg hb]
      · show (if a = a then _ else _) = _
        rw [if_pos rfl]
        have := f.total
        show s.hold a + sh = s.hold a + (lp'.total - s.lp.total)
        omega
      · show (if b = a then _ else _) = _
        rw [if_neg hb]
      · show 0 ≤ (if a = a then _ else _)
        rw [if_pos rfl]
        have := f.shares_nonneg
        omega
  | exit a sh =>
    simp only [step, Op.actor]
    split
    · rename_i hh
      cases he : s.lp.exit fee sh with
      | none => exact StepFacts.refl hwf a
      | some r =>
        obtain ⟨cs, lp'⟩ := r
        have f := LP.exit_facts hwf hfee he
        refine ⟨f.wf, f.denoms_eq, fun d => ?_, fun d => ?_, fun b hb d => ?_, ?_, fun b hb => ?_, fun h => ?_⟩
        · -- R·(T−sh) ≤ (R−x)·T  ⇔  x·T ≤ R·sh
          show s.lp.res d * lp'.total ≤ lp'.res d * s.lp.total
          rw [f.total, f.res d, Int.mul_sub, Int.sub_mul]
          have := f.fair d
          omega
        · show (if a = a then _ else _) = _
          rw [if_pos rfl]
          have := f.res d
          show s.dep a d - amountOf cs d = s.dep a d + (lp'.res d - s.lp.res d)
          omega
        · show (if b = a then _ else _) = _
          rw [if_neg hb]
        · show (if a = a then _ else _) = _
          rw [if_pos rfl]
          have := f.total
          show s.hold a - sh = s.hold a + (lp'.total - s.lp.total)
          omega
        · show (if b = a then _ else _) = _
          rw [if_neg hb]
        · show 0 ≤ (if a = a then _ else _)
          rw [if_pos rfl]
          omega
    · exact StepFacts.refl hwf a

end OsmoVerif.GammSeq
