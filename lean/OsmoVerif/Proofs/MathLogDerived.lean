/-
Real-valued error of `BigDec.Quo` and of the logarithms derived from `LogBase2`
(`Ln`, `TickLog`, `CustomBaseLog`): the base-2 error scaled by the base change, plus half an ulp of the
final division, plus the error of the coded base-change constant itself (explicit term).
-/
import OsmoVerif.Proofs.MathLogBound
import OsmoVerif.Proofs.NumLemmas2

namespace OsmoVerif.MathM
open OsmoVerif.Num OsmoVerif.Gen OsmoVerif.Spec Real

theorem isTrunc_abs_lt {N D t : Int} (hD : 0 < D) (h : IsTrunc N D t) : |N - t * D| < D := by
  rcases Int.lt_or_le N 0 with hn | hn
  · obtain ⟨a, b⟩ := h.2 hn
    rw [Int.sub_mul] at a
    rw [abs_lt]; constructor <;> omega
  · obtain ⟨a, b⟩ := h.1 hn
    rw [Int.add_mul] at b
    rw [abs_lt]; constructor <;> omega

/-- truncated division is within one of the exact real quotient. -/
theorem tdiv_real (n b : Int) (hb : b ≠ 0) : |((n.tdiv b : Int) : ℝ) - (n : ℝ) / b| < 1 := by
  have hbr : (b : ℝ) ≠ 0 := by exact_mod_cast hb
  have h := isTrunc_abs_lt (by omega) (tdiv_general_isTrunc n b hb)
  have hr : |((sgnMul b n : Int) : ℝ) - (n.tdiv b : Int) * (b.natAbs : Int)| < ((b.natAbs : Int) : ℝ) := by
    exact_mod_cast h
  rcases Int.lt_or_gt_of_ne hb with hneg | hpos
  · have e1 : ((b.natAbs : Int) : ℝ) = -(b : ℝ) := by
      have : (b.natAbs : Int) = -b := by omega
      rw [this]; push_cast; ring
    rw [sgnMul_of_neg n hneg, e1] at hr
    have hb0 : (b : ℝ) < 0 := by exact_mod_cast hneg
    have e : ((n.tdiv b : Int) : ℝ) - (n : ℝ) / b = (((-n : Int) : ℝ) - (n.tdiv b : Int) * -(b : ℝ)) / b := by
      push_cast; field_simp; ring
    rw [e, abs_div, abs_of_neg hb0, div_lt_one (by linarith)]
    exact hr
  · have e1 : ((b.natAbs : Int) : ℝ) = (b : ℝ) := by
      have : (b.natAbs : Int) = b := by omega
      rw [this]
    rw [sgnMul_of_pos n hpos, e1] at hr
    have hb0 : (0 : ℝ) < b := by exact_mod_cast hpos
    have e : ((n.tdiv b : Int) : ℝ) - (n : ℝ) / b = -(((n : Int) : ℝ) - (n.tdiv b : Int) * (b : ℝ)) / b := by
      field_simp; ring
    rw [e, abs_div, abs_neg, abs_of_pos hb0, div_lt_one hb0]
    exact hr

/-- `BigDec.Quo`: within `(½ + 10^-36)` ulp of the exact quotient of the two values. -/
theorem bigQuo_real {a b q : Int} (h : BigDec.quo a b = some q) :
    b ≠ 0 ∧ |bval q - bval a / bval b| ≤ (1 / 2 + 1 / 10 ^ 36) / 10 ^ 36 := by
  unfold BigDec.quo at h
  by_cases hb : b = 0
  · rw [if_pos hb] at h; cases h
  · rw [if_neg hb] at h
    refine ⟨hb, ?_⟩
    obtain ⟨rfl, _⟩ := chk_some h
    have hbr : (b : ℝ) ≠ 0 := by exact_mod_cast hb
    obtain ⟨h1, h2, _⟩ := chopRound_isHalfEven P36 ((a * (P36 * P36)).tdiv b) P36_pos P36_even
    set t := (a * (P36 * P36)).tdiv b with ht
    set q := chopRound P36 t with hq
    have ht' := tdiv_real (a * (P36 * P36)) b hb
    rw [← ht] at ht'
    have c1 : (2 : ℝ) * ((t : ℝ) - q * 10 ^ 36) ≤ 10 ^ 36 := by
      have : ((2 * (t - q * P36) : Int) : ℝ) ≤ ((P36 : Int) : ℝ) := by exact_mod_cast h1
      push_cast at this; rw [P36_cast] at this; exact this
    have c2 : -(10 : ℝ) ^ 36 ≤ 2 * ((t : ℝ) - q * 10 ^ 36) := by
      have : ((-P36 : Int) : ℝ) ≤ ((2 * (t - q * P36) : Int) : ℝ) := by exact_mod_cast h2
      push_cast at this; rw [P36_cast] at this; exact this
    have e : bval q - bval a / bval b =
        (((q : ℝ) * 10 ^ 36 - t) + ((t : ℝ) - ((a * (P36 * P36) : Int) : ℝ) / b)) / (10 ^ 36 * 10 ^ 36) := by
      unfold bval; push_cast; rw [P36_cast]; field_simp; ring
    rw [e, abs_div, abs_of_pos (by positivity : (0 : ℝ) < 10 ^ 36 * 10 ^ 36), div_le_iff₀ (by positivity)]
    have e2 : ((1 : ℝ) / 2 + 1 / 10 ^ 36) / 10 ^ 36 * (10 ^ 36 * 10 ^ 36) = 10 ^ 36 / 2 + 1 := by field_simp
    rw [e2]
    obtain ⟨t1, t2⟩ := abs_lt.mp ht'
    rw [abs_le]; constructor <;> linarith

/-! ### `Ln` and `TickLog`: division by a coded constant -/

/-- `LogBase2(x) / c` for a positive coded constant `c` (raw `cr`): error against `log₂(x)/c`. -/
theorem logDivConst_error {x cr l q : Int} (hc : 0 < cr) (hl : logBase2 x = some l) (hq : BigDec.quo l cr = some q) :
    |bval q - lg2 x / bval cr| ≤ 89 / 10 ^ 36 / bval cr + (1 / 2 + 1 / 10 ^ 36) / 10 ^ 36 := by
  have hcv : 0 < bval cr := bval_pos hc
  obtain ⟨_, hquo⟩ := bigQuo_real hq
  have hlog := logBase2_real_error hl
  have e1 : Real.logb 2 ((x : ℝ) / 10 ^ 36) = lg2 x := rfl
  rw [e1] at hlog
  have e2 : (l : ℝ) / 10 ^ 36 = bval l := rfl
  rw [e2] at hlog
  have h3 : |bval l / bval cr - lg2 x / bval cr| ≤ 89 / 10 ^ 36 / bval cr := by
    rw [← sub_div, abs_div, abs_of_pos hcv]
    exact div_le_div_of_nonneg_right hlog hcv.le
  have tri := abs_sub_le (bval q) (bval l / bval cr) (lg2 x / bval cr)
  linarith

/-- `Ln`: error against the true natural logarithm; the last term is the error of the coded constant
`logOfEbase2 ≈ log₂ e` itself (`|1/c − ln 2|`), multiplied by `|log₂ x|`. -/
theorem ln_real_error {x r : Int} (h : ln x = some r) :
    |bval r - Real.log (bval x)| ≤
      63 / 10 ^ 36 + |lg2 x| * |1 / bval Osmomath.logOfEbase2 - Real.log 2| := by
  unfold ln at h
  obtain ⟨l, hl, hq⟩ := Option.bind_eq_some_iff.mp h
  have hc : (0 : Int) < Osmomath.logOfEbase2 := by decide
  have hmain := logDivConst_error hc hl hq
  have hcv : (1.44 : ℝ) ≤ bval Osmomath.logOfEbase2 := by
    unfold bval Osmomath.logOfEbase2; norm_num
  set c := bval Osmomath.logOfEbase2 with hcdef
  have hc0 : 0 < c := by linarith
  have hl2 : 0 < Real.log 2 := Real.log_pos (by norm_num)
  -- log₂ x / c − ln x = log₂ x · (1/c − ln 2)
  have e : lg2 x / c - Real.log (bval x) = lg2 x * (1 / c - Real.log 2) := by
    unfold lg2 Real.logb; field_simp
  have tri := abs_sub_le (bval r) (lg2 x / c) (Real.log (bval x))
  rw [e, abs_mul] at tri
  have hnum : 89 / 10 ^ 36 / c + (1 / 2 + 1 / 10 ^ 36) / 10 ^ 36 ≤ (63 : ℝ) / 10 ^ 36 := by
    have : 89 / 10 ^ 36 / c ≤ 89 / 10 ^ 36 / (1.44 : ℝ) := by
      apply div_le_div_of_nonneg_left (by positivity) (by norm_num) hcv
    have : (89 : ℝ) / 10 ^ 36 / 1.44 + (1 / 2 + 1 / 10 ^ 36) / 10 ^ 36 ≤ 63 / 10 ^ 36 := by norm_num
    linarith
  linarith

/-- `TickLog`: error against `log₂(x)/c'`, `c' = tickLogOf2/10^36 ≈ log₂ 1.0001`, and against the true
`log_{1.0001} x` with the constant's own error as an explicit term. -/
theorem tickLog_real_error {x r : Int} (h : tickLog x = some r) :
    |bval r - Real.logb 1.0001 (bval x)| ≤
      616933 / 10 ^ 36 + |lg2 x| * |1 / bval Osmomath.tickLogOf2 - 1 / Real.logb 2 1.0001| := by
  unfold tickLog at h
  obtain ⟨l, hl, hq⟩ := Option.bind_eq_some_iff.mp h
  have hc : (0 : Int) < Osmomath.tickLogOf2 := by decide
  have hmain := logDivConst_error hc hl hq
  have hcv : (0.000144262291 : ℝ) ≤ bval Osmomath.tickLogOf2 := by
    unfold bval Osmomath.tickLogOf2; norm_num
  set c := bval Osmomath.tickLogOf2 with hcdef
  have hc0 : 0 < c := by linarith
  have hl2 : 0 < Real.log 2 := Real.log_pos (by norm_num)
  have hlt : 0 < Real.log 1.0001 := Real.log_pos (by norm_num)
  have e : lg2 x / c - Real.logb 1.0001 (bval x) = lg2 x * (1 / c - 1 / Real.logb 2 1.0001) := by
    unfold lg2 Real.logb; field_simp
  have tri := abs_sub_le (bval r) (lg2 x / c) (Real.logb 1.0001 (bval x))
  rw [e, abs_mul] at tri
  have hnum : 89 / 10 ^ 36 / c + (1 / 2 + 1 / 10 ^ 36) / 10 ^ 36 ≤ (616933 : ℝ) / 10 ^ 36 := by
    have : 89 / 10 ^ 36 / c ≤ 89 / 10 ^ 36 / (0.000144262291 : ℝ) := by
      apply div_le_div_of_nonneg_left (by positivity) (by norm_num) hcv
    have : (89 : ℝ) / 10 ^ 36 / 0.000144262291 + (1 / 2 + 1 / 10 ^ 36) / 10 ^ 36 ≤ 616933 / 10 ^ 36 := by norm_num
    linarith
  linarith

/-! ### `CustomBaseLog`: quotient of two computed logarithms -/

theorem customBaseLog_real_error {x base r : Int} (h : customBaseLog x base = some r) :
    ∃ lb : Int, logBase2 base = some lb ∧ lb ≠ 0 ∧ 0 < x ∧ 0 < base ∧ base ≠ P36 ∧
      |bval r - Real.logb (bval base) (bval x)| ≤
        89 / 10 ^ 36 * (1 + |Real.logb (bval base) (bval x)|) / |bval lb| + (1 / 2 + 1 / 10 ^ 36) / 10 ^ 36 := by
  unfold customBaseLog at h
  by_cases hb : base ≤ 0 ∨ base = P36
  · rw [if_pos hb] at h; cases h
  · rw [if_neg hb] at h
    obtain ⟨la, hla, h⟩ := Option.bind_eq_some_iff.mp h
    obtain ⟨lb, hlb, hq⟩ := Option.bind_eq_some_iff.mp h
    obtain ⟨hlb0, hquo⟩ := bigQuo_real hq
    have hx : 0 < x := (logBase2_unfold hla).1
    have hbase : 0 < base := by omega
    refine ⟨lb, hlb, hlb0, hx, hbase, by omega, ?_⟩
    have ea := logBase2_real_error hla
    have eb := logBase2_real_error hlb
    have r1 : Real.logb 2 ((x : ℝ) / 10 ^ 36) = lg2 x := rfl
    have r2 : Real.logb 2 ((base : ℝ) / 10 ^ 36) = lg2 base := rfl
    have r3 : (la : ℝ) / 10 ^ 36 = bval la := rfl
    have r4 : (lb : ℝ) / 10 ^ 36 = bval lb := rfl
    rw [r1, r3] at ea; rw [r2, r4] at eb
    have hbv : bval lb ≠ 0 := by
      unfold bval
      have : (lb : ℝ) ≠ 0 := by exact_mod_cast hlb0
      positivity
    have habs : 0 < |bval lb| := abs_pos.mpr hbv
    -- true log₂ base ≠ 0
    have hB : lg2 base ≠ 0 := by
      unfold lg2
      have hv : 0 < bval base := bval_pos hbase
      have hne : bval base ≠ 1 := by
        unfold bval
        intro h1
        rw [div_eq_one_iff_eq (by positivity)] at h1
        have : (base : ℝ) = ((P36 : Int) : ℝ) := by rw [P36_cast]; exact h1
        have : base = P36 := by exact_mod_cast this
        omega
      intro h0
      rcases Real.logb_eq_zero.mp h0 with h | h | h | h | h | h
      · norm_num at h
      · norm_num at h
      · norm_num at h
      · linarith
      · exact hne h
      · linarith
    have hL : Real.logb (bval base) (bval x) = lg2 x / lg2 base := by
      unfold lg2 Real.logb
      have hl2 : Real.log 2 ≠ 0 := (Real.log_pos (by norm_num)).ne'
      field_simp
    set A := lg2 x
    set B := lg2 base
    set a := bval la
    set b := bval lb
    -- a/b − A/B = ((a − A) − (A/B)(b − B)) / b
    have e : a / b - A / B = ((a - A) - A / B * (b - B)) / b := by field_simp; ring
    have h5 : |a / b - A / B| ≤ 89 / 10 ^ 36 * (1 + |A / B|) / |b| := by
      rw [e, abs_div]
      apply div_le_div_of_nonneg_right _ habs.le
      calc |(a - A) - A / B * (b - B)| ≤ |a - A| + |A / B * (b - B)| := abs_sub _ _
        _ = |a - A| + |A / B| * |b - B| := by rw [abs_mul]
        _ ≤ 89 / 10 ^ 36 + |A / B| * (89 / 10 ^ 36) := by
            have := abs_nonneg (A / B)
            nlinarith
        _ = _ := by ring
    have tri := abs_sub_le (bval r) (a / b) (A / B)
    rw [hL]
    linarith

end OsmoVerif.MathM
