/-
C04 (stableswap invariant), part 4: the exact invariant of a pool state and the list bookkeeping of a swap.

  * `xq a = amount / scalingFactor` (exact rational), `ssInvariant p = ssK (p.assets.map xq) = (Π Xᵢ)·(Σ Xᵢ²)`;
  * with distinct denoms, a pool is a permutation of `in :: out :: others` (the order `scaledSortedPoolReserves`
    works in), so `ssInvariant p = kq X_in X_out (Σ others²) · Π others`;
  * what `ssAddLiq` / `ssSubLiq` do to the asset list.
-/
import OsmoVerif.Proofs.GammSSRound2
import Mathlib.Data.List.Perm.Basic
import Mathlib.Data.List.Nodup

set_option linter.unusedSimpArgs false

namespace OsmoVerif.GammMath.SS
open OsmoVerif.Num OsmoVerif.MathM OsmoVerif.Gen OsmoVerif.Spec

/-- exact scaled reserve `amount / scalingFactor`. -/
def xq (a : SSAsset) : ℚ := (a.amount : ℚ) / (a.sf : ℚ)

/-- the exact stableswap invariant `(Π Xᵢ)·(Σ Xᵢ²)` of a pool state, `Xᵢ = reserveᵢ / scalingFactorᵢ`. -/
def ssInvariant (p : SSPool) : ℚ := ssK (p.assets.map xq)

/-- pool denoms are pairwise distinct (an invariant of `sdk.Coins`). -/
def NodupDenoms (as : List SSAsset) : Prop := (as.map (·.denom)).Nodup

theorem findSS_some {as : List SSAsset} {d : String} {a : SSAsset} (h : findSS as d = some a) :
    a ∈ as ∧ a.denom = d := by
  unfold findSS at h
  exact ⟨List.mem_of_find?_eq_some h, by simpa using List.find?_some h⟩

theorem findSS_cons (c : SSAsset) (t : List SSAsset) (d : String) :
    findSS (c :: t) d = if c.denom = d then some c else findSS t d := by
  unfold findSS
  rw [List.find?_cons]
  by_cases h : c.denom = d <;> simp [h]

theorem NodupDenoms.tail {c : SSAsset} {t : List SSAsset} (h : NodupDenoms (c :: t)) :
    NodupDenoms t ∧ ∀ z ∈ t, z.denom ≠ c.denom := by
  unfold NodupDenoms at *
  rw [List.map_cons, List.nodup_cons] at h
  refine ⟨h.2, fun z hz he => h.1 ?_⟩
  rw [← he]; exact List.mem_map.mpr ⟨z, hz, rfl⟩

/-- the asset found under a denom, in front of all the others. -/
theorem perm_of_find {as : List SSAsset} {d : String} {a : SSAsset} (hnd : NodupDenoms as)
    (h : findSS as d = some a) : as.Perm (a :: as.filter fun c => c.denom ≠ d) := by
  induction as with
  | nil => cases h
  | cons c t ih =>
    obtain ⟨hndt, hne⟩ := hnd.tail
    rw [findSS_cons] at h
    by_cases hc : c.denom = d
    · rw [if_pos hc] at h
      injection h with h; subst h
      have : (c :: t).filter (fun z => z.denom ≠ d) = t := by
        rw [List.filter_cons_of_neg (by simp [hc])]
        refine List.filter_eq_self.mpr fun z hz => ?_
        have := hne z hz
        simp only [decide_eq_true_eq]
        rw [← hc]; exact this
      rw [this]
    · rw [if_neg hc] at h
      have := ih hndt h
      rw [List.filter_cons_of_pos (by simp [hc])]
      exact (List.Perm.cons c this).trans (List.Perm.swap a c _)

theorem findSS_filter_ne {as : List SSAsset} {d1 d2 : String} {b : SSAsset} (hne : d1 ≠ d2)
    (h : findSS as d2 = some b) : findSS (as.filter fun c => c.denom ≠ d1) d2 = some b := by
  induction as with
  | nil => cases h
  | cons c t ih =>
    rw [findSS_cons] at h
    by_cases hc : c.denom = d2
    · rw [if_pos hc] at h
      have h1 : c.denom ≠ d1 := by rw [hc]; exact fun e => hne e.symm
      rw [List.filter_cons_of_pos (by simp [h1]), findSS_cons, if_pos hc]; exact h
    · rw [if_neg hc] at h
      by_cases h1 : c.denom = d1
      · rw [List.filter_cons_of_neg (by simp [h1])]; exact ih h
      · rw [List.filter_cons_of_pos (by simp [h1]), findSS_cons, if_neg hc]; exact ih h

/-- FULL: a pool with distinct denoms is a permutation of `first :: second :: others`, the order in which
`scaledSortedPoolReserves(first, second)` lists it. -/
theorem perm_two {as : List SSAsset} {d1 d2 : String} {a b : SSAsset} (hnd : NodupDenoms as) (hne : d1 ≠ d2)
    (ha : findSS as d1 = some a) (hb : findSS as d2 = some b) :
    as.Perm (a :: b :: as.filter fun c => c.denom ≠ d1 ∧ c.denom ≠ d2) := by
  have p1 := perm_of_find hnd ha
  have hnd2 : NodupDenoms (as.filter fun c => c.denom ≠ d1) := by
    unfold NodupDenoms at *
    exact hnd.sublist ((List.filter_sublist (l := as)).map _)
  have p2 := perm_of_find hnd2 (findSS_filter_ne hne hb)
  rw [List.filter_filter] at p2
  have e : (as.filter fun c => (decide (c.denom ≠ d2) && decide (c.denom ≠ d1)))
      = as.filter fun c => c.denom ≠ d1 ∧ c.denom ≠ d2 := by
    apply List.filter_congr
    intro c _
    by_cases h1 : c.denom = d1 <;> by_cases h2 : c.denom = d2 <;> simp [h1, h2]
  rw [e] at p2
  exact p1.trans (List.Perm.cons a p2)

/-- FULL: the invariant of a pool through the two swapped assets: `K = k(X₁, X₂, Σ others²)·Π others`. -/
theorem ssInvariant_two {p : SSPool} {d1 d2 : String} {a b : SSAsset} (hnd : NodupDenoms p.assets)
    (hne : d1 ≠ d2) (ha : findSS p.assets d1 = some a) (hb : findSS p.assets d2 = some b) :
    ssInvariant p =
      kq (xq a) (xq b) (sumSq ((p.assets.filter fun c => c.denom ≠ d1 ∧ c.denom ≠ d2).map xq))
        * ((p.assets.filter fun c => c.denom ≠ d1 ∧ c.denom ≠ d2).map xq).prod := by
  unfold ssInvariant
  rw [ssK_perm ((perm_two hnd hne ha hb).map xq)]
  simp only [List.map_cons]
  exact ssK_cons_cons _ _ _

/-! ### `PoolLiquidity.Add` / `.Sub` -/

theorem mapM_ok_eq_map {α β : Type} {f : α → R β} {g : α → β} (hg : ∀ a b, f a = .ok b → b = g a) :
    ∀ (l : List α) (l' : List β), l.mapM f = .ok l' → l' = l.map g := by
  intro l
  induction l with
  | nil => intro l' h; simp [pure, Except.pure] at h; subst h; rfl
  | cons a l ih =>
    intro l' h
    rw [List.mapM_cons] at h
    cases ha : f a with
    | error e => simp [ha, bind, Except.bind] at h
    | ok b =>
      cases hl : l.mapM f with
      | error e => simp [ha, hl, bind, Except.bind] at h
      | ok bs =>
        simp only [ha, hl, bind, Except.bind, pure, Except.pure] at h
        injection h with h; subst h
        rw [List.map_cons, hg a b ha, ih bs hl]

/-- per-element form of a successful `mapM`. -/
theorem mapM_ok_forall₂ {α β : Type} (f : α → R β) :
    ∀ (l : List α) (l' : List β), l.mapM f = .ok l' → List.Forall₂ (fun a b => f a = .ok b) l l' := by
  intro l
  induction l with
  | nil => intro l' h; simp [pure, Except.pure] at h; subst h; exact .nil
  | cons a l ih =>
    intro l' h
    rw [List.mapM_cons] at h
    cases ha : f a with
    | error e => simp [ha, bind, Except.bind] at h
    | ok b =>
      cases hl : l.mapM f with
      | error e => simp [ha, hl, bind, Except.bind] at h
      | ok bs =>
        simp only [ha, hl, bind, Except.bind, pure, Except.pure] at h
        injection h with h; subst h
        exact .cons ha (ih bs hl)

theorem ssAddLiq_spec {p : SSPool} {cs : Coins} {post : List SSAsset} (h : ssAddLiq p cs = .ok post) :
    post = p.assets.map fun a => { a with amount := a.amount + amountOf cs a.denom } := by
  unfold ssAddLiq at h
  split at h
  · cases h
  · refine mapM_ok_eq_map (fun a b hab => ?_) _ _ h
    cases hi : iadd a.amount (amountOf cs a.denom) with
    | error e => simp [hi, bind, Except.bind] at hab
    | ok n =>
      simp only [hi, bind, Except.bind, pure, Except.pure] at hab
      injection hab with hab
      unfold iadd at hi
      rw [← hab, chkInt_some (pn_ok hi)]

theorem ssSubLiq_spec {as post : List SSAsset} {cs : Coins} (h : ssSubLiq as cs = .ok post) :
    post = (as.map fun a => { a with amount := a.amount - amountOf cs a.denom }) ∧
      ∀ a ∈ as, 0 < a.amount - amountOf cs a.denom := by
  unfold ssSubLiq at h
  split at h
  · cases h
  · split at h
    · cases h
    · rename_i hany
      simp only [pure, Except.pure] at h
      injection h with h
      refine ⟨h.symm, fun a ha => ?_⟩
      by_contra hc
      exact hany (List.any_eq_true.mpr ⟨a, ha, by simpa using hc⟩)

theorem amountOf_single (d : String) (a : Int) (d' : String) :
    amountOf [(d, a)] d' = if d = d' then a else 0 := by
  unfold amountOf
  by_cases h : d = d' <;> simp [h]

example : ssInvariant ⟨[⟨"tka", 4, 1⟩, ⟨"tkb", 30, 10⟩], 0⟩ = 300 := by
  norm_num [ssInvariant, ssK, sumSq, xq]

end OsmoVerif.GammMath.SS
