/-
x/lockup genesis: on every state satisfying the C06 invariant, `ExportGenesis` lists every lock exactly once
and `InitGenesis` of that document into an emptied lockup store completes and rebuilds a state equivalent
(`Sim`) to the exported one: same records, same reference index, same accumulation per real denomination.
Core only.
-/
import OsmoVerif.Proofs.LockupSorted
import OsmoVerif.Proofs.LockupGenesisOps
namespace OsmoVerif.Lockup

/-! ## small list facts -/

theorem nodup_filterMap_inj {α β : Type} (f : α → Option β) (H : ∀ a a' b, f a = some b → f a' = some b → a = a')
    {l : List α} (h : l.Nodup) : (l.filterMap f).Nodup :=
  List.Pairwise.filterMap (R := fun a b => a ≠ b) (S := fun a b => a ≠ b) f
    (fun a a' hne b hb b' hb' (e : b = b') => hne (H a a' b hb (by rw [e]; exact hb'))) h

theorem nodup_of_nodup_map {α β : Type} (f : α → β) {l : List α} (h : (l.map f).Nodup) : l.Nodup :=
  List.Pairwise.of_map f (fun _ _ hne e => hne (congrArg f e)) h

theorem nodup_reverse' {α : Type} {l : List α} (h : l.Nodup) : l.reverse.Nodup :=
  List.pairwise_reverse.mpr (List.Pairwise.imp (fun hne e => hne e.symm) h)

/-! ## export -/

theorem mem_durEntries {s : State} {u : Bool} {d : Int} {id : Nat} :
    (d, id) ∈ durEntries s u ↔ (⟨u, IdxKey.dur d⟩, id) ∈ s.refs := by
  unfold durEntries
  rw [mem_isortBy, List.mem_filterMap]
  constructor
  · rintro ⟨⟨⟨u', k⟩, i⟩, hm, hf⟩
    cases k <;> simp only [reduceCtorEq] at hf
    split at hf
    · rename_i hu
      injection hf with hf
      injection hf with h1 h2
      subst hu; subst h1; subst h2
      exact hm
    · cases hf
  · intro hm
    exact ⟨_, hm, by simp⟩

theorem dur_mem_indexKeys {l : Lock} {u : Bool} {d : Int} :
    (⟨u, IdxKey.dur d⟩ : RefKey) ∈ indexKeys l ↔ u = l.isUnlocking ∧ d = durKey l.duration := by
  unfold indexKeys lockRefKeys durationLockRefKeys
  split <;> simp [eq_comm]

theorem durEntries_of_inv {s : State} (h : Inv s) {u : Bool} {d : Int} {id : Nat} :
    (d, id) ∈ durEntries s u ↔ ∃ l ∈ s.locks, l.id = id ∧ l.isUnlocking = u ∧ d = durKey l.duration := by
  rw [mem_durEntries, h.refsOK]
  constructor
  · rintro ⟨_, l, hl, hid, hk⟩
    obtain ⟨h1, h2⟩ := dur_mem_indexKeys.mp hk
    exact ⟨l, hl, hid, h1.symm, h2⟩
  · rintro ⟨l, hl, hid, h1, h2⟩
    exact ⟨by simp, l, hl, hid, dur_mem_indexKeys.mpr ⟨h1.symm, h2⟩⟩

theorem nodup_durEntries_ids {s : State} (h : Inv s) (u : Bool) : ((durEntries s u).map (·.2)).Nodup := by
  apply nodup_map_of_inj_on
  · unfold durEntries
    apply nodup_isortBy
    apply nodup_filterMap_inj _ _ h.refsNodup
    rintro ⟨⟨u1, k1⟩, i1⟩ ⟨⟨u2, k2⟩, i2⟩ ⟨d, id⟩ h1 h2
    cases k1 <;> simp only [reduceCtorEq] at h1
    cases k2 <;> simp only [reduceCtorEq] at h2
    split at h1
    · split at h2
      · injection h1 with h1; injection h1 with a1 a2
        injection h2 with h2; injection h2 with b1 b2
        subst a1; subst a2; subst b1; subst b2
        rename_i e1 e2
        rw [e1, e2]
      · cases h2
    · cases h1
  · rintro ⟨d1, i1⟩ h1 ⟨d2, i2⟩ h2 e
    simp only at e
    subst e
    obtain ⟨l1, hl1, hid1, _, hd1⟩ := (durEntries_of_inv h).mp h1
    obtain ⟨l2, hl2, hid2, _, hd2⟩ := (durEntries_of_inv h).mp h2
    have := mem_unique h.nodup hl1 hl2 (by rw [hid1, hid2])
    subst this
    rw [hd1, hd2]

theorem locksFromEntries_spec {s : State} : ∀ (es : List (Int × Nat)),
    (∀ e ∈ es, ∃ l, getLock s e.2 = some l) →
    ∃ ls, locksFromEntries s es = some ls ∧ ls.map (·.id) = es.map (·.2) ∧ ∀ l ∈ ls, l ∈ s.locks
  | [], _ => ⟨[], rfl, rfl, by simp⟩
  | e :: es, he => by
    obtain ⟨l, hl⟩ := he e List.mem_cons_self
    obtain ⟨ls, h1, h2, h3⟩ := locksFromEntries_spec es (fun x hx => he x (List.mem_cons_of_mem _ hx))
    refine ⟨l :: ls, ?_, ?_, ?_⟩
    · simp only [locksFromEntries, hl, h1]
    · obtain ⟨_, hid⟩ := getLockL_some hl
      simp only [List.map_cons, h2, hid]
    · intro x hx
      rcases List.mem_cons.mp hx with e | e
      · rw [e]; exact (getLockL_some hl).1
      · exact h3 x e

theorem locksFromEntries_inv {s : State} (h : Inv s) (u : Bool) :
    ∃ ls, locksFromEntries s (durEntries s u) = some ls ∧ ls.map (·.id) = (durEntries s u).map (·.2) ∧
      ∀ l ∈ ls, l ∈ s.locks := by
  apply locksFromEntries_spec
  rintro ⟨d, id⟩ he
  obtain ⟨l, hl, hid, _, _⟩ := (durEntries_of_inv h).mp he
  exact ⟨l, by rw [← hid]; exact getLockL_of_mem h.nodup hl⟩

/-- `GetPeriodLocks` on a state satisfying the invariant: every lock, once. -/
theorem getPeriodLocks_inv {s : State} (h : Inv s) : ∃ ls, getPeriodLocks s = some ls ∧ ls.Perm s.locks := by
  obtain ⟨us, hu1, hu2, hu3⟩ := locksFromEntries_inv h true
  obtain ⟨ns, hn1, hn2, hn3⟩ := locksFromEntries_inv h false
  refine ⟨ns ++ us, by simp only [getPeriodLocks, hu1, hn1], ?_⟩
  have hids : (ids (ns ++ us)).Nodup := by
    simp only [ids, List.map_append, hu2, hn2]
    refine List.nodup_append.mpr ⟨nodup_durEntries_ids h false, nodup_durEntries_ids h true, ?_⟩
    intro a ha b hb e
    subst e
    obtain ⟨⟨d1, i1⟩, m1, e1⟩ := List.mem_map.mp ha
    obtain ⟨⟨d2, i2⟩, m2, e2⟩ := List.mem_map.mp hb
    simp only at e1 e2
    subst e1; subst e2
    obtain ⟨l1, hl1, hid1, f1, _⟩ := (durEntries_of_inv h).mp m1
    obtain ⟨l2, hl2, hid2, f2, _⟩ := (durEntries_of_inv h).mp m2
    have := mem_unique h.nodup hl1 hl2 (by rw [hid1, hid2])
    subst this
    rw [f1] at f2; cases f2
  apply (List.perm_ext_iff_of_nodup (nodup_of_nodup_map _ hids) (nodup_of_nodup_map _ h.nodup)).mpr
  intro l
  constructor
  · intro hl
    rcases List.mem_append.mp hl with e | e
    · exact hn3 l e
    · exact hu3 l e
  · intro hl
    have hent : (durKey l.duration, l.id) ∈ durEntries s l.isUnlocking :=
      (durEntries_of_inv h).mpr ⟨l, hl, rfl, rfl, rfl⟩
    have hidm : l.id ∈ ids (ns ++ us) := by
      simp only [ids, List.map_append, hu2, hn2, List.mem_append]
      cases hf : l.isUnlocking
      · rw [hf] at hent; exact Or.inl (List.mem_map.mpr ⟨_, hent, rfl⟩)
      · rw [hf] at hent; exact Or.inr (List.mem_map.mpr ⟨_, hent, rfl⟩)
    obtain ⟨l', hl', hid'⟩ := List.mem_map.mp hidm
    have hl's : l' ∈ s.locks := by
      rcases List.mem_append.mp hl' with e | e
      · exact hn3 l' e
      · exact hu3 l' e
    have := mem_unique h.nodup hl's hl hid'
    rw [← this]; exact hl'

/-! ## import -/

theorem addRefsP_ok : ∀ (ks : List RefKey) (refs : List (RefKey × Nat)) (id : Nat), ks.Nodup →
    (∀ k ∈ ks, (k, id) ∉ refs) → addRefsP refs ks id = ((ks.map (·, id)).reverse ++ refs, true)
  | [], _, _, _, _ => rfl
  | k :: ks, refs, id, hn, hf => by
    have hn' := List.nodup_cons.mp hn
    simp only [addRefsP, if_neg (hf k List.mem_cons_self)]
    rw [addRefsP_ok ks _ id hn'.2]
    · simp only [List.map_cons, List.reverse_cons, List.append_assoc, List.singleton_append]
    · intro k' hk' hm
      rcases List.mem_cons.mp hm with e | e
      · injection e with e1 _
        exact hn'.1 (e1 ▸ hk')
      · exact hf k' (List.mem_cons_of_mem _ hk') e

theorem setLockL_fresh {L : List Lock} {l : Lock} (h : l.id ∉ ids L) : setLockL L l = L ++ [l] := by
  induction L with
  | nil => rfl
  | cons x xs ih =>
    simp only [ids, List.map_cons, List.mem_cons, not_or] at h
    simp only [setLockL, if_neg (show ¬ x.id = l.id from fun e => h.1 e.symm), List.cons_append]
    rw [ih h.2]

/-- frame of a state transformation that only touches the lock records and the index. -/
structure SameRest (s s' : State) : Prop where
  bal : s'.bal = s.bal
  modBal : s'.modBal = s.modBal
  last : s'.lastLockId = s.lastLockId
  allowed : s'.forceAllowed = s.forceAllowed
  accum : s'.accum = s.accum

theorem setAllLocks_ok : ∀ (L : List Lock) (s : State), (ids (s.locks ++ L)).Nodup →
    (∀ l ∈ L, (indexKeys l).Nodup) → s.refs.Nodup → RefsOK none s.refs s.locks →
    ∃ s', setAllLocks s L = (s', true) ∧ s'.locks = s.locks ++ L ∧ s'.refs.Nodup ∧ RefsOK none s'.refs s'.locks ∧
      SameRest s s'
  | [], s, _, _, hr, hok => ⟨s, rfl, by simp, hr, hok, ⟨rfl, rfl, rfl, rfl, rfl⟩⟩
  | l :: rest, s, hn, hk, hr, hok => by
    have hfresh : l.id ∉ ids s.locks := by
      simp only [ids, List.map_append, List.map_cons] at hn
      have := (List.nodup_append.mp hn).2.2
      intro hm
      exact this _ hm _ List.mem_cons_self rfl
    have hnone : ∀ k ∈ indexKeys l, (k, l.id) ∉ s.refs := by
      intro k _ hm
      obtain ⟨_, l', hl', hid, _⟩ := (hok k l.id).mp hm
      exact hfresh (List.mem_map.mpr ⟨l', hl', hid⟩)
    have hadd := addRefsP_ok (indexKeys l) s.refs l.id (hk l List.mem_cons_self) hnone
    let s1 : State := { s with locks := s.locks ++ [l], refs := ((indexKeys l).map (·, l.id)).reverse ++ s.refs }
    have hs1 : setLockAndAddLockRefs s l = (s1, true) := by
      simp only [setLockAndAddLockRefs, setLock, setLockL_fresh hfresh, hadd, s1]
    have hn1 : (ids (s1.locks ++ rest)).Nodup := by
      simp only [s1, List.append_assoc, List.singleton_append]; exact hn
    have hr1 : s1.refs.Nodup := by
      simp only [s1]
      refine List.nodup_append.mpr ⟨?_, hr, ?_⟩
      · apply nodup_reverse'
        apply nodup_map_of_inj_on _ _ (hk l List.mem_cons_self)
        intro a _ b _ e
        injection e
      · rintro ⟨k, i⟩ ha b hb e
        subst e
        rw [List.mem_reverse] at ha
        obtain ⟨k', hk', e'⟩ := List.mem_map.mp ha
        injection e' with e1 e2
        subst e1; subst e2
        exact hnone k' hk' hb
    have hok1 : RefsOK none s1.refs s1.locks := by
      intro k id
      simp only [s1, List.mem_append, List.mem_reverse, List.mem_map, Prod.mk.injEq, List.mem_singleton]
      rw [hok k id]
      constructor
      · rintro (⟨k', hk', rfl, rfl⟩ | ⟨_, l', hl', hid, hkk⟩)
        · exact ⟨by simp, l, Or.inr rfl, rfl, hk'⟩
        · exact ⟨by simp, l', Or.inl hl', hid, hkk⟩
      · rintro ⟨_, l', hl' | hl', hid, hkk⟩
        · exact Or.inr ⟨by simp, l', hl', hid, hkk⟩
        · subst hl'
          exact Or.inl ⟨k, hkk, rfl, hid⟩
    obtain ⟨s', h1, h2, h3, h4, h5⟩ :=
      setAllLocks_ok rest s1 hn1 (fun x hx => hk x (List.mem_cons_of_mem _ hx)) hr1 hok1
    refine ⟨s', ?_, ?_, h3, h4, ⟨h5.bal, h5.modBal, h5.last, h5.allowed, h5.accum⟩⟩
    · simp only [setAllLocks, hs1, h1]
    · rw [h2]; simp only [s1, List.append_assoc, List.singleton_append]

/-! ## the accumulation store written by `InitializeAllLocks` -/

theorem accSumGE_perm {l₁ l₂ : List ((Denom × Int) × Int)} (h : l₁.Perm l₂) (dn : Denom) (d : Int) :
    accSumGE l₁ dn d = accSumGE l₂ dn d := by
  induction h with
  | nil => rfl
  | cons x _ ih => obtain ⟨⟨a, b⟩, c⟩ := x; simp only [accSumGE, ih]
  | swap x y l => obtain ⟨⟨a, b⟩, c⟩ := x; obtain ⟨⟨a', b'⟩, c'⟩ := y; simp only [accSumGE]; omega
  | trans _ _ ih1 ih2 => rw [ih1, ih2]

theorem accSumGE_coins (dur : Int) (dn : Denom) (d : Int) : ∀ (c : Coins) (m : List ((Denom × Int) × Int)),
    accSumGE (c.foldl (fun m c => aadd m (c.1, dur) c.2) m) dn d =
      accSumGE m dn d + (if d ≤ dur then amountOf c dn else 0)
  | [], m => by simp [amountOf]
  | (dn', a) :: cs, m => by
    simp only [List.foldl_cons, accSumGE_coins dur dn d cs, accSumGE_aadd, amountOf]
    by_cases h1 : dn' = dn <;> by_cases h2 : d ≤ dur <;> simp [h1, h2] <;> omega

theorem accSumGE_accumEntries (dn : Denom) (d : Int) : ∀ (L : List Lock) (m : List ((Denom × Int) × Int)),
    accSumGE (L.foldl (fun m l => l.coins.foldl (fun m c => aadd m (c.1, l.duration) c.2) m) m) dn d =
      accSumGE m dn d + lsum (fDur dn d) L
  | [], m => by simp [lsum]
  | l :: ls, m => by
    simp only [List.foldl_cons, accSumGE_accumEntries dn d ls, accSumGE_coins, lsum, fDur, amt]
    omega

structure SameButAccum (s s' : State) : Prop where
  bal : s'.bal = s.bal
  modBal : s'.modBal = s.modBal
  last : s'.lastLockId = s.lastLockId
  allowed : s'.forceAllowed = s.forceAllowed
  locks : s'.locks = s.locks
  refs : s'.refs = s.refs

theorem writeAccum_spec : ∀ (es : List ((Denom × Int) × Int)) (s : State),
    SameButAccum s (es.foldl (fun s e => accIncrease s e.1.1 e.1.2 e.2) s) ∧
    ∀ dn d, accSumGE (es.foldl (fun s e => accIncrease s e.1.1 e.1.2 e.2) s).accum dn d =
      accSumGE s.accum dn d + accSumGE es dn d
  | [], s => ⟨⟨rfl, rfl, rfl, rfl, rfl, rfl⟩, by simp [accSumGE]⟩
  | ((dn0, k), v) :: es, s => by
    obtain ⟨h1, h2⟩ := writeAccum_spec es (accIncrease s dn0 k v)
    refine ⟨⟨h1.bal, h1.modBal, h1.last, h1.allowed, h1.locks, h1.refs⟩, ?_⟩
    intro dn d
    rw [List.foldl_cons, h2]
    simp only [accIncrease, accSumGE_aadd, accSumGE]
    omega

/-- `InitializeAllLocks` on an empty lockup store: completes, stores exactly the given locks with an exact,
duplicate-free index and the accumulation `Σ locks with duration ≥ d` for EVERY denomination. -/
theorem initializeAllLocks_ok {s0 : State} {L : List Lock} (h0l : s0.locks = []) (h0r : s0.refs = [])
    (h0a : s0.accum = []) (hn : (ids L).Nodup) (hk : ∀ l ∈ L, (indexKeys l).Nodup) :
    ∃ s', initializeAllLocks s0 L = (s', true) ∧ s'.locks = L ∧ s'.refs.Nodup ∧ RefsOK none s'.refs L ∧
      (∀ dn d, accSumGE s'.accum dn d = lsum (fDur dn d) L) ∧
      s'.bal = s0.bal ∧ s'.modBal = s0.modBal ∧ s'.lastLockId = s0.lastLockId ∧ s'.forceAllowed = s0.forceAllowed := by
  obtain ⟨s1, h1, h2, h3, h4, h5⟩ := setAllLocks_ok L s0 (by rw [h0l]; exact hn) hk (by rw [h0r]; simp)
    (by intro k id; rw [h0r, h0l]; simp)
  rw [h0l, List.nil_append] at h2
  obtain ⟨f1, f2⟩ := writeAccum_spec (isortBy accumEntryLE (accumEntries L)) s1
  refine ⟨(isortBy accumEntryLE (accumEntries L)).foldl (fun s e => accIncrease s e.1.1 e.1.2 e.2) s1,
    by simp only [initializeAllLocks, h1], by rw [f1.locks, h2], by rw [f1.refs]; exact h3,
    by rw [f1.refs]; rw [h2] at h4; exact h4, ?_, by rw [f1.bal, h5.bal], by rw [f1.modBal, h5.modBal],
    by rw [f1.last, h5.last], by rw [f1.allowed, h5.allowed]⟩
  intro dn d
  rw [f2, h5.accum, h0a, accSumGE_perm (perm_isortBy accumEntryLE _)]
  unfold accumEntries
  rw [accSumGE_accumEntries]
  simp [accSumGE]

theorem indexKeys_nodup_of_single {l : Lock} (h : SingleCoin l) : (indexKeys l).Nodup := by
  obtain ⟨dn, a, hc, _, _⟩ := h
  rw [indexKeys_single hc]
  split <;> simp

/-! ## export then import -/

/-- **Export/import of x/lockup.**  On a state satisfying the invariant, the export does not panic, `InitGenesis`
of the exported document into the emptied store completes, and the new state is equivalent to the old one. -/
theorem exportImport_sim {s : State} (h : Inv s) : ∃ s', exportImport s = some (s', true) ∧ Sim s' s := by
  obtain ⟨ls, hg, hp⟩ := getPeriodLocks_inv h
  have hnl : (ids ls).Nodup := (List.Perm.nodup_iff (hp.map _)).mpr h.nodup
  have hk : ∀ l ∈ ls, (indexKeys l).Nodup := fun l hl => indexKeys_nodup_of_single (h.single l (hp.mem_iff.mp hl))
  obtain ⟨s', e1, e2, e3, e4, e5, e6, e7, e8, e9⟩ :=
    initializeAllLocks_ok (s0 := { freshOf s with forceAllowed := s.forceAllowed, lastLockId := s.lastLockId })
      (L := ls) rfl rfl rfl hnl hk
  refine ⟨s', by simp only [exportImport, exportGenesis, hg, Option.map_some, initGenesis, e1], ?_⟩
  refine ⟨e6, e7, e8, e9, by rw [e2]; exact hnl, by rw [e2]; exact hp, ?_, ?_⟩
  · apply (List.perm_ext_iff_of_nodup e3 h.refsNodup).mpr
    rintro ⟨k, id⟩
    rw [e4 k id, h.refsOK k id]
    constructor
    · rintro ⟨a, l, hl, b⟩; exact ⟨a, l, hp.mem_iff.mp hl, b⟩
    · rintro ⟨a, l, hl, b⟩; exact ⟨a, l, hp.mem_iff.mpr hl, b⟩
  · intro dn hdn d
    rw [e5, h.accum dn hdn d, lsum_perm _ hp]

/-- what the import does to the accumulation store of the non-denomination "": it is rebuilt from the locks
(none holds ""), i.e. emptied. -/
theorem exportImport_empty_denom {s s' : State} {b : Bool} (h : Inv s) (he : exportImport s = some (s', b)) (d : Int) :
    accSumGE s'.accum "" d = 0 := by
  obtain ⟨ls, hg, hp⟩ := getPeriodLocks_inv h
  have hnl : (ids ls).Nodup := (List.Perm.nodup_iff (hp.map _)).mpr h.nodup
  have hk : ∀ l ∈ ls, (indexKeys l).Nodup := fun l hl => indexKeys_nodup_of_single (h.single l (hp.mem_iff.mp hl))
  obtain ⟨s'', e1, _, _, _, e5, _⟩ :=
    initializeAllLocks_ok (s0 := { freshOf s with forceAllowed := s.forceAllowed, lastLockId := s.lastLockId })
      (L := ls) rfl rfl rfl hnl hk
  simp only [exportImport, exportGenesis, hg, Option.map_some, initGenesis, e1, Option.some.injEq, Prod.mk.injEq] at he
  rw [← he.1, e5]
  have : ∀ L : List Lock, (∀ l ∈ L, SingleCoin l) → lsum (fDur "" d) L = 0 := by
    intro L
    induction L with
    | nil => intro _; rfl
    | cons x xs ih =>
      intro hs
      obtain ⟨dn, a, hc, _, hne⟩ := hs x List.mem_cons_self
      have hx : fDur "" d x = 0 := by
        simp only [fDur, amt, hc, amountOf, if_neg hne]; split <;> rfl
      simp only [lsum, hx, ih (fun l hl => hs l (List.mem_cons_of_mem _ hl))]; rfl
  exact this ls (fun l hl => h.single l (hp.mem_iff.mp hl))

/-! ## what equivalent states agree on -/

/-- outcomes (returned lock id / failure) of a history. -/
def outcomes (s : State) : List (Int × Op) → List (Option Nat)
  | [] => []
  | (t, op) :: rest => (step t s op).2 :: outcomes (step t s op).1 rest

theorem outcomes_sim : ∀ (hist : List (Int × Op)) {s t : State}, Sim s t → outcomes s hist = outcomes t hist
  | [], _, _, _ => rfl
  | (tm, op) :: rest, _, _, h => by
    simp only [outcomes, (step_sim h tm op).2, outcomes_sim rest (step_sim h tm op).1]

/-- every query of the model answers the same on equivalent states. -/
theorem queries_sim {s t : State} (h : Sim s t) :
    (∀ id, getLock s id = getLock t id) ∧ s.lastLockId = t.lastLockId ∧
    (∀ o dn, aget s.bal (o, dn) = aget t.bal (o, dn)) ∧ (∀ dn, aget s.modBal dn = aget t.modBal dn) ∧
    (∀ dn, dn ≠ "" → ∀ d, accumQuery s dn d = accumQuery t dn d) ∧
    qAll s = qAll t ∧ (∀ o, qOwner s o = qOwner t o) ∧
    (∀ o d nu, qOwnerLonger s o d nu = qOwnerLonger t o d nu) ∧
    (∀ o d, qOwnerDuration s o d = qOwnerDuration t o d) ∧
    (∀ o dn d nu, qOwnerDenomLonger s o dn d nu = qOwnerDenomLonger t o dn d nu) ∧
    (∀ o dn d, qOwnerDenomDurationNotUnlocking s o dn d = qOwnerDenomDurationNotUnlocking t o dn d) ∧
    (∀ dn d, qDenomLonger s dn d = qDenomLonger t dn d) ∧
    (∀ tm, qUnlockingBefore s tm = qUnlockingBefore t tm) ∧ (∀ tm, qUnlockingAfter s tm = qUnlockingAfter t tm) ∧
    (∀ now o ts, qOwnerPastTime s now o ts = qOwnerPastTime t now o ts) ∧
    (∀ now o ts, qOwnerUnlockedBefore s now o ts = qOwnerUnlockedBefore t now o ts) ∧
    (∀ now o dn ts, qOwnerDenomPastTime s now o dn ts = qOwnerDenomPastTime t now o dn ts) ∧
    (∀ now dn ts, qDenomPastTime s now dn ts = qDenomPastTime t now dn ts) := by
  have hb : ∀ p, bothFlags s p = bothFlags t p := fun p => idsWhere_sim h _
  have hf : ∀ u p, flagOnly s u p = flagOnly t u p := fun u p => idsWhere_sim h _
  have hol : ∀ o d nu, qOwnerLonger s o d nu = qOwnerLonger t o d nu := by
    intro o d nu; simp only [qOwnerLonger, hb, hf]
  have hodl : ∀ o dn d nu, qOwnerDenomLonger s o dn d nu = qOwnerDenomLonger t o dn d nu := by
    intro o dn d nu; simp only [qOwnerDenomLonger, hb, hf]
  refine ⟨getLock_sim h, h.last, fun o dn => by rw [h.bal], fun dn => by rw [h.modBal], accumQuery_sim h,
    hb _, fun o => hb _, hol, fun o d => hb _, hodl, fun o dn d => idsWhere_sim h _, fun dn d => hb _,
    fun tm => hf _ _, fun tm => hf _ _, ?_, ?_, ?_, ?_⟩
  · intro now o ts; simp only [qOwnerPastTime, hf, hol]
  · intro now o ts; simp only [qOwnerUnlockedBefore, hf]
  · intro now o dn ts; simp only [qOwnerDenomPastTime, hf, hodl]
  · intro now dn ts; simp only [qDenomPastTime, hf]

end OsmoVerif.Lockup
