/-
x/twap genesis over `Model/TwapGenesis.lean`: on every well-formed store (C10's `WF`: the historical index is a
chain with strictly increasing times and the most recent record is its last entry) export → import is the IDENTITY
whenever `Validate` accepts every exported record, and panics otherwise.  Core only.
-/
import OsmoVerif.Proofs.TwapInv
import OsmoVerif.Model.TwapGenesis
namespace OsmoVerif.Twap

theorem chain_pairwise : ∀ {l : List TwapRecord}, Chain l → l.Pairwise (fun a b => a.time < b.time)
  | [], _ => List.Pairwise.nil
  | [_], _ => by simp
  | r :: r' :: rs, h => by
    obtain ⟨hs, hc⟩ := h
    have ih := chain_pairwise hc
    refine List.pairwise_cons.mpr ⟨?_, ih⟩
    intro x hx
    rcases List.mem_cons.mp hx with e | e
    · subst e; exact hs.lt
    · have := (List.pairwise_cons.mp ih).1 x e
      have := hs.lt
      omega

theorem sortByTime_sorted : ∀ {l : List TwapRecord}, l.Pairwise (fun a b => a.time < b.time) → sortByTime l = l
  | [], _ => rfl
  | r :: rs, h => by
    have hp := List.pairwise_cons.mp h
    simp only [sortByTime, sortByTime_sorted hp.2]
    cases rs with
    | nil => rfl
    | cons r' rs' =>
      have : r.time ≤ r'.time := by have := hp.1 r' List.mem_cons_self; omega
      simp only [insertByTime, if_pos this]

theorem insertRec_last {pre : List TwapRecord} {x : TwapRecord} (h : ∀ r ∈ pre, r.time < x.time) :
    insertRec pre x = pre ++ [x] := by
  induction pre with
  | nil => rfl
  | cons r rs ih =>
    have h1 := h r List.mem_cons_self
    simp only [insertRec, if_neg (show ¬ x.time < r.time by omega), if_neg (show ¬ x.time = r.time by omega),
      ih (fun y hy => h y (List.mem_cons_of_mem _ hy)), List.cons_append]

theorem foldl_storeNewRecord : ∀ (l pre : List TwapRecord) (rc : Option TwapRecord),
    (pre ++ l).Pairwise (fun a b => a.time < b.time) →
    l.foldl storeNewRecord { hist := pre, recent := rc } =
      { hist := pre ++ l, recent := (match l.getLast? with | some x => some x | none => rc) }
  | [], pre, rc, _ => by simp
  | x :: xs, pre, rc, h => by
    have hx : ∀ r ∈ pre, r.time < x.time := by
      intro r hr
      exact (List.pairwise_append.mp h).2.2 r hr x List.mem_cons_self
    simp only [List.foldl_cons, storeNewRecord, insertRec_last hx]
    rw [foldl_storeNewRecord xs (pre ++ [x]) (some x) (by simpa [List.append_assoc] using h)]
    simp only [List.append_assoc, List.singleton_append]
    cases xs with
    | nil => rfl
    | cons y ys =>
      rw [List.getLast?_cons_cons]
      cases hl : (y :: ys).getLast? with
      | none => simp at hl
      | some z => rfl

/-- **export → import of x/twap is the identity** on a well-formed store all of whose records pass `Validate`;
if one does not, `InitGenesis` panics. -/
theorem exportImport_eq {s : Store} (wf : WF s) :
    exportImport s = if s.hist.all validRecord then some s else none := by
  unfold exportImport initGenesis exportGenesis
  simp only
  split
  · have hp := chain_pairwise wf.chain
    rw [sortByTime_sorted hp]
    have := foldl_storeNewRecord s.hist [] none (by simpa using hp)
    rw [show ({} : Store) = { hist := [], recent := none } from rfl, this]
    simp only [List.nil_append]
    congr 1
    cases s with
    | mk hist recent =>
      have hr := wf.recent
      simp only at hr ⊢
      rw [hr]
      cases hist.getLast? <;> rfl
  · rfl

/-! ## when does `Validate` accept what the chain itself wrote? -/

/-- what `getSpotPrices` delivers in the regime the validation has in mind: a failed read comes with a zero price,
a successful one with two positive prices (no clamp at `MaxSpotPrice`, no price below 10⁻¹⁸ truncated to zero). -/
structure GoodInput (now height sp0 sp1 : Int) (e : Bool) : Prop where
  hpos : 0 < height
  tnz : now ≠ zeroTime
  err : e = true → sp0 = 0 ∨ sp1 = 0
  ok : e = false → 0 < sp0 ∧ 0 < sp1
  nn0 : 0 ≤ sp0
  nn1 : 0 ≤ sp1

def VRec (r : TwapRecord) : Prop := validRecord r = true ∧ 0 ≤ r.sp0 ∧ 0 ≤ r.sp1

/-- every stored record passes `Validate` (and carries non-negative prices). -/
def VInv (s : Store) : Prop := ∀ r ∈ s.hist, VRec r

theorem validRecord_iff (r : TwapRecord) : validRecord r = true ↔
    0 < r.height ∧ r.time ≠ zeroTime ∧ (if r.lastErr = r.time then r.sp0 = 0 ∨ r.sp1 = 0 else 0 < r.sp0 ∧ 0 < r.sp1) ∧
      0 ≤ r.acc0 ∧ 0 ≤ r.acc1 := by
  unfold validRecord
  by_cases h : r.lastErr = r.time <;> simp [h, and_assoc]

theorem canonicalMs_mono {a b : Int} (h : a ≤ b) : canonicalMs a ≤ canonicalMs b := by
  unfold canonicalMs
  exact Int.ediv_le_ediv (by decide) h

theorem VInv_all {s : Store} (h : VInv s) : s.hist.all validRecord = true := by
  rw [List.all_eq_true]
  exact fun r hr => (h r hr).1

theorem create_valid {now height sp0 sp1 : Int} {e : Bool} (g : GoodInput now height sp0 sp1 e) :
    VInv (create {} now height sp0 sp1 e) := by
  intro r hr
  have : r = newRecord now height sp0 sp1 e := by simpa [Twap.create, storeNewRecord, insertRec] using hr
  subst this
  refine ⟨(validRecord_iff _).mpr ⟨g.hpos, g.tnz, ?_, Int.le_refl _, Int.le_refl _⟩, g.nn0, g.nn1⟩
  show (if (if e = true then now else zeroTime) = now then sp0 = 0 ∨ sp1 = 0 else 0 < sp0 ∧ 0 < sp1)
  cases e
  · have : ¬ zeroTime = now := fun h => g.tnz h.symm
    simp only [Bool.false_eq_true, if_false, if_neg this]
    exact g.ok rfl
  · simp only [if_true]
    exact g.err rfl

/-- an end-of-block update keeps every record valid PROVIDED a successful read is not recorded at the very time of an
earlier failed read (the same-block case: the inherited error time then equals the record's own time while both
prices are positive — `Validate` rejects that record, see `twap_import_rejects_own_export_witness`). -/
theorem update_valid {s s' : Store} {now height sp0 sp1 : Int} {e : Bool} (wf : WF s) (hv : VInv s)
    (g : GoodInput now height sp0 sp1 e) (hne : e = false → ∀ r, s.recent = some r → r.lastErr ≠ now)
    (h : update s now height sp0 sp1 e = .ok s') : VInv s' := by
  unfold Twap.update at h
  cases hr : s.recent with
  | none => rw [hr] at h; cases h
  | some r =>
    rw [hr] at h
    simp only at h
    cases hu : updateRecord r now height sp0 sp1 e with
    | err => rw [hu] at h; cases h
    | panic => rw [hu] at h; cases h
    | ok n =>
      rw [hu] at h
      simp only [Res.bind] at h
      injection h with h
      subst h
      obtain ⟨ht, hh, h0, h1, hle, herr, hstep⟩ := updateRecord_spec hu
      have hl : s.hist.getLast? = some r := by rw [← wf.recent, hr]
      have hrv := hv r (List.mem_of_getLast? hl)
      obtain ⟨_, _, _, ra0, ra1⟩ := (validRecord_iff r).mp hrv.1
      intro x hx
      rcases insertRec_mem hx with hx | hx
      · subst hx
        refine ⟨(validRecord_iff _).mpr ⟨by rw [hh]; exact g.hpos, by rw [ht]; exact g.tnz, ?_, ?_, ?_⟩,
          by rw [h0]; exact g.nn0, by rw [h1]; exact g.nn1⟩
        · rw [herr, ht, h0, h1]
          cases e
          · simp only [Bool.false_eq_true, if_false, if_neg (hne rfl r hr)]
            exact g.ok rfl
          · simp only [if_true]
            exact g.err rfl
        · rcases hstep with st | sk
          · rw [st.acc0]
            have := canonicalMs_mono (Int.le_of_lt st.lt)
            have := Int.mul_nonneg hrv.2.1 (show 0 ≤ canonicalMs x.time - canonicalMs r.time by omega)
            omega
          · rw [sk.acc0]; exact ra0
        · rcases hstep with st | sk
          · rw [st.acc1]
            have := canonicalMs_mono (Int.le_of_lt st.lt)
            have := Int.mul_nonneg hrv.2.2 (show 0 ≤ canonicalMs x.time - canonicalMs r.time by omega)
            omega
          · rw [sk.acc1]; exact ra1
      · exact hv x hx

theorem prune_valid {s : Store} {k : Int} (wf : WF s) (hv : VInv s) : VInv (prune s k) :=
  fun r hr => hv r ((pruneHist_spec (k := k) wf.chain).2.2 r hr)

end OsmoVerif.Twap
