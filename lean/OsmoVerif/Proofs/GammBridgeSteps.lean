/-
Bridge C02 ⟷ C04, part 4: every message of Model/GammKeeper whose pool-model results are those of Model/Gamm keeps
`PoolOK` and stays inside the pool-math contract (`clean`) — EXCEPT through a balancer `SwapOutAmtGivenIn` that answers
with the entire out-reserve (finding F13), and then exactly then.
-/
import OsmoVerif.Proofs.GammBridgeCalls

namespace OsmoVerif.Gamm
open OsmoVerif.Ledger OsmoVerif.Ledger.Bank OsmoVerif.Num

/-! ## small list / bool facts -/

theorem all_not_entire {l : List Call} (h : ∀ c ∈ l, c.entireReserve = false) :
    l.all (fun c => !c.entireReserve) = true := by
  rw [List.all_eq_true]; intro c hc; rw [h c hc]; rfl

/-- the record a `SwapOutAmtGivenIn` call ran on has distinct names and positive reserves. -/
def Call.recOK : Call → Prop
  | .swapIn p _ _ _ _ _ => PoolOK p
  | _ => True

theorem mem_poolCall {s : State} {id : Nat} {f : Pool → Call} {c : Call} (h : c ∈ poolCall s id f) : ∃ p, c = f p := by
  unfold poolCall at h
  split at h
  · rename_i p _; exact ⟨p, by simpa using h⟩
  · cases h

theorem aget_of_mem : ∀ (l : Coins), (names l).Nodup → ∀ d v, (d, v) ∈ l → aget l d = v
  | [], _, _, _, h => by cases h
  | (k, w) :: t, hnd, d, v, h => by
    simp only [aget]
    rcases List.mem_cons.mp h with h | h
    · injection h with h1 h2; subst h1; subst h2; simp
    · have hd : d ∈ keys t := by simp only [keys, List.mem_map]; exact ⟨(d, v), h, rfl⟩
      have hk : k ≠ d := by
        intro hk; subst hk
        simp only [names, List.map_cons, List.nodup_cons, List.mem_map, not_exists, not_and] at hnd
        exact hnd.1 (k, v) h rfl
      rw [if_neg hk]
      have hnd' : (names t).Nodup := by
        simp only [names, List.map_cons, List.nodup_cons] at hnd; exact hnd.2
      exact aget_of_mem t hnd' d v h

theorem denomsNodup_of_names : ∀ (cs : Coins), (names cs).Nodup → denomsNodup cs = true
  | [], _ => rfl
  | (d, a) :: cs, h => by
    simp only [names, List.map_cons, List.nodup_cons, List.mem_map, not_exists, not_and] at h
    simp only [denomsNodup, Bool.and_eq_true, Bool.not_eq_eq_eq_not, Bool.not_true]
    refine ⟨?_, denomsNodup_of_names cs h.2⟩
    rw [List.any_eq_false]
    intro c hc hcd
    simp only [decide_eq_true_eq] at hcd
    exact h.1 c hc (by rw [hcd])

theorem names_nameCoins (l : Coins) : (nameCoins l).map Prod.fst = names l := by
  simp [nameCoins, names, List.map_map]

/-- equal named coin lists over the keys of one pool with distinct names are equal. -/
theorem nameCoins_inj (K : Coins) (hK : (names K).Nodup) : ∀ (l1 l2 : Coins), nameCoins l1 = nameCoins l2 →
    (∀ c ∈ l1, c.1 ∈ keys K) → (∀ c ∈ l2, c.1 ∈ keys K) → l1 = l2
  | [], [], _, _, _ => rfl
  | [], _ :: _, h, _, _ => by simp [nameCoins] at h
  | _ :: _, [], h, _, _ => by simp [nameCoins] at h
  | (d1, a1) :: t1, (d2, a2) :: t2, h, h1, h2 => by
    simp only [nameCoins, List.map_cons, List.cons.injEq, Prod.mk.injEq] at h
    obtain ⟨⟨hd, ha⟩, ht⟩ := h
    have e := eq_of_dname_eq K hK d1 d2 (h1 _ (List.mem_cons_self ..)) (h2 _ (List.mem_cons_self ..)) hd
    have := nameCoins_inj K hK t1 t2 (by simpa [nameCoins] using ht)
      (fun c hc => h1 c (List.mem_cons_of_mem _ hc)) (fun c hc => h2 c (List.mem_cons_of_mem _ hc))
    rw [e, ha, this]

theorem recAddCoins_keys : ∀ (cs : Coins) {p p' : Pool}, recAddCoins p cs = some p' → ∀ c ∈ cs, c.1 ∈ keys p.reserves
  | [], _, _, _, c, hc => by cases hc
  | (d0, a) :: cs, p, p', h, c, hc => by
    simp only [recAddCoins] at h
    split at h
    · rename_i hhas
      rcases List.mem_cons.mp hc with hc | hc
      · rw [hc]; exact (p.has_iff d0).mp hhas
      · have := recAddCoins_keys cs h c hc
        rw [keys_setRes hhas] at this; exact this
    · cases h

theorem recJoin_keys {cs : Coins} {p p' : Pool} {n : Int} (h : recJoin p cs n = some p') : ∀ c ∈ cs, c.1 ∈ keys p.reserves := by
  unfold recJoin at h
  cases h1 : recAddCoins p cs with
  | none => rw [h1] at h; cases h
  | some q => exact recAddCoins_keys cs h1

/-! ## taker fee: a pure bank step -/

theorem chargeTakerFee_frame {s s' : State} {u : Nat} {din dout : Denom} {amt after fee : Int} {ex : Bool}
    (h : chargeTakerFee s u din amt dout ex = some (s', after, fee)) : s'.pools = s.pools ∧ s'.clean = s.clean := by
  unfold chargeTakerFee at h
  split at h
  · injection h with h; injection h with h1 _; subst h1; exact ⟨rfl, rfl⟩
  · split at h
    · cases h
    · split at h
      · cases h
      · split at h
        · injection h with h; injection h with h1 _; subst h1; exact ⟨rfl, rfl⟩
        · split at h
          · cases h
          · injection h with h; injection h with h1 _; subst h1; exact ⟨rfl, rfl⟩

/-! ## swaps -/

theorem gammSwapIn_pool {s s' : State} {u id : Nat} {din dout : Denom} {a minOut out : Int} {math : Option Int}
    (h : gammSwapIn s u id din a dout minOut math = some (s', out)) : ∃ p, getPool s.pools id = some p := by
  unfold gammSwapIn at h
  simp only [Option.bind_eq_bind, Option.bind_eq_some_iff] at h
  obtain ⟨p, hp, _⟩ := h
  exact ⟨p, hp⟩

/-- gamm `SwapExactAmountIn` on a pool with `PoolOK`, ANY pool-math result: the records stay `PoolOK`, and the history
leaves the contract exactly when a balancer pool answered with its entire out-reserve. -/
theorem gammSwapIn_bridge {s s' : State} {u id : Nat} {din dout : Denom} {a minOut out : Int} {math : Option Int} {p : Pool}
    (h : gammSwapIn s u id din a dout minOut math = some (s', out)) (hp : getPool s.pools id = some p) (hok : PoolsOK s) :
    PoolsOK s' ∧ s'.clean = (s.clean && !(Call.swapIn p id din a dout math).entireReserve) := by
  have hc := gammSwapIn_clean h hp
  obtain ⟨_, ha, _, _, hm, _⟩ := gammSwapIn_spec h
  unfold gammSwapIn at h
  simp only [Option.bind_eq_bind, Option.bind_eq_some_iff, require_eq_some, decide_eq_true_eq] at h
  obtain ⟨p0, hp0, _, hne, o, _, ⟨p', ok⟩, hrec, _, _, _, _, s1, happ, h⟩ := h
  injection h with h; injection h with h1 h2; subst h1; subst h2
  rw [hp] at hp0; injection hp0 with hp0; subst hp0
  unfold applySwap at happ
  simp only [Option.bind_eq_bind, Option.bind_eq_some_iff] at happ
  obtain ⟨b1, _, b2, _, happ⟩ := happ
  injection happ with happ; subst happ
  have hpk := hok id p hp
  refine ⟨hok.setPool (recSwap_PoolOK hrec hpk) rfl, ?_⟩
  rw [hc, hm]
  congr 1
  -- the in-reserve is positive and the amount in is positive
  have hhas : p.has din = true := by
    unfold recSwap at hrec
    split at hrec
    · cases hrec
    · rename_i hh
      simp only [Bool.or_eq_true, Bool.not_eq_eq_eq_not, Bool.not_true, not_or, Bool.not_eq_false] at hh
      exact hh.1
  have hpos := hpk.res_pos hhas
  simp only [Call.entireReserve]
  by_cases hk : p.kind = .balancer
  · by_cases ho : o = p.res dout
    · simp [hk, ho]
    · have : p.res dout - o ≠ 0 := by omega
      have h2 : p.res din + a ≠ 0 := by omega
      simp [hk, ho, this, h2]
  · simp [hk]

/-- gamm `SwapExactAmountOut` on a pool with `PoolOK`, ANY pool-math result: never leaves the contract (the keeper
itself refuses `tokenOut ≥ reserve`). -/
theorem gammSwapOut_bridge {s s' : State} {u id : Nat} {din dout : Denom} {b maxIn a : Int} {math : Option Int}
    (h : gammSwapOut s u id din maxIn dout b math = some (s', a)) (hok : PoolsOK s) :
    PoolsOK s' ∧ s'.clean = s.clean := by
  obtain ⟨_, ha, _, _, _, _⟩ := gammSwapOut_spec h
  unfold gammSwapOut at h
  simp only [Option.bind_eq_bind, Option.bind_eq_some_iff, require_eq_some, decide_eq_true_eq] at h
  obtain ⟨p, hp, _, hne, _, hlt, a', _, ⟨p', ok⟩, hrec, _, _, _, _, s1, happ, h⟩ := h
  injection h with h; injection h with h1 h2; subst h1; subst h2
  unfold applySwap at happ
  simp only [Option.bind_eq_bind, Option.bind_eq_some_iff] at happ
  obtain ⟨b1, _, b2, _, happ⟩ := happ
  injection happ with happ; subst happ
  have hpk := hok id p hp
  refine ⟨hok.setPool (recSwap_PoolOK hrec hpk) rfl, ?_⟩
  show (s.clean && ok) = s.clean
  have hhas : p.has din = true := by
    unfold recSwap at hrec
    split at hrec
    · cases hrec
    · rename_i hh
      simp only [Bool.or_eq_true, Bool.not_eq_eq_eq_not, Bool.not_true, not_or, Bool.not_eq_false] at hh
      exact hh.1
  have hpos := hpk.res_pos hhas
  have : ok = true := (recSwap_ok_iff hrec).mpr (fun _ => ⟨by omega, by omega⟩)
  rw [this, Bool.and_true]

theorem hopIn_bridge {s s' : State} {u : Nat} {din : Denom} {amt minOut out : Int} {h : HopIn}
    (hh : hopIn s u din amt h minOut = some (s', out)) (hok : PoolsOK s) :
    PoolsOK s' ∧ s'.clean = (s.clean && (hopInCalls s u din amt h).all (fun c => !c.entireReserve)) ∧
    ∀ c ∈ hopInCalls s u din amt h, c.recOK := by
  unfold hopIn at hh
  simp only [Option.bind_eq_bind, Option.bind_eq_some_iff] at hh
  obtain ⟨_, _, ⟨s1, after, fee⟩, hfee, hswap⟩ := hh
  obtain ⟨f1, f2⟩ := chargeTakerFee_frame hfee
  obtain ⟨p, hp⟩ := gammSwapIn_pool hswap
  obtain ⟨r1, r2⟩ := gammSwapIn_bridge hswap hp (hok.of_pools f1)
  refine ⟨r1, ?_, ?_⟩
  · unfold hopInCalls
    rw [hfee]
    simp only [poolCall_some hp, List.all_cons, List.all_nil, Bool.and_true]
    rw [r2, f2]
  · intro c hc
    unfold hopInCalls at hc
    rw [hfee] at hc
    simp only [poolCall_some hp, List.mem_singleton] at hc
    rw [hc]; exact (hok.of_pools f1) _ _ hp

theorem routeInLoop_bridge {u : Nat} {minOut : Int} : ∀ (hops : List HopIn) {s s' : State} {din : Denom} {amt out : Int},
    routeInLoop s u din amt minOut hops = some (s', out) → PoolsOK s →
    PoolsOK s' ∧ s'.clean = (s.clean && (routeInCalls s u din amt minOut hops).all (fun c => !c.entireReserve)) ∧
    ∀ c ∈ routeInCalls s u din amt minOut hops, c.recOK
  | [], s, s', din, amt, out, h, hok => by
    simp only [routeInLoop] at h; injection h with h; injection h with h1 _; subst h1
    exact ⟨hok, by simp [routeInCalls], fun c hc => by simp [routeInCalls] at hc⟩
  | [hp], s, s', din, amt, out, h, hok => by
    simp only [routeInLoop] at h
    simp only [routeInCalls]
    exact hopIn_bridge h hok
  | hp :: h2 :: hs, s, s', din, amt, out, h, hok => by
    simp only [routeInLoop, Option.bind_eq_bind, Option.bind_eq_some_iff] at h
    obtain ⟨⟨s1, o1⟩, h1, hrest⟩ := h
    obtain ⟨a1, a2, a3⟩ := hopIn_bridge h1 hok
    obtain ⟨b1, b2, b3⟩ := routeInLoop_bridge (h2 :: hs) hrest a1
    refine ⟨b1, ?_, ?_⟩
    · simp only [routeInCalls, h1, List.all_append]
      rw [b2, a2, Bool.and_assoc]
    · intro c hc
      simp only [routeInCalls, h1, List.mem_append] at hc
      rcases hc with hc | hc
      · exact a3 c hc
      · exact b3 c hc

theorem hopOut_bridge {s s' : State} {u : Nat} {h : HopOut} {maxIn after : Int} {tout : Denom × Int}
    (hh : hopOut s u h maxIn tout = some (s', after)) (hok : PoolsOK s) : PoolsOK s' ∧ s'.clean = s.clean := by
  unfold hopOut at hh
  simp only [Option.bind_eq_bind, Option.bind_eq_some_iff] at hh
  obtain ⟨⟨s1, a⟩, hswap, ⟨s2, af, fee⟩, hfee, hh⟩ := hh
  injection hh with hh; injection hh with h1 _; subst h1
  obtain ⟨r1, r2⟩ := gammSwapOut_bridge hswap hok
  obtain ⟨f1, f2⟩ := chargeTakerFee_frame hfee
  exact ⟨r1.of_pools f1, by rw [f2, r2]⟩

theorem routeOutLoop_bridge {u : Nat} {final : Denom × Int} : ∀ (hops : List HopOut) (es : List Int) {s s' : State} {a : Int},
    routeOutLoop s u final hops es = some (s', a) → PoolsOK s → PoolsOK s' ∧ s'.clean = s.clean
  | [], _, s, s', a, h, hok => by
    simp only [routeOutLoop] at h; injection h with h; injection h with h1 _; subst h1; exact ⟨hok, rfl⟩
  | _ :: _, [], s, s', a, h, _ => by simp only [routeOutLoop] at h; cases h
  | hp :: hs, e :: es, s, s', a, h, hok => by
    simp only [routeOutLoop, Option.bind_eq_bind, Option.bind_eq_some_iff] at h
    obtain ⟨⟨s1, a1⟩, h1, ⟨s2, a2⟩, h2, h⟩ := h
    injection h with h; injection h with h3 _; subst h3
    obtain ⟨r1, r2⟩ := hopOut_bridge h1 hok
    obtain ⟨q1, q2⟩ := routeOutLoop_bridge hs es h2 r1
    exact ⟨q1, by rw [q2, r2]⟩

theorem estCalls_not_entire (s : State) (final : Denom × Int) : ∀ (hops : List HopOut) (c : Call),
    c ∈ estCalls s final hops → c.entireReserve = false
  | [], c, h => by cases h
  | hp :: hs, c, h => by
    simp only [estCalls, List.mem_append] at h
    rcases h with h | h
    · exact estCalls_not_entire s final hs c h
    · split at h
      · obtain ⟨p, hc⟩ := mem_poolCall h
        rw [hc]; rfl
      · cases h

theorem routeOutCalls_not_entire {u : Nat} {final : Denom × Int} : ∀ (hops : List HopOut) (es : List Int) (s : State) (c : Call),
    c ∈ routeOutCalls s u final hops es → c.entireReserve = false
  | [], _, _, c, h => by simp [routeOutCalls] at h
  | _ :: _, [], _, c, h => by simp [routeOutCalls] at h
  | hp :: hs, e :: es, s, c, h => by
    simp only [routeOutCalls, List.mem_append] at h
    rcases h with h | h
    · obtain ⟨p, hc⟩ := mem_poolCall h
      rw [hc]; rfl
    · split at h
      · exact routeOutCalls_not_entire hs es _ c h
      · cases h

theorem estCalls_recOK (s : State) (final : Denom × Int) : ∀ (hops : List HopOut) (c : Call),
    c ∈ estCalls s final hops → c.recOK
  | [], c, h => by cases h
  | hp :: hs, c, h => by
    simp only [estCalls, List.mem_append] at h
    rcases h with h | h
    · exact estCalls_recOK s final hs c h
    · split at h
      · obtain ⟨p, hc⟩ := mem_poolCall h
        rw [hc]; trivial
      · cases h

theorem routeOutCalls_recOK {u : Nat} {final : Denom × Int} : ∀ (hops : List HopOut) (es : List Int) (s : State) (c : Call),
    c ∈ routeOutCalls s u final hops es → c.recOK
  | [], _, _, c, h => by simp [routeOutCalls] at h
  | _ :: _, [], _, c, h => by simp [routeOutCalls] at h
  | hp :: hs, e :: es, s, c, h => by
    simp only [routeOutCalls, List.mem_append] at h
    rcases h with h | h
    · obtain ⟨p, hc⟩ := mem_poolCall h
      rw [hc]; trivial
    · split at h
      · exact routeOutCalls_recOK hs es _ c h
      · cases h

/-! ## what the Model/Gamm results guarantee -/

theorem toOption_map_fst_some {α β : Type} {r : GammMath.R (α × β)} {a : α}
    (h : r.toOption.map (·.1) = some a) : ∃ b, r = .ok (a, b) := by
  cases r with
  | error e => simp [Except.toOption] at h
  | ok v =>
    simp only [Except.toOption, Option.map_some, Option.some.injEq] at h
    exact ⟨v.2, by rw [← h]⟩

/-- the exit coins of Model/Gamm on a record: denom names a sub-list of the record's, amounts below the reserves. -/
theorem gmExit_contract (c : PoolCfg) {p : Pool} (hp : PoolOK p) {sh : Int} {ncs : GammMath.Coins}
    (h : gmExit c p sh = some ncs) :
    (ncs.map Prod.fst).Sublist (names p.reserves) ∧
    ∀ dn x, (dn, x) ∈ ncs → ∃ a, (dn, a) ∈ nameCoins p.reserves ∧ 0 < x ∧ x < a := by
  unfold gmExit at h
  split at h
  · obtain ⟨p', h⟩ := toOption_map_fst_some h
    have h1 : GammMath.calcExitPool (nameCoins p.reserves) p.totalShares sh 0 = .ok ncs := by
      unfold GammMath.balExit at h
      cases hc : GammMath.balCalcExit (toBal c p) sh 0 with
      | error e => simp [hc, bind, Except.bind] at h
      | ok cs =>
        simp only [hc, bind, Except.bind] at h
        cases ha : GammMath.balExitApply (toBal c p) cs sh with
        | error e => simp [ha] at h
        | ok q =>
          simp only [ha, pure, Except.pure] at h
          injection h with h; injection h with h2 _; subst h2
          unfold GammMath.balCalcExit at hc
          rw [balLiquidity_toBal c hp] at hc
          exact hc
    have := GammMath.calcExitPool_contract h1
    rw [names_nameCoins] at this
    exact this
  · obtain ⟨p', h⟩ := toOption_map_fst_some h
    have h1 : GammMath.calcExitPool (nameCoins p.reserves) p.totalShares sh 0 = .ok ncs := by
      unfold GammMath.ssExit at h
      cases hc : GammMath.ssCalcExit (toSS c p) sh 0 with
      | error e => simp [hc, bind, Except.bind] at h
      | ok cs =>
        simp only [hc, bind, Except.bind] at h
        have hcs : cs = ncs := by
          split at h
          · cases h
          · split at h
            · cases h
            · split at h
              · cases h
              · split at h
                · cases h
                · simp only [pure, Except.pure, Except.ok.injEq, Prod.mk.injEq] at h
                  exact h.1
        subst hcs
        unfold GammMath.ssCalcExit at hc
        rw [ssLiquidity_toSS] at hc
        exact hc
    have := GammMath.calcExitPool_contract h1
    rw [names_nameCoins] at this
    exact this

/-- the keeper's `neededLp`: same denoms in the same order, every amount the positive ceiling of `amount·ratio`. -/
theorem neededLp_spec (ratio : Int) (hr : 0 ≤ ratio) : ∀ (rs needed : Coins), neededLp ratio rs = some needed →
    (∀ c ∈ rs, 0 ≤ c.2) →
    List.Forall₂ (fun (r c : Denom × Int) => c.1 = r.1 ∧ 0 < c.2 ∧ ratio * r.2 ≤ c.2 * P18 ∧ (c.2 - 1) * P18 < ratio * r.2) rs needed
  | [], needed, h, _ => by simp only [neededLp] at h; injection h with h; subst h; exact .nil
  | (d, amt) :: cs, needed, h, hnn => by
    simp only [neededLp, Option.bind_eq_bind, Option.bind_eq_some_iff, require_eq_some, decide_eq_true_eq] at h
    obtain ⟨m, hm, c, hc, n, hn, _, hpos, rest, hrest, h⟩ := h
    injection h with h; subst h
    refine .cons ⟨rfl, hpos, ?_⟩ (neededLp_spec ratio hr cs rest hrest (fun c hc => hnn c (List.mem_cons_of_mem _ hc)))
    have hamt := hnn (d, amt) (List.mem_cons_self ..)
    simp only at hamt
    -- m = amt·ratio exactly
    have hmv : m = amt * ratio := by
      unfold Dec.mul at hm
      rw [GammMath.chkDec_some hm]
      have : amt * P18 * ratio = (amt * ratio) * P18 := by
        rw [Int.mul_assoc, Int.mul_comm P18 ratio, ← Int.mul_assoc]
      rw [this]; exact GammMath.chopRound_mul_exact _
    have hm0 : 0 ≤ m := by rw [hmv]; exact Int.mul_nonneg hamt hr
    obtain ⟨k, hk, hk1, hk2, _⟩ := GammMath.Dec_ceil_spec hc hm0
    have hnk : n = k := by
      unfold Dec.roundInt at hn
      rw [GammMath.chkInt_some hn, hk]; exact GammMath.chopRound_mul_exact _
    subst hnk
    rw [hmv, Int.mul_comm amt ratio] at hk1 hk2
    exact ⟨hk1, hk2⟩

theorem getMaximalNoSwapLPAmount_spec {p : Pool} {shareOut : Int} {needed : Coins} (hp : PoolOK p)
    (h : getMaximalNoSwapLPAmount p shareOut = some needed) :
    ∃ ratio, 0 < ratio ∧
      List.Forall₂ (fun (r c : Denom × Int) => c.1 = r.1 ∧ 0 < c.2 ∧ ratio * r.2 ≤ c.2 * P18 ∧ (c.2 - 1) * P18 < ratio * r.2)
        p.reserves needed := by
  unfold getMaximalNoSwapLPAmount at h
  simp only [Option.bind_eq_bind, Option.bind_eq_some_iff, require_eq_some, decide_eq_true_eq] at h
  obtain ⟨ratio, _, _, hpos, h⟩ := h
  exact ⟨ratio, hpos, neededLp_spec ratio (by omega) _ _ h (fun c hc => by have := hp.pos c hc; omega)⟩

theorem forall₂_keys {ratio : Int} : ∀ {rs needed : Coins},
    List.Forall₂ (fun (r c : Denom × Int) => c.1 = r.1 ∧ 0 < c.2 ∧ ratio * r.2 ≤ c.2 * P18 ∧ (c.2 - 1) * P18 < ratio * r.2) rs needed →
    keys needed = keys rs ∧ ∀ c ∈ needed, 0 < c.2 ∧ ∃ r ∈ rs, r.1 = c.1 ∧ ratio * r.2 ≤ c.2 * P18 ∧ (c.2 - 1) * P18 < ratio * r.2
  | [], [], _ => ⟨rfl, fun c hc => by cases hc⟩
  | r :: rs, c :: cs, h => by
    cases h with
    | cons h1 h2 =>
      obtain ⟨k1, k2⟩ := forall₂_keys h2
      refine ⟨by simp only [keys, List.map_cons] at k1 ⊢; rw [k1, h1.1], fun c' hc' => ?_⟩
      rcases List.mem_cons.mp hc' with hc' | hc'
      · subst hc'; exact ⟨h1.2.1, r, List.mem_cons_self .., h1.1.symm, h1.2.2⟩
      · obtain ⟨a, r', hr', b⟩ := k2 c' hc'
        exact ⟨a, r', List.mem_cons_of_mem _ hr', b⟩

/-- the all-asset join of Model/Gamm on the coins the keeper computed joins exactly those coins. -/
theorem gmJoinNoSwap_joined (c : PoolCfg) {p : Pool} (hp : PoolOK p) {shareOut sh : Int} {needed : Coins} {js : GammMath.Coins}
    (hn : getMaximalNoSwapLPAmount p shareOut = some needed) (h : gmJoinNoSwap c p needed = some (sh, js)) :
    js = nameCoins needed := by
  obtain ⟨ratio, hr, hf⟩ := getMaximalNoSwapLPAmount_spec hp hn
  obtain ⟨hk, hall⟩ := forall₂_keys hf
  -- the hypothesis of the pool-math lemma, over the named record as liquidity
  have hneed : ∀ x ∈ nameCoins needed, 0 < GammMath.amountOf (nameCoins p.reserves) x.1 ∧ 0 < x.2 ∧
      ratio * GammMath.amountOf (nameCoins p.reserves) x.1 ≤ x.2 * P18 ∧
      (x.2 - 1) * P18 < ratio * GammMath.amountOf (nameCoins p.reserves) x.1 := by
    intro x hx
    simp only [nameCoins, List.mem_map] at hx
    obtain ⟨c0, hc0, hx⟩ := hx
    subst hx
    obtain ⟨hpos, r, hr', hrd, hb⟩ := hall c0 hc0
    have hmem : c0.1 ∈ keys p.reserves := by
      rw [← hrd]; simp only [keys, List.mem_map]; exact ⟨r, hr', rfl⟩
    have hag : aget p.reserves c0.1 = r.2 := aget_of_mem p.reserves hp.nodup c0.1 r.2 (by rw [← hrd]; exact hr')
    have := amountOf_nameCoins p.reserves hp.nodup c0.1 hmem
    simp only
    rw [this, hag]
    exact ⟨hp.pos r hr', hpos, hb⟩
  unfold gmJoinNoSwap at h
  split at h
  · cases hj : GammMath.balCalcJoinNoSwap (toBal c p) (nameCoins needed) with
    | error e => simp [hj] at h
    | ok r =>
      obtain ⟨s0, j0⟩ := r
      simp only [hj] at h
      split at h
      · injection h with h; injection h with _ h2; subst h2
        exact GammMath.balCalcJoinNoSwap_joins_needed hj (Int.le_of_lt hr) (by rw [balLiquidity_toBal c hp]; exact hneed)
      · cases h
  · cases hj : GammMath.ssCalcJoinNoSwap (toSS c p) (nameCoins needed) with
    | error e => simp [hj] at h
    | ok r =>
      obtain ⟨s0, j0⟩ := r
      simp only [hj] at h
      split at h
      · injection h with h; injection h with _ h2; subst h2
        exact GammMath.ssCalcJoinNoSwap_joins_needed hj (Int.le_of_lt hr) (by rw [ssLiquidity_toSS]; exact hneed)
      · cases h

/-- balancer `ExitSwapExactAmountOut` of Model/Gamm on a record: the amount out is strictly below the reserve. -/
theorem gmExitSwapOut_lt (cfg : Cfg) (hcfg : CfgOK cfg) (id : Nat) {p : Pool} (hp : PoolOK p) {dout : Denom} {amt mx sh : Int}
    (hd : dout ∈ keys p.reserves) (h : gmExitSwapOut (cfg id) p dout amt mx = some sh) : amt < p.res dout := by
  unfold gmExitSwapOut at h
  split at h
  · obtain ⟨p', h⟩ := toOption_map_fst_some h
    have hf := findAsset_balAssets (cfg id) p.reserves hp.nodup dout hd
    have := GammMath.balExitSwapOut_lt_reserve (a := ⟨dname dout, aget p.reserves dout, (cfg id).weight dout⟩) h hf
      (aget_pos_of_mem p.reserves dout hp.pos hd) (hcfg.weight_pos id dout)
      (weight_le_total (cfg id) (hcfg.weight_pos id) p.reserves dout hd) (hcfg.fee id)
    exact this
  · cases h

end OsmoVerif.Gamm
