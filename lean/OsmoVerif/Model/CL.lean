/-
Model of the concentrated-liquidity swap path:
  x/concentrated-liquidity/math/math.go           (amount deltas, next sqrt price, liquidity from amounts)
  x/concentrated-liquidity/swapstrategy/*.go       (within-bucket step, both directions, both kinds, spread charge)
  x/concentrated-liquidity/swaps.go                (computeOutAmtGivenIn / computeInAmtGivenOut loops, tick crossing)
Raw `Int`s: sqrt prices are 36-decimal BigDec, liquidity/amounts/fees 18-decimal Dec, token amounts sdk Ints.
`none` = panic or error.  The osmomath method used at every rounding-critical position is NOT typed here:
it is read from the regenerated operator lists `Gen.CL.ops_*` (translator, tie T1) and interpreted by
`applyOp`, so that changing e.g. `QuoRoundUpNextIntMut` to `QuoRoundUpMut` in the Go source changes these
definitions and the rounding theorems in Props/C03 are re-checked against what the code says now.
Core only.
-/
import OsmoVerif.Model.Tick

namespace OsmoVerif.CL
open OsmoVerif.Num OsmoVerif.MathM OsmoVerif.Tick OsmoVerif.Gen

/-- interpretation of an osmomath binary method name on raw values (receiver, argument). -/
def applyOp (name : String) (x y : Int) : Option Int :=
  match name with
  | "Add" | "AddMut" => BigDec.add x y
  | "Sub" | "SubMut" => BigDec.sub x y
  | "Mul" | "MulMut" => BigDec.mul x y
  | "MulDec" | "MulDecMut" => BigDec.mulDec x y
  | "MulTruncate" => BigDec.mulTruncate x y
  | "MulTruncateDec" => BigDec.mulTruncateDec x y
  | "MulRoundUp" => BigDec.mulRoundUp x y
  | "MulRoundUpDec" => BigDec.mulRoundUpDec x y
  | "Quo" | "QuoMut" => BigDec.quo x y
  | "QuoTruncate" | "QuoTruncateMut" => BigDec.quoTruncate x y
  | "QuoTruncateDec" | "QuoTruncateDecMut" => BigDec.quoTruncateDec x y
  | "QuoRoundUp" => BigDec.quoRoundUp x y
  | "QuoRoundUpMut" => BigDec.quoRoundUpMut x y
  | "QuoByDecRoundUp" => BigDec.quoByDecRoundUp x y
  | "QuoRoundUpNextIntMut" => BigDec.quoRoundUpNextIntMut x y
  | _ => none

/-- unary method names. -/
def applyOp1 (name : String) (x : Int) : Option Int :=
  match name with
  | "Ceil" | "CeilMut" => BigDec.ceil x
  | "Abs" | "AbsMut" => some (x.natAbs : Int)
  | "Dec" => BigDec.dec x
  | "DecRoundUp" => BigDec.decRoundUp x
  | _ => none

def opAt (l : List String) (i : Nat) : String := l.getD i "?"

/-! ### math.go -/

/-- `CalcAmount0Delta(liq, sqrtPriceA, sqrtPriceB, roundUp)`. -/
def calcAmount0Delta (liq a b : Int) (roundUp : Bool) : Option Int :=
  let (a, b) := if a > b then (b, a) else (a, b)
  let ops := CL.ops_CalcAmount0Delta
  do
    let diff ← applyOp (opAt ops 1) b a
    if roundUp then
      (applyOp (opAt ops 2) diff liq).bind fun x => (applyOp (opAt ops 3) x b).bind fun y => applyOp (opAt ops 4) y a
    else
      (applyOp (opAt ops 5) diff liq).bind fun x => (applyOp (opAt ops 6) x b).bind fun y => applyOp (opAt ops 7) y a

/-- `CalcAmount1Delta`. -/
def calcAmount1Delta (liq a b : Int) (roundUp : Bool) : Option Int :=
  let ops := CL.ops_CalcAmount1Delta
  do
    let d0 ← applyOp (opAt ops 0) b a
    let diff ← applyOp1 (opAt ops 1) d0
    if roundUp then (applyOp (opAt ops 2) diff liq).bind (applyOp1 (opAt ops 3))
    else applyOp (opAt ops 4) diff liq

/-- `GetNextSqrtPriceFromAmount0InRoundingUp(sqrtPriceCurrent, liquidity(BigDec), amount0In(BigDec))`. -/
def nextSqrtPriceAmount0In (sp liq amt : Int) : Option Int :=
  let ops := CL.ops_GetNextSqrtPriceFromAmount0InRoundingUp
  if amt = 0 then some sp else do
    let product ← applyOp (opAt ops 1) amt sp
    let denom ← applyOp (opAt ops 2) product liq
    let num ← applyOp (opAt ops 3) liq sp
    applyOp (opAt ops 4) num denom

/-- `GetNextSqrtPriceFromAmount0OutRoundingUp(sqrtPriceCurrent, liquidity(BigDec), amount0Out(Dec))`. -/
def nextSqrtPriceAmount0Out (sp liq amtDec : Int) : Option Int :=
  let ops := CL.ops_GetNextSqrtPriceFromAmount0OutRoundingUp
  if amtDec = 0 then some sp else do
    let product ← applyOp (opAt ops 1) sp amtDec
    let denom ← applyOp (opAt ops 2) liq product
    let num ← applyOp (opAt ops 3) liq sp
    applyOp (opAt ops 4) num denom

/-- `GetNextSqrtPriceFromAmount1InRoundingDown(sqrtPriceCurrent, liquidity(Dec), amount1In(BigDec))`. -/
def nextSqrtPriceAmount1In (sp liqDec amt : Int) : Option Int :=
  let ops := CL.ops_GetNextSqrtPriceFromAmount1InRoundingDown
  (applyOp (opAt ops 0) amt liqDec).bind fun q => applyOp (opAt ops 1) q sp

/-- `GetNextSqrtPriceFromAmount1OutRoundingDown`. -/
def nextSqrtPriceAmount1Out (sp liqDec amt : Int) : Option Int :=
  let ops := CL.ops_GetNextSqrtPriceFromAmount1OutRoundingDown
  (applyOp (opAt ops 0) amt liqDec).bind fun q => applyOp (opAt ops 1) sp q

/-- `Liquidity0(amount Int, sqrtPriceA, sqrtPriceB)`. -/
def liquidity0 (amount a b : Int) : Option Int :=
  let (a, b) := if a > b then (b, a) else (a, b)
  do
    let product ← BigDec.mul a b
    let diff ← BigDec.sub b a
    if diff = 0 then none else
    let x ← BigDec.mul (amount * P36) product
    let y ← BigDec.quo x diff
    BigDec.dec y

/-- `Liquidity1`. -/
def liquidity1 (amount a b : Int) : Option Int :=
  let (a, b) := if a > b then (b, a) else (a, b)
  do
    let diff ← BigDec.sub b a
    if diff = 0 then none else
    let y ← BigDec.quo (amount * P36) diff
    BigDec.dec y

/-- `GetLiquidityFromAmounts`. -/
def liquidityFromAmounts (sp a b amount0 amount1 : Int) : Option Int :=
  let (a, b) := if a > b then (b, a) else (a, b)
  if sp ≤ a then liquidity0 amount0 a b
  else if sp < b then do
    let l0 ← liquidity0 amount0 sp b
    let l1 ← liquidity1 amount1 sp a
    some (min l0 l1)
  else liquidity1 amount1 b a

/-! ### swapstrategy -/

/-- `getSpfOverOneMinusSpf`: `spreadFactor.QuoRoundUp(1 − spreadFactor)` on LegacyDec. -/
def spfOverOneMinusSpf (spf : Int) : Option Int := (Dec.sub P18 spf).bind (Dec.quoRoundUp spf)

/-- `computeSpreadRewardChargeFromAmountIn`: `amountIn.MulRoundUp(spf/(1−spf))` (LegacyDec). -/
def spreadChargeFromAmountIn (amountIn spf : Int) : Option Int := (spfOverOneMinusSpf spf).bind (Dec.mulRoundUp amountIn)

/-- `computeSpreadRewardChargePerSwapStepOutGivenIn`. -/
def spreadChargeOutGivenIn (reached : Bool) (amountIn remaining spf : Int) : Option Int :=
  if spf = 0 then some 0
  else if spf < 0 then none
  else do
    let c ← if reached then spreadChargeFromAmountIn amountIn spf else Dec.sub remaining amountIn
    if c < 0 then none else some c

structure StepResult where
  sqrtPriceNext : Int
  amountSpecified : Int   -- consumed of the specified side (Dec): in for out-given-in, out for in-given-out
  amountOther : Int       -- computed other side (Dec)
  spreadCharge : Int      -- Dec
  deriving Repr, DecidableEq

/-- `ComputeSwapWithinBucketOutGivenIn`, both strategies. -/
def stepOutGivenIn (zfo : Bool) (spf : Int) (sp target liq remaining : Int) : Option StepResult := do
  let amtIn0 ← if zfo then calcAmount0Delta liq target sp true else calcAmount1Delta liq target sp true
  let oneMinus ← Dec.sub P18 spf
  let remLess := remaining * oneMinus        -- NewBigDecFromDecMulDec: exact product at 36 decimals
  let spNext ← if remLess ≥ amtIn0 then some target
    else if zfo then (BigDec.fromDec liq).bind fun l => nextSqrtPriceAmount0In sp l remLess
    else nextSqrtPriceAmount1In sp liq remLess
  let reached : Bool := target = spNext
  let amtIn ← if reached then some amtIn0
    else if zfo then calcAmount0Delta liq spNext sp true else calcAmount1Delta liq spNext sp true
  let amtOut ← if zfo then calcAmount1Delta liq spNext sp false else calcAmount0Delta liq spNext sp false
  let amtInFinal ← BigDec.decRoundUp amtIn
  let charge ← spreadChargeOutGivenIn reached amtInFinal remaining spf
  let out ← BigDec.dec amtOut
  some ⟨spNext, amtInFinal, out, charge⟩

/-- `ComputeSwapWithinBucketInGivenOut`, both strategies. -/
def stepInGivenOut (zfo : Bool) (spf : Int) (sp target liq remainingOut : Int) : Option StepResult := do
  let remBig ← BigDec.fromDec remainingOut
  let out0 ← if zfo then calcAmount1Delta liq target sp false else calcAmount0Delta liq target sp false
  let spNext ← if remBig ≥ out0 then some target
    else if zfo then nextSqrtPriceAmount1Out sp liq remBig
    else (BigDec.fromDec liq).bind fun l => nextSqrtPriceAmount0Out sp l remainingOut
  let reached : Bool := target = spNext
  let out ← if reached then some out0
    else if zfo then calcAmount1Delta liq spNext sp false else calcAmount0Delta liq spNext sp false
  let amtIn ← if zfo then calcAmount0Delta liq spNext sp true else calcAmount1Delta liq spNext sp true
  let amtInFinal ← BigDec.decRoundUp amtIn
  let charge ← spreadChargeFromAmountIn amtInFinal spf
  let outCapped := if out > remBig then remBig else out
  let outDec ← BigDec.dec outCapped
  some ⟨spNext, outDec, amtInFinal, charge⟩

/-- `GetSqrtPriceLimit`. -/
def sqrtPriceLimit (priceLimit : Int) (zfo : Bool) : Option Int :=
  if priceLimit = 0 then some (if zfo then CL.MinSqrtPriceBigDec else CL.MaxSqrtPriceBigDec)
  else if priceLimit < CL.MinSpotPriceV2 ∨ priceLimit > CL.MaxSpotPriceBigDec then none
  else if priceLimit ≥ CL.MinSpotPriceBigDec then
    (BigDec.dec priceLimit).bind fun d => (monotonicSqrt d).bind BigDec.fromDec
  else monotonicSqrtBigDec priceLimit

/-! ### swaps.go: the loops -/

/-- the pool fields a swap reads and writes. -/
structure PoolSt where
  sqrtPrice : Int   -- BigDec
  tick : Int
  liquidity : Int   -- Dec
  deriving Repr, DecidableEq

/-- initialised ticks with their net liquidity, sorted by tick ascending. -/
abbrev Ticks := List (Int × Int)

/-- `InitializeNextTickIterator` + successive `Next()`: the initialised ticks ahead of the current
tick in swap direction (zero-for-one: ticks ≤ current, descending; one-for-zero: ticks > current, ascending). -/
def ticksAhead (zfo : Bool) (ticks : Ticks) (cur : Int) : Ticks :=
  if zfo then (ticks.filter fun t => t.1 ≤ cur).reverse else ticks.filter fun t => t.1 > cur

structure SwapSt where
  remaining : Int      -- amountSpecifiedRemaining (Dec)
  calculated : Int     -- amountCalculated (Dec)
  pool : PoolSt
  spreadTotal : Int    -- globalSpreadRewardGrowth (total spread charge, Dec)
  noProgress : Nat
  deriving Repr

structure SwapOut where
  amountIn : Int       -- sdk Int
  amountOut : Int      -- sdk Int
  spreadRewards : Int  -- Dec total
  pool : PoolSt
  steps : Nat
  crossed : Nat
  deriving Repr, DecidableEq

/-- one iteration of the `computeOutAmtGivenIn` / `computeInAmtGivenOut` loop body.
Returns the new swap state and the remaining ticks ahead. -/
def loopBody (outGivenIn zfo : Bool) (spf limit : Int) (st : SwapSt) (ahead : Ticks) :
    Option (SwapSt × Ticks × Bool) :=
  match ahead with
  | [] => none                                  -- RanOutOfTicksForPoolError
  | (nextTick, net) :: rest => do
    let nextSp ← tickToSqrtPrice nextTick
    let target := if zfo then (if nextSp < limit then limit else nextSp) else (if nextSp > limit then limit else nextSp)
    let r ← if outGivenIn then stepOutGivenIn zfo spf st.pool.sqrtPrice target st.pool.liquidity st.remaining
            else stepInGivenOut zfo spf st.pool.sqrtPrice target st.pool.liquidity st.remaining
    let (amtIn, amtOut) := if outGivenIn then (r.amountSpecified, r.amountOther) else (r.amountOther, r.amountSpecified)
    -- validateSwapProgressAndAmountConsumption
    if r.sqrtPriceNext = st.pool.sqrtPrice ∧ ¬ (amtIn = 0 ∧ amtOut = 0) then none else
    let spread ← Dec.add st.spreadTotal r.spreadCharge
    let (remaining, calculated) ←
      if outGivenIn then do
        let c ← Dec.add amtIn r.spreadCharge
        let rem ← Dec.sub st.remaining c
        let cal ← Dec.add st.calculated amtOut
        pure (rem, cal)
      else do
        let rem ← Dec.sub st.remaining amtOut
        let c ← Dec.add amtIn r.spreadCharge
        let cal ← Dec.add st.calculated c
        pure (rem, cal)
    let (pool, ahead', crossedNow) ←
      if nextSp = r.sqrtPriceNext then do
        -- swapCrossTickLogic: liquidity += ±net, tick := next (one-for-zero) / next−1 (zero-for-one)
        let liq ← Dec.add st.pool.liquidity (if zfo then -net else net)
        pure (({ sqrtPrice := r.sqrtPriceNext, tick := if zfo then nextTick - 1 else nextTick, liquidity := liq } : PoolSt), rest, true)
      else if (if zfo then nextSp > r.sqrtPriceNext else nextSp < r.sqrtPriceNext) then none   -- ComputedSqrtPriceInequalityError
      else if st.pool.sqrtPrice ≠ r.sqrtPriceNext then do
        let t ← calculateSqrtPriceToTick r.sqrtPriceNext
        pure (({ st.pool with sqrtPrice := r.sqrtPriceNext, tick := t } : PoolSt), ahead, false)
      else pure (({ st.pool with sqrtPrice := r.sqrtPriceNext } : PoolSt), ahead, false)
    let specifiedZero : Bool := if outGivenIn then amtIn = 0 else amtOut = 0
    if specifiedZero ∧ st.noProgress ≥ CL.swapNoProgressLimit then none else
    some ({ remaining := remaining, calculated := calculated, pool := pool, spreadTotal := spread,
            noProgress := if specifiedZero then st.noProgress + 1 else st.noProgress }, ahead', crossedNow)

def swapLoop (outGivenIn zfo : Bool) (spf limit : Int) :
    Nat → SwapSt → Ticks → Nat → Nat → Option (SwapSt × Nat × Nat)
  | 0, _, _, _, _ => none
  | fuel + 1, st, ahead, steps, crossed =>
    if st.remaining > 1 ∧ st.pool.sqrtPrice ≠ limit then
      match loopBody outGivenIn zfo spf limit st ahead with
      | none => none
      | some (st', ahead', c) => swapLoop outGivenIn zfo spf limit fuel st' ahead' (steps + 1) (if c then crossed + 1 else crossed)
    else some (st, steps, crossed)

/-- `computeOutAmtGivenIn` / `computeInAmtGivenOut` (amounts and pool updates; accumulators are not
part of this function's results). `priceLimit = 0` is the unbounded limit used by the estimate queries;
executed swaps pass `GetPriceLimit`. -/
def computeSwap (outGivenIn zfo : Bool) (spf priceLimit : Int) (pool : PoolSt) (ticks : Ticks) (specified : Int) :
    Option SwapOut := do
  let limit ← sqrtPriceLimit priceLimit zfo
  -- ValidateSqrtPrice
  if zfo then (if limit > pool.sqrtPrice ∨ limit < CL.MinSqrtPriceBigDec then none else some ())
  else (if limit < pool.sqrtPrice ∨ limit > CL.MaxSqrtPriceBigDec then none else some ())
  let ahead := ticksAhead zfo ticks pool.tick
  let fuel := 2 * ticks.length + CL.swapNoProgressLimit + 8
  let (st, steps, crossed) ← swapLoop outGivenIn zfo spf limit fuel
    { remaining := specified * P18, calculated := 0, pool := pool, spreadTotal := 0, noProgress := 0 } ahead 0 0
  if st.remaining < 0 then none else
  if outGivenIn then do
    let used ← Dec.sub (specified * P18) st.remaining
    let ain ← (Dec.ceil used).bind Dec.truncateInt
    let aout ← Dec.truncateInt st.calculated
    some ⟨ain, aout, st.spreadTotal, st.pool, steps, crossed⟩
  else do
    let ain ← (Dec.ceil st.calculated).bind Dec.truncateInt
    let got ← Dec.sub (specified * P18) st.remaining
    let aout ← Dec.truncateInt got
    some ⟨ain, aout, st.spreadTotal, st.pool, steps, crossed⟩

/-- `GetPriceLimit(zeroForOne)`: what executed swaps pass. -/
def execPriceLimit (zfo : Bool) : Int := if zfo then CL.MinSpotPriceBigDec else CL.MaxSpotPriceBigDec

/-- executed swap (`swapOutAmtGivenIn` / `swapInAmtGivenOut` up to the bank transfers): the amounts, the
spread-fee transfer `⌈spreadRewards⌉` and the pool update; a non-positive computed amount is an error. -/
def execSwap (outGivenIn zfo : Bool) (spf : Int) (pool : PoolSt) (ticks : Ticks) (specified : Int) :
    Option (SwapOut × Int) := do
  let r ← computeSwap outGivenIn zfo spf (execPriceLimit zfo) pool ticks specified
  if outGivenIn ∧ r.amountOut ≤ 0 then none
  else if ¬ outGivenIn ∧ r.amountIn ≤ 0 then none
  else do
    let fee ← (Dec.ceil r.spreadRewards).bind Dec.truncateInt
    -- ApplySwap validation
    if r.pool.liquidity < 0 ∨ r.pool.sqrtPrice < 0 ∨ r.pool.tick < CL.MinCurrentTick ∨ r.pool.tick > CL.MaxTick then none
    else some (r, fee)

/-! ### executed swaps also update the spread-reward accumulator, which can fail -/

/-- `updateSpreadRewardGrowthGlobal` (executed swaps only): the step's charge is scaled up (`MulTruncate`, skipped
for factor one; an overflow is "failed to scale up spread reward charge") and, when there is active liquidity,
divided by it.  The growth itself belongs to the accumulator state this model does not carry; only its failure
matters here: it fails the swap. -/
def scaleCheck (scale charge liq : Int) : Option Unit :=
  (if scale = P18 then some charge else Dec.mulTruncate charge scale).bind fun scaled =>
    if liq = 0 then some () else (Dec.quoTruncate scaled liq).map fun _ => ()

/-- the spread charge of the step `loopBody` is about to take (same computation). -/
def stepCharge (outGivenIn zfo : Bool) (spf limit : Int) (st : SwapSt) (ahead : Ticks) : Option Int :=
  match ahead with
  | [] => none
  | (nextTick, _) :: _ => do
    let nextSp ← tickToSqrtPrice nextTick
    let target := if zfo then (if nextSp < limit then limit else nextSp) else (if nextSp > limit then limit else nextSp)
    let r ← if outGivenIn then stepOutGivenIn zfo spf st.pool.sqrtPrice target st.pool.liquidity st.remaining
            else stepInGivenOut zfo spf st.pool.sqrtPrice target st.pool.liquidity st.remaining
    some r.spreadCharge

/-- loop body of an EXECUTED swap: the amounts-only body, provided the accumulator update of this step succeeds. -/
def loopBodyS (scale : Int) (outGivenIn zfo : Bool) (spf limit : Int) (st : SwapSt) (ahead : Ticks) :
    Option (SwapSt × Ticks × Bool) :=
  (stepCharge outGivenIn zfo spf limit st ahead).bind fun c =>
    (scaleCheck scale c st.pool.liquidity).bind fun _ => loopBody outGivenIn zfo spf limit st ahead

def swapLoopS (scale : Int) (outGivenIn zfo : Bool) (spf limit : Int) :
    Nat → SwapSt → Ticks → Nat → Nat → Option (SwapSt × Nat × Nat)
  | 0, _, _, _, _ => none
  | fuel + 1, st, ahead, steps, crossed =>
    if st.remaining > 1 ∧ st.pool.sqrtPrice ≠ limit then
      match loopBodyS scale outGivenIn zfo spf limit st ahead with
      | none => none
      | some (st', ahead', c) => swapLoopS scale outGivenIn zfo spf limit fuel st' ahead' (steps + 1) (if c then crossed + 1 else crossed)
    else some (st, steps, crossed)

/-- `computeOutAmtGivenIn` / `computeInAmtGivenOut` with `updateAccumulators = true`. -/
def computeSwapS (scale : Int) (outGivenIn zfo : Bool) (spf priceLimit : Int) (pool : PoolSt) (ticks : Ticks) (specified : Int) :
    Option SwapOut := do
  let limit ← sqrtPriceLimit priceLimit zfo
  if zfo then (if limit > pool.sqrtPrice ∨ limit < CL.MinSqrtPriceBigDec then none else some ())
  else (if limit < pool.sqrtPrice ∨ limit > CL.MaxSqrtPriceBigDec then none else some ())
  let ahead := ticksAhead zfo ticks pool.tick
  let fuel := 2 * ticks.length + CL.swapNoProgressLimit + 8
  let (st, steps, crossed) ← swapLoopS scale outGivenIn zfo spf limit fuel
    { remaining := specified * P18, calculated := 0, pool := pool, spreadTotal := 0, noProgress := 0 } ahead 0 0
  if st.remaining < 0 then none else
  if outGivenIn then do
    let used ← Dec.sub (specified * P18) st.remaining
    let ain ← (Dec.ceil used).bind Dec.truncateInt
    let aout ← Dec.truncateInt st.calculated
    some ⟨ain, aout, st.spreadTotal, st.pool, steps, crossed⟩
  else do
    let ain ← (Dec.ceil st.calculated).bind Dec.truncateInt
    let got ← Dec.sub (specified * P18) st.remaining
    let aout ← Dec.truncateInt got
    some ⟨ain, aout, st.spreadTotal, st.pool, steps, crossed⟩

/-- executed swap including the accumulator-update failure: exactly `execSwap` whenever it succeeds
(`Props/C03.execSwapS_refines`). -/
def execSwapS (scale : Int) (outGivenIn zfo : Bool) (spf : Int) (pool : PoolSt) (ticks : Ticks) (specified : Int) :
    Option (SwapOut × Int) :=
  (computeSwapS scale outGivenIn zfo spf (execPriceLimit zfo) pool ticks specified).bind fun _ =>
    execSwap outGivenIn zfo spf pool ticks specified

/-- estimate queries (`CalcOutAmtGivenIn` / `CalcInAmtGivenOut`): unbounded price limit, no state change. -/
def estimateSwap (outGivenIn zfo : Bool) (spf : Int) (pool : PoolSt) (ticks : Ticks) (specified : Int) : Option Int :=
  (computeSwap outGivenIn zfo spf 0 pool ticks specified).map fun r => if outGivenIn then r.amountOut else r.amountIn

/-! ### step trace of an executed swap (additive: the loops above are untouched)

The spread-reward bookkeeping (`Model/CLFees.lean`) needs, per loop iteration, the spread charge, the active
liquidity it is divided by and the initialised tick crossed at the end of the iteration (if any).
`swapLoopT` is `swapLoopS` that also records them; `swapLoopT_fst` (Proofs/CLFeesTrace.lean) shows that dropping the trace gives
back `swapLoopS`, so every theorem about `swapLoop`/`swapLoopS`/`execSwapS` carries over. -/

structure StepTrace where
  charge : Int            -- spreadRewardCharge of the step (Dec)
  liq : Int               -- swapState.liquidity the step ran against (Dec)
  tick : Int              -- swapState.tick before the step
  crossed : Option Int    -- `some t`: the step ended on initialised tick `t` and crossed it
  deriving Repr, DecidableEq

def loopBodyT (scale : Int) (outGivenIn zfo : Bool) (spf limit : Int) (st : SwapSt) (ahead : Ticks) :
    Option ((SwapSt × Ticks × Bool) × StepTrace) :=
  (stepCharge outGivenIn zfo spf limit st ahead).bind fun c =>
    (loopBodyS scale outGivenIn zfo spf limit st ahead).map fun r =>
      (r, ⟨c, st.pool.liquidity, st.pool.tick, if r.2.2 then ahead.head?.map (·.1) else none⟩)

def swapLoopT (scale : Int) (outGivenIn zfo : Bool) (spf limit : Int) :
    Nat → SwapSt → Ticks → Nat → Nat → Option ((SwapSt × Nat × Nat) × List StepTrace)
  | 0, _, _, _, _ => none
  | fuel + 1, st, ahead, steps, crossed =>
    if st.remaining > 1 ∧ st.pool.sqrtPrice ≠ limit then
      match loopBodyT scale outGivenIn zfo spf limit st ahead with
      | none => none
      | some ((st', ahead', c), tr) =>
        (swapLoopT scale outGivenIn zfo spf limit fuel st' ahead' (steps + 1) (if c then crossed + 1 else crossed)).map
          fun r => (r.1, tr :: r.2)
    else some ((st, steps, crossed), [])

/-- the step trace of `computeSwapS` (same setup, same fuel). -/
def swapTrace (scale : Int) (outGivenIn zfo : Bool) (spf priceLimit : Int) (pool : PoolSt) (ticks : Ticks) (specified : Int) :
    Option (List StepTrace) := do
  let limit ← sqrtPriceLimit priceLimit zfo
  if zfo then (if limit > pool.sqrtPrice ∨ limit < CL.MinSqrtPriceBigDec then none else some ())
  else (if limit < pool.sqrtPrice ∨ limit > CL.MaxSqrtPriceBigDec then none else some ())
  let ahead := ticksAhead zfo ticks pool.tick
  let fuel := 2 * ticks.length + CL.swapNoProgressLimit + 8
  let r ← swapLoopT scale outGivenIn zfo spf limit fuel
    { remaining := specified * P18, calculated := 0, pool := pool, spreadTotal := 0, noProgress := 0 } ahead 0 0
  some r.2

end OsmoVerif.CL
