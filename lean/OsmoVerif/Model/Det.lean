/-
C19 — models of the order-insensitivity mechanisms the Go code relies on, and of the genesis
export/import functions of the modules that already have a model.  Core only.

A Go map is an association list in ARBITRARY order: the list order is the iteration order of one
particular execution (Go randomises it per map instance), so "independent of the iteration order"
is "invariant under `List.Perm`".  Key distinctness is a separate hypothesis (`Nodup` of the keys).
-/
import OsmoVerif.Model.Mint
import OsmoVerif.Model.Epochs
import OsmoVerif.Model.SumTree
import OsmoVerif.Model.Accum

namespace OsmoVerif.Det

abbrev GoMap (β : Type) := List (String × β)

def sle (a b : String) : Bool := decide (a ≤ b)

/-- `for k := range m { keys = append(keys, k) }; sort.Strings(keys)`
(x/tokenfactory/keeper/bankactions.go forceTransfer, x/lockup writeDurationValuesToAccumTree, …) -/
def sortedKeys {β : Type} (m : GoMap β) : List String := (m.map Prod.fst).mergeSort sle

/-- `m[k]` -/
def lookup {β : Type} : GoMap β → String → Option β
  | [], _ => none
  | (k', v) :: r, k => if k' = k then some v else lookup r k

/-- `for _, k := range sortedKeys { use(k, m[k]) }` -/
def iterSorted {β : Type} (m : GoMap β) : List (String × Option β) := (sortedKeys m).map fun k => (k, lookup m k)

/-- `for _, v := range m { acc = f(acc, v) }` -/
def foldMap {β γ : Type} (f : γ → String × β → γ) (init : γ) (m : GoMap β) : γ := m.foldl f init

/-- `for k, v := range m { m2[k] = v }` (every new entry may land anywhere in m2's order: cons is one choice) -/
def rebuild {β : Type} (m : GoMap β) : GoMap β := m.foldl (fun acc kv => kv :: acc) []

/-- `for k := range ks { delete(m, k) }` -/
def deleteAll {β : Type} (m : GoMap β) (ks : List String) : GoMap β := ks.foldl (fun acc k => acc.filter (fun e => e.1 != k)) m

/-! ## x/incentives distributionInfo (keeper/distribute.go) -/

/-- the struct; coins are kept abstract (`C` with its `Add`): the claim is about order. -/
structure DistrInfo (C : Type) where
  nextID : Nat
  ownerToID : GoMap Nat            -- lockOwnerAddrToID: a Go map, only ever indexed
  idToAddr : List String           -- idToBech32Addr (idToDecodedRewardReceiverAddr is its decoding)
  idToCoins : List C               -- idToDistrCoins

def DistrInfo.new {C : Type} : DistrInfo C := ⟨0, [], [], []⟩

/-- `addLockRewards`.  `valid` = the bech32 decoding of the reward receiver succeeds.  Go takes the id and
writes the map entry BEFORE decoding, so an error leaves a half-updated struct behind; the caller
(`distributeInternal`) returns the error and the whole distribution is discarded: `none`. -/
def addLockRewards {C : Type} (add : C → C → C) (valid : String → Bool) (d : DistrInfo C)
    (owner receiver : String) (rewards : C) : Option (DistrInfo C) :=
  match lookup d.ownerToID owner with
  | some id =>
    match d.idToCoins[id]? with
    | some old => some { d with idToCoins := d.idToCoins.set id (add rewards old) }
    | none => none                                  -- index out of range: Go panics
  | none =>
    if valid receiver then
      some { nextID := d.nextID + 1, ownerToID := (owner, d.nextID) :: d.ownerToID,
             idToAddr := d.idToAddr ++ [receiver], idToCoins := d.idToCoins ++ [rewards] }
    else none

/-- the sequence of `addLockRewards` calls of one distribution (owner, receiver, rewards per lock). -/
def runLocks {C : Type} (add : C → C → C) (valid : String → Bool) :
    DistrInfo C → List (String × String × C) → Option (DistrInfo C)
  | d, [] => some d
  | d, (o, r, c) :: rest =>
    match addLockRewards add valid d o r c with
    | none => none
    | some d' => runLocks add valid d' rest

/-- `doDistributionSends`: `SendCoinsFromModuleToManyAccounts(idToDecodedRewardReceiverAddr, idToDistrCoins)`
followed by one event per id `0 … numIDs-1`: the ordered list of (receiver, coins). -/
def sends {C : Type} (d : DistrInfo C) : List (String × C) := d.idToAddr.zip d.idToCoins

/-- `distributeSyntheticInternal`: `for _, v := range qualifiedLocksMap { if v.index < 0 { continue };
out[v.index] = &v.lock }` — entries are (index, lock). -/
def scatter {L : Type} (out : List (Option L)) (entries : List (Int × L)) : List (Option L) :=
  entries.foldl (fun o e => if e.1 < 0 then o else o.set e.1.toNat (some e.2)) out

/-! ## x/poolmanager TakerFeeSkim (taker_fee.go) -/

/-- agreements of the route: `osmoutils.SortSlice(denoms)`, then per denom either its own share agreement
or (only if it has none) the agreements of a registered alloyed pool; own agreements win if any exist. -/
def shareAgreements (own : String → Option (String × Int)) (alloyed : String → List (String × Int))
    (denoms : List String) : List (String × Int) :=
  let sorted := denoms.mergeSort sle
  let owns := sorted.filterMap own
  let alloys := (sorted.filter fun d => (own d).isNone).flatMap alloyed
  if owns.isEmpty then alloys else owns

/-- `processShareAgreements`: `none` = InvalidTakerFeeSharePercentageError (total percentage outside [0,1]);
otherwise the ORDERED list of accumulator increments (agreement denom, taker fee denom, amount).
`pct` raw 18-decimal, `amount = ⌊fee · pct⌋` (`NewDecFromInt(a).Mul(p).TruncateInt()` is kept as `skim`). -/
def takerFeeSkim (skim : Int → Int → Int) (own : String → Option (String × Int)) (alloyed : String → List (String × Int))
    (denoms : List String) (fees : List (String × Int)) : Option (List (String × String × Int)) :=
  let ags := shareAgreements own alloyed denoms
  if ags.isEmpty then some [] else
  let total : Int := ags.foldl (fun a g => a + g.2) 0
  if total > 1000000000000000000 ∨ total < 0 then none
  else some (fees.flatMap fun f => ags.map fun g => (g.1, f.1, skim f.2 g.2))

/-! ## genesis export / import of the modelled modules -/

/-- x/mint genesis: minter, params (with `GenesisEpochProvisions`, which `Mint.Params` does not carry) and the
last reduction epoch. -/
structure MintGenesis where
  minterProvisions : Int
  genesisEpochProvisions : Int
  params : Mint.Params
  reductionStartedEpoch : Int

/-- `ExportGenesis` (x/mint/keeper/genesis.go) -/
def mintExport (g0 : Int) (p : Mint.Params) (s : Mint.State) : MintGenesis :=
  ⟨s.provisions, g0, p, s.lastReduction⟩

/-- `InitGenesis`: `data.Minter.EpochProvisions = data.Params.GenesisEpochProvisions` (sic), SetMinter, SetParams,
setLastReductionEpochNum.  The developer-vesting balance is bank state (carried by the bank genesis). -/
def mintInit (g : MintGenesis) (devVesting : Int) : Mint.Params × Mint.State :=
  (g.params, { provisions := g.genesisEpochProvisions, lastReduction := g.reductionStartedEpoch, devVesting := devVesting })

/-- consecutive epochs fed to `AfterEpochEnd`; the observations of every epoch (`none` = hook error, state kept). -/
def mintRun (p : Mint.Params) : Mint.State → List Int → List (Option (Option Mint.Obs))
  | _, [] => []
  | s, e :: es =>
    match Mint.afterEpochEnd p s e with
    | none => none :: mintRun p s es
    | some (s', o) => some o :: mintRun p s' es

/-- x/epochs: `ExportGenesis` = AllEpochInfos (identifier order). -/
def epochsExport (s : Epochs.State) : List Epochs.EpochInfo := s.timers

/-- `InitGenesis`: `AddEpochInfo` for every exported timer under the import context (time, height). -/
def epochsImport (ctxT ctxH : Int) (subs : List Epochs.Store) : List Epochs.EpochInfo → Option Epochs.State
  | g => g.foldlM (fun st e => Epochs.addEpochInfo ctxT ctxH e st) { timers := [], subs := subs }

/-- forget the one field an import rewrites -/
def forgetHeight (e : Epochs.EpochInfo) : Epochs.EpochInfo := { e with currentEpochStartHeight := 0 }

def epochsRun (s : Epochs.State) : List Epochs.Block → Epochs.State × List (List Epochs.Signal)
  | [] => (s, [])
  | b :: bs =>
    let r := epochsRun (Epochs.stepBlock s b) bs
    (r.1, Epochs.committedSignals s b :: r.2)

/-- osmoutils/sumtree as used by x/lockup: export = ordered iteration of the leaves; import = `NewTree` and one
`Set` per exported leaf (x/lockup InitGenesis re-inserts amounts per duration). -/
def sumtreeExport (s : SumTree.Store) : List (SumTree.Key × Int) := SumTree.iterate s

def sumtreeImport (m : Nat) (xs : List (SumTree.Key × Int)) : Option SumTree.Store :=
  match SumTree.new m with
  | none => none
  | some s0 => xs.foldlM (fun s kv => SumTree.set s (SumTree.Ptr.of kv.1) kv.2) s0

/-- osmoutils/accum as exported by x/concentrated-liquidity: every accumulator (name, value, total shares) and
every position record; import = `MakeAccumulatorWithValueAndShare` per accumulator, then the records. -/
def accumExport (st : Accum.Store) : List (String × Accum.Content) × List ((String × String) × Accum.Record) :=
  (st.accs, st.poss)

def accumImportAcc (st : Accum.Store) (a : String × Accum.Content) : Option Accum.Store :=
  match Accum.setAccumulator st a.1 a.2.value a.2.total with
  | (st', true) => some st'
  | (_, false) => none

def accumImport (g : List (String × Accum.Content) × List ((String × String) × Accum.Record)) : Option Accum.Store :=
  (g.1.foldlM accumImportAcc Accum.Store.empty).map fun st => g.2.foldl (fun st r => st.setPos r.1.1 r.1.2 r.2) st

end OsmoVerif.Det
