/-
Ledger: model of the cosmos-sdk x/bank keeper as far as x/gamm and x/poolmanager use it
(`SendCoins`, `MintCoins` + `SendCoinsFromModuleToAccount`, `SendCoinsFromAccountToModule` +
`BurnCoins`, `GetBalance`, `GetSupply`).  Generic in the account type `α` and the denom type `δ`.

Stores are association lists with default 0.  `aset` overwrites the first binding of a key or
appends a new one, so `aget_aset` / `totalOf_aset` (Proofs/GammLedger) hold with NO side invariant;
the canonical (sorted) order is produced when a store is printed (Model/DrvGamm `dump`).
A Go error / panic is `none`; the caller (a message inside a cache context) then keeps the old state.
Core only.
-/
namespace OsmoVerif.Ledger

variable {κ : Type} [DecidableEq κ]

/-- value bound to `k`, 0 when unbound (`GetBalance` of an absent key is the zero coin). -/
def aget : List (κ × Int) → κ → Int
  | [], _ => 0
  | (k', v) :: t, k => if k' = k then v else aget t k

/-- overwrite the first binding of `k`, or append one. -/
def aset : List (κ × Int) → κ → Int → List (κ × Int)
  | [], k, v => [(k, v)]
  | (k', v') :: t, k, v => if k' = k then (k, v) :: t else (k', v') :: aset t k v

/-- optional lookup (for stores whose default is not 0). -/
def afind? : List (κ × Int) → κ → Option Int
  | [], _ => none
  | (k', v) :: t, k => if k' = k then some v else afind? t k

/-- remove every binding of `k`. -/
def aerase : List (κ × Int) → κ → List (κ × Int)
  | [], _ => []
  | (k', v) :: t, k => if k' = k then aerase t k else (k', v) :: aerase t k

variable {α δ : Type} [DecidableEq α] [DecidableEq δ]

/-- Σ of the balances of denom `d` over ALL bindings (all accounts). -/
def totalOf (d : δ) : List ((α × δ) × Int) → Int
  | [] => 0
  | ((_, d'), v) :: t => (if d' = d then v else 0) + totalOf d t

/-- Σ of the amounts of denom `d` in a coin list. -/
def sumOf : List (δ × Int) → δ → Int
  | [], _ => 0
  | (d', a) :: t, d => (if d' = d then a else 0) + sumOf t d

structure Bank (α δ : Type) where
  bal : List ((α × δ) × Int) := []
  sup : List (δ × Int) := []

namespace Bank

def balance (b : Bank α δ) (a : α) (d : δ) : Int := aget b.bal (a, d)
def supply (b : Bank α δ) (d : δ) : Int := aget b.sup d
def total (b : Bank α δ) (d : δ) : Int := totalOf d b.bal

def setBalance (b : Bank α δ) (a : α) (d : δ) (v : Int) : Bank α δ := { b with bal := aset b.bal (a, d) v }
def setSupply (b : Bank α δ) (d : δ) (v : Int) : Bank α δ := { b with sup := aset b.sup d v }

/-- `SendCoins(from, to, Coins{Coin{d, amt}})`: a non-positive amount is an invalid coin set
(`ErrInvalidCoins`), a balance smaller than `amt` is `ErrInsufficientFunds`; the sender is debited
first and the recipient credited from the updated store (`subUnlockedCoins`, `addCoins`). -/
def send (b : Bank α δ) (frm to : α) (d : δ) (amt : Int) : Option (Bank α δ) :=
  if amt ≤ 0 then none
  else if b.balance frm d < amt then none
  else
    let b1 := b.setBalance frm d (b.balance frm d - amt)
    some (b1.setBalance to d (b1.balance to d + amt))

/-- `SendCoins` with a coin set (empty set: valid, nothing happens). -/
def sendCoins (b : Bank α δ) (frm to : α) : List (δ × Int) → Option (Bank α δ)
  | [] => some b
  | (d, amt) :: cs => (b.send frm to d amt).bind fun b' => b'.sendCoins frm to cs

/-- `MintCoins(module, NewCoins(NewCoin(d, amt)))` followed by `SendCoinsFromModuleToAccount(module, to, …)`:
`NewCoin` panics on a negative amount, `NewCoins` drops a zero coin (then nothing happens);
the module account is credited and debited by the same amount, so only `to` and the supply change. -/
def mint (b : Bank α δ) (to : α) (d : δ) (amt : Int) : Option (Bank α δ) :=
  if amt < 0 then none
  else if amt = 0 then some b
  else some ((b.setSupply d (b.supply d + amt)).setBalance to d (b.balance to d + amt))

/-- `SendCoinsFromAccountToModule(from, module, Coins{NewCoin(d, amt)})` followed by `BurnCoins(module, …)`:
zero is an invalid coin set, negative panics, insufficient funds is an error. -/
def burn (b : Bank α δ) (frm : α) (d : δ) (amt : Int) : Option (Bank α δ) :=
  if amt ≤ 0 then none
  else if b.balance frm d < amt then none
  else some ((b.setSupply d (b.supply d - amt)).setBalance frm d (b.balance frm d - amt))

end Bank
end OsmoVerif.Ledger
