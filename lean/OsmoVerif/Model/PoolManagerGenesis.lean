/-
The KV store of x/poolmanager and its genesis export / import (x/poolmanager/keeper.go:121-202), layered around the
taker-fee configuration `Router.FeeCfg` of `Model/Router.lean` (whose functions are used unchanged).  Core only.

Store prefixes (x/poolmanager/types/keys.go) and where they go:
  0x01 next pool id                                 → `nextPoolId`                      genesis `NextPoolId`
  0x02 pool id ↦ module route                       → `routes`                          genesis `PoolRoutes`
  0x03 pool id ↦ tracked volume                     → `volumes`                         genesis `PoolVolumes` (one entry per pool of `AllPools`)
  0x04 (tokenIn, tokenOut) ↦ taker fee override     → `cfg.pairs`                       genesis `DenomPairTakerFeeStore`
  0x07/0x08/0x09/0x0D taker-fee trackers            → `trackerHeight/stakers/community/burn`   genesis `TakerFeesTracker`
  params (x/params subspace)                        → `cfg.default`, `cfg.whitelist`, `feeAdmins`, `creationFee`   genesis `Params`
  0x0A taker-fee-skim accumulators, 0x0B taker-fee share agreements, 0x0C registered alloyed pools
                                                    → `accrued`, `agreements`, `alloyed`   NO genesis field (GenesisState has 6 fields)
A KV store has one value per key and no insertion order: stores are association lists read by lookup (`kget`); a write puts the
binding in front and drops the old ones (`kset`), exactly as `Router.setDenomPairTakerFee` does for the override store.
-/
import OsmoVerif.Model.Router

namespace OsmoVerif.Router
open OsmoVerif.Num

section KV
variable {κ α : Type} [DecidableEq κ]

def kget (k : κ) : List (κ × α) → Option α
  | [] => none
  | (k', v) :: r => if k' = k then some v else kget k r

def kdel (k : κ) (l : List (κ × α)) : List (κ × α) := l.filter (fun p => p.1 ≠ k)

def kset (k : κ) (v : α) (l : List (κ × α)) : List (κ × α) := (k, v) :: kdel k l
end KV

/-- `osmoutils.GetCoinByDenomFromPrefix`: the zero coin when the key is absent (store_helper.go:251-266). -/
def coinOf (l : List (Denom × Int)) (d : Denom) : Int :=
  match kget d l with
  | some v => v
  | none => 0

/-- `osmoutils.IncreaseCoinByDenomFromPrefix` (store_helper.go:269-286): read (zero when absent), add, write. -/
def increaseCoin (l : List (Denom × Int)) (d : Denom) (x : Int) : List (Denom × Int) := kset d (coinOf l d + x) l

abbrev Coins := List (Denom × Int)

structure PMState where
  nextPoolId : Nat := 1
  cfg : FeeCfg := ⟨0, [], []⟩                 -- DefaultTakerFee, DenomTradePairPrefix store, ReducedFeeWhitelist
  feeAdmins : List Addr := []                 -- TakerFeeParams.AdminAddresses
  creationFee : Coins := []                   -- Params.PoolCreationFee
  routes : List (PoolId × Nat) := []          -- pool id ↦ PoolType
  stakers : Coins := []
  community : Coins := []
  burn : Coins := []
  trackerHeight : Int := 0
  volumes : List (PoolId × Coins) := []
  -- no genesis field carries these three stores
  agreements : List (Denom × Int) := []       -- taker-fee share agreement of a denom: skim percent (raw Dec)
  alloyed : List PoolId := []                 -- registered alloyed pools
  accrued : List ((Denom × Denom) × Int) := []  -- (share denom, fee denom) ↦ accrued skim
  deriving Repr

/-- `GetTotalVolumeForPool` (router.go:816-835): empty coins when no entry exists. -/
def getVolume (s : PMState) (id : PoolId) : Coins :=
  match kget id s.volumes with
  | some v => v
  | none => []

/-- `addVolume` (router.go:798-806): `currentTotalVolume.Add(coin)`; amounts per denom, kept as a tracker list. -/
def addVolume (s : PMState) (id : PoolId) (d : Denom) (x : Int) : PMState :=
  { s with volumes := kset id (increaseCoin (getVolume s id) d x) s.volumes }

/-- `types.GenesisState` (genesis.pb.go:107-118). -/
structure PMGenesis where
  nextPoolId : Nat
  default : Int
  whitelist : List Addr
  feeAdmins : List Addr
  creationFee : Coins
  poolRoutes : List (PoolId × Nat)
  stakers : Coins
  community : Coins
  burn : Coins
  heightAccountingStartsFrom : Int
  poolVolumes : List (PoolId × Coins)
  denomPairTakerFeeStore : List ((Denom × Denom) × Int)
  deriving Repr

/-- `ExportGenesis` (keeper.go:165-202): `AllPools` (every pool has a route) with `GetTotalVolumeForPool` each — also for pools
that never traded —, `GetAllTradingPairTakerFees`, the three tracker coin arrays (every stored entry, zeros included) and the
accounting height, `GetParams`, `GetNextPoolId`, `getAllPoolRoutes`. -/
def pmExportGenesis (s : PMState) : PMGenesis :=
  { nextPoolId := s.nextPoolId, default := s.cfg.default, whitelist := s.cfg.whitelist, feeAdmins := s.feeAdmins,
    creationFee := s.creationFee, poolRoutes := s.routes,
    stakers := s.stakers, community := s.community, burn := s.burn, heightAccountingStartsFrom := s.trackerHeight,
    poolVolumes := s.routes.map fun r => (r.1, getVolume s r.1),
    denomPairTakerFeeStore := s.cfg.pairs }

/-- `validateDefaultTakerFee` (types/params.go:156-170), the part of `Params.Validate` the model can see. -/
def validDefaultTakerFee (f : Int) : Bool := decide (0 ≤ f) && decide (f ≤ P18)

/-- `InitGenesis` (keeper.go:123-162), statement by statement.  `none` = panic.
 124 `SetNextPoolId`  125 `genState.Validate()` (next pool id 0, invalid params → panic)  129 `SetParams`
 131 `SetPoolRoute` per route  136-150 `UpdateTakerFeeTrackerFor…ByDenom` per coin: an INCREASE of the (empty) store
 151 `SetTakerFeeTrackerStartHeight`  154 `SetVolume` per exported pool
 159 `SetDenomPairTakerFee` per override — the message-path setter, which DELETES instead of writing when the fee equals the
     (just imported) default taker fee (taker_fee.go:38-50).
Every loop writes its own key prefix of the empty store only, so each store is the fold of its own loop. -/
def pmInitGenesis (g : PMGenesis) : Option PMState :=
  if g.nextPoolId = 0 then none else
  if !validDefaultTakerFee g.default then none else
  some { nextPoolId := g.nextPoolId, feeAdmins := g.feeAdmins, creationFee := g.creationFee,
         routes := g.poolRoutes.foldl (fun a r => kset r.1 r.2 a) [],
         stakers := g.stakers.foldl (fun a c => increaseCoin a c.1 c.2) [],
         community := g.community.foldl (fun a c => increaseCoin a c.1 c.2) [],
         burn := g.burn.foldl (fun a c => increaseCoin a c.1 c.2) [],
         trackerHeight := g.heightAccountingStartsFrom,
         volumes := g.poolVolumes.foldl (fun a v => kset v.1 v.2 a) [],
         cfg := g.denomPairTakerFeeStore.foldl (fun c e => setDenomPairTakerFee c e.1.1 e.1.2 e.2) ⟨g.default, [], g.whitelist⟩ }

def pmExportImport (s : PMState) : Option PMState := pmInitGenesis (pmExportGenesis s)

/-! ## what happens to the store between two exports -/

inductive Tracker | stakers | community | burn
  deriving DecidableEq, Repr

inductive PMOp where
  /-- `CreatePool` as far as the poolmanager store goes (create_pool.go:100-118): `getNextPoolIdAndIncrement`, `SetPoolRoute`. -/
  | createPool (poolType : Nat)
  /-- governance parameter change (`SetParams`; an invalid default taker fee is rejected by the param validator). -/
  | setParams (default : Int) (whitelist feeAdmins : List Addr) (creationFee : Coins)
  /-- `MsgSetDenomPairTakerFee` (`SenderValidationSetDenomPairTakerFee`, taker_fee.go:54-81). -/
  | setPairFee (sender : Addr) (d0 d1 : Denom) (fee : Int)
  /-- `UpdateTakerFeeTrackerFor{Stakers,CommunityPool,Burn}ByDenom` (called by x/txfees). -/
  | track (k : Tracker) (d : Denom) (x : Int)
  /-- `SetTakerFeeTrackerStartHeight` (x/protorev epoch hook). -/
  | setTrackerHeight (h : Int)
  /-- `trackVolume` → `addVolume` (router.go:751-806), called by a swap AFTER the pool's module was resolved through its
  route (`GetPoolModule`; "CONTRACT: pool with `poolId` exists"): without a route the swap has already failed. -/
  | volume (id : PoolId) (d : Denom) (x : Int)
  /-- `MsgSetTakerFeeShareAgreementForDenom` (store.go:102-139, the store write). -/
  | setAgreement (d : Denom) (pct : Int)
  /-- `MsgSetRegisteredAlloyedPool` (store.go:248-297, the store write). -/
  | registerAlloyed (id : PoolId)
  /-- `increaseTakerFeeShareDenomsToAccruedValue` (store.go:176-188; from `TakerFeeSkim`). -/
  | accrue (shareDenom feeDenom : Denom) (x : Int)
  deriving Repr

inductive PMOut | ok | err | id (n : Nat)
  deriving DecidableEq, Repr

def trackerOf (s : PMState) : Tracker → Coins
  | .stakers => s.stakers
  | .community => s.community
  | .burn => s.burn

def pmStep (s : PMState) : PMOp → PMState × PMOut
  | .createPool ty =>
    ({ s with routes := kset s.nextPoolId ty s.routes, nextPoolId := s.nextPoolId + 1 }, .id s.nextPoolId)
  | .setParams d wl adm fee =>
    if validDefaultTakerFee d then
      ({ s with cfg := { s.cfg with default := d, whitelist := wl }, feeAdmins := adm, creationFee := fee }, .ok)
    else (s, .err)
  | .setPairFee sender d0 d1 fee =>
    if sender ∈ s.feeAdmins then ({ s with cfg := setDenomPairTakerFee s.cfg d0 d1 fee }, .ok) else (s, .err)
  | .track .stakers d x => ({ s with stakers := increaseCoin s.stakers d x }, .ok)
  | .track .community d x => ({ s with community := increaseCoin s.community d x }, .ok)
  | .track .burn d x => ({ s with burn := increaseCoin s.burn d x }, .ok)
  | .setTrackerHeight h => ({ s with trackerHeight := h }, .ok)
  | .volume id d x => if (kget id s.routes).isSome then (addVolume s id d x, .ok) else (s, .err)
  | .setAgreement d pct => ({ s with agreements := kset d pct s.agreements }, .ok)
  | .registerAlloyed id => ({ s with alloyed := if id ∈ s.alloyed then s.alloyed else id :: s.alloyed }, .ok)
  | .accrue sd fd x =>
    ({ s with accrued := kset (sd, fd) ((match kget (sd, fd) s.accrued with | some v => v | none => 0) + x) s.accrued }, .ok)

def pmRun (s : PMState) : List PMOp → PMState
  | [] => s
  | o :: os => pmRun (pmStep s o).1 os

def pmOutcomes (s : PMState) : List PMOp → List PMOut
  | [] => []
  | o :: os => (pmStep s o).2 :: pmOutcomes (pmStep s o).1 os

/-- a fresh chain (`DefaultGenesis`: next pool id 1, default params) -/
def pmInit : PMState := {}

end OsmoVerif.Router
