/- line protocol for the `auth` engine (property C20).

Tokens: `-` is the empty string / empty list; lists are comma separated; addresses and denoms are the
engine's canonical names (no spaces).  Environment ops (`reset`, `fund`, `lk.new`, `cl.new`) describe
objects the engine created through the real keepers; message ops go through `Auth.step`. -/
import OsmoVerif.Model.Auth
import OsmoVerif.Model.TokenFactoryGenesis
namespace OsmoVerif.Auth

def initAuth : State :=
  { valid := [], moduleAccs := [], contracts := [], nativeSupply := [], feeDenom := "", fee := 0,
    communityPool := "", gov := "", allowed := [], unbonding := 0, validators := [],
    admins := [], metadata := [], hooks := [], bal := [], supply := [], locks := [], lastLock := 0,
    positions := [], nextPos := 1 }

def unq (s : String) : String := if s = "-" then "" else s
def q (s : String) : String := if s = "" then "-" else s
def csv (s : String) : List String := if s = "-" then [] else s.splitOn ","

def csvNat (s : String) : Option (List Nat) := (csv s).mapM String.toNat?

def showRes : Result → String
  | .ok => "ok"
  | .err => "err"

def b01 (b : Bool) : String := if b then "1" else "0"

def showBal (s : State) (a d : String) : String :=
  if a ∈ s.valid then toString (getBal s.bal a d) else "x"

/-- tokenfactory observation: result, admin / metadata / hook / supply of the denom, balances of the
listed addresses in that denom. -/
def tfObs (s : State) (r : Result) (denom : String) (addrs : List (String × String)) : String :=
  let m := match aget denom s.metadata with
    | none => "~"
    | some t => "=" ++ t
  let h := match aget denom s.hooks with
    | none => "-"
    | some t => q t
  let sup := if denom ∈ s.nativeSupply then "-" else toString (getSupply s denom)
  s!"{showRes r} admin={q (adminOf s denom)} meta={m} hook={h} sup={sup} bal=[{",".intercalate (addrs.map fun p => showBal s p.1 p.2)}]"

def showSF : SF → String
  | .none => "n"
  | .bonded => "b"
  | .undelegating => "u"

def showLock (s : State) (id : Nat) : String :=
  match aget id s.locks with
  | none => "gone"
  | some l => s!"{l.owner}/{q l.recv}/{l.dur}/{b01 l.unlocking}/{l.amt}/{showSF l.sf}"

def lkObs (s : State) (r : Result) (id : Nat) : String :=
  s!"{showRes r} L{id}={showLock s id} last={s.lastLock} Llast={showLock s s.lastLock}"

def showPos (s : State) (id : Nat) : String :=
  match aget id s.positions with
  | none => "gone"
  | some p => p.owner

def clObs (s : State) (r : Result) (ids : List Nat) : String :=
  s!"{showRes r} P=[{",".intercalate (ids.map fun i => s!"{i}:{showPos s i}")}] next={s.nextPos} Pnew={showPos s (s.nextPos - 1)}"

def parseDKind (k : String) : Option DKind :=
  match k.toList with
  | ['x'] => some .other
  | ['o'] => some .osmo
  | 'g' :: n => (String.ofList n).toNat?.map DKind.gamm
  | 'c' :: n => (String.ofList n).toNat?.map DKind.cl
  | _ => none

/-- all listed locks (message ops that reach several locks) -/
def lkListObs (s : State) (r : Result) (ids : List Nat) : String :=
  s!"{showRes r} L=[{",".intercalate (ids.map fun i => s!"{i}:{showLock s i}")}] last={s.lastLock}"

def parseKind : String → Option WKind
  | "full" => some .full
  | "part" => some .part
  | "excess" => some .excess
  | "neg" => some .neg
  | _ => none

def stepAuth (st : State) (op : String) (args : List String) : State × String :=
  let run (m : Msg) (obs : State → Result → String) : State × String :=
    let (s', r) := step st m
    (s', obs s' r)
  match op, args with
  | "reset", [valid, mods, gov, cp, feeDenom, fee, allowed, unbonding, vals, native, contracts] =>
    match fee.toInt?, unbonding.toInt? with
    | some fee, some unbonding =>
      ({ initAuth with valid := csv valid, moduleAccs := csv mods, gov := gov, communityPool := cp,
                       feeDenom := feeDenom, fee := fee, allowed := csv allowed, unbonding := unbonding,
                       validators := csv vals, nativeSupply := csv native, contracts := csv contracts }, "ok")
    | _, _ => (st, "bad-op")
  | "fund", [a, d, x] =>
    match x.toInt? with
    | some x => ({ st with bal := addBal st.bal a d x }, "ok")
    | none => (st, "bad-op")
  | "lk.new", [id, owner, amt, dur, sfAsset] =>
    match id.toNat?, amt.toInt?, dur.toInt? with
    | some id, some amt, some dur =>
      ({ st with locks := aset id { owner := owner, recv := "", dur := dur, unlocking := false, amt := amt,
                                    sfAsset := sfAsset = "1", sf := .none } st.locks, lastLock := id }, "ok")
    | _, _, _ => (st, "bad-op")
  -- a lock with the kind of its denom (`o` uosmo, `g<pool>` gamm shares, `c<pool>` CL shares, `x` other)
  | "lk.newk", [id, owner, amt, dur, sfAsset, kind] =>
    match id.toNat?, amt.toInt?, dur.toInt?, parseDKind kind with
    | some id, some amt, some dur, some dk =>
      ({ st with locks := aset id { owner := owner, recv := "", dur := dur, unlocking := false, amt := amt,
                                    sfAsset := sfAsset = "1", sf := .none, dk := dk } st.locks, lastLock := id }, "ok")
    | _, _, _, _ => (st, "bad-op")
  -- a position whose underlying lock is `lock` (announced with `lk.newk`)
  | "cl.newl", [id, owner, pool, lock] =>
    match id.toNat?, pool.toNat?, lock.toNat? with
    | some id, some pool, some lock =>
      ({ st with positions := aset id { owner := owner, pool := pool, locked := true, lockId := lock } st.positions, nextPos := id + 1 }, "ok")
    | _, _, _ => (st, "bad-op")
  -- the address got a validator-set preference / a staking delegation (environment: the creator messages
  -- MsgSetValidatorSetPreference / MsgDelegate act on nothing but the sender's own record)
  | "vp.set", [a] => ({ st with delegators := if a ∈ st.delegators then st.delegators else a :: st.delegators }, "ok")
  | "lk.last", [n] =>
    match n.toNat? with
    | some n => ({ st with lastLock := n }, "ok")
    | none => (st, "bad-op")
  | "cl.new", [id, owner, pool, locked] =>
    match id.toNat?, pool.toNat? with
    | some id, some pool =>
      ({ st with positions := aset id { owner := owner, pool := pool, locked := locked = "1" } st.positions, nextPos := id + 1 }, "ok")
    | _, _ => (st, "bad-op")
  -- tokenfactory
  | "tf.create", [a, sub] =>
    let a := unq a; let sub := unq sub
    run (.tfCreate a sub) fun s r => tfObs s r (mkDenom a sub) [(a, s.feeDenom), (s.communityPool, s.feeDenom)]
  | "tf.mint", [a, d, x, t] =>
    match x.toInt? with
    | some x =>
      let a := unq a; let t := unq t
      run (.tfMint a d x t) fun s r => tfObs s r d [(if t = "" then a else t, d)]
    | none => (st, "bad-op")
  | "tf.burn", [a, d, x, f] =>
    match x.toInt? with
    | some x =>
      let a := unq a; let f := unq f
      run (.tfBurn a d x f) fun s r => tfObs s r d [(if f = "" then a else f, d)]
    | none => (st, "bad-op")
  | "tf.force", [a, d, x, f, t] =>
    match x.toInt? with
    | some x => run (.tfForce (unq a) d x (unq f) (unq t)) fun s r => tfObs s r d [(unq f, d), (unq t, d)]
    | none => (st, "bad-op")
  | "tf.admin", [a, d, n] => run (.tfChangeAdmin (unq a) d (unq n)) fun s r => tfObs s r d []
  | "tf.meta", [a, b, v, t] => run (.tfSetMeta (unq a) b (v = "1") (unq t)) fun s r => tfObs s r b []
  | "tf.hook", [a, d, c] => run (.tfSetHook (unq a) d (unq c)) fun s r => tfObs s r d []
  -- C19: x/tokenfactory ExportGenesis -> tokenfactory store wiped -> InitGenesis (Model/TokenFactoryGenesis); `panic` = InitGenesis
  -- panics (state unchanged).  `tf.get` = the queries DenomAuthorityMetadata / bank DenomMetadata / BeforeSendHookAddress / supply.
  | "tf.exportimport", [] =>
    match tfExportImport st with
    | some s' => (s', "ok")
    | none => (st, "panic")
  | "tf.get", [d] => (st, tfObs st .ok d [])
  | "tf.params", [] => (st, s!"ok fee={q st.feeDenom}:{st.fee}")
  -- lockup
  | "lk.begin", [a, id, x] =>
    match id.toNat?, x.toInt? with
    | some id, some x => run (.lkBegin (unq a) id x) fun s r => lkObs s r id
    | _, _ => (st, "bad-op")
  | "lk.extend", [a, id, d] =>
    match id.toNat?, d.toInt? with
    | some id, some d => run (.lkExtend (unq a) id d) fun s r => lkObs s r id
    | _, _ => (st, "bad-op")
  | "lk.recv", [a, id, rc] =>
    match id.toNat? with
    | some id => run (.lkSetRecv (unq a) id (unq rc)) fun s r => lkObs s r id
    | none => (st, "bad-op")
  | "lk.force", [a, id, x] =>
    match id.toNat?, x.toInt? with
    | some id, some x => run (.lkForce (unq a) id x) fun s r => lkObs s r id
    | _, _ => (st, "bad-op")
  -- concentrated liquidity
  | "cl.withdraw", [a, id, k] =>
    match id.toNat?, parseKind k with
    | some id, some k => run (.clWithdraw (unq a) id k) fun s r => clObs s r [id]
    | _, _ => (st, "bad-op")
  | "cl.add", [a, id, x, y] =>
    match id.toNat?, x.toInt?, y.toInt? with
    | some id, some x, some y => run (.clAdd (unq a) id x y) fun s r => clObs s r [id]
    | _, _, _ => (st, "bad-op")
  | "cl.fees", [a, ids] =>
    match csvNat ids with
    | some ids => run (.clFees (unq a) ids) fun s r => clObs s r ids
    | none => (st, "bad-op")
  | "cl.inc", [a, ids] =>
    match csvNat ids with
    | some ids => run (.clIncentives (unq a) ids) fun s r => clObs s r ids
    | none => (st, "bad-op")
  | "cl.xfer", [a, ids, n] =>
    match csvNat ids with
    | some ids => run (.clTransfer (unq a) ids (unq n)) fun s r => clObs s r ids
    | none => (st, "bad-op")
  -- superfluid
  | "sf.delegate", [a, id, v] =>
    match id.toNat? with
    | some id => run (.sfDelegate (unq a) id (unq v)) fun s r => lkObs s r id
    | none => (st, "bad-op")
  | "sf.undelegate", [a, id] =>
    match id.toNat? with
    | some id => run (.sfUndelegate (unq a) id) fun s r => lkObs s r id
    | none => (st, "bad-op")
  | "sf.unbond", [a, id] =>
    match id.toNat? with
    | some id => run (.sfUnbond (unq a) id) fun s r => lkObs s r id
    | none => (st, "bad-op")
  | "sf.undunbond", [a, id, x] =>
    match id.toNat?, x.toInt? with
    | some id, some x => run (.sfUndelegateUnbond (unq a) id x) fun s r => lkObs s r id
    | _, _ => (st, "bad-op")
  -- messages of the full inventory
  | "lk.beginall", [a, ids] =>
    match csvNat ids with
    | some ids => run (.lkBeginAll (unq a)) fun s r => lkListObs s r ids
    | none => (st, "bad-op")
  | "sf.convert", [a, id, v] =>
    match id.toNat? with
    | some 0 => (st, "bad-op")      -- lock id <= 0 addresses the sender's liquid shares, not an owned object
    | some id => run (.sfConvert (unq a) id (unq v)) fun s r => lkObs s r id
    | none => (st, "bad-op")
  | "sf.migrate", [a, id] =>
    match id.toNat? with
    | some id => run (.sfMigrate (unq a) id) fun s r => lkObs s r id
    | none => (st, "bad-op")
  | "sf.addcl", [a, id, x, y, n] =>
    match id.toNat?, x.toInt?, y.toInt?, n.toInt? with
    | some id, some x, some y, some n =>
      run (.sfAddToCL (unq a) id x y n) fun s r => clObs s r [id] ++ " " ++ lkObs s r s.lastLock
    | _, _, _, _ => (st, "bad-op")
  | "sf.unpoolallow", [ids] =>
    match csvNat ids with
    | some ids => ({ st with unpoolAllowed := ids }, "ok")
    | none => (st, "bad-op")
  | "sf.unpool", [a, pool, ids] =>
    match pool.toNat?, csvNat ids with
    | some pool, some ids =>
      if ownsGammLock st (unq a) pool then (st, "bad-op") else
      run (.sfUnpoolNoLock (unq a) pool) fun s r => lkListObs s r ids
    | _, _ => (st, "bad-op")
  | "gm.pool", [id, c] =>
    match id.toNat? with
    | some id => ({ st with controllers := aset id (unq c) st.controllers }, "ok")
    | none => (st, "bad-op")
  | "gm.scaling", [a, id, k] =>
    match id.toNat? with
    | some id => run (.gmScaling (unq a) id (k = "1")) fun _ r => showRes r
    | none => (st, "bad-op")
  | "vp.bonded", [a, id] =>
    match id.toNat? with
    | some id => run (.vpDelegateBonded (unq a) id) fun s r => lkObs s r id
    | none => (st, "bad-op")
  | _, _ => (st, "bad-op")

end OsmoVerif.Auth
