/-
Model of the INTEGER side of osmomath (property C12):

* `osmomath.BigInt` (osmomath/int.go, the 1024-bit integer): constructors, Add/Sub/Mul/Quo/Mod and their Raw
  forms, Neg, Abs, Min/Max, ToDec, Int64/Uint64, the text / binary codec (`big.Int` text, base 0);
* the sdk `Int` (cosmossdk.io/math, 256 bits, aliased `osmomath.Int`): the same operations with the sdk's
  single post-check;
* the BigDec ↔ integer operations of osmomath/decimal.go that `Model/Num.lean` does not have (MulInt64,
  QuoInt64, TruncateInt64, RoundInt64, the `NewBigDecFrom…(WithPrec)` constructors, NewBigDecFromDecMulDec);
* `DivIntByU64ToBigDec` (osmomath/rounding_direction.go) with every `RoundingDirection`.

Conventions as in `Model/Num.lean`: raw `Int`; Go `Quo` = `Int.tdiv`, Go `Mod` (Euclidean) = `%`; a panic is
`none`, nothing is totalised.  Control flow is mirrored, the cheap bit-length pre-check of `BigInt.Mul` included.
Core-only (the driver links it).
-/
import OsmoVerif.Model.Num
import OsmoVerif.Model.NumGen

namespace OsmoVerif.Num
open OsmoVerif.Gen

/-- `big.Int.BitLen()`: 0 for 0, else ⌊log2 |x|⌋ + 1. -/
def bitLen (x : Int) : Nat := if x = 0 then 0 else x.natAbs.log2 + 1

def int64Min : Int := -(2 ^ 63)
def int64Max : Int := 2 ^ 63 - 1
def uint64Max : Int := 2 ^ 64 - 1
/-- `big.Int.IsInt64()` -/
def isInt64 (x : Int) : Bool := int64Min ≤ x && x ≤ int64Max
/-- `big.Int.IsUint64()` -/
def isUint64 (x : Int) : Bool := 0 ≤ x && x ≤ uint64Max
/-- Go `int64(u)` for a `uint64` u: two's-complement reinterpretation (wraps from 2^63 on). -/
def u64ToI64 (u : Int) : Int := if u ≤ int64Max then u else u - 2 ^ 64

/-! ### osmomath.BigInt (1024 bits) -/
namespace BigInt

/-- `NewBigIntFromBigInt`: panics iff BitLen > maxBitLen. -/
def ofBig (x : Int) : Option Int := chkBigInt x
def add (a b : Int) : Option Int := chkBigInt (a + b)
def sub (a b : Int) : Option Int := chkBigInt (a - b)
/-- the cheap pre-check of `Mul`: `i.BitLen() + i2.BitLen() - 1 > maxBitLen` (Go `int` arithmetic). -/
def mulPre (a b : Int) : Bool := ((bitLen a + bitLen b : Nat) : Int) - 1 > (Osmomath.maxBitLen : Int)
/-- `Mul`: pre-check on the operands' bit lengths, then the exact check on the product. -/
def mul (a b : Int) : Option Int := if mulPre a b then none else chkBigInt (a * b)
/-- `Quo`: `big.Int.Quo` (truncated); no overflow check (cannot grow). -/
def quo (a b : Int) : Option Int := if b = 0 then none else some (a.tdiv b)
/-- `Mod`: `big.Int.Mod` = EUCLIDEAN modulus (result in [0, |b|)), unlike `Quo`. -/
def mod (a b : Int) : Option Int := if b = 0 then none else some (a % b)
def neg (a : Int) : Option Int := some (-a)
def abs (a : Int) : Option Int := some (Int.ofNat a.natAbs)
/-- `MinBigInt`: `if i.Cmp(i2) == 1 then i2 else i`. -/
def min (a b : Int) : Option Int := some (if a > b then b else a)
/-- `MaxBigInt`: `if i.Cmp(i2) == -1 then i2 else i`. -/
def max (a b : Int) : Option Int := some (if a < b then b else a)
/-- `ToDec` = `NewBigDecFromInt`: ×10^36, no bit-length assertion in the code. -/
def toDec (a : Int) : Option Int := some (a * P36)
def int64 (a : Int) : Option Int := if isInt64 a then some a else none
def uint64 (a : Int) : Option Int := if isUint64 a then some a else none
/-- `NewBigIntWithDecimal(n, dec)`: n·10^dec; negative `dec` and overflow panic. -/
def withDecimal (n dec : Int) : Option Int := if dec < 0 then none else chkBigInt (n * 10 ^ dec.toNat)
/-- `Cmp` (Equal / GT / GTE / LT / LTE are its projections). -/
def cmp (a b : Int) : Int := if a < b then -1 else if a = b then 0 else 1

end BigInt

/-! ### sdk Int (256 bits): one post-check `bigIntOverflows` per operation
(`SInt.add/sub/mul/quo` are in `Model/NumGen.lean`, shared with the generated definitions) -/
namespace SInt

def ofBig (x : Int) : Option Int := chkInt x
def mod (a b : Int) : Option Int := if b = 0 then none else some (a % b)
/-- `ToLegacyDec` = `LegacyNewDecFromInt`: ×10^18, no range check. -/
def toLegacyDec (a : Int) : Option Int := some (SInt.toDec a)
def withDecimal (n dec : Int) : Option Int := if dec < 0 then none else chkInt (n * 10 ^ dec.toNat)

end SInt

/-! ### BigDec ↔ integer operations missing from `Model/Num.lean` -/
namespace BigDec

/-- `MulInt64`: same body as `MulInt` with `big.NewInt(i)`. -/
def mulInt64 (a b : Int) : Option Int := mulInt a b
/-- `QuoInt64`: `new(big.Int).Quo(d.i, big.NewInt(i))`, truncated, no overflow check. -/
def quoInt64 (a b : Int) : Option Int := quoInt a b
/-- `TruncateInt64`: truncated integer part, panics unless it is an int64. -/
def truncateInt64 (a : Int) : Option Int := let q := a.tdiv P36; if isInt64 q then some q else none
/-- `RoundInt64`: half-even integer part, panics unless it is an int64. -/
def roundInt64 (a : Int) : Option Int := let q := chopRound P36 a; if isInt64 q then some q else none
/-- `IsInteger`: `Rem(d.i, 10^36) == 0`. -/
def isInteger (a : Int) : Bool := a.tmod P36 = 0
/-- `NewBigDecFromBigIntWithPrec` / `NewBigDecFromIntWithPrec` / `NewBigDecWithPrec` (and the …Mut forms):
`i · precisionMultiplier(prec)`; `prec > 36` panics, a negative `prec` indexes out of range (panic); there is
NO bit-length assertion in the code. -/
def fromIntWithPrec (i prec : Int) : Option Int :=
  if prec < 0 ∨ prec > (Osmomath.BigDecPrecision : Int) then none
  else some (i * 10 ^ (Osmomath.BigDecPrecision - prec.toNat))
/-- `NewBigDecFromDecMulDec(a, b)`: the raw product of two 18-decimal values IS the 36-decimal product. -/
def fromDecMulDec (a b : Int) : Option Int := some (a * b)

end BigDec

/-! 18-decimal counterparts (cosmossdk.io/math LegacyDec) -/
namespace Dec
def truncateInt64 (a : Int) : Option Int := let q := a.tdiv P18; if isInt64 q then some q else none
def roundInt64 (a : Int) : Option Int := let q := chopRound P18 a; if isInt64 q then some q else none
/-- `LegacyNewDecFromBigIntWithPrec` / `…FromIntWithPrec` / `LegacyNewDecWithPrec`: no range check. -/
def fromIntWithPrec (i prec : Int) : Option Int :=
  if prec < 0 ∨ prec > (Osmomath.DecPrecision : Int) then none
  else some (i * 10 ^ (Osmomath.DecPrecision - prec.toNat))
end Dec

/-! ### DivIntByU64ToBigDec (rounding_direction.go) -/

/-- outcome of a Go function that can return an error as well as panic -/
inductive Res where
  | ok (v : Int) | err | panic
deriving DecidableEq, Repr

def Res.ofOption : Option Int → Res
  | some v => .ok v
  | none => .panic

/-- `DivIntByU64ToBigDec(i, u, round)`.  `d := i·10^36` (`BigDecFromDecMut(i.ToLegacyDec())`); the divisor is
`int64(u)` — it WRAPS for u ≥ 2^63 —; RoundUp (1) → `QuoRoundUp(NewBigDec(int64(u)))`, RoundDown (2) →
`QuoInt64(int64(u))` (truncation toward ZERO, not a floor), RoundBankers (3) → `Quo(NewBigDec(int64(u)))`;
u = 0, RoundUnconstrained (0) and every other mode are errors. -/
def divIntByU64 (i u round : Int) : Res :=
  if u = 0 then .err else
  let d := i * P36
  let v := u64ToI64 u
  if round = 1 then .ofOption (BigDec.quoRoundUp d (v * P36))
  else if round = 2 then .ofOption (BigDec.quoInt64 d v)
  else if round = 3 then .ofOption (BigDec.quo d (v * P36))
  else .err

/-! ### `big.Int` text: `SetString(s, 0)` / `UnmarshalText` and `String()` / `MarshalText`

`NewBigIntFromString`, `BigInt.Unmarshal`, `BigInt.UnmarshalJSON` (and `BigDec.Unmarshal`) all read the text
with BASE 0: optional sign, optional base prefix (`0b` `0o` `0x`, or a bare leading `0` = octal), digits with
`_` allowed only between digits (or between the prefix and the first digit); the whole input must be consumed. -/
namespace IntText

/-- digit value as in `nat.scan` (63 = "not a digit"). -/
def digitVal (c : Char) : Nat :=
  if '0' ≤ c ∧ c ≤ '9' then c.toNat - '0'.toNat
  else if 'a' ≤ c ∧ c ≤ 'z' then c.toNat - 'a'.toNat + 10
  else if 'A' ≤ c ∧ c ≤ 'Z' then c.toNat - 'A'.toNat + 10
  else 63

/-- the digit loop of `nat.scan` for base 0: state = (prev ∈ {'.','0','_'}, invalSep, count, value);
`none` = a character that is neither `_` nor a digit of the base (it would be left unconsumed). -/
def scanBody (b : Nat) : List Char → Char → Bool → Nat → Nat → Option (Char × Bool × Nat × Nat)
  | [], prev, inv, cnt, acc => some (prev, inv, cnt, acc)
  | c :: cs, prev, inv, cnt, acc =>
    if c = '_' then scanBody b cs '_' (inv || prev != '0') cnt acc
    else if digitVal c < b then scanBody b cs '0' inv (cnt + 1) (b * acc + digitVal c)
    else none

/-- base / prefix detection of `nat.scan(r, 0, false)`:
(base, remaining characters, prev, count, "prefix is the bare octal 0"). -/
def scanPrefix (cs : List Char) : Nat × List Char × Char × Nat × Bool :=
  match cs with
  | c0 :: rest =>
    if c0 = '0' then
      match rest with
      | [] => (10, [], '0', 1, false)
      | c :: rest' =>
        if c = 'b' ∨ c = 'B' then (2, rest', '0', 0, false)
        else if c = 'o' ∨ c = 'O' then (8, rest', '0', 0, false)
        else if c = 'x' ∨ c = 'X' then (16, rest', '0', 0, false)
        else (8, c :: rest', '0', 0, true)
    else (10, cs, '.', 0, false)
  | [] => (10, [], '.', 0, false)

def scanNat (cs : List Char) : Option Nat :=
  let (b, body, prev, cnt0, oct0) := scanPrefix cs
  match scanBody b body prev false cnt0 0 with
  | none => none
  | some (prev', inv, cnt, acc) =>
    if inv || prev' = '_' then none
    else if cnt = 0 then (if oct0 then some 0 else none)
    else some acc

/-- `new(big.Int).SetString(s, 0)`. -/
def parseBase0 (cs : List Char) : Option Int :=
  match cs with
  | [] => none
  | c :: rest =>
    if c = '-' then (scanNat rest).map (fun (n : Nat) => -(n : Int))
    else if c = '+' then (scanNat rest).map (fun (n : Nat) => (n : Int))
    else (scanNat cs).map (fun (n : Nat) => (n : Int))

/-- `big.Int.String()` / `MarshalText`: decimal, '-' for negatives. -/
def intChars (a : Int) : List Char := (if a < 0 then ['-'] else []) ++ Nat.toDigits 10 a.natAbs

end IntText

/-- `NewBigIntFromString` / `BigInt.Unmarshal` (non-empty input) / `unmarshalText`. -/
def BigInt.fromChars (cs : List Char) : Option Int := (IntText.parseBase0 cs).bind chkBigInt
/-- `BigInt.String()` / `Marshal()`. -/
def BigInt.toChars (a : Int) : List Char := IntText.intChars a
/-- `Size()` = `len(Marshal())`. -/
def BigInt.size (a : Int) : Nat := (BigInt.toChars a).length
def SInt.fromChars (cs : List Char) : Option Int := (IntText.parseBase0 cs).bind chkInt
/-- `BigDec.Unmarshal` (non-empty input): base-0 text of the RAW integer, bound `maxBitLen`. -/
def BigDec.unmarshalChars (cs : List Char) : Option Int := (IntText.parseBase0 cs).bind chkBigInt

end OsmoVerif.Num
