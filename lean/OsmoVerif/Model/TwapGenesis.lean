/-
Genesis export / import of x/twap (keeper.go `InitGenesis` / `ExportGenesis`, types/genesis.go `Validate`, store.go
`StoreNewRecord`, `getAllHistoricalPoolIndexedTWAPs`) for the ONE (pool, pair) of `Model/Twap.lean`.  Core only.

* `ExportGenesis` = `{Params, Twaps: every record of the pool-indexed HISTORICAL store}` (key order: for one pair,
  ascending time).  The most-recent-record store and the pruning state (`IsPruning`, `LastKeptTime`, last seen pool
  id) are NOT exported.
* `InitGenesis`: `genState.Validate()` — a failing record PANICS the import —, `sort.Slice` of the records by time
  (not stable: for two records of one pair with the same time the order is unspecified in Go; the model sorts stably
  and `exportGenesis` never produces such records), then `StoreNewRecord` for each: the historical entry under the
  time key AND the most-recent entry, so the most recent record is rebuilt as "the record stored last".
* `TwapRecord.validate` (the clauses expressible on the model's record; pool id / denominations / nil checks are outside):
  height > 0, time not the zero time, `LastErrorTime = Time → one last spot price is zero`, otherwise both last spot
  prices positive, arithmetic accumulators not negative.
-/
import OsmoVerif.Model.Twap
namespace OsmoVerif.Twap

structure Genesis where
  twaps : List TwapRecord
  deriving DecidableEq, Repr

/-- `ExportGenesis`. -/
def exportGenesis (s : Store) : Genesis := { twaps := s.hist }

/-- `TwapRecord.validate`. -/
def validRecord (r : TwapRecord) : Bool :=
  decide (0 < r.height) && decide (r.time ≠ zeroTime) &&
  (if r.lastErr = r.time then decide (r.sp0 = 0 ∨ r.sp1 = 0) else decide (0 < r.sp0 ∧ 0 < r.sp1)) &&
  decide (0 ≤ r.acc0) && decide (0 ≤ r.acc1)

/-- stable insertion sort by time (`sort.Slice(…Time.Before…)`). -/
def insertByTime (x : TwapRecord) : List TwapRecord → List TwapRecord
  | [] => [x]
  | r :: rs => if x.time ≤ r.time then x :: r :: rs else r :: insertByTime x rs

def sortByTime : List TwapRecord → List TwapRecord
  | [] => []
  | r :: rs => insertByTime r (sortByTime rs)

/-- `InitGenesis` into an empty twap store (`none` = panic in `Validate`). -/
def initGenesis (g : Genesis) : Option Store :=
  if g.twaps.all validRecord then some ((sortByTime g.twaps).foldl storeNewRecord {}) else none

def exportImport (s : Store) : Option Store := initGenesis (exportGenesis s)

end OsmoVerif.Twap
