/-
Model of x/mint AfterEpochEnd + DistributeMintedCoin (+ pool-incentives AllocateAsset with an empty
distribution table, the state the engine runs in).  Amounts are sdk Ints (`Int`), proportions and
provisions raw 18-decimal `Dec`s.  `none` = the hook returns an error (the epoch hook wrapper then
discards every state change of this call).  Core only.

The ARITHMETIC is not written here: `getProportions`, the reduction (`Minter.NextEpochProvisions`) and the
minted amount (`Minter.EpochProvision`) are the definitions REGENERATED from the Go source by the expression
translator (`Gen/MintFn.lean`, DESIGN §2.1), so a changed operator/operand/comparison in x/mint changes
this model and the theorems of Props/C18 are re-checked against it.
-/
import OsmoVerif.Model.Num
import OsmoVerif.Gen.MintFn

namespace OsmoVerif.Mint
open OsmoVerif.Num

structure Receiver where
  weight : Int          -- raw Dec
  community : Bool      -- empty address ⇒ goes to the community pool
  deriving Repr, DecidableEq

structure Params where
  startEpoch : Int
  reductionPeriod : Int
  reductionFactor : Int   -- raw Dec
  staking : Int           -- raw Dec proportions
  poolIncentives : Int
  developer : Int
  community : Int
  receivers : List Receiver
  deriving Repr

structure State where
  provisions : Int        -- minter.EpochProvisions, raw Dec
  lastReduction : Int     -- epoch number of the last reduction (0 if unset)
  devVesting : Int        -- balance of the developer vesting module account
  deriving Repr, DecidableEq

/-- per-epoch observable effects. -/
structure Obs where
  minted : Int
  staking : Int           -- to the fee collector
  pool : Int              -- to pool incentives (then allocated)
  dev : Int               -- burned from the mint account; paid out of the vesting account instead
  communityRemainder : Int
  paid : List Int         -- per receiver, in order
  supplyDelta : Int       -- change of the supply reported with offset
  mintAccountAfter : Int  -- what is left in the mint module account
  deriving Repr, DecidableEq

/-- `getProportions`: ratio > 1 is an error; `amount.ToLegacyDec().Mul(ratio).TruncateInt()`, `sdk.NewCoin`
(panics on a negative amount).  The generated definition. -/
def getProportions (amount ratio : Int) : Option Int := Gen.Mint.getProportions amount ratio

def payReceivers (dev : Int) : List Receiver → Option (List Int)
  | [] => some []
  | r :: rs => do
    let p ← getProportions dev r.weight
    let ps ← payReceivers dev rs
    some (p :: ps)

def listSum : List Int → Int
  | [] => 0
  | x :: xs => x + listSum xs

/-- `AfterEpochEnd` for the mint epoch identifier. Returns the new state and, when minting happened,
the observable effects. -/
def afterEpochEnd (p : Params) (s : State) (e : Int) : Option (State × Option Obs) :=
  if e < p.startEpoch then some (s, none) else
  let last0 := if e = p.startEpoch then e else s.lastReduction
  let reduce : Bool := e ≥ p.reductionPeriod + last0
  match (if reduce then Gen.Mint.NextEpochProvisions s.provisions p.reductionFactor else some s.provisions) with
  | none => none
  | some prov =>
    let last := if reduce then e else last0
    match Gen.Mint.EpochProvision prov with   -- `TruncateInt`, then sdk.NewCoin (panics on a negative amount)
    | none => none
    | some minted =>
      match getProportions minted p.staking, getProportions minted p.poolIncentives, getProportions minted p.developer with
      | some st, some pl, some dv =>
        if s.devVesting < dv then none else
        match (if p.receivers.isEmpty then some [dv] else payReceivers dv p.receivers) with
        | none => none
        | some paid =>
          let totalPaid := listSum paid
          if s.devVesting < totalPaid then none else
          let comm := minted - st - pl - dv
          if comm < 0 then none else     -- NewCoin with negative amount panics
          some ({ provisions := prov, lastReduction := last, devVesting := s.devVesting - totalPaid },
                some { minted := minted, staking := st, pool := pl, dev := dv, communityRemainder := comm,
                       paid := (if p.receivers.isEmpty then [] else paid),
                       supplyDelta := minted - dv + totalPaid,
                       mintAccountAfter := minted - st - pl - dv - comm })
      | _, _, _ => none

end OsmoVerif.Mint
