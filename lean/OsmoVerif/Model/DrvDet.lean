/-
Line protocol of engine `det` (C19).  The model of "two executions of the same history" is the identity on
canonical observations: the op line carries the digest of execution A's observation, the model echoes it, the
implementation observation is the digest of execution B (or of the second OS process / the imported node).
Any divergence therefore surfaces as a correspondence failure naming the block.
-/
namespace OsmoVerif.Det

def stepDet (op : String) (args : List String) : String :=
  match op, args with
  | "reset", _ => "ok"
  | "block", [_, d] => d
  | "xproc", [_, d] => d
  | "tx", [_, d] => d
  | "import", [_, d] => d
  | "export", [_, d] => d
  | _, _ => "bad-op"

end OsmoVerif.Det
