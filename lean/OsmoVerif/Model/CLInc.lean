/-
Uptime incentive bookkeeping of one concentrated-liquidity pool, layered on top of `Model/CLFees.lean`
(whose operations are used unchanged for the pool and the spread rewards):
  incentives.go  updateGivenPoolUptimeAccumulatorsToNow, calcAccruedIncentivesForAccum, computeTotalIncentivesToEmit,
                 scaleUpTotalEmittedAmount, scaleDownIncentiveAmount, setIncentiveRecord,
                 getInitialUptimeGrowthOppositeDirectionOfLastTraversalForTick, GetUptimeGrowthInsideRange,
                 GetUptimeGrowthOutsideRange, initOrUpdatePositionUptimeAccumulators, updateAccumAndClaimRewards,
                 prepareClaimAllIncentivesForPosition, collectIncentives, redepositForfeitedIncentives, CreateIncentive
  tick.go        makeInitialTickInfo (uptime trackers), crossTick (tracker flip)
  swaps.go       swapCrossTickLogic (accumulators brought to now at the first crossing, with the pre-swap liquidity)
  lp.go          where CreatePosition / WithdrawPosition / addToPosition call the above
The six uptime accumulators are `osmoutils/accum` accumulators over `sdk.DecCoins` with arbitrary denoms: the
DecCoins operations are the bit-exact ones of `Model/Accum.lean` (`Accum.add/sub/safeSub/mulDec/truncateDecimal`).
Times are nanoseconds (Int) relative to the start of the history.  `none` = error or panic.  Core only.
-/
import OsmoVerif.Model.CLFees
import OsmoVerif.Model.Accum

namespace OsmoVerif.CLInc
open OsmoVerif.Num OsmoVerif.CL OsmoVerif.CLPool OsmoVerif.CLFees

abbrev DC := Accum.DecCoins
abbrev Coins := List (String × Int)

/-- number of supported uptimes (`types.SupportedUptimes`): 1ns, 1min, 1h, 1d, 7d, 14d. -/
def uptimesNs : List Int := [1, 60000000000, 3600000000000, 86400000000000, 604800000000000, 1209600000000000]

structure URec where
  id : Nat
  shares : Int
  snap : DC
  unclaimed : DC
  deriving Repr, DecidableEq

/-- one uptime accumulator: value, total shares, position records. -/
structure UAcc where
  value : DC := []
  total : Int := 0
  recs : List URec := []
  deriving Repr

structure IncRec where
  id : Nat
  uptime : Nat        -- index into the supported uptimes
  denom : String
  remaining : Int     -- Dec
  rate : Int          -- Dec per second
  start : Int         -- ns
  deriving Repr, DecidableEq

structure Inc where
  accs : List UAcc := [{}, {}, {}, {}, {}, {}]
  trackers : List (Int × List DC) := []      -- UptimeTrackers per stored tick, sorted by tick
  records : List IncRec := []                -- ordered by (uptime index, id)
  last : Int := 0                            -- pool.LastLiquidityUpdate
  now : Int := 0                             -- ctx.BlockTime()
  factor : Int := 10 ^ 18                    -- incentive accumulator scaling factor of the pool (Dec)
  authorized : Nat := 15                     -- authorised uptimes (`AuthorizedUptimes` param): bit i set = supported uptime i authorised (any subset)
  join : List (Nat × Int) := []              -- position join times
  bal : Coins := []                          -- balances of the pool's incentives address
  nextRec : Nat := 1                         -- next incentive record id (engine tells the id; kept for reference)
  deriving Repr

structure Full where
  fees : Fees
  inc : Inc := {}
  deriving Repr

/-! ### coins -/

def coinAmt (cs : Coins) (d : String) : Int := Accum.amt cs d

/-- `Coins.Add` of a list of coins (sorted set, amounts summed; `none` = 256-bit overflow). -/
def coinsAddAll : Coins → Coins → Option Coins
  | acc, [] => some acc
  | acc, (d, x) :: t => (Accum.coinsAdd acc d x).bind fun a => coinsAddAll a t

/-- bank send out of the incentives address: every coin must be covered. -/
def coinsSubAll : Coins → Coins → Option Coins
  | bal, [] => some bal
  | bal, (d, x) :: t =>
    if coinAmt bal d < x then none
    else coinsSubAll ((bal.map fun c => if c.1 = d then (c.1, c.2 - x) else c).filter fun c => c.2 ≠ 0) t

/-! ### bringing the accumulators to now -/

/-- `calcAccruedIncentivesForAccum` for one incentive record against the accumulator of uptime index `u`:
the per-liquidity amount to add and the record's new remaining amount (`none` inside = record skipped). -/
def emitOne (now elapsedSec liq factor : Int) (u : Nat) (r : IncRec) : Option (Option (Int × Int)) :=
  if ¬ (r.start < now) ∨ r.uptime ≠ u then some none
  else
    match Dec.mulTruncate elapsedSec r.rate with
    | none => some none                                  -- emission overflow: record silently skipped
    | some emitted =>
      match Dec.mulTruncate emitted factor with
      | none => some none                                -- scaling overflow: skipped
      | some scaled =>
        (Dec.quoTruncate scaled liq).bind fun perLiq =>
        if emitted ≤ r.remaining then
          (Dec.sub r.remaining emitted).map fun rem => some (perLiq, rem)
        else
          match Dec.mulTruncate r.remaining factor with
          | none => some none
          | some remScaled => (Dec.quoTruncate remScaled liq).map fun perLiq2 => some (perLiq2, 0)

/-- the record loop for uptime index `u`: coins to add to that accumulator, updated records. -/
def emitLoop (now elapsedSec liq factor : Int) (u : Nat) : List IncRec → DC → Option (DC × List IncRec)
  | [], add => some (add, [])
  | r :: rest, add =>
    (emitOne now elapsedSec liq factor u r).bind fun res =>
    match res with
    | none => (emitLoop now elapsedSec liq factor u rest add).map fun (a, rs) => (a, r :: rs)
    | some (perLiq, rem) =>
      if perLiq < 0 then none else                       -- NewDecCoinFromDec validates
      (Accum.add add [(r.denom, perLiq)]).bind fun add' =>
      (emitLoop now elapsedSec liq factor u rest add').map fun (a, rs) => (a, { r with remaining := rem } :: rs)

def setAt {α} : List α → Nat → α → List α
  | [], _, _ => []
  | _ :: xs, 0, v => v :: xs
  | x :: xs, n + 1, v => x :: setAt xs n v

/-- all uptime indexes in turn (`for uptimeIndex := range uptimeAccums`). -/
def emitAll (now elapsedSec liq factor : Int) : List Nat → List UAcc → List IncRec → Option (List UAcc × List IncRec)
  | [], accs, recs => some (accs, recs)
  | u :: us, accs, recs =>
    (emitLoop now elapsedSec liq factor u recs []).bind fun (toAdd, recs') =>
    (accs[u]?).bind fun a =>
    (Accum.add a.value toAdd).bind fun v =>
    emitAll now elapsedSec liq factor us (setAt accs u { a with value := v }) recs'

/-- `updateGivenPoolUptimeAccumulatorsToNow` with qualifying liquidity `liq`: nothing when no time has elapsed;
emission only when `liq ≥ 1`; fully emitted records disappear; `LastLiquidityUpdate := now` in every other case. -/
def sync (i : Inc) (liq : Int) : Option Inc :=
  (Dec.quo ((i.now - i.last) * P18) (1000000000 * P18)).bind fun elapsedSec =>
  if elapsedSec = 0 then some i
  else if elapsedSec < 0 then none
  else
    (if liq < P18 then some (i.accs, i.records)
     else emitAll i.now elapsedSec liq i.factor [0, 1, 2, 3, 4, 5] i.accs i.records).map fun (accs, recs) =>
    { i with accs := accs, records := recs.filter (fun r => r.remaining > 0), last := i.now }

/-! ### growth outside per tick (six trackers) -/

def getTr (trs : List (Int × List DC)) (t : Int) : Option (List DC) := (trs.find? (·.1 = t)).map (·.2)

def accValues (i : Inc) : List DC := i.accs.map (·.value)

/-- `getInitialUptimeGrowthOppositeDirectionOfLastTraversalForTick`. -/
def initialTr (i : Inc) (cur t : Int) : List DC := if cur ≥ t then accValues i else [[], [], [], [], [], []]

def tickTr (i : Inc) (cur t : Int) : List DC :=
  match getTr i.trackers t with
  | some v => v
  | none => initialTr i cur t

def insertTr (trs : List (Int × List DC)) (t : Int) (v : List DC) : List (Int × List DC) :=
  match trs with
  | [] => [(t, v)]
  | x :: xs => if t < x.1 then (t, v) :: x :: xs else if t = x.1 then (t, v) :: xs else x :: insertTr xs t v

def initTr (i : Inc) (cur t : Int) : Inc :=
  match getTr i.trackers t with
  | some _ => i
  | none => { i with trackers := insertTr i.trackers t (initialTr i cur t) }

/-- `GetUptimeGrowthInsideRange` for one uptime (global value, lower tracker, upper tracker). -/
def insideOne (cur lower upper : Int) (g lo up : DC) : Option DC :=
  if cur < lower then (Accum.safeSub lo up).map (·.1)
  else if cur < upper then (Accum.sub g up).bind fun x => (Accum.safeSub x lo).map (·.1)
  else (Accum.safeSub up lo).map (·.1)

def zip3With {α β γ δ} (f : α → β → γ → Option δ) : List α → List β → List γ → Option (List δ)
  | a :: as, b :: bs, c :: cs => (f a b c).bind fun d => (zip3With f as bs cs).map (d :: ·)
  | [], [], [] => some []
  | _, _, _ => none

def zip2With {α β δ} (f : α → β → Option δ) : List α → List β → Option (List δ)
  | a :: as, b :: bs => (f a b).bind fun d => (zip2With f as bs).map (d :: ·)
  | [], [] => some []
  | _, _ => none

def insideAll (i : Inc) (cur lower upper : Int) : Option (List DC) :=
  zip3With (insideOne cur lower upper) (accValues i) (tickTr i cur lower) (tickTr i cur upper)

/-- `GetUptimeGrowthOutsideRange` = global − inside (`Sub`: fails when negative). -/
def outsideAll (i : Inc) (cur lower upper : Int) : Option (List DC) :=
  (insideAll i cur lower upper).bind fun ins => zip2With Accum.sub (accValues i) ins

/-! ### position records -/

def getURec (recs : List URec) (id : Nat) : Option URec := recs.find? (·.id = id)
def setURec (recs : List URec) (r : URec) : List URec := recs.map fun x => if x.id = r.id then r else x

/-- `accum.GetTotalRewards`. -/
def uRewards (value : DC) (shares : Int) (snap unclaimed : DC) : Option DC :=
  (Accum.sub value snap).bind fun diff => (Accum.mulDec diff shares).bind fun acc => Accum.add unclaimed acc

/-- one accumulator in `initOrUpdatePositionUptimeAccumulators`: `newLiq` is the position's liquidity after the update. -/
def updOne (a : UAcc) (id : Nat) (newLiq delta : Int) (inside outside : DC) : Option UAcc :=
  match getURec a.recs id with
  | none =>
    if delta ≤ 0 then none else
    (Dec.add a.total newLiq).map fun tot => { a with recs := a.recs ++ [⟨id, newLiq, inside, []⟩], total := tot }
  | some r =>
    (Accum.add r.snap outside).bind fun snap1 =>
    if delta = 0 then none
    else if delta < 0 ∧ -delta > r.shares then none
    else
      (uRewards a.value r.shares snap1 r.unclaimed).bind fun rewards =>
      (Dec.add r.shares delta).bind fun sh =>
      (Dec.add a.total delta).map fun tot =>
        { a with recs := setURec a.recs ⟨id, sh, inside, rewards⟩, total := tot }

def updAll (id : Nat) (newLiq delta : Int) : List UAcc → List DC → List DC → Option (List UAcc)
  | a :: as, i :: is, o :: os => (updOne a id newLiq delta i o).bind fun a' => (updAll id newLiq delta as is os).map (a' :: ·)
  | [], [], [] => some []
  | _, _, _ => none

/-- `initOrUpdatePositionUptimeAccumulators` (after the accumulators were brought to now). -/
def updPosition (i : Inc) (cur lower upper : Int) (id : Nat) (newLiq delta : Int) : Option Inc :=
  (insideAll i cur lower upper).bind fun ins =>
  (outsideAll i cur lower upper).bind fun outs =>
  (updAll id newLiq delta i.accs ins outs).map fun accs => { i with accs := accs }

/-- `updateAccumAndClaimRewards` on one accumulator: the claimed (scaled) integer coins and the accumulator with the
record re-based (records with zero shares are removed). -/
def claimOne (a : UAcc) (id : Nat) (outside : DC) : Option (UAcc × Coins) :=
  match getURec a.recs id with
  | none => some (a, [])                                       -- `hasPosition` false: skipped
  | some r =>
    (Accum.add r.snap outside).bind fun snap1 =>
    (uRewards a.value r.shares snap1 r.unclaimed).bind fun total =>
    (Accum.truncateDecimal total).bind fun (coins, _) =>
    if r.shares = 0 then some ({ a with recs := a.recs.filter (·.id ≠ id) }, coins)
    else (Accum.safeSub a.value outside).map fun (inside, _) =>
      ({ a with recs := setURec a.recs ⟨id, r.shares, inside, []⟩ }, coins)

def scaleDownCoins (factor : Int) : Coins → Option Coins
  | [] => some []
  | (d, x) :: t => (scaleDown x factor).bind fun y => (scaleDownCoins factor t).map fun r => if y > 0 then (d, y) :: r else r

/-- the loop of `prepareClaimAllIncentivesForPosition`: collected, forfeited, scaled forfeited per uptime. -/
def claimLoop (factor age : Int) (id : Nat) :
    List UAcc → List DC → List Int → Option (List UAcc × Coins × Coins × List Coins)
  | a :: as, o :: os, up :: ups =>
    (claimOne a id o).bind fun (a', scaled) =>
    (scaleDownCoins factor scaled).bind fun down =>
    (claimLoop factor age id as os ups).bind fun (as', coll, forf, byUp) =>
    if (getURec a.recs id).isSome ∧ age < up then
      (coinsAddAll forf down).map fun forf' => (a' :: as', coll, forf', scaled :: byUp)
    else
      (coinsAddAll coll down).map fun coll' => (a' :: as', coll', forf, [] :: byUp)
  | [], [], [] => some ([], [], [], [])
  | _, _, _ => none

/-- `prepareClaimAllIncentivesForPosition` (accumulators already brought to now). -/
def claimAll (i : Inc) (cur lower upper : Int) (id : Nat) : Option (Inc × Coins × Coins × List Coins) :=
  ((i.join.find? (·.1 = id)).map (·.2)).bind fun joinT =>
  if i.now - joinT < 0 then none else
  (outsideAll i cur lower upper).bind fun outs =>
  (claimLoop i.factor (i.now - joinT) id i.accs outs uptimesNs).map fun (accs, coll, forf, byUp) =>
    ({ i with accs := accs }, coll, forf, byUp)

/-- `redepositForfeitedIncentives` with the pool's active liquidity `liq` (after the withdrawal): below one unit of
liquidity the forfeited coins are sent to the withdrawer, otherwise they go back into the accumulators. -/
def redepositLoop (liq : Int) : List UAcc → List Coins → Option (List UAcc)
  | a :: as, cs :: rest =>
    (if cs.isEmpty then some a
     else
      (cs.foldlM (fun (acc : DC) (c : String × Int) =>
          (Dec.quoTruncate (c.2 * P18) liq).bind fun per => if per < 0 then none else Accum.add acc [(c.1, per)]) ([] : DC)).bind fun toAdd =>
      (Accum.add a.value toAdd).map fun v => { a with value := v }).bind fun a' =>
    (redepositLoop liq as rest).map (a' :: ·)
  | [], [] => some []
  | _, _ => none

def redeposit (i : Inc) (liq : Int) (forf : Coins) (byUp : List Coins) : Option Inc :=
  if liq < P18 then (coinsSubAll i.bal forf).map fun b => { i with bal := b }
  else (redepositLoop liq i.accs byUp).map fun accs => { i with accs := accs }

/-! ### the operations -/

def syncTrackers (trs : List (Int × List DC)) (ticks : List TickInfo) : List (Int × List DC) :=
  trs.filter fun o => ticks.any (·.tick = o.1)

/-- `CreatePosition`. -/
def createPositionMin (s : Full) (owner : String) (lower upper amount0 amount1 min0 min1 : Int) :
    Option (Full × Nat × Int × Int × Int × Int × Int) :=
  (CLFees.createPositionMin s.fees owner lower upper amount0 amount1 min0 min1).bind fun (f', id, x0, x1, liq, lo, up) =>
  (sync s.inc s.fees.pool.liquidity).bind fun i1 =>
  let i2 := initTr (initTr i1 f'.pool.tick lo) f'.pool.tick up
  (updPosition i2 f'.pool.tick lo up id liq liq).map fun i3 =>
    ({ fees := f', inc := { i3 with join := i3.join ++ [(id, i3.now)] } }, id, x0, x1, liq, lo, up)

def createPosition (s : Full) (owner : String) (lower upper amount0 amount1 : Int) :=
  createPositionMin s owner lower upper amount0 amount1 0 0

/-- `WithdrawPosition`: incentives are collected first (forfeits by position age), then the uptime records shrink, then
the forfeited amount is re-deposited against the liquidity that is active AFTER the withdrawal. -/
def withdrawPosition (s : Full) (owner : String) (id : Nat) (req : Int) : Option (Full × Int × Int) :=
  (findPos s.fees.pool id).bind fun pos =>
  (CLFees.withdrawPosition s.fees owner id req).bind fun (f', o0, o1) =>
  (sync s.inc s.fees.pool.liquidity).bind fun i1 =>
  (claimAll i1 s.fees.pool.tick pos.lower pos.upper id).bind fun (i2, coll, forf, byUp) =>
  (coinsSubAll i2.bal coll).bind fun b =>
  (updPosition { i2 with bal := b } s.fees.pool.tick pos.lower pos.upper id (pos.liq - req) (-req)).bind fun i3 =>
  (redeposit i3 f'.pool.liquidity forf byUp).map fun i4 =>
    ({ fees := f', inc := { i4 with trackers := syncTrackers i4.trackers f'.pool.ticks } }, o0, o1)

def addToPosition (s : Full) (owner : String) (id : Nat) (add0 add1 : Int) : Option (Full × Nat × Int × Int) :=
  (findPos s.fees.pool id).bind fun pos =>
  if owner ≠ pos.owner then none else
  if add0 < 0 ∨ add1 < 0 then none else
  if add0 = 0 ∧ add1 = 0 then none else
  (withdrawPosition s owner id pos.liq).bind fun (s1, w0, w1) =>
  if s1.fees.pool.positions.isEmpty then none else
  (createPositionMin s1 owner pos.lower pos.upper (w0 + add0) (w1 + add1) w0 w1).map fun (s2, nid, a0, a1, _, _, _) =>
    (s2, nid, a0, a1)

def transferPosition (s : Full) (sender : String) (id : Nat) (newOwner : String) : Option Full :=
  (CLFees.transferPosition s.fees sender id newOwner).map fun f' => { s with fees := f' }

/-- `crossTick` on the uptime trackers of the crossed ticks, in order. -/
def flipTicks (values : List DC) : List StepTrace → List (Int × List DC) → Option (List (Int × List DC))
  | [], trs => some trs
  | tr :: rest, trs =>
    match tr.crossed with
    | none => flipTicks values rest trs
    | some t =>
      (getTr trs t).bind fun old =>
      (zip2With Accum.sub values old).bind fun new =>
      flipTicks values rest (trs.map fun o => if o.1 = t then (t, new) else o)

/-- executed swap: at the first tick crossing the accumulators are brought to now against the PRE-swap liquidity. -/
def swap (s : Full) (outGivenIn zfo : Bool) (specified : Int) : Option (Full × Int × Int × Int) :=
  (CLFees.swap s.fees outGivenIn zfo specified).bind fun (f', ain, aout, fee) =>
  (swapTrace s.fees.pool.scale outGivenIn zfo s.fees.pool.spf (execPriceLimit zfo)
      ⟨s.fees.pool.sqrtPrice, s.fees.pool.tick, s.fees.pool.liquidity⟩
      (s.fees.pool.ticks.map fun t => (t.tick, t.net)) specified).bind fun trs =>
  if trs.all (fun tr => tr.crossed.isNone) then some ({ s with fees := f' }, ain, aout, fee)
  else
    (sync s.inc s.fees.pool.liquidity).bind fun i1 =>
    (flipTicks (accValues i1) trs i1.trackers).map fun trk =>
      ({ fees := f', inc := { i1 with trackers := trk } }, ain, aout, fee)

def collectSpread (s : Full) (sender : String) (id : Nat) : Option (Full × Int × Int) :=
  (CLFees.collect s.fees sender id).map fun (f', c0, c1) => ({ s with fees := f' }, c0, c1)

/-- `collectIncentives` (message): forfeited amounts stay in the incentives address, nothing is re-deposited. -/
def collectIncentives (s : Full) (sender : String) (id : Nat) : Option (Full × Coins × Coins) :=
  (findPos s.fees.pool id).bind fun pos =>
  if sender ≠ pos.owner then none else
  (sync s.inc s.fees.pool.liquidity).bind fun i1 =>
  (claimAll i1 s.fees.pool.tick pos.lower pos.upper id).bind fun (i2, coll, forf, _) =>
  (coinsSubAll i2.bal coll).map fun b => ({ s with inc := { i2 with bal := b } }, coll, forf)

/-- `GetClaimableIncentives` (query on a branch). -/
def claimableIncentives (s : Full) (id : Nat) : Option (Coins × Coins) :=
  (findPos s.fees.pool id).bind fun pos =>
  (sync s.inc s.fees.pool.liquidity).bind fun i1 =>
  (claimAll i1 s.fees.pool.tick pos.lower pos.upper id).map fun (_, coll, forf, _) => (coll, forf)

def insertRec (rs : List IncRec) (r : IncRec) : List IncRec :=
  match rs with
  | [] => [r]
  | x :: xs => if r.uptime < x.uptime ∨ (r.uptime = x.uptime ∧ r.id < x.id) then r :: x :: xs else x :: insertRec xs r

/-- `CreateIncentive` (the creator is funded by the engine). -/
def createIncentive (s : Full) (id : Nat) (denom : String) (amount rate start : Int) (uptime : Nat) : Option Full :=
  if amount ≤ 0 then none else
  if start < s.inc.now then none else
  if rate ≤ 0 then none else
  if ¬ s.inc.authorized.testBit uptime then none else
  (sync s.inc s.fees.pool.liquidity).bind fun i1 =>
  (Accum.coinsAdd i1.bal denom amount).map fun b =>
    { s with inc := { i1 with records := insertRec i1.records ⟨id, uptime, denom, amount * P18, rate, start⟩, bal := b, nextRec := id + 1 } }

def advance (s : Full) (ns : Int) : Full := { s with inc := { s.inc with now := s.inc.now + ns } }

def syncNow (s : Full) : Option Full := (sync s.inc s.fees.pool.liquidity).map fun i => { s with inc := i }

end OsmoVerif.CLInc
