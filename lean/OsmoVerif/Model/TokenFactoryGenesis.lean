/-
Genesis export / import of x/tokenfactory (x/tokenfactory/keeper/genesis.go) over the tokenfactory part of
`Model/Auth.lean` (`admins` = the authority metadata of every created denom = the creators store, `hooks` = the
before-send hook of a denom, `feeDenom`/`fee` = `Params.DenomCreationFee`).  Core only.

What the genesis document carries (x/tokenfactory/types/genesis.pb.go `GenesisState`, `GenesisDenom`):
  `Params` and, per created denom, `{Denom, AuthorityMetadata{Admin}}`  — and NOTHING else: the before-send hook of a
  denom (`BeforeSendHookAddressPrefixKey` under the denom prefix store, before_send.go:17-62) is not part of it.
Bank state (balances, supply, denom metadata) belongs to the bank genesis; everything of the other modules that
`Auth.State` carries (locks, positions, …) is not touched by this module's InitGenesis.
-/
import OsmoVerif.Model.Auth
namespace OsmoVerif.Auth

/-- `types.GenesisDenom` -/
structure GenesisDenom where
  denom : String
  admin : String          -- AuthorityMetadata.Admin
  deriving DecidableEq, Repr

/-- `types.GenesisState` -/
structure TFGenesis where
  feeDenom : String       -- Params.DenomCreationFee (one coin; amount 0 = nil / empty)
  fee : Int
  denoms : List GenesisDenom
  deriving DecidableEq, Repr

/-- `ExportGenesis` (genesis.go:36-58): `GetAllDenomsIterator` walks the creators store; per denom
`GetAuthorityMetadata` (an absent record unmarshals to admin ""); `Params`.  The model keeps one record per created
denom in `admins` (creation writes the authority metadata and the creators entry together, createdenom.go:49-55). -/
def tfExportGenesis (s : State) : TFGenesis :=
  { feeDenom := s.feeDenom, fee := s.fee,
    denoms := s.admins.map fun kv => { denom := kv.1, admin := adminOf s kv.1 } }

/-- `types.DeconstructDenom` (denoms.go:42-71): the creator of a well-formed factory denom, `none` = error. -/
def deconstructDenom (s : State) (d : String) : Option String :=
  if !validDenom d then none else
  match splitSlash d.toList with
  | p :: c :: _ :: _ =>
    if String.ofList p = "factory" ∧ String.ofList c ∈ s.valid then some (String.ofList c) else none
  | _ => none

/-- `setAuthorityMetadata` (admins.go:23-37): `metadata.Validate()` — admin "" or a bech32 address. -/
def setAuthorityMetadata (s : State) (denom admin : String) : Option State :=
  if admin ≠ "" ∧ admin ∉ s.valid then none else some { s with admins := aset denom admin s.admins }

/-- `createDenomAfterValidation` (createdenom.go:30-57): bank metadata only when absent (`!exists`), authority
metadata with the CREATOR as admin, creators entry. -/
def createDenomAfterValidation (s : State) (creator denom : String) : Option State :=
  let s1 := if (aget denom s.metadata).isSome then s else { s with metadata := aset denom "" s.metadata }
  setAuthorityMetadata s1 denom creator

/-- the loop body of `InitGenesis` (genesis.go:19-32); `none` = panic. -/
def tfInitDenom (s : State) (g : GenesisDenom) : Option State :=
  match deconstructDenom s g.denom with
  | none => none
  | some creator =>
    match createDenomAfterValidation s creator g.denom with
    | none => none
    | some s1 => setAuthorityMetadata s1 g.denom g.admin

/-- the chain state with the tokenfactory store wiped (what `InitGenesis` starts from): no authority metadata, no
hooks; bank and the other modules as they are. -/
def tfFresh (s : State) : State := { s with admins := [], hooks := [] }

/-- `InitGenesis` (genesis.go:11-33): `CreateModuleAccount` (not modelled), `SetParams` (a nil fee becomes the empty
coin set), then one `tfInitDenom` per entry.  `GenesisState.Validate` is NOT called on this path (module.go:151-156):
a duplicated denom entry is processed twice, the later authority metadata wins. -/
def tfInitGenesis (fresh : State) (g : TFGenesis) : Option State :=
  g.denoms.foldlM tfInitDenom { fresh with feeDenom := g.feeDenom, fee := g.fee }

def tfExportImport (s : State) : Option State := tfInitGenesis (tfFresh s) (tfExportGenesis s)

/-- `GetBeforeSendHook` (before_send.go:64-73): "" when unset. -/
def hookOf (s : State) (denom : String) : String :=
  match aget denom s.hooks with
  | some c => c
  | none => ""

end OsmoVerif.Auth
