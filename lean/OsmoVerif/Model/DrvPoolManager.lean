/- line protocol for the x/poolmanager STORE (C19 export/import; `Model/PoolManagerGenesis.lean`).
Not yet routed by Driver/Main.lean (lines to add: a field `pm : Router.PMState := Router.initPM` and the case
`| "pm" :: op :: args => let (x, o) := Router.stepPM st.pm op args; ({ st with pm := x }, o)`).

  pm reset
  pm createpool <poolType>                                  -> ok <id>          (CreatePool: next id + route)
  pm params <defaultFee> <wl,wl|-> <admin,admin|-> <coins|->  -> ok | err        (SetParams; err = invalid default taker fee)
  pm pairfee <sender> <d0> <d1> <fee>                        -> ok | err        (MsgSetDenomPairTakerFee)
  pm track <s|c|b> <denom> <amt>                             -> ok              (UpdateTakerFeeTrackerFor…ByDenom)
  pm height <h>                                              -> ok              (SetTakerFeeTrackerStartHeight)
  pm volume <pool> <denom> <amt>                             -> ok | err        (addVolume; err = pool without route)
  pm agreement <denom> <pct> | pm alloyed <pool> | pm accrue <shareDenom> <feeDenom> <amt>   -> ok
  pm exportimport                                            -> ok | panic      (ExportGenesis, store wiped, InitGenesis)
  pm fee <d0> <d1>                                           -> ok <fee>        (GetTradingPairTakerFee)
  pm dump                                                    -> every store, entries sorted by key
coins = d:a,d:a ; raw Dec fees as integers. -/
import OsmoVerif.Model.PoolManagerGenesis
namespace OsmoVerif.Router

def initPM : PMState := pmInit

def pmCsv (s : String) : List String := if s = "-" then [] else s.splitOn ","

def pmCoins (s : String) : Option Coins :=
  (pmCsv s).mapM fun c =>
    match c.splitOn ":" with
    | [d, a] => a.toInt?.map fun a => (d, a)
    | _ => none

def pmSorted (l : List (String × String)) : String :=
  let l := l.mergeSort fun a b => decide (a.1 ≤ b.1)
  if l.isEmpty then "-" else ",".intercalate (l.map fun e => s!"{e.1}={e.2}")

def pmShowCoins (c : Coins) : String := pmSorted (c.map fun e => (e.1, toString e.2))

def pmPad (n : Nat) : String := let s := toString n; String.ofList (List.replicate (12 - s.length) '0') ++ s

def pmDump (s : PMState) : String :=
  let routes := pmSorted (s.routes.map fun e => (pmPad e.1, toString e.2))
  let vols := pmSorted ((s.routes.map fun e => (pmPad e.1, "[" ++ pmShowCoins (getVolume s e.1) ++ "]")))
  let pairs := pmSorted (s.cfg.pairs.map fun e => (e.1.1 ++ "|" ++ e.1.2, toString e.2))
  let acc := pmSorted (s.accrued.map fun e => (e.1.1 ++ "|" ++ e.1.2, toString e.2))
  let wl := ",".intercalate s.cfg.whitelist
  let adm := ",".intercalate s.feeAdmins
  let al := ",".intercalate ((s.alloyed.mergeSort fun a b => decide (a ≤ b)).map toString)
  s!"next={s.nextPoolId} default={s.cfg.default} wl=[{wl}] admins=[{adm}] cfee=[{pmShowCoins s.creationFee}] routes=[{routes}] " ++
  s!"pairs=[{pairs}] stakers=[{pmShowCoins s.stakers}] community=[{pmShowCoins s.community}] burn=[{pmShowCoins s.burn}] " ++
  s!"height={s.trackerHeight} volumes=[{vols}] agreements=[{pmShowCoins s.agreements}] alloyed=[{al}] accrued=[{acc}]"

def pmShowOut : PMOut → String
  | .ok => "ok"
  | .err => "err"
  | .id n => s!"ok {n}"

def stepPM (s : PMState) (op : String) (args : List String) : PMState × String :=
  let run (o : PMOp) : PMState × String := let r := pmStep s o; (r.1, pmShowOut r.2)
  match op, args with
  | "reset", [] => (pmInit, "ok")
  | "createpool", [ty] =>
    match ty.toNat? with
    | some ty => run (.createPool ty)
    | none => (s, "bad-op")
  | "params", [d, wl, adm, fee] =>
    match d.toInt?, pmCoins fee with
    | some d, some fee => run (.setParams d (pmCsv wl) (pmCsv adm) fee)
    | _, _ => (s, "bad-op")
  | "pairfee", [sender, d0, d1, f] =>
    match f.toInt? with
    | some f => run (.setPairFee sender d0 d1 f)
    | none => (s, "bad-op")
  | "track", [k, d, x] =>
    match x.toInt? with
    | some x =>
      if k = "s" then run (.track .stakers d x) else if k = "c" then run (.track .community d x)
      else if k = "b" then run (.track .burn d x) else (s, "bad-op")
    | none => (s, "bad-op")
  | "height", [h] =>
    match h.toInt? with
    | some h => run (.setTrackerHeight h)
    | none => (s, "bad-op")
  | "volume", [id, d, x] =>
    match id.toNat?, x.toInt? with
    | some id, some x => run (.volume id d x)
    | _, _ => (s, "bad-op")
  | "agreement", [d, pct] =>
    match pct.toInt? with
    | some pct => run (.setAgreement d pct)
    | none => (s, "bad-op")
  | "alloyed", [id] =>
    match id.toNat? with
    | some id => run (.registerAlloyed id)
    | none => (s, "bad-op")
  | "accrue", [sd, fd, x] =>
    match x.toInt? with
    | some x => run (.accrue sd fd x)
    | none => (s, "bad-op")
  | "exportimport", [] =>
    match pmExportImport s with
    | some t => (t, "ok")
    | none => (s, "panic")
  | "fee", [d0, d1] => (s, s!"ok {getTradingPairTakerFee s.cfg d0 d1}")
  | "dump", [] => (s, pmDump s)
  | _, _ => (s, "bad-op")

end OsmoVerif.Router
