/- line protocol for the `gamm` engine (property C02).

tokens:  account `u<n>` | `p<id>` | `fee` | `comm`;  denom: `gamm/pool/<id>` is the share denom, anything else a token;
coins `d1:a1,d2:a2` (`-` = empty);  a pool-math result is a number / coin list or `E` (the pool model failed).

  reset <nextPoolId>
  fund <u> <denom> <amt>                         harness mint
  takerfee <rawDec> | pairfee <din> <dout> <rawDec> | whitelist <u,u,…|-> | creationfee <coins>
  create <u> <B|S> <coins>
  join <u> <id> <shareOut> <maxs> <sharesOut|E> <joinedCoins>
  joinswapin <u> <id> <denom> <amt> <minShares> <shares|E>
  joinswapout <u> <id> <denom> <shareOut> <maxIn> <tokenIn|E>
  exit <u> <id> <shareIn> <mins> <coins|E>
  exitswapin <u> <id> <dout> <shareIn> <minOut> <coins|E> <m,m,…|->
  exitswapout <u> <id> <dout> <amtOut> <sharesIn|E>
  swapin <u> <din> <amt> <minOut> <pool:dout:math>…
  swapout <u> <maxIn> <dout> <amtOut> <pool:din:est:math>…
  send <u> <acct> <denom> <amt>
  bal <acct> <denom> | supply <denom> | pool <id> | dump
  exportimport                                    -> ok   (gamm ExportGenesis -> InitGenesis, pool-record part)
  totalliq-imported <denom>                       -> Σ over the pool records = GetTotalLiquidity of a node imported now
-/
import OsmoVerif.Model.GammKeeper
import OsmoVerif.Model.GammGenesis
namespace OsmoVerif.Gamm
open OsmoVerif.Ledger

def initGamm : State := {}

def parseAcct (s : String) : Option Acct :=
  if s = "fee" then some .feeCollector
  else if s = "comm" then some .communityPool
  else if s.startsWith "u" then (s.drop 1).toString.toNat?.map Acct.user
  else if s.startsWith "p" then (s.drop 1).toString.toNat?.map Acct.pool
  else none

def parseUser (s : String) : Option Nat :=
  match parseAcct s with
  | some (.user n) => some n
  | _ => none

def sharePrefix : String := "gamm/pool/"

def parseDenom (s : String) : Option Denom :=
  if s.isEmpty then none
  else if s.startsWith sharePrefix then (s.drop sharePrefix.length).toString.toNat?.map Denom.share
  else some (.tok s)

def parseCoins (s : String) : Option Coins :=
  if s = "-" then some [] else
  (s.splitOn ",").mapM fun c =>
    match c.splitOn ":" with
    | [d, a] => do some ((← parseDenom d), (← a.toInt?))
    | _ => none

def parseOptInt (s : String) : Option (Option Int) :=
  if s = "E" then some none else s.toInt?.map some

def parseOptCoins (s : String) : Option (Option Coins) :=
  if s = "E" then some none else (parseCoins s).map some

def parseOptInts (s : String) : Option (List (Option Int)) :=
  if s = "-" then some [] else (s.splitOn ",").mapM parseOptInt

def parseUsers (s : String) : Option (List Nat) :=
  if s = "-" then some [] else (s.splitOn ",").mapM parseUser

def parseHopIn (s : String) : Option HopIn :=
  match s.splitOn ":" with
  | [p, d, m] => do some ⟨← p.toNat?, ← parseDenom d, ← parseOptInt m⟩
  | _ => none

def parseHopOut (s : String) : Option HopOut :=
  match s.splitOn ":" with
  | [p, d, e, m] => do some ⟨← p.toNat?, ← parseDenom d, ← parseOptInt e, ← parseOptInt m⟩
  | _ => none

def showAcct : Acct → String
  | .user n => s!"u{n}"
  | .pool id => s!"p{id}"
  | .feeCollector => "fee"
  | .communityPool => "comm"

def showDenom : Denom → String
  | .tok n => n
  | .share id => s!"{sharePrefix}{id}"

def showCoins (cs : Coins) : String :=
  if cs.isEmpty then "-" else ",".intercalate (cs.map fun c => s!"{showDenom c.1}:{c.2}")

def showKind : Kind → String
  | .balancer => "B"
  | .stableswap => "S"

/-- non-zero entries, sorted by their rendered key. -/
def sortedEntries (l : List (String × Int)) : String :=
  let l := (l.filter fun e => e.2 ≠ 0).mergeSort fun a b => decide (a.1 ≤ b.1)
  " ".intercalate (l.map fun e => s!"{e.1}={e.2}")

def showPool (id : Nat) (p : Pool) : String :=
  s!"{id}:{showKind p.kind}:{p.totalShares}:{showCoins p.reserves}"

def showPools (ps : List (Nat × Pool)) : String :=
  let l := ps.mergeSort fun a b => decide (a.1 ≤ b.1)
  " ".intercalate (l.map fun e => showPool e.1 e.2)

def dump (s : State) : String :=
  let bank := sortedEntries (s.bank.bal.map fun e => (s!"{showAcct e.1.1}/{showDenom e.1.2}", e.2))
  let sup := sortedEntries (s.bank.sup.map fun e => (showDenom e.1, e.2))
  s!"next={s.nextPoolId} bank[{bank}] supply[{sup}] pools[{showPools s.pools}]"

def res (r : Option State) (st : State) (okText : State → String) : State × String :=
  match r with
  | some s' => (s', okText s')
  | none => (st, "err")

def stepGamm (st : State) (op : String) (args : List String) : State × String :=
  let bad : State × String := (st, "bad-op")
  match op, args with
  | "reset", [n] =>
    match n.toNat? with
    | some n => ({ nextPoolId := n }, "ok")
    | none => bad
  | "fund", [u, d, a] =>
    match parseUser u, parseDenom d, a.toInt? with
    | some u, some (.tok n), some a => (applyOp st (.fund u n a), "ok")
    | _, _, _ => bad
  | "takerfee", [f] =>
    match f.toInt? with
    | some f => ({ st with params := { st.params with defaultTakerFee := f } }, "ok")
    | none => bad
  | "pairfee", [a, b, f] =>
    match parseDenom a, parseDenom b, f.toInt? with
    | some a, some b, some f => ({ st with params := setPairFee st.params a b f }, "ok")
    | _, _, _ => bad
  | "whitelist", [us] =>
    match parseUsers us with
    | some us => ({ st with params := { st.params with whitelist := us } }, "ok")
    | none => bad
  | "creationfee", [cs] =>
    match parseCoins cs with
    | some cs => ({ st with params := { st.params with creationFee := cs } }, "ok")
    | none => bad
  | "create", [u, k, cs] =>
    match parseUser u, parseCoins cs with
    | some u, some cs =>
      if k = "B" ∨ k = "S" then
        res (createPool st u (if k = "B" then .balancer else .stableswap) cs) st fun _ => s!"ok {st.nextPoolId}"
      else bad
    | _, _ => bad
  | "join", [u, id, sh, maxs, m, joined] =>
    match parseUser u, id.toNat?, sh.toInt?, parseCoins maxs, parseOptInt m, parseCoins joined with
    | some u, some id, some sh, some maxs, some m, some joined =>
      let needed := (getPool st.pools id).bind fun p => getMaximalNoSwapLPAmount p sh
      res (joinPool st u id sh maxs (m.map fun x => (x, joined))) st fun _ =>
        match m, needed with
        | some x, some n => s!"ok {x} {showCoins n}"
        | _, _ => "ok ?"
    | _, _, _, _, _, _ => bad
  | "joinswapin", [u, id, d, a, ms, m] =>
    match parseUser u, id.toNat?, parseDenom d, a.toInt?, ms.toInt?, parseOptInt m with
    | some u, some id, some d, some a, some ms, some m =>
      res (joinSwapExternAmountIn st u id d a ms m) st fun _ => match m with | some x => s!"ok {x}" | none => "ok ?"
    | _, _, _, _, _, _ => bad
  | "joinswapout", [u, id, d, sh, mx, m] =>
    match parseUser u, id.toNat?, parseDenom d, sh.toInt?, mx.toInt?, parseOptInt m with
    | some u, some id, some d, some sh, some mx, some m =>
      res (joinSwapShareAmountOut st u id d sh mx m) st fun _ => match m with | some x => s!"ok {x}" | none => "ok ?"
    | _, _, _, _, _, _ => bad
  | "exit", [u, id, sh, mins, m] =>
    match parseUser u, id.toNat?, sh.toInt?, parseCoins mins, parseOptCoins m with
    | some u, some id, some sh, some mins, some m =>
      match exitPool st u id sh mins m with
      | some (s', cs) => (s', s!"ok {showCoins cs}")
      | none => (st, "err")
    | _, _, _, _, _ => bad
  | "exitswapin", [u, id, d, sh, mn, m, ms] =>
    match parseUser u, id.toNat?, parseDenom d, sh.toInt?, mn.toInt?, parseOptCoins m, parseOptInts ms with
    | some u, some id, some d, some sh, some mn, some m, some ms =>
      match exitSwapShareAmountIn st u id d sh mn m ms with
      | some (s', t) => (s', s!"ok {t}")
      | none => (st, "err")
    | _, _, _, _, _, _, _ => bad
  | "exitswapout", [u, id, d, a, m] =>
    match parseUser u, id.toNat?, parseDenom d, a.toInt?, parseOptInt m with
    | some u, some id, some d, some a, some m =>
      res (exitSwapExternAmountOut st u id d a m) st fun _ => match m with | some x => s!"ok {x}" | none => "ok ?"
    | _, _, _, _, _ => bad
  | "swapin", u :: d :: a :: mn :: hops =>
    match parseUser u, parseDenom d, a.toInt?, mn.toInt?, hops.mapM parseHopIn with
    | some u, some d, some a, some mn, some hops =>
      match routeExactAmountIn st u d a mn hops with
      | some (s', out) => (s', s!"ok {out}")
      | none => (st, "err")
    | _, _, _, _, _ => bad
  | "swapout", u :: mx :: d :: a :: hops =>
    match parseUser u, mx.toInt?, parseDenom d, a.toInt?, hops.mapM parseHopOut with
    | some u, some mx, some d, some a, some hops =>
      match routeExactAmountOut st u mx d a hops with
      | some (s', tin) => (s', s!"ok {tin}")
      | none => (st, "err")
    | _, _, _, _, _ => bad
  | "send", [u, to, d, a] =>
    match parseUser u, parseAcct to, parseDenom d, a.toInt? with
    | some u, some to, some d, some a => res (bankSend st u to d a) st fun _ => "ok"
    | _, _, _, _ => bad
  | "bal", [a, d] =>
    match parseAcct a, parseDenom d with
    | some a, some d => (st, s!"{st.bal a d}")
    | _, _ => bad
  | "supply", [d] =>
    match parseDenom d with
    | some d => (st, s!"{st.supply d}")
    | none => bad
  | "pool", [id] =>
    match id.toNat? with
    | some id =>
      match getPool st.pools id with
      | some p => (st, showPool id p)
      | none => (st, "none")
    | none => bad
  | "dump", [] => (st, dump st)
  -- C19: x/gamm ExportGenesis -> gamm store wiped -> InitGenesis (Model/GammGenesis) as far as this engine's state goes (pool records:
  -- reproduced entry by entry when the ids are distinct; bank / poolmanager state is not gamm's).  The recomputed total-liquidity store
  -- lives in the layered state of `DrvGammG` (`gammg exportimport`, `gammg totalliq`).
  | "exportimport", [] => ((gammExportImport { core := st }).core, "ok")
  -- what a node imported NOW would report as total liquidity (Σ over the pool records) vs. nothing else: a pure query
  | "totalliq-imported", [d] =>
    match parseDenom d with
    | some d => (st, s!"{(gammExportImport { core := st }).liquidity d}")
    | none => bad
  | _, _ => bad

end OsmoVerif.Gamm
