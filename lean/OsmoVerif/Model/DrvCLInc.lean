/- line protocol for the `cl` (app) engine: pool + spread rewards (`DrvCLFees`) + uptime incentives (`Model/CLInc.lean`).
Same op lines and answers as `DrvCLFees`; new: `incentive <id> <denom> <amount> <rate> <startNs> <uptimeIdx>`,
`advance <ns>`, `sync`, `icollect <sender> <id>`, `idump` (accumulators, tick trackers, incentive records, position
uptime records, claimable incentives, incentive balances); `reset` takes two more optional arguments (incentive scaling
factor, bit mask of the authorised uptimes). -/
import OsmoVerif.Model.CLInc
import OsmoVerif.Model.CLFullGenesis
import OsmoVerif.Model.DrvCLFees
namespace OsmoVerif.CLInc
open OsmoVerif.CL OsmoVerif.CLPool OsmoVerif.CLFees

def initCLInc : Full := { fees := initCLFees }

def showDC (c : List (String × Int)) : String :=
  if c.isEmpty then "-" else "+".intercalate (c.map fun x => s!"{x.1}={x.2}")

def showRecs (s : Full) (id : Nat) : String :=
  ";".intercalate ((List.range 6).map fun i =>
    match (s.inc.accs[i]?).bind fun a => getURec a.recs id with
    | some r => s!"{i}:{r.shares}:{showDC r.snap}:{showDC r.unclaimed}"
    | none => s!"{i}:none")

def dumpInc (s : Full) : String :=
  let as := " ".intercalate ((List.range 6).map fun i =>
    match s.inc.accs[i]? with
    | some a => s!"{i}:{a.total}:{showDC a.value}"
    | none => s!"{i}:?")
  let ts := " ".intercalate (s.inc.trackers.map fun t => s!"{t.1}:" ++ "|".intercalate (t.2.map showDC))
  let is := " ".intercalate (s.inc.records.map fun r => s!"{r.id}:{r.uptime}:{r.denom}:{r.remaining}")
  let rs := " ".intercalate (s.fees.pool.positions.map fun q => s!"{q.id}>{showRecs s q.id}")
  let cs := " ".intercalate (s.fees.pool.positions.map fun q =>
    match claimableIncentives s q.id with
    | some (c, f) => s!"{q.id}:{showDC c}/{showDC f}"
    | none => s!"{q.id}:err")
  s!"ok now={s.inc.now} last={s.inc.last} A[{as}] T[{ts}] I[{is}] R[{rs}] C[{cs}] B[{showDC s.inc.bal}]"

def stepCLInc (s : Full) (op : String) (args : List String) : Full × String :=
  match op, args with
  | "reset", spacing :: spf :: scale :: rest =>
    match ints [spacing, spf, scale], ints rest with
    | some [spacing, spf, scale], some [] => ({ fees := { pool := { spacing := spacing, spf := spf, scale := scale } } }, "ok")
    | some [spacing, spf, scale], some [factor, auth] =>
      ({ fees := { pool := { spacing := spacing, spf := spf, scale := scale } }, inc := { factor := factor, authorized := auth.toNat } }, "ok")
    | _, _ => (s, "bad-op")
  | "create", [owner, lower, upper, a0, a1] =>
    match ints [lower, upper, a0, a1] with
    | some [lower, upper, a0, a1] =>
      match createPosition s owner lower upper a0 a1 with
      | some (s', id, x0, x1, liq, lo, up) => (s', s!"ok id={id} a0={x0} a1={x1} liq={liq} lower={lo} upper={up}")
      | none => (s, "err")
    | _ => (s, "bad-op")
  | "withdraw", [owner, id, liq] =>
    match id.toNat?, liq.toInt? with
    | some id, some liq =>
      match withdrawPosition s owner id liq with
      | some (s', x0, x1) => (s', s!"ok a0={x0} a1={x1}")
      | none => (s, "err")
    | _, _ => (s, "bad-op")
  | "add", [owner, id, a0, a1] =>
    match id.toNat?, ints [a0, a1] with
    | some id, some [a0, a1] =>
      match addToPosition s owner id a0 a1 with
      | some (s', nid, x0, x1) => (s', s!"ok id={nid} a0={x0} a1={x1}")
      | none => (s, "err")
    | _, _ => (s, "bad-op")
  | "transfer", [sender, id, newOwner] =>
    match id.toNat? with
    | some id =>
      match transferPosition s sender id newOwner with
      | some s' => (s', "ok")
      | none => (s, "err")
    | none => (s, "bad-op")
  | "swap", [ogi, zfo, specified] =>
    match bool? ogi, bool? zfo, specified.toInt? with
    | some ogi, some zfo, some specified =>
      match swap s ogi zfo specified with
      | some (s', ain, aout, fee) => (s', s!"ok in={ain} out={aout} fee={fee}")
      | none => (s, "err")
    | _, _, _ => (s, "bad-op")
  | "collect", [sender, id] =>
    match id.toNat? with
    | some id =>
      match collectSpread s sender id with
      | some (s', c0, c1) => (s', s!"ok c0={c0} c1={c1}")
      | none => (s, "err")
    | none => (s, "bad-op")
  | "icollect", [sender, id] =>
    match id.toNat? with
    | some id =>
      match collectIncentives s sender id with
      | some (s', c, f) => (s', s!"ok c={showDC c} f={showDC f}")
      | none => (s, "err")
    | none => (s, "bad-op")
  | "incentive", [id, denom, amount, rate, start, uptime] =>
    match id.toNat?, ints [amount, rate, start], uptime.toNat? with
    | some id, some [amount, rate, start], some uptime =>
      match createIncentive s id denom amount rate start uptime with
      | some s' => (s', "ok")
      | none => (s, "err")
    | _, _, _ => (s, "bad-op")
  | "advance", [ns] =>
    match ns.toInt? with
    | some ns => (advance s ns, "ok")
    | none => (s, "bad-op")
  | "sync", [] =>
    match syncNow s with
    | some s' => (s', "ok")
    | none => (s, "err")
  | "idump", [] => (s, dumpInc s)
  | "fdump", [] => (s, dumpFees s.fees)
  | "est", _ => let r := stepCLPool s.fees.pool op args; (s, r.2)
  | "dump", [] => (s, dumpPool s.fees.pool)
  -- genesis export → import of the module over the WHOLE layered state (Model/CLFullGenesis: pool, ticks with growth-outside and
  -- uptime trackers, spread-reward and uptime accumulators with the records of the live positions, incentive records, join times);
  -- `panic` = ExportGenesis finds no accumulator record for a live position.  Props/C19CL.
  | "exportimport", [] =>
    match exportImportFull s with
    | some s' => (s', "ok")
    | none => (s, "panic")
  | "nextid", [] => let r := stepCLPool s.fees.pool op args; (s, r.2)
  | "setnextid", [_] => let r := stepCLPool s.fees.pool op args; ({ s with fees := { s.fees with pool := r.1 } }, r.2)
  -- F41: what `GetFullRangeLiquidityInPool` answers on a node imported NOW (Σ liquidity of the full-range positions); the running
  -- chain's record (it follows `SetPosition`) lives in the layered state `FullG` of Model/CLFullGenesis, not in this engine's state
  | "fullrange-imported", [] => (s, s!"ok {sumFullRange (sortPosById s.fees.pool.positions)}")
  | _, _ => (s, "bad-op")

end OsmoVerif.CLInc
