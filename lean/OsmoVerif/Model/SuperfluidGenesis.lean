/-
Genesis export / import of x/superfluid (keeper/genesis.go) over the model of `Model/Superfluid.lean`.  Core only.

* `ExportGenesis` = `{Params, SuperfluidAssets, OsmoEquivalentMultipliers, IntermediaryAccounts,
  IntemediaryAccountConnections}`, each the full content of one prefix of the module's store.  NOT exported: the
  unpool whitelist (`KeyUnpoolAllowedPools`, outside this model).
* `InitGenesis` writes the five parts back; for every connection it loads the intermediary account and PANICS
  ("connection to invalid intermediary account found") when the account is not in the imported list.
* Everything else the model's `State` carries (locks, synthetic locks, their accumulation stores, delegations, supply,
  the gauge counter, validators, the clock) is the genesis of x/lockup, x/staking, x/bank, x/incentives: `initGenesis`
  starts from a state that already holds it.
* The model keeps multipliers and connections as total functions (`0` / `none` = no entry); a document lists their
  entries: multipliers of the denominations `< nDenoms` with a non-zero value (the code also keeps explicit zero
  entries; `GetOsmoEquivalentMultiplier` answers 0 for both), connections of the lock ids `≤ lastLockId`.
  The epoch number stored with every multiplier is not modelled.
-/
import OsmoVerif.Model.Superfluid
namespace OsmoVerif.Superfluid

structure Genesis where
  riskFactor : Int
  assets : List Nat
  mults : List (Nat × Int)
  accs : List (AccKey × Nat)
  conns : List (Nat × AccKey)
  deriving DecidableEq, Repr

def exportGenesis (nDenoms : Nat) (s : State) : Genesis :=
  { riskFactor := s.riskFactor, assets := s.assets,
    mults := (List.range nDenoms).filterMap fun d => if s.mult d = 0 then none else some (d, s.mult d),
    accs := s.accs,
    conns := (List.range (s.lastLockId + 1)).filterMap fun id => (s.conns id).map fun k => (id, k) }

/-- `SetIntermediaryAccount`: keyed by the account's address (= its denom / validator pair). -/
def setAcc : List (AccKey × Nat) → AccKey × Nat → List (AccKey × Nat)
  | [], a => [a]
  | (k, g) :: r, a => if k = a.1 then a :: r else (k, g) :: setAcc r a

/-- the connection loop of `InitGenesis` (`none` = panic). -/
def setConns (s : State) : List (Nat × AccKey) → Option State
  | [] => some s
  | (id, k) :: r =>
    match findAcc s.accs k with
    | none => none
    | some _ => setConns { s with conns := upd s.conns id (some k) } r

/-- the superfluid store emptied, everything that belongs to other modules kept. -/
def freshOf (s : State) : State :=
  { s with riskFactor := 0, assets := [], mult := fun _ => 0, accs := [], conns := fun _ => none }

/-- `InitGenesis` (`none` = panic). -/
def initGenesis (fresh : State) (g : Genesis) : Option State :=
  setConns { fresh with riskFactor := g.riskFactor, assets := g.assets,
                        mult := g.mults.foldl (fun m p => upd m p.1 p.2) (fun _ => 0),
                        accs := g.accs.foldl setAcc [] } g.conns

def exportImport (nDenoms : Nat) (s : State) : Option State := initGenesis (freshOf s) (exportGenesis nDenoms s)

end OsmoVerif.Superfluid
