/-
Model of x/twap.  First part, for ONE (pool, asset pair): record creation, end-of-block record update,
accumulator interpolation, record lookup, arithmetic / geometric TWAP, pruning, the spot-price
error-time rule.  (logic.go, api.go, strategy.go, store.go, types/utils.go.)  Last part (`World`): the module
state of several pools and pairs — `afterCreatePool`, `updateRecords` (pairs of a pool in most-recent-key
order, stops at the first rejected pair), `Keeper.EndBlock`'s loop over the changed pools (logs an error and
continues), pruning pair by pair.  The byte layout of the store keys is in Spec/TwapKeys.lean.

Units (mirroring the code):
* a `time.Time` is the instant in **nanoseconds** since the Unix epoch (`Int`); the zero `time.Time{}`
  ("no previous error") is `zeroTime`.  Equality / ordering of instants is on nanoseconds
  (`Time.Equal`, `Time.After`), every accumulator delta is on `CanonicalTimeMs` = `UnixMilli`
  = ⌊ns / 10^6⌋.  Domain assumption: record / query times are representable by `UnixNano`
  (years 1678..2262) so that Go's `int64` milliseconds and the sortable 9-digit time keys agree with
  the integers used here; the engine only generates such times.
* spot prices, accumulators, TWAPs are raw 18-decimal `Dec`s; what a pool reports is a raw
  36-decimal `BigDec` or an error.
* the spot prices of a block are INPUTS (what `RouteCalculateSpotPrice` returned at the end of the block).

`Res`: `ok` / `err` (a Go error return) / `panic`.  Nothing is totalised.  Core only.
-/
import OsmoVerif.Model.Math
import OsmoVerif.Gen.Twap

namespace OsmoVerif.Twap
open OsmoVerif.Num OsmoVerif.Gen

inductive Res (α : Type) where
  | ok : α → Res α
  | err : Res α
  | panic : Res α
  deriving Repr, DecidableEq

/-- lift an arithmetic `Option` (`none` = Go panic). -/
def Res.ofOpt {α : Type} : Option α → Res α
  | some a => .ok a
  | none => .panic

def Res.bind {α β : Type} (r : Res α) (f : α → Res β) : Res β :=
  match r with
  | .ok a => f a
  | .err => .err
  | .panic => .panic

/-- `time.Time{}` as nanoseconds since the Unix epoch. -/
def zeroTime : Int := Twap.zeroTimeUnixSec * Twap.nsPerSec

/-- `types.CanonicalTimeMs`: `t.Round(0).UnixMilli()` = ⌊ns / 10^6⌋ (floor also before 1970:
`UnixMilli` is `sec·1000 + nsec/10^6` with `0 ≤ nsec`). -/
def canonicalMs (t : Int) : Int := t / Twap.nsPerMs

structure TwapRecord where
  time : Int      -- ns
  height : Int
  sp0 : Int       -- P0LastSpotPrice, raw Dec
  sp1 : Int       -- P1LastSpotPrice
  acc0 : Int      -- P0ArithmeticTwapAccumulator
  acc1 : Int      -- P1ArithmeticTwapAccumulator
  geom : Int      -- GeometricTwapAccumulator
  lastErr : Int   -- LastErrorTime, ns (`zeroTime` = never)
  deriving Repr, DecidableEq

/-! ### spot prices (logic.go `getSpotPrices`) -/

/-- what `RouteCalculateSpotPrice` returned for one direction: the value (`none` = the empty
`BigDec{}`; the pool manager returns it together with every error) and whether an error came with it. -/
structure PoolPrice where
  val : Option Int   -- raw BigDec
  err : Bool
  deriving Repr, DecidableEq

/-- `getSpotPrices`: an error in either direction sets the error time to the block time and replaces
empty value(s) by zero; a value above `MaxSpotPriceBigDec` is clamped and also sets the error time;
finally `BigDec.Dec()` truncates to 18 decimals.  Returns `(sp0, sp1, latestErrTime)`.
`none`: an empty value without any error is compared with `GT` (nil dereference). -/
def getSpotPrices (q0 q1 : PoolPrice) (prevErr now : Int) : Option (Int × Int × Int) :=
  let anyErr : Bool := q0.err || q1.err
  let e0 : Int := if anyErr then now else prevErr
  let fill : Option Int → Option Int := fun v => match v with
    | some x => some x
    | none => if anyErr then some 0 else none
  match fill q0.val, fill q1.val with
  | some b0, some b1 =>
    let (c0, e1) := if b0 > Twap.MaxSpotPriceBigDec then (Twap.MaxSpotPriceBigDec, now) else (b0, e0)
    let (c1, e2) := if b1 > Twap.MaxSpotPriceBigDec then (Twap.MaxSpotPriceBigDec, now) else (b1, e1)
    some (c0.tdiv Pdiff, c1.tdiv Pdiff, e2)
  | _, _ => none

/-- `newTwapRecord` with the given spot-price outcome (accumulators zero, no previous error). -/
def newRecord (now height : Int) (sp0 sp1 : Int) (errNow : Bool) : TwapRecord :=
  { time := now, height := height, sp0 := sp0, sp1 := sp1, acc0 := 0, acc1 := 0, geom := 0,
    lastErr := if errNow then now else zeroTime }

/-! ### accumulators (logic.go) -/

/-- `twapLog`: `BigDecFromDec(price).LogBase2().Dec()`; panics on zero (and on a negative price,
inside `LogBase2`). -/
def twapLog (price : Int) : Option Int :=
  if price = 0 then none else (MathM.logBase2 (price * Pdiff)).map fun l => l.tdiv Pdiff

/-- `recordWithUpdatedAccumulators(record, newTime)`: `SpotPriceMulDuration` = `Dec.MulInt64`,
`AddMut`; with a zero `P0LastSpotPrice` the geometric accumulator is left alone and the error time
is moved to `newTime`. -/
def interp (r : TwapRecord) (newTime : Int) : Option TwapRecord :=
  if r.time = newTime then some r else
  let dt := canonicalMs newTime - canonicalMs r.time
  match (Dec.mulInt r.sp0 dt).bind (fun x => Dec.add x r.acc0),
        (Dec.mulInt r.sp1 dt).bind (fun x => Dec.add x r.acc1) with
  | some a0, some a1 =>
    if r.sp0 = 0 then
      some { r with time := newTime, acc0 := a0, acc1 := a1, lastErr := newTime }
    else
      match (twapLog r.sp0).bind (fun l => Dec.mulInt l dt) |>.bind (fun x => Dec.add x r.geom) with
      | some g => some { r with time := newTime, acc0 := a0, acc1 := a1, geom := g }
      | none => none
  | _, _ => none

/-- `updateRecord` for block `(now, height)` given the end-of-block spot prices `sp0 sp1` and whether
`getSpotPrices` moved the error time to `now` (`errNow`).  `err` = `InvalidUpdateRecordError`. -/
def updateRecord (r : TwapRecord) (now height : Int) (sp0 sp1 : Int) (errNow : Bool) : Res TwapRecord :=
  if (r.height = height ∨ r.time = now) ∧ r.acc1 ≠ 0 ∧ r.acc0 ≠ 0 then .err
  else if r.height > height ∨ r.time > now then .err
  else match interp r now with
    | none => .panic
    | some n =>
      -- NB the error time is recomputed from the OLD record's error time (the one `interp` may
      -- have set for a zero price is overwritten).
      .ok { n with height := height, sp0 := sp0, sp1 := sp1, lastErr := if errNow then now else r.lastErr }

/-! ### the two stores (store.go) -/

/-- `hist`: the historical index for the pair, ascending by time key, one record per time;
`recent`: the separate most-recent-record entry. -/
structure Store where
  hist : List TwapRecord := []
  recent : Option TwapRecord := none
  deriving Repr, DecidableEq

/-- `StoreHistoricalTWAP`: set under the time key (overwrites a record with the same time). -/
def insertRec : List TwapRecord → TwapRecord → List TwapRecord
  | [], x => [x]
  | r :: rs, x =>
    if x.time < r.time then x :: r :: rs
    else if x.time = r.time then x :: rs
    else r :: insertRec rs x

def storeNewRecord (s : Store) (r : TwapRecord) : Store :=
  { hist := insertRec s.hist r, recent := some r }

/-- `getRecordAtOrBeforeTime`: reverse iteration from the key of `t`; on the (ascending) index this
is the last record with `time ≤ t`. -/
def recAtOrBefore : List TwapRecord → Int → Option TwapRecord
  | [], _ => none
  | r :: rs, t =>
    if r.time ≤ t then
      match recAtOrBefore rs t with
      | some x => some x
      | none => some r
    else none

/-- `pruneRecordsBeforeTimeButNewest` for this pair, run to completion (the code spreads the
deletions over blocks, `NumRecordsToPrunePerBlock` at a time): of the records with time key strictly
before `lastKept` only the newest survives.  On the ascending index: drop the head while its
successor is also older than `lastKept`. -/
def pruneHist : List TwapRecord → Int → List TwapRecord
  | r :: r' :: rs, lastKept => if r'.time < lastKept then pruneHist (r' :: rs) lastKept else r :: r' :: rs
  | h, _ => h

def prune (s : Store) (lastKept : Int) : Store := { s with hist := pruneHist s.hist lastKept }

/-- pool creation: `afterCreatePool` stores the new record. -/
def create (s : Store) (now height sp0 sp1 : Int) (errNow : Bool) : Store :=
  storeNewRecord s (newRecord now height sp0 sp1 errNow)

/-- `updateRecords` (one pair) at the end of a block: `err` when there is no most recent record or
the update is invalid (EndBlock logs it and leaves the state alone). -/
def update (s : Store) (now height sp0 sp1 : Int) (errNow : Bool) : Res Store :=
  match s.recent with
  | none => .err
  | some r => (updateRecord r now height sp0 sp1 errNow).bind fun n => .ok (storeNewRecord s n)

/-! ### queries (api.go, logic.go, strategy.go) -/

/-- `getInterpolatedRecord`: a record whose own time is its error time passes the error on. -/
def getInterpolatedRecord (s : Store) (now t : Int) : Res TwapRecord :=
  match recAtOrBefore s.hist t with
  | none =>
    -- `getRecordAtOrBeforeTime` diagnoses the miss with `getMostRecentRecord` (which interpolates
    -- to the block time and can therefore panic) and returns an error either way.
    match s.recent with
    | none => .err
    | some r => match interp r now with
      | none => .panic
      | some _ => .err
  | some r =>
    let r' := if r.time = r.lastErr then { r with lastErr := t } else r
    Res.ofOpt (interp r' t)

/-- `getMostRecentRecord` / `GetBeginBlockAccumulatorRecord`. -/
def getMostRecentRecord (s : Store) (now : Int) : Res TwapRecord :=
  match s.recent with
  | none => .err
  | some r => Res.ofOpt (interp r now)

inductive Strategy where
  | arithmetic
  | geometric
  deriving Repr, DecidableEq

/-- `arithmetic.computeTwap` on an accumulator difference: `AccumDiffDivDuration` = `QuoInt64`
(truncated; division by a zero millisecond delta panics). -/
def arithFromDiff (diff dtMs : Int) : Option Int := Dec.quoInt diff dtMs

/-- the closing computation of `geometric.computeTwap` on the mean exponent: `2^|exponent|`, inverted
when (exponent < 0 and quote = asset0) or (exponent ≥ 0 and quote = asset1), `Dec()`,
`SigFigRound(·, SpotPriceSigFigs)`. -/
def geomFinish (q0 : Bool) (exponent : Int) : Option Int :=
  (MathM.exp2 ((exponent.natAbs : Int) * Pdiff)).bind fun result =>
  let neg : Bool := exponent < 0
  (if (neg && q0) || (!neg && !q0) then BigDec.quo P36 result else some result).bind fun result' =>
  MathM.sigFigRound (result'.tdiv Pdiff) Twap.SpotPriceSigFigs

/-- `geometric.computeTwap` on the accumulator difference: a zero difference returns zero; otherwise the
exponent is `AccumDiffDivDuration` (`QuoInt64`, truncated; a zero millisecond delta panics). -/
def geomFromDiff (q0 : Bool) (diff dtMs : Int) : Option Int :=
  if diff = 0 then some 0 else (Dec.quoInt diff dtMs).bind (geomFinish q0)

def strategyTwap (st : Strategy) (a b : TwapRecord) (q0 : Bool) : Option Int :=
  let dt := canonicalMs b.time - canonicalMs a.time
  match st with
  | .arithmetic =>
    (if q0 then Dec.sub b.acc0 a.acc0 else Dec.sub b.acc1 a.acc1).bind fun d => arithFromDiff d dt
  | .geometric => (Dec.sub b.geom a.geom).bind fun d => geomFromDiff q0 d dt

/-- the error flag of `computeTwap`. -/
def errFlag (a b : TwapRecord) : Bool := b.lastErr ≥ a.time || a.lastErr = a.time

/-- `computeTwap(startRecord, endRecord, quoteAsset, strategy)`: value and "error in pool spot
price occurred" flag (the Go function returns the value together with a non-nil error). -/
def computeTwap (a b : TwapRecord) (q0 : Bool) (st : Strategy) : Res (Int × Bool) :=
  let flag := errFlag a b
  if b.time - a.time = 0 then .ok (if q0 then b.sp0 else b.sp1, flag)
  else (Res.ofOpt (strategyTwap st a b q0)).bind fun v => .ok (v, flag)

/-- `getTwapToNow`. -/
def getTwapToNow (s : Store) (now start : Int) (q0 : Bool) (st : Strategy) : Res (Int × Bool) :=
  if start > now then .err else
  (getInterpolatedRecord s now start).bind fun a =>
  (getMostRecentRecord s now).bind fun b => computeTwap a b q0 st

/-- `getTwap` at block time `now`. -/
def getTwap (s : Store) (now start end_ : Int) (q0 : Bool) (st : Strategy) : Res (Int × Bool) :=
  if start > end_ then .err
  else if end_ = now then getTwapToNow s now start q0 st
  else if end_ > now then .err
  else
    (getInterpolatedRecord s now start).bind fun a =>
    (getInterpolatedRecord s now end_).bind fun b => computeTwap a b q0 st

/-! ### several pools and pairs: `EndBlock`, `updateRecords`, `afterCreatePool`, pruning over all pairs

The module's state is one `Store` per (pool, denom0, denom1).  The byte layout of the store keys is abstracted
(the keys are structured); what is kept of it is the ORDER in which `updateRecords` visits the most recent
records of a pool, because the loop returns at the first rejected pair and what it stored before stays
(`EndBlock` does not run on a cache context). -/

structure PairKey where
  pool : Nat
  d0 : String
  d1 : String
  deriving Repr, DecidableEq

/-- association list, at most one entry per key (only `get` / `set` touch it). -/
abbrev World := List (PairKey × Store)

def World.get : World → PairKey → Option Store
  | [], _ => none
  | (k', s) :: rest, k => if k' = k then some s else World.get rest k

def World.set : World → PairKey → Store → World
  | [], k, s => [(k, s)]
  | (k', s') :: rest, k, s => if k' = k then (k, s) :: rest else (k', s') :: World.set rest k s

/-- what `getSpotPrices` returned for one pair at the end of the block (an input, as for one pair). -/
structure PairInput where
  key : PairKey
  sp0 : Int
  sp1 : Int
  errNow : Bool
  deriving Repr, DecidableEq

/-- `afterCreatePool`: a new record for every unique pair of the pool's denoms. -/
def createPairs (w : World) (now height : Int) : List PairInput → World
  | [] => w
  | i :: is =>
    let s := match w.get i.key with
      | some s => s
      | none => {}
    createPairs (w.set i.key (create s now height i.sp0 i.sp1 i.errNow)) now height is

/-- `FormatMostRecentTWAPKey` without its per-pool prefix (`recent_twap|<pool, 20 digits>|`):
`GetAllMostRecentTwapsForPool` iterates one pool's most recent records in the byte order of this string
(ASCII denoms: byte order = `String` order).  NB with the separator above every denom character a denom
sorts AFTER its own extensions here (`"uusdc|x" < "uusd|x"`). -/
def recentSuffix (k : PairKey) : String := k.d0 ++ Twap.KeySeparator ++ k.d1

def insertByRecentKey (x : PairInput) : List PairInput → List PairInput
  | [] => [x]
  | y :: ys => if recentSuffix x.key < recentSuffix y.key then x :: y :: ys else y :: insertByRecentKey x ys

def sortByRecentKey (l : List PairInput) : List PairInput := l.foldr insertByRecentKey []

/-- the loop of `updateRecords`: `some (w', failed)`; `none` = a panic escapes (the block fails). -/
def updateRecordsLoop (now height : Int) : World → List PairInput → Option (World × Bool)
  | w, [] => some (w, false)
  | w, i :: is =>
    match w.get i.key with
    | none => some (w, true)
    | some s =>
      match update s now height i.sp0 i.sp1 i.errNow with
      | .ok s' => updateRecordsLoop now height (w.set i.key s') is
      | .err => some (w, true)
      | .panic => none

/-- `updateRecords(poolId)`.  `inputs`: one entry per unique pair of the denoms `RouteGetPoolDenoms` reports.
`GetAllMostRecentRecordsForPoolWithDenoms` fails when the (only) pair of a two-denom pool has no most recent
record; for more denoms the number of stored most recent records must be `n(n-1)/2`
(`InvalidRecordCountError`) — both: every pair has its most recent record (`hasRecent`). -/
def hasRecent (w : World) (k : PairKey) : Bool :=
  match w.get k with
  | some s => s.recent.isSome
  | none => false

def updateRecords (w : World) (now height : Int) (inputs : List PairInput) : Option (World × Bool) :=
  if inputs.all (fun i => hasRecent w i.key) then
    updateRecordsLoop now height w (sortByRecentKey inputs)
  else some (w, true)

/-- one changed pool of a block with the end-of-block prices of its pairs. -/
structure PoolInput where
  pool : Nat
  pairs : List PairInput
  deriving Repr, DecidableEq

/-- the record half of `Keeper.EndBlock`: the changed pools in the order of the transient store; an error
of one pool is logged and the loop CONTINUES with the next pool.  `none` = a panic escapes. -/
def endBlock (now height : Int) : World → List PoolInput → Option World
  | w, [] => some w
  | w, p :: ps =>
    match updateRecords w now height p.pairs with
    | none => none
    | some (w', _) => endBlock now height w' ps

/-- the pass on ONE pair (the inner loop of `pruneRecordsBeforeTimeButNewest`: the reverse range scan from
the pair's prefix up to the key of `lastKept`). -/
def prunePair (w : World) (k : PairKey) (lastKept : Int) : World :=
  match w.get k with
  | some s => w.set k (prune s lastKept)
  | none => w

/-- a completed pruning pass (`pruneRecordsBeforeTimeButNewest` over every pool and pair): every pair's
index is pruned on its own range. -/
def pruneWorld (w : World) (lastKept : Int) : World := w.map fun p => (p.1, prune p.2 lastKept)

/-- a query on one pair; a pair without records answers with an error. -/
def getTwapW (w : World) (k : PairKey) (now start end_ : Int) (q0 : Bool) (st : Strategy) : Res (Int × Bool) :=
  match w.get k with
  | none => .err
  | some s => getTwap s now start end_ q0 st

end OsmoVerif.Twap
