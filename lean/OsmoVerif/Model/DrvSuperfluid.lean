/- line protocol of the `superfluid` engine (C11).

All integers decimal; times are seconds on the engine's clock (block time − history start + 1), durations
seconds, Decs raw 18-decimal integers; owners / denoms / validators are small indexes chosen by the engine.

  reset <now> <unbondingTime> <riskFactor> <supply> <offset> <lastGauge> <lastLockId> v=<i,…> a=<denom:mult,…> d=<denom,…> k=<tokens:shares,…> p=<powerReduction>
        new history; `a` = superfluid assets with their current multiplier, `d` = every denom index in use,
        `k` = tokens and delegator shares (raw Dec) of validator 0, 1, …; `p` = StakingKeeper.PowerReduction, which has
        to be the SDK constant the model carries (`powerReduction`), else the line is refused
  lock <owner> <denom> <amount> <duration> <single 0|1>     LockupKeeper.CreateLock            -> ok <id>
  addtolock <sender> <id> <amount>                           LockupKeeper.AddTokensToLockByID
  delegate <sender> <id> <val>                               MsgSuperfluidDelegate
  undelegate <sender> <id>                                   MsgSuperfluidUndelegate
  unbond <sender> <id>                                       MsgSuperfluidUnbondLock
  undelunbond <sender> <id> <amount>                         MsgSuperfluidUndelegateAndUnbondLock -> ok <id>
  beginunlock <sender> <id> <amount|->                       lockup MsgBeginUnlocking           -> ok <id>
  withdraw <id>                                              DeleteAllMaturedSyntheticLocks; UnlockMaturedLock(id)
  endblock                                                   DeleteAllMaturedSyntheticLocks; WithdrawMaturedLocks
  advance <dt>                                               block time += dt
  exportimport                                               ExportGenesis; superfluid store wiped; InitGenesis
  epoch <denom>:<osmo backing>:<raw Dec of share supply | full-range liquidity>:<l|c> … [o=<d.v,…>]   SuperfluidKeeper.AfterEpochStartBeginBlock
                                                             (o = the order in which GetAllIntermediaryAccounts iterates)
                                                             (l = classic pool shares, c = concentrated full-range shares)
  slash <val> <TokensFromConsensusPower(power)> <fraction raw Dec> x=<id,…>   StakingKeeper.Slash at the current height -> ok <burnt>
                                                             (x = locks of concentrated shares without a position mapped to them)
  slashrefill <val> <TokensFromConsensusPower(power)> <fraction raw Dec> x=<id,…> t=<id:amount,…>
                                                             StakingKeeper.Slash taking ALL tokens of the validator, then
                                                             LockupKeeper.AddTokensToLockByID(id, amount) by the owner for
                                                             every lock the slash emptied -> ok <burnt>

result line:  <ok [id] | err:<class> | panic> vl=[val:tokens:shares,…] st=[d.v=stake/shares,…] cn=[id>d.v,…] sy=[id:b|u:d.v:end:dur,…]
              (stake = TokensFromShares(delegation shares).TruncateInt(), shares raw Dec)
              lk=[id:owner:denom:amount:single:dur:end,…] ac=[d.v:gauge,…] m=[denom:mult,…] sup=<supply> off=<offset> rep=<supply with offset>
(every state-changing call runs in a cache context that is written back only on success) -/
import OsmoVerif.Model.SuperfluidStaking
import OsmoVerif.Model.SuperfluidGenesis
namespace OsmoVerif.Superfluid

structure DrvState where
  s : State := { now := 0, unbondingTime := 0, riskFactor := 0, validators := [], assets := [], mult := fun _ => 0,
                 locks := fun _ => none, lastLockId := 0, synths := fun _ => [], conns := fun _ => none, accs := [],
                 lastGauge := 0, accum := fun _ => [], deleg := fun _ => none, supply := 0, offset := 0 }
  k : Stk := { val := fun _ => { tokens := 0, shares := 0 }, dsh := fun _ => none }
  denoms : List Nat := []

def initSuperfluid : DrvState := {}

def DrvState.ss (d : DrvState) : SState := { b := d.s, k := d.k }

def keyStr (k : AccKey) : String := s!"{k.1}.{k.2}"
def optTime : Option Int → String
  | none => "-"
  | some t => toString t

def keyLe (a b : AccKey × Nat) : Bool := a.1.1 < b.1.1 || (a.1.1 == b.1.1 && a.1.2 ≤ b.1.2)

def showState (d : DrvState) : String :=
  let s := d.s
  let accs := s.accs.mergeSort keyLe
  let ids := (List.range s.lastLockId).map (· + 1)
  let st := accs.filterMap fun (k, _) => match d.k.dsh k with
    | some x =>
      let tk := match (d.k.val k.2).stakeTrunc x with
        | some t => toString t
        | none => "?"
      some s!"{keyStr k}={tk}/{x}"
    | none => none
  let vl := s.validators.map fun i => s!"{i}:{(d.k.val i).tokens}:{(d.k.val i).shares}"
  let cn := ids.filterMap fun i => (s.conns i).map fun k => s!"{i}>{keyStr k}"
  let sy := (ids.map fun i => (s.synths i).map fun x =>
    let kd := match x.kind with | .bonding => "b" | .unbonding => "u"
    s!"{i}:{kd}:{keyStr x.key}:{optTime x.endTime}:{x.duration}").flatten
  let lk := ids.filterMap fun i => (s.locks i).map fun l =>
    s!"{i}:{l.owner}:{l.denom}:{l.amount}:{if l.single then 1 else 0}:{l.duration}:{optTime l.endTime}"
  let ac := accs.map fun (k, g) => s!"{keyStr k}:{g}"
  let m := d.denoms.map fun dn => s!"{dn}:{s.mult dn}"
  let rep := if s.supply + s.offset < 0 then 0 else s.supply + s.offset
  let j := fun (l : List String) => "[" ++ ",".intercalate l ++ "]"
  s!"vl={j vl} st={j st} cn={j cn} sy={j sy} lk={j lk} ac={j ac} m={j m} sup={s.supply} off={s.offset} rep={rep}"

def finishOpS (d : DrvState) (op : OpS) : DrvState × String :=
  match applyOpIdS d.ss op with
  | .ok (s', some id) => let d' := { d with s := s'.b, k := s'.k }; (d', s!"ok {id} " ++ showState d')
  | .ok (s', none) => let d' := { d with s := s'.b, k := s'.k }; (d', "ok " ++ showState d')
  | .error .panic => (d, "panic " ++ showState d)
  | .error e => (d, s!"err:{e.toString} " ++ showState d)

def finishOp (d : DrvState) (op : Op) : DrvState × String := finishOpS d (.base op)

def parseVals (s : String) : Option (List Val) :=
  if s = "" then some [] else (s.splitOn ",").mapM fun x =>
    match x.splitOn ":" with
    | [t, sh] => do some { tokens := (← t.toInt?), shares := (← sh.toInt?) }
    | _ => none

def parseKeys (s : String) : Option (List AccKey) :=
  if s = "" then some [] else (s.splitOn ",").mapM fun x =>
    match x.splitOn "." with
    | [a, b] => do some ((← a.toNat?), (← b.toNat?))
    | _ => none

def parseNatList (s : String) : Option (List Nat) :=
  if s = "" then some [] else (s.splitOn ",").mapM String.toNat?

def parseAssets (s : String) : Option (List (Nat × Int)) :=
  if s = "" then some [] else (s.splitOn ",").mapM fun x =>
    match x.splitOn ":" with
    | [d, m] => do some ((← d.toNat?), (← m.toInt?))
    | _ => none

def parseUps : List String → Option (List (Nat × Int × Int × Bool))
  | [] => some []
  | x :: r =>
    match x.splitOn ":" with
    | [d, o, q, k] => do
      let d ← d.toNat?
      let o ← o.toInt?
      let q ← q.toInt?
      let rest ← parseUps r
      if k = "c" then some ((d, o, q, true) :: rest)
      else if k = "l" then some ((d, o, q, false) :: rest)
      else none
    | _ => none

def stripPrefix (p s : String) : Option String :=
  if s.startsWith p then some (s.drop p.length).toString else none

def stepSuperfluid (d : DrvState) (op : String) (args : List String) : DrvState × String :=
  match op, args with
  | "reset", [now, ub, rf, sup, off, lg, ll, v, a, dn, kk, pr] =>
    if (stripPrefix "p=" pr).bind String.toInt? ≠ some powerReduction then (d, "bad-op") else
    match [now, ub, rf, sup, off].mapM String.toInt?, lg.toNat?, ll.toNat?,
          (stripPrefix "v=" v).bind parseNatList, (stripPrefix "a=" a).bind parseAssets, (stripPrefix "d=" dn).bind parseNatList,
          (stripPrefix "k=" kk).bind parseVals with
    | some [now, ub, rf, sup, off], some lg, some ll, some vs, some as, some dns, some vals =>
      let s0 : State := { initSuperfluid.s with
        now := now, unbondingTime := ub, riskFactor := rf, supply := sup, offset := off,
        lastGauge := lg, lastLockId := ll, validators := vs, assets := as.map (·.1),
        mult := fun x => match as.find? (·.1 = x) with | some p => p.2 | none => 0 }
      let k0 : Stk := { val := fun i => match vals[i]? with | some v => v | none => { tokens := 0, shares := 0 },
                        dsh := fun _ => none }
      let d' : DrvState := { s := s0, k := k0, denoms := dns }
      (d', "ok " ++ showState d')
    | _, _, _, _, _, _, _ => (d, "bad-op")
  | "lock", [o, dn, a, du, sg] =>
    match o.toNat?, dn.toNat?, a.toInt?, du.toInt? with
    | some o, some dn, some a, some du => finishOp d (.lock o dn a du (sg = "1"))
    | _, _, _, _ => (d, "bad-op")
  | "addtolock", [snd, id, a] =>
    match snd.toNat?, id.toNat?, a.toInt? with
    | some snd, some id, some a => finishOp d (.addToLock snd id a)
    | _, _, _ => (d, "bad-op")
  | "delegate", [snd, id, v] =>
    match snd.toNat?, id.toNat?, v.toNat? with
    | some snd, some id, some v => finishOp d (.delegate snd id v)
    | _, _, _ => (d, "bad-op")
  | "undelegate", [snd, id] =>
    match snd.toNat?, id.toNat? with
    | some snd, some id => finishOp d (.undelegate snd id)
    | _, _ => (d, "bad-op")
  | "unbond", [snd, id] =>
    match snd.toNat?, id.toNat? with
    | some snd, some id => finishOp d (.unbond snd id)
    | _, _ => (d, "bad-op")
  | "undelunbond", [snd, id, a] =>
    match snd.toNat?, id.toNat?, a.toInt? with
    | some snd, some id, some a => finishOp d (.undelegateAndUnbond snd id a)
    | _, _, _ => (d, "bad-op")
  | "beginunlock", [snd, id, a] =>
    match snd.toNat?, id.toNat? with
    | some snd, some id =>
      if a = "-" then finishOp d (.beginUnlock snd id none)
      else match a.toInt? with
        | some a => finishOp d (.beginUnlock snd id (some a))
        | none => (d, "bad-op")
    | _, _ => (d, "bad-op")
  | "withdraw", [id] =>
    match id.toNat? with
    | some id => finishOp d (.withdraw id)
    | none => (d, "bad-op")
  -- real ExportGenesis, superfluid store wiped, real InitGenesis (Model/SuperfluidGenesis.lean)
  | "exportimport", [] =>
    match exportImport ((d.denoms.foldl max 0) + 1) d.s with
    | none => (d, "panic " ++ showState d)
    | some s' => let d' := { d with s := s' }; (d', "ok " ++ showState d')
  | "endblock", [] => finishOp d .endBlock
  | "advance", [dt] =>
    match dt.toInt? with
    | some dt => finishOp d (.advance dt)
    | none => (d, "bad-op")
  | "slash", [v, p, f, x] =>
    match v.toNat?, p.toInt?, f.toInt?, (stripPrefix "x=" x).bind parseNatList with
    | some v, some p, some f, some x => finishOpS d (.slash v p f x)
    | _, _, _, _ => (d, "bad-op")
  | "slashrefill", [v, p, f, x, t] =>
    match v.toNat?, p.toInt?, f.toInt?, (stripPrefix "x=" x).bind parseNatList, (stripPrefix "t=" t).bind parseAssets with
    | some v, some p, some f, some x, some t => finishOpS d (.slashRefill v p f x t)
    | _, _, _, _, _ => (d, "bad-op")
  | "epoch", args =>
    -- the last argument `o=<d.v,…>` is the order in which the store iterates the intermediary accounts
    match args.getLast? with
    | some l =>
      match stripPrefix "o=" l with
      | some o =>
        match parseUps args.dropLast, parseKeys o with
        | some ups, some order => finishOpS d (.epochO ups order)
        | _, _ => (d, "bad-op")
      | none =>
        match parseUps args with
        | some ups => finishOp d (.epoch ups)
        | none => (d, "bad-op")
    | none => finishOp d (.epoch [])
  | _, _ => (d, "bad-op")

end OsmoVerif.Superfluid
