/- line protocol for the x/gamm STORE (C19 export/import; `Model/GammGenesis.lean`): every op line of `DrvGamm` (same answers: the
core state is stepped by `stepGamm` itself), plus the total-liquidity store, migration records, gamm params and

  gammg exportimport                 -> ok            (ExportGenesis, gamm store wiped, InitGenesis)
  gammg totalliq <denom>             -> <amount>      (GetDenomLiquidity / TotalLiquidity query)
  gammg migration <bal:cl,bal:cl|->  -> ok            (SetMigrationRecords)
  gammg gammfee <coins>              -> ok            (gamm SetParams)
  gammg gdump                        -> next=<gamm next pool number> fee=[…] migration=[…] totalliq[…] (non-zero entries, sorted)

Not yet routed by Driver/Main.lean (lines to add: a field `gammg : Gamm.GState := Gamm.initGammG` and the case
`| "gammg" :: op :: args => let (x, o) := Gamm.stepGammG st.gammg op args; ({ st with gammg := x }, o)`).
The existing engine `gamm` keeps working unchanged on `stepGamm`, whose new op `exportimport` is the core part of this one. -/
import OsmoVerif.Model.GammGenesis
import OsmoVerif.Model.DrvGamm
namespace OsmoVerif.Gamm
open OsmoVerif.Ledger

def initGammG : GState := {}

/-- the message of a message op line (the parsing of `stepGamm`, which does not return it) -/
def parseMsg (op : String) (args : List String) : Option Msg :=
  match op, args with
  | "create", [u, k, cs] =>
    if k = "B" ∨ k = "S" then do some (.createPool (← parseUser u) (if k = "B" then .balancer else .stableswap) (← parseCoins cs))
    else none
  | "join", [u, id, sh, maxs, m, joined] => do
    let m ← parseOptInt m
    let joined ← parseCoins joined
    some (.joinPool (← parseUser u) (← id.toNat?) (← sh.toInt?) (← parseCoins maxs) (m.map fun x => (x, joined)))
  | "joinswapin", [u, id, d, a, ms, m] => do
    some (.joinSwapExternAmountIn (← parseUser u) (← id.toNat?) (← parseDenom d) (← a.toInt?) (← ms.toInt?) (← parseOptInt m))
  | "joinswapout", [u, id, d, sh, mx, m] => do
    some (.joinSwapShareAmountOut (← parseUser u) (← id.toNat?) (← parseDenom d) (← sh.toInt?) (← mx.toInt?) (← parseOptInt m))
  | "exit", [u, id, sh, mins, m] => do
    some (.exitPool (← parseUser u) (← id.toNat?) (← sh.toInt?) (← parseCoins mins) (← parseOptCoins m))
  | "exitswapin", [u, id, d, sh, mn, m, ms] => do
    some (.exitSwapShareAmountIn (← parseUser u) (← id.toNat?) (← parseDenom d) (← sh.toInt?) (← mn.toInt?) (← parseOptCoins m)
      (← parseOptInts ms))
  | "exitswapout", [u, id, d, a, m] => do
    some (.exitSwapExternAmountOut (← parseUser u) (← id.toNat?) (← parseDenom d) (← a.toInt?) (← parseOptInt m))
  | "swapin", u :: d :: a :: mn :: hops => do
    some (.swapExactAmountIn (← parseUser u) (← parseDenom d) (← a.toInt?) (← mn.toInt?) (← hops.mapM parseHopIn))
  | "swapout", u :: mx :: d :: a :: hops => do
    some (.swapExactAmountOut (← parseUser u) (← mx.toInt?) (← parseDenom d) (← a.toInt?) (← hops.mapM parseHopOut))
  | "send", [u, to, d, a] => do
    some (.bankSend (← parseUser u) (← parseAcct to) (← parseDenom d) (← a.toInt?))
  | _, _ => none

def parseMigration (s : String) : Option (List (Nat × Nat)) :=
  if s = "-" then some [] else
  (s.splitOn ",").mapM fun e =>
    match e.splitOn ":" with
    | [a, b] => do some ((← a.toNat?), (← b.toNat?))
    | _ => none

def gDump (g : GState) : String :=
  let tl := sortedEntries (g.totalLiq.map fun e => (showDenom e.1, e.2))
  let mg := ",".intercalate (g.migration.map fun e => s!"{e.1}:{e.2}")
  s!"next={g.nextPoolNumber} fee=[{showCoins g.poolCreationFee}] migration=[{mg}] totalliq[{tl}]"

def stepGammG (g : GState) (op : String) (args : List String) : GState × String :=
  match op, args with
  | "reset", [n] =>
    match n.toNat? with
    | some n => ({ core := { nextPoolId := n } }, "ok")
    | none => (g, "bad-op")
  | "exportimport", [] => (gammExportImport g, "ok")
  | "totalliq", [d] =>
    match parseDenom d with
    | some d => (g, s!"{g.liquidity d}")
    | none => (g, "bad-op")
  | "migration", [m] =>
    match parseMigration m with
    | some m => (applyOpT g (.setMigration m), "ok")
    | none => (g, "bad-op")
  | "gammfee", [cs] =>
    match parseCoins cs with
    | some cs => (applyOpT g (.setGammParams cs), "ok")
    | none => (g, "bad-op")
  | "gdump", [] => (g, gDump g)
  | _, _ =>
    match parseMsg op args with
    | some m =>
      -- the answer (and the new core) is the one of `stepGamm`; the `Record…` calls are applied when the message succeeded
      let r := stepGamm g.core op args
      match stepT g m with
      | some g' => ({ g' with core := r.1 }, r.2)
      | none => ({ g with core := r.1 }, r.2)
    | none => let r := stepGamm g.core op args; ({ g with core := r.1 }, r.2)

end OsmoVerif.Gamm
