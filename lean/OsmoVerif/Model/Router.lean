/-
Model of the x/poolmanager ROUTER (router.go, taker_fee.go, msg_server.go, types/routes.go).

The pool modules (balancer, stableswap, concentrated) are ABSTRACT: a `Pools σ` record of arbitrary
functions over an arbitrary chain state `σ` (pools + bank).  What is modelled is exactly the router logic:
 * `chargeTakerFee` / `CalcTakerFeeExactIn` / `CalcTakerFeeExactOut` (bit-exact `Dec` arithmetic, the
   reduced-fee whitelist, per-denom-pair overrides, `SetDenomPairTakerFee`'s delete-when-default quirk),
 * `SwapExactAmountIn` (single pool), `RouteExactAmountIn` (index loop: inner hops min-out 1, the caller's
   minimum only on the last hop), `SplitRouteExactAmountIn`,
 * `createMultihopExpectedSwapOuts` (backward estimate pass), `RouteExactAmountOut` (forward execution with
   the estimates as per-hop outputs/maxima, `insExpected[0] = tokenInMaxAmount`), `SplitRouteExactAmountOut`,
 * `MultihopEstimateOutGivenExactAmountIn(NoTakerFee)`, `MultihopEstimateInGivenExactAmountOut`,
 * route validation, message-level atomicity (`applyTx`).
An error / panic of the Go code is `Except.error`; an error carries NO state (the message handler's cache
context is discarded).  `TakerFeeSkim` is not modelled (no taker-fee share agreements registered: it is a
no-op then); `trackVolume` only writes the volume statistics and never fails.  Core only.
-/
import OsmoVerif.Model.Num

namespace OsmoVerif.Router
open OsmoVerif.Num

abbrev Denom := String
abbrev PoolId := Nat
abbrev Addr := String

inductive Err
  | invalid      -- route / coin validation
  | pool         -- the pool module returned an error or panicked
  | miss         -- (trace-driven pools only) the trace has no entry for what the router asked the pool
  | limit        -- min-out / max-in (price impact protection)
  | fee          -- taker fee arithmetic panicked, negative fee coin, or the fee transfer failed
  | notPositive  -- estimate / split total not positive
  | overflow     -- sdk.Int overflow
  deriving Repr, DecidableEq

/-- the pool modules and the bank, as arbitrary functions over an arbitrary state. -/
structure Pools (σ : Type) where
  /-- `swapModule.SwapExactAmountIn` WITHOUT its min-out comparison: pool, sender, denom in, denom out, amount in
  ↦ (amount out, amount the pool actually took: a concentrated pool that hits its price limit takes less than
  it was offered; the router ignores this component). -/
  swapIn : PoolId → Addr → Denom → Denom → Int → σ → Except Err ((Int × Int) × σ)
  /-- `swapModule.SwapExactAmountOut` without its max-in comparison: requested amount out ↦ (amount in, amount
  actually delivered). -/
  swapOut : PoolId → Addr → Denom → Denom → Int → σ → Except Err ((Int × Int) × σ)
  /-- `swapModule.CalcOutAmtGivenIn` -/
  calcOut : PoolId → Denom → Denom → Int → σ → Except Err Int
  /-- `swapModule.CalcInAmtGivenOut` -/
  calcIn : PoolId → Denom → Denom → Int → σ → Except Err Int
  /-- `bankKeeper.SendCoinsFromAccountToModule(sender, takerFeeCollector, fee)` -/
  sendFee : Addr → Denom → Int → σ → Except Err σ

/-! ### taker fee configuration -/

structure FeeCfg where
  default : Int                              -- raw Dec (param DefaultTakerFee)
  pairs : List ((Denom × Denom) × Int)       -- store: (tokenIn, tokenOut) ↦ raw Dec; ORDER of the pair matters
  whitelist : List Addr                      -- param ReducedFeeWhitelist
  deriving Repr

def lookupPair (k : Denom × Denom) : List ((Denom × Denom) × Int) → Option Int
  | [] => none
  | (k', v) :: rest => if k' = k then some v else lookupPair k rest

/-- `GetTradingPairTakerFee`: the override if present, else the default. -/
def getTradingPairTakerFee (c : FeeCfg) (dIn dOut : Denom) : Int :=
  match lookupPair (dIn, dOut) c.pairs with
  | some v => v
  | none => c.default

/-- `SetDenomPairTakerFee`: a fee equal to the CURRENT default deletes the override. -/
def setDenomPairTakerFee (c : FeeCfg) (d0 d1 : Denom) (fee : Int) : FeeCfg :=
  let rest := c.pairs.filter (fun p => p.1 ≠ (d0, d1))
  if fee = c.default then { c with pairs := rest } else { c with pairs := ((d0, d1), fee) :: rest }

/-- `CalcTakerFeeExactIn`: `(1 − fee)·amount` truncated; the fee coin is the rest. -/
def calcTakerFeeExactIn (amount fee : Int) : Option (Int × Int) :=
  match Dec.sub P18 fee with
  | none => none
  | some factor =>
    match Dec.mulInt factor amount with
    | none => none
    | some prod =>
      match Dec.truncateInt prod with
      | none => none
      | some after =>
        match chkInt (amount - after) with
        | none => none
        | some f => some (after, f)

/-- `CalcTakerFeeExactOut`: `amount / (1 − fee)` (18-decimal half-even quotient), then `Ceil`. -/
def calcTakerFeeExactOut (amount fee : Int) : Option (Int × Int) :=
  match Dec.sub P18 fee with
  | none => none
  | some factor =>
    match Dec.quo (amount * P18) factor with
    | none => none
    | some q =>
      match Dec.ceil q with
      | none => none
      | some c =>
        match Dec.truncateInt c with
        | none => none
        | some after =>
          match chkInt (after - amount) with
          | none => none
          | some f => some (after, f)

section
variable {σ : Type}

/-- `chargeTakerFee`: (amount after fee, fee charged, state). -/
def chargeTakerFee (P : Pools σ) (c : FeeCfg) (sender : Addr) (dIn : Denom) (amount : Int) (dOut : Denom)
    (exactIn : Bool) (s : σ) : Except Err ((Int × Int) × σ) :=
  if c.whitelist.contains sender then .ok ((amount, 0), s) else
  match (if exactIn then calcTakerFeeExactIn amount (getTradingPairTakerFee c dIn dOut)
         else calcTakerFeeExactOut amount (getTradingPairTakerFee c dIn dOut)) with
  | none => .error .fee
  | some (after, f) =>
    if f < 0 then .error .fee else          -- sdk.NewCoins panics on a negative coin
    match P.sendFee sender dIn f s with
    | .error e => .error e
    | .ok s' => .ok ((after, f), s')

/-- what one hop did (for the ledger). -/
structure HopRec where
  pool : PoolId
  dIn : Denom
  amtIn : Int      -- what the pool received
  fee : Int        -- taker fee charged on top (same denom)
  dOut : Denom
  amtOut : Int     -- what the pool paid out
  deriving Repr, DecidableEq

/-- poolmanager `SwapExactAmountIn` (one pool): taker fee on the input, then the pool swap with the min-out. -/
def swapExactAmountIn (P : Pools σ) (c : FeeCfg) (sender : Addr) (pool : PoolId) (dIn : Denom) (amount : Int)
    (dOut : Denom) (minOut : Int) (s : σ) : Except Err ((Int × HopRec) × σ) :=
  match chargeTakerFee P c sender dIn amount dOut true s with
  | .error e => .error e
  | .ok ((after, f), s1) =>
    match P.swapIn pool sender dIn dOut after s1 with
    | .error e => .error e
    | .ok ((y, taken), s2) =>
      if y < minOut then .error .limit else
      .ok ((y, ⟨pool, dIn, taken, f, dOut, y⟩), s2)

/-! ### route validation (`sdk.ValidateDenom`: `[a-zA-Z][a-zA-Z0-9/:._-]{2,127}`) -/

def denomChar (ch : Char) : Bool :=
  ch.isAlphanum || ch = '/' || ch = ':' || ch = '.' || ch = '_' || ch = '-'

def validDenom (d : Denom) : Bool :=
  match d.toList with
  | [] => false
  | c0 :: rest => c0.isAlpha && decide (2 ≤ rest.length) && decide (rest.length ≤ 127) && rest.all denomChar

structure StepIn where
  pool : PoolId
  outDenom : Denom
  deriving Repr, DecidableEq

structure StepOut where
  pool : PoolId
  inDenom : Denom
  deriving Repr, DecidableEq

def validRouteIn (r : List StepIn) : Bool := !r.isEmpty && r.all (fun st => validDenom st.outDenom)
def validRouteOut (r : List StepOut) : Bool := !r.isEmpty && r.all (fun st => validDenom st.inDenom)

/-! ### exact-in -/

/-- the `for i, routeStep := range route` loop of `RouteExactAmountIn` (`n = len(route)`). -/
def routeInLoop (P : Pools σ) (c : FeeCfg) (sender : Addr) (n : Nat) (minOut : Int) :
    Nat → List StepIn → Denom → Int → List HopRec → σ → Except Err ((Int × List HopRec) × σ)
  | _, [], _, amt, acc, s => .ok ((amt, acc.reverse), s)
  | i, st :: rest, dIn, amt, acc, s =>
    match swapExactAmountIn P c sender st.pool dIn amt st.outDenom (if n - 1 = i then minOut else 1) s with
    | .error e => .error e
    | .ok ((y, rec), s') => routeInLoop P c sender n minOut (i + 1) rest st.outDenom y (rec :: acc) s'

/-- `RouteExactAmountIn`. -/
def routeExactAmountIn (P : Pools σ) (c : FeeCfg) (sender : Addr) (route : List StepIn) (dIn : Denom)
    (amount minOut : Int) (s : σ) : Except Err ((Int × List HopRec) × σ) :=
  if validRouteIn route then routeInLoop P c sender route.length minOut 0 route dIn amount [] s
  else .error .invalid

structure LegIn where
  route : List StepIn
  amount : Int
  deriving Repr, DecidableEq

/-- `osmoutils.ContainsDuplicateDeepEqual`: compares ADJACENT elements only. -/
def hasAdjacentDup {α : Type} [DecidableEq α] : List α → Bool
  | a :: b :: r => decide (a = b) || hasAdjacentDup (b :: r)
  | _ => false

def lastOutDenom (r : List StepIn) : Option Denom := r.getLast?.map (·.outDenom)

/-- `ValidateSwapAmountInSplitRoute`. -/
def validSplitIn (legs : List LegIn) : Bool :=
  !legs.isEmpty && legs.all (fun l => validRouteIn l.route) &&
  (match legs with
   | [] => true
   | l0 :: rest => rest.all (fun l => lastOutDenom l.route = lastOutDenom l0.route)) &&
  !hasAdjacentDup (legs.map (·.route))

/-- the leg loop of `SplitRouteExactAmountIn` (every leg with min-out 0). -/
def splitInLoop (P : Pools σ) (c : FeeCfg) (sender : Addr) (dIn : Denom) :
    List LegIn → Int → List HopRec → σ → Except Err ((Int × List HopRec) × σ)
  | [], total, acc, s => .ok ((total, acc), s)
  | l :: rest, total, acc, s =>
    if l.amount < 0 then .error .invalid else       -- sdk.NewCoin panics
    match routeExactAmountIn P c sender l.route dIn l.amount 0 s with
    | .error e => .error e
    | .ok ((y, recs), s') =>
      match chkInt (total + y) with
      | none => .error .overflow
      | some t => splitInLoop P c sender dIn rest t (acc ++ recs) s'

/-- `SplitRouteExactAmountIn`. -/
def splitRouteExactAmountIn (P : Pools σ) (c : FeeCfg) (sender : Addr) (legs : List LegIn) (dIn : Denom)
    (minOut : Int) (s : σ) : Except Err ((Int × List HopRec) × σ) :=
  if validSplitIn legs then
    match splitInLoop P c sender dIn legs 0 [] s with
    | .error e => .error e
    | .ok ((total, recs), s') =>
      if total ≤ 0 then .error .notPositive
      else if total < minOut then .error .limit
      else .ok ((total, recs), s')
  else .error .invalid

/-- `multihopEstimateOutGivenExactAmountInInternal` loop (no sender: the whitelist is NOT consulted). -/
def estimateInLoop (P : Pools σ) (c : FeeCfg) (applyFee : Bool) :
    List StepIn → Denom → Int → σ → Except Err Int
  | [], _, amt, _ => .ok amt
  | st :: rest, dIn, amt, s =>
    match (if applyFee then (calcTakerFeeExactIn amt (getTradingPairTakerFee c dIn st.outDenom)).map (·.1)
           else some amt) with
    | none => .error .fee
    | some actual =>
      match P.calcOut st.pool dIn st.outDenom actual s with
      | .error e => .error e
      | .ok y => if y ≤ 0 then .error .notPositive else estimateInLoop P c applyFee rest st.outDenom y s

/-- `MultihopEstimateOutGivenExactAmountIn` (`applyFee = true`) / `…NoTakerFee` (`false`). -/
def multihopEstimateOutGivenExactAmountIn (P : Pools σ) (c : FeeCfg) (applyFee : Bool) (route : List StepIn)
    (dIn : Denom) (amount : Int) (s : σ) : Except Err Int :=
  if validRouteIn route then estimateInLoop P c applyFee route dIn amount s else .error .invalid

/-! ### exact-out -/

/-- `createMultihopExpectedSwapOuts`, walking the REVERSED route (`for i := len(route)-1; i >= 0; i--`); the
accumulator ends up in route order. -/
def expectedInsRev (P : Pools σ) (c : FeeCfg) :
    List StepOut → Denom → Int → List Int → σ → Except Err (List Int)
  | [], _, _, acc, _ => .ok acc
  | st :: rest, dOut, out, acc, s =>
    match P.calcIn st.pool st.inDenom dOut out s with
    | .error e => .error e
    | .ok tin =>
      match calcTakerFeeExactOut tin (getTradingPairTakerFee c st.inDenom dOut) with
      | none => .error .fee
      | some (after, _) => expectedInsRev P c rest st.inDenom after (after :: acc) s

def createMultihopExpectedSwapOuts (P : Pools σ) (c : FeeCfg) (route : List StepOut) (dOut : Denom) (out : Int)
    (s : σ) : Except Err (List Int) :=
  expectedInsRev P c route.reverse dOut out [] s

/-- one iteration of the execution loop of `RouteExactAmountOut`: pool swap for the requested output with the
per-hop maximum, then the taker fee ON TOP of what the pool took.  Returns the amount incl. the fee. -/
def hopExactOut (P : Pools σ) (c : FeeCfg) (sender : Addr) (st : StepOut) (maxIn : Int) (dOut : Denom) (out : Int)
    (s : σ) : Except Err ((Int × HopRec) × σ) :=
  match P.swapOut st.pool sender st.inDenom dOut out s with
  | .error e => .error e
  | .ok ((cur, delivered), s1) =>
    if cur > maxIn then .error .limit else
    match chargeTakerFee P c sender st.inDenom cur dOut false s1 with
    | .error e => .error e
    | .ok ((after, f), s2) => .ok ((after, ⟨st.pool, st.inDenom, cur, f, dOut, delivered⟩), s2)

/-- the `for i, routeStep := range route` loop of `RouteExactAmountOut` with its index accesses
(`insExpected[i]`, `route[i+1]`, `insExpected[i+1]`); `k` = iterations left. -/
def routeOutLoop (P : Pools σ) (c : FeeCfg) (sender : Addr) (route : List StepOut) (ins : List Int)
    (dOut : Denom) (out : Int) :
    Nat → Nat → Int → List HopRec → σ → Except Err ((Int × List HopRec) × σ)
  | 0, _, tin, acc, s => .ok ((tin, acc.reverse), s)
  | k + 1, i, tin, acc, s =>
    match route[i]?, ins[i]? with
    | some st, some maxI =>
      match (if i ≠ route.length - 1 then
               (match route[i + 1]?, ins[i + 1]? with
                | some nx, some a => some (nx.inDenom, a)
                | _, _ => none)
             else some (dOut, out)) with
      | none => .error .pool            -- index out of range panic (recovered by the deferred handler)
      | some (d, a) =>
        match hopExactOut P c sender st maxI d a s with
        | .error e => .error e
        | .ok ((after, rec), s') =>
          routeOutLoop P c sender route ins dOut out k (i + 1) (if i = 0 then after else tin) (rec :: acc) s'
    | _, _ => .error .pool

/-- `RouteExactAmountOut`. -/
def routeExactAmountOut (P : Pools σ) (c : FeeCfg) (sender : Addr) (route : List StepOut) (maxIn : Int)
    (dOut : Denom) (out : Int) (s : σ) : Except Err ((Int × List HopRec) × σ) :=
  if validRouteOut route then
    match createMultihopExpectedSwapOuts P c route dOut out s with
    | .error e => .error e
    | .ok ins0 =>
      if ins0.length = 0 then .ok ((0, []), s) else     -- `return osmomath.Int{}, nil` (unreachable: route non-empty)
      routeOutLoop P c sender route (ins0.set 0 maxIn) dOut out route.length 0 0 [] s
  else .error .invalid

/-- `MultihopEstimateInGivenExactAmountOut`. -/
def multihopEstimateInGivenExactAmountOut (P : Pools σ) (c : FeeCfg) (route : List StepOut) (dOut : Denom)
    (out : Int) (s : σ) : Except Err Int :=
  if validRouteOut route then
    match createMultihopExpectedSwapOuts P c route dOut out s with
    | .error e => .error e
    | .ok ins =>
      match ins with
      | [] => .ok 0
      | x :: _ => .ok x
  else .error .invalid

structure LegOut where
  route : List StepOut
  amount : Int
  deriving Repr, DecidableEq

def firstInDenom (r : List StepOut) : Option Denom := r.head?.map (·.inDenom)

/-- `ValidateSwapAmountOutSplitRoute`. -/
def validSplitOut (legs : List LegOut) : Bool :=
  !legs.isEmpty && legs.all (fun l => validRouteOut l.route) &&
  (match legs with
   | [] => true
   | l0 :: rest => rest.all (fun l => firstInDenom l.route = firstInDenom l0.route)) &&
  !hasAdjacentDup (legs.map (·.route))

/-- `intMaxValue` = 2^256 − 1. -/
def intMaxValue : Int := 2 ^ 256 - 1

def splitOutLoop (P : Pools σ) (c : FeeCfg) (sender : Addr) (dOut : Denom) :
    List LegOut → Int → List HopRec → σ → Except Err ((Int × List HopRec) × σ)
  | [], total, acc, s => .ok ((total, acc), s)
  | l :: rest, total, acc, s =>
    if l.amount < 0 then .error .invalid else
    match routeExactAmountOut P c sender l.route intMaxValue dOut l.amount s with
    | .error e => .error e
    | .ok ((x, recs), s') =>
      match chkInt (total + x) with
      | none => .error .overflow
      | some t => splitOutLoop P c sender dOut rest t (acc ++ recs) s'

/-- `SplitRouteExactAmountOut`. -/
def splitRouteExactAmountOut (P : Pools σ) (c : FeeCfg) (sender : Addr) (legs : List LegOut) (dOut : Denom)
    (maxIn : Int) (s : σ) : Except Err ((Int × List HopRec) × σ) :=
  if validSplitOut legs then
    match splitOutLoop P c sender dOut legs 0 [] s with
    | .error e => .error e
    | .ok ((total, recs), s') =>
      if total ≤ 0 then .error .notPositive
      else if total > maxIn then .error .limit
      else .ok ((total, recs), s')
  else .error .invalid

/-! ### message level: a failing message leaves the state it started from -/

/-- what the message handler's cache context does: commit on success, discard on error. -/
def applyTx {α : Type} (r : Except Err (α × σ)) (s : σ) : σ × Except Err α :=
  match r with
  | .ok (a, s') => (s', .ok a)
  | .error e => (s, .error e)

/-- a query: the result, the state as it was. -/
def applyQuery {α : Type} (r : Except Err α) (s : σ) : σ × Except Err α := (s, r)

end
end OsmoVerif.Router
