/-
Superfluid on top of a model of cosmos-sdk x/staking's share arithmetic (validators with `Tokens` and
`DelegatorShares`, delegations as shares, slashing), ADDED to Model/Superfluid.lean.  Core only.

`Model/Superfluid.lean` treats the staking module as a ledger at exchange rate one (`State.deleg`).  Here the
ledger is replaced by what the SDK does:

* `Val` — `types.Validator.Tokens` (sdk `Int`) and `.DelegatorShares` (`LegacyDec`, raw 18-decimal `Int`);
* `Stk.dsh (denom, validator)` — the shares of the intermediary account's delegation (`none` = no delegation
  record; `Unbond` removes the record when the shares reach zero);
* `Val.tokensFromShares` / `sharesFromTokens` / `sharesFromTokensTruncated`, `AddTokensFromDel`, `RemoveDelShares`
  (the last delegator gets all remaining tokens), `ValidateUnbondAmount`, `Unbond`, `InstantUndelegate`
  (osmosis' fork of x/staking), `Slash` → `RemoveValidatorTokens`, with the SDK's roundings: `MulInt` exact,
  `QuoInt`/`QuoTruncate` truncate, `Quo` half-even at 18 decimals, `TruncateInt`, `RoundInt`;
* the superfluid code paths on top (stake.go, slash.go, hooks.go): `mintOsmoTokensAndDelegate` (supply offset by the
  minted amount), `forceUndelegateAndBurnOsmoTokens` (supply offset by the amount ACTUALLY undelegated and burnt,
  which is less than the requested amount when the share arithmetic truncates), `RefreshIntermediaryDelegationAmounts`
  (current amount = `TokensFromShares(shares).RoundInt()`, a missing delegation record counts as 0),
  `BeforeValidatorSlashed` → `SlashLockupsForValidatorSlash` (every lock with a staking or unstaking marker of the
  slashed validator loses `⌊amount · effective fraction⌋`; `AfterValidatorSlashed` is never called by this SDK
  version, so the stake is NOT refreshed by a slash).

The state is `SState = (b : State, k : Stk)`: `b` is the state of Model/Superfluid.lean (its `deleg` field is not
used here), so every lockup / marker primitive and every lemma about it is reused as is.  At exchange rate one
(`shares = tokens · 10¹⁸` for every validator, nobody slashed) the two models agree (`Props/C11.lean`,
`rate_one_*`); the driver runs THIS model.

Failing inner steps of the two all-or-nothing branches (`osmoutils.ApplyFuncIfNoError`: an error or a recovered panic
discards everything the branch wrote; the callers `AfterAddTokensToLock` and `RefreshIntermediaryDelegationAmounts` log
the error and go on):
* `Delegate` refuses a validator whose exchange rate is invalid — no tokens but outstanding shares, the state a 100 %
  slash leaves (`ErrDelegatorShareExRateInvalid`, checked AFTER superfluid has found the validator);
* `Delegate` → `AddValidatorTokensAndShares` → `SetValidatorByPowerIndex` panics (`Int64() out of bound`) when the
  validator's new tokens reach `2⁶³` power units (`powerOverflows`): the last step of the branch;
* `ValidateUnbondAmount` refuses a validator without tokens and an amount worth more shares than the delegation has.
A 100 % slash itself (`removeTokensFromLock` leaves a lock without coins, which the lock model does not represent:
`Err.unmodelled` in `slashLock`) is modelled as the composite `slashRefillS`: the slash and, straight after it, the
top-up (`AddTokensToLockByID`) of every lock it emptied — so that no state of a history holds an empty lock.

Outside the model: unbonding / redelegation entries (the intermediary accounts never have any: they leave through
`InstantUndelegate`), jailing and the validator-set update of the staking EndBlocker, the distribution module's
reward bookkeeping triggered by the delegation hooks (no rewards are allocated in the engine), a lock left without
coins by a 100 % slash and not topped up.
-/
import OsmoVerif.Model.Superfluid

namespace OsmoVerif.Superfluid
open OsmoVerif.Num

structure Val where
  tokens : Int             -- Validator.Tokens
  shares : Int             -- Validator.DelegatorShares, raw Dec
  deriving DecidableEq, Repr

structure Stk where
  val : Nat → Val
  dsh : AccKey → Option Int

structure SState where
  b : State
  k : Stk

/-! ## x/staking/types/validator.go -/

/-- `TokensFromShares`: `shares.MulInt(v.Tokens).Quo(v.DelegatorShares)` (half-even at 18 decimals; division by
zero panics). -/
def Val.tokensFromShares (v : Val) (sh : Int) : Option Int :=
  match Dec.mulInt sh v.tokens with
  | none => none
  | some m => Dec.quo m v.shares

/-- `SharesFromTokens` (the caller has checked `Tokens ≠ 0`): `DelegatorShares.MulInt(amt).QuoInt(Tokens)`. -/
def Val.sharesFromTokens (v : Val) (amt : Int) : Option Int :=
  match Dec.mulInt v.shares amt with
  | none => none
  | some m => Dec.quoInt m v.tokens

/-- `SharesFromTokensTruncated`: `DelegatorShares.MulInt(amt).QuoTruncate(NewDecFromInt(Tokens))`. -/
def Val.sharesFromTokensTruncated (v : Val) (amt : Int) : Option Int :=
  match Dec.mulInt v.shares amt with
  | none => none
  | some m => Dec.quoTruncate m (v.tokens * P18)

/-- the stake of a delegation as users see it: `TokensFromShares(shares).TruncateInt()`. -/
def Val.stakeTrunc (v : Val) (sh : Int) : Option Int :=
  match v.tokensFromShares sh with
  | none => none
  | some t => Dec.truncateInt t

/-- `AddTokensFromDel`: the shares issued for `amount` tokens and the validator afterwards.  `none` = a Go panic
(`SharesFromTokens` on a validator without tokens, an out-of-range `Dec`/`Int`). -/
def Val.addTokensFromDel (v : Val) (amount : Int) : Option (Val × Int) :=
  let issued : Option Int :=
    if v.shares = 0 then some (amount * P18)        -- the first delegation sets the exchange rate to one
    else if v.tokens = 0 then none                  -- ErrInsufficientShares → panic
    else v.sharesFromTokens amount
  match issued with
  | none => none
  | some i =>
    match chkInt (v.tokens + amount), Dec.add v.shares i with
    | some t, some s => some ({ tokens := t, shares := s }, i)
    | _, _ => none

/-- `RemoveDelShares`: the tokens issued for `sh` shares and the validator afterwards; the last delegation share
gets all remaining tokens.  `none` = a Go panic. -/
def Val.removeDelShares (v : Val) (sh : Int) : Option (Val × Int) :=
  match Dec.sub v.shares sh with
  | none => none
  | some rem =>
    if rem = 0 then some ({ tokens := 0, shares := rem }, v.tokens)
    else
      match v.stakeTrunc sh with
      | none => none
      | some t => if v.tokens - t < 0 then none else some ({ tokens := v.tokens - t, shares := rem }, t)

/-! ## the validator power index (x/staking/keeper/validator.go, types/keys.go) -/

/-- cosmos-sdk `types/staking.go` `DefaultPowerReduction` (what `StakingKeeper.PowerReduction` returns).  An SDK
constant, not a constant of the osmosis tree: the engine reads it from the real keeper and sends it with every `reset`
line, and the driver refuses a history whose value differs. -/
def powerReduction : Int := 1000000

/-- `SetValidatorByPowerIndex` → `GetValidatorsByPowerIndexKey` → `TokensToConsensusPower(tokens, powerReduction)` =
`tokens.Quo(powerReduction).Int64()`, which panics when the quotient is not an `int64`. -/
def powerOverflows (tokens : Int) : Bool := decide (2 ^ 63 ≤ Int.tdiv tokens powerReduction)

/-! ## stake.go on top of the staking keeper -/

def setVal (k : Stk) (i : Nat) (v : Val) : Stk := { k with val := upd k.val i v }
def setDsh (k : Stk) (key : AccKey) (d : Option Int) : Stk := { k with dsh := updK k.dsh key d }

/-- `mintOsmoTokensAndDelegate`: mint `amount`, offset it, send it to the intermediary account, `Delegate` it.
Everything after the validator lookup runs inside `ApplyFuncIfNoError`: an error or a panic there is an error of the
call and NOTHING of the branch is written — the function returns the error alone, so a caller that goes on after a failed
mint goes on from the state it had (`increaseHookS`, `refreshOneS`). -/
def mintS (s : SState) (amount : Int) (key : AccKey) : Except Err SState :=
  if key.2 ∉ s.b.validators then .error .noval else
  if amount ≤ 0 then .error .other else            -- MintCoins rejects a zero coin (NewCoin panics below zero)
  let v := s.k.val key.2
  if v.tokens = 0 ∧ 0 < v.shares then .error .other else     -- `InvalidExRate`
  match v.addTokensFromDel amount with
  | none => .error .other
  | some (v', issued) =>
    if powerOverflows v'.tokens then .error .other else         -- `SetValidatorByPowerIndex` panics, recovered
    let d := match s.k.dsh key with | some x => x | none => 0    -- a new delegation starts with zero shares
    match Dec.add d issued with
    | none => .error .other
    | some d' =>
      .ok { b := { s.b with supply := s.b.supply + amount, offset := s.b.offset - amount },
            k := setDsh (setVal s.k key.2 v') key (some d') }

/-- `ValidateUnbondAmount(delAddr, valAddr, amt)` for an existing delegation with `d` shares: the shares to unbond. -/
def validateUnbondAmount (v : Val) (d amount : Int) : Except Err Int :=
  if v.tokens = 0 then .error .other else          -- ErrInsufficientShares
  match v.sharesFromTokens amount, v.sharesFromTokensTruncated amount with
  | some sh, some sht =>
    if sht > d then .error .other                  -- "invalid shares amount"
    else .ok (if sh > d then d else sh)            -- capped at the delegation's shares
  | _, _ => .error .panic

/-- `forceUndelegateAndBurnOsmoTokens`: `ValidateUnbondAmount`, then (inside `ApplyFuncIfNoError`)
`InstantUndelegate` = `Unbond` + pool → account, send to the module, burn, and `AddSupplyOffset` by the amount
that was ACTUALLY undelegated (`undelegatedCoins`), not by the requested `amount`. -/
def burnS (s : SState) (amount : Int) (key : AccKey) : Except Err SState :=
  if key.2 ∉ s.b.validators then .error .other else
  match s.k.dsh key with
  | none => .ok s                                  -- ErrNoDelegation ⇒ nil
  | some d =>
    if amount < 0 then .error .unmodelled else
    let v := s.k.val key.2
    match validateUnbondAmount v d amount with
    | .error e => .error e
    | .ok sh =>
      if d < sh then .error .other else            -- ErrNotEnoughDelegationShares (unreachable: `sh ≤ d`)
      match Dec.sub d sh, v.removeDelShares sh with
      | some d', some (v', got) =>
        .ok { b := { s.b with supply := s.b.supply - got, offset := s.b.offset + got },
              k := setDsh (setVal s.k key.2 v') key (if d' = 0 then none else some d') }
      | _, _ => .error .other

/-- the refresh's `currentAmount`: 0 without a delegation record, else `TokensFromShares(shares).RoundInt()`. -/
def currentS (s : SState) (key : AccKey) : Option Int :=
  match s.k.dsh key with
  | none => some 0
  | some d =>
    match (s.k.val key.2).tokensFromShares d with
    | none => none
    | some t => Dec.roundInt t

/-! ## superfluid entry points: as in Model/Superfluid.lean, over the staking model -/

def liftB (s : SState) (r : Except Err State) : Except Err SState :=
  match r with
  | .error e => .error e
  | .ok b' => .ok { s with b := b' }

def superfluidDelegateS (s : SState) (sender id val : Nat) : Except Err SState :=
  match s.b.locks id with
  | none => .error .nolock
  | some l =>
    if l.owner ≠ sender then .error .notowner else
    if l.single = false then .error .multicoin else
    if l.denom ∉ s.b.assets then .error .notasset else
    if l.endTime.isSome then .error .unlocking else
    if l.duration < s.b.unbondingTime then .error .duration else
    if alreadyStaking s.b id then .error .already else
    let key : AccKey := (l.denom, val)
    let s1 := getOrCreateAcc s.b key
    let s2 := { s1 with conns := upd s1.conns id (some key) }
    match createSynth s2 id .bonding key with
    | .error e => .error e
    | .ok s3 =>
      match osmoTokens s3 l.denom l.amount with
      | .error e => .error e
      | .ok amt =>
        if amt = 0 then .error .zero else
        mintS { s with b := s3 } amt key

def undelegateCommonS (s : SState) (sender id : Nat) : Except Err (SState × AccKey) :=
  match s.b.locks id with
  | none => .error .nolock
  | some l =>
    if l.owner ≠ sender then .error .notowner else
    if l.single = false then .error .multicoin else
    match s.b.conns id with
    | none => .error .notsf
    | some key =>
      let s1 := { s.b with conns := upd s.b.conns id none }
      match deleteSynth s1 id .bonding (l.denom, key.2) with
      | .error e => .error e
      | .ok s2 =>
        match osmoTokens s2 key.1 l.amount with
        | .error e => .error e
        | .ok amt =>
          match burnS { s with b := s2 } amt key with
          | .error e => .error e
          | .ok s3 => .ok (s3, key)

def superfluidUndelegateS (s : SState) (sender id : Nat) : Except Err SState :=
  match undelegateCommonS s sender id with
  | .error e => .error e
  | .ok (s1, key) => liftB s1 (createSynth s1.b id .unbonding key)

def superfluidUndelegateAndUnbondLockS (s : SState) (id sender : Nat) (amount : Int) : Except Err (SState × Nat) :=
  match s.b.locks id with
  | none => .error .nolock
  | some l =>
    if amount < 0 then .error .unmodelled else
    if amount = 0 then .error .other else
    if l.amount < amount then .error .other else
    match s.b.conns id with
    | none => .error .notsf
    | some key =>
      match superfluidUndelegateS s sender id with
      | .error e => .error e
      | .ok s1 =>
        match unbondLock s1.b id sender (some amount) with
        | .error e => .error e
        | .ok (b2, nid) =>
          if l.amount = amount then
            if nid ≠ id then .error .panic else .ok ({ s1 with b := b2 }, id)
          else
            if nid = id then .error .panic else
            match deleteSynth b2 id .unbonding (l.denom, key.2) with
            | .error e => .error e
            | .ok b3 =>
              match superfluidDelegateS { s1 with b := b3 } sender id key.2 with
              | .error e => .error e
              | .ok s4 =>
                match createSynth s4.b nid .unbonding key with
                | .error e => .error e
                | .ok b5 => .ok ({ s4 with b := b5 }, nid)

def increaseHookS (s : SState) (id : Nat) (lockDenom : Nat) (amount : Int) : Except Err SState :=
  match s.b.conns id with
  | none => .ok s
  | some key =>
    match findAcc s.b.accs key with
    | none => .ok s
    | some _ =>
      match osmoTokens s.b key.1 (if key.1 = lockDenom then amount else 0) with
      | .error .panic => .error .panic
      | .error _ => .ok s
      | .ok amt =>
        if amt = 0 then .ok s else
        match mintS s amt key with
        | .error .panic => .error .panic
        | .error _ => .ok s
        | .ok s' => .ok s'

def addTokensToLockS (s : SState) (sender id : Nat) (amount : Int) : Except Err SState :=
  match s.b.locks id with
  | none => .error .nolock
  | some l =>
    if l.owner ≠ sender then .error .notowner else
    if l.single = false then .error .unmodelled else
    if amount ≤ 0 then .error .unmodelled else
    let s1 := { s.b with locks := upd s.b.locks id (some { l with amount := l.amount + amount }) }
    match s1.synths id with
    | _ :: _ :: _ => .error .other
    | [] => increaseHookS { s with b := s1 } id l.denom amount
    | [sy] =>
      let s2 : State := { s1 with accum := updK s1.accum (sy.kind, sy.key) (accAdd (s1.accum (sy.kind, sy.key)) sy.duration amount) }
      increaseHookS { s with b := s2 } id l.denom amount

/-- one iteration of `RefreshIntermediaryDelegationAmounts`. -/
def refreshOneS (s : SState) (key : AccKey) : Except Err SState :=
  if key.2 ∉ s.b.validators then .ok s else
  match currentS s key with
  | none => .error .panic                 -- `TokensFromShares` divides by zero shares / leaves the Dec range
  | some cur =>
    match expectedDelegation s.b key with
    | .error _ => .error .panic           -- a nil Int is compared
    | .ok refreshed =>
      if refreshed > cur then
        match mintS s (refreshed - cur) key with
        | .error .panic => .error .panic
        | .error _ => .ok s
        | .ok s' => .ok s'
      else if cur > refreshed then
        match burnS s (cur - refreshed) key with
        | .error .panic => .error .panic
        | .error _ => .ok s
        | .ok s' => .ok s'
      else .ok s

def refreshAllS (s : SState) : List (AccKey × Nat) → Except Err SState
  | [] => .ok s
  | (k, _) :: r =>
    match refreshOneS s k with
    | .error e => .error e
    | .ok s1 => refreshAllS s1 r

def epochS (s : SState) (ups : List (Nat × Int × Int × Bool)) : Except Err SState :=
  match updateMults s.b ups with
  | .error e => .error e
  | .ok (b1, false) => .ok { s with b := b1 }
  | .ok (b1, true) => refreshAllS { s with b := b1 } s.b.accs

/-- the epoch with the iteration order of `GetAllIntermediaryAccounts` as an input: the store iterates the accounts
by ADDRESS (a hash of denom and validator address), and at an exchange rate ≠ 1 the order matters (an
`InstantUndelegate` that loses a fraction of a token to truncation leaves it to the validator's other delegators).
`order` must list exactly the intermediary accounts. -/
def epochOS (s : SState) (ups : List (Nat × Int × Int × Bool)) (order : List AccKey) : Except Err SState :=
  if ¬ (s.b.accs.all (fun p => order.contains p.1) ∧ order.all (fun k => (findAcc s.b.accs k).isSome)) then .error .unmodelled else
  match updateMults s.b ups with
  | .error e => .error e
  | .ok (b1, false) => .ok { s with b := b1 }
  | .ok (b1, true) => refreshAllS { s with b := b1 } (order.map fun k => (k, 0))

/-! ## slashing (x/staking/keeper/slash.go `Slash`, superfluid slash.go) -/

/-- `slashSynthLock` for lock `id` when validator `val` is slashed by the (effective) fraction `f`: a lock with a
staking or unstaking marker of `val` loses `⌊amount · f⌋` (also in the marker's accumulation store, at the marker's
duration).  A slash amount of zero changes nothing (`sdk.NewCoins` drops the zero coin, `removeTokensFromLock`
panics on `coins[0]` inside `ApplyFuncIfNoError`).  A slash that would empty the lock is outside the model. -/
def slashLock (b : State) (val : Nat) (f : Int) (skip : List Nat) (id : Nat) : Except Err State :=
  if id ∈ skip then .ok b else
  match b.locks id with
  | none => .ok b
  | some l =>
    match b.synths id with
    | [sy] =>
      if sy.key.2 ≠ val then .ok b else
      if (findAcc b.accs sy.key).isNone then .ok b else
      if sy.key.1 ≠ l.denom then .ok b else
      if l.single = false then .error .unmodelled else
      match Dec.mul (l.amount * P18) f with
      | none => .error .panic
      | some sa =>
        match Dec.truncateInt sa with
        | none => .error .panic
        | some t =>
          if t ≤ 0 then .ok b else
          if l.amount ≤ t then .error .unmodelled else
          .ok { b with locks := upd b.locks id (some { l with amount := l.amount - t }),
                       accum := updK b.accum (sy.kind, sy.key) (accAdd (b.accum (sy.kind, sy.key)) sy.duration (-t)) }
    | _ => .ok b

/-- `SlashLockupsForValidatorSlash` over lock ids `1..n`.  `skip` = the locks of concentrated full-range shares for
which `prepareConcentratedLockForSlash` fails (an input: the concentrated-liquidity module is outside the model;
in practice the locks split off by a partial undelegate-and-unbond, which have no position mapped to them — their
slash is silently dropped by `ApplyFuncIfNoError`). -/
def slashLocks (b : State) (val : Nat) (f : Int) (skip : List Nat) : Nat → Except Err State
  | 0 => .ok b
  | n + 1 =>
    match slashLocks b val f skip n with
    | .error e => .error e
    | .ok b1 => slashLock b1 val f skip (n + 1)

/-- `tokensToBurn = MaxInt(MinInt(slashAmount, validator.Tokens), 0)`. -/
def burnAmount (slashAmount tokens : Int) : Int :=
  let b := if slashAmount ≤ tokens then slashAmount else tokens
  if b < 0 then 0 else b

/-- the effective fraction handed to the hooks is capped at one. -/
def capOne (f : Int) : Int := if f > P18 then P18 else f

/-- `StakingKeeper.Slash(consAddr, infractionHeight = current height, power, fraction)` with
`powTok = TokensFromConsensusPower(power)`: returns the burnt amount.  The burnt tokens leave the bank supply (they
are burnt from the bonded pool); the supply offset is not touched. -/
def slashS (s : SState) (val : Nat) (powTok frac : Int) (skip : List Nat) : Except Err (SState × Int) :=
  if frac < 0 then .error .other else
  match Dec.mul (powTok * P18) frac with
  | none => .error .panic
  | some sd =>
    match Dec.truncateInt sd with
    | none => .error .panic
    | some slashAmount =>
      if val ∉ s.b.validators then .ok (s, 0) else
      if burnAmount slashAmount (s.k.val val).tokens = 0 then .ok (s, 0) else
      -- `tokens > 0` here; effective fraction for the hooks
      match Dec.quoRoundUp (burnAmount slashAmount (s.k.val val).tokens * P18) ((s.k.val val).tokens * P18) with
      | none => .error .panic
      | some eff0 =>
        match (if capOne eff0 = 0 then .ok s.b else slashLocks s.b val (capOne eff0) skip s.b.lastLockId) with
        | .error e => .error e
        | .ok b1 =>
          .ok ({ b := { b1 with supply := b1.supply - burnAmount slashAmount (s.k.val val).tokens },
                 k := setVal s.k val { (s.k.val val) with tokens := (s.k.val val).tokens - burnAmount slashAmount (s.k.val val).tokens } },
               burnAmount slashAmount (s.k.val val).tokens)

/-! ## a 100 % slash together with the top-up of the locks it empties -/

/-- the amount the owner adds back to lock `id` straight after the slash. -/
def refillOf : List (Nat × Int) → Nat → Option Int
  | [], _ => none
  | (i, a) :: r, id => if i = id then some a else refillOf r id

/-- `slashSynthLock` as in `slashLock`, for a slash that may take the WHOLE amount (effective fraction one: the validator
loses all its tokens).  `removeTokensFromLock` then leaves the lock without coins; the lock model has no such lock, so
the step is taken together with the owner's `AddTokensToLockByID(id, a)` that follows (`refill`): the lock ends with
`amount − t + a`, and the marker's accumulation store, `Decrease`d by `t` and `Increase`d by `a` at the marker's
duration, changes by `a − t`.  An emptied lock that is not topped up is outside the model.  (The hook of the top-up
runs later, when the validator has lost its tokens: `refillHooks`.) -/
def slashLockR (b : State) (val : Nat) (f : Int) (skip : List Nat) (refill : List (Nat × Int)) (id : Nat) : Except Err State :=
  if id ∈ skip then .ok b else
  match b.locks id with
  | none => .ok b
  | some l =>
    match b.synths id with
    | [sy] =>
      if sy.key.2 ≠ val then .ok b else
      if (findAcc b.accs sy.key).isNone then .ok b else
      if sy.key.1 ≠ l.denom then .ok b else
      if l.single = false then .error .unmodelled else
      match Dec.mul (l.amount * P18) f with
      | none => .error .panic
      | some sa =>
        match Dec.truncateInt sa with
        | none => .error .panic
        | some t =>
          if t ≤ 0 then .ok b else
          if l.amount < t then .error .unmodelled else
          match (if l.amount = t then refillOf refill id else some 0) with
          | none => .error .unmodelled
          | some a =>
            if l.amount + (a - t) ≤ 0 then .error .unmodelled else
            .ok { b with locks := upd b.locks id (some { l with amount := l.amount + (a - t) }),
                         accum := updK b.accum (sy.kind, sy.key) (accAdd (b.accum (sy.kind, sy.key)) sy.duration (a - t)) }
    | _ => .ok b

def slashLocksR (b : State) (val : Nat) (f : Int) (skip : List Nat) (refill : List (Nat × Int)) : Nat → Except Err State
  | 0 => .ok b
  | n + 1 =>
    match slashLocksR b val f skip refill n with
    | .error e => .error e
    | .ok b1 => slashLockR b1 val f skip refill (n + 1)

/-- the hooks of the top-ups (`AfterAddTokensToLock` → `IncreaseSuperfluidDelegation`), in the order of the top-ups,
AFTER the validator has been slashed: for a lock that is still delegated the hook tries to mint the value of the added
amount — which `Delegate` refuses when the validator is left without tokens but with shares — and swallows the error.
A listed lock that the slash did not empty (its amount is not the added amount) is outside the model. -/
def refillHooks (s : SState) : List (Nat × Int) → Except Err SState
  | [] => .ok s
  | (id, a) :: r =>
    match s.b.locks id with
    | none => .error .unmodelled
    | some l =>
      if l.amount ≠ a then .error .unmodelled else
      match increaseHookS s id l.denom a with
      | .error e => .error e
      | .ok s1 => refillHooks s1 r

/-- the engine's composite op: `StakingKeeper.Slash` as in `slashS`, then `AddTokensToLockByID` for every lock the slash
emptied.  The lock part of a top-up (amount, accumulation store) and its hook (validator, delegation, bank) touch
disjoint parts of the state, and the lock part does not read what the slash writes to the validator: taking the lock
parts together with the slash of the locks and the hooks after the validator update gives the state of the real
sequence slash; top-up₁; …; top-upₙ. -/
def slashRefillS (s : SState) (val : Nat) (powTok frac : Int) (skip : List Nat) (refill : List (Nat × Int)) : Except Err (SState × Int) :=
  if frac < 0 then .error .other else
  match Dec.mul (powTok * P18) frac with
  | none => .error .panic
  | some sd =>
    match Dec.truncateInt sd with
    | none => .error .panic
    | some slashAmount =>
      if val ∉ s.b.validators then .error .unmodelled else
      if burnAmount slashAmount (s.k.val val).tokens = 0 then .error .unmodelled else
      match Dec.quoRoundUp (burnAmount slashAmount (s.k.val val).tokens * P18) ((s.k.val val).tokens * P18) with
      | none => .error .panic
      | some eff0 =>
        match (if capOne eff0 = 0 then .ok s.b else slashLocksR s.b val (capOne eff0) skip refill s.b.lastLockId) with
        | .error e => .error e
        | .ok b1 =>
          match refillHooks { b := { b1 with supply := b1.supply - burnAmount slashAmount (s.k.val val).tokens },
                              k := setVal s.k val { (s.k.val val) with tokens := (s.k.val val).tokens - burnAmount slashAmount (s.k.val val).tokens } }
                            refill with
          | .error e => .error e
          | .ok s2 => .ok (s2, burnAmount slashAmount (s.k.val val).tokens)

/-! ## histories -/

inductive OpS
  | base (op : Op)
  | slash (val : Nat) (powTok frac : Int) (skip : List Nat)
  | epochO (ups : List (Nat × Int × Int × Bool)) (order : List AccKey)
  | slashRefill (val : Nat) (powTok frac : Int) (skip : List Nat) (refill : List (Nat × Int))

def applyOpIdS (s : SState) : OpS → Except Err (SState × Option Nat)
  | .base (.lock o d a du sg) => (createLock s.b o d a du sg).map fun r => ({ s with b := r.1 }, some r.2)
  | .base (.addToLock snd id a) => (addTokensToLockS s snd id a).map fun r => (r, none)
  | .base (.delegate snd id v) => (superfluidDelegateS s snd id v).map fun r => (r, none)
  | .base (.undelegate snd id) => (superfluidUndelegateS s snd id).map fun r => (r, none)
  | .base (.unbond snd id) => (superfluidUnbondLock s.b id snd).map fun r => ({ s with b := r }, none)
  | .base (.undelegateAndUnbond snd id a) => (superfluidUndelegateAndUnbondLockS s id snd a).map fun r => (r.1, some r.2)
  | .base (.beginUnlock snd id c) => (msgBeginUnlocking s.b snd id c).map fun r => ({ s with b := r.1 }, some r.2)
  | .base (.withdraw id) => (withdraw s.b id).map fun r => ({ s with b := r }, none)
  | .base .endBlock => (endBlock s.b).map fun r => ({ s with b := r }, none)
  | .base (.advance dt) => (advance s.b dt).map fun r => ({ s with b := r }, none)
  | .base (.epoch ups) => (epochS s ups).map fun r => (r, none)
  | .slash v p f x => (slashS s v p f x).map fun r => (r.1, some r.2.toNat)
  | .epochO ups order => (epochOS s ups order).map fun r => (r, none)
  | .slashRefill v p f x t => (slashRefillS s v p f x t).map fun r => (r.1, some r.2.toNat)

def applyOpS (s : SState) (op : OpS) : Except Err SState := (applyOpIdS s op).map (·.1)

/-- a failed call leaves the state as it was (the caller's cache context is discarded). -/
def stepS (s : SState) (op : OpS) : SState :=
  match applyOpS s op with
  | .ok s' => s'
  | .error _ => s

def runS (s : SState) (ops : List OpS) : SState := ops.foldl stepS s

end OsmoVerif.Superfluid
