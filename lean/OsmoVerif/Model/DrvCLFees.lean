/- line protocol for the `cl` (app) engine: the pool state machine WITH the spread-reward bookkeeping
(`Model/CLFees.lean`).  Same op lines and the same answers as `DrvCLPool` for reset/create/withdraw/add/transfer/
swap/est/dump; new: `collect <sender> <id>`, and `fdump` (accumulator value, total shares, growth-outside of every
stored tick, every position's accumulator record and its claimable amount). -/
import OsmoVerif.Model.CLFees
import OsmoVerif.Model.DrvCLPool
namespace OsmoVerif.CLFees
open OsmoVerif.CL OsmoVerif.CLPool

def initCLFees : Fees := { pool := initCLPool }

def showV (v : V2) : String := s!"{v.a},{v.b}"

def dumpFees (f : Fees) : String :=
  let os := " ".intercalate (f.acc.outs.map fun o => s!"{o.1}:{showV o.2}")
  let rs := " ".intercalate (f.acc.recs.map fun r => s!"{r.id}:{r.shares}:{showV r.snap}:{showV r.unclaimed}")
  let cs := " ".intercalate (f.pool.positions.map fun q =>
    match claimable f q.id with
    | some c => s!"{q.id}:{c.1},{c.2}"
    | none => s!"{q.id}:err")
  s!"ok G={showV f.acc.global} TS={f.acc.totalShares} fee0={f.pool.fee0 - f.out0} fee1={f.pool.fee1 - f.out1} O[{os}] R[{rs}] C[{cs}]"

def stepCLFees (f : Fees) (op : String) (args : List String) : Fees × String :=
  match op, args with
  | "reset", [spacing, spf, scale] =>
    match ints [spacing, spf, scale] with
    | some [spacing, spf, scale] => ({ pool := { spacing := spacing, spf := spf, scale := scale } }, "ok")
    | _ => (f, "bad-op")
  | "create", [owner, lower, upper, a0, a1] =>
    match ints [lower, upper, a0, a1] with
    | some [lower, upper, a0, a1] =>
      match createPosition f owner lower upper a0 a1 with
      | some (f', id, x0, x1, liq, lo, up) => (f', s!"ok id={id} a0={x0} a1={x1} liq={liq} lower={lo} upper={up}")
      | none => (f, "err")
    | _ => (f, "bad-op")
  | "withdraw", [owner, id, liq] =>
    match id.toNat?, liq.toInt? with
    | some id, some liq =>
      match withdrawPosition f owner id liq with
      | some (f', x0, x1) => (f', s!"ok a0={x0} a1={x1}")
      | none => (f, "err")
    | _, _ => (f, "bad-op")
  | "add", [owner, id, a0, a1] =>
    match id.toNat?, ints [a0, a1] with
    | some id, some [a0, a1] =>
      match addToPosition f owner id a0 a1 with
      | some (f', nid, x0, x1) => (f', s!"ok id={nid} a0={x0} a1={x1}")
      | none => (f, "err")
    | _, _ => (f, "bad-op")
  | "transfer", [sender, id, newOwner] =>
    match id.toNat? with
    | some id =>
      match transferPosition f sender id newOwner with
      | some f' => (f', "ok")
      | none => (f, "err")
    | none => (f, "bad-op")
  | "swap", [ogi, zfo, specified] =>
    match bool? ogi, bool? zfo, specified.toInt? with
    | some ogi, some zfo, some specified =>
      match swap f ogi zfo specified with
      | some (f', ain, aout, fee) => (f', s!"ok in={ain} out={aout} fee={fee}")
      | none => (f, "err")
    | _, _, _ => (f, "bad-op")
  | "collect", [sender, id] =>
    match id.toNat? with
    | some id =>
      match collect f sender id with
      | some (f', c0, c1) => (f', s!"ok c0={c0} c1={c1}")
      | none => (f, "err")
    | none => (f, "bad-op")
  | "fdump", [] => (f, dumpFees f)
  | "est", _ => let r := stepCLPool f.pool op args; (f, r.2)
  | "dump", [] => (f, dumpPool f.pool)
  -- genesis export → import of the module (Model/CLPoolGenesis): identity on the pool component (proved:
  -- `Props.C19.cl_export_import_eq`); the spread-reward accumulators are part of the genesis and are carried over unchanged
  | "exportimport", [] => let r := stepCLPool f.pool op args; ({ f with pool := r.1 }, r.2)
  | "nextid", [] => let r := stepCLPool f.pool op args; (f, r.2)
  | "setnextid", [_] => let r := stepCLPool f.pool op args; ({ f with pool := r.1 }, r.2)
  | _, _ => (f, "bad-op")

end OsmoVerif.CLFees
