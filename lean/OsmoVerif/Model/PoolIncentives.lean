/-
Model of x/pool-incentives' distribution table (C18: "every minted coin is allocated"), the part of the
mint epoch that runs AFTER x/mint has sent the pool-incentives share to the module account:

* `x/pool-incentives/keeper/distr.go`  `validateRecords`       → `validateFrom` / `validateRecords`
*                                      `ReplaceDistrRecords`   → `replaceDistrRecords`
*                                      `UpdateDistrRecords`    → `updateDistrRecords`
*                                      `AllocateAsset`         → `allocLoop` / `allocateAsset`
* `x/pool-incentives/keeper/hooks.go`  `AfterDistributeMintedCoin` (panics on an AllocateAsset error; the
  epoch hook wrapper turns the panic into "nothing of this epoch happened") → `none`.

Weights and amounts are sdk `Int`s (`Int`), gauge ids `Nat`.  The table is the stored `DistrInfo`
(`TotalWeight` is a CACHED aggregate next to the record list: `AllocateAsset` divides by it, it never sums
the records).  `x/incentives` is reduced to what the two callers need: which gauge ids exist and whether
they are perpetual (`validateRecords`), and `AddToGaugeRewards` = a bank send from the module account that
fails when the balance does not cover the amount.  Core only.
-/
import OsmoVerif.Model.Num
import OsmoVerif.Model.NumGen
import OsmoVerif.Model.Mint

namespace OsmoVerif.PoolIncentives
open OsmoVerif.Num

structure Record where
  gauge : Nat
  weight : Int
  deriving Repr, DecidableEq

structure DistrInfo where
  totalWeight : Int
  records : List Record
  deriving Repr, DecidableEq

/-- gauges known to x/incentives: id ↦ `IsPerpetual`. -/
abbrev Gauges := List (Nat × Bool)

def lookupGauge : Gauges → Nat → Option Bool
  | [], _ => none
  | (g, p) :: rest, id => if g = id then some p else lookupGauge rest id

/-- result of a governance handler: `err` = error returned (proposal fails, nothing stored),
`panic` = sdk `Int` overflow. -/
inductive Res (α : Type) where
  | ok (a : α)
  | err
  | panic
  deriving Repr, DecidableEq

def sumWeights : List Record → Int
  | [] => 0
  | r :: rs => r.weight + sumWeights rs

/-- `validateRecords`: `seen` = `gaugeIdFlags`, `last` = `lastGaugeID`.  Rejects a repeated gauge id, an id
below its predecessor, a gauge that does not exist or is not perpetual (id 0 = community pool is exempt). -/
def validateFrom (gs : Gauges) : List Nat → Nat → List Record → Bool
  | _, _, [] => true
  | seen, last, r :: rs =>
    if seen.contains r.gauge then false
    else if r.gauge < last then false
    else if r.gauge ≠ 0 then
      match lookupGauge gs r.gauge with
      | none => false
      | some perpetual => if !perpetual then false else validateFrom gs (r.gauge :: seen) r.gauge rs
    else validateFrom gs (r.gauge :: seen) r.gauge rs

def validateRecords (gs : Gauges) (rs : List Record) : Bool := validateFrom gs [] 0 rs

/-- `totalWeight = totalWeight.Add(record.Weight)` over a list (sdk `Int.Add` panics beyond 256 bits). -/
def addWeights : Int → List Record → Option Int
  | t, [] => some t
  | t, r :: rs => (SInt.add t r.weight).bind fun t' => addWeights t' rs

/-- `ReplaceDistrRecords`: the records are stored AS GIVEN (zero weights included). -/
def replaceDistrRecords (gs : Gauges) (_d : DistrInfo) (rs : List Record) : Res DistrInfo :=
  if !validateRecords gs rs then .err
  else match addWeights 0 rs with
    | none => .panic
    | some t => .ok { totalWeight := t, records := rs }

/-- `recordsMap[id] = record` on a map kept as an association list sorted by gauge id (the Go map is read
back through `sort.SliceStable` by gauge id, keys are unique: the sorted list IS the result). -/
def upsert (r : Record) : List Record → List Record
  | [] => [r]
  | x :: rest =>
    if r.gauge < x.gauge then r :: x :: rest
    else if r.gauge = x.gauge then r :: rest
    else x :: upsert r rest

def find? (id : Nat) : List Record → Option Record
  | [] => none
  | x :: rest => if x.gauge = id then some x else find? id rest

/-- first loop of `UpdateDistrRecords`: the map of the existing records and the total RE-SUMMED from them
(the stored `TotalWeight` is not read). -/
def loadExisting : List Record → Int → List Record → Option (List Record × Int)
  | m, t, [] => some (m, t)
  | m, t, r :: rs => (SInt.add t r.weight).bind fun t' => loadExisting (upsert r m) t' rs

/-- second loop: a record that is present has its old weight subtracted before the new one is added. -/
def applyUpdates : List Record → Int → List Record → Option (List Record × Int)
  | m, t, [] => some (m, t)
  | m, t, r :: rs =>
    match find? r.gauge m with
    | some old =>
      (SInt.sub t old.weight).bind fun t1 =>
      (SInt.add t1 r.weight).bind fun t2 => applyUpdates (upsert r m) t2 rs
    | none =>
      (SInt.add t r.weight).bind fun t1 => applyUpdates (upsert r m) t1 rs

/-- `UpdateDistrRecords`: upsert by gauge id, a zero weight removes the record, result sorted by gauge id. -/
def updateDistrRecords (gs : Gauges) (d : DistrInfo) (rs : List Record) : Res DistrInfo :=
  match loadExisting [] 0 d.records with
  | none => .panic
  | some (m0, t0) =>
    if !validateRecords gs rs then .err
    else match applyUpdates m0 t0 rs with
      | none => .panic
      | some (m, t) => .ok { totalWeight := t, records := m.filter (fun r => r.weight ≠ 0) }

/-- `UpdatePoolIncentivesProposal.ValidateBasic` / `ReplacePoolIncentivesProposal.ValidateBasic` (checked when the
proposal is submitted): at least one record, no negative weight (`DistrRecord.ValidateBasic`). -/
def proposalValidateBasic (rs : List Record) : Bool :=
  !rs.isEmpty && rs.all (fun r => decide (0 ≤ r.weight))

/-- an `UpdatePoolIncentivesProposal` as governance runs it: `ValidateBasic`, then the handler. -/
def updateProposal (gs : Gauges) (d : DistrInfo) (rs : List Record) : Res DistrInfo :=
  if !proposalValidateBasic rs then .err else updateDistrRecords gs d rs

/-- a `ReplacePoolIncentivesProposal` as governance runs it. -/
def replaceProposal (gs : Gauges) (d : DistrInfo) (rs : List Record) : Res DistrInfo :=
  if !proposalValidateBasic rs then .err else replaceDistrRecords gs d rs

/-! ## AllocateAsset -/

structure AllocOut where
  gauges : List (Nat × Int)   -- `AddToGaugeRewards(gauge, amount)` calls, in record order
  community : Int             -- funded to the community pool out of the module account
  left : Int                  -- balance of the module account afterwards
  deriving Repr, DecidableEq

/-- the amount of one record: `assetAmountDec.Mul(record.Weight.ToLegacyDec().Quo(totalWeightDec)).TruncateInt()`
(the weight RATIO is rounded half-even to 18 decimals first). -/
def allocAmount (asset total weight : Int) : Option Int :=
  (Dec.quo (SInt.toDec weight) (SInt.toDec total)).bind fun q =>
  (Dec.mul (SInt.toDec asset) q).bind fun m =>
  Dec.truncateInt m

/-- the loop of `AllocateAsset`; `bal` = what the module account still holds (a send beyond it is an error:
the hook panics). -/
def allocLoop (asset total : Int) : Int → List Record → Option AllocOut
  | bal, [] => some { gauges := [], community := 0, left := bal }
  | bal, r :: rs =>
    (allocAmount asset total r.weight).bind fun a =>
    if a ≤ 0 then allocLoop asset total bal rs        -- `!allocatingAmount.IsPositive()`: skipped
    else if bal < a then none                          -- insufficient funds
    else (allocLoop asset total (bal - a) rs).bind fun o =>
      if r.gauge = 0 then some { o with community := o.community + a }
      else some { o with gauges := (r.gauge, a) :: o.gauges }

/-- `AllocateAsset` on a module account holding `bal` of the minted denom (the WHOLE balance is the asset:
what an earlier epoch left behind is allocated again). -/
def allocateAsset (bal : Int) (d : DistrInfo) : Option AllocOut :=
  if bal = 0 then some { gauges := [], community := 0, left := 0 }
  else if d.totalWeight = 0 then some { gauges := [], community := bal, left := 0 }
  else allocLoop bal d.totalWeight bal d.records

def sumGauges : List (Nat × Int) → Int
  | [] => 0
  | x :: xs => x.2 + sumGauges xs

end OsmoVerif.PoolIncentives

/-! ## the mint epoch including the allocation of the pool-incentives share -/
namespace OsmoVerif.Mint
open OsmoVerif.PoolIncentives

/-- what the mint hook meets outside x/mint: the distribution table, the gauges that exist, and what the
pool-incentives module account already holds of the minted denom. -/
structure World where
  distr : DistrInfo := ⟨0, []⟩
  gauges : Gauges := []
  poolAcct : Int := 0
  deriving Repr, DecidableEq

/-- the developer-share portions that go to the community pool (empty receiver address; no receivers at all:
the whole developer share). -/
def devToCommunity : List Receiver → List Int → Int
  | r :: rs, x :: xs => (if r.community then x else 0) + devToCommunity rs xs
  | _, _ => 0

/-- `AfterEpochEnd` of x/mint INCLUDING `AfterDistributeMintedCoin` → `AllocateAsset`: the pool-incentives
share lands on the module account, whose whole balance is then allocated.  An allocation error panics inside
the hook: the epoch hook wrapper discards the whole epoch (`none`). -/
def mintEpoch (p : Params) (s : State) (w : World) (e : Int) : Option (State × World × Option (Obs × AllocOut)) :=
  match afterEpochEnd p s e with
  | none => none
  | some (s', none) => some (s', w, none)
  | some (s', some o) =>
    match allocateAsset (w.poolAcct + o.pool) w.distr with
    | none => none
    | some a => some (s', { w with poolAcct := a.left }, some (o, a))

end OsmoVerif.Mint
